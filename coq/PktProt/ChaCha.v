(** ChaCha20 (RFC 8439 block function), the ChaCha20 header-protection mask of RFC 9001 5.4.4
    (internal/handshake/header_protector.go chachaHeaderProtector) and ChaCha20-Poly1305
    (RFC 8439 AEAD) over byte lists; 32-bit words are [Z] masked to 32 bits, Poly1305 works on
    [Z] modulo 2^130 - 5.  Written for [vm_compute]; shares no code with /repo.
    Executable definitions only. *)
From Coq Require Import List ZArith Bool.
From V Require Import PktProt.Sha256 PktProt.Aes.
Import ListNotations.
Open Scope Z_scope.

Definition rotl32 (n x : Z) : Z := Z.lor (Z.land (Z.shiftl x n) mask32) (Z.shiftr x (32 - n)).

(** little-endian words / bytes *)
Fixpoint le_words (b : list Z) : list Z :=
  match b with
  | b0 :: b1 :: b2 :: b3 :: r => (b0 + 256 * (b1 + 256 * (b2 + 256 * b3))) :: le_words r
  | _ => []
  end.
Definition le_word_bytes (w : Z) : list Z :=
  [Z.land w 255; Z.land (Z.shiftr w 8) 255; Z.land (Z.shiftr w 16) 255; Z.land (Z.shiftr w 24) 255].

Definition upd_nth (l : list Z) (i : nat) (v : Z) : list Z := firstn i l ++ v :: skipn (S i) l.

Definition quarter_round (s : list Z) (a b c d : nat) : list Z :=
  let g i := nth i s 0 in
  let a1 := add32 (g a) (g b) in let d1 := rotl32 16 (Z.lxor (g d) a1) in
  let c1 := add32 (g c) d1 in let b1 := rotl32 12 (Z.lxor (g b) c1) in
  let a2 := add32 a1 b1 in let d2 := rotl32 8 (Z.lxor d1 a2) in
  let c2 := add32 c1 d2 in let b2 := rotl32 7 (Z.lxor b1 c2) in
  upd_nth (upd_nth (upd_nth (upd_nth s a a2) b b2) c c2) d d2.

Definition double_round (s : list Z) : list Z :=
  let s := quarter_round s 0 4 8 12 in let s := quarter_round s 1 5 9 13 in
  let s := quarter_round s 2 6 10 14 in let s := quarter_round s 3 7 11 15 in
  let s := quarter_round s 0 5 10 15 in let s := quarter_round s 1 6 11 12 in
  let s := quarter_round s 2 7 8 13 in quarter_round s 3 4 9 14.

Fixpoint iter_rounds (n : nat) (s : list Z) : list Z :=
  match n with O => s | S n' => iter_rounds n' (double_round s) end.

(** 64-byte keystream block for a 32-byte key, 32-bit counter and 12-byte nonce *)
Definition chacha_block (key : list Z) (counter : Z) (nonce : list Z) : list Z :=
  let st := [1634760805; 857760878; 2036477234; 1797285236] ++ le_words key ++ [counter] ++ le_words nonce in
  flat_map le_word_bytes (map (fun p => add32 (fst p) (snd p)) (combine (iter_rounds 10 st) st)).

(** chachaHeaderProtector.apply: counter = sample[0:4] little endian, nonce = sample[4:16] *)
Definition chacha_mask (hp_key sample : list Z) : list Z :=
  firstn 5 (chacha_block hp_key (nth 0 (le_words (firstn 4 sample)) 0) (skipn 4 sample)).

(** Poly1305 *)
Definition le_int (b : list Z) : Z := fold_right (fun x acc => x + 256 * acc) 0 b.
Fixpoint le_bytes (n : nat) (v : Z) : list Z :=
  match n with O => [] | S n' => Z.land v 255 :: le_bytes n' (Z.shiftr v 8) end.

Definition poly_p : Z := 2 ^ 130 - 5.
Fixpoint poly_loop (fuel : nat) (r acc : Z) (msg : list Z) : Z :=
  match fuel with
  | O => acc
  | S f =>
    match msg with
    | [] => acc
    | _ => poly_loop f r (((acc + le_int (firstn 16 msg ++ [1])) * r) mod poly_p) (skipn 16 msg)
    end
  end.
Definition poly1305 (key msg : list Z) : list Z :=
  let r := Z.land (le_int (firstn 16 key)) 21267647620597763993911028882763415551 in
  let s := le_int (skipn 16 key) in
  le_bytes 16 (poly_loop (S (length msg / 16)) r 0 msg + s).

Fixpoint chacha_ctr (fuel : nat) (key nonce : list Z) (ctr : Z) (data : list Z) : list Z :=
  match fuel with
  | O => []
  | S f =>
    match data with
    | [] => []
    | _ => xor_list (firstn 64 data) (chacha_block key ctr nonce) ++ chacha_ctr f key nonce (ctr + 1) (skipn 64 data)
    end
  end.

Definition chachapoly_tag (key nonce ad ct : list Z) : list Z :=
  poly1305 (firstn 32 (chacha_block key 0 nonce))
           (pad16 ad ++ pad16 ct ++ le_bytes 8 (Z.of_nat (length ad)) ++ le_bytes 8 (Z.of_nat (length ct))).

Definition chachapoly_seal (key nonce ad pt : list Z) : list Z :=
  let ct := chacha_ctr (S (length pt / 64)) key nonce 1 pt in ct ++ chachapoly_tag key nonce ad ct.

Definition chachapoly_open (key nonce ad c : list Z) : option (list Z) :=
  if (length c <? 16)%nat then None else
  let n := (length c - 16)%nat in
  let ct := firstn n c in
  if bytes_eqb (chachapoly_tag key nonce ad ct) (skipn n c) then Some (chacha_ctr (S (n / 64)) key nonce 1 ct) else None.
