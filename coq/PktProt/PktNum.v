(** Model of internal/protocol/packet_number.go (DecodePacketNumber,
    PacketNumberLengthForHeader) and internal/ackhandler/packet_number_generator.go
    (sequential and skipping generators).  PacketNumber is int64 in Go: [Z] here, with the
    real sentinel InvalidPacketNumber = -1.  The bit operations of the code are kept as bit
    operations ([Z.land]/[Z.lor]/[Z.lnot] on [Z] coincide with two's complement on int64 as
    long as nothing overflows; the theorems carry the range hypotheses).
    Executable definitions only. *)
From Coq Require Import List ZArith Bool.
From V Require Import Gen.Params.
Import ListNotations.
Open Scope Z_scope.

Definition InvalidPacketNumber : Z := PP_InvalidPacketNumber.

(** func DecodePacketNumber(length PacketNumberLen, largest, truncated PacketNumber) PacketNumber *)
Definition decodePN (length largest truncated : Z) : Z :=
  let expected := largest + 1 in
  let win := Z.shiftl 1 (length * 8) in
  let hwin := win / 2 in
  let mask := win - 1 in
  let candidate := Z.lor (Z.land expected (Z.lnot mask)) truncated in
  if (candidate <=? expected - hwin) && (candidate <? Z.shiftl 1 62 - win) then candidate + win
  else if (candidate >? expected + hwin) && (candidate >=? win) then candidate - win
  else candidate.

(** func PacketNumberLengthForHeader(pn, largestAcked PacketNumber) PacketNumberLen *)
Definition lenForHeader (pn largestAcked : Z) : Z :=
  let numUnacked := if largestAcked =? InvalidPacketNumber then pn + 1 else pn - largestAcked in
  if numUnacked <? Z.shiftl 1 (16 - 1) then PP_PacketNumberLen2
  else if numUnacked <? Z.shiftl 1 (24 - 1) then PP_PacketNumberLen3
  else PP_PacketNumberLen4.

(** What appendPacketNumber puts on the wire and readPacketNumber reads back: the low
    [len] bytes of pn, i.e. uint8/uint16/uint32(pn) (3 bytes: the low 3 of uint32). *)
Definition truncatePN (len pn : Z) : Z := pn mod Z.shiftl 1 (len * 8).

(** ** sequentialPacketNumberGenerator *)
Record seqgen := { sq_next : Z }.
Definition seq_new (initial : Z) : seqgen := {| sq_next := initial |}.
Definition seq_peek (g : seqgen) : Z := sq_next g.
Definition seq_pop (g : seqgen) : (bool * Z) * seqgen := ((false, sq_next g), {| sq_next := sq_next g + 1 |}).

(** ** skippingPacketNumberGenerator.  [draw] is the value returned by
    rng.Int31n(int32(2*period)) (an oracle; Int31n never returns a negative number). *)
Record skipgen := { sk_period : Z; sk_maxPeriod : Z; sk_next : Z; sk_nextToSkip : Z }.

Definition generateNewSkip (g : skipgen) (draw : Z) : skipgen :=
  {| sk_period := Z.min (2 * sk_period g) (sk_maxPeriod g);
     sk_maxPeriod := sk_maxPeriod g;
     sk_next := sk_next g;
     sk_nextToSkip := sk_next g + 3 + draw |}.

Definition skip_new (initial initialPeriod maxPeriod draw : Z) : skipgen :=
  generateNewSkip {| sk_period := initialPeriod; sk_maxPeriod := maxPeriod; sk_next := initial; sk_nextToSkip := 0 |} draw.

Definition skip_peek (g : skipgen) : Z :=
  if sk_next g =? sk_nextToSkip g then sk_next g + 1 else sk_next g.

(** Pop: the draw is consumed only when a number is skipped. *)
Definition skip_pop (g : skipgen) (draw : Z) : (bool * Z) * skipgen :=
  if sk_next g =? sk_nextToSkip g then
    ((true, sk_next g + 1),
     generateNewSkip {| sk_period := sk_period g; sk_maxPeriod := sk_maxPeriod g;
                        sk_next := sk_next g + 2; sk_nextToSkip := sk_nextToSkip g |} draw)
  else
    ((false, sk_next g),
     {| sk_period := sk_period g; sk_maxPeriod := sk_maxPeriod g;
        sk_next := sk_next g + 1; sk_nextToSkip := sk_nextToSkip g |}).

(** The range the draw of a [generateNewSkip] executed in state [g] must lie in. *)
Definition draw_ok (g : skipgen) (draw : Z) : bool := (0 <=? draw) && (draw <? 2 * sk_period g).

(** Run a list of pops; each pop carries the draw the implementation made (0 if none). *)
Fixpoint skip_run (g : skipgen) (draws : list Z) : list (bool * Z) :=
  match draws with
  | [] => []
  | d :: r => let '(o, g') := skip_pop g d in o :: skip_run g' r
  end.

Fixpoint seq_run (g : seqgen) (n : nat) : list (bool * Z) :=
  match n with O => [] | S n' => let '(o, g') := seq_pop g in o :: seq_run g' n' end.
