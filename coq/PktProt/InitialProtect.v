(** Protection of Initial packets, fully concrete: the byte-level Protect model instantiated
    with AES-128-GCM (nonce = IV xor packet number) and the AES-ECB header-protection mask
    under the Initial keys derived in InitialKeys.v.
      internal/handshake/aead.go (longHeaderSealer/Opener: nonce), cipher_suite.go (xorNonceAEAD),
      header_protector.go (aesHeaderProtector), initial_aead.go (NewInitialAEAD)
    This is an observer of the wire that shares no code with /repo.  Executable definitions only. *)
From Coq Require Import List ZArith Bool.
From V Require Import Gen.Params PktProt.PktNum PktProt.Sha256 PktProt.Aes PktProt.InitialKeys PktProt.Protect.
Import ListNotations.
Open Scope Z_scope.

(** xorNonceAEAD: the 8-byte big-endian packet number xored into the last 8 bytes of the IV *)
Definition quic_nonce (iv : list Z) (pn : Z) : list Z :=
  firstn 4 iv ++ xor_list (skipn 4 iv) (Z_to_bytes 8 pn).

Record ikeys := { ik_rks : list (list Z); ik_iv : list Z; ik_hp : list (list Z) }.

Definition mk_ikeys (v2 client : bool) (dcid : list Z) : ikeys :=
  let '(k, iv, hp) := initial_keys v2 client dcid in
  {| ik_rks := aes_expand k; ik_iv := iv; ik_hp := aes_expand hp |}.

Definition init_seal (K : ikeys) (pn kp : Z) (ad pt : list Z) : list Z :=
  gcm_seal (ik_rks K) (quic_nonce (ik_iv K) pn) ad pt.
Definition init_open (K : ikeys) (pn kp : Z) (ad c : list Z) : option (list Z) :=
  gcm_open (ik_rks K) (quic_nonce (ik_iv K) pn) ad c.
(** aesHeaderProtector: mask = AES-ECB(hp key, sample) *)
Definition init_mask (K : ikeys) (sample : list Z) : list Z := firstn 5 (aes_encrypt (ik_hp K) sample).

(** a long-header packet protected by the side [client] for the connection whose first
    Destination Connection ID was [dcid] *)
Definition initial_protect (v2 client : bool) (dcid hdr payload : list Z) (pn : Z) (pnLen : nat) : list Z :=
  let K := mk_ikeys v2 client dcid in
  protect (init_seal K) (init_mask K) true hdr payload pn 0 pnLen.

(** ... and removed by the other side ([client]: the side that protected it) *)
Definition initial_unprotect (v2 client : bool) (dcid : list Z) (hdrLen : nat) (largest : Z) (data : list Z) : ures :=
  let K := mk_ikeys v2 client dcid in
  unprotect (init_open K) (init_mask K) true hdrLen largest data.
