(** The derivation labels of the code are the ones RFC 9001 / RFC 9369 prescribe. *)
From Coq Require Import List ZArith Bool String.
From V Require Import Gen.Params PktProt.KeyDerive.
Import ListNotations.
Open Scope Z_scope.

(** The labels the RFCs prescribe. *)
Definition rfc_labels (v2 : bool) : string * string * string * string :=
  if v2 then ("quicv2 key", "quicv2 iv", "quicv2 hp", "quicv2 ku")%string
  else ("quic key", "quic iv", "quic hp", "quic ku")%string.

Lemma labels_rfc : forall v2, (key_label v2, iv_label v2, hp_label v2, ku_label v2) = rfc_labels v2.
Proof. intros [|]; reflexivity. Qed.

Lemma derivation_rfc (expand_label : list Z -> string -> Z -> list Z) :
  forall v2 hashLen keyLen ts,
    let '(lk, li, lh, lu) := rfc_labels v2 in
    next_secret expand_label v2 hashLen ts = expand_label ts lu hashLen /\
    aead_key expand_label v2 keyLen ts = expand_label ts lk keyLen /\
    aead_iv expand_label v2 ts = expand_label ts li 12 /\
    hp_key expand_label v2 keyLen ts = expand_label ts lh keyLen.
Proof. intros [|] hashLen keyLen ts; cbn; repeat split; reflexivity. Qed.
