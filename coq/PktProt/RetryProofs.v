(** Retry integrity tag: RFC constants and the Appendix A.4 packets. *)
From Coq Require Import List ZArith Bool String.
From V Require Import Gen.Params Lib.Hex PktProt.Aes PktProt.Retry PktProt.InitialKeysProofs.
Import ListNotations.
Open Scope Z_scope.

(** the nonces found in the code are the ones of RFC 9001 5.8 / RFC 9369 3.3.3 *)
Lemma retry_nonce_rfc :
  retry_nonce false = hx "461599d35d632bf2239825bb" /\ retry_nonce true = hx "d86969bc2d7c6d9990efb04a".
Proof. split; reflexivity. Qed.

(** RFC 9001 A.4 and RFC 9369 A.4: Retry packets for ODCID 0x8394c8f03e515708 *)
Lemma retry_rfc_A4 :
  retry_tag false rfc_dcid (hx "ff000000010008f067a5502a4262b5746f6b656e") = hx "04a265ba2eff4d829058fb3f0f2496ba" /\
  retry_tag true rfc_dcid (hx "cf6b3343cf0008f067a5502a4262b5746f6b656e") = hx "c8646ce8bfe33952d955543665dcc7b6".
Proof. vm_compute. split; reflexivity. Qed.
