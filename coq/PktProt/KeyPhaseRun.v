(** Correspondence glue for the `keyphase` harness unit: a pair of updatableAEAD models
    exchanging packets, the AEAD instantiated by the symbolic ideal AEAD (a ciphertext is
    the tuple it was sealed from; a corrupted ciphertext is [None]). *)
From Coq Require Import List ZArith Bool String.
From V Require Import Lib.Corr Lib.Hex Gen.Params PktProt.PktNum PktProt.KeyPhase PktProt.KeyDerive.
Import ListNotations.
Open Scope Z_scope.

Definition sct : Type := option (Z * Z * Z * Z * Z). (* direction, generation, nonce, ad, plaintext *)
Definition sym_seal (k : key) (n ad p : Z) : sct := Some (fst k, snd k, n, ad, p).
Definition sym_open (k : key) (n ad : Z) (c : sct) : option Z :=
  match c with
  | Some (d, g, n', ad', p) =>
    if (d =? fst k) && (g =? snd k) && (n' =? n) && (ad' =? ad) then Some p else None
  | None => None
  end.

Inductive kop :=
| KSend (side pn bit phase : Z)
    (* KeyPhase() then Seal(pn): observed key phase bit and keyPhase afterwards *)
| KDeliver (side pkt now pto3 wirepn len kp : Z) (ct_ok ad_ok : bool) (obs_pn cls phase : Z) (hasprev : bool)
    (* DecodePacketNumber(wirepn,len) then Open(now, pn, kp) of packet #pkt (0-based, in send order) *)
| KAck (side pn : Z) (err : bool)
| KConfirm (side : Z)
| KPoll (side bit phase : Z)
| KForge (from gen pn : Z).
    (* a misbehaving peer seals packet number pn with key generation gen of direction from *)

Inductive case :=
| KPCase (kui fkui limit : Z) (ops : list kop)
| KuCase (v2 : bool) (secret : string) (hashLen : Z) (expand : list (string * string)) (next : string).
    (* getNextTrafficSecret(secret) = next; [expand]: label -> HKDF-Expand-Label(secret, label, "", hashLen)
       computed by the harness' own HKDF *)

Definition expand_tab (secret : list Z) (hashLen : Z) (tab : list (string * string)) (s : list Z) (label : string) (len : Z) : list Z :=
  if zeqb_list s secret && (len =? hashLen) then
    match find (fun e => String.eqb (fst e) label) tab with Some e => hx (snd e) | None => [] end
  else [].

Inductive kobs :=
| OSend (bit phase : Z)
| ODeliver (pn cls phase : Z) (hasprev : bool)
| OAck (err : bool)
| ONone.

Record sys := { epA : ua; epB : ua; pkts : list sct }.

Definition get_ep (s : sys) (side : Z) : ua := if side =? 0 then epA s else epB s.
Definition set_ep (s : sys) (side : Z) (a : ua) : sys :=
  if side =? 0 then {| epA := a; epB := epB s; pkts := pkts s |} else {| epA := epA s; epB := a; pkts := pkts s |}.

Definition cls_of (pkt : Z) (r : ores Z) : Z :=
  match r with
  | OpenOK p => if p =? pkt then 0 else 8
  | ErrDecryptionFailed => 1
  | ErrKeysDropped => 2
  | ErrKeyUpdate => 3
  | ErrAEADLimit => 4
  end.

Definition kstep (c : kcfg) (s : sys) (op : kop) : kobs * sys :=
  match op with
  | KSend side pn _ _ =>
    let '(bit, a) := ua_keyphase c (get_ep s side) in
    let idx := Z.of_nat (List.length (pkts s)) in
    let '(ct, a) := ua_seal sct Z Z sym_seal a pn idx idx in
    let s := set_ep s side a in
    (OSend bit (keyPhase a), {| epA := epA s; epB := epB s; pkts := pkts s ++ [ct] |})
  | KDeliver side pkt now pto3 wirepn len kp ct_ok ad_ok _ _ _ _ =>
    let a := get_ep s side in
    let ct := if ct_ok then nth (Z.to_nat pkt) (pkts s) None else None in
    let ad := if ad_ok then pkt else -1 - pkt in
    let pn := ua_decode_pn a wirepn len in
    let '(r, a) := ua_open sct Z Z sym_open a now pto3 pn kp ad ct in
    (ODeliver pn (cls_of pkt r) (keyPhase a) (match prevRcvAEAD a with Some _ => true | None => false end), set_ep s side a)
  | KAck side pn _ =>
    let '(err, a) := ua_set_largest_acked (get_ep s side) pn in
    (OAck err, set_ep s side a)
  | KConfirm side => (ONone, set_ep s side (ua_confirm (get_ep s side)))
  | KPoll side _ _ =>
    let '(bit, a) := ua_keyphase c (get_ep s side) in
    (OSend bit (keyPhase a), set_ep s side a)
  | KForge from gen pn =>
    let idx := Z.of_nat (List.length (pkts s)) in
    (ONone, {| epA := epA s; epB := epB s; pkts := pkts s ++ [sym_seal (from, gen) pn idx idx] |})
  end.

Fixpoint krun (c : kcfg) (s : sys) (ops : list kop) : list kobs :=
  match ops with
  | [] => []
  | op :: r => let '(o, s') := kstep c s op in o :: krun c s' r
  end.

Definition model_obs (c : case) : list kobs :=
  match c with
  | KPCase kui fkui limit ops =>
    krun {| keyUpdateInterval := kui; firstKeyUpdateInterval := fkui |}
         {| epA := ua_new 1 0 limit; epB := ua_new 0 1 limit; pkts := [] |} ops
  | KuCase _ _ _ _ _ => []
  end.

Definition model_next_secret (c : case) : list Z :=
  match c with
  | KuCase v2 secret hashLen tab _ => next_secret (expand_tab (hx secret) hashLen tab) v2 hashLen (hx secret)
  | _ => []
  end.

Definition obs_of (op : kop) : kobs :=
  match op with
  | KSend _ _ bit phase => OSend bit phase
  | KDeliver _ _ _ _ _ _ _ _ _ pn cls phase hp => ODeliver pn cls phase hp
  | KAck _ _ err => OAck err
  | KConfirm _ => ONone
  | KPoll _ bit phase => OSend bit phase
  | KForge _ _ _ => ONone
  end.

Definition kobs_eqb (a b : kobs) : bool :=
  match a, b with
  | OSend b1 p1, OSend b2 p2 => (b1 =? b2) && (p1 =? p2)
  | ODeliver n1 c1 p1 h1, ODeliver n2 c2 p2 h2 => (n1 =? n2) && (c1 =? c2) && (p1 =? p2) && Bool.eqb h1 h2
  | OAck e1, OAck e2 => Bool.eqb e1 e2
  | ONone, ONone => true
  | _, _ => false
  end.

Fixpoint all2 {A} (f : A -> A -> bool) (a b : list A) : bool :=
  match a, b with
  | [], [] => true
  | x :: a', y :: b' => f x y && all2 f a' b'
  | _, _ => false
  end.

Definition check_case (c : case) : bool :=
  match c with
  | KPCase _ _ _ ops => all2 kobs_eqb (map obs_of ops) (model_obs c)
  | KuCase _ _ _ _ next => negb (zeqb_list (hx next) []) && zeqb_list (model_next_secret c) (hx next)
  end.

(** A concrete well-formed single-endpoint history used as non-vacuity witness in Props/C05.v:
    confirm; seal 0; KeyPhase() -> phase 1; seal 1; open the peer's phase-1 packet; the peer
    acknowledges 1; seal 2 (two packets sent in phase 1) and KeyPhase() -> phase 2; seal 3;
    the peer's phase-2 packet, then its phase-3 packet arrives -> phase 3. *)
Definition update_example_ops : list (uop sct Z Z) :=
  [ UConfirm; USeal 0 0 0; UKeyPhase; USeal 1 1 1;
    UOpen 100 50 7 1 0 (sym_seal (1, 1) 7 0 0); UAck 1; UKeyPhase (* numSent = 1 < 2: no update yet *) ;
    USeal 2 2 2; UKeyPhase; USeal 3 3 3;
    UOpen 200 50 8 0 0 (sym_seal (1, 2) 8 0 0); UOpen 300 50 9 1 0 (sym_seal (1, 3) 9 0 0) ].
