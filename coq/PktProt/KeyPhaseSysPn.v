(** The two-endpoint system of KeyPhaseSys.v with the packet number ON THE WIRE: every packet
    is sent with the length PacketNumberLengthForHeader chooses from the sender's largest
    acknowledged number at that moment and carries the truncated number; the receiver recovers
    it with updatableAEAD.DecodePacketNumber against its highestRcvdPN.  [las] is a ghost log:
    the i-th entry is the largestAcked the sender of the i-th packet had when it sealed it.
    Executable definitions only. *)
From Coq Require Import List ZArith Bool.
From V Require Import Gen.Params PktProt.PktNum PktProt.KeyPhase PktProt.KeyPhaseSys.
Import ListNotations.
Open Scope Z_scope.

Section SysPn.
  Variables ctext ptext adata : Type.
  Variable aead_seal : key -> Z -> adata -> ptext -> ctext.
  Variable aead_open : key -> Z -> adata -> ctext -> option ptext.

  Definition sstep2 (cfg : kcfg) (sl : sys ptext adata * list Z) (op : sop ptext adata) : sys ptext adata * list Z :=
    (sstep ctext ptext adata aead_seal aead_open cfg (fst sl) op,
     match op with
     | SSeal _ _ x _ _ _ => snd sl ++ [largestAcked (ep (sd (fst sl) x))]
     | _ => snd sl
     end).

  Fixpoint srun2 (cfg : kcfg) (sl : sys ptext adata * list Z) (ops : list (sop ptext adata)) : sys ptext adata * list Z :=
    match ops with [] => sl | op :: r => srun2 cfg (sstep2 cfg sl op) r end.

  (** what is on the wire for the i-th packet: length and truncated number *)
  Definition wire_len (p : pkt ptext adata) (la : Z) : Z := lenForHeader (p_pn p) la.
  Definition wire_pn (p : pkt ptext adata) (la : Z) : Z := truncatePN (wire_len p la) (p_pn p).
End SysPn.
