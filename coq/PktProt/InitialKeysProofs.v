(** The Initial key derivation of the code is the one of RFC 9001 5.2 / RFC 9369 3.3.1, and
    reproduces the Appendix A values. *)
From Coq Require Import List ZArith Bool String.
From V Require Import Gen.Params Lib.Hex PktProt.Sha256 PktProt.KeyDerive PktProt.KeyDeriveProofs PktProt.InitialKeys.
Import ListNotations.
Open Scope Z_scope.

Definition rfc_salt (v2 : bool) : list Z :=
  hx (if v2 then "0dede3def700a6db819381be6e269dcbf9bd2ed9" else "38762cf7f55934b34d179ae6a4c80cadccbb7f0a").

(** RFC 9001 5.2: "client in" / "server in" *)
Definition rfc_side_label (client : bool) : string := if client then "client in" else "server in".

Definition initial_keys_rfc_statement : Prop :=
  forall (v2 client : bool) (dcid : list Z),
    let initial := hkdf_extract (rfc_salt v2) dcid in
    let s := expand_label initial (rfc_side_label client) 32 in
    let '(lk, li, lh, _) := rfc_labels v2 in
    initial_secret v2 client dcid = s /\
    initial_keys v2 client dcid = (expand_label s lk 16, expand_label s li 12, expand_label s lh 16).

Lemma initial_keys_rfc : initial_keys_rfc_statement.
Proof. intros [|] [|] dcid; cbv zeta; split; reflexivity. Qed.

(** RFC 9001 Appendix A.1 / RFC 9369 Appendix A.1: DCID 0x8394c8f03e515708 *)
Definition rfc_dcid : list Z := hx "8394c8f03e515708".

Lemma rfc9001_A1 :
  hkdf_extract (rfc_salt false) rfc_dcid = hx "7db5df06e7a69e432496adedb00851923595221596ae2ae9fb8115c1e9ed0a44" /\
  initial_secret false true rfc_dcid = hx "c00cf151ca5be075ed0ebfb5c80323c42d6b7db67881289af4008f1f6c357aea" /\
  initial_keys false true rfc_dcid =
    (hx "1f369613dd76d5467730efcbe3b1a22d", hx "fa044b2f42a3fd3b46fb255c", hx "9f50449e04a0e810283a1e9933adedd2") /\
  initial_secret false false rfc_dcid = hx "3c199828fd139efd216c155ad844cc81fb82fa8d7446fa7d78be803acdda951b" /\
  initial_keys false false rfc_dcid =
    (hx "cf3a5331653c364c88f0f379b6067e37", hx "0ac1493ca1905853b0bba03e", hx "c206b8d9b9f0f37644430b490eeaa314").
Proof. vm_compute. repeat split; reflexivity. Qed.

Lemma rfc9369_A1 :
  initial_secret true true rfc_dcid = hx "14ec9d6eb9fd7af83bf5a668bc17a7e283766aade7ecd0891f70f9ff7f4bf47b" /\
  initial_keys true true rfc_dcid =
    (hx "8b1a0bc121284290a29e0971b5cd045d", hx "91f73e2351d8fa91660e909f", hx "45b95e15235d6f45a6b19cbcb0294ba9") /\
  initial_secret true false rfc_dcid = hx "0263db1782731bf4588e7e4d93b7463907cb8cd8200b5da55a8bd488eafc37c1" /\
  initial_keys true false rfc_dcid =
    (hx "82db637861d55e1d011f19ea71d5d2a7", hx "dd13c276499c0249d3310652", hx "edf6d05c83121201b436e16877593c3a").
Proof. vm_compute. repeat split; reflexivity. Qed.
