(** Proofs about the packet-number model: truncation/recovery and the generators. *)
From Coq Require Import List ZArith Bool Lia Sorted.
From Coq Require Import ZifyBool.
From V Require Import Gen.Params PktProt.PktNum.
Import ListNotations.
Open Scope Z_scope.

Local Ltac Zify.zify_post_hook ::= Z.div_mod_to_equations.

(** * Bit operations of DecodePacketNumber as arithmetic *)

Lemma land_lnot_mask e k : 0 <= k ->
  Z.land e (Z.lnot (2 ^ k - 1)) = 2 ^ k * (e / 2 ^ k).
Proof.
  intros Hk.
  rewrite <- Z.ldiff_land.
  replace (2 ^ k - 1) with (Z.ones k) by (rewrite Z.ones_equiv; lia).
  rewrite Z.ldiff_ones_r by assumption.
  rewrite Z.shiftl_mul_pow2, Z.shiftr_div_pow2 by assumption. lia.
Qed.

Lemma lor_disjoint q t k : 0 <= k -> 0 <= t < 2 ^ k ->
  Z.lor (2 ^ k * q) t = 2 ^ k * q + t.
Proof.
  intros Hk Ht.
  assert (Hland : Z.land (2 ^ k * q) t = 0).
  { apply Z.bits_inj'. intros n Hn. rewrite Z.land_spec, Z.bits_0.
    destruct (Z.ltb_spec n k) as [Hlt|Hge].
    - rewrite Z.mul_comm, Z.mul_pow2_bits_low by lia. reflexivity.
    - destruct (Z.eqb_spec t 0) as [-> | Hnz].
      + rewrite Z.bits_0. apply andb_false_r.
      + rewrite (Z.bits_above_log2 t n); [apply andb_false_r | lia |].
        apply Z.log2_lt_pow2; [lia|].
        apply Z.lt_le_trans with (2 ^ k); [lia|]. apply Z.pow_le_mono_r; lia. }
  rewrite Z.add_nocarry_lxor by exact Hland.
  symmetry. apply Z.lxor_lor. exact Hland.
Qed.

Lemma candidate_arith expected truncated k : 0 <= k -> 0 <= truncated < 2 ^ k ->
  Z.lor (Z.land expected (Z.lnot (2 ^ k - 1))) truncated = 2 ^ k * (expected / 2 ^ k) + truncated.
Proof. intros Hk Ht. rewrite land_lnot_mask by assumption. apply lor_disjoint; assumption. Qed.

(** decodePN with the bit operations replaced (valid for truncated values that fit). *)
Definition decodePN_arith (length largest truncated : Z) : Z :=
  let expected := largest + 1 in
  let win := 2 ^ (length * 8) in
  let hwin := win / 2 in
  let candidate := win * (expected / win) + truncated in
  if (candidate <=? expected - hwin) && (candidate <? 2 ^ 62 - win) then candidate + win
  else if (candidate >? expected + hwin) && (candidate >=? win) then candidate - win
  else candidate.

Lemma decodePN_is_arith length largest truncated :
  0 <= length -> 0 <= truncated < 2 ^ (length * 8) ->
  decodePN length largest truncated = decodePN_arith length largest truncated.
Proof.
  intros Hl Ht. unfold decodePN, decodePN_arith.
  rewrite !Z.shiftl_mul_pow2 by lia. rewrite !Z.mul_1_l.
  cbv zeta. rewrite candidate_arith by lia. reflexivity.
Qed.

Lemma truncatePN_range len pn : 0 <= len -> 0 <= truncatePN len pn < 2 ^ (len * 8).
Proof.
  intros Hl. unfold truncatePN. rewrite Z.shiftl_mul_pow2, Z.mul_1_l by lia.
  apply Z.mod_pos_bound. apply Z.pow_pos_nonneg; lia.
Qed.

Definition valid_len (len : Z) : Prop := len = 1 \/ len = 2 \/ len = 3 \/ len = 4.

(** * General window form (RFC 9000 A.3): the decoder returns the unique number congruent to
    the truncated one in (expected - hwin, expected + hwin]. *)
Lemma decode_window len largest pn :
  valid_len len -> 0 <= pn < 2 ^ 62 -> -1 <= largest ->
  largest + 1 - 2 ^ (len * 8) / 2 < pn <= largest + 1 + 2 ^ (len * 8) / 2 ->
  decodePN len largest (truncatePN len pn) = pn.
Proof.
  intros Hlen Hpn Hlg Hwin.
  rewrite decodePN_is_arith; [| destruct Hlen as [-> | [-> | [-> | ->]]]; lia | apply truncatePN_range; destruct Hlen as [-> | [-> | [-> | ->]]]; lia].
  unfold decodePN_arith, truncatePN.
  rewrite Z.shiftl_mul_pow2, Z.mul_1_l by (destruct Hlen as [-> | [-> | [-> | ->]]]; lia).
  destruct Hlen as [-> | [-> | [-> | ->]]];
    [ change (2 ^ (1 * 8)) with 256 in * | change (2 ^ (2 * 8)) with 65536 in *
    | change (2 ^ (3 * 8)) with 16777216 in * | change (2 ^ (4 * 8)) with 4294967296 in * ];
    change (2 ^ 62) with 4611686018427387904 in *; cbv zeta;
    repeat match goal with |- context [if ?b then _ else _] => destruct b eqn:? end; lia.
Qed.

(** The window is tight: outside it the decoder returns a different number (so the
    hypothesis of [decode_window] cannot be weakened). *)
Lemma decode_outside_window len largest pn :
  valid_len len -> 0 <= pn < 2 ^ 62 -> 0 <= largest < 2 ^ 62 - 2 ^ 32 ->
  2 ^ (len * 8) <= pn ->
  pn <= largest + 1 - 2 ^ (len * 8) / 2 ->
  decodePN len largest (truncatePN len pn) <> pn.
Proof.
  intros Hlen Hpn Hlg Hbig Hout.
  rewrite decodePN_is_arith; [| destruct Hlen as [-> | [-> | [-> | ->]]]; lia | apply truncatePN_range; destruct Hlen as [-> | [-> | [-> | ->]]]; lia].
  unfold decodePN_arith, truncatePN.
  rewrite Z.shiftl_mul_pow2, Z.mul_1_l by (destruct Hlen as [-> | [-> | [-> | ->]]]; lia).
  destruct Hlen as [-> | [-> | [-> | ->]]];
    [ change (2 ^ (1 * 8)) with 256 in * | change (2 ^ (2 * 8)) with 65536 in *
    | change (2 ^ (3 * 8)) with 16777216 in * | change (2 ^ (4 * 8)) with 4294967296 in * ];
    change (2 ^ 62) with 4611686018427387904 in *; change (2 ^ 32) with 4294967296 in *; cbv zeta;
    repeat match goal with |- context [if ?b then _ else _] => destruct b eqn:? end; lia.
Qed.

(** * The sender's choice of length *)
Lemma lenForHeader_cases pn la : -1 <= la ->
  let n := pn - la in
  (n < 2 ^ 15 /\ lenForHeader pn la = 2) \/
  (2 ^ 15 <= n < 2 ^ 23 /\ lenForHeader pn la = 3) \/
  (2 ^ 23 <= n /\ lenForHeader pn la = 4).
Proof.
  intros Hla n. unfold lenForHeader, InvalidPacketNumber, PP_InvalidPacketNumber, PP_PacketNumberLen2, PP_PacketNumberLen3, PP_PacketNumberLen4.
  change (Z.shiftl 1 (16 - 1)) with 32768. change (Z.shiftl 1 (24 - 1)) with 8388608.
  change (2 ^ 15) with 32768. change (2 ^ 23) with 8388608. subst n.
  destruct (Z.eqb_spec la (-1)) as [-> | Hne];
    repeat match goal with |- context [if ?b then _ else _] => destruct b eqn:? end; lia.
Qed.

Lemma lenForHeader_ge2 pn la : 2 <= lenForHeader pn la <= 4.
Proof.
  unfold lenForHeader, PP_PacketNumberLen2, PP_PacketNumberLen3, PP_PacketNumberLen4.
  repeat match goal with |- context [if ?b then _ else _] => destruct b end; lia.
Qed.

Lemma lenForHeader_valid pn la : valid_len (lenForHeader pn la).
Proof.
  unfold valid_len, lenForHeader, PP_PacketNumberLen2, PP_PacketNumberLen3, PP_PacketNumberLen4.
  repeat match goal with |- context [if ?b then _ else _] => destruct b end; lia.
Qed.

(** Sender-side guarantee: the receiver has processed at least everything the sender knows
    to be acknowledged ([largestAcked <= largest]; [largestAcked = -1]: nothing acked, and
    the receiver's [largest] starts at 0 as [highestRcvdPN] does in the code) and at most
    [pn] itself; fewer than 2^31 packets are outstanding. *)
Lemma decode_sender pn la largest :
  0 <= pn < 2 ^ 62 -> -1 <= la -> la <= largest <= pn -> pn - la <= 2 ^ 31 ->
  decodePN (lenForHeader pn la) largest (truncatePN (lenForHeader pn la) pn) = pn.
Proof.
  intros Hpn Hla Hlg Hout.
  apply decode_window; try assumption; [apply lenForHeader_valid | lia |].
  destruct (lenForHeader_cases pn la Hla) as [[Hn ->] | [[Hn ->] | [Hn ->]]];
    [ change (2 ^ (2 * 8) / 2) with 32768 | change (2 ^ (3 * 8) / 2) with 8388608
    | change (2 ^ (4 * 8) / 2) with 2147483648 ];
    change (2 ^ 15) with 32768 in *; change (2 ^ 23) with 8388608 in *; change (2 ^ 31) with 2147483648 in *; lia.
Qed.

(** How far the receiver may already be AHEAD of a packet (largest opened number minus the
    packet's number) for a packet number of [len] bytes to still decode: 2^(8 len - 1) - 2. *)
Definition reorder_tolerance (len : Z) : Z := 2 ^ (len * 8) / 2 - 2.

(** The sender-side guarantee with the true window: the receiver has processed at least what
    the sender knows to be acknowledged, and has not run ahead of the packet by more than the
    tolerance of the chosen length (overtaking by later packets is allowed up to there). *)
Lemma decode_sender_reordered pn la largest :
  0 <= pn < 2 ^ 62 -> -1 <= la -> pn - la <= 2 ^ 31 ->
  la <= largest <= pn + reorder_tolerance (lenForHeader pn la) ->
  decodePN (lenForHeader pn la) largest (truncatePN (lenForHeader pn la) pn) = pn.
Proof.
  intros Hpn Hla Hout Hlg. unfold reorder_tolerance in Hlg.
  apply decode_window; try assumption; [apply lenForHeader_valid | lia |].
  destruct (lenForHeader_cases pn la Hla) as [[Hn E] | [[Hn E] | [Hn E]]]; rewrite E in *;
    [ change (2 ^ (2 * 8) / 2) with 32768 in * | change (2 ^ (3 * 8) / 2) with 8388608 in *
    | change (2 ^ (4 * 8) / 2) with 2147483648 in * ];
    change (2 ^ 15) with 32768 in *; change (2 ^ 23) with 8388608 in *; change (2 ^ 31) with 2147483648 in *; lia.
Qed.

(** one step further the decoder returns another number (the tolerance is exact) *)
Lemma decode_beyond_tolerance pn la :
  0 <= pn < 2 ^ 62 - 2 ^ 33 -> -1 <= la -> 2 ^ 32 <= pn ->
  decodePN (lenForHeader pn la) (pn + reorder_tolerance (lenForHeader pn la) + 1) (truncatePN (lenForHeader pn la) pn) <> pn.
Proof.
  intros Hpn Hla Hbig. unfold reorder_tolerance.
  apply decode_outside_window; [apply lenForHeader_valid | lia | | |].
  - pose proof (lenForHeader_ge2 pn la) as Hl. assert (2 ^ (lenForHeader pn la * 8) / 2 <= 2 ^ 31).
    { destruct (lenForHeader_valid pn la) as [E | [E | [E | E]]]; rewrite E; vm_compute; discriminate. }
    change (2 ^ 62) with 4611686018427387904 in *. change (2 ^ 33) with 8589934592 in *. change (2 ^ 32) with 4294967296 in *. change (2 ^ 31) with 2147483648 in *. lia.
  - destruct (lenForHeader_valid pn la) as [E | [E | [E | E]]]; rewrite E; change (2 ^ 32) with 4294967296 in *;
      [change (2 ^ (1 * 8)) with 256 | change (2 ^ (2 * 8)) with 65536 | change (2 ^ (3 * 8)) with 16777216 | change (2 ^ (4 * 8)) with 4294967296]; lia.
  - lia.
Qed.

(** * Generators *)

(** [gaps_ok lo l]: every popped number is either the next unused one, unflagged, or the
    one after it, flagged as "the number before was skipped". *)
Fixpoint gaps_ok (lo : Z) (l : list (bool * Z)) : Prop :=
  match l with
  | [] => True
  | (b, n) :: r => ((b = false /\ n = lo) \/ (b = true /\ n = lo + 1)) /\ gaps_ok (n + 1) r
  end.

Fixpoint no_adjacent_skips (l : list (bool * Z)) : Prop :=
  match l with
  | (true, _) :: (((b2, _) :: _) as r) => b2 = false /\ no_adjacent_skips r
  | _ :: r => no_adjacent_skips r
  | [] => True
  end.

Lemma gaps_ok_lower lo l : gaps_ok lo l -> Forall (fun o => lo <= snd o) l.
Proof.
  revert lo; induction l as [|[b n] r IH]; intros lo H; constructor.
  - cbn in *. lia.
  - destruct H as [H1 H2]. apply IH in H2. eapply Forall_impl; [|exact H2]. cbn. intros a Ha. lia.
Qed.

Lemma gaps_ok_sorted lo l : gaps_ok lo l -> StronglySorted Z.lt (map snd l).
Proof.
  revert lo; induction l as [|[b n] r IH]; intros lo H; cbn; constructor.
  - destruct H as [_ H2]. eapply IH; exact H2.
  - destruct H as [_ H2]. apply gaps_ok_lower in H2. rewrite Forall_map.
    eapply Forall_impl; [|exact H2]. cbn. intros a Ha. lia.
Qed.

(** A flagged pop (true, n) means n-1 was skipped: no pop, before or after, returns it. *)
Lemma gaps_ok_skipped_absent lo pre n post :
  gaps_ok lo (pre ++ (true, n) :: post) ->
  Forall (fun o => snd o < n - 1) pre /\ Forall (fun o => n - 1 < snd o) ((true, n) :: post) /\ lo <= n - 1.
Proof.
  revert lo; induction pre as [|[b m] pre IH]; intros lo H; cbn in H.
  - destruct H as [[[Hb _]|[_ Hn]] H2]; [discriminate|].
    split; [constructor|]. split; [|lia]. constructor; [cbn; lia|].
    apply gaps_ok_lower in H2. eapply Forall_impl; [|exact H2]. cbn. intros a Ha. lia.
  - destruct H as [H1 H2]. destruct (IH _ H2) as (Ha & Hb & Hc).
    split; [|split; [exact Hb|lia]]. constructor; [cbn; lia|exact Ha].
Qed.

Lemma gaps_ok_skipped_not_in lo pre n post :
  gaps_ok lo (pre ++ (true, n) :: post) -> ~ In (n - 1) (map snd (pre ++ (true, n) :: post)).
Proof.
  intros H Hin. destruct (gaps_ok_skipped_absent _ _ _ _ H) as (Ha & Hb & _).
  rewrite map_app, in_app_iff in Hin. destruct Hin as [Hin|Hin]; apply in_map_iff in Hin as ([b m] & Hm & Hin); cbn in Hm; subst m.
  - rewrite Forall_forall in Ha. specialize (Ha _ Hin). cbn in Ha. lia.
  - rewrite Forall_forall in Hb. specialize (Hb _ Hin). cbn in Hb. lia.
Qed.

(** Completeness of the flags: a number in range that no pop returned is the predecessor
    of a flagged pop (so the flags identify exactly the skipped numbers). *)
Lemma gaps_ok_missing_flagged lo l x :
  gaps_ok lo l -> lo <= x -> (exists o, In o l /\ x < snd o) -> ~ In x (map snd l) ->
  In (true, x + 1) l.
Proof.
  revert lo; induction l as [|[b n] r IH]; intros lo H Hlo [o [Hin Hlt]] Hnot; [destruct Hin|].
  cbn in H. destruct H as [H1 H2]. cbn in Hnot.
  destruct (Z.eq_dec x lo) as [-> | Hne].
  - destruct H1 as [[_ ->] | [-> ->]]; [exfalso; apply Hnot; left; reflexivity | left; reflexivity].
  - right. apply (IH (n + 1)); [exact H2 | lia | | intros Hc; apply Hnot; right; exact Hc].
    destruct Hin as [<- | Hin]; [cbn in Hlt; exfalso|exists o; split; assumption].
    assert (x < n) by exact Hlt. apply Hnot. left. cbn.
    (* x in [lo, n), x <> lo, n <= lo+1: impossible *) lia.
Qed.

Definition skip_inv (g : skipgen) : Prop := sk_next g <= sk_nextToSkip g.

Lemma skip_pop_inv g d : skip_inv g -> 0 <= d -> skip_inv (snd (skip_pop g d)).
Proof.
  unfold skip_inv, skip_pop, generateNewSkip. intros Hi Hd.
  destruct (Z.eqb_spec (sk_next g) (sk_nextToSkip g)); cbn; lia.
Qed.

Lemma skip_run_gaps g ds : skip_inv g -> Forall (fun d => 0 <= d) ds ->
  gaps_ok (sk_next g) (skip_run g ds).
Proof.
  revert g; induction ds as [|d r IH]; intros g Hi Hd; [exact I|].
  inversion Hd as [|? ? Hd0 Hdr]; subst. cbn [skip_run].
  pose proof (skip_pop_inv g d Hi Hd0) as Hi'.
  destruct (skip_pop g d) as [[b n] g'] eqn:E. cbn in Hi'.
  specialize (IH g' Hi' Hdr). cbn [gaps_ok].
  unfold skip_pop in E. destruct (Z.eqb_spec (sk_next g) (sk_nextToSkip g)) as [He|Hne];
    inversion E; subst; clear E; cbn in IH |- *.
  - split; [right; split; [reflexivity|lia]|]. replace (sk_next g + 1 + 1) with (sk_next g + 2) by lia. exact IH.
  - split; [left; split; reflexivity|]. exact IH.
Qed.

(** After a skip the next pop never skips: the new nextToSkip is at least 3 ahead. *)
Lemma skip_run_no_adjacent g ds : skip_inv g -> Forall (fun d => 0 <= d) ds ->
  no_adjacent_skips (skip_run g ds).
Proof.
  revert g; induction ds as [|d r IH]; intros g Hi Hd; [exact I|].
  inversion Hd as [|? ? Hd0 Hdr]; subst. cbn [skip_run].
  pose proof (skip_pop_inv g d Hi Hd0) as Hi'.
  destruct (skip_pop g d) as [[b n] g'] eqn:E. cbn in Hi'.
  pose proof (IH g' Hi' Hdr) as IH'.
  destruct b; [|destruct (skip_run g' r); exact IH'].
  destruct r as [|d2 r2]; [exact I|].
  cbn [skip_run] in *. destruct (skip_pop g' d2) as [[b2 n2] g''] eqn:E2.
  cbn [no_adjacent_skips]. split; [|exact IH'].
  unfold skip_pop in E. destruct (Z.eqb_spec (sk_next g) (sk_nextToSkip g)) as [He|Hne]; inversion E; subst; clear E.
  unfold skip_pop in E2. cbn in E2.
  destruct (Z.eqb_spec (sk_next g + 2) (sk_next g + 2 + 3 + d)) as [Hc|Hc]; [lia|]. inversion E2; reflexivity.
Qed.

Lemma skip_new_inv initial p mp d : 0 <= d -> skip_inv (skip_new initial p mp d).
Proof. unfold skip_inv, skip_new, generateNewSkip. cbn. lia. Qed.

Lemma skip_new_next initial p mp d : sk_next (skip_new initial p mp d) = initial.
Proof. reflexivity. Qed.

Lemma skip_peek_pop g d : skip_peek g = snd (fst (skip_pop g d)).
Proof. unfold skip_peek, skip_pop. destruct (sk_next g =? sk_nextToSkip g); reflexivity. Qed.

Lemma seq_run_gaps g n : gaps_ok (sq_next g) (seq_run g n) /\ Forall (fun o => fst o = false) (seq_run g n).
Proof.
  revert g; induction n as [|n IH]; intros g; cbn; [split; [exact I|constructor]|].
  destruct (IH {| sq_next := sq_next g + 1 |}) as [H1 H2]. cbn in H1.
  split; [split; [left; split; reflexivity|exact H1] | constructor; [reflexivity|exact H2]].
Qed.

(** The period doubles up to the maximum (what bounds the draw). *)
Lemma skip_pop_period g d :
  sk_period (snd (skip_pop g d)) = (if sk_next g =? sk_nextToSkip g then Z.min (2 * sk_period g) (sk_maxPeriod g) else sk_period g)
  /\ sk_maxPeriod (snd (skip_pop g d)) = sk_maxPeriod g.
Proof. unfold skip_pop. destruct (sk_next g =? sk_nextToSkip g); cbn; split; reflexivity. Qed.

(** The statement used by Props/C05.v, collected. *)
Definition pn_never_reused_statement : Prop :=
  (forall initial period maxPeriod d0 draws,
      0 <= d0 -> Forall (fun d => 0 <= d) draws ->
      let pops := skip_run (skip_new initial period maxPeriod d0) draws in
      StronglySorted Z.lt (map snd pops)
      /\ Forall (fun o => initial <= snd o) pops
      /\ (forall pre n post, pops = pre ++ (true, n) :: post ->
            initial <= n - 1 /\ ~ In (n - 1) (map snd pops))
      /\ (forall x, initial <= x -> (exists o, In o pops /\ x < snd o) -> ~ In x (map snd pops) -> In (true, x + 1) pops)
      /\ no_adjacent_skips pops)
  /\ (forall initial n,
      let pops := seq_run (seq_new initial) n in
      StronglySorted Z.lt (map snd pops) /\ Forall (fun o => fst o = false) pops /\ gaps_ok initial pops).

Lemma pn_never_reused : pn_never_reused_statement.
Proof.
  split.
  - intros initial period maxPeriod d0 draws Hd0 Hds pops.
    pose proof (skip_run_gaps _ draws (skip_new_inv initial period maxPeriod d0 Hd0) Hds) as Hg.
    rewrite skip_new_next in Hg. fold pops in Hg.
    split; [eapply gaps_ok_sorted; exact Hg|].
    split; [apply gaps_ok_lower; exact Hg|].
    split; [|split].
    + intros pre n post E. rewrite E in Hg. split.
      * apply (gaps_ok_skipped_absent _ _ _ _ Hg).
      * rewrite E. eapply gaps_ok_skipped_not_in; exact Hg.
    + intros x Hx Hex Hnot. eapply gaps_ok_missing_flagged; eassumption.
    + apply skip_run_no_adjacent; [apply skip_new_inv; assumption|assumption].
  - intros initial n pops. destruct (seq_run_gaps (seq_new initial) n) as [H1 H2]. cbn in H1.
    split; [eapply gaps_ok_sorted; exact H1|split; assumption].
Qed.
