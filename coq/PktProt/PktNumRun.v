(** Correspondence glue for the `pktnum` harness unit. *)
From Coq Require Import List ZArith Bool String.
From V Require Import Lib.Corr Lib.Hex Gen.Params PktProt.PktNum.
Import ListNotations.
Open Scope Z_scope.

Inductive case :=
| DecCase (len largest truncated result : Z)
| SendCase (pn largestAcked largest len wire decoded : Z)
| SeqCase (initial : Z) (pops : list (Z * bool * Z))               (* peek, skipped, pn *)
| SkipCase (initial period maxPeriod r0 : Z) (pops : list (Z * Z * bool * Z)). (* Int31 value scripted for this pop, peek, skipped, pn *)

Inductive obs :=
| DecObs (result : Z)
| SendObs (len wire decoded : Z)
| GenObs (pops : list (Z * bool * Z)) (draws_in_range : bool).

(** utils.Rand.Int31n(n) for a scripted Int31 value below the rejection bound. *)
Definition int31n (r n : Z) : Z := r mod n.

Fixpoint seq_obs (g : seqgen) (n : nat) : list (Z * bool * Z) :=
  match n with
  | O => []
  | S n' => let pk := seq_peek g in let '((b, pn), g') := seq_pop g in (pk, b, pn) :: seq_obs g' n'
  end.

Fixpoint skip_obs (g : skipgen) (rs : list Z) : list (Z * bool * Z) * bool :=
  match rs with
  | [] => ([], true)
  | r :: rest =>
    let d := int31n r (2 * sk_period g) in
    let pk := skip_peek g in
    let '((b, pn), g') := skip_pop g d in
    let '(l, ok) := skip_obs g' rest in
    ((pk, b, pn) :: l, ok && draw_ok g d)
  end.

Definition model_obs (c : case) : obs :=
  match c with
  | DecCase len largest t _ => DecObs (decodePN len largest t)
  | SendCase pn la largest _ _ _ =>
    let l := lenForHeader pn la in
    let w := truncatePN l pn in
    SendObs l w (decodePN l largest w)
  | SeqCase initial pops => GenObs (seq_obs (seq_new initial) (List.length pops)) true
  | SkipCase initial period maxPeriod r0 pops =>
    let d0 := int31n r0 (2 * period) in
    let '(l, ok) := skip_obs (skip_new initial period maxPeriod d0) (map (fun p => fst (fst (fst p))) pops) in
    GenObs l (ok && (0 <=? d0) && (d0 <? 2 * period))
  end.

Fixpoint pops_eqb (a b : list (Z * bool * Z)) : bool :=
  match a, b with
  | [], [] => true
  | (p1, b1, n1) :: a', (p2, b2, n2) :: b' => (p1 =? p2) && Bool.eqb b1 b2 && (n1 =? n2) && pops_eqb a' b'
  | _, _ => false
  end.

Definition check_case (c : case) : bool :=
  match c, model_obs c with
  | DecCase _ _ _ res, DecObs r => res =? r
  | SendCase _ _ _ len w d, SendObs l' w' d' => (len =? l') && (w =? w') && (d =? d')
  | SeqCase _ pops, GenObs l ok => ok && pops_eqb pops l
  | SkipCase _ _ _ _ pops, GenObs l ok => ok && pops_eqb (map (fun p => (snd (fst (fst p)), snd (fst p), snd p)) pops) l
  | _, _ => false
  end.
