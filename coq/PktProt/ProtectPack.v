(** The packer's side of packet protection:
      packet_packer.go  appendShortHeaderPacket / appendLongHeaderPacket (padding so that the
                        packet number and payload together are at least 4 bytes: the header
                        protection sample needs them), appendPacketPayload (ACK, then padding,
                        then the other frames), getLongHeader / PackPacket call sites: the packet
                        number length is the one sentPacketHandler.PeekPacketNumber chooses
                        (PacketNumberLengthForHeader(pn, largestAcked))
    on top of Protect.v (encryptPacket) and PktNum.v.  Executable definitions only. *)
From Coq Require Import List ZArith Bool.
From V Require Import Gen.Params PktProt.PktNum PktProt.Protect.
Import ListNotations.
Open Scope Z_scope.

(** paddingLen = (4 - pnLen - length if length < 4 - pnLen) + padding; nat subtraction truncates *)
Definition pad_len (pnLen plen extra : nat) : nat := (4 - pnLen - plen) + extra.

(** appendPacketPayload: the ACK frame, the padding, the remaining frames *)
Definition packet_payload (ack : list Z) (padding : nat) (frames : list Z) : list Z :=
  ack ++ repeat 0 padding ++ frames.

(** first byte on the wire for a long header of packet type code [tcode] (the two type bits) *)
Definition pack_first (long : bool) (tcode kp : Z) (pnLen : nat) : Z :=
  if long then long_first tcode pnLen else short_first pnLen kp.

Section Pack.
  Variable aead_seal : Z -> Z -> list Z -> list Z -> list Z.
  Variable hp_mask : list Z -> list Z.

  (** [mid]: the connection ID (short header) resp. version .. length (long header) *)
  Definition pack (long : bool) (tcode kp : Z) (mid : list Z) (pn largestAcked : Z)
             (ack frames : list Z) (extra : nat) : list Z :=
    let pnLen := Z.to_nat (lenForHeader pn largestAcked) in
    let padding := pad_len pnLen (length ack + length frames) extra in
    let hdr := mk_header (pack_first long tcode kp pnLen) mid pnLen pn in
    protect aead_seal hp_mask long hdr (packet_payload ack padding frames) pn (if long then 0 else kp) pnLen.
End Pack.
