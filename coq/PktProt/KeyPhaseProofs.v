(** Proofs about the updatableAEAD model: key updates are neither initiated nor accepted
    earlier than allowed (over all histories of one endpoint against an arbitrary peer). *)
From Coq Require Import List ZArith Bool Lia Sorted.
From Coq Require Import ZifyBool.
From V Require Import Gen.Params PktProt.PktNum PktProt.KeyPhase.
Import ListNotations.
Open Scope Z_scope.

Section Proofs.
  Variables ctext ptext adata : Type.
  Variable aead_seal : key -> Z -> adata -> ptext -> ctext.
  Variable aead_open : key -> Z -> adata -> ctext -> option ptext.

  Notation uop := (uop ctext ptext adata).
  Notation uev := (uev ctext ptext).
  Notation entry := (entry ctext ptext adata).
  Notation step := (ua_step ctext ptext adata aead_seal aead_open).
  Notation run := (ua_run ctext ptext adata aead_seal aead_open).
  Notation trace := (ua_trace ctext ptext adata aead_seal aead_open).
  Notation uopen := (ua_open ctext ptext adata aead_open).
  Notation useal := (ua_seal ctext ptext adata aead_seal).
  Notation seal_pns := (seal_pns ctext ptext adata).

  Lemma inv_m1 : InvalidPacketNumber = -1.
  Proof. reflexivity. Qed.

  (** * Step lemmas *)

  (** What Open can do to the fields the update rules depend on. *)
  Lemma open_cases a now pto3 pn kp ad c r a' :
    0 <= keyPhase a ->
    uopen a now pto3 pn kp ad c = (r, a') ->
    handshakeConfirmed a' = handshakeConfirmed a /\ largestAcked a' = largestAcked a /\
    ( (keyPhase a' = keyPhase a /\ firstSentWithCurrentKey a' = firstSentWithCurrentKey a /\
       ( (kp = phase_bit a /\ (exists p, r = OpenOK p) /\ numRcvdWithCurrentKey a' = numRcvdWithCurrentKey a + 1)
         \/ ((kp <> phase_bit a \/ forall p, r <> OpenOK p) /\ numRcvdWithCurrentKey a' = numRcvdWithCurrentKey a) ) /\
       (r = ErrKeyUpdate -> keyPhase a > 0 /\ firstSentWithCurrentKey a = -1 /\ a' = match prevRcvAEAD a with Some _ => if negb (prevRcvAEADExpiry a =? 0) && (now >? prevRcvAEADExpiry a) then drop_prev a else a | None => a end))
      \/
      (keyPhase a' = keyPhase a + 1 /\ (exists p, r = OpenOK p) /\ kp <> phase_bit a /\
       (keyPhase a = 0 \/ firstSentWithCurrentKey a <> -1) /\
       firstSentWithCurrentKey a' = -1 /\ numRcvdWithCurrentKey a' = 0) ).
  Proof.
    intros Hge0. revert Hge0. unfold ua_open, ua_open_inner, phase_bit.
    set (a1 := match prevRcvAEAD a with
               | Some _ => if negb (prevRcvAEADExpiry a =? 0) && (now >? prevRcvAEADExpiry a) then drop_prev a else a
               | None => a end).
    assert (E1 : keyPhase a1 = keyPhase a /\ firstSentWithCurrentKey a1 = firstSentWithCurrentKey a /\
                 numRcvdWithCurrentKey a1 = numRcvdWithCurrentKey a /\ handshakeConfirmed a1 = handshakeConfirmed a /\
                 largestAcked a1 = largestAcked a).
    { subst a1. destruct (prevRcvAEAD a); [destruct (negb _ && _)|]; cbn; auto. }
    destruct E1 as (Ek & Ef & En & Eh & El). clearbody a1.
    intros Hge. rewrite <- Ek in Hge. rewrite <- Ek, <- Ef, <- En, <- Eh, <- El.
    intros H.
    destruct (negb (kp =? keyPhase a1 mod 2)) eqn:Ekp;
      [apply negb_true_iff in Ekp; apply Z.eqb_neq in Ekp | apply negb_false_iff in Ekp; apply Z.eqb_eq in Ekp].
    - destruct ((keyPhase a1 >? 0) && (firstRcvdWithCurrentKey a1 =? InvalidPacketNumber) || (pn <? firstRcvdWithCurrentKey a1)) eqn:Epath.
      + destruct (prevRcvAEAD a1) eqn:Eprev.
        * destruct (aead_open (rdir a1, z) pn ad c) eqn:Eo; cbn in H.
          -- inversion H; subst; clear H. cbn. split; [reflexivity|]. split; [reflexivity|]. left.
             split; [reflexivity|]. split; [reflexivity|]. split; [|discriminate]. right. split; [left; exact Ekp|reflexivity].
          -- destruct (invalidPacketCount a1 + 1 >=? invalidPacketLimit a1) eqn:El2; inversion H; subst; clear H; cbn;
               (split; [reflexivity|]; split; [reflexivity|]; left; split; [reflexivity|]; split; [reflexivity|]; split; [|discriminate];
                right; split; [left; exact Ekp|reflexivity]).
        * inversion H; subst; clear H. split; [reflexivity|]. split; [reflexivity|]. left.
          split; [reflexivity|]. split; [reflexivity|]. split; [|discriminate]. right. split; [left; exact Ekp|reflexivity].
      + destruct (aead_open (rdir a1, nextRcvAEAD a1) pn ad c) eqn:Eo.
        * destruct ((keyPhase a1 >? 0) && (firstSentWithCurrentKey a1 =? InvalidPacketNumber)) eqn:Eku.
          -- inversion H; subst; clear H. split; [reflexivity|]. split; [reflexivity|]. left.
             split; [reflexivity|]. split; [reflexivity|]. split.
             ++ right. split; [left; exact Ekp|reflexivity].
             ++ intros _. rewrite inv_m1 in Eku. split; [lia|]. split; [lia|]. reflexivity.
          -- cbn in H. inversion H; subst; clear H. rewrite inv_m1 in Eku.
             unfold rollKeys, startKeyDropTimer. destruct (prevRcvAEAD a1); cbn;
               (split; [reflexivity|]; split; [reflexivity|]; right; split; [reflexivity|]; split; [eexists; reflexivity|];
                split; [exact Ekp|]; split; [|split; reflexivity]).
             all: destruct (Z.gtb_spec (keyPhase a1) 0); destruct (Z.eqb_spec (firstSentWithCurrentKey a1) (-1)); cbn in Eku; try discriminate; lia.
        * cbn in H. destruct (invalidPacketCount a1 + 1 >=? invalidPacketLimit a1) eqn:El2; inversion H; subst; clear H; cbn;
            (split; [reflexivity|]; split; [reflexivity|]; left; split; [reflexivity|]; split; [reflexivity|]; split; [|discriminate];
             right; split; [left; exact Ekp|reflexivity]).
    - destruct (aead_open (rdir a1, rcvAEAD a1) pn ad c) eqn:Eo.
      + cbn in H. destruct (firstRcvdWithCurrentKey a1 =? InvalidPacketNumber) eqn:Efr; cbn in H.
        * destruct (keyPhase a1 >? 0); cbn in H; inversion H; subst; clear H; cbn;
            (split; [reflexivity|]; split; [reflexivity|]; left; split; [reflexivity|]; split; [reflexivity|]; split; [|discriminate];
             left; split; [reflexivity|]; split; [eexists; reflexivity|reflexivity]).
        * inversion H; subst; clear H; cbn.
          split; [reflexivity|]; split; [reflexivity|]; left; split; [reflexivity|]; split; [reflexivity|]; split; [|discriminate].
          left; split; [reflexivity|]; split; [eexists; reflexivity|reflexivity].
      + cbn in H. destruct (invalidPacketCount a1 + 1 >=? invalidPacketLimit a1) eqn:El2; inversion H; subst; clear H; cbn;
          (split; [reflexivity|]; split; [reflexivity|]; left; split; [reflexivity|]; split; [reflexivity|]; split; [|discriminate];
           right; split; [right; intros p; discriminate|reflexivity]).
  Qed.

  (** * Histories *)

  Definition sealed_in (g : Z) (tr : list entry) (pn : Z) : Prop :=
    exists ad p c, In (g, USeal pn ad p, EvSeal c, g) tr.
  Definition acked_in (g : Z) (tr : list entry) (pn : Z) : Prop :=
    In (g, UAck pn, EvAck false, g) tr.
  Definition confirmed_in (tr : list entry) : Prop :=
    exists g, In (g, UConfirm, EvConfirm, g) tr.
  (** a packet was opened with the current receive key of phase g *)
  Definition curopen_in (g : Z) (tr : list entry) : Prop :=
    exists now pto3 pn ad c p, In (g, UOpen now pto3 pn (g mod 2) ad c, EvOpen (OpenOK p), g) tr.

  (** The environment's obligations: packet numbers handed to Seal increase (that is
      C05_pn_never_reused) and are not the sentinel; SetLargestAcked is only called for
      packet numbers that were sent (the sent packet handler rejects other ACKs). *)
  Definition wf_ops (ops : list uop) : Prop :=
    StronglySorted Z.lt (seal_pns ops) /\ Forall (fun pn => 0 <= pn) (seal_pns ops) /\
    (forall pre pn post, ops = pre ++ UAck pn :: post -> In pn (seal_pns pre)).

  Definition claim (pre : list entry) (e : entry) : Prop :=
    let '(g, op, ev, g') := e in
    match op, ev with
    | UKeyPhase, EvKeyPhase bit =>
        bit = g' mod 2 /\
        (g' = g \/ (g' = g + 1 /\ confirmed_in pre /\ (g = 0 \/ exists pn, sealed_in g pre pn /\ acked_in g pre pn)))
    | UOpen now pto3 pn kp ad c, EvOpen r =>
        (g' = g \/ (g' = g + 1 /\ (exists p, r = OpenOK p) /\ (g = 0 \/ exists pn', sealed_in g pre pn'))) /\
        (r = ErrKeyUpdate -> g' = g /\ 0 < g /\ forall pn', ~ sealed_in g pre pn')
    | UAck pn, EvAck err =>
        g' = g /\ (err = true <-> ((exists pn0, sealed_in g pre pn0 /\ pn0 <= pn) /\ ~ curopen_in g pre))
    | USeal _ _ _, EvSeal _ => g' = g
    | UConfirm, EvConfirm => g' = g
    | _, _ => False
    end.

  Record Inv (ops : list uop) (tr : list entry) (a : ua) : Prop := {
    i_ge : 0 <= keyPhase a;
    i_bound : forall g1 op ev g2, In (g1, op, ev, g2) tr -> g1 <= keyPhase a /\ g2 <= keyPhase a;
    i_conf : handshakeConfirmed a = true -> confirmed_in tr;
    i_fs_in : firstSentWithCurrentKey a <> -1 -> sealed_in (keyPhase a) tr (firstSentWithCurrentKey a);
    i_fs_min : forall pn, sealed_in (keyPhase a) tr pn -> firstSentWithCurrentKey a <> -1 /\ firstSentWithCurrentKey a <= pn;
    i_old_below : forall g' pn, sealed_in g' tr pn -> g' < keyPhase a -> firstSentWithCurrentKey a <> -1 -> pn < firstSentWithCurrentKey a;
    i_la : largestAcked a <> -1 -> exists gs gk, gs <= gk /\ gk <= keyPhase a /\ sealed_in gs tr (largestAcked a) /\ acked_in gk tr (largestAcked a);
    i_num_ge : 0 <= numRcvdWithCurrentKey a;
    i_num : numRcvdWithCurrentKey a = 0 <-> ~ curopen_in (keyPhase a) tr;
    i_seals : forall pn, In pn (seal_pns ops) <-> exists g', sealed_in g' tr pn
  }.

  (** ** list plumbing *)
  Lemma sorted_app_inv (l1 l2 : list Z) : StronglySorted Z.lt (l1 ++ l2) ->
    StronglySorted Z.lt l1 /\ forall x y, In x l1 -> In y l2 -> x < y.
  Proof.
    induction l1 as [|x l1 IH]; cbn; intros H; [split; [constructor|intros ? ? []]|].
    inversion H as [|? ? Hs Hf]; subst. destruct (IH Hs) as [H1 H2]. split.
    - constructor; [exact H1|]. rewrite Forall_forall in *. intros y Hy. apply Hf. apply in_or_app. left; exact Hy.
    - intros x0 y [<-|Hx] Hy; [|apply H2; assumption]. rewrite Forall_forall in Hf. apply Hf. apply in_or_app. right; exact Hy.
  Qed.

  Lemma seal_pns_app o1 o2 : seal_pns (o1 ++ o2) = seal_pns o1 ++ seal_pns o2.
  Proof. unfold KeyPhase.seal_pns. apply flat_map_app. Qed.

  Lemma wf_prefix ops op : wf_ops (ops ++ [op]) -> wf_ops ops.
  Proof.
    intros (Hs & Hp & Ha). rewrite seal_pns_app in Hs, Hp. split; [|split].
    - apply sorted_app_inv in Hs. apply Hs.
    - apply Forall_app in Hp. apply Hp.
    - intros pre pn post E. apply (Ha pre pn (post ++ [op])). rewrite E, <- app_assoc. reflexivity.
  Qed.

  Lemma snoc_decomp {A} (tr : list A) x pre e post :
    tr ++ [x] = pre ++ e :: post ->
    (post = [] /\ pre = tr /\ e = x) \/ (exists post', post = post' ++ [x] /\ tr = pre ++ e :: post').
  Proof.
    intros E. destruct post as [|y post'] using rev_ind.
    - left. apply app_inj_tail in E. destruct E; subst; auto.
    - right. clear IHpost'. exists post'. rewrite app_comm_cons, app_assoc in E.
      apply app_inj_tail in E. destruct E as [E1 E2]; subst. split; reflexivity.
  Qed.

  Lemma run_snoc cfg a ops op : run cfg a (ops ++ [op]) = snd (step cfg (run cfg a ops) op).
  Proof. revert a; induction ops as [|o r IH]; intros a; cbn; [reflexivity|apply IH]. Qed.

  Lemma trace_snoc cfg a ops op :
    trace cfg a (ops ++ [op]) =
    trace cfg a ops ++ [(keyPhase (run cfg a ops), op, fst (step cfg (run cfg a ops) op), keyPhase (snd (step cfg (run cfg a ops) op)))].
  Proof.
    revert a; induction ops as [|o r IH]; intros a; cbn.
    - destruct (step cfg a op); reflexivity.
    - destruct (step cfg a o) as [ev a'] eqn:E. cbn. rewrite IH. reflexivity.
  Qed.

  Lemma in_snoc {A} (x y : A) l : In x (l ++ [y]) <-> In x l \/ x = y.
  Proof. rewrite in_app_iff. cbn. intuition. Qed.

  Lemma sealed_in_snoc g' tr g1 op ev g2 pn :
    sealed_in g' (tr ++ [(g1, op, ev, g2)]) pn <->
    sealed_in g' tr pn \/ (exists ad p c, op = USeal pn ad p /\ ev = EvSeal c /\ g1 = g' /\ g2 = g').
  Proof.
    unfold sealed_in. split.
    - intros (ad & p & c & H). apply in_snoc in H. destruct H as [H|H]; [left; eauto|right].
      inversion H; subst. eauto 8.
    - intros [(ad & p & c & H)|(ad & p & c & -> & -> & -> & ->)]; exists ad, p, c; apply in_snoc; auto.
  Qed.

  Lemma acked_in_snoc g' tr g1 op ev g2 pn :
    acked_in g' (tr ++ [(g1, op, ev, g2)]) pn <->
    acked_in g' tr pn \/ (op = UAck pn /\ ev = EvAck false /\ g1 = g' /\ g2 = g').
  Proof.
    unfold acked_in. rewrite in_snoc. split; intros [H|H]; auto.
    - inversion H; subst; auto.
    - destruct H as (-> & -> & -> & ->). auto.
  Qed.

  Lemma confirmed_in_snoc tr g1 op ev g2 :
    confirmed_in (tr ++ [(g1, op, ev, g2)]) <-> confirmed_in tr \/ (op = UConfirm /\ ev = EvConfirm /\ g1 = g2).
  Proof.
    unfold confirmed_in. split.
    - intros (g & H). apply in_snoc in H. destruct H as [H|H]; [left; eauto|right]. inversion H; subst; auto.
    - intros [(g & H)|(-> & -> & ->)]; [exists g|exists g2]; apply in_snoc; auto.
  Qed.

  Lemma curopen_in_snoc g' tr g1 op ev g2 :
    curopen_in g' (tr ++ [(g1, op, ev, g2)]) <->
    curopen_in g' tr \/ (exists now pto3 pn ad c p, op = UOpen now pto3 pn (g' mod 2) ad c /\ ev = EvOpen (OpenOK p) /\ g1 = g' /\ g2 = g').
  Proof.
    unfold curopen_in. split.
    - intros (now & pto3 & pn & ad & c & p & H). apply in_snoc in H. destruct H as [H|H]; [left; eauto 10|right].
      inversion H; subst. eauto 12.
    - intros [(now & pto3 & pn & ad & c & p & H)|(now & pto3 & pn & ad & c & p & -> & -> & -> & ->)];
        exists now, pto3, pn, ad, c, p; apply in_snoc; auto.
  Qed.

  (** ** Preservation *)

  (** A step that rolls the keys (locally or on behalf of the peer). *)
  Lemma inv_roll ops tr a a' op ev :
    Inv ops tr a ->
    keyPhase a' = keyPhase a + 1 -> firstSentWithCurrentKey a' = -1 -> numRcvdWithCurrentKey a' = 0 ->
    largestAcked a' = largestAcked a -> handshakeConfirmed a' = handshakeConfirmed a ->
    seal_pns [op] = [] -> (forall pn ad p, op <> USeal pn ad p) ->
    Inv (ops ++ [op]) (tr ++ [(keyPhase a, op, ev, keyPhase a')]) a'.
  Proof.
    intros I Ek Ef En El Eh Esp Hns.
    assert (Hnew : forall g' pn, sealed_in g' (tr ++ [(keyPhase a, op, ev, keyPhase a')]) pn <-> sealed_in g' tr pn).
    { intros g' pn. rewrite sealed_in_snoc. split; [|auto]. intros [H|(ad & p & c & E & _)]; [exact H|]. exfalso. eapply Hns; exact E. }
    constructor.
    - rewrite Ek. pose proof (i_ge _ _ _ I). lia.
    - intros g1 o e g2 H. apply in_snoc in H. destruct H as [H|H].
      + destruct (i_bound _ _ _ I _ _ _ _ H). lia.
      + inversion H; subst. pose proof (i_ge _ _ _ I). lia.
    - rewrite Eh. intros H. apply confirmed_in_snoc. left. apply (i_conf _ _ _ I H).
    - rewrite Ef. intros H; congruence.
    - intros pn H. apply Hnew in H. destruct H as (ad & p & c & H). apply (i_bound _ _ _ I) in H. lia.
    - rewrite Ef. intros ? ? ? ? H; congruence.
    - rewrite El. intros H. destruct (i_la _ _ _ I H) as (gs & gk & H1 & H2 & H3 & H4).
      exists gs, gk. split; [exact H1|]. split; [lia|]. split; [apply Hnew; exact H3|]. apply acked_in_snoc. left; exact H4.
    - lia.
    - split; [intros _|intros _; exact En]. intros H. apply curopen_in_snoc in H.
      destruct H as [(now & pto3 & pn & ad & c & p & H)|(now & pto3 & pn & ad & c & p & _ & _ & E1 & _)].
      + apply (i_bound _ _ _ I) in H. lia.
      + lia.
    - intros pn. rewrite seal_pns_app, Esp, app_nil_r. rewrite (i_seals _ _ _ I). split; intros (g' & H); exists g'; apply Hnew; exact H.
  Qed.

  (** A step in the same phase that touches none of the tracked fields and adds no
      seal / accepted ack / confirm / current-key open entry. *)
  Lemma inv_frame ops tr a a' op ev :
    Inv ops tr a ->
    keyPhase a' = keyPhase a -> firstSentWithCurrentKey a' = firstSentWithCurrentKey a ->
    numRcvdWithCurrentKey a' = numRcvdWithCurrentKey a ->
    largestAcked a' = largestAcked a -> (handshakeConfirmed a' = true -> handshakeConfirmed a = true \/ (op = UConfirm /\ ev = EvConfirm)) ->
    (forall pn ad p, op <> USeal pn ad p) ->
    (forall now pto3 pn ad c p, ~ (op = UOpen now pto3 pn (keyPhase a mod 2) ad c /\ ev = EvOpen (OpenOK p))) ->
    Inv (ops ++ [op]) (tr ++ [(keyPhase a, op, ev, keyPhase a')]) a'.
  Proof.
    intros I Ek Ef En El Eh Hns Hno.
    assert (Hnew : forall g' pn, sealed_in g' (tr ++ [(keyPhase a, op, ev, keyPhase a')]) pn <-> sealed_in g' tr pn).
    { intros g' pn. rewrite sealed_in_snoc. split; [|auto]. intros [H|(ad & p & c & E & _)]; [exact H|]. exfalso. eapply Hns; exact E. }
    assert (Esp : seal_pns [op] = []).
    { destruct op; try reflexivity. exfalso. eapply Hns. reflexivity. }
    rewrite Ek in Hnew |- *.
    constructor; rewrite ?Ek, ?Ef, ?En, ?El.
    - apply (i_ge _ _ _ I).
    - intros g1 o e g2 H. apply in_snoc in H. destruct H as [H|H].
      + apply (i_bound _ _ _ I _ _ _ _ H).
      + inversion H; subst. lia.
    - intros H. apply confirmed_in_snoc. destruct (Eh H) as [H'|[-> ->]]; [left; apply (i_conf _ _ _ I H')|right; auto].
    - intros H. apply Hnew. apply (i_fs_in _ _ _ I H).
    - intros pn H. apply Hnew in H. apply (i_fs_min _ _ _ I _ H).
    - intros g' pn H. apply Hnew in H. apply (i_old_below _ _ _ I _ _ H).
    - intros H. destruct (i_la _ _ _ I H) as (gs & gk & H1 & H2 & H3 & H4).
      exists gs, gk. split; [exact H1|]. split; [exact H2|]. split; [apply Hnew; exact H3|]. apply acked_in_snoc. left; exact H4.
    - apply (i_num_ge _ _ _ I).
    - rewrite (i_num _ _ _ I). rewrite curopen_in_snoc. split; [|tauto].
      intros H [H'|(now & pto3 & pn & ad & c & p & E1 & E2 & _)]; [tauto|]. eapply Hno; split; eassumption.
    - intros pn. rewrite seal_pns_app, Esp, app_nil_r. rewrite (i_seals _ _ _ I). split; intros (g' & H); exists g'; apply Hnew; exact H.
  Qed.

  Lemma roll_fields a :
    keyPhase (rollKeys a) = keyPhase a + 1 /\ firstSentWithCurrentKey (rollKeys a) = -1 /\
    numRcvdWithCurrentKey (rollKeys a) = 0 /\ largestAcked (rollKeys a) = largestAcked a /\
    handshakeConfirmed (rollKeys a) = handshakeConfirmed a.
  Proof. unfold rollKeys. destruct (prevRcvAEAD a); cbn; repeat split; reflexivity. Qed.

  Lemma updateAllowed_true a : updateAllowed a = true ->
    handshakeConfirmed a = true /\
    (keyPhase a = 0 \/ (firstSentWithCurrentKey a <> -1 /\ largestAcked a <> -1 /\ firstSentWithCurrentKey a <= largestAcked a)).
  Proof.
    unfold updateAllowed. rewrite inv_m1. destruct (handshakeConfirmed a); cbn; [|discriminate].
    intros H. split; [reflexivity|]. lia.
  Qed.

  Lemma shouldInitiate_allowed cfg a : shouldInitiateKeyUpdate cfg a = true -> updateAllowed a = true.
  Proof. unfold shouldInitiateKeyUpdate. destruct (updateAllowed a); cbn; congruence. Qed.

  Lemma inv0 rd wd lim : Inv [] [] (ua_new rd wd lim).
  Proof.
    constructor; cbn; try rewrite inv_m1; try lia.
    - intros ? (? & ? & ? & []).
    - split; [intros _ (? & ? & ? & ? & ? & ? & [])|reflexivity].
    - intros pn. split; [intros []|intros (? & ? & ? & ? & [])].
  Qed.

  Lemma step_inv cfg ops tr a op :
    wf_ops (ops ++ [op]) -> Inv ops tr a ->
    Inv (ops ++ [op]) (tr ++ [(keyPhase a, op, fst (step cfg a op), keyPhase (snd (step cfg a op)))]) (snd (step cfg a op))
    /\ claim tr (keyPhase a, op, fst (step cfg a op), keyPhase (snd (step cfg a op))).
  Proof.
    intros Hwf I. pose proof (i_ge _ _ _ I) as Hge.
    destruct op as [|pn ad p|now pto3 pn kp ad c|pn|]; cbn [ua_step].
    - (* KeyPhase() *)
      unfold ua_keyphase. destruct (shouldInitiateKeyUpdate cfg a) eqn:Es; cbn [fst snd].
      + destruct (roll_fields a) as (Ek & Ef & En & El & Eh). split.
        * apply inv_roll; try assumption; [reflexivity|intros; discriminate].
        * cbn. split; [reflexivity|]. right. split; [exact Ek|].
          apply shouldInitiate_allowed, updateAllowed_true in Es. destruct Es as [Hc Hrest].
          split; [apply (i_conf _ _ _ I Hc)|].
          destruct Hrest as [H0|(Hfs & Hla & Hle)]; [left; exact H0|right].
          destruct (i_la _ _ _ I Hla) as (gs & gk & H1 & H2 & H3 & H4).
          assert (gs = keyPhase a).
          { destruct (Z.eq_dec gs (keyPhase a)) as [E|NE]; [exact E|]. exfalso.
            assert (Hlt : gs < keyPhase a) by lia.
            pose proof (i_old_below _ _ _ I _ _ H3 Hlt Hfs). lia. }
          subst gs. assert (gk = keyPhase a) by lia. subst gk.
          exists (largestAcked a). split; assumption.
      + split.
        * apply inv_frame; try assumption; try reflexivity; [auto|intros; discriminate|intros ? ? ? ? ? ? [? ?]; discriminate].
        * cbn. split; [reflexivity|left; reflexivity].
    - (* Seal *)
      unfold ua_seal. cbn [fst snd].
      destruct Hwf as (Hs & Hp & Ha). rewrite seal_pns_app in Hs, Hp. cbn in Hs, Hp.
      apply sorted_app_inv in Hs. destruct Hs as [_ Hlt]. apply Forall_app in Hp. destruct Hp as [_ Hp].
      inversion Hp as [|? ? Hpn _]; subst.
      assert (Hbelow : forall g' pn0, sealed_in g' tr pn0 -> pn0 < pn).
      { intros g' pn0 H. apply Hlt; [|left; reflexivity]. apply (i_seals _ _ _ I). exists g'. exact H. }
      set (fs' := if firstSentWithCurrentKey a =? InvalidPacketNumber then pn else firstSentWithCurrentKey a).
      assert (Hfs' : (firstSentWithCurrentKey a = -1 /\ fs' = pn) \/ (firstSentWithCurrentKey a <> -1 /\ fs' = firstSentWithCurrentKey a)).
      { subst fs'. rewrite inv_m1. destruct (Z.eqb_spec (firstSentWithCurrentKey a) (-1)); [left|right]; auto. }
      clearbody fs'.
      split; [|reflexivity]. cbn [keyPhase set_sent].
      constructor; cbn [keyPhase set_sent firstSentWithCurrentKey largestAcked numRcvdWithCurrentKey handshakeConfirmed].
      + exact Hge.
      + intros g1 o e g2 H. apply in_snoc in H. destruct H as [H|H]; [apply (i_bound _ _ _ I _ _ _ _ H)|inversion H; subst; lia].
      + intros H. apply confirmed_in_snoc. left. apply (i_conf _ _ _ I H).
      + intros _. apply sealed_in_snoc. destruct Hfs' as [[E1 ->]|[E1 ->]].
        * right. eauto 8.
        * left. apply (i_fs_in _ _ _ I E1).
      + intros pn0 H. apply sealed_in_snoc in H. destruct H as [H|(ad0 & p0 & c0 & E & _)].
        * destruct (i_fs_min _ _ _ I _ H) as [N L]. destruct Hfs' as [[E1 ->]|[E1 ->]]; [congruence|]. split; assumption.
        * inversion E; subst pn0. destruct Hfs' as [[E1 ->]|[E1 ->]]; [split; lia|]. split; [exact E1|].
          pose proof (Hbelow _ _ (i_fs_in _ _ _ I E1)). lia.
      + intros g' pn0 H Hlt' _. apply sealed_in_snoc in H. destruct H as [H|(ad0 & p0 & c0 & _ & _ & E & _)]; [|lia].
        destruct Hfs' as [[E1 ->]|[E1 ->]]; [apply (Hbelow _ _ H)|apply (i_old_below _ _ _ I _ _ H Hlt' E1)].
      + intros H. destruct (i_la _ _ _ I H) as (gs & gk & H1 & H2 & H3 & H4).
        exists gs, gk. split; [exact H1|]. split; [exact H2|]. split; [apply sealed_in_snoc; left; exact H3|apply acked_in_snoc; left; exact H4].
      + apply (i_num_ge _ _ _ I).
      + rewrite (i_num _ _ _ I). rewrite curopen_in_snoc. split; [|tauto].
        intros H [H'|(? & ? & ? & ? & ? & ? & E & _)]; [tauto|discriminate].
      + intros pn0. rewrite seal_pns_app, in_app_iff. cbn. rewrite (i_seals _ _ _ I). split.
        * intros [(g' & H)|[<-|[]]]; [exists g'; apply sealed_in_snoc; left; exact H|].
          exists (keyPhase a). apply sealed_in_snoc. right. eauto 8.
        * intros (g' & H). apply sealed_in_snoc in H. destruct H as [H|(ad0 & p0 & c0 & E & _)]; [left; eauto|right; left; inversion E; reflexivity].
    - (* Open *)
      destruct (uopen a now pto3 pn kp ad c) as [r a'] eqn:Eo. cbn [fst snd].
      destruct (open_cases _ _ _ _ _ _ _ _ _ Hge Eo) as (Eh & El & [(Ek & Ef & Hnum & Hku)|(Ek & (p & ->) & Hkp & Hsent & Ef & En)]).
      + split.
        * destruct Hnum as [(Ekp & (p & ->) & En)|(Hnot & En)].
          -- (* opened with the current key: numRcvd grows *)
             rewrite Ek.
             assert (Hnew : forall g' pn0, sealed_in g' (tr ++ [(keyPhase a, UOpen now pto3 pn kp ad c, EvOpen (OpenOK p), keyPhase a)]) pn0 <-> sealed_in g' tr pn0).
             { intros g' pn0. rewrite sealed_in_snoc. split; [|auto]. intros [H|(? & ? & ? & E & _)]; [exact H|discriminate]. }
             constructor; rewrite ?Ek, ?Ef, ?En, ?El, ?Eh.
             ++ exact Hge.
             ++ intros g1 o e g2 H. apply in_snoc in H. destruct H as [H|H]; [apply (i_bound _ _ _ I _ _ _ _ H)|inversion H; subst; lia].
             ++ intros H. apply confirmed_in_snoc. left. apply (i_conf _ _ _ I H).
             ++ intros H. apply Hnew. apply (i_fs_in _ _ _ I H).
             ++ intros pn0 H. apply Hnew in H. apply (i_fs_min _ _ _ I _ H).
             ++ intros g' pn0 H. apply Hnew in H. apply (i_old_below _ _ _ I _ _ H).
             ++ intros H. destruct (i_la _ _ _ I H) as (gs & gk & H1 & H2 & H3 & H4).
                exists gs, gk. split; [exact H1|]. split; [exact H2|]. split; [apply Hnew; exact H3|apply acked_in_snoc; left; exact H4].
             ++ pose proof (i_num_ge _ _ _ I) as Hng. lia.
             ++ pose proof (i_num_ge _ _ _ I) as Hng. split; [lia|]. intros Hno. exfalso. apply Hno.
                apply curopen_in_snoc. right. unfold phase_bit in Ekp. subst kp. eauto 12.
             ++ intros pn0. rewrite seal_pns_app. cbn. rewrite app_nil_r. rewrite (i_seals _ _ _ I).
                split; intros (g' & H); exists g'; apply Hnew; exact H.
          -- apply (inv_frame _ _ _ _ _ _ I Ek Ef En El); [intros H; left; rewrite <- Eh; exact H|intros; discriminate|].
             intros now0 pto0 pn0 ad0 c0 p0 [E1 E2]. inversion E1; subst. inversion E2; subst.
             destruct Hnot as [H|H]; [apply H; reflexivity|eapply H; reflexivity].
        * rewrite Ek. cbn. split; [left; reflexivity|]. intros E. destruct (Hku E) as (H1 & H2 & _). split; [reflexivity|]. split; [lia|].
          intros pn' H. apply (i_fs_min _ _ _ I) in H. tauto.
      + split.
        * apply inv_roll; try assumption; [reflexivity|intros; discriminate].
        * cbn. split; [|discriminate]. right. split; [exact Ek|]. split; [eauto|].
          destruct Hsent as [H|H]; [left; exact H|right]. exists (firstSentWithCurrentKey a). apply (i_fs_in _ _ _ I H).
    - (* SetLargestAcked *)
      unfold ua_set_largest_acked.
      assert (Hin : In pn (seal_pns ops)).
      { destruct Hwf as (_ & _ & Ha). apply (Ha ops pn []). reflexivity. }
      destruct (negb (firstSentWithCurrentKey a =? InvalidPacketNumber) && (pn >=? firstSentWithCurrentKey a) && (numRcvdWithCurrentKey a =? 0)) eqn:Ec; cbn [fst snd].
      + split.
        * apply inv_frame; try assumption; try reflexivity; [auto|intros; discriminate|intros ? ? ? ? ? ? [? ?]; discriminate].
        * cbn. split; [reflexivity|]. split; [intros _|reflexivity]. rewrite inv_m1 in Ec.
          assert (Hfs : firstSentWithCurrentKey a <> -1) by lia. split.
          -- exists (firstSentWithCurrentKey a). split; [apply (i_fs_in _ _ _ I Hfs)|lia].
          -- apply (i_num _ _ _ I). lia.
      + split.
        * cbn [keyPhase set_largestAcked].
          assert (Hnew : forall g' pn0, sealed_in g' (tr ++ [(keyPhase a, UAck pn, EvAck false, keyPhase a)]) pn0 <-> sealed_in g' tr pn0).
          { intros g' pn0. rewrite sealed_in_snoc. split; [|auto]. intros [H|(? & ? & ? & E & _)]; [exact H|discriminate]. }
          constructor; cbn [keyPhase set_largestAcked firstSentWithCurrentKey largestAcked numRcvdWithCurrentKey handshakeConfirmed].
          -- exact Hge.
          -- intros g1 o e g2 H. apply in_snoc in H. destruct H as [H|H]; [apply (i_bound _ _ _ I _ _ _ _ H)|inversion H; subst; lia].
          -- intros H. apply confirmed_in_snoc. left. apply (i_conf _ _ _ I H).
          -- intros H. apply Hnew. apply (i_fs_in _ _ _ I H).
          -- intros pn0 H. apply Hnew in H. apply (i_fs_min _ _ _ I _ H).
          -- intros g' pn0 H. apply Hnew in H. apply (i_old_below _ _ _ I _ _ H).
          -- intros _. apply (i_seals _ _ _ I) in Hin. destruct Hin as (gs & Hgs).
             exists gs, (keyPhase a). destruct Hgs as (ad0 & p0 & c0 & Hgs'). pose proof (i_bound _ _ _ I _ _ _ _ Hgs') as [Hb _].
             split; [exact Hb|]. split; [lia|]. split; [apply Hnew; exists ad0, p0, c0; exact Hgs'|apply acked_in_snoc; right; auto].
          -- apply (i_num_ge _ _ _ I).
          -- rewrite (i_num _ _ _ I). rewrite curopen_in_snoc. split; [|tauto].
             intros H [H'|(? & ? & ? & ? & ? & ? & E & _)]; [tauto|discriminate].
          -- intros pn0. rewrite seal_pns_app. cbn. rewrite app_nil_r. rewrite (i_seals _ _ _ I).
             split; intros (g' & H); exists g'; apply Hnew; exact H.
        * cbn. split; [reflexivity|]. split; [discriminate|]. intros [(pn0 & Hs0 & Hle) Hno]. exfalso.
          destruct (i_fs_min _ _ _ I _ Hs0) as [Hfs Hmin]. apply (i_num _ _ _ I) in Hno. rewrite inv_m1 in Ec. lia.
    - (* SetHandshakeConfirmed *)
      cbn [fst snd]. split; [|reflexivity].
      apply inv_frame; try assumption; try reflexivity; [auto|intros; discriminate|intros ? ? ? ? ? ? [? ?]; discriminate].
  Qed.

  (** ** The theorem over all histories *)
  Lemma history_claims cfg rd wd lim ops :
    wf_ops ops ->
    Inv ops (trace cfg (ua_new rd wd lim) ops) (run cfg (ua_new rd wd lim) ops) /\
    forall pre e post, trace cfg (ua_new rd wd lim) ops = pre ++ e :: post -> claim pre e.
  Proof.
    induction ops as [|op ops IH] using rev_ind; intros Hwf.
    - split; [apply inv0|]. intros pre e post H. destruct pre; discriminate.
    - destruct (IH (wf_prefix _ _ Hwf)) as [I C].
      destruct (step_inv cfg ops _ _ op Hwf I) as [I' C'].
      rewrite run_snoc, trace_snoc. split; [exact I'|].
      intros pre e post E. apply snoc_decomp in E. destruct E as [(-> & -> & ->)|(post' & -> & E)].
      + exact C'.
      + eapply C. exact E.
  Qed.

  Definition update_not_early_statement : Prop :=
    forall cfg rd wd lim ops pre e post,
      wf_ops ops -> trace cfg (ua_new rd wd lim) ops = pre ++ e :: post -> claim pre e.

  Lemma update_not_early : update_not_early_statement.
  Proof. intros cfg rd wd lim ops pre e post Hwf E. eapply (proj2 (history_claims cfg rd wd lim ops Hwf)). exact E. Qed.
End Proofs.
