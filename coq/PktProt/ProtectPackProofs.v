(** Packer -> unpacker: whatever the packer builds (padding, chosen packet number length) is
    recovered exactly by the unpacker, given what the sender knows to be acknowledged. *)
From Coq Require Import List ZArith Bool Lia.
From V Require Import Gen.Params PktProt.PktNum PktProt.PktNumProofs PktProt.Protect PktProt.ProtectProofs PktProt.ProtectPack.
Import ListNotations.
Open Scope Z_scope.

Lemma sender_window pn la largest :
  0 <= pn < 2 ^ 62 -> -1 <= la -> la <= largest <= pn + reorder_tolerance (lenForHeader pn la) -> pn - la <= 2 ^ 31 ->
  let len := lenForHeader pn la in
  largest + 1 - 2 ^ (len * 8) / 2 < pn <= largest + 1 + 2 ^ (len * 8) / 2.
Proof.
  intros Hpn Hla Hlg Hout len. subst len. unfold reorder_tolerance in Hlg. revert Hlg.
  destruct (lenForHeader_cases pn la Hla) as [[Hn ->]|[[Hn ->]|[Hn ->]]];
    [ change (2 ^ (2 * 8) / 2) with 32768 | change (2 ^ (3 * 8) / 2) with 8388608
    | change (2 ^ (4 * 8) / 2) with 2147483648 ];
    change (2 ^ 15) with 32768 in *; change (2 ^ 23) with 8388608 in *; change (2 ^ 31) with 2147483648 in *; intros Hlg; lia.
Qed.

Lemma packet_payload_length ack padding frames :
  length (packet_payload ack padding frames) = (length ack + padding + length frames)%nat.
Proof. unfold packet_payload. rewrite !app_length, repeat_length. lia. Qed.

Section Proofs.
  Variable aead_seal : Z -> Z -> list Z -> list Z -> list Z.
  Variable aead_open : Z -> Z -> list Z -> list Z -> option (list Z).
  Variable hp_mask : list Z -> list Z.
  Hypothesis open_seal : forall pn kp ad p, aead_open pn kp ad (aead_seal pn kp ad p) = Some p.
  Hypothesis seal_length : forall pn kp ad p, length (aead_seal pn kp ad p) = (length p + 16)%nat.

  Definition pack_unpack_statement : Prop :=
    forall (long : bool) (tcode kp : Z) (mid : list Z) (pn la largest : Z) (ack frames : list Z) (extra : nat),
      (if long then 0 <= tcode <= 3 else kp = 0 \/ kp = 1) ->
      0 <= pn < 2 ^ 62 -> -1 <= la -> la <= largest <= pn + reorder_tolerance (lenForHeader pn la) -> pn - la <= 2 ^ 31 ->
      ack ++ frames <> [] ->
      let pnLen := lenForHeader pn la in
      let padding := pad_len (Z.to_nat pnLen) (length ack + length frames) extra in
      2 <= pnLen <= 4 /\
      (4 <= Z.to_nat pnLen + length (packet_payload ack padding frames))%nat /\
      unprotect aead_open hp_mask long (1 + length mid) largest
        (pack aead_seal hp_mask long tcode kp mid pn la ack frames extra)
      = UOk (pack_first long tcode kp (Z.to_nat pnLen)) pn pnLen (if long then 0 else kp)
            (packet_payload ack padding frames).

  Lemma pack_unpack : pack_unpack_statement.
  Proof.
    intros long tcode kp mid pn la largest ack frames extra Hside Hpn Hla Hlg Hout Hne pnLen padding.
    pose proof (lenForHeader_ge2 pn la) as Hl. fold pnLen in Hl.
    pose proof (sender_window pn la largest Hpn Hla Hlg Hout) as Hwin. cbv zeta in Hwin. fold pnLen in Hwin.
    assert (Hpl : (4 <= Z.to_nat pnLen + length (packet_payload ack padding frames))%nat).
    { rewrite packet_payload_length. subst padding. unfold pad_len. lia. }
    split; [exact Hl|]. split; [exact Hpl|].
    unfold pack. fold pnLen. fold padding. set (n := Z.to_nat pnLen) in *.
    assert (En : pnLen = Z.of_nat n) by (subst n; lia). 
    assert (Hne' : packet_payload ack padding frames <> []).
    { unfold packet_payload. intros E. apply app_eq_nil in E. destruct E as [E1 E2]. apply app_eq_nil in E2. destruct E2 as [_ E3].
      apply Hne. rewrite E1, E3. reflexivity. }
    rewrite En in Hwin. rewrite En at 1.
    destruct long; unfold pack_first.
    - apply (protect_roundtrip aead_seal aead_open hp_mask open_seal seal_length true); try assumption; try lia.
      apply long_first_wf; lia.
    - apply (protect_roundtrip aead_seal aead_open hp_mask open_seal seal_length false); try assumption; try lia.
      apply short_first_wf; [lia|exact Hside].
  Qed.
End Proofs.
