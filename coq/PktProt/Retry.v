(** Retry integrity tag (RFC 9001 5.8, RFC 9369 3.3.3): internal/handshake/retry.go
    GetRetryIntegrityTag — AES-128-GCM with a fixed key and nonce per version, empty plaintext,
    AAD = ODCID length || ODCID || Retry packet without the tag.  The nonces come from the code
    (Gen/Params.v); the keys are function-local literals in the code, the model has the RFC's
    values (tied by the correspondence cases).  Executable definitions only. *)
From Coq Require Import List ZArith Bool String.
From V Require Import Gen.Params Lib.Hex PktProt.Aes.
Import ListNotations.
Open Scope Z_scope.

Definition retry_key (v2 : bool) : list Z :=
  hx (if v2 then "8fb4b01b56ac48e260fbcbcead7ccc92" else "be0c690b9f66575a1d766b54e368c84e").
Definition retry_nonce (v2 : bool) : list Z := hx (if v2 then PP_retryNonceV2 else PP_retryNonceV1).

Definition retry_pseudo (odcid retry : list Z) : list Z := Z.of_nat (List.length odcid) :: odcid ++ retry.

Definition retry_tag (v2 : bool) (odcid retry : list Z) : list Z :=
  gcm_seal (aes_expand (retry_key v2)) (retry_nonce v2) (retry_pseudo odcid retry) [].
