(** Key derivation across key updates: which HKDF label goes with which QUIC version.
      internal/handshake/updatable_aead.go  getNextTrafficSecret  (RFC 9001 6.1, RFC 9369 3.3.2)
      internal/handshake/aead.go            createAEAD            (key / iv labels)
      internal/handshake/header_protector.go hkdfHeaderProtectionLabel
    HKDF-Expand-Label itself is a Section variable (an oracle: golang.org/x/crypto/hkdf); the
    labels come from Gen/Params.v (key/iv: the package's constants; hp: the function's value;
    ku: extracted by behaviour from getNextTrafficSecret).  Generation n of the KeyPhase model
    is [gen_secret n] of the initial traffic secret.  Executable definitions only. *)
From Coq Require Import List ZArith Bool String.
From V Require Import Gen.Params.
Import ListNotations.
Open Scope Z_scope.

Definition key_label (v2 : bool) : string := if v2 then PP_hkdfLabelKeyV2 else PP_hkdfLabelKeyV1.
Definition iv_label (v2 : bool) : string := if v2 then PP_hkdfLabelIVV2 else PP_hkdfLabelIVV1.
Definition hp_label (v2 : bool) : string := if v2 then PP_hkdfLabelHPV2 else PP_hkdfLabelHPV1.
Definition ku_label (v2 : bool) : string := if v2 then PP_hkdfLabelKUV2 else PP_hkdfLabelKUV1.

Section Derive.
  (** HKDF-Expand-Label(secret, label, "", length) *)
  Variable expand_label : list Z -> string -> Z -> list Z.

  (** func (a *updatableAEAD) getNextTrafficSecret(hash, ts) *)
  Definition next_secret (v2 : bool) (hashLen : Z) (ts : list Z) : list Z :=
    expand_label ts (ku_label v2) hashLen.

  Fixpoint gen_secret (v2 : bool) (hashLen : Z) (ts : list Z) (n : nat) : list Z :=
    match n with O => ts | S n' => next_secret v2 hashLen (gen_secret v2 hashLen ts n') end.

  (** createAEAD / newHeaderProtector: key, iv and header-protection key of a traffic secret *)
  Definition aead_key (v2 : bool) (keyLen : Z) (ts : list Z) : list Z := expand_label ts (key_label v2) keyLen.
  Definition aead_iv (v2 : bool) (ts : list Z) : list Z := expand_label ts (iv_label v2) 12.
  Definition hp_key (v2 : bool) (keyLen : Z) (ts : list Z) : list Z := expand_label ts (hp_label v2) keyLen.
End Derive.

