(** Correspondence glue for unit h3writers: what harness/drv/h3writers.go logged from the real
    requestWriter / responseWriter / writeTrailers (through the real frame parser and qpack
    decoder) against the H3Writers model. Parts of the output that follow the iteration order
    of a Go map are compared as multisets. *)
From Coq Require Import List ZArith Bool String.
From V Require Import Gen.Params Lib.Hex Lib.Corr H3Headers.Model H3Writers.Model.
Import ListNotations.
Open Scope bool_scope.
Open Scope Z_scope.

Definition hfields := list (string * string).
Definition hmapS := list (string * list string).

Inductive case :=
| WReq (method scheme host : string) (hostok : bool) (uri proto : string) (hdr : hmapS) (gzip : bool)
       (cl : Z) (trailer : list string) (res : option hfields)          (* None: the writer returned an error *)
| WRsp (status : Z) (hdr : hmapS) (res : hfields)                        (* header map when the HEADERS frame was written *)
| WRspTr (hdr1 hdr2 : hmapS) (res : option hfields)                      (* maps at writeHeader / at flushTrailers; None: no trailer section *)
| WTr (tr : hmapS) (res : option hfields)                                (* WriteRequestTrailer *)
| WPrep (date : string) (before after : hmapS)                           (* WriteHeader's defaults *)
| WDec (maxb enclen : Z) (truncated : bool) (fs : hfields) (res : dres)  (* decodeTrailers on real qpack bytes *)
with dres := DErr (cls : Z) | DOk (m : hmapS).

Definition fields_of (fs : hfields) : list field := map (fun p => F (hx (fst p)) (hx (snd p))) fs.
Definition gomap_of (h : hmapS) : gomap := map (fun e => (hx (fst e), map hx (snd e))) h.

Definition feq (a b : field) : bool := beq (fname a) (fname b) && beq (fvalue a) (fvalue b).
Fixpoint flist_eq (a b : list field) : bool :=
  match a, b with
  | [], [] => true
  | x :: a', y :: b' => feq x y && flist_eq a' b'
  | _, _ => false
  end.
Definition fcount (f : field) (l : list field) : nat := List.length (filter (feq f) l).
(** multiset equality *)
Definition fperm (a b : list field) : bool :=
  Nat.eqb (List.length a) (List.length b) && forallb (fun f => Nat.eqb (fcount f a) (fcount f b)) a.

Definition opt_perm (i : option hfields) (m : option (list field)) : bool :=
  match i, m with
  | None, None => true
  | Some a, Some b => fperm (fields_of a) b
  | _, _ => false
  end.

(** maps as sets of (key, values) entries with distinct keys *)
Fixpoint vlist_eq (a b : list bytes) : bool :=
  match a, b with
  | [], [] => true
  | x :: a', y :: b' => beq x y && vlist_eq a' b'
  | _, _ => false
  end.
Definition gomap_eq (a b : gomap) : bool :=
  Nat.eqb (List.length a) (List.length b) &&
  forallb (fun e => match get_exact (fst e) b with Some vs => vlist_eq (snd e) vs | None => false end) a.

Fixpoint pseudo_block_first (seen_regular : bool) (l : list field) : bool :=
  match l with
  | [] => true
  | f :: r => if is_pseudo (fname f) then negb seen_regular && pseudo_block_first seen_regular r
              else pseudo_block_first true r
  end.

Definition model_req (c : case) : option (list field * list field * list field) :=
  match c with
  | WReq me sc ho ok ur pr hd gz cl tr _ =>
    emit_request3 (WR (hx me) (hx sc) (hx ho) ok (hx ur) (hx pr) (gomap_of hd) gz cl (map hx tr))
  | _ => None
  end.

Definition check_case (c : case) : bool :=
  match c with
  | WReq _ _ _ _ _ _ _ _ _ _ res =>
    match res, model_req c with
    | None, None => true
    | Some fs, Some (pre, mid, post) =>
      (* same fields (as a multiset: neither the iteration order of req.Header nor the order among
         the pseudo-header fields is part of the property), pseudo-header fields first *)
      let l := fields_of fs in
      fperm l (pre ++ mid ++ post) && pseudo_block_first false l
    | _, _ => false
    end
  | WRsp st hd res =>
    (* the map-driven part as a multiset; which of several valid Content-Length values is "the first"
       depends on the iteration order of the map: exactly one of the candidates, or none if there is none *)
    let is_clf := fun f : field => beq (fname f) n_content_length in
    let cands := filter is_clf (flat_map (rsp_entry_fields (declared_trailers (gomap_of hd))) (gomap_of hd)) in
    match fields_of res, rsp_fields st (gomap_of hd) with
    | f :: r, f' :: r' =>
      feq f f' && fperm (filter (fun x => negb (is_clf x)) r) (filter (fun x => negb (is_clf x)) r') &&
      match filter is_clf r with
      | [] => match cands with [] => true | _ => false end
      | [c] => existsb (feq c) cands
      | _ => false
      end
    | _, _ => false
    end
  | WRspTr h1 h2 res => opt_perm res (rsp_trailers (declared_trailers (gomap_of h1)) (gomap_of h2))
  | WTr t res => opt_perm res (write_trailers (gomap_of t))
  | WPrep d b a => gomap_eq (rsp_prepare (hx d) (gomap_of b)) (gomap_of a)
  | WDec mb el tr fs res =>
    match res, decode_trailers mb el tr (fields_of fs) with
    | DErr c, inl c' => c =? c'
    | DOk m, inr m' => gomap_eq (gomap_of m) m' && gomap_eq m' (gomap_of m)
    | _, _ => false
    end
  end.

(** what the model computes for a case (for the replay file) *)
Inductive obs :=
| OReqW (r : option (list field * list field * list field))
| OFields (r : list field)
| OOpt (r : option (list field))
| OMap (m : gomap)
| OCls (c : Z).
Definition model_obs (c : case) : obs :=
  match c with
  | WReq _ _ _ _ _ _ _ _ _ _ _ => OReqW (model_req c)
  | WRsp st hd _ => OFields (rsp_fields st (gomap_of hd))
  | WRspTr h1 h2 _ => OOpt (rsp_trailers (declared_trailers (gomap_of h1)) (gomap_of h2))
  | WTr t _ => OOpt (write_trailers (gomap_of t))
  | WPrep d b _ => OMap (rsp_prepare (hx d) (gomap_of b))
  | WDec mb el tr fs _ => match decode_trailers mb el tr (fields_of fs) with inl c => OCls c | inr m => OMap m end
  end.
