(** H3Writers — proofs, part 2: what the writers emit is accepted by the parsers and decodes
    to the same message (claim (c) of C19), for trailers, responses and requests. *)
From Coq Require Import List ZArith Bool String Lia.
From V Require Import Gen.Params Lib.Hex H3Headers.Model H3Headers.Spec H3Headers.Proofs H3Headers.ProofsParse
  H3Headers.ProofsMain H3Headers.ProofsComplete H3Writers.Model H3Writers.Proofs.
Import ListNotations.
Open Scope bool_scope.
Open Scope Z_scope.

(** * Fields with a lower-cased token name *)

Lemma regular_field_wf isReq n v :
  is_pseudo n = false -> lower_ok n = true -> value_ok v = true -> validate_regular (F n v) = None ->
  field_wf isReq (F n v).
Proof.
  intros Hp Hlo Hv Hvr. unfold field_wf. cbn [fname fvalue].
  split; [apply lower_ok_spec; auto|]. split; [apply value_ok_spec; auto|]. split.
  - intros Hps. apply is_pseudo_spec in Hps. cbn [fname] in Hps. congruence.
  - intros _. apply validate_regular_spec in Hvr as (H1 & H2 & H3). cbn [fname fvalue] in *.
    split; [apply token_ok_spec; auto|]. split; [rewrite <- conn_specific_rfc; apply mem_false; auto|exact H3].
Qed.

Lemma lowered_field_wf isReq k v :
  token_ok k = true -> value_ok v = true -> mem (lower_bytes k) conn_specific = false ->
  (lower_bytes k = n_te -> v = v_trailers) -> field_wf isReq (F (lower_bytes k) v).
Proof.
  intros Ht Hv Hc Hte. destruct (lower_token _ Ht) as [Ht' Hlo].
  apply regular_field_wf; auto; [apply token_not_pseudo; auto|].
  apply validate_regular_spec. cbn [fname fvalue]. auto.
Qed.

Lemma lowered_not_pseudo k v : token_ok k = true -> ~ pseudo (F (lower_bytes k) v).
Proof.
  intros Ht. apply is_pseudo_false_spec. cbn [fname]. apply token_not_pseudo. apply lower_token; auto.
Qed.

Lemma last_value_from_app_none n l1 l2 init :
  (forall f, In f l2 -> fname f <> n) -> last_value_from n (l1 ++ l2) init = last_value_from n l1 init.
Proof.
  intros H. unfold last_value_from. rewrite fold_left_app.
  generalize (fold_left (fun acc f => if beq (fname f) n then fvalue f else acc) l1 init). intros a.
  induction l2 as [|f r IH]; auto. cbn [fold_left].
  replace (beq (fname f) n) with false by (symmetry; apply beq_neq; apply H; left; auto).
  apply IH. intros g Hg. apply H. right. auto.
Qed.

Lemma last_value_app_none n l1 l2 :
  (forall f, In f l2 -> fname f <> n) -> last_value n (l1 ++ l2) = last_value n l1.
Proof. apply last_value_from_app_none. Qed.

Lemma not_pseudo_name_neq f n : ~ pseudo f -> is_pseudo n = true -> fname f <> n.
Proof. intros Hf Hn E. apply Hf. apply is_pseudo_spec. rewrite E. auto. Qed.

(** * Trailers *)

Lemma lower_token_inv k : token_ok (lower_bytes k) = true -> token_ok k = true.
Proof.
  unfold token_ok. intros H. apply andb_true_iff in H as [Hne Ha]. apply andb_true_iff. split.
  - destruct k; [discriminate|reflexivity].
  - apply forallb_forall. intros b Hb. rewrite forallb_forall in Ha.
    specialize (Ha (lower_byte b) (in_map lower_byte _ _ Hb)).
    unfold lower_byte in Ha. destruct (is_uc b) eqn:Eu; auto.
    unfold is_uc in Eu. apply andb_true_iff in Eu as [E1 E2]. apply Z.leb_le in E1, E2.
    assert (A : forallb (fun b => implb ((65 <=? b) && (b <=? 90)) (tbl h3TokenTable b)) all_bytes = true) by (vm_compute; reflexivity).
    assert (Hr : 0 <= b < 256) by lia. apply (byte_forall _ A) in Hr.
    replace ((65 <=? b) && (b <=? 90)) with true in Hr; auto.
    symmetry. apply andb_true_iff. split; apply Z.leb_le; lia.
Qed.

Lemma valid_to_send_facts k :
  valid_to_send k = true ->
  token_ok k = true /\ valid_trailer k = true /\ mem (lower_bytes k) conn_specific = false.
Proof.
  unfold valid_to_send. intros H. apply andb_true_iff in H as [H Ht]. apply andb_true_iff in H as [Hv Hc].
  apply negb_true_iff in Hc. split; auto. apply lower_token_inv; auto.
Qed.

Lemma trailer_entry_wf k v :
  value_ok v = true -> valid_to_send k = true -> trailer_field_wf (F (lower_bytes k) v).
Proof.
  intros Hv Hs. destruct (valid_to_send_facts _ Hs) as (Ht & Hvt & Hc).
  destruct (lower_token _ Ht) as [Ht' Hlo].
  rewrite <- (valid_trailer_lower _ Ht) in Hvt.
  destruct (valid_trailer_spec _ Ht' Hvt) as [V1 V2].
  unfold trailer_field_wf. cbn [fname fvalue].
  split; [apply lower_ok_spec; auto|]. split; [apply value_ok_spec; auto|].
  split; [apply (lowered_not_pseudo k v); auto|]. split; [apply token_ok_spec; auto|].
  split; [rewrite <- conn_specific_rfc; apply mem_false; auto|]. split; auto.
Qed.

Lemma write_trailers_fields t fs :
  write_trailers t = Some fs ->
  fs = flat_map trailer_entry_fields t /\
  exists k vs v, In (k, vs) t /\ In v vs /\ value_ok v = true /\ valid_to_send k = true.
Proof.
  unfold write_trailers. destruct (existsb _ t) eqn:E; [|discriminate]. intros H; inversion H. split; auto.
  apply existsb_exists in E as ([k vs] & Hin & Hc). cbn [fst snd] in Hc.
  apply andb_true_iff in Hc as [Hs Hne]. apply existsb_exists in Hne as (v & Hv & Hvo). eauto 10.
Qed.

(** Whatever trailer map a handler or caller provides — no hygiene assumed —, a written trailer
    section is non-empty, accepted by parseTrailers and decodes to the same fields. *)
Theorem trailers_agree t fs lim :
  write_trailers t = Some fs -> section_size fs <= lim ->
  fs <> [] /\ parseTrailers lim fs false = inr (trailers_of fs).
Proof.
  intros Hw Hsz. apply write_trailers_fields in Hw as (-> & k & vs & v & Hin & Hv & Hvo & Hs). split.
  - intros E. assert (Hf : In (F (lower_bytes k) v) (flat_map trailer_entry_fields t)).
    { apply in_flat_map. exists (k, vs). split; auto. unfold trailer_entry_fields. cbn [fst snd]. rewrite Hs.
      apply in_map. apply filter_In. auto. }
    rewrite E in Hf. contradiction.
  - apply parseTrailers_complete. split; auto. apply Forall_forall. intros f Hf.
    apply in_flat_map in Hf as ([k' vs'] & Hin' & Hf). unfold trailer_entry_fields in Hf. cbn [fst snd] in Hf.
    destruct (valid_to_send k') eqn:Hs'; [|contradiction].
    apply in_map_iff in Hf as (v' & <- & Hv'). apply filter_In in Hv' as [_ Hvo']. apply trailer_entry_wf; auto.
Qed.

(** the emit / no-emit decision: nothing is written exactly when no sendable trailer has a sendable value *)
Theorem trailers_none t :
  write_trailers t = None <->
  (forall k vs v, In (k, vs) t -> valid_to_send k = true -> In v vs -> value_ok v = false).
Proof.
  unfold write_trailers. split.
  - destruct (existsb _ t) eqn:E; [discriminate|]. intros _ k vs v Hin Hs Hv.
    destruct (value_ok v) eqn:Hvo; auto. exfalso.
    assert (existsb (fun e => valid_to_send (fst e) && existsb value_ok (snd e)) t = true).
    { apply existsb_exists. exists (k, vs). split; auto. cbn [fst snd]. rewrite Hs. cbn [andb].
      apply existsb_exists. eauto. }
    congruence.
  - intros H. destruct (existsb _ t) eqn:E; auto. exfalso.
    apply existsb_exists in E as ([k vs] & Hin & Hc). cbn [fst snd] in Hc.
    apply andb_true_iff in Hc as [Hs Hne]. apply existsb_exists in Hne as (v & Hv & Hvo).
    rewrite (H _ _ _ Hin Hs Hv) in Hvo. discriminate.
Qed.

(** * Responses *)

Lemma rsp_entry_in d e f :
  In f (rsp_entry_fields d e) ->
  has_prefix trailer_prefix (fst e) = false /\ mem (lower_bytes (fst e)) conn_specific = false /\
  token_ok (fst e) = true /\
  exists v, In v (snd e) /\ f = F (lower_bytes (fst e)) v /\ value_ok v = true /\
            (lower_bytes (fst e) = n_te -> v = v_trailers) /\
            (lower_bytes (fst e) = n_content_length -> exists c, parse_uint63 v = Some c).
Proof.
  unfold rsp_entry_fields. destruct (mem (fst e) d); [contradiction|].
  destruct (has_prefix trailer_prefix (fst e)); [contradiction|].
  destruct (mem (lower_bytes (fst e)) conn_specific); [contradiction|].
  destruct (token_ok (lower_bytes (fst e))) eqn:Et; cbn [negb]; [|contradiction].
  intros H. apply in_flat_map in H as (v & Hv & Hf). split; auto. split; auto.
  split; [apply lower_token_inv; auto|]. exists v. split; auto.
  destruct (beq (lower_bytes (fst e)) n_te && negb (beq v v_trailers)) eqn:E; [contradiction|].
  destruct (value_ok v) eqn:Evo; cbn [negb] in Hf; [|contradiction].
  destruct (beq (lower_bytes (fst e)) n_content_length && match parse_uint63 v with None => true | Some _ => false end) eqn:Ec; [contradiction|].
  destruct Hf as [<-|[]]. split; auto. split; auto. split.
  - intros Hn. rewrite Hn, beq_refl in E. cbn [andb] in E. apply negb_false_iff, beq_eq in E. exact E.
  - intros Hn. rewrite Hn, beq_refl in Ec. cbn [andb] in Ec. destruct (parse_uint63 v); [eauto|discriminate].
Qed.

Lemma keep_first_cl_in s l f : In f (keep_first_cl s l) -> In f l.
Proof.
  revert s. induction l as [|g r IH]; intros s H; [contradiction|]. cbn [keep_first_cl] in H.
  destruct (beq (fname g) n_content_length); [destruct s|].
  - right. eapply IH; eauto.
  - destruct H as [<-|H]; [left; auto|right; eapply IH; eauto].
  - destruct H as [<-|H]; [left; auto|right; eapply IH; eauto].
Qed.

Lemma keep_first_cl_seen l f : In f (keep_first_cl true l) -> fname f <> n_content_length.
Proof.
  induction l as [|g r IH]; intros H; [contradiction|]. cbn [keep_first_cl] in H.
  destruct (beq (fname g) n_content_length) eqn:E; [auto|].
  destruct H as [<-|H]; [apply beq_neq; auto|auto].
Qed.

(** after the pass all content-length fields are one and the same field *)
Lemma keep_first_cl_single l f g :
  In f (keep_first_cl false l) -> In g (keep_first_cl false l) ->
  fname f = n_content_length -> fname g = n_content_length -> f = g.
Proof.
  induction l as [|x r IH]; intros Hf Hg Ef Eg; [contradiction|]. cbn [keep_first_cl] in Hf, Hg.
  destruct (beq (fname x) n_content_length) eqn:E.
  - destruct Hf as [<-|Hf]; [|exfalso; eapply keep_first_cl_seen; eauto].
    destruct Hg as [<-|Hg]; [reflexivity|exfalso; eapply keep_first_cl_seen; eauto].
  - apply beq_neq in E. destruct Hf as [<-|Hf]; [contradiction|]. destruct Hg as [<-|Hg]; [contradiction|]. auto.
Qed.

Lemma status_field_wf status : 100 <= status <= 999 -> field_wf false (F (bs ":status") (itoa status)).
Proof.
  intros Hs. assert (Hr : 0 <= status < 2 ^ 63) by (change (2 ^ 63) with 9223372036854775808; lia).
  destruct (itoa_spec status Hr) as ([Ne D] & _).
  unfold field_wf. cbn [fname fvalue].
  split; [apply lower_ok_spec; vm_compute; reflexivity|]. split; [apply value_ok_spec, digits_value_ok; auto|]. split.
  - intros _. first [split; [left; reflexivity|auto] | left; reflexivity].
  - intros Hn. exfalso. apply Hn. exists (bs "status"). reflexivity.
Qed.

(** *** Writer and parser agree on responses, for EVERY header map a handler can leave behind
    (no hygiene assumed: writeHeader sanitises): the emitted section is accepted with the same status. *)
Theorem response_agree status h lim :
  100 <= status <= 999 -> section_size (rsp_fields status h) <= lim ->
  exists r, updateResponseFromHeaders lim (rsp_fields status h) false = inr r /\
            rsCode r = status /\ rsCL r = hCL (hdr_of (rsp_fields status h)).
Proof.
  intros Hs Hsz.
  assert (Hr : 0 <= status < 2 ^ 63) by (change (2 ^ 63) with 9223372036854775808; lia).
  set (raw := flat_map (rsp_entry_fields (declared_trailers h)) h).
  set (rest := keep_first_cl false raw).
  assert (Hfs : rsp_fields status h = [F (bs ":status") (itoa status)] ++ rest) by reflexivity.
  assert (Hraw : forall f, In f raw -> exists k v, f = F (lower_bytes k) v /\
            token_ok k = true /\ value_ok v = true /\ mem (lower_bytes k) conn_specific = false /\
            (lower_bytes k = n_te -> v = v_trailers) /\
            (lower_bytes k = n_content_length -> exists c, parse_uint63 v = Some c)).
  { intros f Hf. apply in_flat_map in Hf as ([k vs] & Hin & Hf).
    apply rsp_entry_in in Hf as (Hp & Hc & Ht & v & Hv & -> & Hvo & Hte & Hcl). cbn [fst snd] in *.
    exists k, v. repeat split; auto. }
  assert (Hrest : forall f, In f rest -> exists k v, f = F (lower_bytes k) v /\
            token_ok k = true /\ value_ok v = true /\ mem (lower_bytes k) conn_specific = false /\
            (lower_bytes k = n_te -> v = v_trailers) /\
            (lower_bytes k = n_content_length -> exists c, parse_uint63 v = Some c)).
  { intros f Hf. apply Hraw. eapply keep_first_cl_in; eauto. }
  assert (Hnp : Forall (fun f => ~ pseudo f) rest).
  { apply Forall_forall. intros f Hf. destruct (Hrest f Hf) as (k & v & -> & Ht & _). apply lowered_not_pseudo; auto. }
  assert (Hclf : forall f, In f ([F (bs ":status") (itoa status)] ++ rest) -> is_cl f ->
                 In f rest /\ numeric (fvalue f) /\ dec_value (fvalue f) < 2 ^ 63).
  { intros f [<-|Hf] Hc; [vm_compute in Hc; discriminate|]. cbn [app] in Hf. split; auto.
    destruct (Hrest f Hf) as (k & v & -> & _ & _ & _ & _ & Hcl). cbn [fvalue].
    destruct (Hcl Hc) as [c Hp]. apply parse_uint63_spec in Hp as (Hn & _ & Hlt). auto. }
  assert (Hwf : WF false lim (rsp_fields status h) /\ cl_fits (rsp_fields status h)).
  { rewrite Hfs. split; [unfold WF; split; [|split; [|split; [|split]]]|].
    - apply Forall_app. split; [constructor; [apply status_field_wf; auto|constructor]|].
      apply Forall_forall. intros f Hf. destruct (Hrest f Hf) as (k & v & -> & Ht & Hv & Hc & Hte & _).
      apply lowered_field_wf; auto.
    - apply pseudo_first_app; auto. constructor; [exists (bs "status"); reflexivity|constructor].
    - apply pseudo_unique_app; auto. cbn. constructor; [intros []|constructor].
    - split.
      + intros f Hf Hc. apply Hclf; auto.
      + intros f g Hf Hg Hcf Hcg. destruct (Hclf f Hf Hcf) as [Hf' _]. destruct (Hclf g Hg Hcg) as [Hg' _].
        rewrite (keep_first_cl_single raw f g Hf' Hg' Hcf Hcg). reflexivity.
    - rewrite <- Hfs. exact Hsz.
    - intros f Hf Hc. apply Hclf; auto. }
  destruct Hwf as [Hwf Hfit].
  unfold updateResponseFromHeaders. rewrite (parseHeaders_complete _ _ _ Hwf Hfit).
  unfold response_of. rewrite hdr_of_ps. unfold pseudos_of. cbn [sStatus].
  assert (Hst : last_value (bs ":status") (rsp_fields status h) = itoa status).
  { rewrite Hfs, last_value_app_none; [reflexivity|].
    intros f Hf. rewrite Forall_forall in Hnp. apply not_pseudo_name_neq; auto. }
  rewrite Hst. destruct (itoa_spec status Hr) as ([Ne _] & _).
  replace (is_empty (itoa status)) with false by (symmetry; apply is_empty_false; auto).
  destruct (extract_trailers _) as [hd' tr]. rewrite (atoi_itoa _ Hr).
  eexists. split; [reflexivity|]. split; reflexivity.
Qed.

(** * Requests *)

Definition the_path (q : wreq) : bytes :=
  if sends_path q then match wpath q with Some p => p | None => [] end else [].

(** What the caller of the writer must provide beyond what encodeHeaders checks itself
    (Transport.roundTripOpt and net/url provide it: non-empty host, token method, scheme https,
    an escaped request URI): legal bytes in the pseudo-header values, a target the server's
    url.ParseRequestURI accepts, a Content-Length that fits 63 bits. *)
Record wreq_pre (q : wreq) (uri : bytes -> bool * bytes * bytes) : Prop := {
  pre_host : wHost q <> [] /\ value_ok (wHost q) = true;
  pre_method : value_ok (eff_method q) = true;
  pre_path : sends_path q = true ->
             wScheme q <> [] /\ value_ok (wScheme q) = true /\ value_ok (the_path q) = true /\
             fst (fst (uri (the_path q))) = true;
  pre_proto : is_ext_connect q = true -> value_ok (wProto q) = true;
  pre_trailer : value_ok (trailer_announcement q) = true;
  pre_cl : send_cl (wMethod q) (wCL q) = true -> wCL q < 2 ^ 63
}.

Definition req_pseudos (q : wreq) : list field :=
  [F (bs ":authority") (wHost q); F (bs ":method") (eff_method q)] ++
  (if sends_path q then [F (bs ":path") (the_path q); F (bs ":scheme") (wScheme q)] else []) ++
  (if is_ext_connect q then [F (bs ":protocol") (wProto q)] else []).
Definition req_announce (q : wreq) : list field :=
  if is_empty (trailer_announcement q) then [] else [F (bs "trailer") (trailer_announcement q)].
Definition req_regular (q : wreq) : list field := req_announce q ++ req_mid q ++ req_post q.

Lemma emit_request_shape q pre mid post :
  emit_request3 q = Some (pre, mid, post) ->
  wreq_ok q = true /\ pre ++ mid ++ post = req_pseudos q ++ req_regular q.
Proof.
  unfold emit_request3. destruct (wreq_ok q) eqn:E; [|discriminate]. intros H; inversion H; subst. split; auto.
  unfold req_pre, req_pseudos, req_regular, req_announce, the_path. rewrite <- !app_assoc. reflexivity.
Qed.

Lemma ext_facts q : is_ext_connect q = true -> is_connect q = true /\ sends_path q = true /\ wProto q <> [].
Proof.
  intros He. unfold sends_path. rewrite He. pose proof He as H. unfold is_ext_connect in H.
  apply andb_true_iff in H as [H _]. apply andb_true_iff in H as [Hc Hp].
  split; auto. split; [apply orb_true_r|]. apply is_empty_false. apply negb_true_iff. exact Hp.
Qed.

Lemma nonext_facts q : is_ext_connect q = false -> sends_path q = negb (is_connect q).
Proof. unfold sends_path. intros ->. apply orb_false_r. Qed.

Lemma is_connect_eff q : beq (eff_method q) (hx h3MethodConnect) = is_connect q.
Proof.
  unfold eff_method, is_connect, m_connect. destruct (wMethod q) as [|c r]; [vm_compute; reflexivity|reflexivity].
Qed.

Lemma eff_method_nonempty q : eff_method q <> [].
Proof. unfold eff_method. destruct (wMethod q); simpl; discriminate. Qed.

Lemma valid_pseudo_path_nonempty p : valid_pseudo_path p = true -> p <> [].
Proof. destruct p; [vm_compute; discriminate|discriminate]. Qed.

Lemma req_entry_in e f :
  In f (req_entry_fields e) ->
  dropped_name (fst e) = false /\ exists v, In v (snd e) /\ f = F (lower_bytes (fst e)) v.
Proof.
  unfold req_entry_fields. destruct (dropped_name (fst e)); [contradiction|]. intros H. split; auto.
  destruct (eqfold (fst e) "user-agent").
  - destruct (snd e) as [|v r]; [contradiction|]. destruct (is_empty v); [contradiction|].
    destruct H as [<-|[]]. exists v. split; [left|]; auto.
  - apply in_map_iff in H as (v & <- & Hv). eauto.
Qed.

Lemma dropped_not_conn k : dropped_name k = false ->
  mem (lower_bytes k) conn_specific = false /\ lower_bytes k <> n_content_length.
Proof.
  unfold dropped_name, eqfold. intros H.
  repeat (apply orb_false_iff in H as [H ?]).
  split.
  - rewrite conn_specific_rfc. unfold mem, connection_specific. cbn [map existsb].
    rewrite H1, H0, H2, H3, H4. reflexivity.
  - apply beq_neq. exact H5.
Qed.

Lemma header_entry_te e v :
  header_entry_ok e = true -> In v (snd e) ->
  token_ok (fst e) = true /\ value_ok v = true /\ (lower_bytes (fst e) = n_te -> v = v_trailers).
Proof.
  unfold header_entry_ok. intros H Hv. apply andb_true_iff in H as [Ht Ha]. rewrite forallb_forall in Ha.
  specialize (Ha v Hv). apply andb_true_iff in Ha as [Hvo Hte]. repeat split; auto.
  intros Hn. unfold eqfold in Hte. rewrite Hn in Hte. change (bs "te") with n_te in Hte. rewrite beq_refl in Hte.
  cbn [andb] in Hte. apply negb_true_iff, negb_false_iff, beq_eq in Hte. exact Hte.
Qed.

(** every field after the pseudo-header block is a well-formed regular field *)
Lemma req_regular_wf q uri :
  wreq_ok q = true -> wreq_pre q uri ->
  Forall (fun f => ~ pseudo f /\ field_wf true f) (req_regular q).
Proof.
  intros Hok Hpre. unfold wreq_ok in Hok. apply andb_true_iff in Hok as [_ Hh]. rewrite forallb_forall in Hh.
  unfold req_regular. apply Forall_app; split; [|apply Forall_app; split].
  - unfold req_announce. destruct (is_empty (trailer_announcement q)); constructor; [|constructor].
    split; [intros [r Hr]; discriminate|].
    apply regular_field_wf; [reflexivity|vm_compute; reflexivity|apply (pre_trailer _ _ Hpre)|reflexivity].
  - apply Forall_forall. intros f Hf. apply in_flat_map in Hf as (e & He & Hf).
    apply req_entry_in in Hf as (Hd & v & Hv & ->).
    destruct (header_entry_te _ _ (Hh e He) Hv) as (Ht & Hvo & Hte).
    destruct (dropped_not_conn _ Hd) as [Hc _].
    split; [apply lowered_not_pseudo; auto|apply lowered_field_wf; auto].
  - unfold req_post. apply Forall_app; split; [|apply Forall_app; split].
    + destruct (send_cl (wMethod q) (wCL q)) eqn:Es; constructor; [|constructor].
      split; [intros [r Hr]; discriminate|].
      assert (Hr : 0 <= wCL q < 2 ^ 63).
      { split; [|apply (pre_cl _ _ Hpre); auto]. unfold send_cl in Es.
        destruct (Z.ltb_spec 0 (wCL q)); [lia|]. destruct (Z.ltb_spec (wCL q) 0); [discriminate|lia]. }
      destruct (itoa_spec _ Hr) as ([_ D] & _).
      apply regular_field_wf; [reflexivity|vm_compute; reflexivity|apply digits_value_ok; auto|reflexivity].
    + destruct (wGzip q); constructor; [|constructor].
      split; [intros [r Hr]; discriminate|].
      apply regular_field_wf; [reflexivity|vm_compute; reflexivity|vm_compute; reflexivity|reflexivity].
    + destruct (did_ua (wHeader q)); constructor; [|constructor].
      split; [intros [r Hr]; discriminate|].
      apply regular_field_wf; [reflexivity|vm_compute; reflexivity|vm_compute; reflexivity|reflexivity].
Qed.

Lemma pseudo_field_wf n v :
  In n request_pseudo -> value_ok v = true -> v <> [] -> field_wf true (F n v).
Proof.
  intros Hn Hv Hne. unfold field_wf. cbn [fname fvalue].
  assert (Hlo : lower_ok n = true).
  { unfold request_pseudo in Hn. cbn [map] in Hn.
    repeat (destruct Hn as [<-|Hn]; [vm_compute; reflexivity|]). contradiction. }
  assert (Hps : pseudo (F n v)).
  { unfold request_pseudo in Hn. cbn [map] in Hn.
    repeat (destruct Hn as [<-|Hn]; [eexists; reflexivity|]). contradiction. }
  split; [apply lower_ok_spec; auto|]. split; [apply value_ok_spec; auto|]. split.
  - intros _. first [split; [exact Hn|exact Hne] | exact Hn].
  - intros Hnp. contradiction.
Qed.

Lemma req_pseudos_wf q uri :
  wreq_ok q = true -> wreq_pre q uri ->
  Forall (fun f => pseudo f /\ field_wf true f) (req_pseudos q) /\ NoDup (map fname (req_pseudos q)).
Proof.
  intros Hok Hpre. destruct (pre_host _ _ Hpre) as [Hh1 Hh2].
  pose proof (pre_method _ _ Hpre) as Hm. pose proof (eff_method_nonempty q) as Hmn.
  assert (PF : forall n v, In n request_pseudo -> value_ok v = true -> v <> [] -> pseudo (F n v) /\ field_wf true (F n v)).
  { intros n v Hn Hv Hne. split; [|apply pseudo_field_wf; auto].
    unfold request_pseudo in Hn. cbn [map] in Hn.
    repeat (destruct Hn as [<-|Hn]; [eexists; reflexivity|]). contradiction. }
  assert (I1 : In (bs ":authority") request_pseudo) by (vm_compute; auto 10).
  assert (I2 : In (bs ":method") request_pseudo) by (vm_compute; auto 10).
  assert (I3 : In (bs ":path") request_pseudo) by (vm_compute; auto 10).
  assert (I4 : In (bs ":scheme") request_pseudo) by (vm_compute; auto 10).
  assert (I5 : In (bs ":protocol") request_pseudo) by (vm_compute; auto 10).
  unfold req_pseudos.
  destruct (is_ext_connect q) eqn:Ee.
  - destruct (ext_facts _ Ee) as (Hc & Hsp & Hpn). rewrite Hsp.
    destruct (pre_path _ _ Hpre Hsp) as (S1 & S2 & P1 & _).
    assert (Hpne : the_path q <> []).
    { unfold the_path. rewrite Hsp. unfold wreq_ok in Hok. rewrite Hsp in Hok.
      apply andb_true_iff in Hok as [Hok _]. apply andb_true_iff in Hok as [_ Hok].
      unfold wpath in *. destruct (valid_pseudo_path (wURI q)) eqn:E1; [apply valid_pseudo_path_nonempty; auto|].
      destruct (valid_pseudo_path (trim_prefix _ _)) eqn:E2; [apply valid_pseudo_path_nonempty; auto|discriminate]. }
    split.
    + pose proof (pre_proto _ _ Hpre Ee) as Hpv.
      cbn [app]. repeat (apply Forall_cons; [apply PF; auto|]). apply Forall_nil.
    + cbn. repeat constructor; cbn; intros H; repeat (destruct H as [H|H]; [vm_compute in H; discriminate|]); auto.
  - destruct (sends_path q) eqn:Hsp.
    + destruct (pre_path _ _ Hpre Hsp) as (S1 & S2 & P1 & _).
      assert (Hpne : the_path q <> []).
      { unfold the_path. rewrite Hsp. unfold wreq_ok in Hok. rewrite Hsp in Hok.
        apply andb_true_iff in Hok as [Hok _]. apply andb_true_iff in Hok as [_ Hok].
        unfold wpath in *. destruct (valid_pseudo_path (wURI q)) eqn:E1; [apply valid_pseudo_path_nonempty; auto|].
        destruct (valid_pseudo_path (trim_prefix _ _)) eqn:E2; [apply valid_pseudo_path_nonempty; auto|discriminate]. }
      split.
      * cbn [app]. repeat (apply Forall_cons; [apply PF; auto|]). apply Forall_nil.
      * cbn. repeat constructor; cbn; intros H; repeat (destruct H as [H|H]; [vm_compute in H; discriminate|]); auto.
    + split.
      * cbn [app]. repeat (apply Forall_cons; [apply PF; auto|]). apply Forall_nil.
      * cbn. repeat constructor; cbn; intros H; repeat (destruct H as [H|H]; [vm_compute in H; discriminate|]); auto.
Qed.

Lemma last_value_from_prefix_none n l1 l2 init :
  (forall f, In f l1 -> fname f <> n) -> last_value_from n (l1 ++ l2) init = last_value_from n l2 init.
Proof.
  intros H. unfold last_value_from. rewrite fold_left_app. f_equal.
  induction l1 as [|f r IH]; auto. cbn [fold_left].
  replace (beq (fname f) n) with false by (symmetry; apply beq_neq; apply H; left; auto).
  apply IH. intros g Hg. apply H. right. auto.
Qed.

(** the Content-Length string the parser will see *)
Lemma req_cl_value q uri :
  wreq_ok q = true -> wreq_pre q uri ->
  last_value (bs "content-length") (req_pseudos q ++ req_regular q) =
  (if send_cl (wMethod q) (wCL q) then itoa (wCL q) else []) /\
  (forall f, In f (req_pseudos q ++ req_regular q) -> is_cl f -> send_cl (wMethod q) (wCL q) = true /\ fvalue f = itoa (wCL q)).
Proof.
  intros Hok Hpre.
  assert (Hps : forall f, In f (req_pseudos q) -> fname f <> bs "content-length").
  { intros f Hf. destruct (req_pseudos_wf q uri Hok Hpre) as [Hw _]. rewrite Forall_forall in Hw.
    destruct (Hw f Hf) as [[r Hr] _]. rewrite Hr. vm_compute. discriminate. }
  assert (Han : forall f, In f (req_announce q) -> fname f <> bs "content-length").
  { unfold req_announce. intros f Hf. destruct (is_empty (trailer_announcement q)); [contradiction|].
    destruct Hf as [<-|[]]. vm_compute. discriminate. }
  assert (Hmid : forall f, In f (req_mid q) -> fname f <> bs "content-length").
  { intros f Hf. apply in_flat_map in Hf as (e & He & Hf). apply req_entry_in in Hf as (Hd & v & Hv & ->).
    apply dropped_not_conn in Hd as [_ Hd]. exact Hd. }
  split.
  - change (last_value (bs "content-length") (req_pseudos q ++ req_regular q))
      with (last_value_from (bs "content-length") (req_pseudos q ++ req_regular q) []).
    unfold req_regular.
    rewrite last_value_from_prefix_none by auto. rewrite last_value_from_prefix_none by auto.
    rewrite last_value_from_prefix_none by auto.
    unfold req_post. destruct (send_cl (wMethod q) (wCL q)), (wGzip q), (did_ua (wHeader q)); reflexivity.
  - intros f Hf Hc. unfold is_cl in Hc.
    apply in_app_or in Hf as [Hf|Hf]; [exfalso; eapply Hps; eauto|].
    unfold req_regular in Hf. apply in_app_or in Hf as [Hf|Hf]; [exfalso; eapply Han; eauto|].
    apply in_app_or in Hf as [Hf|Hf]; [exfalso; eapply Hmid; eauto|].
    unfold req_post in Hf.
    destruct (send_cl (wMethod q) (wCL q)); cbn [app] in Hf.
    + destruct Hf as [<-|Hf]; [auto|]. exfalso.
      destruct (wGzip q), (did_ua (wHeader q)); cbn in Hf;
        repeat (destruct Hf as [<-|Hf]; [vm_compute in Hc; discriminate|]); contradiction.
    + exfalso. destruct (wGzip q), (did_ua (wHeader q)); cbn in Hf;
        repeat (destruct Hf as [<-|Hf]; [vm_compute in Hc; discriminate|]); contradiction.
Qed.

Lemma send_cl_range q : send_cl (wMethod q) (wCL q) = true -> 0 <= wCL q.
Proof.
  unfold send_cl. destruct (Z.ltb_spec 0 (wCL q)); [lia|]. destruct (Z.ltb_spec (wCL q) 0); [discriminate|lia].
Qed.

(** the emitted section is well-formed: parseHeaders accepts it *)
Lemma request_section_accepted q uri lim :
  wreq_ok q = true -> wreq_pre q uri ->
  section_size (req_pseudos q ++ req_regular q) <= lim ->
  parseHeaders true lim (req_pseudos q ++ req_regular q) false = inr (hdr_of (req_pseudos q ++ req_regular q)).
Proof.
  intros Hok Hpre Hsz.
  destruct (req_pseudos_wf q uri Hok Hpre) as [Hps Hnd].
  pose proof (req_regular_wf q uri Hok Hpre) as Hrg.
  destruct (req_cl_value q uri Hok Hpre) as [_ Hcl].
  apply parseHeaders_complete.
  - unfold WF. split; [|split; [|split; [|split]]].
    + apply Forall_app. split; eapply Forall_impl; try eassumption; cbv beta; tauto.
    + apply pseudo_first_app; eapply Forall_impl; try eassumption; cbv beta; tauto.
    + apply pseudo_unique_app; auto. eapply Forall_impl; try eassumption; cbv beta; tauto.
    + split.
      * intros f Hf Hc. destruct (Hcl f Hf Hc) as [Hs ->].
        assert (Hr : 0 <= wCL q < 2 ^ 63) by (split; [apply send_cl_range; auto|apply (pre_cl _ _ Hpre); auto]).
        apply itoa_spec; auto.
      * intros f g Hf Hg Hcf Hcg. destruct (Hcl f Hf Hcf) as [_ ->]. destruct (Hcl g Hg Hcg) as [_ ->]. reflexivity.
    + exact Hsz.
  - intros f Hf Hc. destruct (Hcl f Hf Hc) as [Hs ->].
    assert (Hr : 0 <= wCL q < 2 ^ 63) by (split; [apply send_cl_range; auto|apply (pre_cl _ _ Hpre); auto]).
    destruct (itoa_spec _ Hr) as (_ & -> & _). lia.
Qed.

Lemma req_pseudos_of q uri :
  wreq_ok q = true -> wreq_pre q uri ->
  pseudos_of (req_pseudos q ++ req_regular q) =
  PSD (if sends_path q then the_path q else []) (eff_method q) (wHost q)
      (if is_ext_connect q then wProto q else []) (if sends_path q then wScheme q else []) [].
Proof.
  intros Hok Hpre. pose proof (req_regular_wf q uri Hok Hpre) as Hrg. rewrite Forall_forall in Hrg.
  assert (Hn : forall n, is_pseudo n = true -> forall f, In f (req_regular q) -> fname f <> n).
  { intros n Hn f Hf. apply not_pseudo_name_neq; auto. apply Hrg; auto. }
  unfold pseudos_of. rewrite !last_value_app_none by (apply Hn; reflexivity).
  unfold req_pseudos. destruct (sends_path q), (is_ext_connect q); reflexivity.
Qed.

Lemma req_hcl q uri :
  wreq_ok q = true -> wreq_pre q uri ->
  hCL (hdr_of (req_pseudos q ++ req_regular q)) = (if send_cl (wMethod q) (wCL q) then wCL q else -1).
Proof.
  intros Hok Hpre. destruct (req_cl_value q uri Hok Hpre) as [Hv _]. unfold hdr_of. rewrite Hv.
  destruct (send_cl (wMethod q) (wCL q)) eqn:Es; [|reflexivity].
  assert (Hr : 0 <= wCL q < 2 ^ 63) by (split; [apply send_cl_range; auto|apply (pre_cl _ _ Hpre); auto]).
  destruct (itoa_spec _ Hr) as ([Ne _] & Hd & _).
  replace (is_empty (itoa (wCL q))) with false by (symmetry; apply is_empty_false; auto).
  cbn [hCL]. exact Hd.
Qed.

(** *** Writer and parser agree on requests: whatever encodeHeaders accepts (and the caller
    provides sane values for) is accepted by parseHeaders + requestFromHeaders, with the same
    method, authority, target, protocol and Content-Length. *)
Theorem request_agree q uri lim pre mid post :
  emit_request3 q = Some (pre, mid, post) -> wreq_pre q uri ->
  section_size (pre ++ mid ++ post) <= lim ->
  exists r, requestFromHeaders lim (pre ++ mid ++ post) false uri = inr r /\
    rqMethod r = eff_method q /\ rqHost r = wHost q /\
    rqURI r = (if is_connect q then wHost q else the_path q) /\
    rqProto r = (if is_ext_connect q then wProto q else bs "HTTP/3.0") /\
    rqCL r = (if send_cl (wMethod q) (wCL q) then wCL q else -1).
Proof.
  intros He Hpre Hsz. apply emit_request_shape in He as [Hok Efs]. rewrite Efs in *.
  unfold requestFromHeaders. rewrite (request_section_accepted q uri lim Hok Hpre Hsz).
  pose proof (req_hcl q uri Hok Hpre) as Hcl.
  unfold request_of. rewrite hdr_of_ps, (req_pseudos_of q uri Hok Hpre).
  cbn [sPath sMethod sAuthority sProtocol sScheme sStatus]. rewrite is_connect_eff.
  destruct (pre_host _ _ Hpre) as [Hh _]. pose proof (eff_method_nonempty q) as Hmn.
  apply is_empty_false in Hh, Hmn.
  destruct (extract_trailers _) as [hd' tr].
  destruct (is_ext_connect q) eqn:Ee.
  - destruct (ext_facts _ Ee) as (Hc & Hsp & Hpn). rewrite Hc, Hsp.
    destruct (pre_path _ _ Hpre Hsp) as (S1 & _ & _ & Hu).
    assert (Hpne : is_empty (the_path q) = false).
    { destruct (req_pseudos_wf q uri Hok Hpre) as [Hw _]. unfold req_pseudos in Hw. rewrite Hsp in Hw.
      cbn [app] in Hw. inversion Hw as [|? ? _ Hw1]; subst. inversion Hw1 as [|? ? _ Hw2]; subst.
      inversion Hw2 as [|? ? [_ Hf] _]; subst. destruct Hf as (_ & _ & Hf & _).
      destruct (the_path q) eqn:Ep; [|reflexivity].
      (* an empty :path cannot be what validPseudoPath accepted *)
      exfalso. unfold the_path in Ep. rewrite Hsp in Ep. unfold wreq_ok in Hok. rewrite Hsp in Hok.
      apply andb_true_iff in Hok as [Hok _]. apply andb_true_iff in Hok as [_ Hok].
      unfold wpath in *. destruct (valid_pseudo_path (wURI q)) eqn:E1.
      - apply valid_pseudo_path_nonempty in E1. congruence.
      - destruct (valid_pseudo_path (trim_prefix _ _)) eqn:E2; [|discriminate].
        apply valid_pseudo_path_nonempty in E2. congruence. }
    apply is_empty_false in S1, Hpn. rewrite Hpn, S1, Hpne, Hh. cbn [andb negb orb].
    destruct (uri (the_path q)) as [[ok us] uh]. cbn [fst] in Hu. subst ok.
    eexists. split; [reflexivity|]. cbn [rqMethod rqHost rqURI rqProto rqCL]. rewrite Hcl. auto.
  - rewrite (nonext_facts _ Ee). destruct (is_connect q) eqn:Hc; cbn [negb andb orb].
    + (* plain CONNECT *)
      rewrite Hh. cbn [is_empty negb andb orb].
      eexists. split; [reflexivity|]. cbn [rqMethod rqHost rqURI rqProto rqCL]. rewrite Hcl. auto.
    + assert (Hsp : sends_path q = true) by (rewrite (nonext_facts _ Ee), Hc; reflexivity).
      destruct (pre_path _ _ Hpre Hsp) as (_ & _ & _ & Hu).
      assert (Hpne : is_empty (the_path q) = false).
      { destruct (the_path q) eqn:Ep; [|reflexivity].
        exfalso. unfold the_path in Ep. rewrite Hsp in Ep. unfold wreq_ok in Hok. rewrite Hsp in Hok.
        apply andb_true_iff in Hok as [Hok _]. apply andb_true_iff in Hok as [_ Hok].
        unfold wpath in *. destruct (valid_pseudo_path (wURI q)) eqn:E1.
        - apply valid_pseudo_path_nonempty in E1. congruence.
        - destruct (valid_pseudo_path (trim_prefix _ _)) eqn:E2; [|discriminate].
          apply valid_pseudo_path_nonempty in E2. congruence. }
      rewrite Hpne, Hh, Hmn. cbn [is_empty negb andb orb].
      destruct (uri (the_path q)) as [[ok us] uh]. cbn [fst] in Hu. subst ok.
      eexists. split; [reflexivity|]. cbn [rqMethod rqHost rqURI rqProto rqCL]. rewrite Hcl. auto.
Qed.

(** what the request carries in its header section, entry by entry: the documented drops *)
Theorem request_mid_fields q n v :
  In (F n v) (req_mid q) <->
  exists k vs, In (k, vs) (wHeader q) /\ n = lower_bytes k /\ dropped_name k = false /\
    (if eqfold k "user-agent" then exists r, vs = v :: r /\ v <> [] else In v vs).
Proof.
  unfold req_mid. rewrite in_flat_map. split.
  - intros ([k vs] & Hin & Hf). exists k, vs. unfold req_entry_fields in Hf. cbn [fst snd] in Hf.
    destruct (dropped_name k) eqn:Hd; [contradiction|].
    destruct (eqfold k "user-agent") eqn:Eu.
    + destruct vs as [|v0 r]; [contradiction|]. destruct (is_empty v0) eqn:Ev; [contradiction|].
      destruct Hf as [Hf|[]]. inversion Hf; subst. repeat split; auto. exists r. split; auto.
      apply is_empty_false; auto.
    + apply in_map_iff in Hf as (v0 & Hf & Hv). inversion Hf; subst. repeat split; auto.
  - intros (k & vs & Hin & -> & Hd & Hv). exists (k, vs). split; auto.
    unfold req_entry_fields. cbn [fst snd]. rewrite Hd.
    destruct (eqfold k "user-agent").
    + destruct Hv as (r & -> & Hne). apply is_empty_false in Hne. rewrite Hne. left. reflexivity.
    + apply in_map_iff. exists v. auto.
Qed.

(** * The header map handed to net/http, field by field *)

Lemma hget_hadd k k' v m :
  hget k (hadd k' v m) =
  if beq k k' then Some (match hget k m with Some vs => vs ++ [v] | None => [v] end) else hget k m.
Proof.
  induction m as [|[k0 vs0] r IH]; cbn [hadd hget].
  - destruct (beq k k'); reflexivity.
  - destruct (beq k' k0) eqn:E0; cbn [hget].
    + apply beq_eq in E0. subst k0. destruct (beq k k'); reflexivity.
    + rewrite IH. destruct (beq k k') eqn:E1; [|reflexivity].
      apply beq_eq in E1. subst k'. rewrite E0. reflexivity.
Qed.

Definition field_values (n : bytes) (fs : list field) : list bytes :=
  map fvalue (filter (fun f => beq (fname f) n) fs).

Definition combine_values (a : option (list bytes)) (vs : list bytes) : option (list bytes) :=
  match a, vs with
  | None, [] => None
  | None, _ => Some vs
  | Some x, _ => Some (x ++ vs)
  end.

Lemma canon_inj a b :
  token_ok a = true -> lower_ok a = true -> token_ok b = true -> lower_ok b = true ->
  canon a = canon b -> a = b.
Proof.
  intros Ta La Tb Lb E. unfold canon in E. rewrite (token_all_tchar _ Ta), (token_all_tchar _ Tb) in E.
  assert (Nu : forall x, lower_ok x = true -> Forall (fun c => ~ (65 <= c <= 90)) x).
  { intros x Hx. apply lower_ok_spec in Hx. unfold no_uppercase in Hx. eapply Forall_impl; [|exact Hx].
    cbv beta. tauto. }
  rewrite <- (lower_canon_go a true (Nu _ La)), <- (lower_canon_go b true (Nu _ Lb)), E. reflexivity.
Qed.

Lemma headers_from_get n : token_ok n = true -> lower_ok n = true -> n <> bs "content-length" ->
  forall fs m,
  Forall (fun f => is_pseudo (fname f) = false -> token_ok (fname f) = true /\ lower_ok (fname f) = true) fs ->
  hget (canon n) (headers_from fs m) = combine_values (hget (canon n) m) (field_values n fs).
Proof.
  intros Tn Ln Hncl. induction fs as [|f r IH]; intros m Hw.
  - unfold headers_from, field_values, combine_values. cbn [fold_left filter map].
    destruct (hget (canon n) m); [rewrite app_nil_r|]; reflexivity.
  - inversion Hw as [|? ? Hf Hr]; subst. unfold headers_from in *. cbn [fold_left]. rewrite IH by auto.
    unfold field_values. cbn [filter].
    destruct (is_pseudo (fname f)) eqn:Ep; cbn [orb].
    + replace (beq (fname f) n) with false; [reflexivity|]. symmetry. apply beq_neq. intros E.
      rewrite E, (token_not_pseudo _ Tn) in Ep. discriminate.
    + destruct (beq (fname f) (bs "content-length")) eqn:Ec.
      * apply beq_eq in Ec. replace (beq (fname f) n) with false; [reflexivity|].
        symmetry. apply beq_neq. congruence.
      * destruct (Hf eq_refl) as [Tf Lf]. rewrite hget_hadd.
        destruct (beq (fname f) n) eqn:En.
        -- apply beq_eq in En. rewrite En, beq_refl. cbn [map].
           destruct (hget (canon n) m); cbn [combine_values]; [rewrite <- app_assoc|]; reflexivity.
        -- replace (beq (canon n) (canon (fname f))) with false; [reflexivity|].
           symmetry. apply beq_neq. intros E. apply beq_neq in En. apply En. symmetry.
           apply canon_inj; auto.
Qed.

(** For a well-formed section: under its canonical key, the header map holds exactly the
    values of the fields with that name, in order of arrival. *)
Theorem header_map_values isReq lim fs n :
  WF isReq lim fs -> token_ok n = true -> lower_ok n = true -> n <> bs "content-length" ->
  hget (canon n) (headers_of fs) = match field_values n fs with [] => None | vs => Some vs end.
Proof.
  intros (Hw & _) Tn Ln Hn.
  change (headers_of fs) with (headers_from fs []).
  rewrite (headers_from_get n Tn Ln Hn fs []).
  - cbn [hget combine_values]. destruct (field_values n fs); reflexivity.
  - eapply Forall_impl; [|exact Hw]. intros f (Hu & _ & _ & Hr) Hp.
    apply is_pseudo_false_spec in Hp. destruct (Hr Hp) as (Ht & _).
    split; [apply token_ok_spec; auto|apply token_lower; auto].
Qed.

(** * The writer's acceptance condition, explicitly *)
Theorem request_writer_rejects q :
  emit_request q = None <->
  (wHostOK q = false \/ (sends_path q = true /\ wpath q = None) \/
   exists e, In e (wHeader q) /\ header_entry_ok e = false).
Proof.
  unfold emit_request, emit_request3, wreq_ok. split.
  - destruct (wHostOK q); [|auto]. cbn [andb].
    destruct (sends_path q) eqn:Hs.
    + destruct (wpath q) eqn:Hp; cbn [andb]; [|auto].
      destruct (forallb header_entry_ok (wHeader q)) eqn:Hf; [discriminate|]. intros _. right. right.
      clear - Hf. induction (wHeader q) as [|e r IH]; [discriminate|]. cbn [forallb] in Hf.
      destruct (header_entry_ok e) eqn:He.
      * destruct (IH Hf) as (e' & Hin & He'). exists e'. split; [right|]; auto.
      * exists e. split; [left|]; auto.
    + cbn [andb]. destruct (forallb header_entry_ok (wHeader q)) eqn:Hf; [discriminate|]. intros _. right. right.
      clear - Hf. induction (wHeader q) as [|e r IH]; [discriminate|]. cbn [forallb] in Hf.
      destruct (header_entry_ok e) eqn:He.
      * destruct (IH Hf) as (e' & Hin & He'). exists e'. split; [right|]; auto.
      * exists e. split; [left|]; auto.
  - intros [H|[[Hs Hp]|(e & Hin & He)]].
    + rewrite H. reflexivity.
    + rewrite Hs, Hp. destruct (wHostOK q); reflexivity.
    + assert (Hf : forallb header_entry_ok (wHeader q) = false).
      { destruct (forallb header_entry_ok (wHeader q)) eqn:Hf; auto. rewrite forallb_forall in Hf.
        rewrite (Hf e Hin) in He. discriminate. }
      rewrite Hf, !andb_false_r. reflexivity.
Qed.

(** * Non-vacuity *)

Definition ex_req : wreq :=
  WR (bs "POST") (bs "https") (bs "example.com") true (bs "/a?b=c") (bs "HTTP/1.1")
     [(bs "Accept", [bs "text/html"]); (bs "Cookie", [bs "a=1"; bs "b=2"]); (bs "Connection", [bs "close"]);
      (bs "Te", [bs "trailers"])]
     true 5 [bs "X-Checksum"; bs "Content-Length"].

Lemma ex_req_pre : wreq_pre ex_req any_uri.
Proof.
  constructor.
  - split; [discriminate|vm_compute; reflexivity].
  - vm_compute. reflexivity.
  - intros _. split; [discriminate|]. split; [vm_compute; reflexivity|]. split; vm_compute; reflexivity.
  - intros H. vm_compute in H. discriminate.
  - vm_compute. reflexivity.
  - intros _. vm_compute. reflexivity.
Qed.

Lemma ex_req_emitted :
  emit_request ex_req = Some
    [mk ":authority" "example.com"; mk ":method" "POST"; mk ":path" "/a?b=c"; mk ":scheme" "https";
     mk "trailer" "X-Checksum"; mk "accept" "text/html"; mk "cookie" "a=1"; mk "cookie" "b=2"; mk "te" "trailers";
     mk "content-length" "5"; mk "accept-encoding" "gzip"; F (bs "user-agent") (hx h3DefaultUserAgent)].
Proof. vm_compute. reflexivity. Qed.

(** a handler map without any hygiene: empty / contradicting / non-numeric Content-Length under two
    spellings, a value with LF, a name with a space, a connection-specific field *)
Definition ex_rsp_dirty : gomap :=
  [(bs "Content-Length", [[]; bs "5"; bs "6"]); (bs "X-A", [bs "ok"; bs "a" ++ [10] ++ bs "b"]); (bs "X A", [bs "v"]);
   (bs "content-length", [bs "abc"]); (bs "Connection", [bs "close"])].

Lemma ex_rsp_ok :
  rsp_fields 200 ex_rsp_dirty = [mk ":status" "200"; mk "content-length" "5"; mk "x-a" "ok"] /\
  exists r, updateResponseFromHeaders 65536 (rsp_fields 200 ex_rsp_dirty) false = inr r /\ rsCode r = 200 /\ rsCL r = 5.
Proof. split; [vm_compute; reflexivity|]. eexists. split; [vm_compute; reflexivity|]. split; reflexivity. Qed.

Lemma ex_trailers :
  write_trailers [(bs "X-Checksum", [bs "abc"; bs "a" ++ [10] ++ bs "b"]); (bs "Upgrade", [bs "x"]); (bs "X T", [bs "v"]); (bs "X-Empty", [])]
    = Some [mk "x-checksum" "abc"] /\
  write_trailers [(bs "X-Checksum", [[0]]); (bs "Upgrade", [bs "x"]); (bs "Content-Length", [bs "5"]); (bs "X-Nil", [])] = None.
Proof. split; vm_compute; reflexivity. Qed.
