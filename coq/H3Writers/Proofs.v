(** H3Writers — proofs, part 1: generic lemmas (numbers, lower-casing, the shape of a
    well-formed section) and the trailer writers. *)
From Coq Require Import List ZArith Bool String Lia.
From V Require Import Gen.Params Lib.Hex H3Headers.Model H3Headers.Spec H3Headers.Proofs H3Headers.ProofsParse
  H3Headers.ProofsMain H3Headers.ProofsComplete H3Writers.Model.
Import ListNotations.
Open Scope bool_scope.
Open Scope Z_scope.

(** * itoa *)

Definition dstep (a b : Z) : Z := 10 * a + (b - 48).

Lemma dec_value_fold v : dec_value v = fold_left dstep v 0.
Proof. reflexivity. Qed.

Lemma itoa_fuel_spec : forall f n, 0 <= n < 10 ^ Z.of_nat (S f) ->
  Forall (fun b => 48 <= b <= 57) (itoa_fuel f n) /\ itoa_fuel f n <> [] /\
  forall a, fold_left dstep (itoa_fuel f n) a = a * 10 ^ Z.of_nat (List.length (itoa_fuel f n)) + n.
Proof.
  induction f as [|f IH]; intros n Hn.
  - change (10 ^ Z.of_nat 1) with 10 in Hn. cbn [itoa_fuel List.length].
    assert (n mod 10 = n) by (apply Z.mod_small; lia).
    split; [constructor; [lia|constructor]|]. split; [discriminate|]. intros a.
    cbn [fold_left]. unfold dstep. change (Z.of_nat 1) with 1. rewrite Z.pow_1_r. lia.
  - cbn [itoa_fuel]. destruct (Z.ltb_spec n 10) as [Hlt|Hge].
    + split; [constructor; [lia|constructor]|]. split; [discriminate|]. intros a.
      cbn [fold_left List.length]. unfold dstep. change (Z.of_nat 1) with 1. rewrite Z.pow_1_r. lia.
    + assert (Hq : 0 <= n / 10 < 10 ^ Z.of_nat (S f)).
      { split; [apply Z.div_pos; lia|]. apply Z.div_lt_upper_bound; [lia|].
        replace (Z.of_nat (S (S f))) with (Z.succ (Z.of_nat (S f))) in Hn by lia.
        rewrite Z.pow_succ_r in Hn by lia. lia. }
      destruct (IH _ Hq) as (D & Ne & Fd).
      pose proof (Z.mod_pos_bound n 10 ltac:(lia)) as Hm.
      split; [apply Forall_app; split; auto; constructor; [lia|constructor]|].
      split; [intros E; apply app_eq_nil in E as [_ E]; discriminate|].
      intros a. rewrite fold_left_app, Fd. cbn [fold_left]. unfold dstep at 1.
      rewrite app_length. cbn [List.length]. rewrite Nat.add_1_r, Nat2Z.inj_succ, Z.pow_succ_r by lia.
      pose proof (Z.div_mod n 10 ltac:(lia)). lia.
Qed.

Lemma itoa_spec n : 0 <= n < 2 ^ 63 ->
  numeric (itoa n) /\ dec_value (itoa n) = n /\ parse_uint63 (itoa n) = Some n.
Proof.
  intros Hn. destruct (itoa_fuel_spec 20 n) as (D & Ne & Fd); [simpl; lia|].
  fold (itoa n) in *.
  assert (Hd : dec_value (itoa n) = n) by (rewrite dec_value_fold, Fd; lia).
  split; [split; auto|]. split; auto.
  rewrite <- Hd at 2. apply parse_uint63_complete; [split; auto|]. lia.
Qed.

Lemma itoa_head n : 0 <= n < 2 ^ 63 -> exists d r, itoa n = d :: r /\ 48 <= d <= 57.
Proof.
  intros Hn. destruct (itoa_spec n Hn) as ([Ne D] & _). destruct (itoa n) as [|d r]; [contradiction|].
  inversion D; subst. eauto.
Qed.

Lemma atoi_itoa n : 0 <= n < 2 ^ 63 -> atoi (itoa n) = Some n.
Proof.
  intros Hn. destruct (itoa_head n Hn) as (d & r & E & Hd).
  destruct (itoa_spec n Hn) as ([Ne D] & Hv & _).
  unfold atoi. rewrite E in *.
  replace (d =? 45) with false by (symmetry; apply Z.eqb_neq; lia).
  replace (d =? 43) with false by (symmetry; apply Z.eqb_neq; lia).
  cbn [is_empty].
  rewrite (digits_val_complete (d :: r) 0 D). fold dstep. rewrite <- dec_value_fold, Hv.
  replace ((-9223372036854775808 <=? n) && (n <=? 9223372036854775807)) with true; auto.
  change (2 ^ 63) with 9223372036854775808 in Hn.
  symmetry. apply andb_true_iff. split; apply Z.leb_le; clear - Hn; lia.
Qed.

Lemma digits_value_ok v : Forall (fun b => 48 <= b <= 57) v -> value_ok v = true.
Proof.
  intros H. apply value_ok_spec. unfold rfc_value. eapply Forall_impl; [|exact H].
  intros b Hb. cbv beta in Hb. unfold rfc_value_byte. lia.
Qed.

(** * Lower-casing *)

Lemma lower_byte_tables b :
  tbl h3TokenTable b = true -> tbl h3TokenTable (lower_byte b) = true /\ tbl h3LowerTable (lower_byte b) = true.
Proof.
  intros H. pose proof (tbl_range _ _ H) as Hr.
  assert (A : forallb (fun b => implb (tbl h3TokenTable b)
                (tbl h3TokenTable (lower_byte b) && tbl h3LowerTable (lower_byte b))) all_bytes = true)
    by (vm_compute; reflexivity).
  apply (byte_forall _ A) in Hr. rewrite H in Hr. apply andb_true_iff in Hr. exact Hr.
Qed.

Lemma lower_token k : token_ok k = true -> token_ok (lower_bytes k) = true /\ lower_ok (lower_bytes k) = true.
Proof.
  unfold token_ok, lower_ok. intros H. apply andb_true_iff in H as [Hne Ha].
  rewrite forallb_forall in Ha. split.
  - apply andb_true_iff. split; [destruct k; [discriminate|reflexivity]|].
    apply forallb_forall. intros b Hb. apply in_map_iff in Hb as (c & <- & Hc). apply lower_byte_tables; auto.
  - apply forallb_forall. intros b Hb. apply in_map_iff in Hb as (c & <- & Hc). apply lower_byte_tables; auto.
Qed.

Lemma is_tchar_lower b : is_tchar (lower_byte b) = is_tchar b.
Proof.
  unfold lower_byte. destruct (is_uc b) eqn:E; auto.
  unfold is_uc in E. apply andb_true_iff in E as [E1 E2]. apply Z.leb_le in E1, E2.
  unfold is_tchar.
  replace (is_uc b) with true by (symmetry; unfold is_uc; apply andb_true_iff; split; apply Z.leb_le; lia).
  replace (is_lc (b + 32)) with true by (symmetry; unfold is_lc; apply andb_true_iff; split; apply Z.leb_le; lia).
  rewrite !orb_true_r. reflexivity.
Qed.

Lemma canon_go_lower k : forall u, canon_go u (lower_bytes k) = canon_go u k.
Proof.
  induction k as [|c r IH]; intros u; simpl; auto.
  assert (E : (if u && is_lc (lower_byte c) then lower_byte c - 32
               else if negb u && is_uc (lower_byte c) then lower_byte c + 32 else lower_byte c) =
              (if u && is_lc c then c - 32 else if negb u && is_uc c then c + 32 else c)).
  { unfold lower_byte. destruct (is_uc c) eqn:Eu.
    - unfold is_uc in Eu. apply andb_true_iff in Eu as [E1 E2]. apply Z.leb_le in E1, E2.
      replace (is_lc (c + 32)) with true by (symmetry; unfold is_lc; apply andb_true_iff; split; apply Z.leb_le; lia).
      replace (is_uc (c + 32)) with false by (symmetry; unfold is_uc; apply andb_false_iff; right; apply Z.leb_gt; lia).
      replace (is_lc c) with false by (symmetry; unfold is_lc; apply andb_false_iff; left; apply Z.leb_gt; lia).
      destruct u; simpl; lia.
    - rewrite Eu. reflexivity. }
  rewrite E. f_equal. apply IH.
Qed.

Lemma token_all_tchar k : token_ok k = true -> forallb is_tchar k = true.
Proof.
  unfold token_ok. intros H. apply andb_true_iff in H as [_ H]. rewrite forallb_forall in *.
  intros b Hb. apply token_table_is_tchar. auto.
Qed.

Lemma canon_lower k : token_ok k = true -> canon (lower_bytes k) = canon k.
Proof.
  intros Ht. pose proof (token_all_tchar _ Ht) as Et. unfold canon.
  assert (E : forallb is_tchar (lower_bytes k) = forallb is_tchar k).
  { clear. induction k as [|c r IH]; simpl; auto. rewrite is_tchar_lower, IH. reflexivity. }
  rewrite E, Et. apply canon_go_lower.
Qed.

Lemma valid_trailer_lower k : token_ok k = true -> valid_trailer (lower_bytes k) = valid_trailer k.
Proof. intros Ht. unfold valid_trailer. rewrite (canon_lower _ Ht). reflexivity. Qed.

Lemma token_not_pseudo k : token_ok k = true -> is_pseudo k = false.
Proof.
  intros H. destruct k as [|c r]; [reflexivity|].
  unfold token_ok in H. simpl in H. apply andb_true_iff in H as [H _].
  destruct (Z.eq_dec c 58) as [->|Hn]; [vm_compute in H; discriminate|].
  simpl. destruct c; try reflexivity. repeat (destruct p; try reflexivity). contradiction.
Qed.

(** * The shape of a well-formed section: pseudo-header fields with distinct names, then
      regular fields *)

Lemma pseudo_first_app ps rs :
  Forall pseudo ps -> Forall (fun f => ~ pseudo f) rs -> pseudo_first (ps ++ rs).
Proof.
  intros Hp Hr l1 f l2 g l3 E Hg. rewrite Forall_forall in Hp, Hr.
  apply app_eq_app in E as [l [[E1 E2]|[E1 E2]]].
  - destruct l as [|x l].
    + simpl in E2. exfalso. apply (Hr g); auto.
      rewrite <- E2. right. apply in_or_app. right. left. reflexivity.
    + inversion E2; subst. apply Hp. apply in_or_app. right. left. reflexivity.
  - exfalso. apply (Hr g); auto. rewrite E2.
    apply in_or_app. right. right. apply in_or_app. right. left. reflexivity.
Qed.

Lemma pseudo_unique_app ps rs :
  NoDup (map fname ps) -> Forall (fun f => ~ pseudo f) rs -> pseudo_unique (ps ++ rs).
Proof.
  intros Hnd Hr l1 f l2 g l3 E Hf Hfg.
  assert (Hg : pseudo g) by (destruct Hf as [r Hf]; exists r; congruence).
  rewrite Forall_forall in Hr.
  apply app_eq_app in E as [l [[E1 E2]|[E1 E2]]].
  - destruct l as [|x l].
    + simpl in E2. apply (Hr f); auto. rewrite <- E2. left. reflexivity.
    + inversion E2 as [[Ex E3]]. subst x.
      assert (Hin : In g (l ++ rs)) by (rewrite <- E3; apply in_or_app; right; left; reflexivity).
      apply in_app_or in Hin as [Hin|Hin]; [|apply (Hr g); auto].
      subst ps. rewrite map_app in Hnd. apply NoDup_remove_2 in Hnd.
      apply Hnd. apply in_or_app. right. rewrite Hfg. apply in_map. exact Hin.
  - apply (Hr f); auto. rewrite E2. apply in_or_app. right. left. reflexivity.
Qed.
