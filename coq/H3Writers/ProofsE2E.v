(** H3Writers — proofs, part 3: the end-to-end composition on the HEADER MAP.  For every request
    the writer model accepts — any http.Header, keys in any spelling, any iteration order — the
    parser model applied to the writer model's output files, under every name, exactly the values
    the abstract request carries for that name (modulo the documented normalisations: dropped
    names, first non-empty User-Agent, default User-Agent, accept-encoding: gzip, cookies joined,
    Content-Length regenerated, Trailer moved to Request.Trailer). *)
From Coq Require Import List ZArith Bool String Lia.
From V Require Import Gen.Params Lib.Hex H3Headers.Model H3Headers.Spec H3Headers.Proofs H3Headers.ProofsParse
  H3Headers.ProofsMain H3Headers.ProofsComplete H3Writers.Model H3Writers.Proofs H3Writers.ProofsAgree.
Import ListNotations.
Open Scope bool_scope.
Open Scope Z_scope.

(** * Association-list facts *)

Lemma beq_sym a b : beq a b = beq b a.
Proof.
  destruct (beq a b) eqn:E.
  - apply beq_eq in E. subst. symmetry. apply beq_refl.
  - symmetry. apply beq_neq. apply beq_neq in E. congruence.
Qed.

Lemma hget_hset k k' v m :
  hget k (hset k' v m) = if beq k k' then Some [v] else hget k m.
Proof.
  induction m as [|[k0 vs0] r IH]; cbn [hset hget].
  - destruct (beq k k'); reflexivity.
  - destruct (beq k' k0) eqn:E0; cbn [hget].
    + apply beq_eq in E0. subst k0. destruct (beq k k'); reflexivity.
    + rewrite IH. destruct (beq k k') eqn:E1; [|reflexivity].
      apply beq_eq in E1. subst k'. rewrite E0. reflexivity.
Qed.

Lemma hget_hdel k k' m :
  hget k (hdel k' m) = if beq k k' then None else hget k m.
Proof.
  induction m as [|[k0 vs0] r IH]; cbn [hdel hget].
  - destruct (beq k k'); reflexivity.
  - destruct (beq k' k0) eqn:E0.
    + rewrite IH. apply beq_eq in E0. subst k0. destruct (beq k k'); reflexivity.
    + cbn [hget]. rewrite IH. destruct (beq k k') eqn:E1; [|reflexivity].
      apply beq_eq in E1. subst k'. rewrite E0. reflexivity.
Qed.

Lemma extract_trailers_get k m :
  hget k (fst (extract_trailers m)) = if beq k k_trailer then None else hget k m.
Proof.
  unfold extract_trailers. destruct (hget k_trailer m) eqn:E; cbn [fst].
  - apply hget_hdel.
  - destruct (beq k k_trailer) eqn:Ek; auto. apply beq_eq in Ek. subst. exact E.
Qed.

(** the cookie concatenation of requestFromHeaders *)
Definition cookie_joined (m : hmap) : hmap :=
  match hget k_cookie m with
  | Some (c :: cs) => hset k_cookie (join (bs "; ") (c :: cs)) m
  | _ => m
  end.

Lemma cookie_joined_get k m :
  hget k (cookie_joined m) =
  if beq k k_cookie then match hget k_cookie m with Some (c :: cs) => Some [join (bs "; ") (c :: cs)] | o => o end
  else hget k m.
Proof.
  unfold cookie_joined. destruct (hget k_cookie m) as [[|c cs]|] eqn:E.
  - destruct (beq k k_cookie) eqn:Ek; auto. apply beq_eq in Ek. subst. exact E.
  - rewrite hget_hset. destruct (beq k k_cookie); reflexivity.
  - destruct (beq k k_cookie) eqn:Ek; auto. apply beq_eq in Ek. subst. exact E.
Qed.

Lemma request_of_header h uri r :
  request_of h uri = inr r ->
  rqHeader r = fst (extract_trailers (cookie_joined (hHeaders h))) /\
  rqTrailer r = snd (extract_trailers (cookie_joined (hHeaders h))).
Proof.
  unfold request_of. fold (cookie_joined (hHeaders h)).
  destruct (extract_trailers (cookie_joined (hHeaders h))) as [hd' tr]. cbn [fst snd].
  intros H.
  repeat match type of H with
         | (if ?c then _ else _) = _ => destruct c
         | match ?x with _ => _ end = _ => destruct x
         | (let '(_, _) := ?x in _) = _ => destruct x
         end; try discriminate; inversion H; subst; auto.
Qed.

(** * The values a name carries in the emitted section *)

Lemma field_values_app n a b : field_values n (a ++ b) = field_values n a ++ field_values n b.
Proof. unfold field_values. rewrite filter_app, map_app. reflexivity. Qed.

Lemma field_values_none n l : (forall f, In f l -> fname f <> n) -> field_values n l = [].
Proof.
  intros H. unfold field_values. induction l as [|f r IH]; auto. cbn [filter].
  replace (beq (fname f) n) with false by (symmetry; apply beq_neq; apply H; left; auto).
  apply IH. intros g Hg. apply H. right. auto.
Qed.

Lemma field_values_all n l : (forall f, In f l -> fname f = n) -> field_values n l = map fvalue l.
Proof.
  intros H. unfold field_values. induction l as [|f r IH]; auto. cbn [filter map].
  rewrite (H f (or_introl eq_refl)), beq_refl. cbn [map]. f_equal. apply IH. intros g Hg. apply H. right. auto.
Qed.

Definition entry_values (e : bytes * list bytes) : list bytes := map fvalue (req_entry_fields e).

Lemma req_entry_names e f : In f (req_entry_fields e) -> fname f = lower_bytes (fst e).
Proof. intros H. apply req_entry_in in H as (_ & v & _ & ->). reflexivity. Qed.

Lemma field_values_entry n e :
  field_values n (req_entry_fields e) = if beq (lower_bytes (fst e)) n then entry_values e else [].
Proof.
  destruct (beq (lower_bytes (fst e)) n) eqn:E.
  - apply beq_eq in E. apply field_values_all. intros f Hf. rewrite <- E. apply req_entry_names; auto.
  - apply beq_neq in E. apply field_values_none. intros f Hf. rewrite (req_entry_names _ _ Hf). auto.
Qed.

Lemma field_values_mid n h :
  field_values n (flat_map req_entry_fields h) =
  flat_map (fun e => if beq (lower_bytes (fst e)) n then entry_values e else []) h.
Proof.
  induction h as [|e r IH]; auto. cbn [flat_map]. rewrite field_values_app, field_values_entry, IH. reflexivity.
Qed.

(** What the abstract request carries under the (lower-case) name [n]: the entries of req.Header
    spelled like [n] in any letter case (minus the dropped names / extra User-Agent values), then
    what the writer adds itself. *)
Definition expected_values (q : wreq) (n : bytes) : list bytes :=
  flat_map (fun e => if beq (lower_bytes (fst e)) n then entry_values e else []) (wHeader q) ++
  (if beq (bs "accept-encoding") n && wGzip q then [bs "gzip"] else []) ++
  (if beq (bs "user-agent") n && negb (did_ua (wHeader q)) then [hx h3DefaultUserAgent] else []).

Lemma field_values_request q uri n :
  wreq_ok q = true -> wreq_pre q uri ->
  token_ok n = true -> n <> bs "content-length" -> n <> bs "trailer" ->
  field_values n (req_pseudos q ++ req_regular q) = expected_values q n.
Proof.
  intros Hok Hpre Tn Hncl Hntr.
  destruct (req_pseudos_wf q uri Hok Hpre) as [Hps _]. rewrite Forall_forall in Hps.
  unfold req_regular, expected_values. rewrite !field_values_app.
  rewrite (field_values_none n (req_pseudos q)).
  2:{ intros f Hf E. destruct (Hps f Hf) as [Hp _]. apply is_pseudo_spec in Hp. rewrite E, (token_not_pseudo _ Tn) in Hp. discriminate. }
  rewrite (field_values_none n (req_announce q)).
  2:{ unfold req_announce. intros f Hf. destruct (is_empty (trailer_announcement q)); [contradiction|].
      destruct Hf as [<-|[]]. cbn [fname]. congruence. }
  unfold req_mid. rewrite field_values_mid. cbn [app]. f_equal.
  unfold req_post. rewrite !field_values_app.
  assert (Hc : field_values n (if send_cl (wMethod q) (wCL q) then [F (bs "content-length") (itoa (wCL q))] else []) = []).
  { apply field_values_none. intros f Hf. destruct (send_cl (wMethod q) (wCL q)); [|contradiction].
    destruct Hf as [<-|[]]. cbn [fname]. congruence. }
  rewrite Hc. cbn [app]. f_equal.
  - unfold field_values. destruct (wGzip q); [|rewrite andb_false_r; reflexivity]. rewrite andb_true_r.
    cbn [filter fname]. destruct (beq (bs "accept-encoding") n); reflexivity.
  - unfold field_values. destruct (did_ua (wHeader q)); cbn [negb]; [rewrite andb_false_r; reflexivity|]. rewrite andb_true_r.
    cbn [filter fname]. destruct (beq (bs "user-agent") n); reflexivity.
Qed.

Definition opt_values (vs : list bytes) : option (list bytes) := match vs with [] => None | w => Some w end.

Lemma canon_neq a b :
  token_ok a = true -> lower_ok a = true -> token_ok b = true -> lower_ok b = true -> a <> b ->
  beq (canon a) (canon b) = false.
Proof. intros Ta La Tb Lb Hn. apply beq_neq. intros E. apply Hn. apply canon_inj; auto. Qed.

(** *** End-to-end on the header map (requests). *)
Theorem request_agree_headers q uri lim pre mid post r :
  emit_request3 q = Some (pre, mid, post) -> wreq_pre q uri ->
  section_size (pre ++ mid ++ post) <= lim ->
  requestFromHeaders lim (pre ++ mid ++ post) false uri = inr r ->
  (* every ordinary name *)
  (forall n, token_ok n = true -> lower_ok n = true ->
             n <> bs "content-length" -> n <> bs "cookie" -> n <> bs "trailer" ->
             hget (canon n) (rqHeader r) = opt_values (expected_values q n)) /\
  (* cookies are concatenated with "; " *)
  hget (bs "Cookie") (rqHeader r) =
    match expected_values q (bs "cookie") with [] => None | c :: cs => Some [join (bs "; ") (c :: cs)] end /\
  (* Content-Length is the regenerated one *)
  hget (bs "Content-Length") (rqHeader r) =
    (if send_cl (wMethod q) (wCL q) then Some [itoa (wCL q)] else None) /\
  (* Trailer announcements are moved out of the header *)
  hget (bs "Trailer") (rqHeader r) = None.
Proof.
  intros He Hpre Hsz Hr. apply emit_request_shape in He as [Hok Efs]. rewrite Efs in *.
  assert (Hlim : 0 <= lim) by (pose proof (section_size_nonneg (req_pseudos q ++ req_regular q)); lia).
  pose proof (request_section_accepted q uri lim Hok Hpre Hsz) as Hacc.
  pose proof (parseHeaders_sound _ _ _ _ _ Hlim Hacc) as (_ & Hwf & _ & _).
  unfold requestFromHeaders in Hr. rewrite Hacc in Hr.
  apply request_of_header in Hr as [Hh _]. rewrite Hh.
  set (fs := req_pseudos q ++ req_regular q) in *.
  destruct (req_cl_value q uri Hok Hpre) as [Hclv _]. fold fs in Hclv.
  (* the map before the two post-processing steps *)
  assert (Hbase : forall n, token_ok n = true -> lower_ok n = true -> n <> bs "content-length" ->
            hget (canon n) (hHeaders (hdr_of fs)) = opt_values (field_values n fs)).
  { intros n Tn Ln Hn. unfold hdr_of.
    assert (Hm : hget (canon n) (headers_of fs) = opt_values (field_values n fs)).
    { rewrite (header_map_values true lim fs n Hwf Tn Ln Hn). destruct (field_values n fs); reflexivity. }
    destruct (is_empty (last_value (bs "content-length") fs)); cbn [hHeaders].
    - exact Hm.
    - rewrite hget_hset.
      replace (beq (canon n) (bs "Content-Length")) with false.
      + exact Hm.
      + symmetry. change (bs "Content-Length") with (canon (bs "content-length")).
        apply canon_neq; auto; vm_compute; reflexivity. }
  assert (Tck : token_ok (bs "cookie") = true /\ lower_ok (bs "cookie") = true) by (split; vm_compute; reflexivity).
  assert (Ttr : token_ok (bs "trailer") = true /\ lower_ok (bs "trailer") = true) by (split; vm_compute; reflexivity).
  split; [|split; [|split]].
  - intros n Tn Ln Hncl Hnck Hntr.
    rewrite extract_trailers_get, cookie_joined_get.
    change k_trailer with (canon (bs "trailer")). change k_cookie with (canon (bs "cookie")).
    rewrite (canon_neq n (bs "trailer")), (canon_neq n (bs "cookie")) by (auto; tauto).
    rewrite Hbase by auto. f_equal. apply (field_values_request q uri); auto.
  - rewrite extract_trailers_get, cookie_joined_get.
    change (beq (bs "Cookie") k_trailer) with false. change (beq (bs "Cookie") k_cookie) with true. cbv iota.
    change k_cookie with (canon (bs "cookie")).
    rewrite Hbase by (try tauto; vm_compute; discriminate).
    rewrite (field_values_request q uri) by (try tauto; vm_compute; discriminate).
    destruct (expected_values q (bs "cookie")); reflexivity.
  - rewrite extract_trailers_get, cookie_joined_get.
    change (beq (bs "Content-Length") k_trailer) with false. change (beq (bs "Content-Length") k_cookie) with false. cbv iota.
    unfold hdr_of. rewrite Hclv.
    destruct (send_cl (wMethod q) (wCL q)) eqn:Es.
    + assert (Hrg : 0 <= wCL q < 2 ^ 63) by (split; [apply send_cl_range; auto|apply (pre_cl _ _ Hpre); auto]).
      destruct (itoa_spec _ Hrg) as ([Ne _] & _).
      replace (is_empty (itoa (wCL q))) with false by (symmetry; apply is_empty_false; auto).
      cbn [hHeaders]. rewrite hget_hset, beq_refl. reflexivity.
    + cbn [is_empty hHeaders].
      (* no regular field is named content-length, so the key is absent *)
      change (bs "Content-Length") with (canon (bs "content-length")).
      change (headers_of fs) with (headers_from fs []).
      assert (G : forall l m, hget (canon (bs "content-length")) (headers_from l m) = hget (canon (bs "content-length")) m
                  \/ exists f, In f l /\ is_pseudo (fname f) = false /\ beq (fname f) (bs "content-length") = false
                               /\ canon (fname f) = canon (bs "content-length")).
      { induction l as [|f l IH]; intros m; [left; reflexivity|].
        unfold headers_from in *. cbn [fold_left].
        destruct (is_pseudo (fname f) || beq (fname f) (bs "content-length")) eqn:E.
        - destruct (IH m) as [H|(g & Hg & H)]; [left; exact H|right; exists g; split; [right|]; auto].
        - apply orb_false_iff in E as [E1 E2].
          destruct (IH (hadd (canon (fname f)) (fvalue f) m)) as [H|(g & Hg & H)]; [|right; exists g; split; [right|]; auto].
          rewrite H, hget_hadd.
          destruct (beq (canon (bs "content-length")) (canon (fname f))) eqn:Ec; [|left; reflexivity].
          right. exists f. split; [left; reflexivity|]. split; auto. split; auto. apply beq_eq in Ec. auto. }
      destruct (G fs []) as [H|(f & Hf & Hp & Hn & Hc)]; [rewrite H; reflexivity|]. exfalso.
      destruct Hwf as (Hw & _). rewrite Forall_forall in Hw. destruct (Hw f Hf) as (Hu & _ & _ & Hreg).
      apply is_pseudo_false_spec in Hp. destruct (Hreg Hp) as (Ht & _).
      apply beq_neq in Hn. apply Hn. apply canon_inj; auto;
        try (apply token_ok_spec; auto); try (apply token_lower; auto); vm_compute; reflexivity.
  - rewrite extract_trailers_get. change (beq (bs "Trailer") k_trailer) with true. reflexivity.
Qed.

(** * Responses *)

Lemma response_of_header h r :
  response_of h = inr r -> rsHeader r = fst (extract_trailers (hHeaders h)).
Proof.
  unfold response_of. destruct (is_empty (sStatus (hPs h))); [discriminate|].
  destruct (extract_trailers (hHeaders h)) as [hd' tr]. destruct (atoi (sStatus (hPs h))); [|discriminate].
  intros H; inversion H; reflexivity.
Qed.

Definition rsp_expected (h : gomap) (n : bytes) : list bytes :=
  flat_map (fun e => if beq (lower_bytes (fst e)) n
                     then map fvalue (rsp_entry_fields (declared_trailers h) e) else []) h.

Lemma field_values_keep_first n s l :
  n <> n_content_length -> field_values n (keep_first_cl s l) = field_values n l.
Proof.
  intros Hn. revert s. induction l as [|f r IH]; intros s; auto. cbn [keep_first_cl].
  unfold field_values in *. destruct (beq (fname f) n_content_length) eqn:E.
  - apply beq_eq in E. cbn [filter]. replace (beq (fname f) n) with false by (symmetry; apply beq_neq; congruence).
    destruct s; [apply IH|]. cbn [filter]. replace (beq (fname f) n) with false by (symmetry; apply beq_neq; congruence). apply IH.
  - cbn [filter]. destruct (beq (fname f) n); cbn [map]; rewrite IH; reflexivity.
Qed.

Lemma field_values_rsp status h n :
  is_pseudo n = false -> n <> n_content_length ->
  field_values n (rsp_fields status h) = rsp_expected h n.
Proof.
  intros Hn Hncl. unfold rsp_fields, rsp_expected.
  change (F (bs ":status") (itoa status) :: ?l) with ([F (bs ":status") (itoa status)] ++ l).
  rewrite field_values_app, (field_values_none n [_]).
  2:{ intros f [<-|[]] E. cbn [fname] in E. rewrite <- E in Hn. discriminate. }
  cbn [app]. rewrite field_values_keep_first by auto. generalize (declared_trailers h). intros d.
  induction h as [|e r IH]; auto. cbn [flat_map]. rewrite field_values_app, IH. f_equal.
  destruct (beq (lower_bytes (fst e)) n) eqn:E.
  - apply beq_eq in E. apply field_values_all. intros f Hf. apply rsp_entry_in in Hf as (_ & _ & _ & v & _ & -> & _). auto.
  - apply beq_neq in E. apply field_values_none. intros f Hf. apply rsp_entry_in in Hf as (_ & _ & _ & v & _ & -> & _). auto.
Qed.

(** *** End-to-end on the header map (responses): whatever updateResponseFromHeaders accepts
    of the writer's output files, under every ordinary name, exactly the values the handler's map
    carries for it in any key spelling (declared trailers, "Trailer:" keys, connection-specific
    names and TE != trailers having been left out by the writer). *)
Theorem response_agree_headers status h lim r n :
  0 <= lim -> updateResponseFromHeaders lim (rsp_fields status h) false = inr r ->
  token_ok n = true -> lower_ok n = true -> n <> bs "content-length" -> n <> bs "trailer" ->
  hget (canon n) (rsHeader r) = opt_values (rsp_expected h n).
Proof.
  intros Hlim Hr Tn Ln Hncl Hntr.
  pose proof (updateResponse_sound _ _ _ _ Hlim Hr) as (_ & Hwf & _).
  unfold updateResponseFromHeaders in Hr.
  destruct (parseHeaders false lim (rsp_fields status h) false) as [e|hd] eqn:Hp; [discriminate|].
  apply parseHeaders_sound in Hp as (_ & _ & _ & ->); auto.
  apply response_of_header in Hr. rewrite Hr, extract_trailers_get.
  change k_trailer with (canon (bs "trailer")).
  rewrite (canon_neq n (bs "trailer")) by (auto; vm_compute; reflexivity).
  set (fs := rsp_fields status h) in *.
  assert (Hm : hget (canon n) (headers_of fs) = opt_values (field_values n fs)).
  { rewrite (header_map_values false lim fs n Hwf Tn Ln Hncl). destruct (field_values n fs); reflexivity. }
  unfold hdr_of. destruct (is_empty (last_value (bs "content-length") fs)); cbn [hHeaders].
  - rewrite Hm. unfold fs. rewrite field_values_rsp by (auto; apply token_not_pseudo; auto). reflexivity.
  - rewrite hget_hset. change (bs "Content-Length") with (canon (bs "content-length")).
    rewrite (canon_neq n (bs "content-length")) by (auto; vm_compute; reflexivity).
    rewrite Hm. unfold fs. rewrite field_values_rsp by (auto; apply token_not_pseudo; auto). reflexivity.
Qed.

(** * Trailers *)

Lemma trailers_from_get n : token_ok n = true -> lower_ok n = true ->
  forall fs m,
  Forall (fun f => token_ok (fname f) = true /\ lower_ok (fname f) = true) fs ->
  hget (canon n) (trailers_from fs m) = combine_values (hget (canon n) m) (field_values n fs).
Proof.
  intros Tn Ln. induction fs as [|f r IH]; intros m Hw.
  - unfold trailers_from, field_values, combine_values. cbn [fold_left filter map].
    destruct (hget (canon n) m); [rewrite app_nil_r|]; reflexivity.
  - inversion Hw as [|? ? [Tf Lf] Hr]; subst. unfold trailers_from in *. cbn [fold_left]. rewrite IH by auto.
    unfold field_values. cbn [filter]. rewrite hget_hadd.
    destruct (beq (fname f) n) eqn:En.
    + apply beq_eq in En. rewrite En, beq_refl. cbn [map].
      destruct (hget (canon n) m); cbn [combine_values]; [rewrite <- app_assoc|]; reflexivity.
    + replace (beq (canon n) (canon (fname f))) with false; [reflexivity|].
      symmetry. apply canon_neq; auto. apply beq_neq in En. congruence.
Qed.

Definition trailers_expected (t : gomap) (n : bytes) : list bytes :=
  flat_map (fun e => if beq (lower_bytes (fst e)) n && valid_to_send (fst e) then filter value_ok (snd e) else []) t.

Lemma field_values_trailers t n :
  field_values n (flat_map trailer_entry_fields t) = trailers_expected t n.
Proof.
  unfold trailers_expected. induction t as [|e r IH]; auto. cbn [flat_map]. rewrite field_values_app, IH. f_equal.
  unfold trailer_entry_fields. destruct (valid_to_send (fst e)); [|rewrite andb_false_r; reflexivity]. rewrite andb_true_r.
  destruct (beq (lower_bytes (fst e)) n) eqn:E.
  - apply beq_eq in E. rewrite field_values_all.
    + rewrite map_map. cbn [fvalue]. apply map_id.
    + intros f Hf. apply in_map_iff in Hf as (v & <- & _). auto.
  - apply beq_neq in E. apply field_values_none. intros f Hf. apply in_map_iff in Hf as (v & <- & _). auto.
Qed.

(** *** End-to-end on trailers: the map parseTrailers returns for a written trailer section holds,
    under every name, exactly the sendable values of the sendable entries spelled like it. *)
Theorem trailers_agree_values t fs lim n :
  write_trailers t = Some fs -> section_size fs <= lim ->
  token_ok n = true -> lower_ok n = true ->
  exists m, parseTrailers lim fs false = inr m /\ hget (canon n) m = opt_values (trailers_expected t n).
Proof.
  intros Hw Hsz Tn Ln. destruct (trailers_agree t fs lim Hw Hsz) as [_ Hp].
  exists (trailers_of fs). split; auto.
  apply write_trailers_fields in Hw as (Hfs & _).
  assert (Hlim : 0 <= lim) by (pose proof (section_size_nonneg fs); lia).
  apply parseTrailers_sound in Hp as (_ & [Hwf _] & _); auto.
  change (trailers_of fs) with (trailers_from fs []).
  rewrite (trailers_from_get n Tn Ln fs []).
  - cbn [hget combine_values]. rewrite Hfs, field_values_trailers.
    destruct (trailers_expected t n); reflexivity.
  - eapply Forall_impl; [|exact Hwf]. intros f (Hu & _ & _ & Ht & _).
    split; [apply token_ok_spec; auto|apply token_lower; auto].
Qed.

(** * Non-vacuity with non-canonical key spellings (the shape of seeded change C19-e) *)
Definition ex_req_e : wreq :=
  WR (bs "GET") (bs "https") (bs "example.com") true (bs "/a") (bs "HTTP/1.1")
     [(bs "connection", [bs "close"]); (bs "X-a", [bs "1"]); (bs "hOst", [bs "other.example"]);
      (bs "x-A", [bs "2"]); (bs "CONTENT-LENGTH", [bs "1337"]); (bs "cOOkie", [bs "a=1"; bs "b=2"]);
      (bs "USER-AGENT", [bs "ua1"; bs "ua2"])]
     false 0 [].

Lemma ex_req_e_facts :
  wreq_pre ex_req_e any_uri /\
  emit_request ex_req_e = Some
    [mk ":authority" "example.com"; mk ":method" "GET"; mk ":path" "/a"; mk ":scheme" "https";
     mk "x-a" "1"; mk "x-a" "2"; mk "cookie" "a=1"; mk "cookie" "b=2"; mk "user-agent" "ua1"] /\
  expected_values ex_req_e (bs "x-a") = [bs "1"; bs "2"] /\
  expected_values ex_req_e (bs "connection") = [] /\ expected_values ex_req_e (bs "host") = [] /\
  expected_values ex_req_e (bs "user-agent") = [bs "ua1"].
Proof.
  split; [|repeat split; vm_compute; reflexivity].
  constructor.
  - split; [discriminate|vm_compute; reflexivity].
  - vm_compute. reflexivity.
  - intros _. split; [discriminate|]. split; [vm_compute; reflexivity|]. split; vm_compute; reflexivity.
  - intros H. vm_compute in H. discriminate.
  - vm_compute. reflexivity.
  - intros H. vm_compute in H. discriminate.
Qed.

(** * The receive-side glue for trailers (decodeTrailers) *)

Theorem decode_trailers_sound maxb enclen tr fs m :
  0 <= maxb -> decode_trailers maxb enclen tr fs = inr m ->
  enclen <= maxb /\ tr = false /\ fs <> [] /\ WFtrailer maxb fs /\ m = trailers_of fs.
Proof.
  unfold decode_trailers. intros Hm H.
  destruct (Z.ltb_spec maxb enclen) as [|Hle]; [discriminate|]. destruct tr; [discriminate|].
  destruct fs as [|f r]; [discriminate|].
  destruct (parseTrailers maxb (f :: r) false) as [e|m'] eqn:Hp; [destruct e; discriminate|].
  inversion H; subst m'. apply parseTrailers_sound in Hp as (_ & Hw & ->); auto.
  split; [exact Hle|]. split; [reflexivity|]. split; [discriminate|]. split; [exact Hw|reflexivity].
Qed.

(** what either writer puts on the stream as a trailer section passes the receive-side glue: in
    particular it is never the empty payload the QPACK decoder chokes on (seeded change C19-b) *)
Theorem writer_decode_agree t fs maxb enclen :
  write_trailers t = Some fs -> enclen <= maxb -> section_size fs <= maxb ->
  decode_trailers maxb enclen false fs = inr (trailers_of fs).
Proof.
  intros Hw He Hs. destruct (trailers_agree t fs maxb Hw Hs) as [Hne Hp].
  unfold decode_trailers. destruct (Z.ltb_spec maxb enclen); [lia|].
  destruct fs as [|f r]; [contradiction|]. rewrite Hp. reflexivity.
Qed.

(** * WriteHeader's defaults (rsp_prepare) *)

Lemma get_exact_app k a b :
  get_exact k (a ++ b) = match get_exact k a with Some v => Some v | None => get_exact k b end.
Proof. induction a as [|[k' vs] r IH]; cbn [app get_exact]; auto. destruct (beq k k'); auto. Qed.

Lemma get_exact_del k k' h :
  get_exact k (del_exact k' h) = if beq k k' then None else get_exact k h.
Proof.
  induction h as [|[k0 vs0] r IH]; cbn [del_exact get_exact].
  - destruct (beq k k'); reflexivity.
  - destruct (beq k' k0) eqn:E0.
    + rewrite IH. apply beq_eq in E0. subst k0. destruct (beq k k'); reflexivity.
    + cbn [get_exact]. rewrite IH. destruct (beq k k') eqn:E1; [|reflexivity].
      apply beq_eq in E1. subst k'. rewrite E0. reflexivity.
Qed.

(** After WriteHeader(status >= 200): a Date is present; a canonical Content-Length whose first
    value is non-empty is numeric (a malformed one was deleted); every other key is untouched. *)
Theorem rsp_prepare_spec d h :
  get_exact (bs "Date") (rsp_prepare d h) <> None /\
  (forall c cs, get_exact k_content_length (rsp_prepare d h) = Some (c :: cs) -> c <> [] -> exists v, parse_uint63 c = Some v) /\
  (forall k, k <> bs "Date" -> k <> k_content_length -> get_exact k (rsp_prepare d h) = get_exact k h).
Proof.
  unfold rsp_prepare.
  set (h1 := match get_exact (bs "Date") h with Some _ => h | None => h ++ [(bs "Date", [d])] end).
  assert (Hd : get_exact (bs "Date") h1 <> None).
  { unfold h1. destruct (get_exact (bs "Date") h) eqn:E; [congruence|].
    rewrite get_exact_app, E. cbn. discriminate. }
  assert (Ho : forall k, k <> bs "Date" -> get_exact k h1 = get_exact k h).
  { intros k Hk. unfold h1. destruct (get_exact (bs "Date") h); auto. rewrite get_exact_app.
    destruct (get_exact k h); auto. cbn [get_exact]. apply beq_neq in Hk. rewrite Hk. reflexivity. }
  destruct (get_exact k_content_length h1) as [[|clen cs]|] eqn:Ec.
  - split; auto. split; [intros c cs' E; congruence|auto].
  - destruct (is_empty clen) eqn:Ee.
    + split; auto. split; auto. intros c cs' E Hne. rewrite Ec in E. inversion E; subst. apply is_empty_true in Ee. contradiction.
    + destruct (parse_uint63 clen) as [v|] eqn:Ep.
      * split; auto. split; auto. intros c cs' E _. rewrite Ec in E. inversion E; subst. eauto.
      * split; [|split].
        -- rewrite get_exact_del. change (beq (bs "Date") k_content_length) with false. exact Hd.
        -- intros c cs' E. rewrite get_exact_del, beq_refl in E. discriminate.
        -- intros k Hk1 Hk2. rewrite get_exact_del. apply beq_neq in Hk2. rewrite Hk2. auto.
  - split; auto. split; [intros c cs' E; congruence|auto].
Qed.
