(** H3Writers — executable model of the HTTP/3 field-section WRITERS of /repo/http3
    (property C19, claim (c)): requestWriter.writeHeaders/encodeHeaders (request_writer.go),
    responseWriter.WriteHeader's defaults and writeHeader (response_writer.go), the response
    writer's trailer promotion and writeTrailers (response_writer.go, headers.go).

    Abstract inputs.  A Go map is a list of (key, values) in the order the writer happened to
    iterate it — the theorems hold for every order, the correspondence check compares the map-
    driven part of the output as a multiset.  What lives outside /repo enters as data: the
    host after httpguts.PunycodeHostPort with the verdict of ValidHostHeader, URL.RequestURI(),
    actualContentLength(req), the Date string; the qpack encoder/decoder pair is taken to be the
    identity on field lists (it is the real one in the harness). *)
From Coq Require Import List ZArith Bool String Ascii.
From V Require Import Gen.Params Lib.Hex H3Headers.Model.
Import ListNotations.
Open Scope bool_scope.
Open Scope Z_scope.

Definition gomap := list (bytes * list bytes).

(** ASCII lower-casing: strings.ToLower / strings.EqualFold on header names (ASCII tokens). *)
Definition eqfold (k : bytes) (s : string) : bool := beq (lower_bytes k) (bs s).

(** strconv.Itoa / FormatInt(_, 10) for n >= 0 *)
Fixpoint itoa_fuel (fuel : nat) (n : Z) : bytes :=
  match fuel with
  | O => [48 + n mod 10]
  | S f => if n <? 10 then [48 + n] else itoa_fuel f (n / 10) ++ [48 + n mod 10]
  end.
Definition itoa (n : Z) : bytes := itoa_fuel 20 n.

(** ** The request writer *)

Record wreq := WR {
  wMethod : bytes;      (* req.Method, "" allowed *)
  wScheme : bytes;      (* req.URL.Scheme *)
  wHost : bytes;        (* PunycodeHostPort(req.Host or req.URL.Host) *)
  wHostOK : bool;       (* no punycode error and httpguts.ValidHostHeader *)
  wURI : bytes;         (* req.URL.RequestURI() *)
  wProto : bytes;       (* req.Proto *)
  wHeader : gomap;      (* req.Header *)
  wGzip : bool;         (* addGzipHeader *)
  wCL : Z;              (* actualContentLength(req): -1 unknown *)
  wTrailer : list bytes (* keys of req.Trailer *)
}.

Definition m_connect := hx h3MethodConnect.
Definition is_connect (q : wreq) : bool := beq (wMethod q) m_connect.
(** isExtendedConnectRequest *)
Definition is_ext_connect (q : wreq) : bool :=
  is_connect q && negb (is_empty (wProto q)) && negb (beq (wProto q) (bs "HTTP/1.1")).
Definition sends_path (q : wreq) : bool := negb (is_connect q) || is_ext_connect q.

(** validPseudoPath *)
Definition valid_pseudo_path (v : bytes) : bool :=
  match v with 47 :: _ => true | _ => beq v (bs "*") end.

Fixpoint has_prefix (p s : bytes) : bool :=
  match p, s with
  | [], _ => true
  | a :: p', b :: s' => (a =? b) && has_prefix p' s'
  | _ :: _, [] => false
  end.
Definition trim_prefix (p s : bytes) : bytes := if has_prefix p s then skipn (List.length p) s else s.

(** the :path the writer settles on; None = "invalid request :path" *)
Definition wpath (q : wreq) : option bytes :=
  if valid_pseudo_path (wURI q) then Some (wURI q)
  else let p := trim_prefix (wScheme q ++ bs "://" ++ wHost q) (wURI q) in
       if valid_pseudo_path p then Some p else None.

(** the pass over req.Header before anything is encoded (incl. the repaired TE rule) *)
Definition header_entry_ok (e : bytes * list bytes) : bool :=
  token_ok (fst e) &&
  forallb (fun v => value_ok v && negb (eqfold (fst e) "te" && negb (beq v v_trailers))) (snd e).

(** The writer's acceptance condition: everything encodeHeaders rejects. *)
Definition wreq_ok (q : wreq) : bool :=
  wHostOK q &&
  (if sends_path q then match wpath q with Some _ => true | None => false end else true) &&
  forallb header_entry_ok (wHeader q).

Definition dropped_name (k : bytes) : bool :=
  eqfold k "host" || eqfold k "content-length" ||
  eqfold k "connection" || eqfold k "proxy-connection" || eqfold k "transfer-encoding" ||
  eqfold k "upgrade" || eqfold k "keep-alive".

(** fields emitted for one entry of req.Header (names lower-cased when written) *)
Definition req_entry_fields (e : bytes * list bytes) : list field :=
  let k := fst e in
  if dropped_name k then []
  else if eqfold k "user-agent" then
    match snd e with
    | [] => []
    | v :: _ => if is_empty v then [] else [F (lower_bytes k) v]
    end
  else map (fun v => F (lower_bytes k) v) (snd e).

Definition did_ua (h : gomap) : bool := existsb (fun e => eqfold (fst e) "user-agent") h.

(** shouldSendReqContentLength *)
Definition send_cl (method : bytes) (cl : Z) : bool :=
  if 0 <? cl then true
  else if cl <? 0 then false
  else beq method (bs "POST") || beq method (bs "PUT") || beq method (bs "PATCH").

Definition eff_method (q : wreq) : bytes := if is_empty (wMethod q) then bs "GET" else wMethod q.

(** the "trailer" announcement: ValidTrailerHeader keys joined with ", " *)
Definition trailer_announcement (q : wreq) : bytes := join (bs ", ") (filter valid_trailer (wTrailer q)).

(** The emitted field list in three parts: fixed prefix, the part driven by the iteration of
    req.Header, fixed suffix. *)
Definition req_pre (q : wreq) (path : bytes) : list field :=
  [F (bs ":authority") (wHost q); F (bs ":method") (eff_method q)] ++
  (if sends_path q then [F (bs ":path") path; F (bs ":scheme") (wScheme q)] else []) ++
  (if is_ext_connect q then [F (bs ":protocol") (wProto q)] else []) ++
  (if is_empty (trailer_announcement q) then [] else [F (bs "trailer") (trailer_announcement q)]).
Definition req_mid (q : wreq) : list field := flat_map req_entry_fields (wHeader q).
Definition req_post (q : wreq) : list field :=
  (if send_cl (wMethod q) (wCL q) then [F (bs "content-length") (itoa (wCL q))] else []) ++
  (if wGzip q then [F (bs "accept-encoding") (bs "gzip")] else []) ++
  (if did_ua (wHeader q) then [] else [F (bs "user-agent") (hx h3DefaultUserAgent)]).

Definition emit_request3 (q : wreq) : option (list field * list field * list field) :=
  if wreq_ok q then
    let path := if sends_path q then match wpath q with Some p => p | None => [] end else [] in
    Some (req_pre q path, req_mid q, req_post q)
  else None.

Definition emit_request (q : wreq) : option (list field) :=
  match emit_request3 q with
  | Some (a, b, c) => Some (a ++ b ++ c)
  | None => None
  end.

(** ** Trailers: validTrailerToSend and writeTrailers (shared by both writers) *)

Definition valid_to_send (k : bytes) : bool :=
  valid_trailer k && negb (mem (lower_bytes k) conn_specific) && token_ok (lower_bytes k).

(** values with forbidden bytes are not sent (fixes/C19-write-trailers-sanitises-fields.patch) *)
Definition trailer_entry_fields (e : bytes * list bytes) : list field :=
  if valid_to_send (fst e) then map (fun v => F (lower_bytes (fst e)) v) (filter value_ok (snd e)) else [].

(** None = nothing is written (no sendable trailer has a sendable value) *)
Definition write_trailers (t : gomap) : option (list field) :=
  if existsb (fun e => valid_to_send (fst e) && existsb value_ok (snd e)) t
  then Some (flat_map trailer_entry_fields t)
  else None.

(** ** Receive-side glue for trailers: decodeTrailers (headers.go), fed by a HEADERS frame whose
    payload is the QPACK encoding of [fs] ([enclen] bytes, an oracle: the encoder is outside
    /repo).  Gate on the frame length, read the payload ([truncated]: the stream ends early),
    decode — an EMPTY payload has no field-section prefix, the decoder fails at once — and
    parseTrailers with the same limit.  Result: error class (1 too large, 2 QPACK, 3 other) or map. *)
Definition decode_trailers (maxb enclen : Z) (truncated : bool) (fs : list field) : Z + hmap :=
  if maxb <? enclen then inl 3
  else if truncated then inl 3
  else match fs with
       | [] => inl 2
       | _ => match parseTrailers maxb fs false with
              | inl ETooLarge => inl 1
              | inl EQpack => inl 2
              | inl (EMalformed _) => inl 3
              | inr m => inr m
              end
       end.

(** ** The response writer *)

(** strings.TrimSpace on ASCII input *)
Definition is_space6 (b : Z) : bool := (b =? 32) || ((9 <=? b) && (b <=? 13)).
Fixpoint trim_left6 (s : bytes) : bytes :=
  match s with
  | c :: r => if is_space6 c then trim_left6 r else s
  | [] => []
  end.
Definition trim_space (s : bytes) : bytes := rev (trim_left6 (rev (trim_left6 s))).

Fixpoint get_exact (k : bytes) (h : gomap) : option (list bytes) :=
  match h with
  | [] => None
  | (k', vs) :: r => if beq k k' then Some vs else get_exact k r
  end.

(** trailers declared through the "Trailer" header when the HEADERS frame is written *)
Definition declared_trailers (h : gomap) : list bytes :=
  match get_exact k_trailer h with
  | None => []
  | Some vals =>
    fold_left (fun acc v =>
      fold_left (fun acc' t => let c := canon (trim_space t) in
                               if valid_trailer c then add_key c acc' else acc')
                (split_on 44 v []) acc) vals []
  end.

Definition trailer_prefix := hx h3TrailerPrefix.

Definition rsp_entry_fields (declared : list bytes) (e : bytes * list bytes) : list field :=
  let k := fst e in
  if mem k declared then []
  else if has_prefix trailer_prefix k then []
  else if mem (lower_bytes k) conn_specific then []
  else if negb (token_ok (lower_bytes k)) then []      (* fixes/C19-response-writer-sanitises-fields.patch *)
  else flat_map (fun v => if beq (lower_bytes k) n_te && negb (beq v v_trailers) then []
                          else if negb (value_ok v) then []
                          else if beq (lower_bytes k) n_content_length &&
                                  match parse_uint63 v with None => true | Some _ => false end then []
                          else [F (lower_bytes k) v]) (snd e).

(** "at most one Content-Length": the [sentContentLength] flag of writeHeader's loop, as a pass that
    keeps the first content-length field and drops the later ones *)
Fixpoint keep_first_cl (seen : bool) (l : list field) : list field :=
  match l with
  | [] => []
  | f :: r => if beq (fname f) n_content_length
              then (if seen then keep_first_cl true r else f :: keep_first_cl true r)
              else f :: keep_first_cl seen r
  end.

(** responseWriter.writeHeader(status) on the header map [h] *)
Definition rsp_fields (status : Z) (h : gomap) : list field :=
  F (bs ":status") (itoa status) :: keep_first_cl false (flat_map (rsp_entry_fields (declared_trailers h)) h).

(** responseWriter.writeTrailers: promotion of "Trailer:"-prefixed keys, the trailer map, then
    writeTrailers. [declared] is what writeHeader declared, [h] the header map at that moment. *)
Definition rsp_trailer_map (declared : list bytes) (h : gomap) : gomap :=
  let d := fold_left (fun acc e => if has_prefix trailer_prefix (fst e) && valid_trailer (fst e)
                                   then add_key (fst e) acc else acc) h declared in
  flat_map (fun t => match get_exact t h with
                     | Some vals => [(trim_prefix trailer_prefix t, vals)]
                     | None => []
                     end) d.
Definition rsp_trailers (declared : list bytes) (h : gomap) : option (list field) :=
  write_trailers (rsp_trailer_map declared h).

(** WriteHeader(status >= 200): Date default and removal of a malformed Content-Length *)
Fixpoint del_exact (k : bytes) (h : gomap) : gomap :=
  match h with
  | [] => []
  | (k', vs) :: r => if beq k k' then del_exact k r else (k', vs) :: del_exact k r
  end.
Definition rsp_prepare (date : bytes) (h : gomap) : gomap :=
  let h1 := match get_exact (bs "Date") h with Some _ => h | None => h ++ [(bs "Date", [date])] end in
  match get_exact k_content_length h1 with
  | Some (clen :: _) =>
    if is_empty clen then h1
    else match parse_uint63 clen with Some _ => h1 | None => del_exact k_content_length h1 end
  | _ => h1
  end.
