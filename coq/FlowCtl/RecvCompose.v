(** Composition with C03: the receive-side caller discipline that the FlowCtl theorems
    ([op_ok (SRead i n)]: a read consumes at most what was received) and the RecvModel theorems
    ([rop_ok (ORead n called cls)]: bytes delivered <= received, io.EOF only at the final offset,
    the cancellation error only when the cancellation is effective) ASSUME is what C03's model of
    /repo/receive_stream.go over the frame sorter (coq/RecvStream, tied to the code by C03's
    recvstream unit) GUARANTEES for every Read in every reachable state.

    The two models are separate Gallina mirrors of the same Go fields: C03's [rpos] = readPos,
    [fc_highest] = the stream flow controller's highestReceived, [finalOffset], [fc_final] =
    receivedFinalOffset; RecvModel's [readPos], [highestReceived (sb (fc s))], [finalOffset],
    [finalRecv]. That these name the same code fields is by construction of the two models (each
    is replayed against the code by its own unit); it is not a Coq theorem. *)
From Coq Require Import List ZArith Bool Lia.
From V Require Import Gen.Params FrameSorter.Model FrameSorter.ProofsBase RecvStream.Model RecvStream.Spec RecvStream.ProofsRecv.
Import ListNotations.
Open Scope Z_scope.

Section WithS.
Variable S : Z -> Z.

Lemma crest_nonneg s : RSInv S s -> 0 <= crest s.
Proof.
  intros R. unfold crest. destruct (cur s) as [|x l] eqn:E; [lia|].
  destruct (v_cur S _ R) as [H _]; [rewrite E; discriminate|]. rewrite E in H. lia.
Qed.

(** state level: any state satisfying C03's invariant *)
Theorem read_discipline s n s' d e bug : RSInv S s -> 0 <= n -> Read s n = (s', d, e, bug) ->
  0 <= len d <= n /\ rpos s' = rpos s + len d /\ rpos s' <= fc_highest s' /\
  (e = EEOF -> fc_final s' = true /\ rpos s' = finalOffset s' /\ finalOffset s' = fc_highest s') /\
  (forall c r, e = ECancel c r ->
     cancelledLocally s' = true \/ (cancelledRemotely s' = true /\ reliableSize s' <= rpos s')).
Proof.
  intros R Hn H. destruct (Read_spec S _ _ _ _ _ _ R Hn H) as (_ & R' & _ & Hp & Hl & He).
  pose proof (len_nonneg d). pose proof (crest_nonneg _ R'). pose proof (v_pos S _ R'). pose proof (v_rp_high S _ R').
  repeat split; try lia.
  - apply He; auto.
  - apply He; auto.
  - destruct (He H4) as [Hf _]. pose proof (v_final S _ R') as Hv. rewrite Hf in Hv. exact Hv.
  - intros c r Hc. subst e. eapply recv_cancel_error; eauto.
Qed.

(** run level: every history of C03's receive-stream model *)
Theorem read_discipline_reachable w ops r n s' d e bug : 0 <= w < MaxBC -> Forall rvalid ops ->
  rsrun S (rrun_init w) ops = Some r -> 0 <= n -> Read (rr_st r) n = (s', d, e, bug) ->
  0 <= len d <= n /\ rpos s' = rpos (rr_st r) + len d /\ rpos s' <= fc_highest s' /\
  (e = EEOF -> fc_final s' = true /\ rpos s' = finalOffset s' /\ finalOffset s' = fc_highest s') /\
  (forall c r0, e = ECancel c r0 ->
     cancelledLocally s' = true \/ (cancelledRemotely s' = true /\ reliableSize s' <= rpos s')).
Proof.
  intros Hw Hv Hs Hn HR. destruct (rsrun_RRInv S ops _ _ (RRInv_init S w Hw) Hv Hs) as [R _ _].
  eapply read_discipline; eauto.
Qed.
End WithS.
