(** Correspondence glue for the connglue unit: the op sequence on a real constructed Conn and
    what every op returned / what the framer handed to the packer (harness/drv/connglue.go). *)
From Coq Require Import List ZArith Bool String.
From V Require Import Lib.Corr Lib.Hex.
From V Require Export FlowCtl.Model FlowCtl.ConnGlue.
Import ListNotations.
Open Scope Z_scope.

Inductive case := CG (client : bool) (ops : list cop) (rets : list (list Z)).

Inductive obs := CGObs (rets : list (list Z)).

Definition model_obs (c : case) : obs :=
  match c with CG client ops _ => CGObs (snd (crun (cg_init client) ops)) end.

Fixpoint zl_eqb (a b : list Z) : bool :=
  match a, b with
  | [], [] => true
  | x :: a', y :: b' => (x =? y) && zl_eqb a' b'
  | _, _ => false
  end.

Fixpoint zll_eqb (a b : list (list Z)) : bool :=
  match a, b with
  | [], [] => true
  | x :: a', y :: b' => zl_eqb x y && zll_eqb a' b'
  | _, _ => false
  end.

Definition check_case (c : case) : bool :=
  match c, model_obs c with CG _ _ rets, CGObs rets' => zll_eqb rets rets' end.
