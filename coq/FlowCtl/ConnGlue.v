(** ConnGlue — the connection's glue in front of the send-side flow controllers
    (/repo/connection.go: restoreTransportParameters, handleTransportParameters,
    applyTransportParameters, newFlowController, handleFrame for MAX_DATA / MAX_STREAM_DATA,
    dropEncryptionLevel(0-RTT); streams_map.go: HandleTransportParameters, ResetFor0RTT), with the
    stream and connection controllers of the FlowCtl model and what the framer then hands to the
    packer (send_stream.go popNewOrRetransmittedStreamFrame + framer.go Append, summarised per
    "drain": Append is called until nothing more comes out).

    Not modelled: the framer's round robin. When several streams compete for a connection
    credit that does not cover all of them, who gets it depends on that order; the harness never
    generates such a drain (it raises MAX_DATA first), the model serves the streams in index order. *)
From Coq Require Import ZArith List Bool.
From V Require Import Gen.Params FlowCtl.Model.
Import ListNotations.
Open Scope Z_scope.

(** the peer's transport parameters: initial_max_stream_data_bidi_local / _bidi_remote / _uni,
    initial_max_data *)
Record tparams := mkTP { tp_bl : Z; tp_br : Z; tp_uni : Z; tp_md : Z }.

(** stream ID arithmetic (internal/protocol/stream.go): bit 0 = initiator (0 client, 1 server),
    bit 1 = type (0 bidirectional, 1 unidirectional) *)
Definition id_server_initiated (id : Z) : bool := Z.odd id.
Definition id_uni (id : Z) : bool := Z.odd (id / 2).

Inductive sclass := BidiOurs | UniOurs | BidiPeers | UniPeers.

(** [client]: our perspective *)
Definition class_of (client : bool) (id : Z) : sclass :=
  let ours := negb (Bool.eqb client (id_server_initiated id)) in
  if id_uni id then (if ours then UniOurs else UniPeers)
  else (if ours then BidiOurs else BidiPeers).

(** Conn.newFlowController: the initial send window of a new stream. The parameter names are
    from the point of view of the endpoint that SENT them (RFC 9000, 18.2): a stream we
    initiate is a "remote" stream for the peer. A stream of class [UniPeers] is receive-only; the
    code passes InitialMaxStreamDataUni, which is never used. *)
Definition init_send_window (client : bool) (id : Z) (p : tparams) : Z :=
  match class_of client id with
  | BidiOurs => tp_br p
  | BidiPeers => tp_bl p
  | UniOurs | UniPeers => tp_uni p
  end.

Record cstream := mkCS {
  cs_id : Z;
  cs_fc : base;        (* the stream's flow controller (send side) *)
  cs_pending : Z       (* bytes written by the application and not yet handed to the packer *)
}.

Record cconn := mkCC {
  cc_client : bool;
  cc_pp : option tparams;     (* c.peerParams *)
  cc_applied : bool;          (* the streams map got its limits (restore / apply) and is not in the "reset" state *)
  cc_conn : base;             (* the connection flow controller *)
  cc_streams : list cstream;  (* in the order they were opened *)
  cc_nbidi : Z; cc_nuni : Z; cc_npeer : Z   (* streams opened so far, per class *)
}.

Definition cg_init (client : bool) : cconn := mkCC client None false (new_base 0 0 0) [] 0 0 0.

Inductive cop :=
| KRestore (bl br uni md : Z)        (* restoreTransportParameters (client, 0-RTT) *)
| KParams (bl br uni md : Z)         (* handleTransportParameters *)
| KComplete                          (* client: handleHandshakeComplete -> applyTransportParameters *)
| KReject                            (* dropEncryptionLevel(0-RTT): 0-RTT was rejected *)
| KOpen (kind : Z)                   (* 0 OpenStream, 1 OpenUniStream, 2 the peer opens a bidirectional stream *)
| KWrite (i n : Z)
| KMaxStreamData (i v : Z)           (* handleFrame(MAX_STREAM_DATA) *)
| KMaxData (v : Z)                   (* handleFrame(MAX_DATA) *)
| KDrain.                            (* framer.Append until nothing more comes out *)

Definition upd_send (b : base) (v : Z) : base := fst (b_updateSendWindow b v).

(** streamsMap.HandleTransportParameters: only the streams WE opened are raised *)
Definition raise_outgoing (client : bool) (p : tparams) (s : cstream) : cstream :=
  match class_of client (cs_id s) with
  | BidiOurs => mkCS (cs_id s) (upd_send (cs_fc s) (tp_br p)) (cs_pending s)
  | UniOurs => mkCS (cs_id s) (upd_send (cs_fc s) (tp_uni p)) (cs_pending s)
  | _ => s
  end.

(** restoreTransportParameters / applyTransportParameters, as far as flow control goes *)
Definition apply_params (c : cconn) (p : tparams) : cconn :=
  mkCC (cc_client c) (Some p) true (upd_send (cc_conn c) (tp_md p))
       (map (raise_outgoing (cc_client c) p) (cc_streams c)) (cc_nbidi c) (cc_nuni c) (cc_npeer c).

Definition set_pp (c : cconn) (p : tparams) : cconn :=
  mkCC (cc_client c) (Some p) (cc_applied c) (cc_conn c) (cc_streams c) (cc_nbidi c) (cc_nuni c) (cc_npeer c).

Definition b2z (b : bool) : Z := if b then 1 else 0.

(** the ID the streams map hands out for the n-th stream of a class *)
Definition next_id (client : bool) (kind n : Z) : Z :=
  4 * n + (if kind =? 1 then 2 else 0) +
  (if kind =? 2 then b2z client (* opened by the peer *) else b2z (negb client)).

Definition new_cstream (client : bool) (id : Z) (p : tparams) : cstream :=
  mkCS id (new_base 0 0 (init_send_window client id p)) 0.

Fixpoint updn {A} (l : list A) (i : nat) (f : A -> A) : list A :=
  match l, i with
  | [], _ => []
  | x :: r, O => f x :: r
  | x :: r, S j => x :: updn r j f
  end.

(** one stream's share of a drain: (stream, connection, end offset or -1, STREAM_DATA_BLOCKED value or -1) *)
Definition drain_stream (s : cstream) (conn : base) : cstream * base * Z * Z :=
  let win := Z.min (b_sendWindowSize (cs_fc s)) (b_sendWindowSize conn) in
  let n := Z.min (cs_pending s) win in
  if n <=? 0 then (s, conn, -1, -1)
  else
    let fc1 := b_addBytesSent (cs_fc s) n in
    let conn1 := b_addBytesSent conn n in
    (* the last piece used up the stream's window: popNewOrRetransmittedStreamFrame asks IsNewlyBlocked *)
    let '(fc2, blk) := if b_sendWindowSize fc1 =? 0
                       then (let '(f, (b, v)) := b_isNewlyBlocked fc1 in (f, if b then v else -1))
                       else (fc1, -1) in
    (mkCS (cs_id s) fc2 (cs_pending s - n), conn1, bytesSent fc2, blk).

Fixpoint drain_all (l : list cstream) (conn : base) (i : Z) : list cstream * base * list Z * list Z :=
  match l with
  | [] => ([], conn, [], [])
  | s :: r =>
    let '(s1, c1, e, blk) := drain_stream s conn in
    let '(r1, c2, es, bs) := drain_all r c1 (i + 1) in
    (s1 :: r1, c2, e :: es, if blk =? -1 then bs else i :: blk :: bs)
  end.

Definition cret := list Z.

Definition cstep (c : cconn) (o : cop) : cconn * cret :=
  match o with
  | KRestore bl br uni md => (apply_params c (mkTP bl br uni md), [0])
  | KParams bl br uni md =>
      let p := mkTP bl br uni md in
      (* the client has to wait for the end of the handshake before it applies them *)
      (if cc_client c then set_pp c p else apply_params c p, [0])
  | KComplete =>
      match cc_pp c with
      | Some p => (if cc_client c then apply_params c p else c, [0])
      | None => (c, [1])
      end
  | KReject =>
      let '(conn1, err) := c_reset (cc_conn c) in
      (* a failing Reset (stream data was read during 0-RTT) closes the connection *)
      if err then (c, [1]) else (mkCC (cc_client c) (cc_pp c) false conn1 [] 0 0 0, [0])
  | KOpen kind =>
      match cc_pp c with
      | None => (c, [0; -1])
      | Some p =>
        if (kind =? 2) || cc_applied c then
          let n := if kind =? 0 then cc_nbidi c else if kind =? 1 then cc_nuni c else cc_npeer c in
          let id := next_id (cc_client c) kind n in
          (mkCC (cc_client c) (cc_pp c) (cc_applied c) (cc_conn c)
                (cc_streams c ++ [new_cstream (cc_client c) id p])
                (if kind =? 0 then cc_nbidi c + 1 else cc_nbidi c)
                (if kind =? 1 then cc_nuni c + 1 else cc_nuni c)
                (if kind =? 2 then cc_npeer c + 1 else cc_npeer c),
           [1; id])
        else (c, [0; -1])
      end
  | KWrite i n =>
      (mkCC (cc_client c) (cc_pp c) (cc_applied c) (cc_conn c)
            (updn (cc_streams c) (Z.to_nat i) (fun s => mkCS (cs_id s) (cs_fc s) (cs_pending s + n)))
            (cc_nbidi c) (cc_nuni c) (cc_npeer c), [n])
  | KMaxStreamData i v =>
      (mkCC (cc_client c) (cc_pp c) (cc_applied c) (cc_conn c)
            (updn (cc_streams c) (Z.to_nat i) (fun s => mkCS (cs_id s) (upd_send (cs_fc s) v) (cs_pending s)))
            (cc_nbidi c) (cc_nuni c) (cc_npeer c), [0])
  | KMaxData v =>
      (mkCC (cc_client c) (cc_pp c) (cc_applied c) (upd_send (cc_conn c) v) (cc_streams c)
            (cc_nbidi c) (cc_nuni c) (cc_npeer c), [0])
  | KDrain =>
      let '(l1, conn1, ends, blks) := drain_all (cc_streams c) (cc_conn c) 0 in
      (* framer.Append: connFlowController.IsNewlyBlocked() *)
      let '(conn2, (b, v)) := b_isNewlyBlocked conn1 in
      (mkCC (cc_client c) (cc_pp c) (cc_applied c) conn2 l1 (cc_nbidi c) (cc_nuni c) (cc_npeer c),
       (Z.of_nat (length ends) :: ends) ++ (Z.of_nat (length blks) / 2 :: blks) ++ (if b then [1; v] else [0]))
  end.

Fixpoint crun (c : cconn) (ops : list cop) : cconn * list cret :=
  match ops with
  | [] => (c, [])
  | o :: r => let '(c1, x) := cstep c o in let '(c2, xs) := crun c1 r in (c2, x :: xs)
  end.
