(** SendGlue — proofs: what one step of a send stream does to the flow-control counters,
    then the invariants of the k-stream system. *)
From Coq Require Import List ZArith Bool Lia ZifyBool.
From V Require Import Gen.Params Lib.Hex Wire.Varint FlowCtl.Model FlowCtl.ProofsBase
  SendStream.Model SendStream.ProofsBase SendStream.ProofsInv SendStream.ProofsOut SendStream.ProofsCov FlowCtl.SendGlue.
Import ListNotations.
Open Scope Z_scope.

Ltac fbrk :=
  repeat match goal with
  | H : context [if ?b then _ else _] |- _ => destruct b eqn:?
  | |- context [if ?b then _ else _] => destruct b eqn:?
  end.

(* robust against upstream changes of the guards of an op: split every if/match in the goal *)
Ltac ifs := repeat match goal with
  | |- context [if ?b then _ else _] => destruct b
  | |- context [match ?x with _ => _ end] => destruct x
  end; cbn [fst snd].

(** ** The flow-controller code inlined in the C01 model is the FlowCtl model *)
Lemma fc_refines s :
  fcSendWindow s = b_sendWindowSize (fc_base s) /\
  (forall lb, ccSendWindow s = b_sendWindowSize (cc_base s lb)) /\
  (forall lb, sendWindowSize s = Z.min (b_sendWindowSize (fc_base s)) (b_sendWindowSize (cc_base s lb))) /\
  fc_base (fst (isNewlyBlocked s)) = fst (b_isNewlyBlocked (fc_base s)) /\
  snd (isNewlyBlocked s) = fst (snd (b_isNewlyBlocked (fc_base s))) /\
  (forall n, fc_base (addBytesSent n s) = b_addBytesSent (fc_base s) n) /\
  (forall n lb, cc_base (addBytesSent n s) lb = b_addBytesSent (cc_base s lb) n) /\
  (forall l, fc_base (fst (do_win l s)) = fst (b_updateSendWindow (fc_base s) l)).
Proof.
  unfold fcSendWindow, ccSendWindow, sendWindowSize, b_sendWindowSize, isNewlyBlocked, b_isNewlyBlocked,
    fc_base, cc_base, addBytesSent, b_addBytesSent, do_win, b_updateSendWindow, b_sendWindowSize,
    fcSendWindow.
  repeat split; intros; cbn; ssimp; auto; fbrk; cbn; ssimp; try reflexivity; try lia.
Qed.

(** ** One step of one stream: the counters *)

Definition view (s : state) : Z * Z * Z * Z * Z * Z :=
  (fcSent s, fcWindow s, fcLastBlocked s, ccSent s, ccWindow s, writeOffset s).

Lemma nc_view s : view (fst (newly_completed s)) = view s /\
  retransQ (fst (newly_completed s)) = retransQ s /\ outstanding (fst (newly_completed s)) = outstanding s /\
  emittedNew (fst (newly_completed s)) = emittedNew s.
Proof.
  unfold newly_completed. repeat match goal with |- context [if ?b then _ else _] => destruct b end; auto.
Qed.

Ltac ncv :=
  match goal with |- context [newly_completed ?x] =>
    let N := fresh "N" in pose proof (nc_view x) as N; destruct (newly_completed x); cbn [fst snd] in * end.

(** what a step can do to the counters: nothing, raise a window, or admit [d] new bytes *)
Inductive vstep (op0 : op) (s s' : state) (x : out) : Prop :=
| vs_same : view s' = view s -> o_blocked x = None -> emittedNew s' = emittedNew s -> vstep op0 s s' x
| vs_win l : op0 = OWin l -> l > fcWindow s -> fcWindow s' = Z.max (fcWindow s) l -> fcSent s' = fcSent s -> fcLastBlocked s' = fcLastBlocked s ->
    ccSent s' = ccSent s -> ccWindow s' = ccWindow s -> writeOffset s' = writeOffset s ->
    o_blocked x = None -> emittedNew s' = emittedNew s -> vstep op0 s s' x
| vs_cwin l : op0 = OConnWin l -> l > ccWindow s -> ccWindow s' = Z.max (ccWindow s) l -> fcSent s' = fcSent s -> fcLastBlocked s' = fcLastBlocked s ->
    ccSent s' = ccSent s -> fcWindow s' = fcWindow s -> writeOffset s' = writeOffset s ->
    o_blocked x = None -> emittedNew s' = emittedNew s -> vstep op0 s s' x
| vs_new f : (* a first transmission of [d] bytes, admitted by both windows *)
    let d := zlen (f_data f) in
    0 <= d <= sendWindowSize s ->
    fcSent s' = fcSent s + d -> ccSent s' = ccSent s + d -> writeOffset s' = writeOffset s + d ->
    fcWindow s' = fcWindow s -> ccWindow s' = ccWindow s ->
    emittedNew s' = emittedNew s ++ [f] -> o_frame x = Some f ->
    ((o_blocked x = None /\ fcLastBlocked s' = fcLastBlocked s) \/
     (o_blocked x = Some (writeOffset s') /\ fcLastBlocked s' = fcWindow s /\
      fcWindow s <> fcLastBlocked s /\ (fcSent s' >= fcWindow s))) ->
    vstep op0 s s' x.

Lemma vstep_same_nc op0 s x s1 c :
  newly_completed x = (s1, c) -> view x = view s -> emittedNew x = emittedNew s ->
  forall o, o_blocked o = None -> vstep op0 s s1 o.
Proof.
  intros E Hv He o Ho. pose proof (nc_view x) as (N1 & _ & _ & N4). rewrite E in *. cbn [fst] in *.
  apply vs_same; congruence.
Qed.

Ltac same := apply vs_same; reflexivity.

Lemma dec_vstep op0 s s0 : view s0 = view s -> emittedNew s0 = emittedNew s ->
  vstep op0 s (fst (dec_outstanding_then_complete s0)) (snd (dec_outstanding_then_complete s0)).
Proof.
  intros Hv He. unfold dec_outstanding_then_complete. destruct (_ <? 0).
  - apply vs_same; auto.
  - destruct (newly_completed _) as [s1 c] eqn:E. cbn [fst snd].
    eapply vstep_same_nc; [exact E| | |reflexivity]; auto.
Qed.

Lemma write_iter_vstep op0 b s0 s : view s0 = view s -> emittedNew s0 = emittedNew s ->
  vstep op0 s (fst (write_iter b s0)) (snd (write_iter b s0)).
Proof.
  intros Hv He. unfold write_iter.
  destruct (_ && _); [apply vs_same; auto|]. destruct (_ || _); [|apply vs_same; auto].
  destruct (_ =? _); [apply vs_same; auto|]. destruct (shutdown s0); [apply vs_same; auto|].
  destruct (resetErr s0) as [[c r]|]; [|apply vs_same; auto].
  destruct (newly_completed _) as [s1 c1] eqn:E. cbn [fst snd].
  eapply vstep_same_nc; [exact E| | |reflexivity]; auto.
Qed.

Lemma popNew_view mb mdl s s1 fo more :
  popNewStreamFrame mb mdl s = (s1, fo, more) ->
  view s1 = view s /\ emittedNew s1 = emittedNew s /\ finishedWriting s1 = finishedWriting s /\
  match fo with Some f0 => 0 < mdl -> zlen (f_data f0) <= mdl | None => True end.
Proof.
  unfold popNewStreamFrame. pose proof (mdl_nonneg (sid s) (writeOffset s) mb) as Hnn.
  destruct (nextFrame s) as [[o d]|].
  - pose proof (mdl_nonneg (sid s) o mb) as Hno.
    destruct (Z.eqb_spec (Z.min mdl (max_data_len (sid s) o mb)) 0); [intros HH; inversion HH; subst; auto|].
    destruct (Z.gtb_spec (zlen d) (Z.min mdl (max_data_len (sid s) o mb))); intros HH; inversion HH; subst; cbn;
      repeat split; auto; intros.
    + rewrite zlen_zfirstn by (pose proof (zlen_nonneg d); lia). lia.
    + lia.
  - destruct (Z.eqb_spec (max_data_len (sid s) (writeOffset s) mb) 0); [intros HH; inversion HH; subst; auto|].
    destruct (_ >? ssMaxPacketBufferSize); [intros HH; inversion HH; subst; cbn; auto|].
    pose proof (getData_spec (Z.min (max_data_len (sid s) (writeOffset s) mb) mdl) s) as G.
    unfold getDataForWriting in *.
    destruct (Z.leb_spec (zlen (dataForWriting s)) (Z.min (max_data_len (sid s) (writeOffset s) mb) mdl)).
    + destruct (isNil (dataForWriting s)) eqn:En; intros HH; inversion HH; subst; cbn; repeat split; auto.
      intros. lia.
    + destruct (canBuffer _); destruct (isNil _) eqn:En; intros HH; inversion HH; subst; cbn; repeat split; auto;
        intros; destruct G as (_ & _ & _ & _ & G5 & _); specialize (G5 ltac:(lia)); cbn in G5; lia.
Qed.

Lemma finish_new_vstep op0 s mdl r more s1 f0 :
  view s1 = view s -> emittedNew s1 = emittedNew s ->
  0 <= zlen (f_data f0) <= mdl -> mdl <= sendWindowSize s ->
  vstep op0 s (fst (finish_new mdl r more s1 f0)) (snd (finish_new mdl r more s1 f0)).
Proof.
  intros Hv He Hd Hm. unfold view in Hv. inversion Hv as [[V1 V2 V3 V4 V5 V6]].
  unfold finish_new. set (dl := zlen (f_data f0)) in *.
  set (s2 := if 0 <? dl then _ else s1).
  assert (E2 : fcSent s2 = fcSent s + dl /\ ccSent s2 = ccSent s + dl /\ writeOffset s2 = writeOffset s + dl /\
               fcWindow s2 = fcWindow s /\ ccWindow s2 = ccWindow s /\ fcLastBlocked s2 = fcLastBlocked s /\
               emittedNew s2 = emittedNew s).
  { subst s2. destruct (Z.ltb_spec 0 dl); unfold addBytesSent; ssimp; repeat split; auto; lia. }
  clearbody s2. destruct E2 as (B1 & B2 & B3 & B4 & B5 & B6 & B7).
  destruct (dl =? mdl).
  - unfold isNewlyBlocked, fcSendWindow.
    destruct (negb _ || _) eqn:Eb; cbn [fst snd].
    + match goal with |- context [if ?b then set_finSent true s2 else s2] => destruct b end;
        (eapply (vs_new _ _ _ _ (mkF (f_off f0) (f_data f0) _)); unfold emit; ssimp; cbn [f_data]; auto; try lia;
         try (rewrite B7; reflexivity); try reflexivity; left; auto).
    + match goal with |- context [if ?b then set_finSent true ?y else ?y] => destruct b end;
        (eapply (vs_new _ _ _ _ (mkF (f_off f0) (f_data f0) _)); unfold emit; ssimp; cbn [f_data]; auto; try lia;
         try (rewrite B7; reflexivity); try reflexivity;
         right; rewrite ?B3, ?B4, ?B6, ?B1 in *; repeat split; auto; subst dl; fbrk; lia).
  - match goal with |- context [if ?b then set_finSent true s2 else s2] => destruct b end;
      (eapply (vs_new _ _ _ _ (mkF (f_off f0) (f_data f0) _)); unfold emit; ssimp; cbn [f_data]; auto; try lia;
       try (rewrite B7; reflexivity); try reflexivity; left; auto).
Qed.

Lemma emit_false_view f s : view (emit false f s) = view s /\ emittedNew (emit false f s) = emittedNew s.
Proof. unfold emit. ssimp. auto. Qed.

Lemma do_pop_vstep op0 mb s : vstep op0 s (fst (do_pop mb s)) (snd (do_pop mb s)).
Proof.
  unfold do_pop. destruct (shutdown s); [apply vs_same; auto|].
  destruct (isSome (resetErr s) && _) eqn:G; [apply vs_same; auto|].
  destruct (retransQ s) as [|f q].
  - destruct (isNil (dataForWriting s) && negb (isSome (nextFrame s))).
    + destruct (finishedWriting s && negb (finSent s)); [|apply vs_same; auto].
      (* the empty FIN frame: a first transmission of 0 bytes *)
      cbn [fst snd]. pose proof (sendWindowSize_nonneg s).
      eapply (vs_new _ _ _ _ (mkF (writeOffset s) [] true)); unfold emit; ssimp; cbn [f_data]; auto;
        try (unfold zlen; cbn; lia); try reflexivity; try (left; auto).
    + pose proof (sendWindowSize_nonneg s) as Hnn.
      destruct (Z.eqb_spec (sendWindowSize s) 0); [apply vs_same; auto|].
      set (mdl := if _ && _ then _ else _).
      assert (Hm : 0 < mdl <= sendWindowSize s).
      { subst mdl. cbn [isNil] in G. destruct (isSome (resetErr s)); cbn in *; [|lia].
        destruct (Z.ltb_spec 0 (ro s)); cbn; lia. }
      destruct (popNewStreamFrame mb mdl s) as [[s1 fo] more] eqn:E.
      destruct (popNew_view _ _ _ _ _ _ E) as (Hv & He & _ & Hlen).
      destruct fo as [f0|]; [|cbn [fst snd]; apply vs_same; auto].
      apply finish_new_vstep; auto; try lia. pose proof (zlen_nonneg (f_data f0)). split; [lia|apply Hlen; lia].
  - destruct (maybe_split (sid s) f mb) as [[[new rest]|]|]; cbn [fst snd].
    + destruct (emit_false_view new (set_retransQ (rest :: q) s)). apply vs_same; auto.
    + apply vs_same; auto.
    + destruct (emit_false_view f (set_retransQ q s)). apply vs_same; auto.
Qed.

Lemma step_vstep s o : vstep o s (fst (SendStream.Model.step s o)) (snd (SendStream.Model.step s o)).
Proof.
  unfold SendStream.Model.step. destruct (panicked s); [apply vs_same; auto|].
  destruct o.
  - (* Write *) unfold do_write. destruct (writing s); [apply vs_same; auto|].
    destruct (resetErr s) as [[c r]|].
    + destruct (newly_completed _) as [s1 c1] eqn:E. cbn [fst snd].
      eapply vstep_same_nc; [exact E| | |reflexivity]; auto.
    + destruct (shutdown s); [apply vs_same; auto|]. destruct (finishedWriting s); [apply vs_same; auto|].
      destruct (isNil p); [apply vs_same; auto|]. apply write_iter_vstep; auto.
  - unfold do_resume. destruct (_ && _); [|apply vs_same; auto]. apply write_iter_vstep; auto.
  - (* Close *) unfold do_close. destruct (_ || _); [apply vs_same; auto|].
    destruct (newly_completed _) as [s1 c1] eqn:E.
    destruct (isSome (resetErr s)); cbn [fst snd];
      (eapply vstep_same_nc; [exact E| | |reflexivity]; auto).
  - apply do_pop_vstep.
  - (* OnAcked *) unfold do_acked. destruct (nth_error _ _); [|apply vs_same; auto].
    destruct (_ && _); [apply vs_same; auto|]. apply dec_vstep; auto.
  - (* OnLost *) unfold do_lost. destruct (nth_error _ _); [|apply vs_same; auto].
    destruct (_ && _); [apply vs_same; auto|]. destruct (_ <? 0); [apply vs_same; auto|].
    destruct (_ && _).
    + destruct (newly_completed _) as [s1 c1] eqn:E. cbn [fst snd].
      eapply vstep_same_nc; [exact E| | |reflexivity]; auto.
    + apply vs_same; auto.
  - (* CancelWrite *) unfold do_cancel. destruct (shutdown s); [apply vs_same; auto|].
    destruct (isSome (resetErr (set_cancellationFlagged true s))).
    + destruct (newly_completed _) as [s1 c1] eqn:E. cbn [fst snd].
      eapply vstep_same_nc; [exact E| | |reflexivity]; auto.
    + cbn [fst snd]. apply vs_same; auto;
        repeat match goal with |- context [if ?b then _ else _] => destruct b end; reflexivity.
  - (* STOP_SENDING *) unfold do_stop. destruct (shutdown s); [apply vs_same; auto|].
    destruct (_ && _); [apply vs_same; auto|].
    cbn [fst snd]. apply vs_same; auto;
      repeat match goal with |- context [match ?b with _ => _ end] => destruct b end; reflexivity.
  - unfold do_ctrl. ifs; apply vs_same; auto.
  - unfold do_racked. destruct (nth_error _ _); [|apply vs_same; auto].
    destruct (negb _); [apply vs_same; auto|]. apply dec_vstep; auto.
  - unfold do_rlost. ifs; apply vs_same; auto.
  - (* MAX_STREAM_DATA *) unfold do_win. destruct (Z.gtb_spec limit (fcWindow s)); cbn [fst snd].
    + apply (vs_win _ _ _ _ limit); ssimp; auto; lia.
    + apply vs_same; auto.
  - (* MAX_DATA seen through this stream *) unfold do_cwin. destruct (Z.gtb_spec limit (ccWindow s)); cbn [fst snd].
    + apply (vs_cwin _ _ _ _ limit); ssimp; auto; lia.
    + apply vs_same; auto.
  - unfold do_rel. ifs; apply vs_same; auto.
  - (* enableResetStreamAt: touches no counter, whatever its guards *)
    unfold do_enable. ifs; apply vs_same; auto.
  - unfold do_shutdown. ifs; apply vs_same; auto.
Qed.

(** ** Every frame ever handed to the wire — first transmission, retransmission, split or
    truncated piece — lies below the write offset, i.e. inside the credit already counted:
    retransmissions add nothing. *)
Definition below (w : Z) (f : frame) : Prop := f_end f <= w.

Definition FR (s : state) : Prop :=
  Forall (below (writeOffset s)) (retransQ s) /\ Forall (below (writeOffset s)) (outstanding s) /\
  Forall (below (writeOffset s)) (emitted s).

Lemma below_mono w w' f : w <= w' -> below w f -> below w' f.
Proof. unfold below. lia. Qed.

Definition trip (s : state) := (retransQ s, outstanding s, emitted s, writeOffset s).

Lemma FR_trip s s' : trip s' = trip s -> FR s -> FR s'.
Proof.
  unfold trip, FR. intros E. inversion E as [[E1 E2 E3 E4]]. rewrite E1, E2, E3, E4. auto.
Qed.

Lemma core_trip s s' : core s' = core s -> trip s' = trip s.
Proof.
  unfold core, trip. intros E. inversion E as [[E1 E2 E3 E4 E5 E6 E7 E8 E9 E10 E11 E12 E13]]. congruence.
Qed.

Lemma below_trunc w f n b : below w f -> below w (mkF (f_off f) (zfirstn n (f_data f)) b).
Proof. unfold below, f_end. cbn. pose proof (zlen_zfirstn_le n (f_data f)). lia. Qed.

Lemma trunc_queue_below w r q : Forall (below w) q -> Forall (below w) (trunc_queue r q).
Proof.
  induction 1; cbn; auto. destruct (_ >=? r); auto. destruct (_ <=? r); cbn.
  - constructor; auto.
  - constructor; auto. apply below_trunc; auto.
Qed.

Lemma FR_lists s s' :
  writeOffset s <= writeOffset s' ->
  Forall (below (writeOffset s')) (retransQ s') -> Forall (below (writeOffset s')) (outstanding s') ->
  Forall (below (writeOffset s')) (emitted s') -> FR s'.
Proof. unfold FR. auto. Qed.

Ltac frsame := (eapply FR_trip; [|eassumption]; unfold trip; ssimp; reflexivity).

Lemma write_iter_FR b s : FR s -> FR (fst (write_iter b s)).
Proof.
  intros H. unfold write_iter.
  destruct (_ && _); [frsame|]. destruct (_ || _); [|exact H].
  destruct (_ =? _); [frsame|]. destruct (shutdown s); [frsame|].
  destruct (resetErr s) as [[c r]|]; [|frsame].
  match goal with |- context [newly_completed ?x] => pose proof (core_trip _ _ (newly_completed_core x)) as N; destruct (newly_completed x) end.
  cbn [fst] in *. eapply FR_trip; [|exact H]. rewrite N. unfold trip. ssimp. reflexivity.
Qed.

Lemma dec_FR s0 s : trip s0 = trip s -> FR s -> FR (fst (dec_outstanding_then_complete s0)).
Proof. intros E H. eapply FR_trip; [|exact H]. rewrite (core_trip _ _ (dec_core s0)). exact E. Qed.

Lemma nc_FR s0 s : trip s0 = trip s -> FR s -> FR (fst (newly_completed s0)).
Proof. intros E H. eapply FR_trip; [|exact H]. rewrite (core_trip _ _ (newly_completed_core s0)). exact E. Qed.

Lemma do_pop_FR mb s : Inv s -> FR s -> FR (fst (do_pop mb s)).
Proof.
  intros HI H. pose proof H as (Hq & Ho & He).
  unfold do_pop. destruct (shutdown s); [exact H|].
  destruct (isSome (resetErr s) && _) eqn:G; [exact H|].
  destruct (retransQ s) as [|f q] eqn:Eq.
  - destruct (isNil (dataForWriting s) && negb (isSome (nextFrame s))).
    + destruct (finishedWriting s && negb (finSent s)); [|exact H].
      cbn [fst]. unfold emit. apply (FR_lists s); ssimp; try lia; rewrite ?Eq; auto.
      * apply Forall_app; split; auto. constructor; [|constructor]. unfold below, f_end. cbn. unfold zlen; cbn; lia.
      * apply Forall_app; split; auto. constructor; [|constructor]. unfold below, f_end. cbn. unfold zlen; cbn; lia.
    + destruct (Z.eqb_spec (sendWindowSize s) 0); [exact H|].
      set (mdl := if _ && _ then _ else _).
      pose proof (sendWindowSize_nonneg s) as Hnn.
      assert (Hm : 0 < mdl).
      { subst mdl. cbn [isNil] in G. destruct (isSome (resetErr s)); cbn in *; [|lia].
        destruct (Z.ltb_spec 0 (ro s)); cbn; lia. }
      pose proof (popNew_spec mb mdl s (i_nfoff _ HI) (i_nflen _ HI) Hm) as PS.
      destruct (popNewStreamFrame mb mdl s) as [[s1 fo] more].
      destruct PS as (SR & PS). unfold same_rest in SR.
      destruct SR as (S1 & S2 & S3 & S4 & S5 & S6 & _).
      destruct fo as [f0|].
      * destruct PS as (_ & Hoff & _ & _ & _ & _).
        pose proof (finish_new_fields mdl (ro s) more s1 f0) as FF. cbn zeta in FF.
        destruct FF as (fin & FF). destruct FF as (F1 & _ & _ & _ & F5 & F6 & F7 & _).
        pose proof (zlen_nonneg (f_data f0)) as Hz.
        apply (FR_lists s); rewrite ?F1, ?F5, ?F6, ?F7, ?S1, ?S3, ?S4, ?S5; try lia.
        -- rewrite Eq. constructor.
        -- apply Forall_app; split.
           ++ eapply Forall_impl; [|exact Ho]. intros a Ha. eapply below_mono; [|exact Ha]. lia.
           ++ constructor; [|constructor]. unfold below, f_end. cbn. lia.
        -- apply Forall_app; split.
           ++ eapply Forall_impl; [|exact He]. intros a Ha. eapply below_mono; [|exact Ha]. lia.
           ++ constructor; [|constructor]. unfold below, f_end. cbn. lia.
      * cbn [fst]. eapply FR_trip; [|exact H]. unfold trip. rewrite S1, S3, S4, S5. reflexivity.
  - inversion Hq as [|? ? Hf Hq']; subst.
    assert (Hlen : zlen (f_data f) <= 16383).
    { pose proof (i_q _ HI) as HG. rewrite Eq in HG. inversion HG as [|? ? HGf _]; subst.
      destruct HGf as [_ HGl]. pose proof ss_bufsize_small. lia. }
    destruct (maybe_split (sid s) f mb) as [[[new rest]|]|] eqn:Es; cbn [fst].
    + destruct (split_preserves_range _ _ _ _ _ Hlen Es) as (R1 & R2 & R3 & _).
      unfold emit. apply (FR_lists s); ssimp; try lia.
      * constructor; auto. unfold below in *. lia.
      * apply Forall_app; split; auto. constructor; [|constructor]. unfold below in *.
        pose proof (zlen_nonneg (f_data rest)). unfold f_end in *. lia.
      * apply Forall_app; split; auto. constructor; [|constructor]. unfold below in *.
        pose proof (zlen_nonneg (f_data rest)). unfold f_end in *. lia.
    + exact H.
    + unfold emit. apply (FR_lists s); ssimp; try lia; auto.
      * apply Forall_app; split; auto.
      * apply Forall_app; split; auto.
Qed.

Lemma step_FR s o : Inv s -> FR s -> FR (fst (SendStream.Model.step s o)).
Proof.
  intros HI H. pose proof H as (Hq & Ho & He).
  unfold SendStream.Model.step. destruct (panicked s); [exact H|].
  destruct o.
  - unfold do_write. destruct (writing s); [exact H|].
    destruct (resetErr s) as [[c r]|].
    + match goal with |- context [newly_completed ?x] => pose proof (nc_FR x s) as N; destruct (newly_completed x) end.
      cbn [fst] in *. apply N; auto.
    + destruct (shutdown s); [exact H|]. destruct (finishedWriting s); [exact H|].
      destruct (isNil p); [exact H|]. apply write_iter_FR. frsame.
  - unfold do_resume. destruct (_ && _); [|exact H]. apply write_iter_FR. frsame.
  - unfold do_close. destruct (_ || _); [exact H|].
    match goal with |- context [newly_completed ?x] => pose proof (nc_FR x s) as N; destruct (newly_completed x) end.
    cbn [fst] in *. destruct (isSome (resetErr s)); cbn [fst]; apply N; auto; destruct (isSome _); reflexivity.
  - apply do_pop_FR; auto.
  - unfold do_acked. destruct (nth_error _ _); [|exact H].
    assert (H0 : FR (set_acked (acked s ++ [f]) (set_outstanding (remove_nth i (outstanding s)) s))).
    { apply (FR_lists s); ssimp; try lia; auto. apply Forall_remove_nth; auto. }
    destruct (_ && _); [exact H0|]. apply (dec_FR _ _ eq_refl H0).
  - unfold do_lost. destruct (nth_error (outstanding s) i) eqn:En; [|exact H].
    pose proof (nth_error_Forall _ _ _ _ Ho En) as Hf.
    assert (H0 : FR (set_outstanding (remove_nth i (outstanding s)) s)).
    { apply (FR_lists s); ssimp; try lia; auto. apply Forall_remove_nth; auto. }
    destruct (_ && _); [exact H0|]. destruct (_ <? 0); [frsame|].
    destruct (_ && _).
    + match goal with |- context [newly_completed ?x] => pose proof (nc_FR x _ eq_refl) as N; destruct (newly_completed x) end.
      cbn [fst] in *. apply N. frsame.
    + cbn [fst]. destruct H0 as (Hq0 & Ho0 & He0). apply (FR_lists s); ssimp; try lia; auto.
      apply Forall_app; split; auto. constructor; [|constructor].
      destruct (_ && _); auto. apply below_trunc; auto.
  - unfold do_cancel. destruct (shutdown s); [exact H|].
    destruct (isSome (resetErr (set_cancellationFlagged true s))).
    + match goal with |- context [newly_completed ?x] => pose proof (nc_FR x s eq_refl H) as N; destruct (newly_completed x) end.
      exact N.
    + cbn [fst]. apply (FR_lists s); ssimp; try lia;
        repeat match goal with |- context [if ?b then _ else _] => destruct b end; ssimp; auto;
        try apply trunc_queue_below; auto; try lia.
  - unfold do_stop. destruct (shutdown s); [exact H|]. destruct (_ && _); [exact H|].
    cbn [fst]. apply (FR_lists s);
      repeat match goal with |- context [match ?b with _ => _ end] => destruct b end; ssimp; auto; lia.
  - unfold do_ctrl. ifs; first [exact H | frsame].
  - unfold do_racked. destruct (nth_error _ _); [|exact H].
    destruct (negb _); [frsame|]. apply (dec_FR _ s); [reflexivity|exact H].
  - unfold do_rlost. ifs; first [exact H | frsame].
  - unfold do_win. ifs; first [exact H | frsame].
  - unfold do_cwin. ifs; first [exact H | frsame].
  - unfold do_rel. ifs; first [exact H | frsame].
  - unfold do_enable. ifs; first [exact H | frsame].
  - unfold do_shutdown. destruct (_ && _); cbn [fst]; [|frsame].
    apply (FR_lists s); ssimp; auto; lia.
Qed.

(** ** The k-stream system *)

Lemma sumlen_app l1 l2 : sumlen (l1 ++ l2) = sumlen l1 + sumlen l2.
Proof. induction l1; cbn; lia. Qed.

Record SI (s : state) : Prop := mkSI {
  si_sent : fcSent s = writeOffset s;                 (* the stream controller counts exactly the new bytes *)
  si_new : sumlen (emittedNew s) = writeOffset s;     (* = payload of all first transmissions *)
  si_le : 0 <= fcSent s <= fcWindow s;                (* within the largest MAX_STREAM_DATA ever given *)
  si_lb : fcLastBlocked s <= fcWindow s }.

Definition fWO (s : state) : Z := writeOffset s.

Record GI (g : gsys) : Prop := mkGI {
  gi_str : Forall SI (strs g);
  gi_sum : bytesSent (gcn g) = sumf fWO (strs g);     (* the connection controller counts the sum *)
  gi_le : bytesSent (gcn g) <= sendWindow (gcn g);    (* within the largest MAX_DATA ever given *)
  gi_lb : lastBlockedAt (gcn g) <= sendWindow (gcn g);
  gi_sdb : NoDup (sdb g) /\
           forall i v, In (i, v) (sdb g) -> exists s, nth_error (strs g) i = Some s /\ v <= fcLastBlocked s;
  gi_db : NoDup (db g) /\ Forall (fun v => v <= lastBlockedAt (gcn g)) (db g) }.

Lemma SI_inject c s : SI s -> SI (inject c s).
Proof. intros []. constructor; unfold inject; ssimp; auto. Qed.

Lemma Forall_upd {A} (P : A -> Prop) l i x : Forall P l -> P x -> Forall P (upd l i x).
Proof. intros H; revert i; induction H; intros [|i] Hx; cbn; constructor; auto. Qed.

Lemma nth_error_Forall' {A} (P : A -> Prop) i l x : Forall P l -> nth_error l i = Some x -> P x.
Proof. intros H E. rewrite Forall_forall in H. apply H. eapply nth_error_In; eauto. Qed.

Lemma NoDup_app_snoc {A} (l : list A) x : NoDup l -> ~ In x l -> NoDup (l ++ [x]).
Proof.
  induction l as [|a l IH]; intros Hn Hx; cbn.
  - constructor; auto.
  - inversion Hn; subst. constructor.
    + rewrite in_app_iff. intros [H|[H|[]]]; [auto|]. subst. apply Hx. left; reflexivity.
    + apply IH; auto. intros H. apply Hx. right; exact H.
Qed.

Lemma GI_init : GI ginit.
Proof.
  constructor; cbn; try lia; auto.
  - split; [constructor|]. intros i v [].
  - split; constructor.
Qed.

Lemma gstep_GI g o :
  (match o with GNewStream _ _ swin => 0 <= swin | _ => True end) ->
  GI g -> GI (fst (gstep g o)).
Proof.
  intros Hok HG. destruct HG as [Hs Hsum Hle Hlb [Hnd Hsdb] [Hdn Hdb]]. destruct o; cbn [gstep]; cbn in Hok.
  - (* newSendStream *)
    cbn [fst]. constructor; cbn [strs gcn sdb db]; auto.
    + apply Forall_app; split; auto. constructor; [|constructor].
      constructor; unfold init; ssimp; cbn; lia.
    + rewrite sumf_app. cbn [sumf]. change (fWO (init sid0 rsa swin 0)) with 0. lia.
    + split; auto. intros i v Hin. destruct (Hsdb i v Hin) as (s & Hn & Hv). exists s. split; auto.
      rewrite nth_error_app1; auto. apply nth_error_Some. congruence.
  - (* one step of stream i *)
    destruct (nth_error (strs g) i) as [s|] eqn:En; [|cbn; constructor; auto].
    pose proof (nth_error_Forall' _ _ _ _ Hs En) as HSI.
    destruct HSI as [I1 I2 I3 I4].
    set (s0 := inject (gcn g) s).
    assert (J : fcSent s0 = fcSent s /\ fcWindow s0 = fcWindow s /\ fcLastBlocked s0 = fcLastBlocked s /\
                writeOffset s0 = writeOffset s /\ emittedNew s0 = emittedNew s /\
                ccSent s0 = bytesSent (gcn g) /\ ccWindow s0 = sendWindow (gcn g))
      by (subst s0; unfold inject; ssimp; repeat split; reflexivity).
    clearbody s0. destruct J as (J1 & J2 & J3 & J4 & J5 & C1 & C2).
    pose proof (step_vstep s0 o) as V.
    destruct (SendStream.Model.step s0 o) as [s1 x]. cbn [fst snd] in *.
    assert (Hsw : sendWindowSize s0 <= sendWindow (gcn g) - bytesSent (gcn g) /\
                  sendWindowSize s0 <= fcWindow s - fcSent s).
    { unfold sendWindowSize, fcSendWindow, ccSendWindow. rewrite C1, C2, J1, J2. fbrk; lia. }
    (* facts common to all four kinds of step *)
    assert (Key : SI s1 /\ writeOffset s1 - writeOffset s = ccSent s1 - bytesSent (gcn g) /\
                  0 <= ccSent s1 - bytesSent (gcn g) <= sendWindow (gcn g) - bytesSent (gcn g) /\
                  fcLastBlocked s <= fcLastBlocked s1 /\
                  (forall v, o_blocked x = Some v -> fcLastBlocked s < v /\ v = fcLastBlocked s1)).
    { destruct V as [Hv Hb He | l W0 W00 W1 W2 W3 W4 W5 W6 Hb He | l W0 W00 W1 W2 W3 W4 W5 W6 Hb He
                    | f d Hd N1 N2 N3 N4 N5 N6 N7 N8].
      - unfold view in Hv. inversion Hv as [[V1 V2 V3 V4 V5 V6]].
        assert (HS1 : SI s1) by (constructor; rewrite ?He, ?J5; lia).
        split; [exact HS1|]. repeat split; try lia; intros; congruence.
      - assert (HS1 : SI s1) by (constructor; rewrite ?He, ?J5; lia).
        split; [exact HS1|]. repeat split; try lia; intros; congruence.
      - assert (HS1 : SI s1) by (constructor; rewrite ?He, ?J5; lia).
        split; [exact HS1|]. repeat split; try lia; intros; congruence.
      - subst d. assert (HS1 : SI s1).
        { constructor; try lia.
          all: try (rewrite N6, J5, sumlen_app; cbn; lia).
          all: destruct N8 as [(_ & L)|(_ & L & _)]; lia. }
        split; [exact HS1|]. destruct HS1 as [T1 T2 T3 T4].
        repeat split; try lia.
        all: destruct N8 as [(Hb & _)|(Hb & L1 & L2 & L3)]; [congruence|];
          rewrite Hb in H; inversion H; subst v; lia. }
    destruct Key as (K1 & K2 & K3 & K4 & K5).
    constructor; cbn [strs gcn sdb db fst]; cbn [bytesSent sendWindow lastBlockedAt set_bytesSent].
    + apply Forall_upd; auto.
    + rewrite (sumf_upd _ _ _ _ s1 En). unfold fWO at 2 3. lia.
    + lia.
    + exact Hlb.
    + assert (Hold : forall j v, In (j, v) (sdb g) ->
                exists s', nth_error (upd (strs g) i s1) j = Some s' /\ v <= fcLastBlocked s').
      { intros j v Hin. destruct (Hsdb j v Hin) as (s' & Hn & Hv). destruct (Nat.eq_dec i j) as [->|Hne].
        - rewrite En in Hn. inversion Hn; subst s'. exists s1. split; [eapply nth_error_upd_eq; eauto|lia].
        - exists s'. split; auto. rewrite nth_error_upd_ne; auto. }
      destruct (o_blocked x) as [v|] eqn:Eb; [|split; auto].
      destruct (K5 v eq_refl) as (K6 & K7). split.
      * apply NoDup_app_snoc; auto. intros Hin. destruct (Hsdb i v Hin) as (s' & Hn & Hv).
        rewrite En in Hn. inversion Hn; subst s'. lia.
      * intros j w Hin. apply in_app_or in Hin. destruct Hin as [Hin|[Hin|[]]]; auto.
        inversion Hin; subst j w. exists s1. split; [eapply nth_error_upd_eq; eauto|lia].
    + split; auto.
  - (* MAX_DATA *)
    destruct (b_updateSendWindow (gcn g) limit) as [c1 u] eqn:E. apply b_updateSendWindow_spec in E.
    destruct E as (H1 & H2 & H3 & _). cbn [fst]. constructor; cbn [strs gcn sdb db]; auto; try lia.
    split; auto. rewrite H3. auto.
  - (* the framer asks the connection controller *)
    destruct (b_isNewlyBlocked (gcn g)) as [c1 [b off]] eqn:E. apply b_isNewlyBlocked_spec in E.
    destruct E as (H1 & H2 & _ & _ & _ & Hf & Ht). cbn [fst].
    destruct b.
    + destruct (Ht eq_refl) as (Ho & L1 & L2 & L3). constructor; cbn [strs gcn sdb db]; auto; try lia.
      split.
      * apply NoDup_app_snoc; auto. intros Hin. rewrite Forall_forall in Hdb. apply Hdb in Hin. lia.
      * apply Forall_app; split; [|constructor; [lia|constructor]].
        eapply Forall_impl; [|exact Hdb]. cbn. intros; lia.
    + rewrite (Hf eq_refl). constructor; auto.
Qed.

(** the limits the controllers enforce are limits the peer really gave: a window only ever changes
    to the value carried by a MAX_STREAM_DATA / MAX_DATA frame, and only upwards *)
Lemma gstep_limits g o :
  let g' := fst (gstep g o) in
  (sendWindow (gcn g') = sendWindow (gcn g) \/
   exists l, o = GConnWin l /\ sendWindow (gcn g') = l /\ l > sendWindow (gcn g)) /\
  forall i s s', nth_error (strs g) i = Some s -> nth_error (strs g') i = Some s' ->
    fcWindow s' = fcWindow s \/ exists l, o = GStream i (OWin l) /\ fcWindow s' = l /\ l > fcWindow s.
Proof.
  destruct o; cbn [gstep].
  - cbn [fst gcn strs]. split; [left; reflexivity|]. intros i s s' H1 H2.
    rewrite nth_error_app1 in H2 by (apply nth_error_Some; congruence). left; congruence.
  - destruct (nth_error (strs g) i) as [s|] eqn:En.
    2:{ cbn [fst]. split; [left; reflexivity|]. intros j s s' H1 H2. left; congruence. }
    pose proof (step_vstep (inject (gcn g) s) o) as V.
    destruct (SendStream.Model.step (inject (gcn g) s) o) as [s1 x]. cbn [fst snd gcn strs] in *.
    split; [left; reflexivity|]. intros j s2 s' H1 H2.
    destruct (Nat.eq_dec i j) as [->|Hne].
    + rewrite (nth_error_upd_eq _ _ _ _ En) in H2. rewrite En in H1. inversion H1; inversion H2; subst s2 s'.
      assert (J : fcWindow (inject (gcn g) s) = fcWindow s) by (unfold inject; ssimp; reflexivity).
      destruct V as [Hv Hb He | l W0 W00 W1 W2 W3 W4 W5 W6 Hb He | l W0 W00 W1 W2 W3 W4 W5 W6 Hb He
                    | f d Hd N1 N2 N3 N4 N5 N6 N7 N8].
      * unfold view in Hv. inversion Hv. left. congruence.
      * right. exists l. subst o. repeat split; try lia.
      * left. congruence.
      * left. congruence.
    + rewrite nth_error_upd_ne in H2 by auto. left; congruence.
  - destruct (b_updateSendWindow (gcn g) limit) as [c1 u] eqn:E. cbn [fst gcn strs].
    split; [|intros i s s' H1 H2; left; congruence].
    unfold b_updateSendWindow in E. destruct (Z.gtb_spec limit (sendWindow (gcn g))); inversion E; subst.
    + right. exists limit. cbn. repeat split; lia.
    + left; reflexivity.
  - destruct (b_isNewlyBlocked (gcn g)) as [c1 [b off]] eqn:E. apply b_isNewlyBlocked_spec in E.
    destruct E as (_ & H2 & _). cbn [fst gcn strs]. split; [left; exact H2|].
    intros i s s' H1 H3; left; congruence.
Qed.

Definition gop_ok (o : gop) : Prop := match o with GNewStream _ _ swin => 0 <= swin | _ => True end.

Theorem grun_GI ops : Forall gop_ok ops -> GI (grun_state ginit ops).
Proof.
  unfold grun_state. intros H. assert (G : GI ginit) by apply GI_init. revert G. generalize ginit.
  induction H as [|o ops Ho _ IH]; intros g G; cbn; auto.
  apply IH. apply gstep_GI; auto.
Qed.

(** C04 (a), sender side, over all histories of the k-stream system *)
Theorem sender_glue_within_credit ops : Forall gop_ok ops ->
  let g := grun_state ginit ops in
  Forall (fun s => sumlen (emittedNew s) = writeOffset s /\ fcSent s = writeOffset s /\
                   0 <= writeOffset s <= fcWindow s) (strs g) /\
  sumf fWO (strs g) = bytesSent (gcn g) /\ bytesSent (gcn g) <= sendWindow (gcn g).
Proof.
  intros H g. destruct (grun_GI ops H) as [Hs Hsum Hle _ _ _]. fold g in Hs, Hsum, Hle.
  repeat split; auto.
  eapply Forall_impl; [|exact Hs]. intros s []. repeat split; lia.
Qed.

(** C04 (b), sender side: every STREAM_DATA_BLOCKED / DATA_BLOCKED frame is produced at most once *)
Theorem sender_glue_blocked_once ops : Forall gop_ok ops ->
  let g := grun_state ginit ops in NoDup (sdb g) /\ NoDup (db g).
Proof.
  intros H g. destruct (grun_GI ops H) as [_ _ _ _ [H1 _] [H2 _]]. auto.
Qed.

(** a STREAM_DATA_BLOCKED frame carries the stream's current limit and is only produced when that
    limit is used up *)
Theorem sender_glue_blocked_truthful g i o v :
  GI g -> o_blocked (match snd (gstep g (GStream i o)) with Some x => x | None => out0 end) = Some v ->
  exists s', nth_error (strs (fst (gstep g (GStream i o)))) i = Some s' /\
             v = fcWindow s' /\ writeOffset s' = fcWindow s'.
Proof.
  intros HG. pose proof (gstep_GI g (GStream i o) I HG) as HG'. revert HG'. cbn [gstep].
  destruct (nth_error (strs g) i) as [s|] eqn:En; [|cbn; discriminate].
  pose proof (step_vstep (inject (gcn g) s) o) as V.
  destruct (SendStream.Model.step (inject (gcn g) s) o) as [s1 x]. cbn [fst snd strs] in *.
  intros HG' Hb. exists s1. split; [eapply nth_error_upd_eq; eauto|].
  destruct HG' as [Hs _ _ _ _ _]. cbn [strs] in Hs.
  assert (HS1 : SI s1).
  { eapply nth_error_Forall'; [exact Hs|]. eapply nth_error_upd_eq; eauto. }
  destruct HS1 as [T1 T2 T3 T4].
  destruct V as [Hv Hb' He | l W0 W00 W1 W2 W3 W4 W5 W6 Hb' He | l W0 W00 W1 W2 W3 W4 W5 W6 Hb' He
                | f d Hd N1 N2 N3 N4 N5 N6 N7 N8]; try congruence.
  destruct N8 as [(Hb' & _)|(Hb' & L1 & L2 & L3)]; [congruence|].
  rewrite Hb' in Hb. inversion Hb; subst v. lia.
Qed.

(** ** Retransmissions add nothing: every frame ever returned by any popStreamFrame lies below
    the stream's write offset (= the credit already counted) *)
Definition lateF (s : state) : Prop := late s = false.

Lemma Forall_upd_back {A} (P : A -> Prop) l i x y :
  nth_error l i = Some y -> Forall P (upd l i x) -> (P x -> P y) -> Forall P l.
Proof.
  revert i. induction l as [|a l IH]; intros [|i] Hn H Hxy; cbn in *; try discriminate; auto.
  - inversion Hn; subst. inversion H; subst. constructor; auto.
  - inversion H; subst. constructor; eauto.
Qed.

Lemma inject_late c s : late (inject c s) = late s.
Proof. unfold inject. ssimp. reflexivity. Qed.

Lemma gstep_late_back g o : Forall lateF (strs (fst (gstep g o))) -> Forall lateF (strs g).
Proof.
  destruct o; cbn [gstep].
  - cbn. intros H. apply Forall_app in H. tauto.
  - destruct (nth_error (strs g) i) as [s|] eqn:En; [|auto].
    destruct (SendStream.Model.step (inject (gcn g) s) o) as [s1 x] eqn:E. cbn [fst strs].
    intros H. eapply Forall_upd_back; eauto. unfold lateF. intros H1.
    rewrite <- (inject_late (gcn g)). apply (step_late_false _ o). rewrite E. exact H1.
  - auto.
  - destruct (b_isNewlyBlocked (gcn g)) as [c1 [b off]]. auto.
Qed.

Definition G2 (g : gsys) : Prop := Forall (fun s => Inv s /\ FR s) (strs g).

Lemma gstep_G2 g o : G2 g -> Forall lateF (strs (fst (gstep g o))) -> G2 (fst (gstep g o)).
Proof.
  unfold G2. destruct o; cbn [gstep].
  - cbn. intros H _. apply Forall_app; split; auto. constructor; [|constructor].
    split; [apply init_Inv|]. unfold FR, init. ssimp. repeat split; constructor.
  - destruct (nth_error (strs g) i) as [s|] eqn:En; [|auto].
    destruct (SendStream.Model.step (inject (gcn g) s) o) as [s1 x] eqn:E. cbn [fst strs].
    intros H HL. apply Forall_upd; auto.
    destruct (nth_error_Forall' _ _ _ _ H En) as [HI HF].
    assert (HI' : Inv (inject (gcn g) s)) by (eapply Inv_core; [|exact HI]; unfold core, inject; ssimp; reflexivity).
    assert (HF' : FR (inject (gcn g) s)) by (eapply FR_trip; [|exact HF]; unfold trip, inject; ssimp; reflexivity).
    assert (HL1 : late s1 = false).
    { eapply (nth_error_Forall' lateF); [exact HL|]. eapply nth_error_upd_eq; eauto. }
    replace s1 with (fst (SendStream.Model.step (inject (gcn g) s) o)) in * by (rewrite E; reflexivity).
    split; [apply step_Inv; auto | apply step_FR; auto].
  - auto.
  - destruct (b_isNewlyBlocked (gcn g)) as [c1 [b off]]. auto.
Qed.

Lemma grun_snoc g ops o : grun_state g (ops ++ [o]) = fst (gstep (grun_state g ops) o).
Proof. unfold grun_state. rewrite fold_left_app. reflexivity. Qed.

(** the historic ghost flag [late] is never set (C01: step_late_eq), in any stream of any run *)
Lemma gstep_lateF g o : Forall lateF (strs g) -> Forall lateF (strs (fst (gstep g o))).
Proof.
  destruct o; cbn [gstep].
  - cbn. intros H. apply Forall_app; split; auto. constructor; [reflexivity|constructor].
  - destruct (nth_error (strs g) i) as [s|] eqn:En; [|auto].
    destruct (SendStream.Model.step (inject (gcn g) s) o) as [s1 x] eqn:E. cbn [fst strs].
    intros H. apply Forall_upd; auto. unfold lateF.
    replace s1 with (fst (SendStream.Model.step (inject (gcn g) s) o)) by (rewrite E; reflexivity).
    rewrite step_late_eq, inject_late. unfold sets_late. rewrite orb_false_r.
    exact (nth_error_Forall' lateF _ _ _ H En).
  - auto.
  - destruct (b_isNewlyBlocked (gcn g)) as [c1 [b off]]. auto.
Qed.

Lemma grun_lateF ops : Forall lateF (strs (grun_state ginit ops)).
Proof.
  induction ops as [|o ops IH] using rev_ind; [constructor|].
  rewrite grun_snoc. apply gstep_lateF. exact IH.
Qed.

Theorem sender_glue_frames_within_credit ops :
  let g := grun_state ginit ops in
  Forall (fun s => Forall (fun f => f_end f <= writeOffset s) (emitted s)) (strs g).
Proof.
  cbn zeta.
  assert (H2 : G2 (grun_state ginit ops)).
  { induction ops as [|o ops IH] using rev_ind.
    - constructor.
    - rewrite grun_snoc. apply gstep_G2; auto. rewrite <- grun_snoc. apply grun_lateF. }
  eapply Forall_impl; [|exact H2]. intros s [_ (_ & _ & He)]. exact He.
Qed.

(** ** A concrete history (two streams sharing a connection limit of 6) *)
Definition gex_ops : list gop :=
  [GConnWin 6; GNewStream 0 false 4; GNewStream 4 false 10;
   GStream 0 (OWrite [1; 2; 3; 4; 5]); GStream 1 (OWrite [6; 7; 8; 9]);
   GStream 0 (OPop 1200); GStream 0 (OPop 1200); GStream 1 (OPop 1200); GFramerBlocked; GFramerBlocked;
   GStream 0 (OLost 0); GStream 0 (OPop 1200); GStream 0 (OWin 5); GConnWin 7; GStream 0 (OPop 1200)].

Lemma sender_example :
  let g := grun_state ginit gex_ops in
  map writeOffset (strs g) = [5; 2] /\ map fcWindow (strs g) = [5; 10] /\
  bytesSent (gcn g) = 7 /\ sendWindow (gcn g) = 7 /\ sdb g = [(0%nat, 4); (0%nat, 5)] /\ db g = [6] /\
  map (fun s => map (fun f => (f_off f, zlen (f_data f))) (emitted s)) (strs g) = [[(0, 4); (0, 4); (4, 1)]; [(0, 2)]] /\
  Forall lateF (strs g).
Proof. vm_compute. repeat split; try reflexivity; repeat constructor. Qed.
