(** FlowCtl — the specification state ("ghost": what an observer of the calls and their
    return values knows), the caller discipline, and the invariant that ties the ten
    counters of every controller to it.  Preservation is proved op by op. *)
From Coq Require Import List ZArith Bool Lia ZifyBool.
From V Require Import Gen.Params FlowCtl.Model FlowCtl.ProofsBase.
Import ListNotations.
Open Scope Z_scope.

(** ** Specification state, computed from op arguments and return values only *)

Record gstream := mkG {
  g_sent : Z;            (* sum of AddBytesSent *)
  g_maxsend : Z;         (* largest send limit ever given: initial, then MAX_STREAM_DATA *)
  g_blocked : list Z;    (* the limits at which IsNewlyBlocked answered true *)
  g_adv : Z;             (* receive limit last advertised: initial window, then non-zero GetWindowUpdate *)
  g_recv : Z;            (* highest offset accepted by UpdateHighestReceived *)
  g_final : bool;        (* a final size was accepted *)
  g_credit : Z;          (* bytes consumed (AddBytesRead) or abandoned (Abandon) *)
  g_initw : Z; g_maxw : Z }.

Record ghost := mkGh {
  gc_maxsend : Z; gc_blocked : list Z; gc_adv : Z; gc_initw : Z; gc_maxw : Z;
  gs : list gstream }.

Definition new_g (rw maxrw sw : Z) : gstream := mkG 0 sw [] rw 0 false 0 rw maxrw.
Definition init_ghost (cw cmax : Z) : ghost := mkGh 0 [] cw cw cmax [].

Definition set_gs (g : ghost) (l : list gstream) : ghost :=
  mkGh (gc_maxsend g) (gc_blocked g) (gc_adv g) (gc_initw g) (gc_maxw g) l.

Definition gmod (g : ghost) (i : Z) (f : gstream -> gstream) : ghost :=
  if i <? 0 then g
  else match nth_error (gs g) (Z.to_nat i) with
       | Some x => set_gs g (upd (gs g) (Z.to_nat i) (f x))
       | None => g
       end.

Definition gstep (g : ghost) (o : op) (r : ret) : ghost :=
  match o with
  | NewStream rw maxrw sw => set_gs g (gs g ++ [new_g rw maxrw sw])
  | SSent i n => gmod g i (fun x =>
      mkG (g_sent x + n) (g_maxsend x) (g_blocked x) (g_adv x) (g_recv x) (g_final x) (g_credit x) (g_initw x) (g_maxw x))
  | SUpdSend i off => gmod g i (fun x =>
      mkG (g_sent x) (Z.max (g_maxsend x) off) (g_blocked x) (g_adv x) (g_recv x) (g_final x) (g_credit x) (g_initw x) (g_maxw x))
  | SSendWin _ => g
  | SBlocked i => if fst r =? 1 then gmod g i (fun x =>
      mkG (g_sent x) (g_maxsend x) (g_maxsend x :: g_blocked x) (g_adv x) (g_recv x) (g_final x) (g_credit x) (g_initw x) (g_maxw x))
      else g
  | SRecv i off final _ => if fst r =? 0 then gmod g i (fun x =>
      mkG (g_sent x) (g_maxsend x) (g_blocked x) (g_adv x) (Z.max (g_recv x) off) (g_final x || final) (g_credit x) (g_initw x) (g_maxw x))
      else g
  | SRead i n => gmod g i (fun x =>
      mkG (g_sent x) (g_maxsend x) (g_blocked x) (g_adv x) (g_recv x) (g_final x) (g_credit x + n) (g_initw x) (g_maxw x))
  | SAbandon i => gmod g i (fun x =>
      mkG (g_sent x) (g_maxsend x) (g_blocked x) (g_adv x) (g_recv x) (g_final x) (Z.max (g_credit x) (g_recv x)) (g_initw x) (g_maxw x))
  | SWinUpd i _ _ _ _ => if fst r =? 0 then g else gmod g i (fun x =>
      mkG (g_sent x) (g_maxsend x) (g_blocked x) (fst r) (g_recv x) (g_final x) (g_credit x) (g_initw x) (g_maxw x))
  | CUpdSend off => mkGh (Z.max (gc_maxsend g) off) (gc_blocked g) (gc_adv g) (gc_initw g) (gc_maxw g) (gs g)
  | CSendWin => g
  | CBlocked => if fst r =? 1 then mkGh (gc_maxsend g) (snd r :: gc_blocked g) (gc_adv g) (gc_initw g) (gc_maxw g) (gs g) else g
  | CWinUpd _ _ _ _ => if fst r =? 0 then g else mkGh (gc_maxsend g) (gc_blocked g) (fst r) (gc_initw g) (gc_maxw g) (gs g)
  | CReset => if fst r =? 0 then mkGh 0 [] (gc_adv g) (gc_initw g) (gc_maxw g) [] else g
  end.

(** ** Caller discipline: what send_stream.go / receive_stream.go / connection.go guarantee *)

Definition valid_index (s : sys) (i : Z) : Prop := 0 <= i < Z.of_nat (length (streams s)).

Definition op_ok (s : sys) (o : op) : Prop :=
  match o with
  | NewStream rw maxrw sw => 0 < rw /\ 0 <= sw
  | SSent i n => valid_index s i /\
      exists st, nth_error (streams s) (Z.to_nat i) = Some st /\ 0 <= n <= s_sendWindowSize st (conn s)
  | SRead i n => valid_index s i /\
      exists st, nth_error (streams s) (Z.to_nat i) = Some st /\
                 0 <= n /\ bytesRead (sb st) + n <= highestReceived (sb st)
  | SUpdSend i _ | SSendWin i | SBlocked i | SRecv i _ _ _ | SAbandon i | SWinUpd i _ _ _ _ => valid_index s i
  | CUpdSend _ | CSendWin | CBlocked | CWinUpd _ _ _ _ | CReset => True
  end.

(** a history is clean while no UpdateHighestReceived has returned an error (an error closes
    the connection) *)
Definition no_error (o : op) (r : ret) : Prop :=
  match o with SRecv _ _ _ _ => fst r = 0 | _ => True end.

(** ** The invariant *)

Definition blocked_ok (lb : Z) (l : list Z) : Prop := NoDup l /\ Forall (fun w => w <= lb) l.

Record R (st : stream) (x : gstream) : Prop := mkR {
  r_sent : bytesSent (sb st) = g_sent x;
  r_maxsend : sendWindow (sb st) = g_maxsend x;
  r_sent_le : 0 <= bytesSent (sb st) <= sendWindow (sb st);
  r_lb : lastBlockedAt (sb st) <= sendWindow (sb st);
  r_blocked : blocked_ok (lastBlockedAt (sb st)) (g_blocked x);
  r_adv : receiveWindow (sb st) = g_adv x;
  r_recv : highestReceived (sb st) = g_recv x;
  r_final : finalRecv st = g_final x;
  r_credit : bytesRead (sb st) = g_credit x;
  r_order : 0 <= bytesRead (sb st) <= highestReceived (sb st) /\ highestReceived (sb st) <= receiveWindow (sb st);
  r_rws : 0 < receiveWindowSize (sb st) <= Z.max (g_initw x) (g_maxw x);
  r_maxw : maxReceiveWindowSize (sb st) = g_maxw x;
  r_cover : receiveWindow (sb st) <= bytesRead (sb st) + receiveWindowSize (sb st) }.

Definition fSent (st : stream) := bytesSent (sb st).
Definition fRead (st : stream) := bytesRead (sb st).
Definition fRecv (st : stream) := highestReceived (sb st).

Record CI (c : base) (ls : list stream) (g : ghost) : Prop := mkCI {
  c_sent : bytesSent c = sumf fSent ls;
  c_maxsend : sendWindow c = gc_maxsend g;
  c_sent_le : bytesSent c <= sendWindow c;
  c_lb : lastBlockedAt c <= sendWindow c;
  c_blocked : blocked_ok (lastBlockedAt c) (gc_blocked g);
  c_adv : receiveWindow c = gc_adv g;
  c_read : bytesRead c = sumf fRead ls;
  c_recv : highestReceived c = sumf fRecv ls;
  c_recv_le : highestReceived c <= receiveWindow c;
  c_rws : 0 < receiveWindowSize c <= Z.max (gc_initw g) (gc_maxw g);
  c_maxw : maxReceiveWindowSize c = gc_maxw g;
  c_cover : receiveWindow c <= bytesRead c + receiveWindowSize c }.

Definition Inv (s : sys) (g : ghost) : Prop :=
  Forall2 R (streams s) (gs g) /\ CI (conn s) (streams s) g.

Lemma Inv_init cw cmax : 0 < cw -> Inv (init_sys cw cmax) (init_ghost cw cmax).
Proof.
  intros H. split; [constructor|]. constructor; cbn; try lia; try reflexivity.
  split; constructor.
Qed.

Lemma blocked_ok_new lb w l : blocked_ok lb l -> lb < w -> blocked_ok w (w :: l).
Proof.
  intros [Hn Hf] Hlt. split.
  - constructor; auto. intros Hin. rewrite Forall_forall in Hf. apply Hf in Hin. lia.
  - constructor; [lia|]. eapply Forall_impl; [|exact Hf]. cbn; intros; lia.
Qed.

Lemma R_nonneg_sent ls lg : Forall2 R ls lg -> Forall (fun st => 0 <= fSent st) ls.
Proof. apply Forall2_Forall_l. intros a b H. destruct H. unfold fSent. lia. Qed.
Lemma R_nonneg_read ls lg : Forall2 R ls lg -> Forall (fun st => 0 <= fRead st) ls.
Proof. apply Forall2_Forall_l. intros a b H. destruct H. unfold fRead. lia. Qed.
Lemma R_nonneg_recv ls lg : Forall2 R ls lg -> Forall (fun st => 0 <= fRecv st) ls.
Proof. apply Forall2_Forall_l. intros a b H. destruct H. unfold fRecv. lia. Qed.

(** ** Preservation *)

Section Step.
Variables (s : sys) (g : ghost).
Hypothesis HI : Inv s g.

Lemma HF : Forall2 R (streams s) (gs g). Proof. exact (proj1 HI). Qed.
Lemma HC : CI (conn s) (streams s) g. Proof. exact (proj2 HI). Qed.

Lemma lookup i : valid_index s i ->
  (i <? 0) = false /\
  exists st x, nth_error (streams s) (Z.to_nat i) = Some st /\ nth_error (gs g) (Z.to_nat i) = Some x /\ R st x.
Proof.
  intros [H0 H1]. split; [lia|].
  destruct (nth_error_Some_lt (streams s) (Z.to_nat i)) as [st Hst]; [lia|].
  destruct (Forall2_nth _ _ _ _ _ HF Hst) as (x & Hx & HR). eauto.
Qed.

Lemma inv_NewStream rw maxrw sw : 0 < rw -> 0 <= sw ->
  Inv (fst (step s (NewStream rw maxrw sw))) (gstep g (NewStream rw maxrw sw) (snd (step s (NewStream rw maxrw sw)))).
Proof.
  intros Hrw Hsw. cbn. split; cbn.
  - apply Forall2_app; [exact HF|]. constructor; [|constructor].
    constructor; cbn; try lia; try reflexivity. split; constructor.
  - destruct HC. constructor; cbn; auto; try rewrite sumf_app; cbn; try lia.
Qed.

Lemma CI_set_gs c ls l : CI c ls g -> CI c ls (set_gs g l).
Proof. intros []. constructor; cbn; auto. Qed.

Lemma Inv_put i st x st' x' c' :
  nth_error (streams s) (Z.to_nat i) = Some st -> nth_error (gs g) (Z.to_nat i) = Some x ->
  R st' x' -> CI c' (upd (streams s) (Z.to_nat i) st') g ->
  Inv (put s i st' c') (set_gs g (upd (gs g) (Z.to_nat i) x')).
Proof.
  intros Hst Hx HR HC'. split; cbn.
  - apply Forall2_upd; [exact HF | auto].
  - apply CI_set_gs; auto.
Qed.

Ltac open_stream H i :=
  let Hneg := fresh "Hneg" in
  destruct (lookup i H) as (Hneg & st & x & Hst & Hx & HR);
  unfold step, with_stream, gstep, gmod; rewrite Hneg, Hst.

Ltac sums Hst := unfold fSent, fRead, fRecv in *;
  rewrite ?(sumf_upd (fun st => bytesSent (sb st)) _ _ _ _ Hst),
          ?(sumf_upd (fun st => bytesRead (sb st)) _ _ _ _ Hst),
          ?(sumf_upd (fun st => highestReceived (sb st)) _ _ _ _ Hst).

Lemma inv_SSent i n : op_ok s (SSent i n) ->
  Inv (fst (step s (SSent i n))) (gstep g (SSent i n) (snd (step s (SSent i n)))).
Proof.
  intros (Hv & st' & Hst' & Hn). open_stream Hv i. rewrite Hst in Hst'; inversion Hst'; subst st'; clear Hst'.
  cbn. rewrite Hx. pose proof HC as HC0. destruct HC0, HR.
  unfold s_sendWindowSize, b_sendWindowSize in Hn.
  apply (Inv_put _ _ _ _ _ _ Hst Hx).
  - constructor; cbn; auto; brk; lia.
  - constructor; cbn; auto; sums Hst; cbn; brk; lia.
Qed.

Lemma upd_same {A} (l : list A) i y : nth_error l i = Some y -> upd l i y = l.
Proof. revert i; induction l; intros [|i] H; cbn in *; try discriminate; auto; [inversion H; auto | f_equal; auto]. Qed.

Lemma Inv_put0 i st x st' c' :
  nth_error (streams s) (Z.to_nat i) = Some st -> nth_error (gs g) (Z.to_nat i) = Some x ->
  R st' x -> CI c' (upd (streams s) (Z.to_nat i) st') g ->
  Inv (put s i st' c') g.
Proof.
  intros Hst Hx HR HC'. split; cbn; auto.
  rewrite <- (upd_same (gs g) _ _ Hx). apply Forall2_upd; [exact HF | auto].
Qed.

Ltac facts := let H := fresh "HC0" in pose proof HC as H; destruct H;
  match goal with HR : R _ _ |- _ => destruct HR end.

Ltac blk := try match goal with
  | H : blocked_ok ?a ?l |- blocked_ok ?b ?l => replace b with a by lia; exact H
  end.

Lemma inv_SUpdSend i off : valid_index s i ->
  Inv (fst (step s (SUpdSend i off))) (gstep g (SUpdSend i off) (snd (step s (SUpdSend i off)))).
Proof.
  intros Hv. open_stream Hv i. unfold s_updateSendWindow, b_updateSendWindow. facts.
  destruct (off >? sendWindow (sb st)) eqn:E; cbn; rewrite Hx;
  apply (Inv_put _ _ _ _ _ _ Hst Hx).
  1,3: constructor; cbn; auto; try lia.
  1,2: constructor; cbn; auto; sums Hst; cbn; try lia.
Qed.

Lemma inv_SSendWin i : valid_index s i ->
  Inv (fst (step s (SSendWin i))) (gstep g (SSendWin i) (snd (step s (SSendWin i)))).
Proof. intros Hv. open_stream Hv i. cbn. exact HI. Qed.

Lemma inv_SBlocked i : valid_index s i ->
  Inv (fst (step s (SBlocked i))) (gstep g (SBlocked i) (snd (step s (SBlocked i)))).
Proof.
  intros Hv. open_stream Hv i. unfold s_isNewlyBlocked, b_isNewlyBlocked, b_sendWindowSize. facts.
  brk; cbn; rewrite ?Hx.
  all: first [ apply (Inv_put _ _ _ _ _ _ Hst Hx) | apply (Inv_put0 _ _ _ _ _ Hst Hx) ].
  all: constructor; cbn; auto; sums Hst; cbn; try lia.
  all: try (rewrite <- r_maxsend0; apply blocked_ok_new with (lb := lastBlockedAt (sb st)); auto; lia).
  all: exfalso; cbn in *; discriminate.
Qed.

Lemma inv_SRead i n : op_ok s (SRead i n) ->
  Inv (fst (step s (SRead i n))) (gstep g (SRead i n) (snd (step s (SRead i n)))).
Proof.
  intros (Hv & st' & Hst' & Hn). open_stream Hv i. rewrite Hst in Hst'; inversion Hst'; subst st'; clear Hst'.
  unfold s_addBytesRead, c_addBytesRead. cbn. rewrite Hx. facts.
  apply (Inv_put _ _ _ _ _ _ Hst Hx).
  - constructor; cbn; auto; lia.
  - constructor; cbn; auto; sums Hst; cbn; lia.
Qed.

Lemma inv_SAbandon i : valid_index s i ->
  Inv (fst (step s (SAbandon i))) (gstep g (SAbandon i) (snd (step s (SAbandon i)))).
Proof.
  intros Hv. open_stream Hv i. unfold s_abandon, c_addBytesRead. cbn. rewrite Hx. facts.
  apply (Inv_put _ _ _ _ _ _ Hst Hx).
  - constructor; cbn; auto; lia.
  - brk; constructor; cbn; auto; sums Hst; cbn; lia.
Qed.

Lemma inv_SRecv i off final now : valid_index s i ->
  no_error (SRecv i off final now) (snd (step s (SRecv i off final now))) ->
  Inv (fst (step s (SRecv i off final now))) (gstep g (SRecv i off final now) (snd (step s (SRecv i off final now)))).
Proof.
  intros Hv Hne. unfold no_error in Hne. revert Hne. open_stream Hv i.
  unfold s_updateHighestReceived, c_incrementHighestReceived, b_violation, b_startEpoch. facts.
  pose proof err_codes_distinct as (He1 & He2 & He3).
  brk; cbn in *; try discriminate; intros Hne; try (exfalso; unfold errNone in *; lia); rewrite ?Hx.
  all: apply (Inv_put _ _ _ _ _ _ Hst Hx).
  all: constructor; cbn; auto; sums Hst; cbn; try lia.
Qed.

Lemma inv_SWinUpd i now rtt fast al : valid_index s i ->
  Inv (fst (step s (SWinUpd i now rtt fast al))) (gstep g (SWinUpd i now rtt fast al) (snd (step s (SWinUpd i now rtt fast al)))).
Proof.
  intros Hv. open_stream Hv i.
  destruct (s_getWindowUpdate st (conn s) now rtt fast al) as [[[st' c'] v] d] eqn:E.
  apply s_getWindowUpdate_spec in E.
  destruct E as (Hf & (Hs1 & Hs2 & Hs3) & (Hr1 & Hr2 & Hr3) & Hg & (Hcs1 & Hcs2 & Hcs3) & (Hcr1 & Hcr2 & Hcr3) & Hcw & Hcg & Hcase).
  unfold rws_grows in *. facts. cbn.
  destruct Hcase as [(Hv0 & Hw)|(Hfin & Hhas & Hw & Hvw)].
  - subst v. cbn. apply (Inv_put0 _ _ _ _ _ Hst Hx).
    + constructor; blk; try congruence; try lia.
    + constructor; blk; sums Hst; try lia.
  - pose proof (hasWindowUpdate_raises _ (receiveWindowSize (sb st')) Hhas) as Hraise.
    destruct (v =? 0) eqn:Ev; [exfalso; lia|]. rewrite Hx.
    apply (Inv_put _ _ _ _ _ _ Hst Hx).
    + constructor; cbn; blk; try congruence; try lia.
    + constructor; blk; sums Hst; try lia.
Qed.

Lemma inv_CUpdSend off :
  Inv (fst (step s (CUpdSend off))) (gstep g (CUpdSend off) (snd (step s (CUpdSend off)))).
Proof.
  unfold step, gstep. destruct (b_updateSendWindow (conn s) off) as [c1 u] eqn:E.
  apply b_updateSendWindow_spec in E. destruct E as (H1 & H2 & H3 & (H4 & H5 & H6) & H7 & H8 & H9).
  pose proof HC as HC0; destruct HC0. cbn. split; [exact HF|]. cbn.
  constructor; cbn; blk; try lia.
Qed.

Lemma inv_CBlocked :
  Inv (fst (step s CBlocked)) (gstep g CBlocked (snd (step s CBlocked))).
Proof.
  unfold step, gstep. destruct (b_isNewlyBlocked (conn s)) as [c1 [b off]] eqn:E.
  apply b_isNewlyBlocked_spec in E. destruct E as (H1 & H2 & (H4 & H5 & H6) & H7 & H8 & Hfalse & Htrue).
  pose proof HC as HC0; destruct HC0. destruct b; cbn.
  - destruct (Htrue eq_refl) as (Ho & Hlb & Hne & Hz). split; [exact HF|]. cbn.
    constructor; cbn; try lia.
    subst off. rewrite Hlb. apply blocked_ok_new with (lb := lastBlockedAt (conn s)); auto; lia.
  - rewrite (Hfalse eq_refl). exact HI.
Qed.

Lemma inv_CWinUpd now rtt fast al :
  Inv (fst (step s (CWinUpd now rtt fast al))) (gstep g (CWinUpd now rtt fast al) (snd (step s (CWinUpd now rtt fast al)))).
Proof.
  unfold step, gstep, c_getWindowUpdate.
  destruct (b_getWindowUpdate (conn s) now rtt fast false al) as [[c1 v] d] eqn:E.
  apply b_getWindowUpdate_spec in E. destruct E as ((Hs1 & Hs2 & Hs3) & (Hr1 & Hr2 & Hr3) & Hg & Hcase).
  unfold rws_grows in *. pose proof HC as HC0; destruct HC0. cbn.
  pose proof (sumf_nonneg _ _ (R_nonneg_read _ _ HF)) as Hnn.
  destruct Hcase as [(Hw & Hc & Hv0)|(Hhas & Hw & Hvw)].
  - subst. cbn. exact HI.
  - pose proof (hasWindowUpdate_raises _ (receiveWindowSize c1) Hhas) as Hraise.
    destruct (v =? 0) eqn:Ev; [exfalso; lia|]. split; [exact HF|]. cbn.
    constructor; cbn; blk; try lia.
Qed.

Lemma inv_CReset :
  Inv (fst (step s CReset)) (gstep g CReset (snd (step s CReset))).
Proof.
  unfold step, gstep. destruct (c_reset (conn s)) as [c1 e] eqn:E.
  apply c_reset_spec in E. destruct E as (Herr & Hok).
  destruct e; cbn; [exact HI|].
  destruct (Hok eq_refl) as (H1 & H2 & H3 & H4 & H5 & (H6 & H7 & H8) & H9 & H10).
  pose proof HC as HC0; destruct HC0.
  pose proof (sumf_nonneg _ _ (R_nonneg_read _ _ HF)) as Hnn1.
  pose proof (sumf_nonneg _ _ (R_nonneg_recv _ _ HF)) as Hnn2.
  split; cbn; [constructor|].
  constructor; cbn; try lia. split; constructor.
Qed.

Lemma inv_step o : op_ok s o -> no_error o (snd (step s o)) ->
  Inv (fst (step s o)) (gstep g o (snd (step s o))).
Proof.
  intros Hok Hne. destruct o.
  - destruct Hok. apply inv_NewStream; auto.
  - apply inv_SSent; auto.
  - apply inv_SUpdSend; auto.
  - apply inv_SSendWin; auto.
  - apply inv_SBlocked; auto.
  - apply inv_SRecv; auto.
  - apply inv_SRead; auto.
  - apply inv_SAbandon; auto.
  - apply inv_SWinUpd; auto.
  - apply inv_CUpdSend.
  - cbn. exact HI.
  - apply inv_CBlocked.
  - apply inv_CWinUpd.
  - apply inv_CReset.
Qed.

End Step.

(** ** Reachable states of disciplined, error-free histories *)

Inductive reach (cw cmax : Z) : sys -> ghost -> Prop :=
| reach_init : reach cw cmax (init_sys cw cmax) (init_ghost cw cmax)
| reach_step s g o :
    reach cw cmax s g -> op_ok s o -> no_error o (snd (step s o)) ->
    reach cw cmax (fst (step s o)) (gstep g o (snd (step s o))).

Theorem reach_Inv cw cmax s g : 0 < cw -> reach cw cmax s g -> Inv s g.
Proof.
  intros Hcw H. induction H.
  - apply Inv_init; auto.
  - apply inv_step; auto.
Qed.
