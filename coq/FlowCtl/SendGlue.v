(** SendGlue — the sender half of the flow-control glue: k SendStream machines (the C01 model
    coq/SendStream/Model.v of /repo/send_stream.go, one state per stream, including the stream's
    own flow controller) sharing ONE connection flow controller (a [base] of the FlowCtl model),
    plus the framer's check that queues DATA_BLOCKED (framer.go Append: connFlowController.IsNewlyBlocked).

    This is a proof-level composition of pieces that are each tied to the code by their own
    correspondence unit (sendstream: C01; flowctl: C04): in the code every stream flow controller
    holds a pointer to the same connection controller; the single-stream model carries the
    connection controller's two send counters as seen by that stream ([ccSent], [ccWindow]).
    The composition makes the sharing explicit: before a stream takes a step it sees the
    connection's current counters, afterwards the connection keeps the updated [ccSent]
    (AddBytesSent); MAX_DATA acts on the connection controller only. [fc_refines] (proofs file)
    shows that the flow-controller code inlined in the C01 model IS the FlowCtl model. *)
From Coq Require Import List ZArith Bool.
From V Require Import Gen.Params Lib.Hex FlowCtl.Model SendStream.Model.
Import ListNotations.
Open Scope Z_scope.

(** the stream's flow controller, as a FlowCtl [base] (send side; the receive side is not used) *)
Definition fc_base (s : state) : base :=
  mkBase (fcSent s) (fcWindow s) (fcLastBlocked s) 0 0 0 0 0 0 0.
(** the connection controller as the stream sees it *)
Definition cc_base (s : state) (lb : Z) : base :=
  mkBase (ccSent s) (ccWindow s) lb 0 0 0 0 0 0 0.

Record gsys := mkGS {
  strs : list state;          (* the send streams *)
  gcn : base;                 (* the shared connection flow controller *)
  sdb : list (nat * Z);       (* ghost: every STREAM_DATA_BLOCKED produced: (stream, MaximumStreamData) *)
  db : list Z                 (* ghost: every DATA_BLOCKED produced by the framer *)
}.

Inductive gop :=
| GNewStream (sid0 : Z) (rsa : bool) (swin : Z)      (* newSendStream with the peer's initial limit *)
| GStream (i : nat) (o : op)                          (* any entry point of stream i *)
| GConnWin (limit : Z)                                (* MAX_DATA *)
| GFramerBlocked.                                     (* framer.Append: connFlowController.IsNewlyBlocked() *)

(** stream i sees the connection's current counters *)
Definition inject (c : base) (s : state) : state :=
  set_ccWindow (sendWindow c) (set_ccSent (bytesSent c) s).

Definition ginit : gsys := mkGS [] (new_base 0 0 0) [] [].

Definition gstep (g : gsys) (o : gop) : gsys * option out :=
  match o with
  | GNewStream sid0 rsa swin =>
      (mkGS (strs g ++ [init sid0 rsa swin 0]) (gcn g) (sdb g) (db g), None)
  | GStream i o =>
      match nth_error (strs g) i with
      | None => (g, None)
      | Some s =>
        let '(s1, x) := step (inject (gcn g) s) o in
        (mkGS (upd (strs g) i s1) (set_bytesSent (gcn g) (ccSent s1))
              (match o_blocked x with Some v => sdb g ++ [(i, v)] | None => sdb g end) (db g),
         Some x)
      end
  | GConnWin l =>
      (mkGS (strs g) (fst (b_updateSendWindow (gcn g) l)) (sdb g) (db g), None)
  | GFramerBlocked =>
      let '(c1, (b, off)) := b_isNewlyBlocked (gcn g) in
      (mkGS (strs g) c1 (sdb g) (if b then db g ++ [off] else db g), None)
  end.

Definition grun_state (g : gsys) (ops : list gop) : gsys := fold_left (fun g o => fst (gstep g o)) ops g.

(** bytes of first transmissions / of all frames *)
Fixpoint sumlen (l : list frame) : Z :=
  match l with [] => 0 | f :: r => zlen (f_data f) + sumlen r end.
