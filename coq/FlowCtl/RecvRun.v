(** Correspondence glue for the recvglue unit: one ReceiveStream history with the oracles
    (what each Read delivered, the auto-tuning oracles of getControlFrame), the observable
    results of every call and the final flow-controller counters and stream state. *)
From Coq Require Import List ZArith Bool String.
From V Require Import Lib.Corr Lib.Hex.
From V Require Export FlowCtl.Model FlowCtl.RecvModel.
Import ListNotations.
Open Scope Z_scope.

Inductive case :=
| RC (rw maxrw cw cmax : Z) (ops : list rop) (rets : list (Z * Z * Z))
     (streamFC connFC flags : list Z).

Inductive obs :=
| RCObs (rets : list (Z * Z * Z)) (streamFC connFC flags : list Z).

Definition flags_of (s : rstream) : list Z :=
  [match finalOffset s with Some f => f | None => -1 end; readPos s; reliableSize s;
   z_of_bool (cancelledLocally s); z_of_bool (cancelledRemotely s); z_of_bool (errorRead s);
   z_of_bool (completed s); z_of_bool (queuedStopSending s); z_of_bool (queuedMaxStreamData s);
   z_of_bool (finalRecv (fc s))].

Definition mask_lb (l : list Z) : list Z :=
  match l with a :: b :: _ :: r => a :: b :: 0 :: r | _ => l end.

Definition model_obs (c : case) : obs :=
  match c with
  | RC rw maxrw cw cmax ops _ _ _ _ =>
    let '(s, rs) := rrun (new_rstream rw maxrw cw cmax) ops in
    RCObs rs (mask_lb (dump_base (sb (fc s)))) (mask_lb (dump_base (cn s))) (flags_of s)
  end.

Fixpoint zl_eqb (a b : list Z) : bool :=
  match a, b with
  | [], [] => true
  | x :: a', y :: b' => (x =? y) && zl_eqb a' b'
  | _, _ => false
  end.

Fixpoint r3_eqb (a b : list (Z * Z * Z)) : bool :=
  match a, b with
  | [], [] => true
  | (x1, x2, x3) :: a', (y1, y2, y3) :: b' => (x1 =? y1) && (x2 =? y2) && (x3 =? y3) && r3_eqb a' b'
  | _, _ => false
  end.

Definition check_case (c : case) : bool :=
  match c, model_obs c with
  | RC _ _ _ _ _ rets sf cf fl, RCObs rets' sf' cf' fl' =>
    r3_eqb rets rets' && zl_eqb sf sf' && zl_eqb cf cf' && zl_eqb fl fl'
  end.
