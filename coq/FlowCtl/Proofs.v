(** FlowCtl — the C04 statements, derived from the invariant of ProofsInv.v. *)
From Coq Require Import List ZArith Bool Lia ZifyBool.
From V Require Import Gen.Params FlowCtl.Model FlowCtl.ProofsBase FlowCtl.ProofsInv.
Import ListNotations.
Open Scope Z_scope.

(** ** (a) senders stay within the largest limits ever given *)

Theorem send_within_credit cw cmax s g : 0 < cw -> reach cw cmax s g ->
  Forall (fun x => 0 <= g_sent x <= g_maxsend x) (gs g) /\
  sumf g_sent (gs g) <= gc_maxsend g /\
  Forall2 (fun st x => bytesSent (sb st) = g_sent x /\ sendWindow (sb st) = g_maxsend x) (streams s) (gs g) /\
  bytesSent (conn s) = sumf g_sent (gs g) /\ sendWindow (conn s) = gc_maxsend g.
Proof.
  intros Hcw Hr. destruct (reach_Inv _ _ _ _ Hcw Hr) as [HF HC]. destruct HC.
  assert (Hsum : sumf fSent (streams s) = sumf g_sent (gs g)).
  { apply sumf_ext2. eapply Forall2_weaken; [|exact HF]. intros a b []. unfold fSent. auto. }
  repeat split.
  - eapply Forall2_Forall_r; [|exact HF]. intros a b []. cbn. lia.
  - lia.
  - eapply Forall2_weaken; [|exact HF]. intros a b []. auto.
  - lia.
  - lia.
Qed.

(** SendWindowSize is exactly the remaining credit: min over the stream and the connection. *)
Theorem send_window_exact cw cmax s g i x : 0 < cw -> reach cw cmax s g ->
  valid_index s i -> nth_error (gs g) (Z.to_nat i) = Some x ->
  snd (step s (SSendWin i)) =
    (Z.min (g_maxsend x - g_sent x) (gc_maxsend g - sumf g_sent (gs g)), 0).
Proof.
  intros Hcw Hr Hv Hx. pose proof (reach_Inv _ _ _ _ Hcw Hr) as HI.
  destruct (send_within_credit _ _ _ _ Hcw Hr) as (_ & Hle & _ & Hcs & Hcw').
  destruct (lookup _ _ HI i Hv) as (Hneg & st & x' & Hst & Hx' & HR).
  rewrite Hx in Hx'; inversion Hx'; subst x'. destruct HR.
  unfold step, with_stream. rewrite Hneg, Hst. cbn. unfold s_sendWindowSize, b_sendWindowSize.
  f_equal. brk; lia.
Qed.

(** ** (b) blocked is reported at most once per limit, and only when really blocked *)

Theorem blocked_once cw cmax s g : 0 < cw -> reach cw cmax s g ->
  Forall (fun x => NoDup (g_blocked x)) (gs g) /\ NoDup (gc_blocked g).
Proof.
  intros Hcw Hr. destruct (reach_Inv _ _ _ _ Hcw Hr) as [HF HC]. split.
  - eapply Forall2_Forall_r; [|exact HF]. intros a b []. cbn. apply r_blocked.
  - destruct HC. apply c_blocked.
Qed.

Theorem blocked_truthful_stream cw cmax s g i x : 0 < cw -> reach cw cmax s g ->
  valid_index s i -> nth_error (gs g) (Z.to_nat i) = Some x ->
  fst (snd (step s (SBlocked i))) = 1 -> g_sent x = g_maxsend x.
Proof.
  intros Hcw Hr Hv Hx. pose proof (reach_Inv _ _ _ _ Hcw Hr) as HI.
  destruct (lookup _ _ HI i Hv) as (Hneg & st & x' & Hst & Hx' & HR).
  rewrite Hx in Hx'; inversion Hx'; subst x'. destruct HR.
  unfold step, with_stream. rewrite Hneg, Hst. unfold s_isNewlyBlocked, b_isNewlyBlocked, b_sendWindowSize.
  brk; cbn; intros; try discriminate; lia.
Qed.

Theorem blocked_truthful_conn cw cmax s g : 0 < cw -> reach cw cmax s g ->
  fst (snd (step s CBlocked)) = 1 ->
  snd (snd (step s CBlocked)) = gc_maxsend g /\ sumf g_sent (gs g) = gc_maxsend g.
Proof.
  intros Hcw Hr. destruct (send_within_credit _ _ _ _ Hcw Hr) as (_ & Hle & _ & Hcs & Hcw').
  unfold step, b_isNewlyBlocked, b_sendWindowSize. brk; cbn; intros; try discriminate; lia.
Qed.

(** ** (c) the receiver enforces exactly what it advertised *)

Definition spec_recv (g : ghost) (x : gstream) (off : Z) (final : bool) : Z :=
  if g_final x && ((final && negb (off =? g_recv x)) || (off >? g_recv x)) then fcErrFinalSize
  else if final && (off <? g_recv x) then fcErrFinalSize
  else if (off >? g_recv x) &&
          ((off >? g_adv x) || (sumf g_recv (gs g) + (off - g_recv x) >? gc_adv g)) then fcErrFlowControl
  else 0.

Theorem recv_enforces_advertised cw cmax s g i x off final now : 0 < cw -> reach cw cmax s g ->
  valid_index s i -> nth_error (gs g) (Z.to_nat i) = Some x ->
  snd (step s (SRecv i off final now)) = (spec_recv g x off final, 0).
Proof.
  intros Hcw Hr Hv Hx. pose proof (reach_Inv _ _ _ _ Hcw Hr) as HI.
  destruct (lookup _ _ HI i Hv) as (Hneg & st & x' & Hst & Hx' & HR).
  rewrite Hx in Hx'; inversion Hx'; subst x'. destruct HR.
  destruct HI as [HF HC]. destruct HC.
  assert (Hsum : sumf fRecv (streams s) = sumf g_recv (gs g)).
  { apply sumf_ext2. eapply Forall2_weaken; [|exact HF]. intros a b []. unfold fRecv. auto. }
  unfold step, with_stream. rewrite Hneg, Hst.
  unfold s_updateHighestReceived, c_incrementHighestReceived, b_violation, b_startEpoch, spec_recv, errNone.
  rewrite <- r_final, <- r_recv, <- r_adv, <- Hsum, <- c_recv, <- c_adv.
  destruct (finalRecv st), final; brk; cbn in *; try reflexivity; exfalso; lia.
Qed.

(** The same, spelled out: FLOW_CONTROL_ERROR iff (no final-size inconsistency and) the new
    highest offset is beyond the last advertised stream limit or pushes the connection
    total beyond the last advertised connection limit; success iff neither. *)
Definition final_size_violation (x : gstream) (off : Z) (final : bool) : Prop :=
  (g_final x = true /\ ((final = true /\ off <> g_recv x) \/ off > g_recv x)) \/
  (final = true /\ off < g_recv x).

Definition beyond_advertised (g : ghost) (x : gstream) (off : Z) : Prop :=
  off > g_recv x /\ (off > g_adv x \/ sumf g_recv (gs g) + (off - g_recv x) > gc_adv g).

Lemma spec_recv_cases g x off final :
  (spec_recv g x off final = fcErrFinalSize <-> final_size_violation x off final) /\
  (spec_recv g x off final = fcErrFlowControl <->
     ~ final_size_violation x off final /\ beyond_advertised g x off) /\
  (spec_recv g x off final = 0 <->
     ~ final_size_violation x off final /\ ~ beyond_advertised g x off).
Proof.
  pose proof err_codes_distinct as (He1 & He2 & He3).
  unfold spec_recv, final_size_violation, beyond_advertised.
  destruct (g_final x), final; brk; cbn in *; repeat split; intros; try lia; try tauto;
    try (exfalso; lia).
Qed.

(** ** (d) advertised limits strictly increase and equal consumed + window *)

Theorem window_update_stream cw cmax s g i x now rtt fast al : 0 < cw -> reach cw cmax s g ->
  valid_index s i -> nth_error (gs g) (Z.to_nat i) = Some x ->
  let v := fst (snd (step s (SWinUpd i now rtt fast al))) in
  v <> 0 ->
  exists st', nth_error (streams (fst (step s (SWinUpd i now rtt fast al)))) (Z.to_nat i) = Some st' /\
    g_adv x < v /\
    v = g_credit x + receiveWindowSize (sb st') /\
    0 < receiveWindowSize (sb st') <= Z.max (g_initw x) (g_maxw x) /\
    receiveWindow (sb st') = v.
Proof.
  intros Hcw Hr Hv Hx. pose proof (reach_Inv _ _ _ _ Hcw Hr) as HI.
  destruct (lookup _ _ HI i Hv) as (Hneg & st & x' & Hst & Hx' & HR).
  rewrite Hx in Hx'; inversion Hx'; subst x'. destruct HR.
  unfold step, with_stream. rewrite Hneg, Hst.
  destruct (s_getWindowUpdate st (conn s) now rtt fast al) as [[[st' c'] v] d] eqn:E.
  apply s_getWindowUpdate_spec in E.
  destruct E as (Hf & _ & (Hr1 & Hr2 & Hr3) & Hg & _ & _ & _ & _ & Hcase).
  unfold rws_grows in *. cbn. intros Hne. exists st'. split.
  { apply nth_error_upd_eq with (x := st); auto. }
  destruct Hcase as [(Hv0 & _)|(Hfin & Hhas & Hw & Hvw)]; [contradiction|].
  pose proof (hasWindowUpdate_raises _ (receiveWindowSize (sb st')) Hhas). lia.
Qed.

Theorem window_update_conn cw cmax s g now rtt fast al : 0 < cw -> reach cw cmax s g ->
  let v := fst (snd (step s (CWinUpd now rtt fast al))) in
  let c' := conn (fst (step s (CWinUpd now rtt fast al))) in
  v <> 0 ->
  gc_adv g < v /\
  v = sumf g_credit (gs g) + receiveWindowSize c' /\
  0 < receiveWindowSize c' <= Z.max (gc_initw g) (gc_maxw g) /\
  receiveWindow c' = v.
Proof.
  intros Hcw Hr. destruct (reach_Inv _ _ _ _ Hcw Hr) as [HF HC]. destruct HC.
  assert (Hsum : sumf fRead (streams s) = sumf g_credit (gs g)).
  { apply sumf_ext2. eapply Forall2_weaken; [|exact HF]. intros a b []. unfold fRead. auto. }
  unfold step, c_getWindowUpdate.
  destruct (b_getWindowUpdate (conn s) now rtt fast false al) as [[c1 v] d] eqn:E.
  apply b_getWindowUpdate_spec in E. destruct E as (_ & (Hr1 & Hr2 & Hr3) & Hg & Hcase).
  unfold rws_grows in *. cbn. intros Hne.
  destruct Hcase as [(_ & _ & Hv0)|(Hhas & Hw & Hvw)]; [contradiction|].
  pose proof (hasWindowUpdate_raises _ (receiveWindowSize c1) Hhas). repeat split; lia.
Qed.

(** The receive window size never shrinks (for ALL states and ops, no discipline needed). *)
Definition rws_le (s s' : sys) : Prop :=
  receiveWindowSize (conn s) <= receiveWindowSize (conn s') /\
  forall i st st', nth_error (streams s) i = Some st -> nth_error (streams s') i = Some st' ->
     receiveWindowSize (sb st) <= receiveWindowSize (sb st').

Lemma rws_le_refl s : rws_le s s.
Proof. split; [lia|]. intros i st st' H1 H2. rewrite H1 in H2; inversion H2; lia. Qed.

Lemma rws_le_put s i st1 st' c' :
  nth_error (streams s) (Z.to_nat i) = Some st1 ->
  receiveWindowSize (sb st1) <= receiveWindowSize (sb st') ->
  receiveWindowSize (conn s) <= receiveWindowSize c' ->
  rws_le s (put s i st' c').
Proof.
  intros Hj Hle Hc. split; cbn; [lia|]. intros k st st2 Hk Hu.
  destruct (Nat.eq_dec (Z.to_nat i) k) as [Heq|Hne].
  - subst k. rewrite (nth_error_upd_eq _ _ _ _ Hj) in Hu. inversion Hu; subst.
    rewrite Hj in Hk. inversion Hk; subst. lia.
  - rewrite nth_error_upd_ne in Hu by auto. rewrite Hk in Hu. inversion Hu; subst. lia.
Qed.

Lemma rws_le_conn s c' :
  receiveWindowSize (conn s) <= receiveWindowSize c' -> rws_le s (mkSys c' (streams s)).
Proof. intros H. split; cbn; [lia|]. intros i st st' H1 H2. rewrite H1 in H2; inversion H2; lia. Qed.

Theorem window_size_never_shrinks s o : rws_le s (fst (step s o)).
Proof.
  destruct o; unfold step, with_stream;
    try (destruct (i <? 0); [apply rws_le_refl|];
         destruct (nth_error (streams s) (Z.to_nat i)) as [st|] eqn:Hj; [|apply rws_le_refl]).
  - (* NewStream *) cbn. split; cbn; [lia|]. intros i st st' H1 H2.
    rewrite nth_error_app1 in H2 by (apply nth_error_Some; congruence). rewrite H1 in H2. inversion H2; lia.
  - cbn. apply (rws_le_put _ _ _ _ _ Hj); cbn; lia.
  - destruct (s_updateSendWindow st off) as [st1 u] eqn:E. cbn. apply (rws_le_put _ _ _ _ _ Hj); try lia.
    unfold s_updateSendWindow, b_updateSendWindow in E. brk; inversion E; subst; cbn; lia.
  - cbn. apply rws_le_refl.
  - destruct (s_isNewlyBlocked st) as [st1 u] eqn:E. cbn. apply (rws_le_put _ _ _ _ _ Hj); try lia.
    unfold s_isNewlyBlocked, b_isNewlyBlocked in E. brk; inversion E; subst; cbn; lia.
  - destruct (s_updateHighestReceived st (conn s) off final now) as [[st1 c1] e] eqn:E. cbn.
    unfold s_updateHighestReceived, c_incrementHighestReceived, b_startEpoch in E.
    apply (rws_le_put _ _ _ _ _ Hj); brk; inversion E; subst; cbn; lia.
  - destruct (s_addBytesRead st (conn s) n) as [[[st1 c1] a] b] eqn:E. cbn.
    unfold s_addBytesRead, c_addBytesRead in E.
    apply (rws_le_put _ _ _ _ _ Hj); inversion E; subst; cbn; lia.
  - destruct (s_abandon st (conn s)) as [st1 c1] eqn:E. cbn.
    unfold s_abandon, c_addBytesRead in E.
    apply (rws_le_put _ _ _ _ _ Hj); brk; inversion E; subst; cbn; lia.
  - destruct (s_getWindowUpdate st (conn s) now rtt fast allow) as [[[st1 c1] v] d] eqn:E. cbn.
    apply s_getWindowUpdate_spec in E. unfold rws_grows in E.
    apply (rws_le_put _ _ _ _ _ Hj); lia.
  - destruct (b_updateSendWindow (conn s) off) as [c1 u] eqn:E. cbn.
    apply b_updateSendWindow_spec in E. apply rws_le_conn. lia.
  - cbn. apply rws_le_refl.
  - destruct (b_isNewlyBlocked (conn s)) as [c1 [b off]] eqn:E. cbn.
    apply b_isNewlyBlocked_spec in E. apply rws_le_conn. lia.
  - unfold c_getWindowUpdate. destruct (b_getWindowUpdate (conn s) now rtt fast false allow) as [[c1 v] d] eqn:E. cbn.
    apply b_getWindowUpdate_spec in E. unfold rws_grows in E. apply rws_le_conn. lia.
  - destruct (c_reset (conn s)) as [c1 e] eqn:E. apply c_reset_spec in E. destruct e; cbn.
    + apply rws_le_refl.
    + split; cbn; [|intros [|?] ? ? ? H2; discriminate H2]. destruct E as [_ E]. specialize (E eq_refl). lia.
Qed.

(** ** (e) credit conservation *)

Theorem credit_conservation cw cmax s g : 0 < cw -> reach cw cmax s g ->
  bytesRead (conn s) = sumf g_credit (gs g) /\
  highestReceived (conn s) = sumf g_recv (gs g) /\
  Forall (fun x => 0 <= g_credit x <= g_recv x /\ g_recv x <= g_adv x) (gs g) /\
  sumf g_recv (gs g) <= gc_adv g /\
  Forall2 (fun st x => bytesRead (sb st) = g_credit x /\ highestReceived (sb st) = g_recv x) (streams s) (gs g).
Proof.
  intros Hcw Hr. destruct (reach_Inv _ _ _ _ Hcw Hr) as [HF HC]. destruct HC.
  assert (Hsum1 : sumf fRead (streams s) = sumf g_credit (gs g)).
  { apply sumf_ext2. eapply Forall2_weaken; [|exact HF]. intros a b []. unfold fRead. auto. }
  assert (Hsum2 : sumf fRecv (streams s) = sumf g_recv (gs g)).
  { apply sumf_ext2. eapply Forall2_weaken; [|exact HF]. intros a b []. unfold fRecv. auto. }
  repeat split; try lia.
  - eapply Forall2_Forall_r; [|exact HF]. intros a b []. cbn. lia.
  - eapply Forall2_weaken; [|exact HF]. intros a b []. auto.
Qed.

(** Once the final size is known it never changes: any further accepted offset is below it. *)
Theorem final_size_fixed cw cmax s g i x off final now : 0 < cw -> reach cw cmax s g ->
  valid_index s i -> nth_error (gs g) (Z.to_nat i) = Some x -> g_final x = true ->
  fst (snd (step s (SRecv i off final now))) = 0 -> Z.max (g_recv x) off = g_recv x.
Proof.
  intros Hcw Hr Hv Hx Hfin. rewrite (recv_enforces_advertised _ _ _ _ _ _ _ _ _ Hcw Hr Hv Hx). cbn.
  pose proof err_codes_distinct as (He1 & He2 & He3).
  unfold spec_recv. rewrite Hfin. destruct final; brk; cbn in *; intros; lia.
Qed.

(** A stream whose final size is known and that is abandoned (reset, CancelRead, early
    close) has every byte up to its final size credited, and the connection total is again
    the sum over the streams: nothing is credited twice, nothing is lost. *)
Theorem completed_stream_fully_credited cw cmax s g i x : 0 < cw -> reach cw cmax s g ->
  valid_index s i -> nth_error (gs g) (Z.to_nat i) = Some x ->
  let s' := fst (step s (SAbandon i)) in
  let g' := gstep g (SAbandon i) (snd (step s (SAbandon i))) in
  exists x' st',
    nth_error (gs g') (Z.to_nat i) = Some x' /\ nth_error (streams s') (Z.to_nat i) = Some st' /\
    g_recv x' = g_recv x /\ g_credit x' = g_recv x /\
    bytesRead (sb st') = g_recv x /\ highestReceived (sb st') = g_recv x /\
    bytesRead (conn s') = sumf g_credit (gs g') /\
    bytesRead (conn s') - bytesRead (conn s) = g_recv x - g_credit x.
Proof.
  intros Hcw Hr Hv Hx s' g'.
  assert (Hr' : reach cw cmax s' g') by (apply reach_step; cbn; auto).
  destruct (credit_conservation _ _ _ _ Hcw Hr') as (Hc1 & _ & _ & _ & HF2).
  destruct (credit_conservation _ _ _ _ Hcw Hr) as (Hc0 & _ & Hord & _ & _).
  pose proof (reach_Inv _ _ _ _ Hcw Hr) as HI.
  destruct (lookup _ _ HI i Hv) as (Hneg & st & x0 & Hst & Hx0 & HR).
  rewrite Hx in Hx0; inversion Hx0; subst x0. destruct HR.
  assert (Hxo : 0 <= g_credit x <= g_recv x).
  { rewrite Forall_forall in Hord. apply nth_error_In in Hx. apply Hord in Hx. lia. }
  subst s' g'. revert Hc1 HF2. unfold step, with_stream, gstep, gmod. rewrite Hneg, Hst, Hx.
  unfold s_abandon. cbn. intros Hc1 HF2.
  eexists; eexists. split; [apply nth_error_upd_eq with (x := x); auto|].
  split; [apply nth_error_upd_eq with (x := st); auto|]. cbn.
  repeat split; try lia.
  rewrite (sumf_upd _ _ _ _ _ Hx) in Hc1. cbn in Hc1. rewrite Hc1, Hc0. lia.
Qed.

(** ** Executable discipline checker (used for the non-vacuity examples) *)

Definition valid_indexb (s : sys) (i : Z) : bool := (0 <=? i) && (i <? Z.of_nat (length (streams s))).

Definition op_okb (s : sys) (o : op) : bool :=
  match o with
  | NewStream rw maxrw sw => (0 <? rw) && (0 <=? sw)
  | SSent i n => valid_indexb s i &&
      match nth_error (streams s) (Z.to_nat i) with
      | Some st => (0 <=? n) && (n <=? s_sendWindowSize st (conn s)) | None => false end
  | SRead i n => valid_indexb s i &&
      match nth_error (streams s) (Z.to_nat i) with
      | Some st => (0 <=? n) && (bytesRead (sb st) + n <=? highestReceived (sb st)) | None => false end
  | SUpdSend i _ | SSendWin i | SBlocked i | SRecv i _ _ _ | SAbandon i | SWinUpd i _ _ _ _ => valid_indexb s i
  | _ => true
  end.

Definition no_errorb (o : op) (r : ret) : bool :=
  match o with SRecv _ _ _ _ => fst r =? 0 | _ => true end.

Fixpoint grun (s : sys) (g : ghost) (ops : list op) : option (sys * ghost) :=
  match ops with
  | [] => Some (s, g)
  | o :: r =>
    if op_okb s o && no_errorb o (snd (step s o))
    then grun (fst (step s o)) (gstep g o (snd (step s o))) r
    else None
  end.

Lemma op_okb_ok s o : op_okb s o = true -> op_ok s o.
Proof.
  unfold op_okb, op_ok, valid_indexb, valid_index. destruct o; intros H; auto; try lia.
  - apply andb_true_iff in H. destruct H as [H1 H2]. split; [lia|].
    destruct (nth_error (streams s) (Z.to_nat i)); [|discriminate]. eexists; split; eauto. lia.
  - apply andb_true_iff in H. destruct H as [H1 H2]. split; [lia|].
    destruct (nth_error (streams s) (Z.to_nat i)); [|discriminate]. eexists; split; eauto. lia.
Qed.

Lemma grun_reach cw cmax ops : forall s g s' g',
  reach cw cmax s g -> grun s g ops = Some (s', g') -> reach cw cmax s' g'.
Proof.
  induction ops as [|o r IH]; intros s g s' g' Hr H; cbn in H.
  - inversion H; subst; auto.
  - destruct (op_okb s o && no_errorb o (snd (step s o))) eqn:E; [|discriminate].
    apply andb_true_iff in E. destruct E as [E1 E2].
    eapply IH; [|exact H]. apply reach_step; auto using op_okb_ok.
    unfold no_errorb in E2. unfold no_error. destruct o; auto. lia.
Qed.

(** ** Non-vacuity: a concrete disciplined, error-free history (two streams; blocked at both
    levels, duplicate and reordered MAX_STREAM_DATA, auto-tuning doubling a stream window and
    dragging the connection window along, final size, Abandon) is reachable. *)
Definition ex_ops : list op :=
  [CUpdSend 10; NewStream 8 16 5; NewStream 8 8 20; SSendWin 0; SSent 0 5; SBlocked 0; SBlocked 0;
   SUpdSend 0 20; SUpdSend 0 7; SSendWin 1; SSent 1 5; CBlocked; CBlocked; CUpdSend 30;
   SRecv 0 8 false 100; SRead 0 8; SWinUpd 0 200 1000 true true; CWinUpd 300 1000 true true;
   SRecv 0 12 false 400; SRecv 1 3 false 500; SRecv 0 12 true 600; SAbandon 0; SRead 1 1; SAbandon 1].

Lemma example_reachable :
  exists s g, reach 12 24 s g /\
    snd (run (init_sys 12 24) ex_ops) =
      [(1, 0); (0, 0); (0, 0); (5, 0); (0, 0); (1, 0); (0, 0); (1, 0); (0, 0); (5, 0); (0, 0); (1, 10);
       (0, 0); (1, 0); (0, 0); (1, 1); (24, 12); (32, -1); (0, 0); (0, 0); (0, 0); (0, 0); (0, 0); (0, 0)] /\
    gc_blocked g = [10] /\ gc_maxsend g = 30 /\ gc_adv g = 32 /\
    map g_blocked (gs g) = [[5]; []] /\ map g_sent (gs g) = [5; 5] /\ map g_maxsend (gs g) = [20; 20] /\
    map g_adv (gs g) = [24; 8] /\ map g_recv (gs g) = [12; 3] /\ map g_credit (gs g) = [12; 3] /\
    map g_final (gs g) = [true; false] /\
    bytesRead (conn s) = 15 /\ receiveWindowSize (conn s) = 24.
Proof.
  destruct (grun (init_sys 12 24) (init_ghost 12 24) ex_ops) as [[s g]|] eqn:E;
    [|vm_compute in E; discriminate].
  exists s, g. split; [eapply grun_reach; [apply reach_init | exact E]|].
  vm_compute in E. inversion E; subst. vm_compute. repeat split; reflexivity.
Qed.
