(** RecvGlue — the completion / credit path of /repo/receive_stream.go (REPAIRED code, see
    fixes/C04-*.patch) on top of the FlowCtl model of its flow controller.

    Modelled: the state variables of ReceiveStream that decide which flow-controller calls
    are made (finalOffset, readPos, reliableSize, cancelledLocally, cancelledRemotely,
    errorRead, completed, queuedStopSending, queuedMaxStreamData) and, per public entry
    point, the exact sequence of flow-controller calls:
      handleStreamFrame, handleResetStreamFrame (with the repair: Abandon on completion),
      CancelRead, Read, getControlFrame (with the repair: no MAX_STREAM_DATA(0)).
    NOT modelled: the frame sorter and the byte copying (C03). What the frame queue
    delivers to one Read call is an oracle logged from the implementation:
      [n]      bytes copied by this call,
      [called] whether AddBytesRead was called at all (a zero-length last frame calls it with 0),
      [cls]    what Read returned: 0 = nil, 1 = io.EOF, 2 = the cancellation error.
    The theorem's hypotheses on these oracles ([read_ok]) are what the frame sorter owes. *)
From Coq Require Import ZArith List Bool.
From V Require Import Gen.Params FlowCtl.Model.
Import ListNotations.
Open Scope Z_scope.

Record rstream := mkRS {
  fc : stream;               (* the stream flow controller *)
  cn : base;                 (* the connection flow controller *)
  finalOffset : option Z;    (* None = protocol.MaxByteCount (unknown) *)
  readPos : Z;
  reliableSize : Z;
  cancelledLocally : bool;
  cancelledRemotely : bool;
  errorRead : bool;
  completed : bool;
  queuedStopSending : bool;
  queuedMaxStreamData : bool }.

Definition new_rstream (rw maxrw cw cmax : Z) : rstream :=
  mkRS (new_stream rw maxrw 0) (new_base cw cmax 0) None 0 0 false false false false false false.

Definition with_fc (s : rstream) (st : stream) (c : base) : rstream :=
  mkRS st c (finalOffset s) (readPos s) (reliableSize s) (cancelledLocally s) (cancelledRemotely s)
       (errorRead s) (completed s) (queuedStopSending s) (queuedMaxStreamData s).

(** isRemoteCancellationEffective *)
Definition remoteEffective (s : rstream) : bool :=
  cancelledRemotely s && (readPos s >=? reliableSize s).

(** isNewlyCompleted: (state, newly completed?) *)
Definition isNewlyCompleted (s : rstream) : rstream * bool :=
  if completed s then (s, false)
  else match finalOffset s with
       | None => (s, false)
       | Some _ =>
         if cancelledLocally s || errorRead s then
           (mkRS (fc s) (cn s) (finalOffset s) (readPos s) (reliableSize s) (cancelledLocally s)
                 (cancelledRemotely s) (errorRead s) true (queuedStopSending s) (queuedMaxStreamData s), true)
         else (s, false)
       end.

Definition abandon (s : rstream) : rstream :=
  let '(st1, c1) := s_abandon (fc s) (cn s) in with_fc s st1 c1.

(** the common tail of handleStreamFrame / handleResetStreamFrame (repaired) / CancelRead:
    completed := isNewlyCompleted(); if completed { Abandon(); onStreamCompleted() } *)
Definition complete_with_abandon (s : rstream) : rstream * bool :=
  let '(s1, c) := isNewlyCompleted s in
  if c then (abandon s1, true) else (s1, false).

Inductive rop :=
| OFrame (off len : Z) (fin : bool) (now : Z)              (* handleStreamFrame *)
| OReset (final rel : Z) (now : Z)                         (* handleResetStreamFrame *)
| OCancel                                                  (* CancelRead *)
| ORead (n : Z) (called : bool) (cls : Z)                  (* Read *)
| OCtrl (now rtt : Z) (fast allow : bool).                 (* getControlFrame *)

(** observable result of an op: (a, b, c):
    OFrame/OReset: (error code, completed fired?, 0); OCancel: (STOP_SENDING queued?, completed fired?, 0);
    ORead: (completed fired?, window update queued by this call?, consistent with the model's state?);
    OCtrl: (kind: 0 none, 1 STOP_SENDING, 2 MAX_STREAM_DATA; value; hasMore) *)
Definition rret := (Z * Z * Z)%type.

Definition set_final (s : rstream) (f : Z) : rstream :=
  mkRS (fc s) (cn s) (Some f) (readPos s) (reliableSize s) (cancelledLocally s) (cancelledRemotely s)
       (errorRead s) (completed s) (queuedStopSending s) (queuedMaxStreamData s).

(** handleStreamFrame *)
Definition r_frame (s : rstream) (off len : Z) (fin : bool) (now : Z) : rstream * rret :=
  let maxOffset := off + len in
  let '(st1, c1, e) := s_updateHighestReceived (fc s) (cn s) maxOffset fin now in
  let s1 := with_fc s st1 c1 in
  (* handleStreamFrameImpl returns early on error; the frame is pushed to the sorter unless cancelled locally *)
  let s2 := if e =? 0 then (if fin then set_final s1 maxOffset else s1) else s1 in
  let '(s3, c) := complete_with_abandon s2 in
  (s3, (e, z_of_bool c, 0)).

(** handleResetStreamFrame (repaired) *)
Definition r_reset (s : rstream) (final rel now : Z) : rstream * rret :=
  let '(st1, c1, e) := s_updateHighestReceived (fc s) (cn s) final true now in
  let s1 := with_fc s st1 c1 in
  let s5 :=
    if e =? 0 then
      let s2 := set_final s1 final in
      let newRel := if (negb (cancelledRemotely s2) && (reliableSize s2 =? 0)) || (rel <? reliableSize s2)
                    then rel else reliableSize s2 in
      let s3 := mkRS (fc s2) (cn s2) (finalOffset s2) (readPos s2) newRel (cancelledLocally s2)
                     (cancelledRemotely s2) (errorRead s2) (completed s2) (queuedStopSending s2) (queuedMaxStreamData s2) in
      let s4 := if readPos s3 >=? reliableSize s3 then abandon s3 else s3 in
      if cancelledRemotely s4 then s4
      else if cancelledLocally s4 then s4
      else mkRS (fc s4) (cn s4) (finalOffset s4) (readPos s4) (reliableSize s4) (cancelledLocally s4)
                true (errorRead s4) (completed s4) (queuedStopSending s4) (queuedMaxStreamData s4)
    else s1 in
  let '(s6, c) := complete_with_abandon s5 in
  (s6, (e, z_of_bool c, 0)).

(** CancelRead *)
Definition r_cancel (s : rstream) : rstream * rret :=
  let '(s1, queued) :=
    if cancelledLocally s then (s, false)
    else
      let s0 := mkRS (fc s) (cn s) (finalOffset s) (readPos s) (reliableSize s) true (cancelledRemotely s)
                     (errorRead s) (completed s) (queuedStopSending s) (queuedMaxStreamData s) in
      if errorRead s0 || cancelledRemotely s0 then (s0, false)
      else (mkRS (fc s0) (cn s0) (finalOffset s0) (readPos s0) (reliableSize s0) (cancelledLocally s0)
                 (cancelledRemotely s0) (errorRead s0) (completed s0) true (queuedMaxStreamData s0), true) in
  let '(s2, c) := complete_with_abandon s1 in
  (s2, (z_of_bool queued, z_of_bool c, 0)).

Definition set_errorRead (s : rstream) : rstream :=
  mkRS (fc s) (cn s) (finalOffset s) (readPos s) (reliableSize s) (cancelledLocally s) (cancelledRemotely s)
       true (completed s) (queuedStopSending s) (queuedMaxStreamData s).

(** Read = readImpl + isNewlyCompleted (no Abandon on this path: everything was read, or the
    remote cancellation took effect and readImpl abandoned). *)
Definition r_read (s : rstream) (n : Z) (called : bool) (cls : Z) : rstream * rret :=
  if cancelledLocally s || remoteEffective s then
    (* readImpl returns the cancellation error at once *)
    let '(s1, c) := isNewlyCompleted (set_errorRead s) in
    (s1, (z_of_bool c, 0, z_of_bool ((n =? 0) && negb called && ((cls =? 2) || (cls =? 1)))))
  else
    let '(s1, hasS) :=
      if called then
        let '(st1, c1, hs, _) := s_addBytesRead (fc s) (cn s) n in
        (mkRS st1 c1 (finalOffset s) (readPos s + n) (reliableSize s) (cancelledLocally s) (cancelledRemotely s)
              (errorRead s) (completed s) (queuedStopSending s) (queuedMaxStreamData s || hs), hs)
      else (s, false) in
    let s2 := if called && remoteEffective s1 then abandon s1 else s1 in
    let s3 := if cls =? 0 then s2 else set_errorRead s2 in
    let '(s4, c) := isNewlyCompleted s3 in
    let consistent :=
      (if cls =? 2 then remoteEffective s2
       else if cls =? 1 then match finalOffset s2 with Some f => readPos s2 =? f | None => false end
       else cls =? 0) in
    (s4, (z_of_bool c, z_of_bool hasS, z_of_bool consistent)).

(** getControlFrame (repaired) *)
Definition r_ctrl (s : rstream) (now rtt : Z) (fast allow : bool) : rstream * rret :=
  if negb (queuedStopSending s) && negb (queuedMaxStreamData s) then (s, (0, 0, 0))
  else if queuedStopSending s then
    (mkRS (fc s) (cn s) (finalOffset s) (readPos s) (reliableSize s) (cancelledLocally s) (cancelledRemotely s)
          (errorRead s) (completed s) false (queuedMaxStreamData s),
     (1, 0, z_of_bool (queuedMaxStreamData s)))
  else
    let '(st1, c1, off, _) := s_getWindowUpdate (fc s) (cn s) now rtt fast allow in
    let s1 := mkRS st1 c1 (finalOffset s) (readPos s) (reliableSize s) (cancelledLocally s) (cancelledRemotely s)
                   (errorRead s) (completed s) (queuedStopSending s) false in
    if off =? 0 then (s1, (0, 0, 0)) else (s1, (2, off, 0)).

Definition rstep (s : rstream) (o : rop) : rstream * rret :=
  match o with
  | OFrame off len fin now => r_frame s off len fin now
  | OReset final rel now => r_reset s final rel now
  | OCancel => r_cancel s
  | ORead n called cls => r_read s n called cls
  | OCtrl now rtt fast allow => r_ctrl s now rtt fast allow
  end.

Fixpoint rrun (s : rstream) (ops : list rop) : rstream * list rret :=
  match ops with
  | [] => (s, [])
  | o :: r => let '(s1, x) := rstep s o in let '(s2, xs) := rrun s1 r in (s2, x :: xs)
  end.
