(** ConnGlue — proofs: the RFC 9000 (18.2) table for the initial send window of a stream, and
    "no stream ever sends beyond the largest limit the peer advertised for its class" over all
    histories of the connection glue. *)
From Coq Require Import List ZArith Bool Lia ZifyBool.
From V Require Import Gen.Params FlowCtl.Model FlowCtl.ProofsBase FlowCtl.ConnGlue.
Import ListNotations.
Open Scope Z_scope.

(** ** stream ID arithmetic *)
Lemma id_bits n k : 0 <= k < 4 ->
  id_server_initiated (4 * n + k) = Z.odd k /\ id_uni (4 * n + k) = (2 <=? k).
Proof.
  intros Hk. unfold id_server_initiated, id_uni. split.
  - replace (4 * n + k) with (k + 2 * (2 * n)) by lia. apply Z.odd_add_mul_2.
  - replace (4 * n + k) with (k + (2 * n) * 2) by lia. rewrite Z.div_add by lia.
    rewrite Z.odd_add_mul_2.
    assert (Hc : k = 0 \/ k = 1 \/ k = 2 \/ k = 3) by lia.
    destruct Hc as [Hc|[Hc|[Hc|Hc]]]; subst k; reflexivity.
Qed.

(** RFC 9000, 18.2: the limit for a stream WE initiate is the peer's
    initial_max_stream_data_bidi_remote (resp. _uni), for a bidirectional stream the PEER initiates
    it is the peer's initial_max_stream_data_bidi_local — for both perspectives. *)
Theorem init_send_window_rfc_table p n :
  (* we are the client: 4n client-bidi (ours), 4n+1 server-bidi (the peer's), 4n+2 client-uni (ours) *)
  init_send_window true (4 * n) p = tp_br p /\
  init_send_window true (4 * n + 1) p = tp_bl p /\
  init_send_window true (4 * n + 2) p = tp_uni p /\
  (* we are the server: 4n+1 server-bidi (ours), 4n client-bidi (the peer's), 4n+3 server-uni (ours) *)
  init_send_window false (4 * n + 1) p = tp_br p /\
  init_send_window false (4 * n) p = tp_bl p /\
  init_send_window false (4 * n + 3) p = tp_uni p.
Proof.
  unfold init_send_window, class_of.
  destruct (id_bits n 0 ltac:(lia)) as [A0 B0]. rewrite Z.add_0_r in A0, B0.
  destruct (id_bits n 1 ltac:(lia)) as [A1 B1].
  destruct (id_bits n 2 ltac:(lia)) as [A2 B2].
  destruct (id_bits n 3 ltac:(lia)) as [A3 B3].
  rewrite A0, B0, A1, B1, A2, B2, A3, B3. cbn. repeat split; reflexivity.
Qed.

(** the IDs handed out by the model's streams map have the intended class *)
Lemma next_id_class client n :
  class_of client (next_id client 0 n) = BidiOurs /\
  class_of client (next_id client 1 n) = UniOurs /\
  class_of client (next_id client 2 n) = BidiPeers.
Proof.
  destruct (id_bits n 0 ltac:(lia)) as [A0 B0]. destruct (id_bits n 1 ltac:(lia)) as [A1 B1].
  destruct (id_bits n 2 ltac:(lia)) as [A2 B2]. destruct (id_bits n 3 ltac:(lia)) as [A3 B3].
  destruct client.
  - replace (next_id true 0 n) with (4 * n + 0) by (unfold next_id; cbn; lia).
    replace (next_id true 1 n) with (4 * n + 2) by (unfold next_id; cbn; lia).
    replace (next_id true 2 n) with (4 * n + 1) by (unfold next_id; cbn; lia).
    unfold class_of. rewrite A0, B0, A1, B1, A2, B2. cbn. auto.
  - replace (next_id false 0 n) with (4 * n + 1) by (unfold next_id; cbn; lia).
    replace (next_id false 1 n) with (4 * n + 3) by (unfold next_id; cbn; lia).
    replace (next_id false 2 n) with (4 * n + 0) by (unfold next_id; cbn; lia).
    unfold class_of. rewrite A0, B0, A1, B1, A3, B3. cbn. auto.
Qed.

(** ** The largest limit the peer advertised for a stream, as an observer computes it *)

Definition class_limit (client : bool) (id : Z) (p : tparams) : Z := init_send_window client id p.

Record ghost := mkGh { g_lims : list Z; g_clim : Z }.

Definition gh_apply (c : cconn) (g : ghost) (p : tparams) : ghost :=
  mkGh (map (fun sl => Z.max (snd sl) (class_limit (cc_client c) (cs_id (fst sl)) p)) (combine (cc_streams c) (g_lims g)))
       (Z.max (g_clim g) (tp_md p)).

Definition ghstep (c : cconn) (g : ghost) (o : cop) : ghost :=
  match o with
  | KRestore bl br uni md => gh_apply c g (mkTP bl br uni md)
  | KParams bl br uni md => if cc_client c then g else gh_apply c g (mkTP bl br uni md)
  | KComplete => match cc_pp c with Some p => if cc_client c then gh_apply c g p else g | None => g end
  | KReject => if snd (c_reset (cc_conn c)) then g else mkGh [] 0
  | KOpen kind =>
      match cc_pp c with
      | Some p =>
        if (kind =? 2) || cc_applied c then
          let n := if kind =? 0 then cc_nbidi c else if kind =? 1 then cc_nuni c else cc_npeer c in
          mkGh (g_lims g ++ [class_limit (cc_client c) (next_id (cc_client c) kind n) p]) (g_clim g)
        else g
      | None => g
      end
  | KWrite _ _ | KDrain => g
  | KMaxStreamData i v => mkGh (updn (g_lims g) (Z.to_nat i) (fun l => Z.max l v)) (g_clim g)
  | KMaxData v => mkGh (g_lims g) (Z.max (g_clim g) v)
  end.

Fixpoint cgrun (c : cconn) (g : ghost) (ops : list cop) : cconn * ghost :=
  match ops with
  | [] => (c, g)
  | o :: r => cgrun (fst (cstep c o)) (ghstep c g o) r
  end.

(** transport parameters and frame fields are unsigned on the wire; the application writes >= 0 bytes *)
Definition cop_ok (o : cop) : Prop :=
  match o with
  | KRestore bl br uni md | KParams bl br uni md => 0 <= bl /\ 0 <= br /\ 0 <= uni /\ 0 <= md
  | KWrite _ n => 0 <= n
  | _ => True
  end.

Definition SOK (s : cstream) (l : Z) : Prop :=
  0 <= bytesSent (cs_fc s) <= sendWindow (cs_fc s) /\ sendWindow (cs_fc s) <= l /\ 0 <= cs_pending s.

Definition fSentC (s : cstream) : Z := bytesSent (cs_fc s).

Record CInv (c : cconn) (g : ghost) : Prop := mkCInv {
  ci_str : Forall2 SOK (cc_streams c) (g_lims g);
  ci_sum : bytesSent (cc_conn c) = sumf fSentC (cc_streams c);
  ci_le : bytesSent (cc_conn c) <= sendWindow (cc_conn c) <= g_clim g;
  ci_pp : forall p, cc_pp c = Some p -> 0 <= tp_bl p /\ 0 <= tp_br p /\ 0 <= tp_uni p /\ 0 <= tp_md p }.

Lemma upd_send_fields b v :
  bytesSent (upd_send b v) = bytesSent b /\ sendWindow (upd_send b v) = Z.max (sendWindow b) v.
Proof.
  unfold upd_send. destruct (b_updateSendWindow b v) as [b1 u] eqn:E. apply b_updateSendWindow_spec in E.
  cbn. intuition.
Qed.

Lemma class_limit_nonneg client id p :
  0 <= tp_bl p /\ 0 <= tp_br p /\ 0 <= tp_uni p /\ 0 <= tp_md p -> 0 <= class_limit client id p.
Proof. unfold class_limit, init_send_window. destruct (class_of client id); lia. Qed.

Lemma raise_SOK client p ls lg :
  Forall2 SOK ls lg ->
  Forall2 SOK (map (raise_outgoing client p) ls)
              (map (fun sl => Z.max (snd sl) (class_limit client (cs_id (fst sl)) p)) (combine ls lg)).
Proof.
  induction 1 as [|s l ls lg H _ IH]; cbn; constructor; auto.
  destruct H as (H1 & H2 & H3). unfold raise_outgoing, class_limit, init_send_window, SOK.
  destruct (class_of client (cs_id s)); cbn;
    try (destruct (upd_send_fields (cs_fc s) (tp_br p)) as [E1 E2]);
    try (destruct (upd_send_fields (cs_fc s) (tp_uni p)) as [E1' E2']); lia.
Qed.

Lemma raise_sum client p ls : sumf fSentC (map (raise_outgoing client p) ls) = sumf fSentC ls.
Proof.
  induction ls as [|s ls IH]; cbn; auto. rewrite IH. f_equal.
  unfold raise_outgoing, fSentC. destruct (class_of client (cs_id s)); cbn; auto;
    [destruct (upd_send_fields (cs_fc s) (tp_br p)) | destruct (upd_send_fields (cs_fc s) (tp_uni p))]; lia.
Qed.

Lemma apply_CInv c g p :
  CInv c g -> 0 <= tp_bl p /\ 0 <= tp_br p /\ 0 <= tp_uni p /\ 0 <= tp_md p ->
  CInv (apply_params c p) (gh_apply c g p).
Proof.
  intros [H1 H2 H3 H4] Hp. unfold apply_params, gh_apply.
  destruct (upd_send_fields (cc_conn c) (tp_md p)) as [E1 E2].
  constructor; cbn.
  - apply raise_SOK; auto.
  - rewrite raise_sum. lia.
  - lia.
  - intros q Hq. inversion Hq; subst. auto.
Qed.

Lemma updn_Forall2 {A B} (P : A -> B -> Prop) la lb i f g :
  Forall2 P la lb -> (forall a b, P a b -> P (f a) (g b)) -> Forall2 P (updn la i f) (updn lb i g).
Proof. intros H; revert i; induction H; intros [|i] Hfg; cbn; constructor; auto. Qed.

Lemma Forall2_same_r {A B} (P : A -> B -> Prop) la lb i f :
  Forall2 P la lb -> (forall a b, P a b -> P (f a) b) -> Forall2 P (updn la i f) lb.
Proof. intros H; revert i; induction H; intros [|i] Hfg; cbn; constructor; auto. Qed.

Lemma updn_sum (l : list cstream) i f :
  (forall s, fSentC (f s) = fSentC s) -> sumf fSentC (updn l i f) = sumf fSentC l.
Proof. intros Hf. revert i. induction l; intros [|i]; cbn; auto; rewrite ?Hf, ?IHl; auto. Qed.

(** one stream's share of a drain *)
Lemma drain_stream_spec s conn l s1 c1 e blk :
  drain_stream s conn = (s1, c1, e, blk) -> SOK s l -> bytesSent conn <= sendWindow conn ->
  SOK s1 l /\ sendWindow c1 = sendWindow conn /\ lastBlockedAt c1 = lastBlockedAt conn /\
  bytesSent c1 - bytesSent conn = fSentC s1 - fSentC s /\ bytesSent conn <= bytesSent c1 <= sendWindow c1.
Proof.
  unfold drain_stream, SOK, fSentC, b_sendWindowSize, b_addBytesSent, b_isNewlyBlocked.
  intros H (H1 & H2 & H3) Hc. destruct s as [id fc pend]. cbn in *.
  brk; inversion H; subst; cbn in *; repeat split; try lia.
Qed.

Lemma drain_all_spec ls : forall conn lg i l1 c1 es bs,
  drain_all ls conn i = (l1, c1, es, bs) -> Forall2 SOK ls lg -> bytesSent conn <= sendWindow conn ->
  Forall2 SOK l1 lg /\ sendWindow c1 = sendWindow conn /\ lastBlockedAt c1 = lastBlockedAt conn /\
  bytesSent c1 - bytesSent conn = sumf fSentC l1 - sumf fSentC ls /\ bytesSent c1 <= sendWindow c1.
Proof.
  induction ls as [|s ls IH]; intros conn lg i l1 c1 es bs H HF Hc; cbn in H.
  - inversion H; subst. inversion HF; subst. repeat split; auto; try lia.
  - inversion HF as [|? l ? lg' Hs HF']; subst.
    destruct (drain_stream s conn) as [[[s1 cA] e] blk] eqn:E1.
    destruct (drain_all ls cA (i + 1)) as [[[r1 cB] es'] bs'] eqn:E2.
    inversion H; subst; clear H.
    destruct (drain_stream_spec _ _ _ _ _ _ _ E1 Hs Hc) as (A1 & A2 & A3 & A4 & A5).
    destruct (IH _ _ _ _ _ _ _ E2 HF' ltac:(lia)) as (B1 & B2 & B3 & B4 & B5).
    repeat split; try lia.
    + constructor; auto.
    + cbn. lia.
Qed.

Lemma cstep_CInv c g o : cop_ok o -> CInv c g -> CInv (fst (cstep c o)) (ghstep c g o).
Proof.
  intros Hok HI. destruct o; cbn [cstep ghstep cop_ok] in *.
  - apply apply_CInv; auto.
  - destruct (cc_client c); cbn [fst]; [|apply apply_CInv; auto].
    destruct HI as [H1 H2 H3 H4]. constructor; cbn; auto. intros q Hq. inversion Hq; subst. auto.
  - destruct (cc_pp c) as [p|] eqn:Ep; cbn [fst]; auto.
    destruct (cc_client c); auto. apply apply_CInv; auto. destruct HI. auto.
  - destruct (c_reset (cc_conn c)) as [conn1 err] eqn:E. apply c_reset_spec in E. cbn [fst snd].
    destruct err; cbn [fst]; [exact HI|].
    destruct HI as [H1 H2 H3 H4]. destruct E as [_ E]. destruct (E eq_refl) as (E1 & E2 & E3 & _).
    constructor; cbn; auto; try lia.
  - destruct (cc_pp c) as [p|] eqn:Ep; cbn [fst]; auto.
    destruct ((kind =? 2) || cc_applied c); cbn [fst]; auto.
    destruct HI as [H1 H2 H3 H4]. pose proof (H4 _ Ep) as Hp.
    constructor; cbn; auto.
    + apply Forall2_app; auto. constructor; [|constructor].
      unfold SOK, new_cstream. cbn. pose proof (class_limit_nonneg (cc_client c) (next_id (cc_client c) kind
        (if kind =? 0 then cc_nbidi c else if kind =? 1 then cc_nuni c else cc_npeer c)) p Hp).
      unfold class_limit in *. lia.
    + rewrite sumf_app. cbn [sumf]. unfold new_cstream. cbn [fSentC cs_fc bytesSent new_base]. 
      change (fSentC (mkCS _ (new_base 0 0 _) 0)) with 0. lia.
    + intros q Hq. rewrite Ep in H4. apply H4; auto.
  - destruct HI as [H1 H2 H3 H4]. constructor; cbn; auto.
    + apply Forall2_same_r; auto. intros a b (A1 & A2 & A3). unfold SOK. cbn. lia.
    + rewrite updn_sum; auto.
  - destruct HI as [H1 H2 H3 H4]. constructor; cbn; auto.
    + apply updn_Forall2; auto. intros a b (A1 & A2 & A3). unfold SOK. cbn.
      destruct (upd_send_fields (cs_fc a) v). lia.
    + rewrite updn_sum; auto. intros s. unfold fSentC. cbn. destruct (upd_send_fields (cs_fc s) v). lia.
  - destruct HI as [H1 H2 H3 H4]. destruct (upd_send_fields (cc_conn c) v).
    constructor; cbn; auto; lia.
  - destruct HI as [H1 H2 H3 H4].
    destruct (drain_all (cc_streams c) (cc_conn c) 0) as [[[l1 conn1] ends] blks] eqn:E.
    destruct (drain_all_spec _ _ _ _ _ _ _ _ E H1 ltac:(lia)) as (B1 & B2 & B3 & B4 & B5).
    destruct (b_isNewlyBlocked conn1) as [conn2 [b v]] eqn:E2. apply b_isNewlyBlocked_spec in E2.
    destruct E2 as (C1 & C2 & _). cbn [fst].
    constructor; cbn; auto; lia.
Qed.

Lemma cgrun_CInv ops : forall c g, Forall cop_ok ops -> CInv c g ->
  CInv (fst (cgrun c g ops)) (snd (cgrun c g ops)).
Proof.
  induction ops as [|o ops IH]; intros c g Hok HI; cbn; auto.
  inversion Hok; subst. apply IH; auto. apply cstep_CInv; auto.
Qed.

Lemma CInv_init client : CInv (cg_init client) (mkGh [] 0).
Proof. constructor; cbn; try lia; auto. intros p H. discriminate. Qed.

(** For every history of the connection glue (any perspective, any transport parameters incl.
    0-RTT remembered ones, raised or lowered later, 0-RTT rejection, any streams of any class,
    any writes, MAX_STREAM_DATA / MAX_DATA in any order, drains at any time): every stream has put
    at most [limit_i] bytes on the wire, where [limit_i] is the largest limit the peer advertised
    for the stream's CLASS (RFC 9000 18.2) or in a MAX_STREAM_DATA for it; and all streams together
    at most the largest initial_max_data / MAX_DATA. *)
Theorem connglue_within_peer_limit client ops : Forall cop_ok ops ->
  let c := fst (cgrun (cg_init client) (mkGh [] 0) ops) in
  let g := snd (cgrun (cg_init client) (mkGh [] 0) ops) in
  Forall2 (fun s l => 0 <= bytesSent (cs_fc s) <= l) (cc_streams c) (g_lims g) /\
  sumf fSentC (cc_streams c) = bytesSent (cc_conn c) /\ bytesSent (cc_conn c) <= g_clim g.
Proof.
  intros Hok c g. destruct (cgrun_CInv ops _ _ Hok (CInv_init client)) as [H1 H2 H3 H4].
  fold c in H1, H2, H3. fold g in H1, H3. repeat split; try lia.
  eapply Forall2_weaken; [|exact H1]. intros a b (A1 & A2 & A3). lia.
Qed.

(** ** The same bound against a specification that does NOT look at the model

    [ostep] is what an observer of the connection computes from each call and its RETURN VALUE
    only (plus the perspective): which transport parameters the peer has shown to the connection
    so far ([o_cur]: the last set, remembered ones included), for every stream that was
    successfully opened (the returned stream ID tells its class, RFC 9000 2.1 / 18.2) the largest
    limit any of those parameter sets — from the moment they were SHOWN, not from the moment the
    implementation applies them — or a MAX_STREAM_DATA gave it, and the largest initial_max_data /
    MAX_DATA. A successful 0-RTT rejection voids the streams and the connection limit. *)
Record ospec := mkOS { o_cur : option tparams; o_lims : list (Z * Z); o_clim : Z;
                       o_stale : bool (* 0-RTT was rejected and the handshake's parameters have not arrived yet *) }.

Definition o_raise (client : bool) (p : tparams) (il : Z * Z) : Z * Z :=
  (fst il, Z.max (snd il) (class_limit client (fst il) p)).

Definition o_params (client : bool) (o : ospec) (p : tparams) : ospec :=
  mkOS (Some p) (map (o_raise client p) (o_lims o)) (Z.max (o_clim o) (tp_md p)) false.

Definition ostep (client : bool) (o : ospec) (op : cop) (r : cret) : ospec :=
  match op with
  | KRestore bl br uni md | KParams bl br uni md => o_params client o (mkTP bl br uni md)
  | KReject => match r with [0] => mkOS (o_cur o) [] 0 true | _ => o end
  | KOpen _ =>
      match r, o_cur o with
      | [1; id], Some p => mkOS (o_cur o) (o_lims o ++ [(id, class_limit client id p)]) (o_clim o) (o_stale o)
      | _, _ => o
      end
  | KMaxStreamData i v => mkOS (o_cur o) (updn (o_lims o) (Z.to_nat i) (fun il => (fst il, Z.max (snd il) v))) (o_clim o) (o_stale o)
  | KMaxData v => mkOS (o_cur o) (o_lims o) (Z.max (o_clim o) v) (o_stale o)
  | KComplete | KWrite _ _ | KDrain => o
  end.

Fixpoint corun (client : bool) (c : cconn) (o : ospec) (ops : list cop) : cconn * ospec :=
  match ops with
  | [] => (c, o)
  | op :: r => let '(c1, x) := cstep c op in corun client c1 (ostep client o op x) r
  end.

(** After a 0-RTT rejection the remembered parameters are void; the handshake always delivers the
    server's real parameters before it completes and before any stream can be opened again
    (handleTransportParameters precedes handleHandshakeComplete). Histories are required to
    respect that order. *)
Definition op_wf (o : ospec) (op : cop) : Prop :=
  o_stale o = true -> match op with KComplete | KOpen _ => False | _ => True end.

Fixpoint cowf (client : bool) (c : cconn) (o : ospec) (ops : list cop) : Prop :=
  match ops with
  | [] => True
  | op :: r => op_wf o op /\ cowf client (fst (cstep c op)) (ostep client o op (snd (cstep c op))) r
  end.

(** the model-side bookkeeping [g] (which applies parameters when the implementation does) never
    exceeds the observer's [o] *)
Record Dom (c : cconn) (g : ghost) (o : ospec) : Prop := mkDom {
  d_cur : o_cur o = cc_pp c;
  d_ids : map cs_id (cc_streams c) = map fst (o_lims o);
  d_le : Forall2 (fun l il => l <= snd il) (g_lims g) (o_lims o);
  d_cl : o_stale o = false -> forall p, o_cur o = Some p ->
         Forall (fun il => class_limit (cc_client c) (fst il) p <= snd il) (o_lims o) /\ tp_md p <= o_clim o;
  d_clim : g_clim g <= o_clim o }.

Lemma raise_dom client p : forall ls lg ol,
  map cs_id ls = map fst ol -> Forall2 (fun l il => l <= snd il) lg ol ->
  Forall2 (fun l il => l <= snd il)
    (map (fun sl => Z.max (snd sl) (class_limit client (cs_id (fst sl)) p)) (combine ls lg))
    (map (o_raise client p) ol).
Proof.
  induction ls as [|s ls IH]; intros lg ol Hid Hle; destruct ol as [|il ol]; cbn in *; try discriminate.
  - inversion Hle; subst. constructor.
  - inversion Hle as [|l ? lg' ? Hl Hle']; subst. inversion Hid as [[Hi Hid']]. cbn.
    constructor; [cbn; rewrite Hi; lia|]. apply IH; auto.
Qed.

Lemma raise_ids client p ls : map cs_id (map (raise_outgoing client p) ls) = map cs_id ls.
Proof.
  induction ls as [|s ls IH]; cbn; auto. rewrite IH. f_equal.
  unfold raise_outgoing. destruct (class_of client (cs_id s)); reflexivity.
Qed.

Lemma o_raise_ids client p ol : map fst (map (o_raise client p) ol) = map fst ol.
Proof. induction ol as [|il ol IH]; cbn; auto. rewrite IH. reflexivity. Qed.

Lemma o_raise_cl client p ol :
  Forall (fun il => class_limit client (fst il) p <= snd il) (map (o_raise client p) ol).
Proof. induction ol; cbn; constructor; auto. cbn. lia. Qed.

Lemma updn_map {A B} (g : A -> B) (l : list A) i f : (forall x, g (f x) = g x) -> map g (updn l i f) = map g l.
Proof. intros H. revert i. induction l; intros [|i]; cbn; auto; rewrite ?H, ?IHl; auto. Qed.

Lemma drain_all_ids ls : forall conn i l1 c1 es bs,
  drain_all ls conn i = (l1, c1, es, bs) -> map cs_id l1 = map cs_id ls.
Proof.
  induction ls as [|s ls IH]; intros conn i l1 c1 es bs H; cbn in H.
  - inversion H; reflexivity.
  - destruct (drain_stream s conn) as [[[s1 cA] e] blk] eqn:E1.
    destruct (drain_all ls cA (i + 1)) as [[[r1 cB] es'] bs'] eqn:E2. inversion H; subst.
    cbn. rewrite (IH _ _ _ _ _ _ E2). f_equal.
    unfold drain_stream, b_isNewlyBlocked in E1. destruct s as [id fc0 pend]. cbn in *.
    brk; inversion E1; subst; reflexivity.
Qed.

Lemma Forall_updn {A} (P : A -> Prop) (l : list A) i f : Forall P l -> (forall x, P x -> P (f x)) -> Forall P (updn l i f).
Proof. intros H; revert i; induction H; intros [|i] Hf; cbn; constructor; auto. Qed.

Ltac domsame D1 D2 D3 D4 D5 :=
  constructor; [congruence | exact D2 | exact D3
               | (intros Hst q Hq; cbn in *; try match goal with E : cc_client _ = _ |- _ => rewrite ?E end; apply D4; auto)
               | exact D5].

Lemma cstep_Dom c g o op : CInv c g -> Dom c g o -> op_wf o op ->
  Dom (fst (cstep c op)) (ghstep c g op) (ostep (cc_client c) o op (snd (cstep c op))) /\
  cc_client (fst (cstep c op)) = cc_client c.
Proof.
  intros HI [D1 D2 D3 D4 D5] Hwf. unfold op_wf in Hwf.
  assert (Hraise : forall p, Dom (apply_params c p) (gh_apply c g p) (o_params (cc_client c) o p)).
  { intros p. constructor; cbn.
    - reflexivity.
    - rewrite raise_ids, o_raise_ids. exact D2.
    - apply raise_dom; auto.
    - intros _ q Hq. inversion Hq; subst q. split; [apply o_raise_cl|lia].
    - lia. }
  destruct op; cbn [cstep ghstep ostep].
  - (* KRestore *) split; [apply Hraise|reflexivity].
  - (* KParams *) destruct (cc_client c) eqn:Ec; cbn [fst snd];
      [|split; [exact (Hraise (mkTP bl br uni md))|cbn; auto]].
    split; [|cbn; auto]. constructor; cbn.
    + reflexivity.
    + rewrite o_raise_ids. exact D2.
    + clear - D3. induction D3; cbn; constructor; auto. cbn. lia.
    + intros _ q Hq. inversion Hq; subst q. rewrite ?Ec. split; [apply o_raise_cl|cbn; lia].
    + lia.
  - (* KComplete *) destruct (o_stale o) eqn:Est; [exfalso; apply Hwf; reflexivity|].
    destruct (cc_pp c) as [p|] eqn:Ep; cbn [fst snd]; [|split; [domsame D1 D2 D3 D4 D5|auto]].
    destruct (cc_client c) eqn:Ec; [|split; [domsame D1 D2 D3 D4 D5|auto]].
    split; [|cbn; auto]. destruct (D4 eq_refl p D1) as [Dcl Dmd].
    constructor; cbn.
    + exact D1.
    + rewrite raise_ids. exact D2.
    + (* applying the parameters the peer had already shown cannot exceed the observer's limits *)
      rewrite ?Ec. clear - D2 D3 Dcl. revert D2 D3 Dcl. generalize (cc_streams c) (g_lims g) (o_lims o).
      induction l as [|s ls IH]; intros lg ol Hid Hle Hcl.
      * destruct ol; [|discriminate Hid]. inversion Hle; subst. constructor.
      * destruct ol as [|il ol]; [discriminate Hid|].
        inversion Hle as [|l0 ? lg' ? Hl Hle']; subst. inversion Hcl as [|? ? Hc1 Hc2]; subst.
        inversion Hid as [[Hi Hid']]. cbn. constructor; [cbn; rewrite Hi; lia|]. apply IH; auto.
    + intros _ q Hq. rewrite ?Ec. apply D4; auto.
    + lia.
  - (* KReject *) destruct (c_reset (cc_conn c)) as [conn1 err] eqn:E. cbn [fst snd]. destruct err; cbn [fst snd].
    + split; [domsame D1 D2 D3 D4 D5|auto].
    + split; [|auto]. constructor; cbn; auto; try lia; try (intros Hst; discriminate Hst).
  - (* KOpen *) destruct (o_stale o) eqn:Est; [exfalso; apply Hwf; reflexivity|].
    destruct (cc_pp c) as [p|] eqn:Ep; cbn [fst snd].
    2:{ cbn. split; [domsame D1 D2 D3 D4 D5|auto]. }
    destruct ((kind =? 2) || cc_applied c); cbn [fst snd].
    2:{ cbn. split; [domsame D1 D2 D3 D4 D5|auto]. }
    rewrite D1. split; [|auto]. destruct (D4 eq_refl p D1) as [Dcl Dmd]. constructor; cbn; auto.
    + rewrite !map_app, D2. reflexivity.
    + apply Forall2_app; auto. constructor; [cbn; lia|constructor].
    + intros _ q Hq. inversion Hq; subst q.
      split; auto. apply Forall_app; split; auto. constructor; [cbn; lia|constructor].
  - (* KWrite *) split; [|auto]. constructor; cbn; auto. rewrite updn_map; auto.
  - (* KMaxStreamData *) split; [|auto]. constructor; cbn; auto.
    + rewrite !updn_map; auto.
    + apply updn_Forall2; auto. cbn. intros; lia.
    + intros Hst p Hp. destruct (D4 Hst p Hp) as [Dcl Dmd]. split; auto.
      apply Forall_updn; auto. cbn. intros; lia.
  - (* KMaxData *) split; [|auto]. constructor; cbn; auto.
    + intros Hst p Hp. destruct (D4 Hst p Hp). split; auto. lia.
    + lia.
  - (* KDrain *) destruct (drain_all (cc_streams c) (cc_conn c) 0) as [[[l1 conn1] ends] blks] eqn:E.
    destruct (b_isNewlyBlocked conn1) as [conn2 [b v]]. cbn [fst snd]. split; [|auto].
    constructor; cbn; auto. rewrite (drain_all_ids _ _ _ _ _ _ _ E). exact D2.
Qed.

Lemma corun_spec ops : forall client c g o, cc_client c = client -> Forall cop_ok ops -> CInv c g -> Dom c g o ->
  cowf client c o ops ->
  let c' := fst (corun client c o ops) in let o' := snd (corun client c o ops) in
  exists g', CInv c' g' /\ Dom c' g' o'.
Proof.
  induction ops as [|op ops IH]; intros client c g o Hc Hok HI HD Hwf; cbn.
  - exists g. auto.
  - inversion Hok; subst. destruct Hwf as [Hw1 Hw2].
    destruct (cstep_Dom c g o op HI HD Hw1) as [HD' Hc'].
    pose proof (cstep_CInv c g op H1 HI) as HI'.
    destruct (cstep c op) as [c1 x] eqn:E. cbn [fst snd] in *.
    apply (IH _ c1 (ghstep c g op) _ Hc'); auto.
Qed.

(** C04 (a) at the connection glue, against the observer: for every well-ordered history every
    stream that was opened (its ID as returned) has sent at most the observer's limit for it,
    and all streams together at most the observer's connection limit. *)
Theorem connglue_within_observed_limit client ops : Forall cop_ok ops ->
  cowf client (cg_init client) (mkOS None [] 0 false) ops ->
  let c := fst (corun client (cg_init client) (mkOS None [] 0 false) ops) in
  let o := snd (corun client (cg_init client) (mkOS None [] 0 false) ops) in
  Forall2 (fun s il => cs_id s = fst il /\ 0 <= bytesSent (cs_fc s) <= snd il) (cc_streams c) (o_lims o) /\
  sumf fSentC (cc_streams c) = bytesSent (cc_conn c) /\ bytesSent (cc_conn c) <= o_clim o.
Proof.
  intros Hok Hwf c o.
  assert (HD0 : Dom (cg_init client) (mkGh [] 0) (mkOS None [] 0 false)).
  { constructor; cbn; auto; try lia. intros _ p Hp. discriminate. }
  destruct (corun_spec ops client (cg_init client) _ _ eq_refl Hok (CInv_init client) HD0 Hwf) as (g' & [H1 H2 H3 H4] & [D1 D2 D3 D4 D5]).
  fold c in H1, H2, H3, D2. fold o in D2, D3, D5. repeat split; try lia.
  clear - H1 D2 D3. revert H1 D2 D3. generalize (cc_streams c) (g_lims g') (o_lims o).
  induction l as [|s ls IH]; intros lg ol HS Hid Hle.
  - destruct ol; [constructor|discriminate Hid].
  - destruct ol as [|il ol]; [discriminate Hid|]. inversion HS as [|? l0 ? lg' (A1 & A2 & A3) HS']; subst.
    inversion Hle; subst. inversion Hid. constructor; [split; auto; lia|]. apply (IH lg'); auto.
Qed.

(** Example = the first table case of the connglue unit (client; bidi_local 100, bidi_remote 30,
    uni 60): each class stops exactly at ITS limit and reports STREAM_DATA_BLOCKED there. *)
Definition cg_ex : list cop :=
  [KParams 100 30 60 5000; KComplete; KOpen 0; KOpen 1; KOpen 2; KWrite 0 300; KWrite 1 300; KWrite 2 300; KDrain;
   KMaxStreamData 0 150; KMaxStreamData 1 151; KMaxStreamData 2 152; KDrain; KDrain].

Lemma connglue_example :
  Forall cop_ok cg_ex /\
  snd (crun (cg_init true) cg_ex) =
    [[0]; [0]; [1; 0]; [1; 2]; [1; 1]; [300]; [300]; [300]; [3; 30; 60; 100; 3; 0; 30; 1; 60; 2; 100; 0];
     [0]; [0]; [0]; [3; 150; 151; 152; 3; 0; 150; 1; 151; 2; 152; 0]; [3; -1; -1; -1; 0; 0]] /\
  g_lims (snd (cgrun (cg_init true) (mkGh [] 0) cg_ex)) = [150; 151; 152].
Proof. split; [repeat constructor; cbn; lia|]. vm_compute. split; reflexivity. Qed.

(** one stream's share of a drain, precisely: a stream that still has data although the
    connection has credit left has used its window up to the last byte, and a
    STREAM_DATA_BLOCKED carries exactly that window (= the offset reached). *)
Theorem drain_stream_exact s conn l s1 c1 e blk :
  drain_stream s conn = (s1, c1, e, blk) -> SOK s l -> bytesSent conn <= sendWindow conn ->
  (0 < cs_pending s1 -> 0 < b_sendWindowSize c1 -> bytesSent (cs_fc s1) = sendWindow (cs_fc s1)) /\
  (blk <> -1 -> blk = sendWindow (cs_fc s1) /\ bytesSent (cs_fc s1) = blk /\
                lastBlockedAt (cs_fc s) <> blk /\ lastBlockedAt (cs_fc s1) = blk) /\
  (blk = -1 -> lastBlockedAt (cs_fc s1) = lastBlockedAt (cs_fc s)) /\
  sendWindow (cs_fc s1) = sendWindow (cs_fc s).
Proof.
  unfold drain_stream, SOK, b_sendWindowSize, b_addBytesSent, b_isNewlyBlocked.
  intros H (H1 & H2 & H3) Hc. destruct s as [id fc pend]. cbn in *.
  brk; inversion H; subst; cbn in *; repeat split; intros; try lia.
Qed.

Lemma connglue_example_observer :
  cowf true (cg_init true) (mkOS None [] 0 false) cg_ex /\
  o_lims (snd (corun true (cg_init true) (mkOS None [] 0 false) cg_ex)) = [(0, 150); (2, 151); (1, 152)] /\
  o_clim (snd (corun true (cg_init true) (mkOS None [] 0 false) cg_ex)) = 5000.
Proof. split; [cbn; unfold op_wf; cbn; repeat split; intros; discriminate|]. vm_compute. split; reflexivity. Qed.
