(** FlowCtl — the claims that do not depend on the callers: for ALL call sequences (any
    arguments, any stream handles, valid or not, any oracle values), provided only that initial
    receive windows are positive, "blocked at most once per limit" and "advertised limits
    strictly increase" hold. *)
From Coq Require Import List ZArith Bool Lia ZifyBool.
From V Require Import Gen.Params FlowCtl.Model FlowCtl.ProofsBase FlowCtl.ProofsInv.
Import ListNotations.
Open Scope Z_scope.

Ltac blk := try match goal with
  | H : blocked_ok ?a ?l |- blocked_ok ?b ?l => replace b with a by lia; exact H
  end.

Definition op_pos (o : op) : Prop :=
  match o with NewStream rw _ sw => 0 < rw /\ 0 <= sw | _ => True end.

Inductive reach0 (cw cmax : Z) : sys -> ghost -> Prop :=
| reach0_init : reach0 cw cmax (init_sys cw cmax) (init_ghost cw cmax)
| reach0_step s g o :
    reach0 cw cmax s g -> op_pos o ->
    reach0 cw cmax (fst (step s o)) (gstep g o (snd (step s o))).

Record W (st : stream) (x : gstream) : Prop := mkW {
  w_maxsend : sendWindow (sb st) = g_maxsend x;
  w_lb : lastBlockedAt (sb st) <= sendWindow (sb st);
  w_blocked : blocked_ok (lastBlockedAt (sb st)) (g_blocked x);
  w_adv : receiveWindow (sb st) = g_adv x;
  w_rwpos : 0 < receiveWindow (sb st);
  w_rws : 0 < receiveWindowSize (sb st) }.

Record WC (c : base) (g : ghost) : Prop := mkWC {
  wc_maxsend : sendWindow c = gc_maxsend g;
  wc_lb : lastBlockedAt c <= sendWindow c;
  wc_blocked : blocked_ok (lastBlockedAt c) (gc_blocked g);
  wc_adv : receiveWindow c = gc_adv g;
  wc_rwpos : 0 < receiveWindow c;
  wc_rws : 0 < receiveWindowSize c }.

Definition WInv (s : sys) (g : ghost) : Prop := Forall2 W (streams s) (gs g) /\ WC (conn s) g.

Lemma WInv_init cw cmax : 0 < cw -> WInv (init_sys cw cmax) (init_ghost cw cmax).
Proof. intros H. split; [constructor|]. constructor; cbn; try lia. split; constructor. Qed.

Lemma Forall2_nth_none {A B} (P : A -> B -> Prop) l l' i :
  Forall2 P l l' -> nth_error l i = None -> nth_error l' i = None.
Proof.
  intros H; revert i; induction H; intros [|i] Hn; cbn in *; auto; discriminate.
Qed.

Lemma WC_set_gs c g l : WC c g -> WC c (set_gs g l).
Proof. intros []. constructor; cbn; auto. Qed.

Section WStep.
Variables (s : sys) (g : ghost).
Hypothesis HI : WInv s g.

Lemma WF : Forall2 W (streams s) (gs g). Proof. exact (proj1 HI). Qed.
Lemma WCc : WC (conn s) g. Proof. exact (proj2 HI). Qed.

(** an op on an invalid handle changes neither side *)
Lemma gmod_invalid i f :
  (i <? 0) = true \/ nth_error (streams s) (Z.to_nat i) = None -> gmod g i f = g.
Proof.
  unfold gmod. intros [H|H]; [rewrite H; reflexivity|].
  destruct (i <? 0); [reflexivity|]. rewrite (Forall2_nth_none _ _ _ _ WF H). reflexivity.
Qed.

Lemma W_put i st x st' x' c' :
  nth_error (streams s) (Z.to_nat i) = Some st -> nth_error (gs g) (Z.to_nat i) = Some x ->
  W st' x' -> WC c' g ->
  WInv (put s i st' c') (set_gs g (upd (gs g) (Z.to_nat i) x')).
Proof.
  intros Hst Hx HR HC'. split; cbn.
  - apply Forall2_upd; [exact WF | auto].
  - apply WC_set_gs; auto.
Qed.

Lemma W_put0 i st x st' c' :
  nth_error (streams s) (Z.to_nat i) = Some st -> nth_error (gs g) (Z.to_nat i) = Some x ->
  W st' x -> WC c' g ->
  WInv (put s i st' c') g.
Proof.
  intros Hst Hx HR HC'. split; cbn; auto.
  rewrite <- (upd_same (gs g) _ _ Hx). apply Forall2_upd; [exact WF | auto].
Qed.

(** generic shape of a stream op: either the handle is invalid (nothing changes) or we get
    the stream, its ghost and their relation *)
Ltac stream_op i :=
  unfold step, with_stream, gstep;
  destruct (i <? 0) eqn:Hneg;
  [ cbn; rewrite ?gmod_invalid by (left; exact Hneg);
    repeat match goal with |- context [if ?b then _ else _] => destruct b end; exact HI |];
  destruct (nth_error (streams s) (Z.to_nat i)) as [st|] eqn:Hst;
  [| cbn; rewrite ?gmod_invalid by (right; exact Hst);
     repeat match goal with |- context [if ?b then _ else _] => destruct b end; exact HI ];
  destruct (Forall2_nth _ _ _ _ _ WF Hst) as (x & Hx & HR);
  unfold gmod; rewrite ?Hneg.

Ltac wfacts := let H := fresh "HC0" in pose proof WCc as H; destruct H;
  match goal with HR : W _ _ |- _ => destruct HR end.

Lemma winv_step o : op_pos o -> WInv (fst (step s o)) (gstep g o (snd (step s o))).
Proof.
  intros Hpos. destruct o.
  - (* NewStream *) cbn in Hpos. cbn. split; cbn.
    + apply Forall2_app; [exact WF|]. constructor; [|constructor].
      constructor; cbn; try lia. split; constructor.
    + apply WC_set_gs. exact WCc.
  - (* SSent *) stream_op i. cbn. rewrite Hx. wfacts.
    apply (W_put _ _ _ _ _ _ Hst Hx); constructor; cbn; auto.
  - (* SUpdSend *) stream_op i. unfold s_updateSendWindow, b_updateSendWindow. wfacts.
    destruct (off >? sendWindow (sb st)) eqn:E; cbn; rewrite Hx;
      apply (W_put _ _ _ _ _ _ Hst Hx); constructor; cbn; auto; blk; try lia.
  - (* SSendWin *) stream_op i. cbn. exact HI.
  - (* SBlocked *) stream_op i. unfold s_isNewlyBlocked, b_isNewlyBlocked, b_sendWindowSize. wfacts.
    brk; cbn in *; try discriminate; rewrite ?Hx.
    all: first [ apply (W_put _ _ _ _ _ _ Hst Hx) | apply (W_put0 _ _ _ _ _ Hst Hx) ].
    all: constructor; cbn; auto; try lia.
    all: try (rewrite <- w_maxsend0; apply blocked_ok_new with (lb := lastBlockedAt (sb st)); auto; lia).
  - (* SRecv *) stream_op i.
    unfold s_updateHighestReceived, c_incrementHighestReceived, b_violation, b_startEpoch. wfacts.
    brk; cbn in *; try discriminate; rewrite ?Hx.
    all: first [ apply (W_put _ _ _ _ _ _ Hst Hx) | apply (W_put0 _ _ _ _ _ Hst Hx) ].
    all: constructor; cbn; auto; try lia.
  - (* SRead *) stream_op i. unfold s_addBytesRead, c_addBytesRead. cbn. rewrite Hx. wfacts.
    apply (W_put _ _ _ _ _ _ Hst Hx); constructor; cbn; auto.
  - (* SAbandon *) stream_op i. unfold s_abandon, c_addBytesRead. cbn. rewrite Hx. wfacts.
    apply (W_put _ _ _ _ _ _ Hst Hx); brk; constructor; cbn; auto.
  - (* SWinUpd *) stream_op i.
    destruct (s_getWindowUpdate st (conn s) now rtt fast allow) as [[[st' c'] v] d] eqn:E.
    apply s_getWindowUpdate_spec in E.
    destruct E as (Hf & (Hs1 & Hs2 & Hs3) & (Hr1 & Hr2 & Hr3) & Hg & (Hcs1 & Hcs2 & Hcs3) & (Hcr1 & Hcr2 & Hcr3) & Hcw & Hcg & Hcase).
    unfold rws_grows in *. wfacts. cbn.
    destruct Hcase as [(Hv0 & Hw)|(Hfin & Hhas & Hw & Hvw)].
    + subst v. cbn. apply (W_put0 _ _ _ _ _ Hst Hx); constructor; blk; try lia.
    + pose proof (hasWindowUpdate_raises _ (receiveWindowSize (sb st')) Hhas) as Hraise.
      destruct (v =? 0) eqn:Ev; [exfalso; lia|].
      rewrite Hx. apply (W_put _ _ _ _ _ _ Hst Hx); constructor; cbn; blk; try lia.
  - (* CUpdSend *) unfold step, gstep. destruct (b_updateSendWindow (conn s) off) as [c1 u] eqn:E.
    apply b_updateSendWindow_spec in E. destruct E as (H1 & H2 & H3 & (H4 & H5 & H6) & H7 & H8 & H9).
    pose proof WCc as HC0; destruct HC0. cbn. split; [exact WF|]. cbn.
    constructor; cbn; blk; try lia.
  - cbn. exact HI.
  - (* CBlocked *) unfold step, gstep. destruct (b_isNewlyBlocked (conn s)) as [c1 [b off]] eqn:E.
    apply b_isNewlyBlocked_spec in E. destruct E as (H1 & H2 & (H4 & H5 & H6) & H7 & H8 & Hfalse & Htrue).
    pose proof WCc as HC0; destruct HC0. destruct b; cbn.
    + destruct (Htrue eq_refl) as (Ho & Hlb & Hne & Hz). split; [exact WF|]. cbn.
      constructor; cbn; try lia.
      subst off. rewrite Hlb. apply blocked_ok_new with (lb := lastBlockedAt (conn s)); auto; lia.
    + rewrite (Hfalse eq_refl). exact HI.
  - (* CWinUpd *) unfold step, gstep, c_getWindowUpdate.
    destruct (b_getWindowUpdate (conn s) now rtt fast false allow) as [[c1 v] d] eqn:E.
    apply b_getWindowUpdate_spec in E. destruct E as ((Hs1 & Hs2 & Hs3) & (Hr1 & Hr2 & Hr3) & Hg & Hcase).
    unfold rws_grows in *. pose proof WCc as HC0; destruct HC0. cbn.
    destruct Hcase as [(Hw & Hc & Hv0)|(Hhas & Hw & Hvw)].
    + subst. cbn. exact HI.
    + pose proof (hasWindowUpdate_raises _ (receiveWindowSize c1) Hhas) as Hraise.
      destruct (v =? 0) eqn:Ev; [exfalso; lia|]. split; [exact WF|]. cbn. constructor; cbn; blk; try lia.
  - (* CReset *) unfold step, gstep. destruct (c_reset (conn s)) as [c1 e] eqn:E.
    apply c_reset_spec in E. destruct E as (Herr & Hok).
    destruct e; cbn; [exact HI|].
    destruct (Hok eq_refl) as (H1 & H2 & H3 & H4 & H5 & (H6 & H7 & H8) & H9 & H10).
    pose proof WCc as HC0; destruct HC0.
    split; cbn; [constructor|]. constructor; cbn; try lia. split; constructor.
Qed.

End WStep.

Theorem reach0_WInv cw cmax s g : 0 < cw -> reach0 cw cmax s g -> WInv s g.
Proof.
  intros Hcw H. induction H.
  - apply WInv_init; auto.
  - apply winv_step; auto.
Qed.

(** every disciplined history is in particular a history *)
Lemma reach_reach0 cw cmax s g : reach cw cmax s g -> reach0 cw cmax s g.
Proof.
  induction 1; [constructor|]. apply reach0_step; auto.
  destruct o; cbn in *; auto.
Qed.

Theorem blocked_once_all cw cmax s g : 0 < cw -> reach0 cw cmax s g ->
  Forall (fun x => NoDup (g_blocked x)) (gs g) /\ NoDup (gc_blocked g).
Proof.
  intros Hcw Hr. destruct (reach0_WInv _ _ _ _ Hcw Hr) as [HF HC]. split.
  - eapply Forall2_Forall_r; [|exact HF]. intros a b []. cbn. apply w_blocked0.
  - destruct HC. apply wc_blocked0.
Qed.

(** every non-zero window update is strictly above everything advertised before, and is the
    limit enforced from then on — whatever the callers do *)
Theorem window_increases_all_stream cw cmax s g i x now rtt fast al : 0 < cw -> reach0 cw cmax s g ->
  0 <= i -> nth_error (gs g) (Z.to_nat i) = Some x ->
  let v := fst (snd (step s (SWinUpd i now rtt fast al))) in
  v <> 0 ->
  g_adv x < v /\
  exists st', nth_error (streams (fst (step s (SWinUpd i now rtt fast al)))) (Z.to_nat i) = Some st' /\
              receiveWindow (sb st') = v.
Proof.
  intros Hcw Hr Hi Hx. destruct (reach0_WInv _ _ _ _ Hcw Hr) as [HF HC].
  assert (Hneg : (i <? 0) = false) by lia.
  destruct (nth_error (streams s) (Z.to_nat i)) as [st|] eqn:Hst.
  2:{ rewrite (Forall2_nth_none _ _ _ _ HF Hst) in Hx. discriminate. }
  pose proof (Forall2_nth2 _ _ _ _ _ _ HF Hst Hx) as HR. destruct HR.
  unfold step, with_stream. rewrite Hneg, Hst.
  destruct (s_getWindowUpdate st (conn s) now rtt fast al) as [[[st' c'] v] d] eqn:E.
  apply s_getWindowUpdate_spec in E.
  destruct E as (Hf & _ & (Hr1 & Hr2 & Hr3) & Hg & _ & _ & _ & _ & Hcase).
  unfold rws_grows in *. cbn. intros Hne.
  destruct Hcase as [(Hv0 & _)|(Hfin & Hhas & Hw & Hvw)]; [contradiction|].
  pose proof (hasWindowUpdate_raises _ (receiveWindowSize (sb st')) Hhas). split; [lia|].
  exists st'. split; [apply nth_error_upd_eq with (x := st); auto | lia].
Qed.

Theorem window_increases_all_conn cw cmax s g now rtt fast al : 0 < cw -> reach0 cw cmax s g ->
  let v := fst (snd (step s (CWinUpd now rtt fast al))) in
  v <> 0 ->
  gc_adv g < v /\ receiveWindow (conn (fst (step s (CWinUpd now rtt fast al)))) = v.
Proof.
  intros Hcw Hr. destruct (reach0_WInv _ _ _ _ Hcw Hr) as [HF HC]. destruct HC.
  unfold step, c_getWindowUpdate.
  destruct (b_getWindowUpdate (conn s) now rtt fast false al) as [[c1 v] d] eqn:E.
  apply b_getWindowUpdate_spec in E. destruct E as (_ & _ & Hg & Hcase).
  unfold rws_grows in *. cbn. intros Hne.
  destruct Hcase as [(_ & _ & Hv0)|(Hhas & Hw & Hvw)]; [contradiction|].
  pose proof (hasWindowUpdate_raises _ (receiveWindowSize c1) Hhas). split; lia.
Qed.
