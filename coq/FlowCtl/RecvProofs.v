(** RecvGlue — every completed receive stream is fully credited. *)
From Coq Require Import List ZArith Bool Lia ZifyBool.
From V Require Import Gen.Params FlowCtl.Model FlowCtl.ProofsBase FlowCtl.RecvModel.
Import ListNotations.
Open Scope Z_scope.

Definition br (s : rstream) : Z := bytesRead (sb (fc s)).
Definition hr (s : rstream) : Z := highestReceived (sb (fc s)).
Definition finKnown (s : rstream) : bool := match finalOffset s with Some _ => true | None => false end.

(** What callers / the frame sorter owe (hypotheses of the theorem, all satisfiable, see the
    Example): frames carry non-negative offsets; a Read copies only bytes that were received
    ([readPos + n <= highestReceived]), calls AddBytesRead whenever it copied something, and its
    return class is consistent with the stream state (third component of the result = 1):
    io.EOF only at the final offset, the cancellation error only once the cancellation is
    effective. An op that returned an error ends the history (the connection is closed). *)
Definition rop_ok (s : rstream) (o : rop) : Prop :=
  match o with
  | OFrame off len _ _ => 0 <= off /\ 0 <= len /\ fst (fst (snd (rstep s o))) = 0
  | OReset final rel _ => 0 <= final /\ fst (fst (snd (rstep s o))) = 0
  | ORead n called _ =>
      0 <= n /\ readPos s + n <= hr s /\ (called = false -> n = 0) /\ snd (snd (rstep s o)) = 1
  | OCancel | OCtrl _ _ _ _ => True
  end.

Inductive rreach (rw maxrw cw cmax : Z) : rstream -> Prop :=
| rreach_init : rreach rw maxrw cw cmax (new_rstream rw maxrw cw cmax)
| rreach_step s o : rreach rw maxrw cw cmax s -> rop_ok s o -> rreach rw maxrw cw cmax (fst (rstep s o)).

Record RJa (s : rstream) : Prop := mkRJa {
  j_pos : 0 <= readPos s <= hr s;
  j_br : br s = readPos s \/
         (br s = hr s /\ finKnown s = true /\ (cancelledLocally s = true \/ remoteEffective s = true));
  j_fin : forall f, finalOffset s = Some f -> hr s = f /\ finalRecv (fc s) = true;
  j_remote : cancelledRemotely s = true -> finKnown s = true;
  j_eff : remoteEffective s = true -> br s = hr s;
  j_err : errorRead s = true ->
          cancelledLocally s = true \/ remoteEffective s = true \/ (finKnown s = true /\ readPos s = hr s);
  j_conn : bytesRead (cn s) = br s }.

(** the property: a completed stream has a known final size and everything up to it is credited *)
Definition JDone (s : rstream) : Prop :=
  completed s = true -> finKnown s = true /\ br s = hr s.

(** final size known and (cancelled locally or error read) => reported completed *)
Definition JD (s : rstream) : Prop :=
  finKnown s = true -> (cancelledLocally s = true \/ errorRead s = true) -> completed s = true.

Definition RJ0 (s : rstream) : Prop := RJa s /\ JDone s.
Definition RJ (s : rstream) : Prop := RJ0 s /\ JD s.

Lemma uhr_ok st c off final now st' c' :
  s_updateHighestReceived st c off final now = (st', c', 0) ->
  bytesRead (sb st') = bytesRead (sb st) /\ bytesRead c' = bytesRead c /\
  highestReceived (sb st') = Z.max (highestReceived (sb st)) off /\
  (finalRecv st = true -> highestReceived (sb st') = highestReceived (sb st)) /\
  finalRecv st' = finalRecv st || final /\
  (final = true -> highestReceived (sb st') = off).
Proof.
  pose proof err_codes_distinct as (He1 & He2 & He3).
  unfold s_updateHighestReceived, c_incrementHighestReceived, b_violation, b_startEpoch, errNone.
  intros H. destruct (finalRecv st), final; brk; cbn in *; inversion H; subst; cbn;
    repeat split; intros; try discriminate; try lia; try (exfalso; lia).
Qed.

Ltac unf := unfold br, hr, finKnown, remoteEffective, abandon, with_fc, set_final, set_errorRead, s_abandon,
  c_addBytesRead, b_addBytesRead in *.

Lemma abandon_RJa s :
  RJa s -> finKnown s = true ->
  (cancelledLocally s = true \/ remoteEffective s = true \/ readPos s = hr s) ->
  RJa (abandon s) /\ br (abandon s) = hr (abandon s) /\ finKnown (abandon s) = true /\
  completed (abandon s) = completed s /\ cancelledLocally (abandon s) = cancelledLocally s /\
  errorRead (abandon s) = errorRead s.
Proof.
  intros [] Hk Hb. unf. cbn in *. split; [|repeat split; auto].
  constructor; unf; cbn in *; intros; auto; try lia.
  brk; cbn; lia.
Qed.

Lemma RJa_completed_irrel s b :
  RJa s -> RJa (mkRS (fc s) (cn s) (finalOffset s) (readPos s) (reliableSize s) (cancelledLocally s)
                     (cancelledRemotely s) (errorRead s) b (queuedStopSending s) (queuedMaxStreamData s)).
Proof. intros []. constructor; unf; cbn in *; auto. Qed.

(** isNewlyCompleted + Abandon re-establishes JD and keeps the rest *)
Lemma complete_with_abandon_RJ s : RJ0 s -> RJ (fst (complete_with_abandon s)).
Proof.
  intros [HJ HD]. unfold complete_with_abandon, isNewlyCompleted.
  destruct (completed s) eqn:Hc.
  { cbn. split; [split; auto|]. intros _ _. exact Hc. }
  destruct (finalOffset s) as [f|] eqn:Hf.
  2:{ cbn. split; [split; auto|]. unfold JD, finKnown. rewrite Hf. discriminate. }
  destruct (cancelledLocally s || errorRead s) eqn:Hce.
  2:{ cbn. split; [split; auto|]. unfold JD. intros _ [H|H]; rewrite H in Hce; cbn in Hce;
        [discriminate | rewrite orb_true_r in Hce; discriminate]. }
  rewrite <- Hf.
  pose proof (RJa_completed_irrel s true HJ) as HJ1.
  set (s1 := mkRS (fc s) (cn s) (finalOffset s) (readPos s) (reliableSize s) (cancelledLocally s)
                  (cancelledRemotely s) (errorRead s) true (queuedStopSending s) (queuedMaxStreamData s)) in *.
  assert (Hk : finKnown s1 = true) by (unfold finKnown, s1; cbn; rewrite Hf; reflexivity).
  assert (Hb : cancelledLocally s1 = true \/ remoteEffective s1 = true \/ readPos s1 = hr s1).
  { destruct (cancelledLocally s) eqn:Hl; [left; reflexivity|]. cbn in Hce.
    destruct HJ. destruct (j_err0 Hce) as [?|[?|[? ?]]]; [congruence| right; left; exact H | right; right; exact H0]. }
  destruct (abandon_RJa s1 HJ1 Hk Hb) as (Ha & Hbr & Hk' & Hc' & Hl' & He').
  change (RJ (abandon s1)).
  split; [split; [exact Ha | intros _; split; assumption]|].
  unfold JD. intros _ _. rewrite Hc'. reflexivity.
Qed.

Lemma fst_cwa s (f : bool -> rret) :
  fst (let '(s3, c) := complete_with_abandon s in (s3, f c)) = fst (complete_with_abandon s).
Proof. destruct (complete_with_abandon s); reflexivity. Qed.

Lemma finKnown_some s : finKnown s = true <-> exists f, finalOffset s = Some f.
Proof. unfold finKnown. destruct (finalOffset s); split; intros; eauto; try discriminate. destruct H; discriminate. Qed.

Ltac inv_facts HJ := let Ha := fresh "Ha" in let Hd := fresh "Hdone" in let Hjd := fresh "Hjd" in
  destruct HJ as [[Ha Hd] Hjd]; destruct Ha; unfold JDone, JD in *.

(** split on whether the final offset is known, so that everything left is arithmetic on Z and bool *)
Ltac case_final s :=
  let f0 := fresh "f0" in let Hfo := fresh "Hfo" in
  destruct (finalOffset s) as [f0|] eqn:Hfo;
  [ match goal with H : forall f, Some _ = Some f -> _ |- _ => specialize (H _ eq_refl) end
  | match goal with H : forall f, None = Some f -> _ |- _ => clear H end ].

Ltac clause :=
  unfold JDone, JD in *; unf; cbn in *;
  repeat match goal with H : context [if ?b then _ else _] |- _ => destruct b eqn:? end;
  try match goal with H : finalOffset _ = _ |- _ => rewrite ?H in * end;
  cbn in *; intros;
  repeat match goal with H : Some _ = Some _ |- _ => inversion H; subst; clear H end;
  try discriminate; try lia; try (split; lia);
  try (repeat match goal with |- context [if ?b then _ else _] => destruct b eqn:? end; cbn; lia).

Lemma frame_RJ s off len fin now :
  RJ s -> rop_ok s (OFrame off len fin now) -> RJ (fst (rstep s (OFrame off len fin now))).
Proof.
  intros HJ (Hoff & Hlen & He). revert He. unfold rstep, r_frame.
  destruct (s_updateHighestReceived (fc s) (cn s) (off + len) fin now) as [[st1 c1] e] eqn:E.
  destruct (complete_with_abandon _) as [s3 c] eqn:Ec at 1. cbn. intros He. subst e.
  rewrite fst_cwa. apply complete_with_abandon_RJ. cbn [Z.eqb].
  apply uhr_ok in E. destruct E as (E1 & E2 & E3 & E4 & E5 & E6).
  inv_facts HJ. unfold finKnown in *.
  destruct fin; case_final s; (split; [constructor|]); clause.
Qed.

Lemma cancel_RJ s : RJ s -> RJ (fst (rstep s OCancel)).
Proof.
  intros HJ. unfold rstep, r_cancel.
  destruct (if cancelledLocally s then _ else _) as [s1 q] eqn:E1.
  destruct (complete_with_abandon s1) as [s3 c] eqn:Ec. cbn.
  pose proof (complete_with_abandon_RJ s1) as Hc. rewrite Ec in Hc. cbn in Hc. apply Hc. clear Hc Ec.
  inv_facts HJ. unfold finKnown in *.
  destruct (cancelledLocally s) eqn:Hl.
  { inversion E1; subst s1 q. split; [constructor|]; clause; auto. }
  cbn in E1. destruct (errorRead s || cancelledRemotely s); inversion E1; subst;
    case_final s; (split; [constructor|]); clause.
Qed.


(** ** handleResetStreamFrame, in two steps: (1) flow controller + final offset (like a FIN
    frame), (2) reliable size, Abandon if the read position is beyond it, cancelledRemotely *)

Definition setRelRemote (t : rstream) (newRel : Z) : rstream :=
  mkRS (fc t) (cn t) (finalOffset t) (readPos t) newRel (cancelledLocally t)
       (if cancelledRemotely t then true else if cancelledLocally t then false else true)
       (errorRead t) (completed t) (queuedStopSending t) (queuedMaxStreamData t).

Definition reset_tail (t : rstream) (newRel : Z) : rstream :=
  if readPos t >=? newRel then abandon (setRelRemote t newRel) else setRelRemote t newRel.

Lemma reset_tail_RJ0 t newRel :
  RJa t -> JDone t -> finKnown t = true ->
  (cancelledRemotely t = true -> newRel <= reliableSize t) ->
  RJ0 (reset_tail t newRel).
Proof.
  intros Ha Hdone Hk Hrel. unfold reset_tail.
  destruct (readPos t >=? newRel) eqn:Hge.
  - (* Abandon: everything received is credited *)
    destruct Ha. unfold JDone, finKnown in *.
    destruct (finalOffset t) as [f0|] eqn:Hfo; [|discriminate]. specialize (j_fin0 _ eq_refl).
    split.
    + constructor; unfold setRelRemote; clause;
        destruct (cancelledRemotely t), (cancelledLocally t); cbn in *; brk; cbn; try lia.
    + unfold setRelRemote; clause.
  - destruct Ha. unfold JDone, finKnown in *.
    destruct (finalOffset t) as [f0|] eqn:Hfo; [|discriminate]. specialize (j_fin0 _ eq_refl).
    split.
    + constructor; unfold setRelRemote; clause;
        destruct (cancelledRemotely t), (cancelledLocally t); cbn in *; try lia.
    + unfold setRelRemote; clause.
Qed.

Definition newRelOf (s : rstream) (rel : Z) : Z :=
  if (negb (cancelledRemotely s) && (reliableSize s =? 0)) || (rel <? reliableSize s) then rel else reliableSize s.

Lemma r_reset_eq s final rel now st1 c1 :
  s_updateHighestReceived (fc s) (cn s) final true now = (st1, c1, 0) ->
  fst (r_reset s final rel now) =
  fst (complete_with_abandon (reset_tail (set_final (with_fc s st1 c1) final) (newRelOf s rel))).
Proof.
  intros E. unfold r_reset. rewrite E. cbn [Z.eqb]. rewrite fst_cwa. f_equal.
  unfold reset_tail, setRelRemote, newRelOf, abandon, with_fc, set_final, s_abandon. cbn.
  destruct (cancelledRemotely s), (cancelledLocally s); cbn;
    destruct (readPos s >=? _); cbn; reflexivity.
Qed.

Lemma reset_RJ s final rel now :
  RJ s -> rop_ok s (OReset final rel now) -> RJ (fst (rstep s (OReset final rel now))).
Proof.
  intros HJ (Hfin & He). revert He. unfold rstep.
  destruct (s_updateHighestReceived (fc s) (cn s) final true now) as [[st1 c1] e] eqn:E.
  unfold r_reset at 1. rewrite E.
  destruct (complete_with_abandon _) as [s6 c] eqn:Ec at 1. cbn. intros He. subst e.
  clear Ec. rewrite (r_reset_eq _ _ _ _ _ _ E). apply complete_with_abandon_RJ.
  apply uhr_ok in E. destruct E as (E1 & E2 & E3 & E4 & E5 & E6). specialize (E6 eq_refl).
  inv_facts HJ. unfold finKnown in *.
  apply reset_tail_RJ0.
  - case_final s; constructor; clause.
  - case_final s; clause.
  - reflexivity.
  - unfold newRelOf. cbn. intros Hr. rewrite Hr. cbn.
    destruct (rel <? reliableSize s) eqn:Hlt; lia.
Qed.

(** ** Read: isNewlyCompleted without Abandon — everything must already be credited *)
Lemma isNewlyCompleted_RJ s :
  RJa s -> JDone s ->
  (finKnown s = true -> cancelledLocally s = true \/ errorRead s = true -> completed s = false ->
   br s = hr s) ->
  RJ (fst (isNewlyCompleted s)).
Proof.
  intros Ha Hdone Hcred. unfold isNewlyCompleted.
  destruct (completed s) eqn:Hc.
  { cbn. split; [split; auto|]. intros _ _. exact Hc. }
  destruct (finalOffset s) as [f|] eqn:Hf.
  2:{ cbn. split; [split; auto|]. unfold JD, finKnown. rewrite Hf. discriminate. }
  destruct (cancelledLocally s || errorRead s) eqn:Hce.
  2:{ cbn. split; [split; auto|]. unfold JD. intros _ [H|H]; rewrite H in Hce; cbn in Hce;
        [discriminate | rewrite orb_true_r in Hce; discriminate]. }
  cbn. rewrite <- Hf.
  assert (Hk : finKnown s = true) by (unfold finKnown; rewrite Hf; reflexivity).
  assert (Hbr : br s = hr s).
  { apply Hcred; auto. apply orb_true_iff in Hce. exact Hce. }
  split; [split|].
  - apply RJa_completed_irrel. exact Ha.
  - unfold JDone. intros _. split; assumption.
  - unfold JD. cbn. auto.
Qed.

Lemma fst_inc s (f : bool -> rret) :
  fst (let '(s1, c) := isNewlyCompleted s in (s1, f c)) = fst (isNewlyCompleted s).
Proof. destruct (isNewlyCompleted s); reflexivity. Qed.

Lemma read_RJ s n called cls :
  RJ s -> rop_ok s (ORead n called cls) -> RJ (fst (rstep s (ORead n called cls))).
Proof.
  intros HJ (Hn & Hle & Hcalled & Hcons). revert Hcons. unfold rstep, r_read.
  destruct (cancelledLocally s || remoteEffective s) eqn:Hpre.
  - (* the cancellation error is returned at once *)
    intros _. rewrite fst_inc. inv_facts HJ. unfold finKnown in *.
    apply isNewlyCompleted_RJ.
    + case_final s; constructor; clause.
    + case_final s; clause.
    + case_final s; clause.
  - destruct called.
    + (* AddBytesRead n, then Abandon if the remote cancellation became effective *)
      unfold s_addBytesRead, c_addBytesRead, b_addBytesRead. cbn [fst snd].
      set (s1 := mkRS _ _ _ _ _ _ _ _ _ _ _).
      match goal with |- context [isNewlyCompleted ?X] => set (s3 := X) end.
      destruct (isNewlyCompleted s3) as [s4 c] eqn:Ei. cbn [fst snd]. intros Hcons.
      unfold z_of_bool in Hcons.
      replace s4 with (fst (isNewlyCompleted s3)) by (rewrite Ei; reflexivity). clear Ei. subst s3.
      inv_facts HJ. unfold finKnown in *.
      assert (Hbr0 : br s = readPos s) by (clause; lia).
      destruct (remoteEffective s1) eqn:Heff; cbn [andb] in *.
      * (* Abandon *)
        destruct (cls =? 0) eqn:Hcls; apply isNewlyCompleted_RJ; subst s1;
          case_final s; try constructor; clause.
      * destruct (cls =? 0) eqn:Hcls; apply isNewlyCompleted_RJ; subst s1;
          case_final s; try constructor; clause.
    + (* nothing was copied *)
      cbn [andb]. specialize (Hcalled eq_refl). subst n.
      match goal with |- context [isNewlyCompleted ?X] => set (s3 := X) end.
      destruct (isNewlyCompleted s3) as [s4 c] eqn:Ei. cbn [fst snd]. intros Hcons.
      unfold z_of_bool in Hcons.
      replace s4 with (fst (isNewlyCompleted s3)) by (rewrite Ei; reflexivity). clear Ei. subst s3.
      inv_facts HJ. unfold finKnown in *.
      destruct (cls =? 0) eqn:Hcls; apply isNewlyCompleted_RJ;
        case_final s; try constructor; clause.
Qed.

Lemma ctrl_RJ s now rtt fast allow : RJ s -> RJ (fst (rstep s (OCtrl now rtt fast allow))).
Proof.
  intros HJ. unfold rstep, r_ctrl.
  destruct (negb (queuedStopSending s) && negb (queuedMaxStreamData s)); [exact HJ|].
  destruct (queuedStopSending s).
  { cbn. inv_facts HJ. unfold finKnown in *. case_final s; (split; [split; [constructor|]|]); clause. }
  destruct (s_getWindowUpdate (fc s) (cn s) now rtt fast allow) as [[[st1 c1] off] d] eqn:E.
  apply s_getWindowUpdate_spec in E.
  destruct E as (Hf & _ & (Hr1 & Hr2 & Hr3) & _ & _ & (Hc1 & Hc2 & Hc3) & _ & _ & _).
  inv_facts HJ. unfold finKnown in *.
  destruct (off =? 0); cbn; case_final s; (split; [split; [constructor|]|]); clause.
Qed.

Theorem rreach_RJ rw maxrw cw cmax s : rreach rw maxrw cw cmax s -> RJ s.
Proof.
  induction 1.
  - split; [split; [constructor|]|]; unfold JDone, JD, new_rstream; unf; cbn; intros; try lia; try discriminate.
  - destruct o.
    + apply frame_RJ; auto.
    + apply reset_RJ; auto.
    + apply cancel_RJ; auto.
    + apply read_RJ; auto.
    + apply ctrl_RJ; auto.
Qed.

(** Every completed receive stream: final size known, every byte up to it received AND
    credited (consumed or abandoned), and the connection-level credit agrees. *)
Theorem completed_fully_credited rw maxrw cw cmax s :
  rreach rw maxrw cw cmax s -> completed s = true ->
  exists f, finalOffset s = Some f /\
            bytesRead (sb (fc s)) = f /\ highestReceived (sb (fc s)) = f /\
            bytesRead (cn s) = f.
Proof.
  intros Hr Hc. destruct (rreach_RJ _ _ _ _ _ Hr) as [[Ha Hd] _]. destruct Ha.
  destruct (Hd Hc) as [Hk Hb]. unfold finKnown in Hk.
  destruct (finalOffset s) as [f|] eqn:Hf; [|discriminate].
  exists f. destruct (j_fin0 _ eq_refl) as [Hh _]. unfold br, hr in *. repeat split; lia.
Qed.

(** and completion is reported as soon as it is due: final size known and the read side is
    finished (cancelled locally, or io.EOF / the reset error was returned by Read). *)
Theorem completion_reported rw maxrw cw cmax s :
  rreach rw maxrw cw cmax s -> finKnown s = true ->
  cancelledLocally s = true \/ errorRead s = true -> completed s = true.
Proof. intros Hr. destruct (rreach_RJ _ _ _ _ _ Hr) as [_ Hd]. exact Hd. Qed.

(** MAX_STREAM_DATA frames never carry 0 (repaired getControlFrame) *)
Theorem no_zero_max_stream_data s now rtt fast allow :
  fst (fst (snd (rstep s (OCtrl now rtt fast allow)))) = 2 ->
  snd (fst (snd (rstep s (OCtrl now rtt fast allow)))) <> 0.
Proof.
  unfold rstep, r_ctrl.
  destruct (s_getWindowUpdate (fc s) (cn s) now rtt fast allow) as [[[st1 c1] off] d].
  brk; cbn; intros; try discriminate; try lia.
Qed.

(** ** Non-vacuity: the regression scenario of the repaired defect (CancelRead, then
    RESET_STREAM_AT with reliable size beyond the read position) is a legal history, it
    completes the stream, and all 8 bytes are credited. *)
Definition rex_ops : list rop :=
  [OFrame 0 3 false 100; ORead 2 true 0; OCancel; OCtrl 150 1000 false true;
   OReset 8 6 200; ORead 0 false 2].

Fixpoint rrun_ok (s : rstream) (ops : list rop) : bool :=
  match ops with
  | [] => true
  | o :: r =>
    (match o with
     | OFrame off len _ _ => (0 <=? off) && (0 <=? len) && (fst (fst (snd (rstep s o))) =? 0)
     | OReset final _ _ => (0 <=? final) && (fst (fst (snd (rstep s o))) =? 0)
     | ORead n called _ => (0 <=? n) && (readPos s + n <=? hr s) && (called || (n =? 0)) && (snd (snd (rstep s o)) =? 1)
     | _ => true
     end) && rrun_ok (fst (rstep s o)) r
  end.

Lemma rrun_ok_reach rw maxrw cw cmax ops : forall s,
  rreach rw maxrw cw cmax s -> rrun_ok s ops = true -> rreach rw maxrw cw cmax (fst (rrun s ops)).
Proof.
  induction ops as [|o r IH]; intros s Hr H; cbn in *; auto.
  apply andb_true_iff in H. destruct H as [Ho Hrest].
  destruct (rstep s o) as [s1 x] eqn:E. specialize (IH s1).
  destruct (rrun s1 r) as [s2 xs] eqn:E2. cbn in *.
  apply IH; auto.
  replace s1 with (fst (rstep s o)) by (rewrite E; reflexivity).
  apply rreach_step; auto.
  destruct o; cbn [rop_ok]; auto; rewrite E in *; cbn in *.
  - repeat (apply andb_true_iff in Ho; destruct Ho as [Ho ?]). repeat split; lia.
  - repeat (apply andb_true_iff in Ho; destruct Ho as [Ho ?]). repeat split; lia.
  - repeat (apply andb_true_iff in Ho; destruct Ho as [Ho ?]). repeat split; try lia.
Qed.

Lemma recv_example :
  let s := fst (rrun (new_rstream 16 32 64 128) rex_ops) in
  rreach 16 32 64 128 s /\ completed s = true /\ finalOffset s = Some 8 /\
  bytesRead (sb (fc s)) = 8 /\ bytesRead (cn s) = 8 /\ readPos s = 2 /\
  snd (rrun (new_rstream 16 32 64 128) rex_ops) =
    [(0, 0, 0); (0, 0, 1); (1, 0, 0); (1, 0, 0); (0, 1, 0); (0, 0, 1)].
Proof.
  split; [apply rrun_ok_reach; [apply rreach_init | vm_compute; reflexivity]|].
  vm_compute. repeat split; reflexivity.
Qed.
