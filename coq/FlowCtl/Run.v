(** Correspondence glue for the flowctl unit: a case is one op sequence on a fresh
    connection controller (receive window [cw], max [cmax]) with the return values of every
    call and the ten counters of every controller at the end, as logged by the harness. *)
From Coq Require Import List ZArith Bool String.
From V Require Import Lib.Corr Lib.Hex.
From V Require Export FlowCtl.Model.
Import ListNotations.
Open Scope Z_scope.

Inductive case :=
| FC (cw cmax : Z) (ops : list op) (rets : list (Z * Z)) (connFinal : list Z)
     (streamsFinal : list (list Z * bool)).

Inductive obs :=
| FCObs (rets : list (Z * Z)) (connFinal : list Z) (streamsFinal : list (list Z * bool)).

(** The harness does not observe HOW a controller remembers where it last reported "blocked"
    (slot 2 of the counter dump is always 0 there): the observable is the sequence of
    IsNewlyBlocked results, and every case ends with a probe of all controllers. *)
Definition mask_lb (l : list Z) : list Z :=
  match l with a :: b :: _ :: r => a :: b :: 0 :: r | _ => l end.

Definition model_obs (c : case) : obs :=
  match c with
  | FC cw cmax ops _ _ _ =>
    let '(s, rs) := run (init_sys cw cmax) ops in
    FCObs rs (mask_lb (dump_base (conn s))) (map (fun st => (mask_lb (dump_base (sb st)), finalRecv st)) (streams s))
  end.

Fixpoint zlist_eqb (a b : list Z) : bool :=
  match a, b with
  | [], [] => true
  | x :: a', y :: b' => (x =? y) && zlist_eqb a' b'
  | _, _ => false
  end.

Fixpoint rets_eqb (a b : list (Z * Z)) : bool :=
  match a, b with
  | [], [] => true
  | (x1, x2) :: a', (y1, y2) :: b' => (x1 =? y1) && (x2 =? y2) && rets_eqb a' b'
  | _, _ => false
  end.

Fixpoint streams_eqb (a b : list (list Z * bool)) : bool :=
  match a, b with
  | [], [] => true
  | (x, f) :: a', (y, g) :: b' => zlist_eqb x y && Bool.eqb f g && streams_eqb a' b'
  | _, _ => false
  end.

Definition check_case (c : case) : bool :=
  match c, model_obs c with
  | FC _ _ _ rets cf sf, FCObs rets' cf' sf' =>
    rets_eqb rets rets' && zlist_eqb cf cf' && streams_eqb sf sf'
  end.
