(** FlowCtl — list lemmas and per-method effect lemmas ("what each Go method changes"). *)
From Coq Require Import List ZArith Bool Lia ZifyBool.
From V Require Import Gen.Params FlowCtl.Model.
Import ListNotations.
Open Scope Z_scope.

(** ** Constants: the facts about /repo's constants the proofs rely on.  They are closed
    by computation on Gen/Params.v, so an edited constant that invalidates them breaks the
    build of the proofs (e.g. WindowUpdateThreshold = 0 would allow a window update that does
    not raise the limit). *)
Lemma keep_params : 0 <= fcKeepNum < fcKeepDen.
Proof. unfold fcKeepNum, fcKeepDen. lia. Qed.

Lemma keepOf_bounds x : 0 < x -> 0 <= keepOf x < x.
Proof.
  intros Hx. pose proof keep_params as [H0 H1]. unfold keepOf.
  rewrite Z.quot_div_nonneg by nia.
  split.
  - apply Z.div_pos; nia.
  - apply Z.div_lt_upper_bound; nia.
Qed.

Lemma err_codes_distinct : fcErrFlowControl <> 0 /\ fcErrFinalSize <> 0 /\ fcErrFlowControl <> fcErrFinalSize.
Proof. unfold fcErrFlowControl, fcErrFinalSize. lia. Qed.

(** ** Lists: update at an index, sums, pointwise relations *)

Fixpoint sumf {A} (f : A -> Z) (l : list A) : Z :=
  match l with [] => 0 | x :: r => f x + sumf f r end.

Lemma sumf_app {A} (f : A -> Z) l1 l2 : sumf f (l1 ++ l2) = sumf f l1 + sumf f l2.
Proof. induction l1 as [|x l1 IH]; cbn; [reflexivity|]. rewrite IH. lia. Qed.

Lemma sumf_nonneg {A} (f : A -> Z) l : Forall (fun x => 0 <= f x) l -> 0 <= sumf f l.
Proof. induction 1; cbn; lia. Qed.

Lemma sumf_upd {A} (f : A -> Z) l i x y :
  nth_error l i = Some x -> sumf f (upd l i y) = sumf f l - f x + f y.
Proof.
  revert i. induction l as [|a l IH]; intros [|i] H; cbn in *; try discriminate.
  - inversion H; subst. lia.
  - rewrite (IH _ H). lia.
Qed.

Lemma sumf_ext2 {A B} (f : A -> Z) (g : B -> Z) l l' :
  Forall2 (fun a b => f a = g b) l l' -> sumf f l = sumf g l'.
Proof. induction 1; cbn; lia. Qed.

Lemma length_upd {A} (l : list A) i x : length (upd l i x) = length l.
Proof. revert i; induction l; intros [|i]; cbn; auto. Qed.

Lemma nth_error_upd_eq {A} (l : list A) i x y :
  nth_error l i = Some x -> nth_error (upd l i y) i = Some y.
Proof. revert i; induction l; intros [|i] H; cbn in *; try discriminate; auto. Qed.

Lemma nth_error_upd_ne {A} (l : list A) i j y :
  i <> j -> nth_error (upd l i y) j = nth_error l j.
Proof.
  revert i j; induction l; intros [|i] [|j] H; cbn; auto; try congruence.
Qed.

Lemma Forall2_upd {A B} (P : A -> B -> Prop) l l' i x y :
  Forall2 P l l' -> P x y -> Forall2 P (upd l i x) (upd l' i y).
Proof.
  intros H; revert i; induction H; intros [|i] Hp; cbn; constructor; auto.
Qed.

Lemma Forall2_nth {A B} (P : A -> B -> Prop) l l' i x :
  Forall2 P l l' -> nth_error l i = Some x -> exists y, nth_error l' i = Some y /\ P x y.
Proof.
  intros H; revert i; induction H; intros [|i] Hn; cbn in *; try discriminate.
  - inversion Hn; subst. eauto.
  - eauto.
Qed.

Lemma Forall2_nth2 {A B} (P : A -> B -> Prop) l l' i x y :
  Forall2 P l l' -> nth_error l i = Some x -> nth_error l' i = Some y -> P x y.
Proof.
  intros H Hx Hy. destruct (Forall2_nth _ _ _ _ _ H Hx) as [y' [Hy' Hp]]. congruence.
Qed.

Lemma Forall2_weaken {A B} (P Q : A -> B -> Prop) l l' :
  (forall a b, P a b -> Q a b) -> Forall2 P l l' -> Forall2 Q l l'.
Proof. intros HPQ H; induction H; constructor; auto. Qed.

Lemma Forall2_Forall_l {A B} (P : A -> B -> Prop) (Q : A -> Prop) l l' :
  (forall a b, P a b -> Q a) -> Forall2 P l l' -> Forall Q l.
Proof. intros HPQ H; induction H; constructor; eauto. Qed.

Lemma Forall2_Forall_r {A B} (P : A -> B -> Prop) (Q : B -> Prop) l l' :
  (forall a b, P a b -> Q b) -> Forall2 P l l' -> Forall Q l'.
Proof. intros HPQ H; induction H; constructor; eauto. Qed.

Lemma nth_error_Some_lt {A} (l : list A) i : (i < length l)%nat -> exists x, nth_error l i = Some x.
Proof.
  intros H. destruct (nth_error l i) eqn:E; eauto. apply nth_error_None in E. lia.
Qed.

(** ** Effect of each method of baseFlowController / connectionFlowController *)

Ltac brk :=
  repeat match goal with
  | H : context [if ?b then _ else _] |- _ => destruct b eqn:?
  | |- context [if ?b then _ else _] => destruct b eqn:?
  end.

Definition same_send (c c' : base) : Prop :=
  bytesSent c' = bytesSent c /\ sendWindow c' = sendWindow c /\ lastBlockedAt c' = lastBlockedAt c.

(** everything on the receive side except the window size and the auto-tuning epoch *)
Definition same_recv_core (c c' : base) : Prop :=
  bytesRead c' = bytesRead c /\ highestReceived c' = highestReceived c /\
  maxReceiveWindowSize c' = maxReceiveWindowSize c.

Definition rws_grows (c c' : base) : Prop :=
  receiveWindowSize c <= receiveWindowSize c' <= Z.max (receiveWindowSize c) (maxReceiveWindowSize c).

Lemma b_isNewlyBlocked_spec c c' b off :
  b_isNewlyBlocked c = (c', (b, off)) ->
  bytesSent c' = bytesSent c /\ sendWindow c' = sendWindow c /\
  same_recv_core c c' /\ receiveWindow c' = receiveWindow c /\ receiveWindowSize c' = receiveWindowSize c /\
  (b = false -> c' = c) /\
  (b = true -> off = sendWindow c /\ lastBlockedAt c' = sendWindow c /\ sendWindow c <> lastBlockedAt c /\
               b_sendWindowSize c = 0).
Proof.
  unfold b_isNewlyBlocked, same_recv_core. intros H. destruct c. brk; inversion H; subst; cbn in *;
    repeat split; intros; try discriminate; try congruence; lia.
Qed.

Lemma b_updateSendWindow_spec c off c' u :
  b_updateSendWindow c off = (c', u) ->
  bytesSent c' = bytesSent c /\ sendWindow c' = Z.max (sendWindow c) off /\ lastBlockedAt c' = lastBlockedAt c /\
  same_recv_core c c' /\ receiveWindow c' = receiveWindow c /\ receiveWindowSize c' = receiveWindowSize c /\
  u = (off >? sendWindow c).
Proof.
  unfold b_updateSendWindow, same_recv_core. intros H. destruct c. cbn in *. brk; inversion H; subst; cbn;
    repeat split; try lia.
Qed.

Lemma b_maybeAdjust_spec c now rtt fast an al c' d :
  b_maybeAdjust c now rtt fast an al = (c', d) ->
  same_send c c' /\ same_recv_core c c' /\ receiveWindow c' = receiveWindow c /\ rws_grows c c'.
Proof.
  unfold b_maybeAdjust, same_send, same_recv_core, rws_grows. intros H. destruct c. cbn in *.
  brk; inversion H; subst; cbn; repeat split; lia.
Qed.

Lemma b_getWindowUpdate_spec c now rtt fast an al c' v d :
  b_getWindowUpdate c now rtt fast an al = (c', v, d) ->
  same_send c c' /\ same_recv_core c c' /\ rws_grows c c' /\
  ((b_hasWindowUpdate c = false /\ c' = c /\ v = 0) \/
   (b_hasWindowUpdate c = true /\ receiveWindow c' = bytesRead c + receiveWindowSize c' /\ v = receiveWindow c')).
Proof.
  unfold b_getWindowUpdate. intros H.
  destruct (b_hasWindowUpdate c) eqn:Hw; cbn in H.
  - destruct (b_maybeAdjust c now rtt fast an al) as [c1 d1] eqn:Ha.
    apply b_maybeAdjust_spec in Ha. destruct Ha as (Hs & Hr & Hrw & Hg).
    inversion H; subst; clear H.
    unfold same_send, same_recv_core, rws_grows in *. destruct c1, c; cbn in *.
    repeat split; try lia. all: try (right; repeat split; lia).
  - inversion H; subst. unfold same_send, same_recv_core, rws_grows. repeat split; try lia. left; auto.
Qed.

Lemma c_ensureMinimumWindowSize_spec c inc now al c' d :
  c_ensureMinimumWindowSize c inc now al = (c', d) ->
  same_send c c' /\ same_recv_core c c' /\ receiveWindow c' = receiveWindow c /\ rws_grows c c'.
Proof.
  unfold c_ensureMinimumWindowSize, same_send, same_recv_core, rws_grows. intros H. destruct c. cbn in *.
  brk; inversion H; subst; cbn; repeat split; lia.
Qed.

Lemma c_incrementHighestReceived_spec c inc now c' viol :
  c_incrementHighestReceived c inc now = (c', viol) ->
  same_send c c' /\ bytesRead c' = bytesRead c /\ highestReceived c' = highestReceived c + inc /\
  maxReceiveWindowSize c' = maxReceiveWindowSize c /\
  receiveWindow c' = receiveWindow c /\ receiveWindowSize c' = receiveWindowSize c /\
  viol = (highestReceived c + inc >? receiveWindow c).
Proof.
  unfold c_incrementHighestReceived, same_send, b_violation. intros H. destruct c. cbn in *.
  brk; inversion H; subst; cbn; repeat split; lia.
Qed.

Lemma c_addBytesRead_spec c n c' h :
  c_addBytesRead c n = (c', h) ->
  same_send c c' /\ bytesRead c' = bytesRead c + n /\ highestReceived c' = highestReceived c /\
  maxReceiveWindowSize c' = maxReceiveWindowSize c /\
  receiveWindow c' = receiveWindow c /\ receiveWindowSize c' = receiveWindowSize c.
Proof.
  unfold c_addBytesRead, same_send. intros H. destruct c. cbn in *. inversion H; subst; cbn. repeat split; lia.
Qed.

Lemma c_reset_spec c c' e :
  c_reset c = (c', e) ->
  (e = true -> c' = c) /\
  (e = false -> bytesSent c' = 0 /\ sendWindow c' = 0 /\ lastBlockedAt c' = 0 /\
                bytesRead c <= 0 /\ highestReceived c <= 0 /\
                same_recv_core c c' /\ receiveWindow c' = receiveWindow c /\ receiveWindowSize c' = receiveWindowSize c).
Proof.
  unfold c_reset, same_recv_core. intros H. destruct c. cbn in *.
  brk; inversion H; subst; cbn; split; intros; try discriminate; auto; repeat split; lia.
Qed.

(** A pending window update always raises the limit (for a positive window size). *)
Lemma hasWindowUpdate_raises c w :
  b_hasWindowUpdate c = true -> 0 < receiveWindowSize c -> receiveWindowSize c <= w ->
  receiveWindow c < bytesRead c + w.
Proof.
  unfold b_hasWindowUpdate. intros H Hp Hw. pose proof (keepOf_bounds _ Hp). lia.
Qed.

Lemma s_getWindowUpdate_spec st c now rtt fast al st' c' v d :
  s_getWindowUpdate st c now rtt fast al = (st', c', v, d) ->
  finalRecv st' = finalRecv st /\
  same_send (sb st) (sb st') /\ same_recv_core (sb st) (sb st') /\ rws_grows (sb st) (sb st') /\
  same_send c c' /\ same_recv_core c c' /\ receiveWindow c' = receiveWindow c /\ rws_grows c c' /\
  ((v = 0 /\ receiveWindow (sb st') = receiveWindow (sb st)) \/
   (finalRecv st = false /\ b_hasWindowUpdate (sb st) = true /\
    receiveWindow (sb st') = bytesRead (sb st) + receiveWindowSize (sb st') /\ v = receiveWindow (sb st'))).
Proof.
  unfold s_getWindowUpdate. intros H.
  destruct (finalRecv st) eqn:Hf.
  { inversion H; subst. unfold same_send, same_recv_core, rws_grows. repeat split; try lia. all: try (left; split; auto). }
  destruct (b_getWindowUpdate (sb st) now rtt fast true false) as [[b1 off] d0] eqn:Hg.
  apply b_getWindowUpdate_spec in Hg. destruct Hg as (Hs & Hr & Hgr & Hcase).
  assert (Hstream : (off = 0 /\ receiveWindow b1 = receiveWindow (sb st)) \/
                    (false = false /\ b_hasWindowUpdate (sb st) = true /\
                     receiveWindow b1 = bytesRead (sb st) + receiveWindowSize b1 /\ off = receiveWindow b1)).
  { destruct Hcase as [(Hw & Hc & Hv)|(Hw & Hrw & Hv)]; [left; subst; auto | right; auto]. }
  destruct (receiveWindowSize b1 >? receiveWindowSize (sb st)) eqn:Hgt.
  - destruct (c_ensureMinimumWindowSize c (multOf (receiveWindowSize b1)) now al) as [c1 d1] eqn:He.
    apply c_ensureMinimumWindowSize_spec in He. destruct He as (Hcs & Hcr & Hcw & Hcg).
    inversion H; subst; clear H. cbn. repeat split; auto; try apply Hs; try apply Hr; try apply Hgr;
      try apply Hcs; try apply Hcr; try apply Hcg.
  - inversion H; subst; clear H. cbn. unfold same_send, same_recv_core, rws_grows in *.
    repeat split; auto; try lia.
Qed.
