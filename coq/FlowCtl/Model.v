(** FlowCtl — executable model of /repo/internal/flowcontrol
    (base_flow_controller.go, stream_flow_controller.go, connection_flow_controller.go).

    One [base] record carries the ten counters of [baseFlowController]; a [stream] adds
    [receivedFinalOffset]; a [sys] is one connection controller shared by a list of stream
    controllers (index = position).  Every function mirrors one Go method: same state
    variables, same branch order, same constants (from Gen.Params).

    Oracles (values logged from the implementation, the theorems hold for all of them):
      [now]   the monotime.Time argument (ns; 0 = zero time, as in the code),
      [rtt]   rttStats.SmoothedRTT() at the time of the call (ns),
      [fast]  the float comparison [now.Sub(epochStartTime) < 4*fraction*rtt] of
              maybeAdjustWindowSize,
      [allow] the answer of the connection's allowWindowIncrease callback (if consulted).
    ByteCount is int64 in Go; the model computes in Z (no wrap-around: all values the
    harness and the wire can produce are < 2^62). *)
From Coq Require Import ZArith List Bool.
From V Require Import Gen.Params.
Import ListNotations.
Open Scope Z_scope.

Record base := mkBase {
  bytesSent : Z; sendWindow : Z; lastBlockedAt : Z;
  bytesRead : Z; highestReceived : Z; receiveWindow : Z;
  receiveWindowSize : Z; maxReceiveWindowSize : Z;
  epochStartTime : Z; epochStartOffset : Z }.

Definition set_bytesSent (c : base) v := mkBase v (sendWindow c) (lastBlockedAt c) (bytesRead c) (highestReceived c) (receiveWindow c) (receiveWindowSize c) (maxReceiveWindowSize c) (epochStartTime c) (epochStartOffset c).
Definition set_sendWindow (c : base) v := mkBase (bytesSent c) v (lastBlockedAt c) (bytesRead c) (highestReceived c) (receiveWindow c) (receiveWindowSize c) (maxReceiveWindowSize c) (epochStartTime c) (epochStartOffset c).
Definition set_lastBlockedAt (c : base) v := mkBase (bytesSent c) (sendWindow c) v (bytesRead c) (highestReceived c) (receiveWindow c) (receiveWindowSize c) (maxReceiveWindowSize c) (epochStartTime c) (epochStartOffset c).
Definition set_bytesRead (c : base) v := mkBase (bytesSent c) (sendWindow c) (lastBlockedAt c) v (highestReceived c) (receiveWindow c) (receiveWindowSize c) (maxReceiveWindowSize c) (epochStartTime c) (epochStartOffset c).
Definition set_highestReceived (c : base) v := mkBase (bytesSent c) (sendWindow c) (lastBlockedAt c) (bytesRead c) v (receiveWindow c) (receiveWindowSize c) (maxReceiveWindowSize c) (epochStartTime c) (epochStartOffset c).
Definition set_receiveWindow (c : base) v := mkBase (bytesSent c) (sendWindow c) (lastBlockedAt c) (bytesRead c) (highestReceived c) v (receiveWindowSize c) (maxReceiveWindowSize c) (epochStartTime c) (epochStartOffset c).
Definition set_receiveWindowSize (c : base) v := mkBase (bytesSent c) (sendWindow c) (lastBlockedAt c) (bytesRead c) (highestReceived c) (receiveWindow c) v (maxReceiveWindowSize c) (epochStartTime c) (epochStartOffset c).
Definition set_epoch (c : base) t o := mkBase (bytesSent c) (sendWindow c) (lastBlockedAt c) (bytesRead c) (highestReceived c) (receiveWindow c) (receiveWindowSize c) (maxReceiveWindowSize c) t o.

(** NewStreamFlowController / NewConnectionFlowController: everything else is zero. *)
Definition new_base (rw maxrw sw : Z) : base := mkBase 0 sw 0 0 0 rw rw maxrw 0 0.

(** ** baseFlowController *)

(** SendWindowSize *)
Definition b_sendWindowSize (c : base) : Z :=
  if bytesSent c >? sendWindow c then 0 else sendWindow c - bytesSent c.

(** IsNewlyBlocked *)
Definition b_isNewlyBlocked (c : base) : base * (bool * Z) :=
  if negb (b_sendWindowSize c =? 0) || (sendWindow c =? lastBlockedAt c) then (c, (false, 0))
  else (set_lastBlockedAt c (sendWindow c), (true, sendWindow c)).

(** AddBytesSent *)
Definition b_addBytesSent (c : base) (n : Z) : base := set_bytesSent c (bytesSent c + n).

(** UpdateSendWindow *)
Definition b_updateSendWindow (c : base) (offset : Z) : base * bool :=
  if offset >? sendWindow c then (set_sendWindow c offset, true) else (c, false).

(** addBytesRead *)
Definition b_addBytesRead (c : base) (n : Z) : base := set_bytesRead c (bytesRead c + n).

(** ByteCount(float64(x) * (1 - WindowUpdateThreshold)): exact below 2^51, truncated. *)
Definition keepOf (x : Z) : Z := Z.quot (x * fcKeepNum) fcKeepDen.
(** ByteCount(float64(x) * ConnectionFlowControlMultiplier) *)
Definition multOf (x : Z) : Z := Z.quot (x * fcMultNum) fcMultDen.

(** hasWindowUpdate *)
Definition b_hasWindowUpdate (c : base) : bool :=
  receiveWindow c - bytesRead c <=? keepOf (receiveWindowSize c).

(** startNewAutoTuningEpoch *)
Definition b_startEpoch (c : base) (now : Z) : base := set_epoch c now (bytesRead c).

(** maybeAdjustWindowSize. [allowNil]: allowWindowIncrease == nil (stream controllers).
    Second component: the argument the callback was invoked with, or -1. *)
Definition b_maybeAdjust (c : base) (now rtt : Z) (fast allowNil allow : bool) : base * Z :=
  let bytesReadInEpoch := bytesRead c - epochStartOffset c in
  if bytesReadInEpoch <=? Z.quot (receiveWindowSize c) 2 then (c, -1)
  else if rtt =? 0 then (c, -1)
  else
    let '(c1, d) :=
      if fast then
        let newSize := Z.min (2 * receiveWindowSize c) (maxReceiveWindowSize c) in
        if newSize >? receiveWindowSize c then
          if allowNil then (set_receiveWindowSize c newSize, -1)
          else ((if allow then set_receiveWindowSize c newSize else c), newSize - receiveWindowSize c)
        else (c, -1)
      else (c, -1) in
    (b_startEpoch c1 now, d).

(** getWindowUpdate: (state, offset or 0, callback argument or -1) *)
Definition b_getWindowUpdate (c : base) (now rtt : Z) (fast allowNil allow : bool) : base * Z * Z :=
  if negb (b_hasWindowUpdate c) then (c, 0, -1)
  else
    let '(c1, d) := b_maybeAdjust c now rtt fast allowNil allow in
    let c2 := set_receiveWindow c1 (bytesRead c1 + receiveWindowSize c1) in
    (c2, receiveWindow c2, d).

(** checkFlowControlViolation *)
Definition b_violation (c : base) : bool := highestReceived c >? receiveWindow c.

(** ** connectionFlowController *)

(** IncrementHighestReceived: (state, FLOW_CONTROL_ERROR?) *)
Definition c_incrementHighestReceived (c : base) (inc now : Z) : base * bool :=
  let c1 := if highestReceived c =? 0 then b_startEpoch c now else c in
  let c2 := set_highestReceived c1 (highestReceived c1 + inc) in
  (c2, b_violation c2).

(** AddBytesRead *)
Definition c_addBytesRead (c : base) (n : Z) : base * bool :=
  let c1 := b_addBytesRead c n in (c1, b_hasWindowUpdate c1).

(** GetWindowUpdate (the connection's allowWindowIncrease is never nil, connection.go:525) *)
Definition c_getWindowUpdate (c : base) (now rtt : Z) (fast allow : bool) : base * Z * Z :=
  b_getWindowUpdate c now rtt fast false allow.

(** EnsureMinimumWindowSize: (state, callback argument or -1) *)
Definition c_ensureMinimumWindowSize (c : base) (inc now : Z) (allow : bool) : base * Z :=
  if inc <=? receiveWindowSize c then (c, -1)
  else
    let newSize := Z.min inc (maxReceiveWindowSize c) in
    let delta := newSize - receiveWindowSize c in
    let '(c1, d) := if delta >? 0 then ((if allow then set_receiveWindowSize c newSize else c), delta)
                    else (c, -1) in
    (b_startEpoch c1 now, d).

(** Reset: (state, error?) *)
Definition c_reset (c : base) : base * bool :=
  if (bytesRead c >? 0) || (highestReceived c >? 0) || negb (epochStartTime c =? 0) then (c, true)
  else (set_sendWindow (set_lastBlockedAt (set_bytesSent c 0) 0) 0, false).

(** ** streamFlowController *)

Record stream := mkStream { sb : base; finalRecv : bool }.

Definition new_stream (rw maxrw sw : Z) : stream := mkStream (new_base rw maxrw sw) false.

(** Error classes are the QUIC transport error codes (0 = nil). *)
Definition errNone : Z := 0.

(** UpdateHighestReceived *)
Definition s_updateHighestReceived (st : stream) (conn : base) (offset : Z) (final : bool) (now : Z)
  : stream * base * Z :=
  let b := sb st in
  if finalRecv st && ((final && negb (offset =? highestReceived b)) || (offset >? highestReceived b))
  then (st, conn, fcErrFinalSize)
  else
    let fin1 := if final then true else finalRecv st in
    if offset =? highestReceived b then (mkStream b fin1, conn, errNone)
    else if offset <? highestReceived b then
      (mkStream b fin1, conn, if final then fcErrFinalSize else errNone)
    else
      let b1 := if highestReceived b =? 0 then b_startEpoch b now else b in
      let increment := offset - highestReceived b1 in
      let b2 := set_highestReceived b1 offset in
      if b_violation b2 then (mkStream b2 fin1, conn, fcErrFlowControl)
      else
        let '(conn1, viol) := c_incrementHighestReceived conn increment now in
        (mkStream b2 fin1, conn1, if viol then fcErrFlowControl else errNone).

(** AddBytesRead: (stream, conn, hasStreamWindowUpdate, hasConnWindowUpdate) *)
Definition s_addBytesRead (st : stream) (conn : base) (n : Z) : stream * base * bool * bool :=
  let b1 := b_addBytesRead (sb st) n in
  let hasS := negb (finalRecv st) && b_hasWindowUpdate b1 in
  let '(conn1, hasC) := c_addBytesRead conn n in
  (mkStream b1 (finalRecv st), conn1, hasS, hasC).

(** Abandon *)
Definition s_abandon (st : stream) (conn : base) : stream * base :=
  let b := sb st in
  let unread := highestReceived b - bytesRead b in
  let b1 := set_bytesRead b (highestReceived b) in
  (mkStream b1 (finalRecv st), if unread >? 0 then fst (c_addBytesRead conn unread) else conn).

(** AddBytesSent *)
Definition s_addBytesSent (st : stream) (conn : base) (n : Z) : stream * base :=
  (mkStream (b_addBytesSent (sb st) n) (finalRecv st), b_addBytesSent conn n).

(** SendWindowSize *)
Definition s_sendWindowSize (st : stream) (conn : base) : Z :=
  Z.min (b_sendWindowSize (sb st)) (b_sendWindowSize conn).

(** IsNewlyBlocked (stream level only: baseFlowController.IsNewlyBlocked on the embedded base) *)
Definition s_isNewlyBlocked (st : stream) : stream * bool :=
  let '(b1, (blocked, _)) := b_isNewlyBlocked (sb st) in (mkStream b1 (finalRecv st), blocked).

(** UpdateSendWindow *)
Definition s_updateSendWindow (st : stream) (offset : Z) : stream * bool :=
  let '(b1, upd) := b_updateSendWindow (sb st) offset in (mkStream b1 (finalRecv st), upd).

(** GetWindowUpdate: (stream, conn, offset, callback argument or -1) *)
Definition s_getWindowUpdate (st : stream) (conn : base) (now rtt : Z) (fast allow : bool)
  : stream * base * Z * Z :=
  if finalRecv st then (st, conn, 0, -1)
  else
    let oldWindowSize := receiveWindowSize (sb st) in
    let '(b1, offset, _) := b_getWindowUpdate (sb st) now rtt fast true false in
    if receiveWindowSize b1 >? oldWindowSize then
      let '(conn1, d) := c_ensureMinimumWindowSize conn (multOf (receiveWindowSize b1)) now allow in
      (mkStream b1 (finalRecv st), conn1, offset, d)
    else (mkStream b1 (finalRecv st), conn, offset, -1).

(** ** One connection controller shared by the stream controllers *)

Record sys := mkSys { conn : base; streams : list stream }.

Definition init_sys (cw cmax : Z) : sys := mkSys (new_base cw cmax 0) [].

Inductive op :=
| NewStream (rw maxrw sw : Z)
| SSent (i n : Z)
| SUpdSend (i off : Z)
| SSendWin (i : Z)
| SBlocked (i : Z)
| SRecv (i off : Z) (final : bool) (now : Z)
| SRead (i n : Z)
| SAbandon (i : Z)
| SWinUpd (i now rtt : Z) (fast allow : bool)
| CUpdSend (off : Z)
| CSendWin
| CBlocked
| CWinUpd (now rtt : Z) (fast allow : bool)
| CReset.

Definition ret := (Z * Z)%type.
Definition z_of_bool (b : bool) : Z := if b then 1 else 0.
Definition badIndex : ret := (-7, -7).

Fixpoint upd {A} (l : list A) (i : nat) (x : A) : list A :=
  match l, i with
  | [], _ => []
  | _ :: r, O => x :: r
  | y :: r, S j => y :: upd r j x
  end.

Definition with_stream (s : sys) (i : Z) (f : stream -> sys * ret) : sys * ret :=
  if i <? 0 then (s, badIndex)
  else match nth_error (streams s) (Z.to_nat i) with
       | None => (s, badIndex)
       | Some st => f st
       end.

Definition put (s : sys) (i : Z) (st : stream) (c : base) : sys :=
  mkSys c (upd (streams s) (Z.to_nat i) st).

Definition step (s : sys) (o : op) : sys * ret :=
  match o with
  | NewStream rw maxrw sw => (mkSys (conn s) (streams s ++ [new_stream rw maxrw sw]), (0, 0))
  | SSent i n => with_stream s i (fun st =>
      let '(st1, c1) := s_addBytesSent st (conn s) n in (put s i st1 c1, (0, 0)))
  | SUpdSend i off => with_stream s i (fun st =>
      let '(st1, u) := s_updateSendWindow st off in (put s i st1 (conn s), (z_of_bool u, 0)))
  | SSendWin i => with_stream s i (fun st => (s, (s_sendWindowSize st (conn s), 0)))
  | SBlocked i => with_stream s i (fun st =>
      let '(st1, b) := s_isNewlyBlocked st in (put s i st1 (conn s), (z_of_bool b, 0)))
  | SRecv i off final now => with_stream s i (fun st =>
      let '(st1, c1, e) := s_updateHighestReceived st (conn s) off final now in (put s i st1 c1, (e, 0)))
  | SRead i n => with_stream s i (fun st =>
      let '(st1, c1, hs, hc) := s_addBytesRead st (conn s) n in (put s i st1 c1, (z_of_bool hs, z_of_bool hc)))
  | SAbandon i => with_stream s i (fun st =>
      let '(st1, c1) := s_abandon st (conn s) in (put s i st1 c1, (0, 0)))
  | SWinUpd i now rtt fast allow => with_stream s i (fun st =>
      let '(st1, c1, off, d) := s_getWindowUpdate st (conn s) now rtt fast allow in (put s i st1 c1, (off, d)))
  | CUpdSend off => let '(c1, u) := b_updateSendWindow (conn s) off in (mkSys c1 (streams s), (z_of_bool u, 0))
  | CSendWin => (s, (b_sendWindowSize (conn s), 0))
  | CBlocked => let '(c1, (b, off)) := b_isNewlyBlocked (conn s) in (mkSys c1 (streams s), (z_of_bool b, off))
  | CWinUpd now rtt fast allow =>
      let '(c1, off, d) := c_getWindowUpdate (conn s) now rtt fast allow in (mkSys c1 (streams s), (off, d))
  | CReset =>
      (* connection.go dropEncryptionLevel(0-RTT): streamsMap.ResetFor0RTT() discards every
         stream, then connFlowController.Reset() *)
      let '(c1, err) := c_reset (conn s) in
      if err then (s, (1, 0)) else (mkSys c1 [], (0, 0))
  end.

Fixpoint run (s : sys) (ops : list op) : sys * list ret :=
  match ops with
  | [] => (s, [])
  | o :: r => let '(s1, x) := step s o in let '(s2, xs) := run s1 r in (s2, x :: xs)
  end.

Definition dump_base (c : base) : list Z :=
  [bytesSent c; sendWindow c; lastBlockedAt c; bytesRead c; highestReceived c; receiveWindow c;
   receiveWindowSize c; maxReceiveWindowSize c; epochStartTime c; epochStartOffset c].
