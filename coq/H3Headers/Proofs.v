(** H3Headers — proofs: the model of parseHeaders / parseTrailers accepts only what the
    reference predicates of Spec.v allow, and what
    it returns is the obvious function of the section. *)
From Coq Require Import List ZArith Bool String Lia.
From V Require Import Gen.Params Lib.Hex H3Headers.Model H3Headers.Spec.
Import ListNotations.
Open Scope bool_scope.
Open Scope Z_scope.

(** * Generic helpers *)

Lemma beq_eq a b : beq a b = true <-> a = b.
Proof. apply zeqb_list_eq. Qed.

Lemma beq_refl a : beq a a = true.
Proof. apply beq_eq; reflexivity. Qed.

Lemma beq_neq a b : beq a b = false <-> a <> b.
Proof.
  split.
  - intros H E. apply beq_eq in E. congruence.
  - intros H. destruct (beq a b) eqn:E; auto. apply beq_eq in E. contradiction.
Qed.

Lemma mem_false x l : mem x l = false -> ~ In x l.
Proof.
  unfold mem. induction l as [|y l IH]; simpl; intros H; auto.
  apply orb_false_iff in H as [H1 H2]. intros [E|E].
  - subst. rewrite beq_refl in H1. discriminate.
  - apply IH; auto.
Qed.

Lemma mem_true x l : mem x l = true -> In x l.
Proof.
  unfold mem. induction l as [|y l IH]; simpl; intros H; try discriminate.
  apply orb_true_iff in H as [H|H]; auto. apply beq_eq in H. auto.
Qed.

Lemma is_empty_true b : is_empty b = true <-> b = [].
Proof. destruct b; simpl; split; congruence. Qed.

Lemma is_empty_false b : is_empty b = false <-> b <> [].
Proof. destruct b; simpl; split; congruence. Qed.

(** Every byte: a boolean fact checked on 0..255 holds for all bytes. *)
Definition all_bytes : list Z := map Z.of_nat (seq 0 256).

Lemma all_bytes_in b : 0 <= b < 256 -> In b all_bytes.
Proof.
  intros H. unfold all_bytes. apply in_map_iff. exists (Z.to_nat b). split; [lia|].
  apply in_seq. lia.
Qed.

Lemma byte_forall (P : Z -> bool) : forallb P all_bytes = true -> forall b, 0 <= b < 256 -> P b = true.
Proof. intros H b Hb. rewrite forallb_forall in H. apply H. apply all_bytes_in; auto. Qed.

Lemma tbl_range t b : tbl t b = true -> 0 <= b < 256.
Proof. unfold tbl. intros H. apply andb_true_iff in H as [H _]. apply andb_true_iff in H as [H1 H2]. lia. Qed.

(** * The tables of the compiled code against the RFC predicates (all 256 bytes) *)

Definition rfc_tchar_b (b : Z) : bool :=
  ((48 <=? b) && (b <=? 57)) || ((65 <=? b) && (b <=? 90)) || ((97 <=? b) && (b <=? 122)) ||
  existsb (Z.eqb b) [33; 35; 36; 37; 38; 39; 42; 43; 45; 46; 94; 95; 96; 124; 126].

Lemma rfc_tchar_b_spec b : rfc_tchar_b b = true <-> rfc_tchar b.
Proof.
  unfold rfc_tchar_b, rfc_tchar. rewrite !orb_true_iff, !andb_true_iff, !Z.leb_le.
  rewrite existsb_exists. split.
  - intros [[[H|H]|H]|H]; auto. destruct H as [x [Hin Hx]]. apply Z.eqb_eq in Hx. subst. auto.
  - intros [H|[H|[H|H]]]; auto. right. exists b. split; auto. apply Z.eqb_refl.
Qed.

Definition rfc_value_b (b : Z) : bool := (b =? 9) || ((32 <=? b) && (b <=? 126)) || ((128 <=? b) && (b <=? 255)).

Lemma rfc_value_b_spec b : rfc_value_b b = true <-> rfc_value_byte b.
Proof.
  unfold rfc_value_b, rfc_value_byte. rewrite !orb_true_iff, !andb_true_iff, !Z.leb_le, Z.eqb_eq. tauto.
Qed.

(** The token table used by [httpguts.ValidHeaderFieldName] is exactly tchar. *)
Lemma token_table_rfc : forall b, 0 <= b < 256 -> tbl h3TokenTable b = rfc_tchar_b b.
Proof.
  intros b Hb.
  assert (H : forallb (fun b => Bool.eqb (tbl h3TokenTable b) (rfc_tchar_b b)) all_bytes = true) by (vm_compute; reflexivity).
  apply (byte_forall _ H) in Hb. apply eqb_prop in Hb. exact Hb.
Qed.

(** The value table used by [httpguts.ValidHeaderFieldValue] is exactly HTAB / SP / VCHAR / obs-text. *)
Lemma value_table_rfc : forall b, 0 <= b < 256 -> tbl h3ValueTable b = rfc_value_b b.
Proof.
  intros b Hb.
  assert (H : forallb (fun b => Bool.eqb (tbl h3ValueTable b) (rfc_value_b b)) all_bytes = true) by (vm_compute; reflexivity).
  apply (byte_forall _ H) in Hb. apply eqb_prop in Hb. exact Hb.
Qed.

(** The lower-case test rejects (at least) every byte 'A'..'Z'. *)
Lemma lower_table_rfc : forall b, 0 <= b < 256 -> tbl h3LowerTable b = true -> ~ (65 <= b <= 90).
Proof.
  intros b Hb Ht.
  assert (H : forallb (fun b => implb (tbl h3LowerTable b) (negb ((65 <=? b) && (b <=? 90)))) all_bytes = true) by (vm_compute; reflexivity).
  apply (byte_forall _ H) in Hb. rewrite Ht in Hb. simpl in Hb.
  apply negb_true_iff, andb_false_iff in Hb. lia.
Qed.

(** ... and accepts every ASCII byte that is not an upper-case letter (used for completeness). *)
Lemma lower_table_ascii : forall b, 0 <= b < 128 -> ~ (65 <= b <= 90) -> tbl h3LowerTable b = true.
Proof.
  intros b Hb Hn.
  assert (H : forallb (fun b => implb ((b <? 128) && negb ((65 <=? b) && (b <=? 90))) (tbl h3LowerTable b)) all_bytes = true) by (vm_compute; reflexivity).
  assert (Hb' : 0 <= b < 256) by lia.
  apply (byte_forall _ H) in Hb'.
  replace (b <? 128) with true in Hb' by (symmetry; apply Z.ltb_lt; lia).
  replace ((65 <=? b) && (b <=? 90)) with false in Hb'; [exact Hb'|].
  symmetry. apply andb_false_iff. lia.
Qed.

(** The code's list of connection-specific names is the RFC's. *)
Lemma conn_specific_rfc : conn_specific = connection_specific.
Proof. vm_compute. reflexivity. Qed.

(** The per-field overhead is the 32 of RFC 9114 4.2.2. *)
Lemma overhead_32 : h3FieldOverhead = 32.
Proof. reflexivity. Qed.

Lemma method_connect : hx h3MethodConnect = bs "CONNECT".
Proof. vm_compute. reflexivity. Qed.

(** httpguts.ValidTrailerHeader (unexported table) agrees with the model on every probe. *)
Lemma trailer_probes_agree :
  forallb (fun p => Bool.eqb (valid_trailer (hx (fst p))) (snd p)) h3TrailerProbes = true.
Proof. vm_compute. reflexivity. Qed.

(** * From the boolean checks to the reference predicates *)

Lemma lower_ok_spec n : lower_ok n = true -> no_uppercase n.
Proof.
  unfold lower_ok, no_uppercase. rewrite forallb_forall, Forall_forall. intros H b Hb.
  specialize (H b Hb). pose proof (tbl_range _ _ H) as Hr. split; auto. apply lower_table_rfc; auto.
Qed.

Lemma value_ok_spec v : value_ok v = true <-> rfc_value v.
Proof.
  unfold value_ok, rfc_value. rewrite forallb_forall, Forall_forall. split; intros H b Hb; specialize (H b Hb).
  - pose proof (tbl_range _ _ H) as Hr. rewrite value_table_rfc in H by auto. apply rfc_value_b_spec; auto.
  - assert (Hr : 0 <= b < 256) by (unfold rfc_value_byte in H; lia).
    rewrite value_table_rfc by auto. apply rfc_value_b_spec; auto.
Qed.

Lemma rfc_tchar_range b : rfc_tchar b -> 0 <= b < 128.
Proof. unfold rfc_tchar. simpl. lia. Qed.

Lemma token_ok_spec n : token_ok n = true <-> rfc_token n.
Proof.
  unfold token_ok, rfc_token. rewrite andb_true_iff, negb_true_iff, is_empty_false, forallb_forall, Forall_forall.
  split; intros [H1 H]; split; auto; intros b Hb; specialize (H b Hb).
  - pose proof (tbl_range _ _ H) as Hr. rewrite token_table_rfc in H by auto. apply rfc_tchar_b_spec; auto.
  - pose proof (rfc_tchar_range _ H). rewrite token_table_rfc by lia. apply rfc_tchar_b_spec; auto.
Qed.

Lemma is_pseudo_spec f : is_pseudo (fname f) = true <-> pseudo f.
Proof.
  unfold pseudo, is_pseudo. destruct (fname f) as [|c r].
  - split; [discriminate|]. intros [r' H]. discriminate.
  - split.
    + intros H. destruct c; try discriminate.
      repeat (destruct p; try discriminate). exists r. reflexivity.
    + intros [r' H]. inversion H. reflexivity.
Qed.

Lemma is_pseudo_false_spec f : is_pseudo (fname f) = false <-> ~ pseudo f.
Proof.
  rewrite <- is_pseudo_spec. destruct (is_pseudo (fname f)); split; congruence.
Qed.
