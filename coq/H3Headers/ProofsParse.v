(** H3Headers — the loop of parseHeaders: inversion of one step, then one small invariant
    per aspect (fields, size, order, pseudo-header slots, Content-Length, header map). *)
From Coq Require Import List ZArith Bool String Lia.
From V Require Import Gen.Params Lib.Hex H3Headers.Model H3Headers.Spec H3Headers.Proofs.
Import ListNotations.
Open Scope bool_scope.
Open Scope Z_scope.

(** * One step *)

Definition slot_name (s : slot) : bytes :=
  match s with
  | SPath => bs ":path" | SMethod => bs ":method" | SAuthority => bs ":authority"
  | SProtocol => bs ":protocol" | SScheme => bs ":scheme" | SStatus => bs ":status"
  end.

Lemma pseudo_slot_spec n sl : pseudo_slot n = Some sl <-> n = slot_name sl.
Proof.
  unfold pseudo_slot. split.
  - intros H.
    destruct (beq n (bs ":path")) eqn:E1; [apply beq_eq in E1; inversion H; subst; reflexivity|].
    destruct (beq n (bs ":method")) eqn:E2; [apply beq_eq in E2; inversion H; subst; reflexivity|].
    destruct (beq n (bs ":authority")) eqn:E3; [apply beq_eq in E3; inversion H; subst; reflexivity|].
    destruct (beq n (bs ":protocol")) eqn:E4; [apply beq_eq in E4; inversion H; subst; reflexivity|].
    destruct (beq n (bs ":scheme")) eqn:E5; [apply beq_eq in E5; inversion H; subst; reflexivity|].
    destruct (beq n (bs ":status")) eqn:E6; [apply beq_eq in E6; inversion H; subst; reflexivity|].
    discriminate.
  - intros ->. destruct sl; vm_compute; reflexivity.
Qed.

Lemma slot_name_inj a b : slot_name a = slot_name b -> a = b.
Proof. destruct a, b; intros H; try reflexivity; vm_compute in H; discriminate. Qed.

Lemma slot_name_pseudo s : is_pseudo (slot_name s) = true.
Proof. destruct s; reflexivity. Qed.

Lemma slot_eq_dec (a b : slot) : {a = b} + {a <> b}.
Proof. decide equality. Qed.

Lemma get_set_same s v p : get_slot s (set_slot s v p) = v.
Proof. destruct s; reflexivity. Qed.

Lemma get_set_other s s' v p : s <> s' -> get_slot s (set_slot s' v p) = get_slot s p.
Proof. destruct s, s'; intros H; try reflexivity; contradiction. Qed.

Lemma flag_set_same s g : get_flag s (set_flag s g) = true.
Proof. destruct s; reflexivity. Qed.

Lemma flag_set_other s s' g : s <> s' -> get_flag s (set_flag s' g) = get_flag s g.
Proof. destruct s, s'; intros H; try reflexivity; contradiction. Qed.

Lemma slot_allowed isReq sl : slot_is_response sl = negb isReq -> In (slot_name sl) (allowed_pseudo isReq).
Proof.
  destruct isReq, sl; simpl; intros H; try discriminate; unfold request_pseudo, response_pseudo; simpl; auto 10.
Qed.

Lemma allowed_slot isReq n : In n (allowed_pseudo isReq) -> exists sl, n = slot_name sl /\ slot_is_response sl = negb isReq.
Proof.
  destruct isReq; simpl; intros H.
  - repeat (destruct H as [H|H]; [subst n|]); try contradiction.
    + exists SMethod; auto. + exists SScheme; auto. + exists SAuthority; auto. + exists SPath; auto. + exists SProtocol; auto.
  - destruct H as [H|[]]. subst. exists SStatus; auto.
Qed.

(** The four ways an iteration can succeed. *)
Inductive step_ok (isReq : bool) (st : pst) (f : field) (st' : pst) : Prop :=
| StepPseudo sl :
    is_pseudo (fname f) = true -> pRegular st = false -> fname f = slot_name sl ->
    get_flag sl (pSeen st) = false -> slot_is_response sl = negb isReq -> fvalue f <> [] ->
    st' = PS (set_slot sl (fvalue f) (pPs st)) (set_flag sl (pSeen st)) (pHeaders st) false (pReadCL st) (pCL st) (pLimit st - fsize f) ->
    step_ok isReq st f st'
| StepCLFirst :
    is_pseudo (fname f) = false -> validate_regular f = None -> fname f = n_content_length ->
    pReadCL st = false ->
    st' = PS (pPs st) (pSeen st) (pHeaders st) true true (fvalue f) (pLimit st - fsize f) ->
    step_ok isReq st f st'
| StepCLAgain :
    is_pseudo (fname f) = false -> validate_regular f = None -> fname f = n_content_length ->
    pReadCL st = true -> pCL st = fvalue f ->
    st' = PS (pPs st) (pSeen st) (pHeaders st) true true (pCL st) (pLimit st - fsize f) ->
    step_ok isReq st f st'
| StepRegular :
    is_pseudo (fname f) = false -> validate_regular f = None -> fname f <> n_content_length ->
    st' = PS (pPs st) (pSeen st) (hadd (canon (fname f)) (fvalue f) (pHeaders st)) true (pReadCL st) (pCL st) (pLimit st - fsize f) ->
    step_ok isReq st f st'.

Lemma pstep_inv isReq st f st' :
  pstep isReq st f = inr st' <->
  0 <= pLimit st - fsize f /\ lower_ok (fname f) = true /\ value_ok (fvalue f) = true /\ step_ok isReq st f st'.
Proof.
  unfold pstep. split.
  - intros H.
    destruct (pLimit st - fsize f <? 0) eqn:El; [discriminate|]. apply Z.ltb_ge in El.
    destruct (lower_ok (fname f)) eqn:Elo; simpl in H; [|discriminate].
    destruct (value_ok (fvalue f)) eqn:Ev; simpl in H; [|discriminate].
    repeat split; auto.
    destruct (is_pseudo (fname f)) eqn:Ep.
    + destruct (pRegular st) eqn:Er; [discriminate|].
      destruct (pseudo_slot (fname f)) as [sl|] eqn:Es; [|discriminate].
      apply pseudo_slot_spec in Es.
      destruct (get_flag sl (pSeen st)) eqn:Ee; [discriminate|].
      destruct (isReq && slot_is_response sl) eqn:E1; [discriminate|].
      destruct (negb isReq && negb (slot_is_response sl)) eqn:E2; [discriminate|].
      destruct (is_empty (fvalue f)) eqn:E3; [discriminate|]. apply is_empty_false in E3.
      inversion H; subst st'. eapply StepPseudo; eauto.
      destruct isReq, (slot_is_response sl); simpl in *; congruence.
    + destruct (validate_regular f) as [r|] eqn:Evr; [discriminate|].
      destruct (beq (fname f) n_content_length) eqn:Ec.
      * apply beq_eq in Ec.
        destruct (pReadCL st) eqn:Erc; simpl in H.
        -- destruct (beq (pCL st) (fvalue f)) eqn:Eb; simpl in H; [|discriminate].
           apply beq_eq in Eb. inversion H; subst st'. eapply StepCLAgain; eauto.
        -- inversion H; subst st'. eapply StepCLFirst; eauto.
      * apply beq_neq in Ec. inversion H; subst st'. eapply StepRegular; eauto.
  - intros (Hl & Hlo & Hv & Hs).
    replace (pLimit st - fsize f <? 0) with false by (symmetry; apply Z.ltb_ge; auto).
    rewrite Hlo, Hv. simpl.
    destruct Hs as [sl Hp Hr Hn Hg Hk Hne ->| Hp Hvr Hn Hrc -> | Hp Hvr Hn Hrc Hcl -> | Hp Hvr Hn ->]; rewrite Hp.
    + rewrite Hr. apply pseudo_slot_spec in Hn. rewrite Hn, Hg.
      rewrite Hk. apply is_empty_false in Hne. rewrite Hne. destruct isReq; simpl; reflexivity.
    + rewrite Hvr, Hn, beq_refl, Hrc. reflexivity.
    + rewrite Hvr, Hn, beq_refl, Hrc. simpl. rewrite Hcl, beq_refl. simpl. reflexivity.
    + rewrite Hvr. apply beq_neq in Hn. rewrite Hn. reflexivity.
Qed.

Lemma validate_regular_spec f :
  validate_regular f = None <->
  token_ok (fname f) = true /\ mem (fname f) conn_specific = false /\ (fname f = n_te -> fvalue f = v_trailers).
Proof.
  unfold validate_regular. split.
  - intros H. destruct (token_ok (fname f)); cbn [negb] in H; [|discriminate].
    destruct (mem (fname f) conn_specific); [discriminate|].
    destruct (beq (fname f) n_te && negb (beq (fvalue f) v_trailers)) eqn:E; [discriminate|].
    repeat split; auto. intros Hn. rewrite Hn, beq_refl in E. cbn [andb] in E. apply negb_false_iff, beq_eq in E. auto.
  - intros (H1 & H2 & H3). rewrite H1, H2. cbn [negb].
    destruct (beq (fname f) n_te) eqn:E; cbn [andb]; auto.
    apply beq_eq in E. rewrite (H3 E), beq_refl. reflexivity.
Qed.

(** a successful step implies the per-field rules of the RFC *)
Lemma step_field_wf isReq st f st' :
  lower_ok (fname f) = true -> value_ok (fvalue f) = true -> step_ok isReq st f st' -> field_wf isReq f.
Proof.
  intros Hlo Hv Hs. unfold field_wf. split; [apply lower_ok_spec; auto|]. split; [apply value_ok_spec; auto|].
  assert (Hreg : is_pseudo (fname f) = false -> validate_regular f = None ->
                 (pseudo f -> In (fname f) (allowed_pseudo isReq) /\ fvalue f <> []) /\
                 (~ pseudo f -> rfc_token (fname f) /\ ~ In (fname f) connection_specific /\ (fname f = bs "te" -> fvalue f = bs "trailers"))).
  { intros Hp Hvr. split.
    - intros Hps. apply is_pseudo_spec in Hps. congruence.
    - intros _. apply validate_regular_spec in Hvr as (H1 & H2 & H3).
      split; [apply token_ok_spec; auto|]. split; [rewrite <- conn_specific_rfc; apply mem_false; auto|exact H3]. }
  destruct Hs as [sl Hp Hr Hn Hg Hk Hne _| Hp Hvr _ _ _ | Hp Hvr _ _ _ _ | Hp Hvr _ _]; auto.
  split.
  - intros _. split; auto. rewrite Hn. apply slot_allowed; auto.
  - intros Hnp. apply is_pseudo_false_spec in Hnp. congruence.
Qed.

(** * The loop *)

Lemma ploop_app isReq st l1 l2 te :
  ploop isReq st (l1 ++ l2) te =
  match ploop isReq st l1 false with inl e => inl e | inr st1 => ploop isReq st1 l2 te end.
Proof.
  revert st. induction l1 as [|f l1 IH]; intros st; simpl; auto.
  destruct (pstep isReq st f); auto.
Qed.

Lemma ploop_cons_inv isReq st f r st' :
  ploop isReq st (f :: r) false = inr st' ->
  exists st1, pstep isReq st f = inr st1 /\ ploop isReq st1 r false = inr st'.
Proof. simpl. destruct (pstep isReq st f) as [e|st1]; [discriminate|]. eauto. Qed.

Lemma ploop_app_inv isReq st l1 l2 st' :
  ploop isReq st (l1 ++ l2) false = inr st' ->
  exists st1, ploop isReq st l1 false = inr st1 /\ ploop isReq st1 l2 false = inr st'.
Proof. rewrite ploop_app. destruct (ploop isReq st l1 false) as [e|st1]; [discriminate|]. eauto. Qed.

(** a decoding error can only surface as EQpack, and only after every field was fine *)
Lemma ploop_tailerr isReq st fs :
  ploop isReq st fs true = match ploop isReq st fs false with inl e => inl e | inr _ => inl EQpack end.
Proof.
  revert st. induction fs as [|f r IH]; intros st; simpl; auto.
  destruct (pstep isReq st f); auto.
Qed.

(** ** fields *)
Lemma ploop_fields isReq st fs st' :
  ploop isReq st fs false = inr st' -> Forall (field_wf isReq) fs.
Proof.
  revert st. induction fs as [|f r IH]; intros st H; [constructor|].
  apply ploop_cons_inv in H as (st1 & Hs & Hr). apply pstep_inv in Hs as (_ & Hlo & Hv & Hs).
  constructor; [eapply step_field_wf; eauto|eapply IH; eauto].
Qed.

(** ** size *)
Lemma step_limit isReq st f st' : step_ok isReq st f st' -> pLimit st' = pLimit st - fsize f.
Proof. intros [sl _ _ _ _ _ _ ->| _ _ _ _ -> | _ _ _ _ _ -> | _ _ _ ->]; reflexivity. Qed.

Lemma fsize_32 f : fsize f = zlen (fname f) + zlen (fvalue f) + 32.
Proof. reflexivity. Qed.

Lemma ploop_size isReq st fs st' :
  ploop isReq st fs false = inr st' ->
  pLimit st' = pLimit st - section_size fs /\ (0 <= pLimit st -> 0 <= pLimit st').
Proof.
  revert st. induction fs as [|f r IH]; intros st H.
  - simpl in H. inversion H; subst. simpl. lia.
  - apply ploop_cons_inv in H as (st1 & Hs & Hr). apply pstep_inv in Hs as (Hl & _ & _ & Hs).
    apply step_limit in Hs. apply IH in Hr as [Hr1 Hr2]. simpl. rewrite fsize_32 in *. lia.
Qed.

(** ** order *)
Lemma step_regular isReq st f st' :
  step_ok isReq st f st' -> pRegular st' = if is_pseudo (fname f) then false else true.
Proof. intros [sl Hp _ _ _ _ _ ->| Hp _ _ _ -> | Hp _ _ _ _ -> | Hp _ _ ->]; rewrite Hp; reflexivity. Qed.

Lemma step_pseudo_needs_no_regular isReq st f st' :
  step_ok isReq st f st' -> pRegular st = true -> is_pseudo (fname f) = false.
Proof. intros [sl Hp Hr _ _ _ _ _| Hp _ _ _ _ | Hp _ _ _ _ _ | Hp _ _ _]; auto. congruence. Qed.

Lemma ploop_after_regular isReq st fs st' :
  ploop isReq st fs false = inr st' -> pRegular st = true ->
  Forall (fun f => is_pseudo (fname f) = false) fs.
Proof.
  revert st. induction fs as [|f r IH]; intros st H Hreg; [constructor|].
  apply ploop_cons_inv in H as (st1 & Hs & Hr). apply pstep_inv in Hs as (_ & _ & _ & Hs).
  pose proof (step_pseudo_needs_no_regular _ _ _ _ Hs Hreg) as Hp.
  constructor; auto. eapply IH; eauto. rewrite (step_regular _ _ _ _ Hs), Hp. reflexivity.
Qed.

Lemma ploop_pseudo_first isReq st fs st' :
  ploop isReq st fs false = inr st' -> pseudo_first fs.
Proof.
  intros H l1 f l2 g l3 -> Hg.
  apply ploop_app_inv in H as (st1 & _ & H).
  apply ploop_cons_inv in H as (st2 & Hs & H). apply pstep_inv in Hs as (_ & _ & _ & Hs).
  destruct (is_pseudo (fname f)) eqn:Hp; [apply is_pseudo_spec; auto|].
  exfalso. pose proof (step_regular _ _ _ _ Hs) as Hr. rewrite Hp in Hr.
  pose proof (ploop_after_regular _ _ _ _ H Hr) as Hall.
  rewrite Forall_forall in Hall. specialize (Hall g). apply is_pseudo_spec in Hg.
  rewrite Hall in Hg; [discriminate|]. apply in_or_app. right. left. reflexivity.
Qed.

(** ** pseudo-header slots *)

Lemma step_flag_keep isReq st f st' sl :
  step_ok isReq st f st' -> get_flag sl (pSeen st) = true -> get_flag sl (pSeen st') = true.
Proof.
  intros [sl0 _ _ _ Hg _ _ ->| _ _ _ _ -> | _ _ _ _ _ -> | _ _ _ ->] Hne; simpl; auto.
  destruct (slot_eq_dec sl sl0) as [->|Hd]; [apply flag_set_same|]. rewrite flag_set_other; auto.
Qed.

Lemma ploop_flag_keep isReq st fs st' sl :
  ploop isReq st fs false = inr st' -> get_flag sl (pSeen st) = true -> get_flag sl (pSeen st') = true.
Proof.
  revert st. induction fs as [|f r IH]; intros st H Hne.
  - simpl in H. inversion H; subst; auto.
  - apply ploop_cons_inv in H as (st1 & Hs & Hr). apply pstep_inv in Hs as (_ & _ & _ & Hs).
    eapply IH; eauto. eapply step_flag_keep; eauto.
Qed.

(** The duplicate test by seen-flags: a pseudo-header name never occurs twice, whatever the values. *)
Lemma ploop_pseudo_unique isReq st fs st' :
  ploop isReq st fs false = inr st' -> pseudo_unique fs.
Proof.
  intros H l1 f l2 g l3 -> Hf Hfg.
  apply ploop_app_inv in H as (st1 & _ & H).
  apply ploop_cons_inv in H as (st2 & Hs & H). apply pstep_inv in Hs as (_ & _ & _ & Hs).
  apply ploop_app_inv in H as (st3 & H2 & H).
  apply ploop_cons_inv in H as (st4 & Hsg & _). apply pstep_inv in Hsg as (_ & _ & _ & Hsg).
  apply is_pseudo_spec in Hf.
  destruct Hs as [sl Hp Hr Hn Hg Hk Hne ->| Hp _ _ _ _ | Hp _ _ _ _ _ | Hp _ _ _]; try congruence.
  assert (Hset : get_flag sl (pSeen (PS (set_slot sl (fvalue f) (pPs st1)) (set_flag sl (pSeen st1)) (pHeaders st1) false (pReadCL st1) (pCL st1) (pLimit st1 - fsize f))) = true).
  { simpl. apply flag_set_same. }
  pose proof (ploop_flag_keep _ _ _ _ sl H2 Hset) as Hk3.
  destruct Hsg as [sl' Hp' Hr' Hn' Hg' Hk' _ _| Hp' _ _ _ _ | Hp' _ _ _ _ _ | Hp' _ _ _]; try (rewrite <- Hfg in Hp'; congruence).
  assert (sl' = sl) by (apply slot_name_inj; congruence). subst sl'. congruence.
Qed.

Definition last_value_from (n : bytes) (fs : list field) (init : bytes) : bytes :=
  fold_left (fun acc f => if beq (fname f) n then fvalue f else acc) fs init.

Lemma ploop_slots isReq st fs st' sl :
  ploop isReq st fs false = inr st' ->
  get_slot sl (pPs st') = last_value_from (slot_name sl) fs (get_slot sl (pPs st)).
Proof.
  revert st. induction fs as [|f r IH]; intros st H.
  - simpl in H. inversion H; subst; reflexivity.
  - apply ploop_cons_inv in H as (st1 & Hs & Hr). apply pstep_inv in Hs as (_ & _ & _ & Hs).
    rewrite (IH _ Hr). unfold last_value_from. simpl. f_equal.
    assert (Hreg : is_pseudo (fname f) = false -> beq (fname f) (slot_name sl) = false).
    { intros Hp. apply beq_neq. intros E. rewrite E, slot_name_pseudo in Hp. discriminate. }
    destruct Hs as [sl0 Hp _ Hn _ _ _ ->| Hp _ _ _ -> | Hp _ _ _ _ -> | Hp _ _ ->]; simpl; try (rewrite (Hreg Hp); reflexivity).
    destruct (slot_eq_dec sl sl0) as [->|Hd].
    + rewrite Hn, beq_refl, get_set_same. reflexivity.
    + rewrite get_set_other by auto.
      replace (beq (fname f) (slot_name sl)) with false; auto.
      symmetry. apply beq_neq. intros E. apply Hd. apply slot_name_inj. congruence.
Qed.

(** ** Content-Length *)

Lemma step_cl isReq st f st1 :
  step_ok isReq st f st1 ->
  (fname f = n_content_length -> pReadCL st1 = true /\ pCL st1 = fvalue f) /\
  (pReadCL st = true -> pCL st1 = pCL st /\ pReadCL st1 = true) /\
  (fname f <> n_content_length -> pCL st1 = pCL st /\ pReadCL st1 = pReadCL st).
Proof.
  intros [sl _ _ Hn _ _ _ ->| _ _ Hn Hrc -> | _ _ Hn Hrc Hcl -> | _ _ Hn ->]; simpl.
  - assert (Hnn : fname f <> n_content_length).
    { intros E. rewrite Hn in E. destruct sl; vm_compute in E; discriminate. }
    split; [intros E; contradiction|]. split; auto.
  - split; [auto|]. split; [congruence|]. intros E; contradiction.
  - split; [auto|]. split; [auto|]. intros E; contradiction.
  - split; [intros E; contradiction|]. split; auto.
Qed.

Lemma ploop_cl isReq st fs st' :
  ploop isReq st fs false = inr st' ->
  (forall f, In f fs -> fname f = n_content_length -> fvalue f = pCL st' /\ pReadCL st' = true) /\
  (pReadCL st = true -> pCL st' = pCL st /\ pReadCL st' = true) /\
  ((forall f, In f fs -> fname f <> n_content_length) -> pCL st' = pCL st /\ pReadCL st' = pReadCL st).
Proof.
  revert st. induction fs as [|f r IH]; intros st H.
  - simpl in H. inversion H; subst. split; [intros g []|]. split; auto.
  - apply ploop_cons_inv in H as (st1 & Hs & Hr). apply pstep_inv in Hs as (_ & _ & _ & Hs).
    destruct (IH _ Hr) as (I1 & I2 & I3). clear IH.
    destruct (step_cl _ _ _ _ Hs) as (S1 & S2 & S3).
    split; [|split].
    + intros g [<-|Hg] Hn; [|apply I1; auto].
      destruct (S1 Hn) as [A B]. destruct (I2 A) as [C D]. split; congruence.
    + intros Hrc. destruct (S2 Hrc) as [A B]. destruct (I2 B) as [C D]. split; congruence.
    + intros Hno.
      destruct (S3 (Hno f (or_introl eq_refl))) as [A B].
      destruct I3 as [C D]; [intros g Hg; apply Hno; right; auto|]. split; congruence.
Qed.

(** ** the header map *)
Definition headers_from (fs : list field) (m : hmap) : hmap :=
  fold_left (fun m f => if is_pseudo (fname f) || beq (fname f) (bs "content-length") then m
                        else hadd (canon (fname f)) (fvalue f) m) fs m.

Lemma ploop_headers isReq st fs st' :
  ploop isReq st fs false = inr st' -> pHeaders st' = headers_from fs (pHeaders st).
Proof.
  revert st. induction fs as [|f r IH]; intros st H.
  - simpl in H. inversion H; subst; reflexivity.
  - apply ploop_cons_inv in H as (st1 & Hs & Hr). apply pstep_inv in Hs as (_ & _ & _ & Hs).
    rewrite (IH _ Hr). unfold headers_from. cbn [fold_left]. f_equal.
    change (bs "content-length") with n_content_length.
    destruct Hs as [sl Hp _ _ _ _ _ ->| Hp _ Hn _ -> | Hp _ Hn _ _ -> | Hp _ Hn ->]; rewrite Hp; cbn [pHeaders orb]; auto.
    + rewrite Hn, beq_refl. reflexivity.
    + rewrite Hn, beq_refl. reflexivity.
    + apply beq_neq in Hn. rewrite Hn. reflexivity.
Qed.
