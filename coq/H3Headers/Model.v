(** H3Headers — executable model of /repo/http3/headers.go (property C19).

    Fields are byte strings ([list Z], every element in [0,256)).  The model mirrors what
    the code DOES: same order of checks, same state variables ([readFirstRegularHeader],
    [readContentLength], [contentLengthStr], the shrinking [sizeLimit], the [seenPath] ...
    [seenStatus] flags of the duplicate test for pseudo-header fields — the code as repaired by
    fixes/C19-dup-pseudo-empty-first.patch and fixes/C19-content-length-empty-accepted.patch),
    the same [http.Header] canonicalisation.  The byte tables (valid token byte, valid field-value byte, lower-case
    test), the list of connection-specific names, [http.MethodConnect] and the per-field
    overhead come from [Gen.Params], i.e. from the packages as compiled from /repo.

    Outside /repo (entering as oracles or transliterated from the Go standard library and
    checked by the correspondence run only): [url.ParseRequestURI] (oracle argument),
    [strconv.ParseUint(_,10,63)], [strconv.Atoi], [textproto.CanonicalMIMEHeaderKey],
    [textproto.TrimString], [strings.Split/Join], [httpguts.ValidTrailerHeader]'s table
    (unexported; sampled through [h3TrailerProbes]). *)
From Coq Require Import List ZArith Bool String Ascii.
From V Require Import Gen.Params Lib.Hex.
Import ListNotations.
Open Scope bool_scope.
Open Scope Z_scope.

Definition bytes := list Z.

(** ASCII string literal -> bytes (for readable names in the model and the theorems). *)
Fixpoint bs (s : string) : bytes :=
  match s with
  | EmptyString => []
  | String a r => Z.of_N (N_of_ascii a) :: bs r
  end.

Definition beq : bytes -> bytes -> bool := zeqb_list.
Definition is_empty (b : bytes) : bool := match b with [] => true | _ => false end.
Definition mem (x : bytes) (l : list bytes) : bool := existsb (beq x) l.

Record field := F { fname : bytes; fvalue : bytes }.

(** ** The tables of the compiled code *)

Definition tbl (t : list bool) (b : Z) : bool :=
  (0 <=? b) && (b <? 256) && nth (Z.to_nat b) t false.

(** [strings.ToLower(name) == name], byte-wise (see notes: for names containing bytes >= 0x80
    the Go test depends on UTF-8 decoding; such names are rejected later anyway, with the
    same error class, because no byte >= 0x80 is a token byte and no known pseudo-header
    name contains one). *)
Definition lower_ok (n : bytes) : bool := forallb (tbl h3LowerTable) n.
(** [httpguts.ValidHeaderFieldValue] *)
Definition value_ok (v : bytes) : bool := forallb (tbl h3ValueTable) v.
(** [httpguts.ValidHeaderFieldName] *)
Definition token_ok (n : bytes) : bool := negb (is_empty n) && forallb (tbl h3TokenTable) n.
(** [qpack.HeaderField.IsPseudo] *)
Definition is_pseudo (n : bytes) : bool := match n with 58 :: _ => true | _ => false end.
(** [invalidHeaderFields] *)
Definition conn_specific : list bytes := map hx h3InvalidHeaderFields.

Definition n_content_length := bs "content-length".
Definition n_te := bs "te".
Definition v_trailers := bs "trailers".

(** ** Errors.  The class is what server_conn.go / stream.go turn into an error code. *)
Inductive reason :=
| NotLower | BadValue | PseudoAfterRegular | UnknownPseudo | DupPseudo | RspPseudoInRequest
| ReqPseudoInResponse | BadName | ConnSpecific | BadTE | CLContradict | CLInvalid
| PseudoInTrailer | BadTrailerName | ExtConnectRule | ConnectRule | NormalRule | ProtocolRule
| MissingStatus | BadStatus | UrlParse | UrlParseExt | EmptyPseudo | ConnectSchemeRule.

Inductive err :=
| ETooLarge                 (* errHeaderTooLarge: 431 + H3_EXCESSIVE_LOAD *)
| EQpack                    (* *qpackError: QPACK_DECOMPRESSION_FAILED *)
| EMalformed (r : reason).  (* anything else: H3_MESSAGE_ERROR *)

(** ** http.Header as an association list keyed by canonical name (insertion order) *)
Definition hmap := list (bytes * list bytes).

Fixpoint hadd (k v : bytes) (m : hmap) : hmap :=
  match m with
  | [] => [(k, [v])]
  | (k', vs) :: r => if beq k k' then (k', vs ++ [v]) :: r else (k', vs) :: hadd k v r
  end.
Fixpoint hset (k v : bytes) (m : hmap) : hmap :=
  match m with
  | [] => [(k, [v])]
  | (k', vs) :: r => if beq k k' then (k', [v]) :: r else (k', vs) :: hset k v r
  end.
Fixpoint hget (k : bytes) (m : hmap) : option (list bytes) :=
  match m with
  | [] => None
  | (k', vs) :: r => if beq k k' then Some vs else hget k r
  end.
Fixpoint hdel (k : bytes) (m : hmap) : hmap :=
  match m with
  | [] => []
  | (k', vs) :: r => if beq k k' then hdel k r else (k', vs) :: hdel k r
  end.

(** [textproto.CanonicalMIMEHeaderKey] (Go standard library, transliterated). *)
Definition is_lc (b : Z) : bool := (97 <=? b) && (b <=? 122).
Definition is_uc (b : Z) : bool := (65 <=? b) && (b <=? 90).
Definition is_digit (b : Z) : bool := (48 <=? b) && (b <=? 57).
(** ASCII lower-casing (strings.ToLower / strings.EqualFold on ASCII header names; used by the
    writers' model and by the proofs about canonicalisation) *)
Definition lower_byte (b : Z) : Z := if is_uc b then b + 32 else b.
Definition lower_bytes (s : bytes) : bytes := map lower_byte s.
(** tchar of RFC 9110 5.6.2 = textproto.validHeaderFieldByte *)
Definition is_tchar (b : Z) : bool :=
  is_lc b || is_uc b || is_digit b ||
  existsb (Z.eqb b) [33; 35; 36; 37; 38; 39; 42; 43; 45; 46; 94; 95; 96; 124; 126].

Fixpoint canon_go (upper : bool) (s : bytes) : bytes :=
  match s with
  | [] => []
  | c :: r =>
    let c' := if upper && is_lc c then c - 32 else if negb upper && is_uc c then c + 32 else c in
    c' :: canon_go (c' =? 45) r
  end.
Definition canon (s : bytes) : bytes := if forallb is_tchar s then canon_go true s else s.

Definition k_content_length := bs "Content-Length".
Definition k_cookie := bs "Cookie".
Definition k_trailer := bs "Trailer".

(** ** parseHeaders *)

Inductive slot := SPath | SMethod | SAuthority | SProtocol | SScheme | SStatus.

Definition pseudo_slot (n : bytes) : option slot :=
  if beq n (bs ":path") then Some SPath
  else if beq n (bs ":method") then Some SMethod
  else if beq n (bs ":authority") then Some SAuthority
  else if beq n (bs ":protocol") then Some SProtocol
  else if beq n (bs ":scheme") then Some SScheme
  else if beq n (bs ":status") then Some SStatus
  else None.

Definition slot_is_response (s : slot) : bool := match s with SStatus => true | _ => false end.

Record pseudos := PSD { sPath : bytes; sMethod : bytes; sAuthority : bytes; sProtocol : bytes; sScheme : bytes; sStatus : bytes }.
Definition no_pseudos := PSD [] [] [] [] [] [].

Definition get_slot (s : slot) (p : pseudos) : bytes :=
  match s with
  | SPath => sPath p | SMethod => sMethod p | SAuthority => sAuthority p
  | SProtocol => sProtocol p | SScheme => sScheme p | SStatus => sStatus p
  end.
Definition set_slot (s : slot) (v : bytes) (p : pseudos) : pseudos :=
  match s with
  | SPath => PSD v (sMethod p) (sAuthority p) (sProtocol p) (sScheme p) (sStatus p)
  | SMethod => PSD (sPath p) v (sAuthority p) (sProtocol p) (sScheme p) (sStatus p)
  | SAuthority => PSD (sPath p) (sMethod p) v (sProtocol p) (sScheme p) (sStatus p)
  | SProtocol => PSD (sPath p) (sMethod p) (sAuthority p) v (sScheme p) (sStatus p)
  | SScheme => PSD (sPath p) (sMethod p) (sAuthority p) (sProtocol p) v (sStatus p)
  | SStatus => PSD (sPath p) (sMethod p) (sAuthority p) (sProtocol p) (sScheme p) v
  end.

(** seenPath ... seenStatus *)
Record flags := FL { gPath : bool; gMethod : bool; gAuthority : bool; gProtocol : bool; gScheme : bool; gStatus : bool }.
Definition no_flags := FL false false false false false false.
Definition get_flag (s : slot) (g : flags) : bool :=
  match s with
  | SPath => gPath g | SMethod => gMethod g | SAuthority => gAuthority g
  | SProtocol => gProtocol g | SScheme => gScheme g | SStatus => gStatus g
  end.
Definition set_flag (s : slot) (g : flags) : flags :=
  match s with
  | SPath => FL true (gMethod g) (gAuthority g) (gProtocol g) (gScheme g) (gStatus g)
  | SMethod => FL (gPath g) true (gAuthority g) (gProtocol g) (gScheme g) (gStatus g)
  | SAuthority => FL (gPath g) (gMethod g) true (gProtocol g) (gScheme g) (gStatus g)
  | SProtocol => FL (gPath g) (gMethod g) (gAuthority g) true (gScheme g) (gStatus g)
  | SScheme => FL (gPath g) (gMethod g) (gAuthority g) (gProtocol g) true (gStatus g)
  | SStatus => FL (gPath g) (gMethod g) (gAuthority g) (gProtocol g) (gScheme g) true
  end.

(** Loop state of parseHeaders. *)
Record pst := PS {
  pPs : pseudos;          (* hdr.Path ... hdr.Status *)
  pSeen : flags;          (* seenPath ... seenStatus *)
  pHeaders : hmap;        (* hdr.Headers *)
  pRegular : bool;        (* readFirstRegularHeader *)
  pReadCL : bool;         (* readContentLength *)
  pCL : bytes;            (* contentLengthStr *)
  pLimit : Z              (* sizeLimit, decremented *)
}.
Definition pinit (lim : Z) : pst := PS no_pseudos no_flags [] false false [] lim.

Definition fsize (f : field) : Z := zlen (fname f) + zlen (fvalue f) + h3FieldOverhead.

(** validateRegularHeaderField *)
Definition validate_regular (f : field) : option reason :=
  if negb (token_ok (fname f)) then Some BadName
  else if mem (fname f) conn_specific then Some ConnSpecific
  else if beq (fname f) n_te && negb (beq (fvalue f) v_trailers) then Some BadTE
  else None.

(** One iteration of the loop of parseHeaders, after a successful decodeFn(). *)
Definition pstep (isReq : bool) (st : pst) (f : field) : err + pst :=
  let lim := pLimit st - fsize f in
  if lim <? 0 then inl ETooLarge
  else if negb (lower_ok (fname f)) then inl (EMalformed NotLower)
  else if negb (value_ok (fvalue f)) then inl (EMalformed BadValue)
  else if is_pseudo (fname f) then
    if pRegular st then inl (EMalformed PseudoAfterRegular)
    else match pseudo_slot (fname f) with
         | None => inl (EMalformed UnknownPseudo)
         | Some sl =>
           (* isDuplicatePseudoHeader = seenX; seenX = true *)
           if get_flag sl (pSeen st) then inl (EMalformed DupPseudo)
           else if isReq && slot_is_response sl then inl (EMalformed RspPseudoInRequest)
           else if negb isReq && negb (slot_is_response sl) then inl (EMalformed ReqPseudoInResponse)
           (* fixes/C19-empty-pseudo-header.patch: no pseudo-header has a valid empty value *)
           else if is_empty (fvalue f) then inl (EMalformed EmptyPseudo)
           else inr (PS (set_slot sl (fvalue f) (pPs st)) (set_flag sl (pSeen st)) (pHeaders st) (pRegular st) (pReadCL st) (pCL st) lim)
         end
  else match validate_regular f with
       | Some r => inl (EMalformed r)
       | None =>
         if beq (fname f) n_content_length then
           if negb (pReadCL st) then inr (PS (pPs st) (pSeen st) (pHeaders st) true true (fvalue f) lim)
           else if negb (beq (pCL st) (fvalue f)) then inl (EMalformed CLContradict)
           else inr (PS (pPs st) (pSeen st) (pHeaders st) true (pReadCL st) (pCL st) lim)
         else inr (PS (pPs st) (pSeen st) (hadd (canon (fname f)) (fvalue f) (pHeaders st)) true (pReadCL st) (pCL st) lim)
       end.

(** The loop: [tailerr] = decodeFn() fails with a non-EOF error after the listed fields. *)
Fixpoint ploop (isReq : bool) (st : pst) (fs : list field) (tailerr : bool) : err + pst :=
  match fs with
  | [] => if tailerr then inl EQpack else inr st
  | f :: r => match pstep isReq st f with
              | inl e => inl e
              | inr st' => ploop isReq st' r tailerr
              end
  end.

(** Number of fields appended to [*headerFields] (the qlog record). *)
Fixpoint plogged (isReq : bool) (st : pst) (fs : list field) : Z :=
  match fs with
  | [] => 0
  | f :: r => match pstep isReq st f with
              | inl _ => 1
              | inr st' => 1 + plogged isReq st' r
              end
  end.

(** strconv.ParseUint(s, 10, 63): non-empty, decimal digits only, value <= 2^63-1. *)
Fixpoint digits_val (acc : Z) (s : bytes) : option Z :=
  match s with
  | [] => Some acc
  | c :: r => if is_digit c then digits_val (10 * acc + (c - 48)) r else None
  end.
Definition parse_uint63 (s : bytes) : option Z :=
  if is_empty s then None
  else match digits_val 0 s with
       | Some v => if v <=? 9223372036854775807 then Some v else None
       | None => None
       end.

Record hdr := H {
  hPs : pseudos;
  hCL : Z;             (* -1 if no Content-Length *)
  hHeaders : hmap
}.

Definition pfinish (st : pst) : err + hdr :=
  if negb (pReadCL st) then inr (H (pPs st) (-1) (pHeaders st))
  else match parse_uint63 (pCL st) with
       | None => inl (EMalformed CLInvalid)
       | Some cl => inr (H (pPs st) cl (hset k_content_length (pCL st) (pHeaders st)))
       end.

Definition parseHeaders (isReq : bool) (lim : Z) (fs : list field) (tailerr : bool) : err + hdr :=
  match ploop isReq (pinit lim) fs tailerr with
  | inl e => inl e
  | inr st => pfinish st
  end.

(** ** parseTrailers *)

(** httpguts.ValidTrailerHeader: canonicalise, then "If-" prefix or badTrailer table. *)
Definition bad_trailer : list bytes := map bs
  ["Authorization"; "Cache-Control"; "Connection"; "Content-Encoding"; "Content-Length"; "Content-Range";
   "Content-Type"; "Expect"; "Host"; "Keep-Alive"; "Max-Forwards"; "Pragma"; "Proxy-Authenticate";
   "Proxy-Authorization"; "Proxy-Connection"; "Range"; "Realm"; "Te"; "Trailer"; "Transfer-Encoding";
   "Www-Authenticate"]%string.
Definition has_prefix_if (s : bytes) : bool :=
  match s with a :: b :: c :: _ => (a =? 73) && (b =? 102) && (c =? 45) | _ => false end.
Definition valid_trailer (n : bytes) : bool :=
  let c := canon n in negb (has_prefix_if c) && negb (mem c bad_trailer).

Definition tstep (st : Z * hmap) (f : field) : err + (Z * hmap) :=
  let lim := fst st - fsize f in
  if lim <? 0 then inl ETooLarge
  else if negb (lower_ok (fname f)) then inl (EMalformed NotLower)
  else if negb (value_ok (fvalue f)) then inl (EMalformed BadValue)
  else if is_pseudo (fname f) then inl (EMalformed PseudoInTrailer)
  else match validate_regular f with
       | Some r => inl (EMalformed r)
       | None => if negb (valid_trailer (fname f)) then inl (EMalformed BadTrailerName)
                 else inr (lim, hadd (canon (fname f)) (fvalue f) (snd st))
       end.

Fixpoint tloop (st : Z * hmap) (fs : list field) (tailerr : bool) : err + (Z * hmap) :=
  match fs with
  | [] => if tailerr then inl EQpack else inr st
  | f :: r => match tstep st f with
              | inl e => inl e
              | inr st' => tloop st' r tailerr
              end
  end.
Fixpoint tlogged (st : Z * hmap) (fs : list field) : Z :=
  match fs with
  | [] => 0
  | f :: r => match tstep st f with inl _ => 1 | inr st' => 1 + tlogged st' r end
  end.

Definition parseTrailers (lim : Z) (fs : list field) (tailerr : bool) : err + hmap :=
  match tloop (lim, []) fs tailerr with
  | inl e => inl e
  | inr st => inr (snd st)
  end.

(** ** extractAnnouncedTrailers *)

Fixpoint split_on (sep : Z) (s cur : bytes) : list bytes :=
  match s with
  | [] => [rev cur]
  | c :: r => if c =? sep then rev cur :: split_on sep r [] else split_on sep r (c :: cur)
  end.
Definition is_space (b : Z) : bool := (b =? 32) || (b =? 9) || (b =? 10) || (b =? 13).
Fixpoint trim_left (s : bytes) : bytes :=
  match s with
  | c :: r => if is_space c then trim_left r else s
  | [] => []
  end.
Definition trim (s : bytes) : bytes := rev (trim_left (rev (trim_left s))).
Definition add_key (k : bytes) (l : list bytes) : list bytes := if mem k l then l else l ++ [k].

(** Returns (header without "Trailer", announced trailer keys or None). *)
Definition extract_trailers (m : hmap) : hmap * option (list bytes) :=
  match hget k_trailer m with
  | None => (m, None)
  | Some vals =>
    (hdel k_trailer m,
     Some (fold_left (fun acc v => fold_left (fun acc' t => add_key (canon (trim t)) acc') (split_on 44 v []) acc) vals []))
  end.

(** ** requestFromHeaders *)

Fixpoint join (sep : bytes) (l : list bytes) : bytes :=
  match l with
  | [] => []
  | [x] => x
  | x :: r => x ++ sep ++ join sep r
  end.

Record request := RQ_ {
  rqMethod : bytes; rqHost : bytes; rqURI : bytes; rqProto : bytes; rqCL : Z;
  rqURLScheme : bytes; rqURLHost : bytes; rqHeader : hmap; rqTrailer : option (list bytes)
}.

(** [uri] is the oracle for url.ParseRequestURI: (ok, URL.Scheme, URL.Host). *)
Definition request_of (h : hdr) (uri : bytes -> bool * bytes * bytes) : err + request :=
  let p := hPs h in
  let headers := match hget k_cookie (hHeaders h) with
                 | Some (c :: cs) => hset k_cookie (join (bs "; ") (c :: cs)) (hHeaders h)
                 | _ => hHeaders h
                 end in
  let isConnect := beq (sMethod p) (hx h3MethodConnect) in
  let isExt := isConnect && negb (is_empty (sProtocol p)) in
  let rule :=
    if isExt then
      if is_empty (sScheme p) || is_empty (sPath p) || is_empty (sAuthority p) then Some ExtConnectRule else None
    else if isConnect then
      if negb (is_empty (sPath p)) || is_empty (sAuthority p) then Some ConnectRule
      else if negb (is_empty (sScheme p)) then Some ConnectSchemeRule   (* fixes/C19-connect-with-scheme.patch *)
      else None
    else if is_empty (sPath p) || is_empty (sAuthority p) || is_empty (sMethod p) then Some NormalRule else None in
  match rule with
  | Some r => inl (EMalformed r)
  | None =>
    if negb isExt && negb (is_empty (sProtocol p)) then inl (EMalformed ProtocolRule)
    else
      let '(hd', tr) := extract_trailers headers in
      if isConnect then
        if isExt then
          let '(ok, _, _) := uri (sPath p) in
          if ok then inr (RQ_ (sMethod p) (sAuthority p) (sAuthority p) (sProtocol p) (hCL h) (sScheme p) (sAuthority p) hd' tr)
          else inl (EMalformed UrlParseExt)
        else inr (RQ_ (sMethod p) (sAuthority p) (sAuthority p) (bs "HTTP/3.0") (hCL h) (sScheme p) (sAuthority p) hd' tr)
      else
        let '(ok, usch, uhost) := uri (sPath p) in
        if ok then inr (RQ_ (sMethod p) (sAuthority p) (sPath p) (bs "HTTP/3.0") (hCL h) usch uhost hd' tr)
        else inl (EMalformed UrlParse)
  end.

Definition requestFromHeaders (lim : Z) (fs : list field) (tailerr : bool) (uri : bytes -> bool * bytes * bytes) : err + request :=
  match parseHeaders true lim fs tailerr with
  | inl e => inl e
  | inr h => request_of h uri
  end.

(** ** updateResponseFromHeaders *)

(** strconv.Atoi on a 64-bit platform: optional sign, >= 1 decimal digits, value in int64. *)
Definition atoi (s : bytes) : option Z :=
  let '(neg, d) := match s with
                   | c :: r => if c =? 45 then (true, r) else if c =? 43 then (false, r) else (false, s)
                   | [] => (false, s)
                   end in
  if is_empty d then None
  else match digits_val 0 d with
       | None => None
       | Some v => let v' := if neg then - v else v in
                   if (-9223372036854775808 <=? v') && (v' <=? 9223372036854775807) then Some v' else None
       end.

Record response := RS_ { rsCode : Z; rsCL : Z; rsHeader : hmap; rsTrailer : option (list bytes) }.

Definition response_of (h : hdr) : err + response :=
  if is_empty (sStatus (hPs h)) then inl (EMalformed MissingStatus)
  else
    let '(hd', tr) := extract_trailers (hHeaders h) in
    match atoi (sStatus (hPs h)) with
    | None => inl (EMalformed BadStatus)
    | Some c => inr (RS_ c (hCL h) hd' tr)
    end.

Definition updateResponseFromHeaders (lim : Z) (fs : list field) (tailerr : bool) : err + response :=
  match parseHeaders false lim fs tailerr with
  | inl e => inl e
  | inr h => response_of h
  end.
