(** H3Headers — the main results about the model: acceptance soundness of parseHeaders,
    parseTrailers, requestFromHeaders, updateResponseFromHeaders against Spec.v; the refuting
    witnesses for the places where the code is weaker than RFC 9114; error classes. *)
From Coq Require Import List ZArith Bool String Lia.
From V Require Import Gen.Params Lib.Hex H3Headers.Model H3Headers.Spec H3Headers.Proofs H3Headers.ProofsParse.
Import ListNotations.
Open Scope bool_scope.
Open Scope Z_scope.

(** * Numbers *)

Lemma is_digit_spec c : is_digit c = true <-> 48 <= c <= 57.
Proof. unfold is_digit. rewrite andb_true_iff, !Z.leb_le. tauto. Qed.

Lemma digits_val_spec s : forall acc v,
  digits_val acc s = Some v ->
  Forall (fun b => 48 <= b <= 57) s /\ v = fold_left (fun a b => 10 * a + (b - 48)) s acc.
Proof.
  induction s as [|c r IH]; intros acc v H; simpl in H.
  - inversion H; subst. split; [constructor|reflexivity].
  - destruct (is_digit c) eqn:Ed; [|discriminate]. apply is_digit_spec in Ed.
    apply IH in H as [H1 H2]. split; [constructor; auto|exact H2].
Qed.

Lemma parse_uint63_spec s v :
  parse_uint63 s = Some v -> numeric s /\ v = dec_value s /\ dec_value s < 2 ^ 63.
Proof.
  unfold parse_uint63. destruct (is_empty s) eqn:Ee; [discriminate|]. apply is_empty_false in Ee.
  destruct (digits_val 0 s) as [w|] eqn:Ed; [|discriminate].
  destruct (w <=? 9223372036854775807) eqn:El; [|discriminate]. intros H; inversion H; subst w.
  apply Z.leb_le in El. apply digits_val_spec in Ed as [H1 H2]. unfold numeric, dec_value. subst v.
  repeat split; auto. lia.
Qed.

(** * last_value *)

Lemma last_value_from_cases n fs : forall init,
  ((forall f, In f fs -> fname f <> n) /\ last_value_from n fs init = init) \/
  (exists f, In f fs /\ fname f = n /\ last_value_from n fs init = fvalue f).
Proof.
  induction fs as [|f r IH]; intros init.
  - left. split; [intros f []|reflexivity].
  - unfold last_value_from in *. cbn [fold_left].
    destruct (beq (fname f) n) eqn:E.
    + apply beq_eq in E. destruct (IH (fvalue f)) as [[H1 H2]|(g & Hg & Hn & Hv)].
      * right. exists f. split; [left; auto|]. split; auto.
      * right. exists g. split; [right; auto|]. split; auto.
    + apply beq_neq in E. destruct (IH init) as [[H1 H2]|(g & Hg & Hn & Hv)].
      * left. split; auto. intros g [<-|Hg]; auto.
      * right. exists g. split; [right; auto|]. split; auto.
Qed.

Lemma last_value_cases n fs :
  ((forall f, In f fs -> fname f <> n) /\ last_value n fs = []) \/
  (exists f, In f fs /\ fname f = n /\ last_value n fs = fvalue f).
Proof. apply (last_value_from_cases n fs []). Qed.

(** * parseHeaders: acceptance soundness *)

Lemma ploop_pseudos isReq lim fs st :
  ploop isReq (pinit lim) fs false = inr st -> pPs st = pseudos_of fs.
Proof.
  intros H.
  assert (G : forall sl, get_slot sl (pPs st) = last_value (slot_name sl) fs).
  { intros sl. rewrite (ploop_slots _ _ _ _ sl H). destruct sl; reflexivity. }
  pose proof (G SPath) as H1. pose proof (G SMethod) as H2. pose proof (G SAuthority) as H3.
  pose proof (G SProtocol) as H4. pose proof (G SScheme) as H5. pose proof (G SStatus) as H6.
  destruct (pPs st) as [a b c d e g]. unfold pseudos_of.
  cbn [get_slot sPath sMethod sAuthority sProtocol sScheme sStatus slot_name] in H1, H2, H3, H4, H5, H6.
  rewrite <- H1, <- H2, <- H3, <- H4, <- H5, <- H6. reflexivity.
Qed.

Lemma ploop_cl_last isReq lim fs st :
  ploop isReq (pinit lim) fs false = inr st -> pCL st = last_value (bs "content-length") fs.
Proof.
  intros H. destruct (ploop_cl _ _ _ _ H) as (I1 & _ & I3).
  change (bs "content-length") with n_content_length.
  destruct (last_value_cases n_content_length fs) as [[Hno Hl]|(g & Hg & Hn & Hl)]; rewrite Hl.
  - apply I3 in Hno as [E _]. exact E.
  - destruct (I1 g Hg Hn) as [E _]. congruence.
Qed.

Theorem parseHeaders_sound isReq lim fs te h :
  0 <= lim -> parseHeaders isReq lim fs te = inr h ->
  te = false /\ WF isReq lim fs /\ cl_fits fs /\ h = hdr_of fs.
Proof.
  intros Hlim H. unfold parseHeaders in H.
  assert (Hte : te = false).
  { destruct te; auto. rewrite ploop_tailerr in H. destruct (ploop isReq (pinit lim) fs false); discriminate. }
  subst te. split; auto.
  destruct (ploop isReq (pinit lim) fs false) as [e|st] eqn:Hl; [discriminate|].
  pose proof (ploop_cl_last _ _ _ _ Hl) as Hcl.
  destruct (ploop_cl _ _ _ _ Hl) as (I1 & _ & I3).
  unfold pfinish in H.
  (* a Content-Length field, if any, carries the string that ParseUint accepted *)
  assert (Hnum : forall f, In f fs -> is_cl f -> numeric (fvalue f) /\ dec_value (fvalue f) < 2 ^ 63).
  { intros f Hf Hn. destruct (I1 f Hf Hn) as [E Hrc]. rewrite E. rewrite Hrc in H. cbn [negb] in H.
    destruct (parse_uint63 (pCL st)) as [v|] eqn:Ep; [|discriminate].
    apply parse_uint63_spec in Ep as (P1 & _ & P3). auto. }
  split; [|split].
  - unfold WF. split; [eapply ploop_fields; eauto|]. split; [eapply ploop_pseudo_first; eauto|].
    split; [eapply ploop_pseudo_unique; eauto|]. split.
    + split.
      * intros f Hf Hn. apply Hnum; auto.
      * intros f g Hf Hg Hnf Hng. destruct (I1 f Hf Hnf) as [E1 _]. destruct (I1 g Hg Hng) as [E2 _]. congruence.
    + destruct (ploop_size _ _ _ _ Hl) as [S1 S2]. simpl in S1, S2. specialize (S2 Hlim). lia.
  - intros f Hf Hn. apply Hnum; auto.
  - unfold hdr_of. rewrite <- Hcl.
    rewrite <- (ploop_pseudos _ _ _ _ Hl).
    pose proof (ploop_headers _ _ _ _ Hl) as Hh. simpl in Hh. change (headers_from fs []) with (headers_of fs) in Hh.
    rewrite <- Hh.
    destruct (pReadCL st) eqn:Erc; cbn [negb] in H.
    + destruct (parse_uint63 (pCL st)) as [v|] eqn:Ep; [|discriminate].
      apply parse_uint63_spec in Ep as ([Pne _] & P2 & _). inversion H. subst v.
      replace (is_empty (pCL st)) with false by (symmetry; apply is_empty_false; auto). reflexivity.
    + inversion H.
      replace (is_empty (pCL st)) with true; [reflexivity|]. symmetry. apply is_empty_true.
      change (bs "content-length") with n_content_length in Hcl.
      destruct (last_value_cases n_content_length fs) as [[_ E]|(g & Hg & Hgn & _)]; [congruence|].
      destruct (I1 g Hg Hgn) as [_ Hrc]. congruence.
Qed.

Corollary parseHeaders_pseudo_unique isReq lim fs te h :
  0 <= lim -> parseHeaders isReq lim fs te = inr h -> pseudo_unique fs.
Proof. intros Hl H. apply parseHeaders_sound in H as (_ & (_ & _ & Hu & _) & _); auto. Qed.

Corollary parseHeaders_cl_wf isReq lim fs te h :
  0 <= lim -> parseHeaders isReq lim fs te = inr h -> cl_wf fs.
Proof. intros Hl H. apply parseHeaders_sound in H as (_ & (_ & _ & _ & Hc & _) & _); auto. Qed.

(** ** The former refuting witnesses are now rejected (regression examples) *)

Definition mk (n v : string) : field := F (bs n) (bs v).

Definition dup_witness : list field :=
  [mk ":method" "GET"; mk ":path" ""; mk ":path" "/a"; mk ":authority" "x"; mk ":scheme" "https"].

Lemma dup_witness_rejected :
  parseHeaders true 65536 dup_witness false = inl (EMalformed EmptyPseudo) /\
  parseHeaders false 65536 [mk ":status" ""; mk ":status" "200"] false = inl (EMalformed EmptyPseudo) /\
  parseHeaders true 65536 [mk ":method" "GET"; mk ":path" "/b"; mk ":path" "/a"] false = inl (EMalformed DupPseudo).
Proof. split; [|split]; vm_compute; reflexivity. Qed.

Definition cl_witness : list field :=
  [mk ":method" "POST"; mk ":scheme" "https"; mk ":authority" "x"; mk ":path" "/"; mk "content-length" ""].

Lemma cl_witness_rejected :
  parseHeaders true 65536 cl_witness false = inl (EMalformed CLInvalid).
Proof. vm_compute. reflexivity. Qed.

(** * Error classes *)

Lemma pstep_err isReq st f e :
  pstep isReq st f = inl e -> (e = ETooLarge /\ pLimit st - fsize f < 0) \/ exists r, e = EMalformed r.
Proof.
  unfold pstep. destruct (pLimit st - fsize f <? 0) eqn:El.
  - intros H. inversion H. left. split; auto. apply Z.ltb_lt; auto.
  - intros H. right.
    repeat match type of H with
           | (if ?c then _ else _) = _ => destruct c
           | match ?x with _ => _ end = _ => destruct x
           end; try discriminate; inversion H; eauto.
Qed.

Lemma section_size_nonneg fs : 0 <= section_size fs.
Proof.
  induction fs as [|f r IH]; simpl; [lia|]. unfold zlen. lia.
Qed.

Lemma ploop_err isReq fs : forall st e,
  ploop isReq st fs false = inl e ->
  (e = ETooLarge /\ pLimit st < section_size fs) \/ exists r, e = EMalformed r.
Proof.
  induction fs as [|f r IH]; intros st e H; simpl in H; [discriminate|].
  destruct (pstep isReq st f) as [e'|st1] eqn:Hs.
  - inversion H; subst e'. apply pstep_err in Hs as [[-> Hl]|Hm]; auto.
    left. split; auto. simpl. rewrite fsize_32 in Hl. pose proof (section_size_nonneg r). lia.
  - apply pstep_inv in Hs as (_ & _ & _ & Hs). apply step_limit in Hs.
    apply IH in H as [[-> Hl]|Hm]; auto. left. split; auto. simpl. rewrite fsize_32 in Hs. lia.
Qed.

Theorem parseHeaders_error_class isReq lim fs te e :
  parseHeaders isReq lim fs te = inl e ->
  match e with
  | ETooLarge => lim < section_size fs
  | EQpack => te = true /\ exists st, ploop isReq (pinit lim) fs false = inr st
  | EMalformed _ => True
  end.
Proof.
  unfold parseHeaders. intros H.
  destruct te.
  - rewrite ploop_tailerr in H. destruct (ploop isReq (pinit lim) fs false) as [e'|st] eqn:Hl.
    + inversion H; subst e'. apply ploop_err in Hl as [[-> Hl]|[r ->]]; auto.
    + inversion H. split; eauto.
  - destruct (ploop isReq (pinit lim) fs false) as [e'|st] eqn:Hl.
    + inversion H; subst e'. apply ploop_err in Hl as [[-> Hl]|[r ->]]; auto.
    + unfold pfinish in H. destruct (negb (pReadCL st)); [discriminate|].
      destruct (parse_uint63 (pCL st)); [discriminate|]. inversion H. exact I.
Qed.

(** * parseTrailers *)

Lemma tstep_inv st f st' :
  tstep st f = inr st' <->
  0 <= fst st - fsize f /\ lower_ok (fname f) = true /\ value_ok (fvalue f) = true /\
  is_pseudo (fname f) = false /\ validate_regular f = None /\ valid_trailer (fname f) = true /\
  st' = (fst st - fsize f, hadd (canon (fname f)) (fvalue f) (snd st)).
Proof.
  unfold tstep. split.
  - intros H.
    destruct (fst st - fsize f <? 0) eqn:El; [discriminate|]. apply Z.ltb_ge in El.
    destruct (lower_ok (fname f)); cbn [negb] in H; [|discriminate].
    destruct (value_ok (fvalue f)); cbn [negb] in H; [|discriminate].
    destruct (is_pseudo (fname f)); [discriminate|].
    destruct (validate_regular f); [discriminate|].
    destruct (valid_trailer (fname f)); cbn [negb] in H; [|discriminate].
    inversion H. repeat split; auto.
  - intros (H1 & H2 & H3 & H4 & H5 & H6 & ->).
    replace (fst st - fsize f <? 0) with false by (symmetry; apply Z.ltb_ge; auto).
    rewrite H2, H3, H4, H5, H6. reflexivity.
Qed.

Lemma token_table_is_tchar b : tbl h3TokenTable b = true -> is_tchar b = true.
Proof.
  intros H. pose proof (tbl_range _ _ H) as Hr.
  assert (A : forallb (fun b => implb (tbl h3TokenTable b) (is_tchar b)) all_bytes = true) by (vm_compute; reflexivity).
  apply (byte_forall _ A) in Hr. rewrite H in Hr. exact Hr.
Qed.

Lemma forbidden_trailers_invalid : forallb (fun n => negb (valid_trailer n)) forbidden_trailer = true.
Proof. vm_compute. reflexivity. Qed.

Lemma valid_trailer_spec n :
  token_ok n = true -> valid_trailer n = true ->
  ~ In n forbidden_trailer /\ (forall r, n <> bs "if-" ++ r).
Proof.
  intros Ht Hv. split.
  - intros Hin. pose proof forbidden_trailers_invalid as A. rewrite forallb_forall in A.
    apply A in Hin. rewrite Hv in Hin. discriminate.
  - intros r E. subst n. unfold valid_trailer in Hv. apply andb_true_iff in Hv as [Hv _].
    unfold token_ok in Ht. apply andb_true_iff in Ht as [_ Ht].
    assert (Hall : forallb is_tchar (bs "if-" ++ r) = true).
    { apply forallb_forall. intros b Hb. rewrite forallb_forall in Ht. apply token_table_is_tchar. auto. }
    unfold canon in Hv. rewrite Hall in Hv. simpl in Hv. discriminate.
Qed.

Lemma tstep_field_wf st f st' : tstep st f = inr st' -> trailer_field_wf f.
Proof.
  intros H. apply tstep_inv in H as (_ & H2 & H3 & H4 & H5 & H6 & _).
  apply validate_regular_spec in H5 as (T1 & T2 & _).
  destruct (valid_trailer_spec _ T1 H6) as [V1 V2].
  unfold trailer_field_wf. split; [apply lower_ok_spec; auto|]. split; [apply value_ok_spec; auto|].
  split; [apply is_pseudo_false_spec; auto|]. split; [apply token_ok_spec; auto|].
  split; [rewrite <- conn_specific_rfc; apply mem_false; auto|]. split; auto.
Qed.

Lemma tloop_tailerr st fs :
  tloop st fs true = match tloop st fs false with inl e => inl e | inr _ => inl EQpack end.
Proof.
  revert st. induction fs as [|f r IH]; intros st; simpl; auto.
  destruct (tstep st f); auto.
Qed.

Definition trailers_from (fs : list field) (m : hmap) : hmap :=
  fold_left (fun m f => hadd (canon (fname f)) (fvalue f) m) fs m.

Lemma tloop_ok fs : forall st st',
  tloop st fs false = inr st' ->
  Forall trailer_field_wf fs /\ fst st' = fst st - section_size fs /\ (0 <= fst st -> 0 <= fst st') /\
  snd st' = trailers_from fs (snd st).
Proof.
  induction fs as [|f r IH]; intros st st' H; simpl in H.
  - inversion H; subst. simpl. repeat split; auto; lia.
  - destruct (tstep st f) as [e|st1] eqn:Hs; [discriminate|].
    pose proof (tstep_field_wf _ _ _ Hs) as Hw.
    apply tstep_inv in Hs as (Hl & _ & _ & _ & _ & _ & ->).
    apply IH in H as (A & B & C & D). simpl in *. rewrite fsize_32 in *.
    repeat split; auto; lia.
Qed.

Theorem parseTrailers_sound lim fs te m :
  0 <= lim -> parseTrailers lim fs te = inr m ->
  te = false /\ WFtrailer lim fs /\ m = trailers_of fs.
Proof.
  intros Hlim H. unfold parseTrailers in H.
  assert (Hte : te = false).
  { destruct te; auto. rewrite tloop_tailerr in H. destruct (tloop (lim, []) fs false); discriminate. }
  subst te. split; auto.
  destruct (tloop (lim, []) fs false) as [e|st] eqn:Hl; [discriminate|]. inversion H; subst m.
  apply tloop_ok in Hl as (A & B & C & D). simpl in *. split.
  - split; auto. specialize (C Hlim). lia.
  - exact D.
Qed.

(** * requestFromHeaders *)

Lemma hdr_of_ps fs : hPs (hdr_of fs) = pseudos_of fs.
Proof. unfold hdr_of. destruct (is_empty (last_value (bs "content-length") fs)); reflexivity. Qed.

Lemma request_of_rules fs uri r :
  request_of (hdr_of fs) uri = inr r ->
  request_rules_x fs /\
  rqMethod r = last_value (bs ":method") fs /\ rqHost r = last_value (bs ":authority") fs /\
  rqCL r = hCL (hdr_of fs) /\
  rqURI r = (if beq (last_value (bs ":method") fs) (bs "CONNECT") then last_value (bs ":authority") fs
             else last_value (bs ":path") fs).
Proof.
  unfold request_of, request_rules_x. rewrite hdr_of_ps. unfold pseudos_of. cbn [sPath sMethod sAuthority sProtocol sScheme sStatus].
  rewrite method_connect.
  set (vm := last_value (bs ":method") fs). set (vp := last_value (bs ":path") fs).
  set (va := last_value (bs ":authority") fs). set (vs := last_value (bs ":scheme") fs).
  set (vpr := last_value (bs ":protocol") fs).
  destruct (extract_trailers _) as [hd' tr].
  destruct (beq vm (bs "CONNECT")) eqn:Ec; cbn [andb negb].
  - destruct (is_empty vpr) eqn:Epr; cbn [andb negb orb].
    + destruct (is_empty vp) eqn:Ep; cbn [negb orb]; [|discriminate].
      destruct (is_empty va) eqn:Ea; [discriminate|].
      destruct (is_empty vs) eqn:Es; cbn [negb]; [|discriminate]. cbn [andb negb].
      intros H; inversion H; subst r; cbn.
      apply is_empty_true in Ep, Es. apply is_empty_false in Ea. auto.
    + destruct (is_empty vs) eqn:Es; cbn [orb]; [discriminate|].
      destruct (is_empty vp) eqn:Ep; cbn [orb]; [discriminate|].
      destruct (is_empty va) eqn:Ea; [discriminate|].
      apply is_empty_false in Es, Ep, Ea.
      destruct (uri vp) as [[ok us] uh]. destruct ok; [|discriminate].
      intros H; inversion H; subst r; cbn. auto.
  - destruct (is_empty vp) eqn:Ep; cbn [orb]; [discriminate|].
    destruct (is_empty va) eqn:Ea; cbn [orb]; [discriminate|].
    destruct (is_empty vm) eqn:Em; [discriminate|].
    destruct (is_empty vpr) eqn:Epr; cbn [negb]; [|discriminate].
    apply is_empty_false in Ep, Ea, Em. apply is_empty_true in Epr.
    destruct (uri vp) as [[ok us] uh]. destruct ok; [|discriminate].
    intros H; inversion H; subst r; cbn. auto.
Qed.

Theorem requestFromHeaders_sound lim fs te uri r :
  0 <= lim -> requestFromHeaders lim fs te uri = inr r ->
  te = false /\ WF true lim fs /\ request_rules_x fs /\
  rqMethod r = last_value (bs ":method") fs /\ rqHost r = last_value (bs ":authority") fs /\
  rqCL r = hCL (hdr_of fs).
Proof.
  intros Hlim H. unfold requestFromHeaders in H.
  destruct (parseHeaders true lim fs te) as [e|h] eqn:Hp; [discriminate|].
  apply parseHeaders_sound in Hp as (Hte & Hw & _ & ->); auto.
  apply request_of_rules in H as (R1 & R2 & R3 & R4 & _). auto 10.
Qed.

(** With unique, non-empty pseudo-header fields, presence and non-emptiness coincide. *)
Lemma has_last_value n fs :
  is_pseudo n = true -> no_empty_pseudo fs -> (has n fs <-> last_value n fs <> []).
Proof.
  intros Hn Hne. split.
  - intros (f & Hf & Hfn).
    destruct (last_value_cases n fs) as [[Hno _]|(g & Hg & Hgn & ->)]; [exfalso; eapply Hno; eauto|].
    apply Hne; auto. apply is_pseudo_spec. rewrite Hgn. auto.
  - intros Hl. destruct (last_value_cases n fs) as [[_ E]|(g & Hg & Hgn & _)]; [contradiction|].
    exists g. auto.
Qed.

Lemma WF_no_empty_pseudo isReq lim fs : WF isReq lim fs -> no_empty_pseudo fs.
Proof.
  intros (Hw & _) f Hf Hp. rewrite Forall_forall in Hw. destruct (Hw f Hf) as (_ & _ & Hps & _).
  destruct (Hps Hp) as [_ Hne]. exact Hne.
Qed.

(** What the code still does not look at: the presence of :scheme on a non-CONNECT request
    (the in-tree TestRequestHeaderParsing sends none). *)
Definition scheme_rule (fs : list field) : Prop :=
  beq (last_value (bs ":method") fs) (bs "CONNECT") = false -> last_value (bs ":scheme") fs <> [].

Lemma request_rules_from_x fs :
  request_rules_x fs -> no_empty_pseudo fs -> scheme_rule fs -> request_rules fs.
Proof.
  unfold request_rules_x, request_rules, scheme_rule. intros Hx Hne Hs.
  pose proof (has_last_value (bs ":method") fs eq_refl Hne) as Hm.
  pose proof (has_last_value (bs ":path") fs eq_refl Hne) as Hp.
  pose proof (has_last_value (bs ":scheme") fs eq_refl Hne) as Hsc.
  pose proof (has_last_value (bs ":protocol") fs eq_refl Hne) as Hpr.
  destruct (beq (last_value (bs ":method") fs) (bs "CONNECT")) eqn:Ec.
  - assert (Hmne : last_value (bs ":method") fs <> []).
    { apply beq_eq in Ec. rewrite Ec. discriminate. }
    split; [apply Hm; auto|]. split; auto.
    destruct (is_empty (last_value (bs ":protocol") fs)) eqn:Epr.
    + destruct Hx as (X1 & X2 & X3). apply is_empty_true in Epr. split; [|split; [|split]]; auto.
      * intros Hh. apply Hsc in Hh. contradiction.
      * intros Hh. apply Hp in Hh. contradiction.
      * intros Hh. apply Hpr in Hh. contradiction.
    + exact Hx.
  - destruct Hx as (X1 & X2 & X3 & X4).
    split; [apply Hm; auto|]. split; auto. split; [|split; auto].
    intros Hh. apply Hpr in Hh. contradiction.
Qed.

Lemma request_rules_rfc lim fs :
  WF true lim fs -> request_rules_x fs -> scheme_rule fs -> request_rules fs.
Proof. intros Hw Hx Hs. eapply request_rules_from_x; eauto. eapply WF_no_empty_pseudo; eauto. Qed.

Definition any_uri (_ : bytes) : bool * bytes * bytes := (true, [], []).

Lemma request_scheme_refuted :
  exists fs r, requestFromHeaders 65536 fs false any_uri = inr r /\ ~ request_rules fs.
Proof.
  exists [mk ":method" "GET"; mk ":authority" "example.com"; mk ":path" "/a"]. eexists.
  split; [vm_compute; reflexivity|].
  unfold request_rules. intros (_ & _ & H). vm_compute in H. destruct H as (_ & H & _). apply H. reflexivity.
Qed.

(** the former witnesses of the repaired CONNECT deviations are rejected *)
Lemma connect_witnesses_rejected :
  requestFromHeaders 65536 [mk ":method" "CONNECT"; mk ":authority" "example.com:443"; mk ":scheme" "https"] false any_uri
    = inl (EMalformed ConnectSchemeRule) /\
  requestFromHeaders 65536 [mk ":method" "CONNECT"; mk ":authority" "example.com:443"; mk ":path" ""] false any_uri
    = inl (EMalformed EmptyPseudo) /\
  requestFromHeaders 65536 [mk ":method" "CONNECT"; mk ":protocol" ""; mk ":authority" "example.com:443"] false any_uri
    = inl (EMalformed EmptyPseudo).
Proof. split; [|split]; vm_compute; reflexivity. Qed.

(** * updateResponseFromHeaders *)

Theorem updateResponse_sound lim fs te r :
  0 <= lim -> updateResponseFromHeaders lim fs te = inr r ->
  te = false /\ WF false lim fs /\ last_value (bs ":status") fs <> [] /\
  atoi (last_value (bs ":status") fs) = Some (rsCode r) /\ rsCL r = hCL (hdr_of fs).
Proof.
  intros Hlim H. unfold updateResponseFromHeaders in H.
  destruct (parseHeaders false lim fs te) as [e|h] eqn:Hp; [discriminate|].
  apply parseHeaders_sound in Hp as (Hte & Hw & _ & ->); auto.
  unfold response_of in H. rewrite hdr_of_ps in H. unfold pseudos_of in H. cbn [sStatus] in H.
  destruct (is_empty (last_value (bs ":status") fs)) eqn:Es; [discriminate|]. apply is_empty_false in Es.
  destruct (extract_trailers _) as [hd' tr].
  destruct (atoi (last_value (bs ":status") fs)) as [c|] eqn:Ea; [|discriminate].
  inversion H; subst r; cbn. auto.
Qed.

(** * Rejection completeness (the contrapositive reading of soundness) *)

Theorem parseHeaders_reject isReq lim fs te :
  0 <= lim -> ~ WF isReq lim fs -> exists e, parseHeaders isReq lim fs te = inl e.
Proof.
  intros Hlim Hn. destruct (parseHeaders isReq lim fs te) as [e|h] eqn:H; [eauto|].
  apply parseHeaders_sound in H as (_ & Hw & _); auto. contradiction.
Qed.

Theorem parseTrailers_reject lim fs te :
  0 <= lim -> ~ WFtrailer lim fs -> exists e, parseTrailers lim fs te = inl e.
Proof.
  intros Hlim Hn. destruct (parseTrailers lim fs te) as [e|m] eqn:H; [eauto|].
  apply parseTrailers_sound in H as (_ & Hw & _); auto. contradiction.
Qed.

(** Under uniqueness the parsed value of a pseudo-header field is THE value of that field. *)
Lemma last_value_unique n fs f :
  pseudo_unique fs -> is_pseudo n = true -> In f fs -> fname f = n -> last_value n fs = fvalue f.
Proof.
  intros Hu Hn Hf Hfn.
  destruct (last_value_cases n fs) as [[Hno _]|(g & Hg & Hgn & ->)]; [exfalso; eapply Hno; eauto|].
  apply in_split in Hf as (l1 & l2 & ->).
  assert (Hpf : pseudo f) by (apply is_pseudo_spec; rewrite Hfn; auto).
  assert (Hpg : pseudo g) by (apply is_pseudo_spec; rewrite Hgn; auto).
  apply in_app_or in Hg as [Hg|[Hg|Hg]]; [| congruence |].
  - apply in_split in Hg as (a & b & ->). exfalso.
    apply (Hu a g b f l2); [rewrite <- app_assoc; reflexivity| auto | congruence].
  - apply in_split in Hg as (a & b & ->). exfalso.
    apply (Hu l1 f a g b); [reflexivity| auto | congruence].
Qed.

(** * Tables and non-vacuity *)

Lemma tables_rfc :
  (forall b, 0 <= b < 256 -> (tbl h3TokenTable b = true <-> rfc_tchar b)) /\
  (forall b, 0 <= b < 256 -> (tbl h3ValueTable b = true <-> rfc_value_byte b)) /\
  (forall b, 0 <= b < 256 -> tbl h3LowerTable b = true -> ~ (65 <= b <= 90)) /\
  conn_specific = connection_specific /\ h3FieldOverhead = 32.
Proof.
  split; [|split; [|split; [|split]]].
  - intros b Hb. rewrite token_table_rfc by auto. apply rfc_tchar_b_spec.
  - intros b Hb. rewrite value_table_rfc by auto. apply rfc_value_b_spec.
  - exact lower_table_rfc.
  - exact conn_specific_rfc.
  - exact overhead_32.
Qed.

Lemma nonvacuous_request :
  exists r, requestFromHeaders 65536
    [mk ":method" "GET"; mk ":scheme" "https"; mk ":authority" "example.com"; mk ":path" "/a";
     mk "cookie" "a=1"; mk "content-length" "5"; mk "cookie" "b=2"] false any_uri = inr r
    /\ rqCL r = 5 /\ hget (bs "Cookie") (rqHeader r) = Some [bs "a=1; b=2"].
Proof. eexists. split; [vm_compute; reflexivity|]. split; vm_compute; reflexivity. Qed.

Lemma nonvacuous_response :
  exists r, updateResponseFromHeaders 65536 [mk ":status" "200"; mk "x-a" "1"] false = inr r /\ rsCode r = 200.
Proof. eexists. split; [vm_compute; reflexivity|reflexivity]. Qed.

Lemma nonvacuous_trailers :
  exists m, parseTrailers 65536 [mk "grpc-status" "0"] false = inr m.
Proof. eexists. vm_compute. reflexivity. Qed.

Lemma nonvacuous_rejection :
  ~ WF true 65536 [mk ":method" "GET"; mk "x" "a"; mk ":path" "/"].
Proof.
  intros (_ & Hpf & _).
  specialize (Hpf [mk ":method" "GET"] (mk "x" "a") [] (mk ":path" "/") [] eq_refl).
  destruct Hpf as [r Hr]; [exists (bs "path"); reflexivity|]. discriminate.
Qed.
