(** Correspondence glue for unit h3headers: a case is what harness/drv/h3headers.go logged
    from the real parseHeaders / parseTrailers / requestFromHeaders / updateResponseFromHeaders. *)
From Coq Require Import List ZArith Bool String.
From V Require Import Gen.Params Lib.Hex Lib.Corr H3Headers.Model.
Import ListNotations.
Open Scope bool_scope.
Open Scope Z_scope.

Definition hfields := list (string * string).
Definition hheader := list (string * list string).

(** What the implementation returned. *)
Inductive result :=
| RErr (cls reason nlogged : Z)
| ROkH (path method authority scheme status protocol : string) (cl : Z) (hdrs : hheader) (nlogged : Z)
| ROkT (hdrs : hheader) (nlogged : Z)
| ROkQ (method host uri proto : string) (cl : Z) (uscheme uhost : string) (hdrs : hheader)
       (trailer : option (list string)) (nlogged : Z)
| ROkS (code cl : Z) (hdrs : hheader) (trailer : option (list string)) (nlogged : Z).

Inductive case :=
| PH (isReq : bool) (limit : Z) (fs : hfields) (tailerr : bool) (res : result)
| PT (limit : Z) (fs : hfields) (tailerr : bool) (res : result)
| RQ (limit : Z) (fs : hfields) (tailerr : bool) (oracle : list (string * (bool * string * string))) (res : result)
| RS (limit : Z) (fs : hfields) (tailerr : bool) (res : result).

Definition fields_of (fs : hfields) : list field := map (fun p => F (hx (fst p)) (hx (snd p))) fs.

Definition oracle_of (o : list (string * (bool * string * string))) (p : bytes) : bool * bytes * bytes :=
  match find (fun e => beq (hx (fst e)) p) o with
  | Some (_, (ok, s, h)) => (ok, hx s, hx h)
  | None => (false, [], [])
  end.

(** Observables of the model, in the model's own types. *)
Inductive obs :=
| OErr (e : err) (nlogged : Z)
| OHdr (h : hdr) (nlogged : Z)
| OTrl (m : hmap) (nlogged : Z)
| OReq (r : request) (nlogged : Z)
| ORsp (r : response) (nlogged : Z).

Definition logged_h (isReq : bool) (lim : Z) (fs : list field) := plogged isReq (pinit lim) fs.

Definition model_obs (c : case) : obs :=
  match c with
  | PH isReq lim fs te _ =>
    let l := fields_of fs in
    match parseHeaders isReq lim l te with
    | inl e => OErr e (logged_h isReq lim l)
    | inr h => OHdr h (logged_h isReq lim l)
    end
  | PT lim fs te _ =>
    let l := fields_of fs in
    match parseTrailers lim l te with
    | inl e => OErr e (tlogged (lim, []) l)
    | inr m => OTrl m (tlogged (lim, []) l)
    end
  | RQ lim fs te o _ =>
    let l := fields_of fs in
    match requestFromHeaders lim l te (oracle_of o) with
    | inl e => OErr e (logged_h true lim l)
    | inr r => OReq r (logged_h true lim l)
    end
  | RS lim fs te _ =>
    let l := fields_of fs in
    match updateResponseFromHeaders lim l te with
    | inl e => OErr e (logged_h false lim l)
    | inr r => ORsp r (logged_h false lim l)
    end
  end.

Definition err_class (e : err) : Z :=
  match e with ETooLarge => 1 | EQpack => 2 | EMalformed _ => 3 end.

(** The enum harness/drv/h3headers.go derives from the error text (0 = not recognised). *)
Definition reason_code (e : err) : Z :=
  match e with
  | ETooLarge | EQpack => 0
  | EMalformed r =>
    match r with
    | NotLower => 1 | BadValue => 2 | PseudoAfterRegular => 3 | UnknownPseudo => 4 | DupPseudo => 5
    | RspPseudoInRequest => 6 | ReqPseudoInResponse => 7 | BadName => 8 | ConnSpecific => 8 | BadTE => 9
    | CLContradict => 10 | CLInvalid => 11 | PseudoInTrailer => 12 | BadTrailerName => 13
    | ExtConnectRule => 14 | ConnectRule => 15 | NormalRule => 16 | ProtocolRule => 17
    | MissingStatus => 18 | BadStatus => 19
    | UrlParse => 11      (* the code words this one "invalid content length: ..." too *)
    | UrlParseExt => 20
    | EmptyPseudo => 21
    | ConnectSchemeRule => 22
    end
  end.

Definition seqb (s : string) (b : bytes) : bool := beq (hx s) b.

(** Equality of an implementation header map (sorted by key) and a model map (insertion order):
    same number of keys and every implementation key has the same value list in the model. *)
Fixpoint vals_eq (a : list string) (b : list bytes) : bool :=
  match a, b with
  | [], [] => true
  | x :: a', y :: b' => seqb x y && vals_eq a' b'
  | _, _ => false
  end.
Definition hdr_eq (i : hheader) (m : hmap) : bool :=
  (Nat.eqb (List.length i) (List.length m)) &&
  forallb (fun kv => match hget (hx (fst kv)) m with Some vs => vals_eq (snd kv) vs | None => false end) i.

Definition keys_eq (i : option (list string)) (m : option (list bytes)) : bool :=
  match i, m with
  | None, None => true
  | Some a, Some b => Nat.eqb (List.length a) (List.length b) && forallb (fun k => mem (hx k) b) a
  | _, _ => false
  end.

Definition ascii_names (fs : hfields) : bool := forallb (fun p => forallb (fun b => b <? 128) (hx (fst p))) fs.

Definition fields_in (c : case) : hfields :=
  match c with PH _ _ fs _ _ | PT _ fs _ _ | RQ _ fs _ _ _ | RS _ fs _ _ => fs end.
Definition result_in (c : case) : result :=
  match c with PH _ _ _ _ r | PT _ _ _ r | RQ _ _ _ _ r | RS _ _ _ r => r end.

Definition check_case (c : case) : bool :=
  match result_in c, model_obs c with
  | RErr cls rsn n, OErr e n' =>
    (cls =? err_class e) && (n =? n') &&
    (* the reason is compared when the harness recognised the message and all names are ASCII
       (for other names Go's Unicode-aware lower-case test may name a later check) *)
    ((rsn =? 0) || negb (ascii_names (fields_in c)) || (rsn =? reason_code e))
  | ROkH pa me au sc st pr cl hd n, OHdr h n' =>
    let p := hPs h in
    seqb pa (sPath p) && seqb me (sMethod p) && seqb au (sAuthority p) && seqb sc (sScheme p) &&
    seqb st (sStatus p) && seqb pr (sProtocol p) && (cl =? hCL h) && hdr_eq hd (hHeaders h) && (n =? n')
  | ROkT hd n, OTrl m n' => hdr_eq hd m && (n =? n')
  | ROkQ me ho ur pr cl us uh hd tr n, OReq r n' =>
    seqb me (rqMethod r) && seqb ho (rqHost r) && seqb ur (rqURI r) && seqb pr (rqProto r) && (cl =? rqCL r) &&
    seqb us (rqURLScheme r) && seqb uh (rqURLHost r) && hdr_eq hd (rqHeader r) && keys_eq tr (rqTrailer r) && (n =? n')
  | ROkS code cl hd tr n, ORsp r n' =>
    (code =? rsCode r) && (cl =? rsCL r) && hdr_eq hd (rsHeader r) && keys_eq tr (rsTrailer r) && (n =? n')
  | _, _ => false
  end.
