(** H3Headers — the converse direction: every well-formed section whose Content-Length fits 63
    bits IS accepted by the model of parseHeaders, so [WF /\ cl_fits] characterises acceptance
    exactly (nothing well-formed is refused). *)
From Coq Require Import List ZArith Bool String Lia.
From V Require Import Gen.Params Lib.Hex H3Headers.Model H3Headers.Spec H3Headers.Proofs H3Headers.ProofsParse H3Headers.ProofsMain.
Import ListNotations.
Open Scope bool_scope.
Open Scope Z_scope.

Lemma mem_false_intro x l : ~ In x l -> mem x l = false.
Proof. intros H. destruct (mem x l) eqn:E; auto. apply mem_true in E. contradiction. Qed.

Lemma slot_name_lower sl : lower_ok (slot_name sl) = true.
Proof. destruct sl; vm_compute; reflexivity. Qed.

Lemma token_lower n : rfc_token n -> no_uppercase n -> lower_ok n = true.
Proof.
  intros [_ Ht] Hu. unfold lower_ok, no_uppercase in *. apply forallb_forall. intros b Hb.
  rewrite Forall_forall in Ht, Hu. specialize (Ht b Hb). destruct (Hu b Hb) as [_ Hn].
  apply lower_table_ascii; auto. apply rfc_tchar_range; auto.
Qed.

(** the local checks of one iteration succeed on a field satisfying the RFC's per-field rules *)
Lemma field_wf_checks isReq f :
  field_wf isReq f ->
  lower_ok (fname f) = true /\ value_ok (fvalue f) = true /\
  (is_pseudo (fname f) = true -> fvalue f <> [] /\ exists sl, fname f = slot_name sl /\ slot_is_response sl = negb isReq) /\
  (is_pseudo (fname f) = false -> validate_regular f = None).
Proof.
  intros (Hu & Hv & Hp & Hr).
  assert (Hval : value_ok (fvalue f) = true) by (apply value_ok_spec; auto).
  destruct (is_pseudo (fname f)) eqn:E.
  - apply is_pseudo_spec in E. apply Hp in E as [E Hne]. apply allowed_slot in E as (sl & Hn & Hk).
    split; [rewrite Hn; apply slot_name_lower|]. split; auto. split; [|discriminate].
    intros _. split; eauto.
  - apply is_pseudo_false_spec in E. destruct (Hr E) as (Ht & Hc & Hte).
    repeat split; auto; try discriminate.
    + apply token_lower; auto.
    + intros _. apply validate_regular_spec. split; [apply token_ok_spec; auto|].
      split; [apply mem_false_intro; rewrite conn_specific_rfc; auto|exact Hte].
Qed.

Lemma pseudo_first_tail f r : pseudo_first (f :: r) -> pseudo_first r.
Proof. intros H l1 a l2 b l3 E. apply (H (f :: l1) a l2 b l3). rewrite E. reflexivity. Qed.

Lemma pseudo_unique_tail f r : pseudo_unique (f :: r) -> pseudo_unique r.
Proof. intros H l1 a l2 b l3 E. apply (H (f :: l1) a l2 b l3). rewrite E. reflexivity. Qed.

Lemma ploop_complete isReq : forall fs st,
  Forall (field_wf isReq) fs ->
  section_size fs <= pLimit st ->
  pseudo_first fs ->
  (pRegular st = true -> Forall (fun f => is_pseudo (fname f) = false) fs) ->
  pseudo_unique fs ->
  (forall f sl, In f fs -> fname f = slot_name sl -> get_flag sl (pSeen st) = false) ->
  (forall f g, In f fs -> In g fs -> is_cl f -> is_cl g -> fvalue f = fvalue g) ->
  (pReadCL st = true -> forall f, In f fs -> is_cl f -> fvalue f = pCL st) ->
  exists st', ploop isReq st fs false = inr st'.
Proof.
  induction fs as [|f r IH]; intros st Hw Hsz Hpf Hreg Hux Hslots Hcle Hclr.
  - simpl. eauto.
  - inversion Hw as [|? ? Hwf Hwr]; subst.
    destruct (field_wf_checks _ _ Hwf) as (Hlo & Hv & Hps & Hrg).
    simpl in Hsz. pose proof (section_size_nonneg r) as Hnn.
    assert (Hl : 0 <= pLimit st - fsize f) by (rewrite fsize_32; lia).
    assert (Hstep : exists st1, step_ok isReq st f st1 /\
              (pRegular st1 = true -> Forall (fun g => is_pseudo (fname g) = false) r) /\
              (forall g sl, In g r -> fname g = slot_name sl -> get_flag sl (pSeen st1) = false) /\
              (pReadCL st1 = true -> forall g, In g r -> is_cl g -> fvalue g = pCL st1)).
    { destruct (is_pseudo (fname f)) eqn:Ep.
      - destruct (Hps eq_refl) as (Hvne & sl & Hn & Hk).
        assert (Hnr : pRegular st = false).
        { destruct (pRegular st) eqn:Er; auto. specialize (Hreg eq_refl). inversion Hreg; subst. congruence. }
        eexists. split; [eapply StepPseudo; eauto; apply (Hslots f sl); [left; auto|auto]|].
        split; [simpl; discriminate|]. split.
        + intros g sl' Hg Hgn. simpl. destruct (slot_eq_dec sl' sl) as [->|Hd].
          * exfalso. apply in_split in Hg as (a & b & ->).
            apply (Hux [] f a g b); [reflexivity|apply is_pseudo_spec; auto|congruence].
          * rewrite flag_set_other by auto. apply (Hslots g sl'); [right; auto|auto].
        + simpl. intros Hrc g Hg Hc. apply Hclr; auto. right; auto.
      - specialize (Hrg eq_refl).
        assert (Hr' : Forall (fun g => is_pseudo (fname g) = false) r).
        { apply Forall_forall. intros g Hg. destruct (is_pseudo (fname g)) eqn:Eg; auto. exfalso.
          apply in_split in Hg as (a & b & ->).
          assert (pseudo f) by (apply (Hpf [] f a g b eq_refl); apply is_pseudo_spec; auto).
          apply is_pseudo_spec in H. congruence. }
        destruct (beq (fname f) n_content_length) eqn:Ec.
        + apply beq_eq in Ec. destruct (pReadCL st) eqn:Erc.
          * eexists. split; [eapply StepCLAgain; eauto; symmetry; apply Hclr; auto; left; auto|].
            split; [auto|]. split; [simpl; intros g sl Hg Hgn; apply (Hslots g sl); [right; auto|auto]|].
            simpl. intros _ g Hg Hc. apply Hclr; auto. right; auto.
          * eexists. split; [eapply StepCLFirst; eauto|].
            split; [auto|]. split; [simpl; intros g sl Hg Hgn; apply (Hslots g sl); [right; auto|auto]|].
            simpl. intros _ g Hg Hc. apply Hcle; auto; [right; auto|left; auto].
        + apply beq_neq in Ec. eexists. split; [eapply StepRegular; eauto|].
          split; [auto|]. split; [simpl; intros g sl Hg Hgn; apply (Hslots g sl); [right; auto|auto]|].
          simpl. intros Hrc g Hg Hc. apply Hclr; auto. right; auto. }
    destruct Hstep as (st1 & Hs & A1 & A2 & A3).
    assert (Hp : pstep isReq st f = inr st1) by (apply pstep_inv; auto).
    simpl. rewrite Hp. apply IH; auto.
    + rewrite (step_limit _ _ _ _ Hs), fsize_32. lia.
    + eapply pseudo_first_tail; eauto.
    + eapply pseudo_unique_tail; eauto.
    + intros a b Ha Hb. apply Hcle; right; auto.
Qed.

Lemma digits_val_complete s : forall acc,
  Forall (fun b => 48 <= b <= 57) s -> digits_val acc s = Some (fold_left (fun a b => 10 * a + (b - 48)) s acc).
Proof.
  induction s as [|c r IH]; intros acc H; simpl; auto.
  inversion H; subst. replace (is_digit c) with true by (symmetry; apply is_digit_spec; auto). apply IH; auto.
Qed.

Lemma parse_uint63_complete s : numeric s -> dec_value s < 2 ^ 63 -> parse_uint63 s = Some (dec_value s).
Proof.
  intros [Hne Hd] Hlt. unfold parse_uint63.
  replace (is_empty s) with false by (symmetry; apply is_empty_false; auto).
  rewrite (digits_val_complete s 0 Hd). fold (dec_value s).
  replace (dec_value s <=? 9223372036854775807) with true; auto. symmetry. apply Z.leb_le. lia.
Qed.

Theorem parseHeaders_complete isReq lim fs :
  WF isReq lim fs -> cl_fits fs -> parseHeaders isReq lim fs false = inr (hdr_of fs).
Proof.
  intros (H1 & H2 & H3 & [H4 H4'] & H5) Hfit.
  assert (Hlim : 0 <= lim) by (pose proof (section_size_nonneg fs); lia).
  destruct (ploop_complete isReq fs (pinit lim)) as [st Hl]; auto.
  - simpl. discriminate.
  - intros f sl _ _. destruct sl; reflexivity.
  - simpl. discriminate.
  - assert (Hok : exists h, parseHeaders isReq lim fs false = inr h).
    { unfold parseHeaders. rewrite Hl. unfold pfinish.
      pose proof (ploop_cl_last _ _ _ _ Hl) as Hcl.
      destruct (ploop_cl _ _ _ _ Hl) as (_ & _ & I3).
      destruct (pReadCL st) eqn:Erc; cbn [negb]; [|eauto].
      change (bs "content-length") with n_content_length in Hcl.
      destruct (last_value_cases n_content_length fs) as [[Hno _]|(g & Hg & Hgn & E)].
      - apply I3 in Hno as [_ E]. simpl in E. congruence.
      - rewrite Hcl, E, (parse_uint63_complete _ (H4 g Hg Hgn) (Hfit g Hg Hgn)). eauto. }
    destruct Hok as [h Hh]. pose proof (parseHeaders_sound _ _ _ _ _ Hlim Hh) as (_ & _ & _ & ->). exact Hh.
Qed.

(** Acceptance is EXACTLY "well-formed per RFC 9114 and Content-Length below 2^63". *)
Theorem parseHeaders_iff isReq lim fs :
  0 <= lim -> ((exists h, parseHeaders isReq lim fs false = inr h) <-> WF isReq lim fs /\ cl_fits fs).
Proof.
  intros Hlim. split.
  - intros [h H]. apply parseHeaders_sound in H as (_ & Hw & Hf & _); auto.
  - intros [Hw Hf]. eexists. apply parseHeaders_complete; auto.
Qed.

(** * Names with bytes >= 0x80: why the byte-wise lower-case test is a sound abstraction.
    Go evaluates [strings.ToLower(name) != name] with UTF-8 decoding, the model byte-wise.  For a
    name containing a byte >= 0x80 the two tests may differ, but the outcome cannot: such a name
    is neither a token nor a known pseudo-header, so whichever check fires, the section is
    malformed (same error class), provided the size check (which comes first) passed. *)
Lemma high_byte_tables b : 128 <= b -> tbl h3LowerTable b = false /\ tbl h3TokenTable b = false.
Proof.
  intros Hb. destruct (Z_lt_ge_dec b 256) as [Hlt|Hge].
  - assert (A : forallb (fun b => implb (128 <=? b) (negb (tbl h3LowerTable b) && negb (tbl h3TokenTable b))) all_bytes = true)
      by (vm_compute; reflexivity).
    assert (Hr : 0 <= b < 256) by lia. apply (byte_forall _ A) in Hr.
    replace (128 <=? b) with true in Hr by (symmetry; apply Z.leb_le; auto). simpl in Hr.
    apply andb_true_iff in Hr as [H1 H2]. apply negb_true_iff in H1, H2. auto.
  - unfold tbl. replace (b <? 256) with false by (symmetry; apply Z.ltb_ge; lia).
    rewrite !andb_false_r. auto.
Qed.

Lemma forallb_false_in {A} (p : A -> bool) l x : In x l -> p x = false -> forallb p l = false.
Proof.
  intros Hin Hp. destruct (forallb p l) eqn:E; auto. rewrite forallb_forall in E. rewrite (E x Hin) in Hp. discriminate.
Qed.

Lemma nonascii_name_never_valid n b :
  In b n -> 128 <= b -> lower_ok n = false /\ token_ok n = false /\ pseudo_slot n = None.
Proof.
  intros Hin Hb. destruct (high_byte_tables b Hb) as [H1 H2]. split; [|split].
  - eapply forallb_false_in; eauto.
  - unfold token_ok. rewrite (forallb_false_in _ _ _ Hin H2). apply andb_false_r.
  - destruct (pseudo_slot n) as [sl|] eqn:E; auto. apply pseudo_slot_spec in E. subst n. exfalso.
    destruct sl; simpl in Hin; repeat (destruct Hin as [Hin|Hin]; [lia|]); contradiction.
Qed.

Lemma nonascii_name_malformed isReq st f b :
  In b (fname f) -> 128 <= b -> 0 <= pLimit st - fsize f -> exists r, pstep isReq st f = inl (EMalformed r).
Proof.
  intros Hin Hb Hl. destruct (nonascii_name_never_valid _ _ Hin Hb) as (H1 & _ & _).
  unfold pstep. replace (pLimit st - fsize f <? 0) with false by (symmetry; apply Z.ltb_ge; auto).
  rewrite H1. simpl. eauto.
Qed.

(** * Trailer completeness: every well-formed trailer section is accepted *)

(** canonicalisation followed by lower-casing gives back a name without upper-case letters *)
Lemma lower_canon_go n : forall u,
  Forall (fun b => ~ (65 <= b <= 90)) n -> lower_bytes (canon_go u n) = n.
Proof.
  induction n as [|c r IH]; intros u H; simpl; auto.
  inversion H as [|? ? Hc Hr]; subst.
  assert (Huc : is_uc c = false) by (unfold is_uc; apply andb_false_iff; lia).
  rewrite Huc. rewrite andb_false_r.
  f_equal; [|apply IH; auto].
  unfold lower_byte. destruct (u && is_lc c) eqn:E.
  - apply andb_true_iff in E as [_ E]. unfold is_lc in E. apply andb_true_iff in E as [E1 E2].
    apply Z.leb_le in E1, E2. replace (is_uc (c - 32)) with true; [lia|].
    symmetry. unfold is_uc. apply andb_true_iff. split; apply Z.leb_le; lia.
  - rewrite Huc. reflexivity.
Qed.

Lemma forbidden_is_lower_bad : forbidden_trailer = map lower_bytes bad_trailer.
Proof. vm_compute. reflexivity. Qed.

Lemma valid_trailer_complete n :
  rfc_token n -> no_uppercase n -> ~ In n forbidden_trailer -> (forall r, n <> bs "if-" ++ r) ->
  valid_trailer n = true.
Proof.
  intros [Hne Ht] Hu Hnf Hnif.
  assert (Hnu : Forall (fun b => ~ (65 <= b <= 90)) n).
  { unfold no_uppercase in Hu. rewrite Forall_forall in *. intros b Hb. apply Hu; auto. }
  assert (Hall : forallb is_tchar n = true).
  { apply forallb_forall. intros b Hb. rewrite Forall_forall in Ht. specialize (Ht b Hb).
    apply token_table_is_tchar. pose proof (rfc_tchar_range _ Ht).
    rewrite token_table_rfc by lia. apply rfc_tchar_b_spec; auto. }
  unfold valid_trailer, canon. rewrite Hall. apply andb_true_iff. split; apply negb_true_iff.
  - destruct (has_prefix_if (canon_go true n)) eqn:E; auto. exfalso.
    pose proof (lower_canon_go n true Hnu) as Hl.
    destruct (canon_go true n) as [|a [|b [|c r]]] eqn:Ec; try discriminate.
    unfold has_prefix_if in E. apply andb_true_iff in E as [E E3]. apply andb_true_iff in E as [E1 E2].
    apply Z.eqb_eq in E1, E2, E3. subst a b c.
    simpl in Hl. apply (Hnif (lower_bytes r)). rewrite <- Hl. reflexivity.
  - destruct (mem (canon_go true n) bad_trailer) eqn:E; auto. exfalso. apply mem_true in E.
    apply Hnf. rewrite forbidden_is_lower_bad. rewrite <- (lower_canon_go n true Hnu).
    apply in_map. exact E.
Qed.

Lemma tloop_complete : forall fs st,
  Forall trailer_field_wf fs -> section_size fs <= fst st ->
  exists st', tloop st fs false = inr st'.
Proof.
  induction fs as [|f r IH]; intros st Hw Hsz; simpl; [eauto|].
  inversion Hw as [|? ? Hf Hr]; subst.
  destruct Hf as (Hu & Hv & Hnp & Ht & Hc & Hnf & Hnif).
  simpl in Hsz. pose proof (section_size_nonneg r) as Hnn.
  assert (Hs : tstep st f = inr (fst st - fsize f, hadd (canon (fname f)) (fvalue f) (snd st))).
  { apply tstep_inv. split; [rewrite fsize_32; lia|].
    split; [apply token_lower; auto|]. split; [apply value_ok_spec; auto|].
    split; [apply is_pseudo_false_spec; auto|].
    split; [|split; [apply valid_trailer_complete; auto|reflexivity]].
    apply validate_regular_spec. split; [apply token_ok_spec; auto|].
    split; [apply mem_false_intro; rewrite conn_specific_rfc; auto|].
    intros Hte. exfalso. apply Hnf. rewrite Hte. vm_compute. auto 30. }
  rewrite Hs. apply IH; auto. simpl. rewrite fsize_32. lia.
Qed.

Theorem parseTrailers_complete lim fs :
  WFtrailer lim fs -> parseTrailers lim fs false = inr (trailers_of fs).
Proof.
  intros [Hw Hsz].
  assert (Hlim : 0 <= lim) by (pose proof (section_size_nonneg fs); lia).
  destruct (tloop_complete fs (lim, []) Hw Hsz) as [st Hl].
  assert (Hok : parseTrailers lim fs false = inr (snd st)) by (unfold parseTrailers; rewrite Hl; reflexivity).
  pose proof (parseTrailers_sound _ _ _ _ Hlim Hok) as (_ & _ & E). rewrite <- E. exact Hok.
Qed.

Theorem parseTrailers_iff lim fs :
  0 <= lim -> ((exists m, parseTrailers lim fs false = inr m) <-> WFtrailer lim fs).
Proof.
  intros Hlim. split.
  - intros [m H]. apply parseTrailers_sound in H as (_ & Hw & _); auto.
  - intros Hw. eexists. apply parseTrailers_complete; auto.
Qed.
