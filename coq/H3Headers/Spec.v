(** H3Headers — the REFERENCE predicates of property C19, written from RFC 9114 section 4
    (and RFC 9110 5.5, 5.6.2, 6.5.1, 8.6; RFC 9220) without looking at headers.go.
    Nothing here mentions the model's state machine or the tables of [Gen.Params]. *)
From Coq Require Import List ZArith Bool String.
From V Require Import Lib.Hex H3Headers.Model.
Import ListNotations.
Open Scope Z_scope.

(** ** Bytes *)

(** RFC 9110 5.6.2:  tchar = "!" / "#" / "$" / "%" / "&" / "'" / "*" / "+" / "-" / "." /
                             "^" / "_" / "`" / "|" / "~" / DIGIT / ALPHA *)
Definition rfc_tchar (b : Z) : Prop :=
  48 <= b <= 57 \/ 65 <= b <= 90 \/ 97 <= b <= 122 \/
  In b [33; 35; 36; 37; 38; 39; 42; 43; 45; 46; 94; 95; 96; 124; 126].
(** token = 1*tchar *)
Definition rfc_token (n : bytes) : Prop := n <> [] /\ Forall rfc_tchar n.

(** RFC 9114 4.2: "characters in field names MUST be converted to lowercase"; a section
    "containing uppercase characters in field names MUST be treated as malformed". *)
Definition no_uppercase (n : bytes) : Prop := Forall (fun b => 0 <= b < 256 /\ ~ (65 <= b <= 90)) n.

(** RFC 9110 5.5: field values consist of HTAB, SP, VCHAR and obs-text; RFC 9114 10.3: a
    section with any other byte (NUL, CR, LF, other controls, DEL) is malformed. *)
Definition rfc_value_byte (b : Z) : Prop := b = 9 \/ 32 <= b <= 126 \/ 128 <= b <= 255.
Definition rfc_value (v : bytes) : Prop := Forall rfc_value_byte v.

(** RFC 9110 8.6: Content-Length = 1*DIGIT *)
Definition numeric (v : bytes) : Prop := v <> [] /\ Forall (fun b => 48 <= b <= 57) v.
Definition dec_value (v : bytes) : Z := fold_left (fun a b => 10 * a + (b - 48)) v 0.

(** ** Fields *)

(** RFC 9114 4.3: pseudo-header fields begin with ':' *)
Definition pseudo (f : field) : Prop := exists r, fname f = 58 :: r.

Definition request_pseudo : list bytes := map bs [":method"; ":scheme"; ":authority"; ":path"; ":protocol"]%string.
Definition response_pseudo : list bytes := [bs ":status"].
Definition allowed_pseudo (isReq : bool) : list bytes := if isReq then request_pseudo else response_pseudo.

(** RFC 9114 4.2: connection-specific fields *)
Definition connection_specific : list bytes :=
  map bs ["connection"; "keep-alive"; "proxy-connection"; "transfer-encoding"; "upgrade"]%string.

Definition is_cl (f : field) : Prop := fname f = bs "content-length".

(** Per-field rules of a header section of the given kind. *)
Definition field_wf (isReq : bool) (f : field) : Prop :=
  no_uppercase (fname f) /\ rfc_value (fvalue f) /\
  (* RFC 9114 4.3.1 "... or contains invalid values for those pseudo-header fields is malformed":
     no pseudo-header field has a valid empty value (:method, :scheme, :protocol, :status are tokens or
     numbers; :authority "MUST NOT be empty" if present; :path "MUST NOT be empty for http or https URIs") *)
  (pseudo f -> In (fname f) (allowed_pseudo isReq) /\ fvalue f <> []) /\
  (~ pseudo f -> rfc_token (fname f) /\ ~ In (fname f) connection_specific /\
                 (fname f = bs "te" -> fvalue f = bs "trailers")).

(** RFC 9114 4.3: "All pseudo-header fields MUST appear in the header section before regular
    header fields": whenever [g] comes after [f] and [g] is a pseudo-header field, so is [f]. *)
Definition pseudo_first (fs : list field) : Prop :=
  forall l1 f l2 g l3, fs = l1 ++ f :: l2 ++ g :: l3 -> pseudo g -> pseudo f.

(** RFC 9114 4.3.1 / 4.3.2 "exactly one value": no pseudo-header name occurs at two positions. *)
Definition pseudo_unique (fs : list field) : Prop :=
  forall l1 f l2 g l3, fs = l1 ++ f :: l2 ++ g :: l3 -> pseudo f -> fname f <> fname g.

(** Content-Length is numeric and single-valued (identical repetitions are tolerated, RFC 9110 8.6). *)
Definition cl_wf (fs : list field) : Prop :=
  (forall f, In f fs -> is_cl f -> numeric (fvalue f)) /\
  (forall f g, In f fs -> In g fs -> is_cl f -> is_cl g -> fvalue f = fvalue g).

(** RFC 9114 4.2.2: size = sum of name length + value length + 32 *)
Definition section_size (fs : list field) : Z :=
  fold_right (fun f a => zlen (fname f) + zlen (fvalue f) + 32 + a) 0 fs.

(** *** The reference predicate: a well-formed header section within the limit. *)
Definition WF (isReq : bool) (lim : Z) (fs : list field) : Prop :=
  Forall (field_wf isReq) fs /\ pseudo_first fs /\ pseudo_unique fs /\ cl_wf fs /\ section_size fs <= lim.

(** The one thing the implementation demands beyond the RFC: the Content-Length must be
    representable (strconv.ParseUint(_, 10, 63)). *)
Definition cl_fits (fs : list field) : Prop :=
  forall f, In f fs -> is_cl f -> dec_value (fvalue f) < 2 ^ 63.

(** Used by the request rules below (presence vs emptiness of pseudo-header fields). *)
Definition no_empty_pseudo (fs : list field) : Prop := forall f, In f fs -> pseudo f -> fvalue f <> [].

(** ** The header handed to net/http: "the obvious function of the section". *)

(** value of the last field named [n] ([[]] if there is none) *)
Definition last_value (n : bytes) (fs : list field) : bytes :=
  fold_left (fun acc f => if beq (fname f) n then fvalue f else acc) fs [].

(** regular fields other than content-length, grouped by canonical name, in order of arrival *)
Definition headers_of (fs : list field) : hmap :=
  fold_left (fun m f => if is_pseudo (fname f) || beq (fname f) (bs "content-length") then m
                        else hadd (canon (fname f)) (fvalue f) m) fs [].

Definition pseudos_of (fs : list field) : pseudos :=
  PSD (last_value (bs ":path") fs) (last_value (bs ":method") fs) (last_value (bs ":authority") fs)
      (last_value (bs ":protocol") fs) (last_value (bs ":scheme") fs) (last_value (bs ":status") fs).

Definition hdr_of (fs : list field) : hdr :=
  let cl := last_value (bs "content-length") fs in
  if is_empty cl then H (pseudos_of fs) (-1) (headers_of fs)
  else H (pseudos_of fs) (dec_value cl) (hset (bs "Content-Length") cl (headers_of fs)).

(** ** Trailer sections (RFC 9114 4.1, RFC 9110 6.5.1) *)

(** fields that must not be sent as trailers: framing, routing, request modifiers,
    authentication, response control, content format (RFC 9110 6.5.1; the explicit list is the
    one of RFC 7230 4.1.2 as used by Go's httpguts) and every "if-" conditional. *)
Definition forbidden_trailer : list bytes :=
  map bs ["authorization"; "cache-control"; "connection"; "content-encoding"; "content-length"; "content-range";
          "content-type"; "expect"; "host"; "keep-alive"; "max-forwards"; "pragma"; "proxy-authenticate";
          "proxy-authorization"; "proxy-connection"; "range"; "realm"; "te"; "trailer"; "transfer-encoding";
          "www-authenticate"]%string.

Definition trailer_field_wf (f : field) : Prop :=
  no_uppercase (fname f) /\ rfc_value (fvalue f) /\ ~ pseudo f /\
  rfc_token (fname f) /\ ~ In (fname f) connection_specific /\
  ~ In (fname f) forbidden_trailer /\ (forall r, fname f <> bs "if-" ++ r).

Definition WFtrailer (lim : Z) (fs : list field) : Prop :=
  Forall trailer_field_wf fs /\ section_size fs <= lim.

Definition trailers_of (fs : list field) : hmap :=
  fold_left (fun m f => hadd (canon (fname f)) (fvalue f) m) fs [].

(** ** Request rules (RFC 9114 4.3.1, 4.4; RFC 9220 / RFC 8441 section 4) *)

Definition has (n : bytes) (fs : list field) : Prop := exists f, In f fs /\ fname f = n.

(** As the RFCs state them: by PRESENCE of the pseudo-header fields. *)
Definition request_rules (fs : list field) : Prop :=
  has (bs ":method") fs /\ last_value (bs ":method") fs <> [] /\
  if beq (last_value (bs ":method") fs) (bs "CONNECT") then
    if is_empty (last_value (bs ":protocol") fs) then
      (* CONNECT: only :method and :authority *)
      ~ has (bs ":scheme") fs /\ ~ has (bs ":path") fs /\ ~ has (bs ":protocol") fs /\
      last_value (bs ":authority") fs <> []
    else
      (* extended CONNECT: all of them *)
      last_value (bs ":scheme") fs <> [] /\ last_value (bs ":path") fs <> [] /\ last_value (bs ":authority") fs <> []
  else
    ~ has (bs ":protocol") fs /\
    last_value (bs ":scheme") fs <> [] /\ last_value (bs ":path") fs <> []
    (* (:authority or Host is required only for schemes with a mandatory authority) *).

(** What requestFromHeaders enforces, on the parsed values (empty = absent, since empty
    pseudo-header values are malformed): everything but the presence of :scheme on a
    non-CONNECT request; :authority is always demanded. *)
Definition request_rules_x (fs : list field) : Prop :=
  let v n := last_value (bs n) fs in
  if beq (v ":method"%string) (bs "CONNECT") then
    if is_empty (v ":protocol"%string) then v ":path"%string = [] /\ v ":authority"%string <> [] /\ v ":scheme"%string = []
    else v ":scheme"%string <> [] /\ v ":path"%string <> [] /\ v ":authority"%string <> []
  else v ":path"%string <> [] /\ v ":authority"%string <> [] /\ v ":method"%string <> [] /\ v ":protocol"%string = [].
