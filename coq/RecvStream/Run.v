(** Correspondence glue for the recvstream unit (harness/drv/recvstream.go). *)
From Coq Require Import List ZArith Bool String.
From V Require Import Gen.Params Lib.Hex FrameSorter.Model FrameSorter.InvCheck RecvStream.Model.
Import ListNotations.
Open Scope Z_scope.

Inductive op :=
| RFrame (off n : Z) (fin : bool) (cb : Z)
| RReset (final reliable code : Z)
| RRead (n : Z)
| RPeek (n : Z)
| RCancel (code : Z)
| RShutdown.

(* err: frames/resets: 0 nil, 1 FINAL_SIZE_ERROR, 2 FLOW_CONTROL_ERROR, 3 too many gaps;
        read/peek: 0 nil, 1 EOF, 2 StreamError(code, remote), 3 shutdown, 4 would block;
   firedNow: frames put back during the op (sorted); completed: calls of onStreamCompleted so far *)
(* owed: id of the received frame whose buffer the current frame aliases, i.e. the release
   (PutBack) the stream still owes; -1: no current frame, or a private copy *)
Inductive obs := ROut (err n hash code : Z) (remote : bool) (firedNow : list Z) (completed : Z) (owed : Z) | RBug.

Inductive case := RSCase (window : Z) (ops : list (op * obs)).

Definition bhash (d : list Z) : Z := fold_left (fun h b => (h * 31 + b) mod 4294967296) d 7.

Fixpoint insertZ (x : Z) (l : list Z) : list Z :=
  match l with [] => [x] | y :: r => if x <=? y then x :: l else y :: insertZ x r end.
Definition sortZ (l : list Z) : list Z := fold_right insertZ [] l.

Definition ferr_code (e : ferr) : option Z :=
  match e with FNil => Some 0 | FFinalSize => Some 1 | FFlowControl => Some 2 | FSorter => Some 3 | FBug => None end.

Definition new_fired (s s' : rstream) : list Z :=
  sortZ (skipn (List.length (fired (sorter s))) (fired (sorter s'))).

Definition owed_id (s : rstream) : Z :=
  match cur s with [] => -1 | _ => match curDone s with Some c => c | None => -1 end end.

Definition rd_obs (s s' : rstream) (d : list Z) (e : rerr) : obs :=
  let '(cls, code, remote) :=
    match e with
    | ENil => (0, 0, false) | EEOF => (1, 0, false) | ECancel c r => (2, c, r)
    | EShutdown => (3, 0, false) | EWouldBlock => (4, 0, false)
    end in
  ROut cls (len d) (bhash d) code remote (new_fired s s') (ncompleted s') (owed_id s').

Definition step (s : rstream) (o : op) : rstream * obs :=
  match o with
  | RFrame off n fin cb =>
    let '(s', e) := handleStreamFrame s (slice sbyte off n) off fin (Some cb) in
    (s', match ferr_code e with Some c => ROut c 0 0 0 false (new_fired s s') (ncompleted s') (owed_id s') | None => RBug end)
  | RReset final reliable code =>
    let '(s', e) := handleResetStreamFrame s final reliable code in
    (s', match ferr_code e with Some c => ROut c 0 0 0 false (new_fired s s') (ncompleted s') (owed_id s') | None => RBug end)
  | RRead n =>
    let '(s', d, e, bug) := Read s n in
    (s', if bug then RBug else rd_obs s s' d e)
  | RPeek n =>
    let '(s', d, e, bug) := PeekS s n in
    (s', if bug then RBug else rd_obs s s' d e)
  | RCancel code => let s' := CancelRead s code in (s', ROut 0 0 0 0 false (new_fired s s') (ncompleted s') (owed_id s'))
  | RShutdown => let s' := CloseForShutdown s in (s', ROut 0 0 0 0 false (new_fired s s') (ncompleted s') (owed_id s'))
  end.

Definition obs_eqb (a b : obs) : bool :=
  match a, b with
  | ROut e n h c r f k o, ROut e' n' h' c' r' f' k' o' =>
    (e =? e') && (n =? n') && (h =? h') && (c =? c') && Bool.eqb r r' && zeqb_list f f' && (k =? k') && (o =? o')
  | _, _ => false
  end.

(* the sorter inside the stream must satisfy the executable invariant after every step that
   did not fail in the sorter *)
Fixpoint run (s : rstream) (l : list (op * obs)) : bool :=
  match l with
  | [] => true
  | (o, want) :: r =>
    let '(s', got) := step s o in
    obs_eqb got want &&
    (match got with ROut 3 _ _ _ _ _ _ _ => true | _ => inv_ok sbyte (sorter s') end) &&
    run s' r
  end.

Fixpoint run_obs (s : rstream) (l : list (op * obs)) : list obs :=
  match l with
  | [] => []
  | (o, _) :: r => let '(s', got) := step s o in got :: run_obs s' r
  end.

Definition model_obs (c : case) : list obs :=
  match c with RSCase w l => run_obs (rs_init w) l end.

Definition check_case (c : case) : bool :=
  match c with RSCase w l => run (rs_init w) l end.
