(** Histories of the crypto stream and of the receive stream over consistent data
    (every frame carries S[off, off+n)), with the ghost log of the bytes handed to the reader.
    Executable definitions only. *)
From Coq Require Import List ZArith Lia Bool.
From V Require Import Gen.Params FrameSorter.Model FrameSorter.InvCheck RecvStream.Model.
Import ListNotations.
Open Scope Z_scope.

(** * crypto stream *)
Inductive cop := COFrame (off n : Z) | COGet | COFinish.
Record crun := { cr_st : cstream; cr_out : list Z }.
Definition crun_init : crun := {| cr_st := cs_init; cr_out := [] |}.

(* None: an error was returned (the connection is closed with that error) *)
Definition cstep (S : Z -> Z) (c : crun) (o : cop) : option crun :=
  match o with
  | COFrame off n =>
    let '(s', e) := HandleCryptoFrame (cr_st c) (slice S off n) off in
    match e with CNil => Some {| cr_st := s'; cr_out := cr_out c |} | _ => None end
  | COGet =>
    let '(s', d, bug) := GetCryptoData (cr_st c) in
    if bug then None else Some {| cr_st := s'; cr_out := cr_out c ++ d |}
  | COFinish =>
    let '(s', e) := Finish (cr_st c) in
    match e with CNil => Some {| cr_st := s'; cr_out := cr_out c |} | _ => None end
  end.
Fixpoint csrun (S : Z -> Z) (c : crun) (ops : list cop) : option crun :=
  match ops with
  | [] => Some c
  | o :: r => match cstep S c o with Some c' => csrun S c' r | None => None end
  end.
Definition cvalid (o : cop) : Prop := match o with COFrame off n => 0 <= off /\ 0 <= n | _ => True end.

(** * receive stream *)
Inductive rop :=
| ROFrame (off n : Z) (fin : bool) (cb : option Z)
| ROReset (final reliable code : Z)
| RORead (n : Z)
| ROPeek (n : Z)
| ROCancel (code : Z)
| ROShutdown.

Record rrun := {
  rr_st : rstream;
  rr_out : list Z;        (* all bytes returned by Read so far *)
  rr_eof : bool;          (* a Read has returned io.EOF *)
  rr_acc : list Z         (* doneCb ids of the frames handed to the sorter (ownership taken) *)
}.
Definition rrun_init (window : Z) : rrun := {| rr_st := rs_init window; rr_out := []; rr_eof := false; rr_acc := [] |}.

Definition rstep (S : Z -> Z) (r : rrun) (o : rop) : option rrun :=
  match o with
  | ROFrame off n fin cb =>
    let '(s', e) := handleStreamFrame (rr_st r) (slice S off n) off fin cb in
    match e with
    | FNil => Some {| rr_st := s'; rr_out := rr_out r; rr_eof := rr_eof r;
                      (* after CancelRead the frame is dropped: neither queued nor released *)
                      rr_acc := if cancelledLocally (rr_st r) then rr_acc r
                                else rr_acc r ++ match cb with Some c => [c] | None => [] end |}
    | _ => None end
  | ROReset final reliable code =>
    let '(s', e) := handleResetStreamFrame (rr_st r) final reliable code in
    match e with FNil => Some {| rr_st := s'; rr_out := rr_out r; rr_eof := rr_eof r; rr_acc := rr_acc r |} | _ => None end
  | RORead n =>
    let '(s', d, e, bug) := Read (rr_st r) n in
    if bug then None else
    Some {| rr_st := s'; rr_out := rr_out r ++ d;
            rr_eof := rr_eof r || match e with EEOF => true | _ => false end; rr_acc := rr_acc r |}
  | ROPeek n =>
    let '(s', d, e, bug) := PeekS (rr_st r) n in
    if bug then None else Some {| rr_st := s'; rr_out := rr_out r; rr_eof := rr_eof r; rr_acc := rr_acc r |}
  | ROCancel code => Some {| rr_st := CancelRead (rr_st r) code; rr_out := rr_out r; rr_eof := rr_eof r; rr_acc := rr_acc r |}
  | ROShutdown => Some {| rr_st := CloseForShutdown (rr_st r); rr_out := rr_out r; rr_eof := rr_eof r; rr_acc := rr_acc r |}
  end.
Fixpoint rsrun (S : Z -> Z) (r : rrun) (ops : list rop) : option rrun :=
  match ops with
  | [] => Some r
  | o :: t => match rstep S r o with Some r' => rsrun S r' t | None => None end
  end.
Definition rvalid (o : rop) : Prop :=
  match o with
  | ROFrame off n _ _ => 0 <= off /\ 0 <= n
  | ROReset final reliable _ => 0 <= final /\ 0 <= reliable <= final  (* the frame parser rejects reliable > final *)
  | RORead n | ROPeek n => 0 <= n
  | _ => True
  end.
