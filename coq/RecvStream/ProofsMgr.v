(** cryptoStreamManager: the three levels are independent crypto streams; each level's
    GetCryptoData output is exactly that level's byte string. *)
From Coq Require Import List ZArith Lia Bool.
From V Require Import Gen.Params Lib.Hex FrameSorter.Model FrameSorter.InvCheck FrameSorter.ProofsBase
  RecvStream.Model RecvStream.Spec RecvStream.ProofsCrypto RecvStream.MgrRun.
Import ListNotations.
Open Scope Z_scope.

Section WithSf.
Variable Sf : Z -> Z -> Z.

Definition MInv (r : mrun) : Prop :=
  CInv (Sf 0) {| cr_st := m_ini (mr_m r); cr_out := mr_o0 r |} /\
  CInv (Sf 1) {| cr_st := m_hs (mr_m r); cr_out := mr_o1 r |} /\
  CInv (Sf 2) {| cr_st := m_one (mr_m r); cr_out := mr_o2 r |}.

Lemma MInv_init : MInv mrun_init.
Proof. split; [apply (CInv_init (Sf 0))|split; [apply (CInv_init (Sf 1))|apply (CInv_init (Sf 2))]]. Qed.

(* one step of one level, phrased as a step of that level's crypto stream *)
Lemma level_step S c out o c' d e bug :
  CInv S {| cr_st := c; cr_out := out |} -> cvalid o ->
  (match o with
   | COFrame off n => HandleCryptoFrame c (slice S off n) off = (c', e) /\ d = [] /\ bug = false
   | COGet => GetCryptoData c = (c', d, bug) /\ e = CNil
   | COFinish => Finish c = (c', e) /\ d = [] /\ bug = false
   end) ->
  bug = false -> e = CNil -> CInv S {| cr_st := c'; cr_out := out ++ d |}.
Proof.
  intros I Hv H Hb He. subst.
  apply (cstep_CInv S {| cr_st := c; cr_out := out |} o); auto.
  destruct o as [off n| |]; simpl.
  - destruct H as (->&->&_). rewrite app_nil_r. reflexivity.
  - destruct H as (->&_). reflexivity.
  - destruct H as (->&->&_). rewrite app_nil_r. reflexivity.
Qed.

Lemma mrstep_MInv r o r' : MInv r -> mvalid o -> mrstep Sf r o = Some r' -> MInv r'.
Proof.
  intros (I0&I1&I2) Hv H. unfold mrstep in H.
  destruct (mcore Sf (mr_m r) o) as [[[m' e] d] bug] eqn:Ec.
  destruct bug; [discriminate|]. destruct e as [e|]; [|discriminate]. destruct e; try discriminate.
  unfold mcore in Ec. destruct o as [l off n|l|l].
  - unfold mget, mset in Ec.
    destruct (Z.eqb_spec l 0); [|destruct (Z.eqb_spec l 1); [|destruct (Z.eqb_spec l 2)]]; subst;
      try (inversion Ec; fail);
      match type of Ec with context [HandleCryptoFrame ?c ?dd ?oo] => destruct (HandleCryptoFrame c dd oo) as [c' e'] eqn:EH end;
      inversion Ec; subst; inversion H; subst; unfold MInv; simpl; (split; [|split]); auto.
    + pose proof (level_step (Sf 0) _ _ (COFrame off n) c' [] CNil false I0 Hv (conj EH (conj eq_refl eq_refl)) eq_refl eq_refl) as L.
      rewrite app_nil_r in L. exact L.
    + pose proof (level_step (Sf 1) _ _ (COFrame off n) c' [] CNil false I1 Hv (conj EH (conj eq_refl eq_refl)) eq_refl eq_refl) as L.
      rewrite app_nil_r in L. exact L.
    + pose proof (level_step (Sf 2) _ _ (COFrame off n) c' [] CNil false I2 Hv (conj EH (conj eq_refl eq_refl)) eq_refl eq_refl) as L.
      rewrite app_nil_r in L. exact L.
  - unfold mget, mset in Ec.
    destruct (Z.eqb_spec l 0); [|destruct (Z.eqb_spec l 1); [|destruct (Z.eqb_spec l 2)]]; subst;
      try (inversion Ec; fail);
      match type of Ec with context [GetCryptoData ?c] => destruct (GetCryptoData c) as [[c' d'] b'] eqn:EG end;
      inversion Ec; subst; inversion H; subst; unfold MInv; simpl; (split; [|split]); auto.
    + exact (level_step (Sf 0) _ _ COGet c' d CNil false I0 I (conj EG eq_refl) eq_refl eq_refl).
    + exact (level_step (Sf 1) _ _ COGet c' d CNil false I1 I (conj EG eq_refl) eq_refl eq_refl).
    + exact (level_step (Sf 2) _ _ COGet c' d CNil false I2 I (conj EG eq_refl) eq_refl eq_refl).
  - unfold mget, mset in Ec.
    destruct (Z.eqb_spec l 0); [|destruct (Z.eqb_spec l 1)]; subst; simpl in Ec;
      try (destruct (l =? 0); destruct (l =? 1); simpl in Ec; inversion Ec; fail);
      match type of Ec with context [Finish ?c] => destruct (Finish c) as [c' e'] eqn:EF end;
      inversion Ec; subst; inversion H; subst; unfold MInv; simpl; (split; [|split]); auto.
    + pose proof (level_step (Sf 0) _ _ COFinish c' [] CNil false I0 I (conj EF (conj eq_refl eq_refl)) eq_refl eq_refl) as L.
      rewrite app_nil_r in L. exact L.
    + pose proof (level_step (Sf 1) _ _ COFinish c' [] CNil false I1 I (conj EF (conj eq_refl eq_refl)) eq_refl eq_refl) as L.
      rewrite app_nil_r in L. exact L.
Qed.

Lemma mrsrun_MInv ops : forall r r', MInv r -> Forall mvalid ops -> mrsrun Sf r ops = Some r' -> MInv r'.
Proof.
  induction ops as [|o ops IH]; intros r r' R Hv Hs; simpl in Hs.
  - inversion Hs; subst. auto.
  - inversion Hv; subst. destruct (mrstep Sf r o) as [r1|] eqn:E1; [|discriminate].
    apply (IH r1 r'); auto. eapply mrstep_MInv; eauto.
Qed.

(** per encryption level: everything GetCryptoData(level) returned is that level's byte
    string from offset 0, whatever happened at the other levels *)
Theorem mgr_read_exact ops r : Forall mvalid ops -> mrsrun Sf mrun_init ops = Some r ->
  mr_o0 r = slice (Sf 0) 0 (readPos (c_sorter (m_ini (mr_m r)))) /\
  mr_o1 r = slice (Sf 1) 0 (readPos (c_sorter (m_hs (mr_m r)))) /\
  mr_o2 r = slice (Sf 2) 0 (readPos (c_sorter (m_one (mr_m r)))).
Proof.
  intros Hv Hs. destruct (mrsrun_MInv ops _ _ MInv_init Hv Hs) as ([_ A _ _ _]&[_ B _ _ _]&[_ C _ _ _]).
  simpl in *. auto.
Qed.

(** a CRYPTO frame at any other level (0-RTT) is refused and changes nothing *)
Theorem mgr_unexpected_level m l off n : l <> 0 -> l <> 1 -> l <> 2 ->
  mcore Sf m (MFrame l off n) = (m, MUnexpectedLevel, [], false).
Proof.
  intros H0 H1 H2. unfold mcore, mget.
  destruct (Z.eqb_spec l 0); [lia|]. destruct (Z.eqb_spec l 1); [lia|]. destruct (Z.eqb_spec l 2); [lia|]. reflexivity.
Qed.

End WithSf.
