(** Crypto stream (receive side): rejection rules and exact delivery. *)
From Coq Require Import List ZArith Lia Bool Permutation.
From V Require Import Gen.Params Lib.Hex FrameSorter.Model FrameSorter.InvCheck FrameSorter.Spec
  FrameSorter.ProofsBase FrameSorter.ProofsPop FrameSorter.ProofsRun RecvStream.Model RecvStream.Spec.
Import ListNotations.
Open Scope Z_scope.

Lemma MaxCrypto_val : MaxCrypto = 16384.
Proof. reflexivity. Qed.
Lemma MaxCrypto_lt_MaxBC : MaxCrypto < MaxBC.
Proof. reflexivity. Qed.

(** beyond the 16 KiB cap: CRYPTO_BUFFER_EXCEEDED, nothing changes *)
Lemma crypto_reject_buffer s data off : MaxCrypto < off + len data ->
  HandleCryptoFrame s data off = (s, CBufferExceeded).
Proof. intros H. unfold HandleCryptoFrame. destruct (Z.ltb_spec MaxCrypto (off + len data)); [reflexivity|lia]. Qed.

(** after Finish: data above the highest offset is a PROTOCOL_VIOLATION, anything else is ignored *)
Lemma crypto_after_finish s data off : c_finished s = true -> off + len data <= MaxCrypto ->
  HandleCryptoFrame s data off = (s, if c_highest s <? off + len data then CProtocolViolation else CNil).
Proof.
  intros Hf H. unfold HandleCryptoFrame. destruct (Z.ltb_spec MaxCrypto (off + len data)); [lia|].
  rewrite Hf. destruct (c_highest s <? off + len data); reflexivity.
Qed.

Lemma finish_spec s : Finish s = if HasMoreData (c_sorter s) then (s, CProtocolViolation)
  else ({| c_sorter := c_sorter s; c_highest := c_highest s; c_finished := true |}, CNil).
Proof. reflexivity. Qed.

Section WithS.
Variable S : Z -> Z.

Record CInv (c : crun) : Prop := {
  ci_inv : Inv S (c_sorter (cr_st c));
  ci_out : cr_out c = slice S 0 (readPos (c_sorter (cr_st c)));
  ci_below : forall x, cov (queue (c_sorter (cr_st c))) x -> x < c_highest (cr_st c);
  ci_rp : readPos (c_sorter (cr_st c)) <= c_highest (cr_st c);
  ci_cap : c_highest (cr_st c) <= MaxCrypto
}.

Lemma CInv_init : CInv crun_init.
Proof.
  constructor; simpl.
  - apply init_Inv.
  - reflexivity.
  - intros x (k&e&[]&_).
  - lia.
  - rewrite MaxCrypto_val. lia.
Qed.

Lemma cstep_CInv c o c' : CInv c -> cvalid o -> cstep S c o = Some c' -> CInv c'.
Proof.
  intros [I Ho Hb Hr Hc] Hv Hs. destruct o as [off n| |]; simpl in Hs.
  - destruct Hv as (V1&V2). unfold HandleCryptoFrame in Hs.
    rewrite len_slice in Hs by lia.
    destruct (Z.ltb_spec MaxCrypto (off + n)); [discriminate|].
    destruct (c_finished (cr_st c)) eqn:Ef.
    + destruct (c_highest (cr_st c) <? off + n); inversion Hs; subst; constructor; simpl; auto.
    + destruct (Push (c_sorter (cr_st c)) (slice S off n) off None) as [q r] eqn:EP.
      pose proof MaxCrypto_lt_MaxBC.
      destruct (Push_post S _ _ _ _ _ _ I V1 V2 ltac:(lia) EP) as (Hres&Hok).
      destruct r; try discriminate. inversion Hs; subst; clear Hs.
      destruct (Hok eq_refl) as (I'&Hrp&Hcov&_). constructor; simpl; auto.
      * rewrite Hrp. exact Ho.
      * intros x Hx. apply Hcov in Hx. destruct Hx as [Hx|Hx]; [apply Hb in Hx|]; lia.
      * rewrite Hrp. lia.
      * lia.
  - unfold GetCryptoData in Hs.
    destruct (Pop (c_sorter (cr_st c))) as [[q [[off d] cb]] bug] eqn:EP.
    destruct (sorter_refines_pop S _ _ _ _ _ _ I EP) as (Hbug&Hoff&Hd&Hpos&Hrp&Hcov).
    destruct (Pop_preserves S _ _ _ _ _ _ I EP) as (I'&_).
    subst bug. inversion Hs; subst; clear Hs. constructor; simpl; auto.
    + rewrite Ho, Hrp. pose proof (i_rp _ _ I). rewrite slice_app by auto using len_nonneg.
      rewrite Z.add_0_l. rewrite <- Hd. reflexivity.
    + intros x Hx. apply Hcov in Hx. apply Hb. tauto.
    + rewrite Hrp. destruct (Z.eq_dec (len d) 0) as [E|E]; [lia|].
      assert (Hp : 0 < len d) by (pose proof (len_nonneg d); lia).
      apply Hpos in Hp.
      (* the last byte of the popped entry is buffered, hence below the highest offset *)
      unfold Pop in EP. destruct (qget (queue (c_sorter (cr_st c))) (readPos (c_sorter (cr_st c)))) as [en|] eqn:E1.
      * inversion EP; subst. apply qget_In in E1.
        assert (Hc' : cov (queue (c_sorter (cr_st c))) (readPos (c_sorter (cr_st c)) + len (e_data en) - 1)).
        { exists (readPos (c_sorter (cr_st c))), en. split; auto. unfold elen.
          pose proof (len_nonneg (e_data en)). lia. }
        apply Hb in Hc'. lia.
      * inversion EP; subst. rewrite len_nil in *. lia.
  - unfold Finish in Hs. destruct (HasMoreData (c_sorter (cr_st c))); [discriminate|].
    inversion Hs; subst. constructor; simpl; auto.
Qed.

Lemma csrun_CInv ops : forall c c', CInv c -> Forall cvalid ops -> csrun S c ops = Some c' -> CInv c'.
Proof.
  induction ops as [|o ops IH]; intros c c' R Hv Hs; simpl in Hs.
  - inversion Hs; subst. auto.
  - inversion Hv; subst. destruct (cstep S c o) as [c1|] eqn:E1; [|discriminate].
    apply (IH c1 c'); auto. eapply cstep_CInv; eauto.
Qed.

(** everything GetCryptoData ever returned, concatenated, is S[0, readPos), and it never
    reaches beyond the 16 KiB cap *)
Theorem crypto_read_exact ops c : Forall cvalid ops -> csrun S crun_init ops = Some c ->
  cr_out c = slice S 0 (readPos (c_sorter (cr_st c))) /\
  readPos (c_sorter (cr_st c)) <= MaxCrypto /\ Inv S (c_sorter (cr_st c)).
Proof.
  intros Hv Hs. destruct (csrun_CInv ops _ _ CInv_init Hv Hs) as [I Ho Hb Hr Hc].
  split; auto. split; auto. lia.
Qed.

(** a crypto history fails only with one of the three errors; the model's Bug values
    (sorter panics) are unreachable *)
Theorem crypto_step_total c o : CInv c -> cvalid o ->
  match o with
  | COFrame off n =>
    exists s' e, HandleCryptoFrame (cr_st c) (slice S off n) off = (s', e) /\ e <> CBug
  | COGet => exists s' d, GetCryptoData (cr_st c) = (s', d, false)
  | COFinish => True
  end.
Proof.
  intros [I Ho Hb Hr Hc] Hv. destruct o as [off n| |]; auto.
  - destruct Hv as (V1&V2). unfold HandleCryptoFrame. rewrite len_slice by lia.
    destruct (Z.ltb_spec MaxCrypto (off + n)); [eexists; eexists; split; [reflexivity|discriminate]|].
    destruct (c_finished (cr_st c)).
    + destruct (c_highest (cr_st c) <? off + n); eexists; eexists; split; try reflexivity; discriminate.
    + destruct (Push (c_sorter (cr_st c)) (slice S off n) off None) as [q r] eqn:EP.
      pose proof MaxCrypto_lt_MaxBC.
      destruct (Push_post S _ _ _ _ _ _ I V1 V2 ltac:(lia) EP) as ([->| ->]&_);
        eexists; eexists; split; try reflexivity; discriminate.
  - unfold GetCryptoData.
    destruct (Pop (c_sorter (cr_st c))) as [[q [[off d] cb]] bug] eqn:EP.
    destruct (sorter_refines_pop S _ _ _ _ _ _ I EP) as (->&_). eauto.
Qed.

End WithS.
