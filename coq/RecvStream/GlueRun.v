(** Connection glue for CRYPTO data (connection.go): Conn.handleCryptoFrame =
    cryptoStreamManager.HandleCryptoFrame, then GetCryptoData(level) until nil, each message handed
    to the TLS handler (which may fail), then the handshake events; Conn.dropEncryptionLevel
    (Initial / Handshake) = cryptoStreamManager.Drop. Model + correspondence glue (unit cryptoglue). *)
From Coq Require Import List ZArith Bool String.
From V Require Import Gen.Params Lib.Hex FrameSorter.Model FrameSorter.InvCheck RecvStream.Model RecvStream.Spec.
From V Require Export RecvStream.MgrRun.
Import ListNotations.
Open Scope Z_scope.

(* the drain loop of handleCryptoFrame on one level's stream. count: messages handed to the
   TLS handler so far (all levels); fail: index of the message on which the handler fails (-1 never).
   Result: stream, messages, new count, handler failed?, bug (sorter panic / fuel) *)
Fixpoint cdrain (fuel : nat) (c : cstream) (count fail : Z) : cstream * list (list Z) * Z * bool * bool :=
  match fuel with
  | O => (c, [], count, false, true)
  | S f =>
    let '(c', d, bug) := GetCryptoData c in
    if bug then (c', [], count, false, true) else
    match d with
    | [] => (c', [], count, false, false)
    | _ =>
      if count =? fail then (c', [d], count + 1, true, false) else
      let '(c2, ms, cnt, fl, bg) := cdrain f c' (count + 1) fail in (c2, d :: ms, cnt, fl, bg)
    end
  end.

Record glue := { g_m : cmgr; g_count : Z; g_fail : Z }.
Definition glue_init (fail : Z) : glue := {| g_m := cmgr_init; g_count := 0; g_fail := fail |}.

Inductive gerr := GNil | GMgr (e : merr) | GHandler.

(* Conn.handleCryptoFrame *)
Definition ghandle (Sf : Z -> Z -> Z) (g : glue) (l off n : Z) : glue * gerr * list (list Z) * bool :=
  let '(m1, e, _, bug) := mcore Sf (g_m g) (MFrame l off n) in
  if bug then (g, GNil, [], true) else
  match e with
  | MErr CNil =>
    match mget m1 l with
    | None => (g, GNil, [], true)
    | Some c =>
      let '(c2, ms, cnt, failed, bg) := cdrain (S (List.length (queue (c_sorter c)))) c (g_count g) (g_fail g) in
      ({| g_m := mset m1 l c2; g_count := cnt; g_fail := g_fail g |}, (if failed then GHandler else GNil), ms, bg)
    end
  | _ => ({| g_m := m1; g_count := g_count g; g_fail := g_fail g |}, GMgr e, [], false)
  end.

(* Conn.dropEncryptionLevel for Initial / Handshake *)
Definition gdrop (Sf : Z -> Z -> Z) (g : glue) (l : Z) : glue * gerr * bool :=
  let '(m1, e, _, bug) := mcore Sf (g_m g) (MDrop l) in
  ({| g_m := m1; g_count := g_count g; g_fail := g_fail g |},
   match e with MErr CNil => GNil | _ => GMgr e end, bug).

Inductive gop := GFrame (l off n : Z) | GDrop (l : Z).
(* err: 0 nil, 1 CRYPTO_BUFFER_EXCEEDED, 2 PROTOCOL_VIOLATION, 3 too many gaps, 4 unexpected level,
   5 TLS handler error; msgs: (length, hash) of every message handed to the TLS handler, in order *)
Inductive gobs := GOut (err : Z) (msgs : list (Z * Z)) | GBugO.
Inductive case := GCase (fail : Z) (ops : list (gop * gobs)).

Definition gerr_code (e : gerr) : option Z :=
  match e with
  | GNil => Some 0
  | GHandler => Some 5
  | GMgr MUnexpectedLevel => Some 4
  | GMgr (MErr CBufferExceeded) => Some 1
  | GMgr (MErr CProtocolViolation) => Some 2
  | GMgr (MErr CSorter) => Some 3
  | GMgr (MErr CNil) => Some 0
  | GMgr (MErr CBug) => None
  end.

Definition gstep (g : glue) (o : gop) : glue * gobs :=
  match o with
  | GFrame l off n =>
    let '(g', e, ms, bug) := ghandle lbyte g l off n in
    (g', if bug then GBugO else
         match gerr_code e with Some c => GOut c (map (fun d => (len d, bhash d)) ms) | None => GBugO end)
  | GDrop l =>
    let '(g', e, bug) := gdrop lbyte g l in
    (g', if bug then GBugO else match gerr_code e with Some c => GOut c [] | None => GBugO end)
  end.

Fixpoint pairs_eqb (a b : list (Z * Z)) : bool :=
  match a, b with
  | [], [] => true
  | (x, y) :: a', (x', y') :: b' => (x =? x') && (y =? y') && pairs_eqb a' b'
  | _, _ => false
  end.
Definition gobs_eqb (a b : gobs) : bool :=
  match a, b with GOut e m, GOut e' m' => (e =? e') && pairs_eqb m m' | _, _ => false end.

Fixpoint grun (g : glue) (l : list (gop * gobs)) : bool :=
  match l with
  | [] => true
  | (o, want) :: r =>
    let '(g', got) := gstep g o in
    gobs_eqb got want && (match got with GOut 3 _ => true | _ => level_ok (g_m g') end) && grun g' r
  end.
Fixpoint grun_obs (g : glue) (l : list (gop * gobs)) : list gobs :=
  match l with [] => [] | (o, _) :: r => let '(g', got) := gstep g o in got :: grun_obs g' r end.

Definition model_obs (c : case) : list gobs := match c with GCase f l => grun_obs (glue_init f) l end.
Definition check_case (c : case) : bool := match c with GCase f l => grun (glue_init f) l end.

(** histories through the glue, with the ghost log of what the TLS handler received per level *)
Record grst := { gr_g : glue; gr_o0 : list Z; gr_o1 : list Z; gr_o2 : list Z }.
Definition grst_init (fail : Z) : grst := {| gr_g := glue_init fail; gr_o0 := []; gr_o1 := []; gr_o2 := [] |}.

Definition grstep (Sf : Z -> Z -> Z) (r : grst) (o : gop) : option grst :=
  match o with
  | GFrame l off n =>
    let '(g', e, ms, bug) := ghandle Sf (gr_g r) l off n in
    if bug then None else
    match e with
    | GNil =>
      let d := List.concat ms in
      Some (if l =? 0 then {| gr_g := g'; gr_o0 := gr_o0 r ++ d; gr_o1 := gr_o1 r; gr_o2 := gr_o2 r |}
            else if l =? 1 then {| gr_g := g'; gr_o0 := gr_o0 r; gr_o1 := gr_o1 r ++ d; gr_o2 := gr_o2 r |}
            else {| gr_g := g'; gr_o0 := gr_o0 r; gr_o1 := gr_o1 r; gr_o2 := gr_o2 r ++ d |})
    | _ => None
    end
  | GDrop l =>
    let '(g', e, bug) := gdrop Sf (gr_g r) l in
    if bug then None else
    match e with GNil => Some {| gr_g := g'; gr_o0 := gr_o0 r; gr_o1 := gr_o1 r; gr_o2 := gr_o2 r |} | _ => None end
  end.
Fixpoint grsrun (Sf : Z -> Z -> Z) (r : grst) (ops : list gop) : option grst :=
  match ops with
  | [] => Some r
  | o :: t => match grstep Sf r o with Some r' => grsrun Sf r' t | None => None end
  end.
Definition gvalid (o : gop) : Prop := match o with GFrame _ off n => 0 <= off /\ 0 <= n | _ => True end.
