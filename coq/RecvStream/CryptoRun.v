(** Correspondence glue for the cryptostream unit (harness/drv/recvstream.go, runCryptoStream). *)
From Coq Require Import List ZArith Bool String.
From V Require Import Gen.Params Lib.Hex FrameSorter.Model FrameSorter.InvCheck RecvStream.Model.
Import ListNotations.
Open Scope Z_scope.

Inductive op := CFrame (off n : Z) | CGet | CFinish.
(* err: 0 nil, 1 CRYPTO_BUFFER_EXCEEDED, 2 PROTOCOL_VIOLATION, 3 too many gaps *)
Inductive obs := COut (err n hash : Z) | CBugO.
Inductive case := CSCase (ops : list (op * obs)).

Definition bhash (d : list Z) : Z := fold_left (fun h b => (h * 31 + b) mod 4294967296) d 7.

Definition cerr_code (e : cerr) : obs :=
  match e with CNil => COut 0 0 0 | CBufferExceeded => COut 1 0 0 | CProtocolViolation => COut 2 0 0
             | CSorter => COut 3 0 0 | CBug => CBugO end.

Definition step (s : cstream) (o : op) : cstream * obs :=
  match o with
  | CFrame off n => let '(s', e) := HandleCryptoFrame s (slice sbyte off n) off in (s', cerr_code e)
  | CGet => let '(s', d, bug) := GetCryptoData s in (s', if bug then CBugO else COut 0 (len d) (bhash d))
  | CFinish => let '(s', e) := Finish s in (s', cerr_code e)
  end.

Definition obs_eqb (a b : obs) : bool :=
  match a, b with
  | COut e n h, COut e' n' h' => (e =? e') && (n =? n') && (h =? h')
  | _, _ => false
  end.

Fixpoint run (s : cstream) (l : list (op * obs)) : bool :=
  match l with
  | [] => true
  | (o, want) :: r =>
    let '(s', got) := step s o in
    obs_eqb got want && (match got with COut 3 _ _ => true | _ => inv_ok sbyte (c_sorter s') end) && run s' r
  end.
Fixpoint run_obs (s : cstream) (l : list (op * obs)) : list obs :=
  match l with [] => [] | (o, _) :: r => let '(s', got) := step s o in got :: run_obs s' r end.

Definition model_obs (c : case) : list obs := match c with CSCase l => run_obs cs_init l end.
Definition check_case (c : case) : bool := match c with CSCase l => run cs_init l end.
