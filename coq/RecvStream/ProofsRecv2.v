(** ReceiveStream, round 3: RESET_STREAM(_AT) rejection and delivery of the reliable part,
    liveness of Read (no blocking when data / the end / an error is there), ownership of the
    received buffers (currentFrameDone discipline). *)
From Coq Require Import List ZArith Lia Bool Permutation.
From V Require Import Gen.Params Lib.Hex FrameSorter.Model FrameSorter.InvCheck FrameSorter.Spec
  FrameSorter.ProofsBase FrameSorter.ProofsLoops FrameSorter.ProofsPop FrameSorter.ProofsPeek FrameSorter.ProofsRun FrameSorter.ProofsGapLimit
  RecvStream.Model RecvStream.Spec RecvStream.ProofsRecv.
Import ListNotations.
Open Scope Z_scope.

Lemma inc_cases s : isNewlyCompleted s = s \/ isNewlyCompleted s = set_completed s.
Proof.
  unfold isNewlyCompleted. destruct (completed s); auto. destruct (finalOffset s =? MaxBC); auto.
  destruct (cancelledLocally s); auto. destruct (errorRead s); auto.
Qed.

(** * RESET_STREAM / RESET_STREAM_AT rejection *)
Lemma fcUpdate_err_same s offset final s1 e : fcUpdate s offset final = (s1, e) ->
  sorter s1 = sorter s /\ rpos s1 = rpos s /\ cur s1 = cur s /\ rpif s1 = rpif s /\ finalOffset s1 = finalOffset s /\
  cancelledRemotely s1 = cancelledRemotely s /\ cancelledLocally s1 = cancelledLocally s /\
  reliableSize s1 = reliableSize s /\ cancelErr s1 = cancelErr s /\ curDone s1 = curDone s /\ curIsLast s1 = curIsLast s.
Proof.
  unfold fcUpdate. intros Ef.
  repeat match type of Ef with context [if ?c then _ else _] => destruct c end; inversion Ef; subst; simpl; repeat split.
Qed.

Theorem recv_reject_reset s final reliable code s' e :
  shutdown s = false -> handleResetStreamFrame s final reliable code = (s', e) ->
  ((fc_final s = true /\ final <> fc_highest s) \/ (fc_final s = false /\ final < fc_highest s) -> e = FFinalSize) /\
  (fc_final s = false /\ fc_highest s < final /\ fc_window s < final -> e = FFlowControl) /\
  (e <> FNil ->
     sorter s' = sorter s /\ rpos s' = rpos s /\ cur s' = cur s /\ rpif s' = rpif s /\ finalOffset s' = finalOffset s /\
     cancelledRemotely s' = cancelledRemotely s /\ reliableSize s' = reliableSize s /\ cancelErr s' = cancelErr s).
Proof.
  intros Hsh H. unfold handleResetStreamFrame in H. rewrite Hsh in H.
  assert (Hcore : e = snd (fcUpdate s final true) /\ (e <> FNil ->
     sorter s' = sorter s /\ rpos s' = rpos s /\ cur s' = cur s /\ rpif s' = rpif s /\ finalOffset s' = finalOffset s /\
     cancelledRemotely s' = cancelledRemotely s /\ reliableSize s' = reliableSize s /\ cancelErr s' = cancelErr s)).
  { destruct (fcUpdate s final true) as [s1 e1] eqn:Ef.
    destruct (fcUpdate_err_same _ _ _ _ _ Ef) as (A1&A2&A3&A4&A5&A6&A7&A8&A9&_).
    destruct e1; simpl.
    - assert (He : e = FNil).
      { revert H. repeat match goal with |- context [if ?c then _ else _] => destruct c end; intros H; inversion H; reflexivity. }
      split; auto. congruence.
    - inversion H; subst. split; auto. intros _. destruct (inc_cases s1) as [-> | ->]; simpl; repeat split; auto.
    - inversion H; subst. split; auto. intros _. destruct (inc_cases s1) as [-> | ->]; simpl; repeat split; auto.
    - inversion H; subst. split; auto. intros _. destruct (inc_cases s1) as [-> | ->]; simpl; repeat split; auto.
    - inversion H; subst. split; auto. intros _. destruct (inc_cases s1) as [-> | ->]; simpl; repeat split; auto. }
  destruct Hcore as (He&Hsame). split; [|split; [|exact Hsame]].
  - intros [(Hf&Hne)|(Hf&Hlt)]; rewrite He.
    + rewrite fcUpdate_other_final; auto.
    + apply fcUpdate_final_below; auto.
  - intros (Hf&Hlt&Hw). rewrite He. apply fcUpdate_window; auto.
Qed.

(** * a second invariant: the reliable size of a reset lies at or below the final size *)
Record RSInv2 (s : rstream) : Prop := {
  w_rel : 0 <= reliableSize s <= finalOffset s;
  w_fin : reliableSize s <> 0 \/ cancelledRemotely s = true -> fc_final s = true
}.

Lemma RSInv2_init w : RSInv2 (rs_init w).
Proof. constructor; simpl; [pose proof MaxBC_pos; lia|intros [H|H]; [congruence|discriminate]]. Qed.

Lemma RSInv2_fields s s' : RSInv2 s -> reliableSize s' = reliableSize s -> finalOffset s' = finalOffset s ->
  cancelledRemotely s' = cancelledRemotely s -> fc_final s' = fc_final s -> RSInv2 s'.
Proof. intros [A B] E1 E2 E3 E4. constructor; rewrite ?E1, ?E2, ?E3, ?E4; auto. Qed.

Lemma RSInv2_completed s : RSInv2 s -> RSInv2 (isNewlyCompleted s).
Proof. intros R. destruct (inc_cases s) as [-> | ->]; auto. eapply RSInv2_fields; eauto. Qed.

Section WithS.
Variable S : Z -> Z.

Lemma frame_RSInv2 s data off fin cb s' : RSInv S s -> RSInv2 s -> 0 <= off ->
  handleStreamFrame s data off fin cb = (s', FNil) -> RSInv2 s'.
Proof.
  intros R [A B] H0 H. unfold handleStreamFrame in H.
  destruct (fcUpdate s (off + len data) fin) as [s1 e1] eqn:Ef.
  destruct e1; try (inversion H; discriminate).
  destruct (fcUpdate_ok _ _ _ _ Ef) as (A1&A2&A3&A4&A5&A6&A7&A8&A9&A10&A11&A12&A13&A14&A15&A16).
  pose proof (v_final _ _ R) as VF.
  set (s2 := if fin then set_final s1 (off + len data) else s1) in *.
  assert (R2 : RSInv2 s2).
  { unfold s2. destruct fin.
    - constructor; simpl; rewrite ?A10, ?A9, ?A13.
      + destruct (fc_final s) eqn:Ff.
        * specialize (A15 eq_refl). specialize (A16 eq_refl). lia.
        * assert (reliableSize s = 0).
          { destruct (Z.eq_dec (reliableSize s) 0) as [|Hn]; auto. exfalso. specialize (B (or_introl Hn)). congruence. }
          pose proof (len_nonneg data). lia.
      + intros _. apply orb_true_r.
    - constructor; rewrite ?A10, ?A9, ?A13, ?A7, ?orb_false_r; auto. }
  assert (Hs' : exists s3, s' = isNewlyCompleted s3 /\ reliableSize s3 = reliableSize s2 /\ finalOffset s3 = finalOffset s2 /\
                 cancelledRemotely s3 = cancelledRemotely s2 /\ fc_final s3 = fc_final s2).
  { revert H. destruct (cancelledLocally s2).
    - intros H. inversion H. exists s2. auto.
    - destruct (Push (sorter s2) data off cb) as [q r]. intros H. inversion H. exists (set_sorter s2 q). simpl. auto. }
  destruct Hs' as (s3&->&E1&E2&E3&E4). apply RSInv2_completed. eapply RSInv2_fields; eauto.
Qed.

Lemma reset_RSInv2 s final reliable code s' : RSInv S s -> RSInv2 s -> 0 <= reliable <= final ->
  handleResetStreamFrame s final reliable code = (s', FNil) -> RSInv2 s'.
Proof.
  intros R [A B] Hrel H. unfold handleResetStreamFrame in H.
  destruct (shutdown s).
  { inversion H; subst. apply RSInv2_completed. constructor; auto. }
  destruct (fcUpdate s final true) as [s1 e1] eqn:Ef.
  destruct e1; try (inversion H; discriminate).
  destruct (fcUpdate_ok _ _ _ _ Ef) as (A1&A2&A3&A4&A5&A6&A7&A8&A9&A10&A11&A12&A13&A14&A15&A16).
  pose proof (v_final _ _ R) as VF.
  assert (Hold : reliableSize s <= final).
  { destruct (fc_final s) eqn:Ff.
    - specialize (A15 eq_refl). specialize (A16 eq_refl). lia.
    - assert (reliableSize s = 0).
      { destruct (Z.eq_dec (reliableSize s) 0) as [|Hn]; auto. exfalso. specialize (B (or_introl Hn)). congruence. }
      lia. }
  match type of H with (let '(_, _) := ?X in _) = _ => destruct X as [s2 e2] eqn:E2 end.
  assert (Hs2 : RSInv2 s2).
  { revert E2. repeat match goal with |- context [if ?c then _ else _] => destruct c end;
      intros E2; inversion E2; subst; constructor; simpl; rewrite ?A10, ?A13, ?orb_true_r; auto; lia. }
  inversion H; subst. apply RSInv2_completed; auto.
Qed.

Lemma dequeue_RSInv2 s s1 b : RSInv2 s -> dequeue s = (s1, b) -> RSInv2 s1.
Proof.
  intros R H. unfold dequeue in H. destruct (Pop _) as [[q1 [[off d] cb]] bb]. inversion H; subst.
  eapply RSInv2_fields; eauto.
Qed.

Lemma readLoop_RSInv2 : forall fuel s n acc s' d e bug, RSInv2 s -> readLoop fuel s n acc = (s', d, e, bug) -> RSInv2 s'.
Proof.
  induction fuel as [|fuel IH]; intros s n acc s' d e bug R H; simpl in H; [inversion H; subst; auto|].
  destruct (n <=? len acc).
  { destruct (remoteEffective s); inversion H; subst; auto. eapply RSInv2_fields; eauto. }
  destruct (if (match cur s with [] => true | _ => false end) || (len (cur s) <=? rpif s) then dequeue s else (s, false)) as [s1 b1] eqn:Ed.
  assert (R1 : RSInv2 s1).
  { destruct (_ || _); [eapply dequeue_RSInv2; eauto|inversion Ed; subst; auto]. }
  revert H. repeat match goal with
  | |- context [if ?c then _ else _] => destruct c
  end; intros H; try (inversion H; subst; auto; eapply RSInv2_fields; eauto; fail).
  eapply IH; [|exact H]. eapply RSInv2_fields; eauto.
Qed.

Lemma Read_RSInv2 s n s' d e bug : RSInv2 s -> Read s n = (s', d, e, bug) -> RSInv2 s'.
Proof.
  intros R H. unfold Read in H. destruct (readImpl s n) as [[[s1 d1] e1] b1] eqn:ER. inversion H; subst.
  apply RSInv2_completed. unfold readImpl in ER.
  destruct (curIsLast s && _); [inversion ER; subst; eapply RSInv2_fields; eauto|].
  destruct (cancelledLocally s || remoteEffective s); [inversion ER; subst; eapply RSInv2_fields; eauto|].
  destruct (shutdown s); [inversion ER; subst; auto|].
  eapply readLoop_RSInv2; eauto.
Qed.

Lemma Peek_RSInv2 s n s' d e bug : RSInv S s -> RSInv2 s -> PeekS s n = (s', d, e, bug) -> RSInv2 s'.
Proof.
  intros R0 R H. unfold PeekS in H. destruct (n <=? 0); [inversion H; subst; auto|].
  rewrite peekImpl_unfold in H.
  destruct (curIsLast s && _); [inversion H; subst; auto|].
  destruct (cancelledLocally s || remoteEffective s); [inversion H; subst; auto|].
  destruct (shutdown s); [inversion H; subst; auto|].
  destruct (if (match cur s with [] => true | _ => false end) || (len (cur s) <=? rpif s) then dequeue s else (s, false)) as [s1 b1] eqn:Ed.
  assert (R1 : RSInv2 s1).
  { destruct (_ || _); [eapply dequeue_RSInv2; eauto|inversion Ed; subst; auto]. }
  destruct b1; [inversion H; subst; auto|].
  assert (Hst : s' = s1).
  { revert H. unfold peekBody. repeat match goal with
      | |- context [if ?c then _ else _] => destruct c
      | |- context [match ?c with Some _ => _ | None => _ end] => destruct c
      end; intros H; inversion H; auto. }
  subst. auto.
Qed.

Lemma Cancel_RSInv2 s code : RSInv2 s -> RSInv2 (CancelRead s code).
Proof.
  intros R. unfold CancelRead. apply RSInv2_completed.
  destruct (cancelledLocally s); auto. destruct (shutdown s); auto.
  destruct (errorRead s || cancelledRemotely s); eapply RSInv2_fields; eauto.
Qed.

(** * liveness of Read *)
(* the next byte is there: in the unread rest of the current frame, or queued at the read position *)
Definition available (s : rstream) : Prop := 0 < crest s \/ cov (queue (sorter s)) (rpos s).
(* an error is latched *)
Definition latched (s : rstream) : bool := shutdown s || cancelledLocally s || remoteEffective s.

Lemma cancel_rerr_not_block s : cancel_rerr s <> EWouldBlock.
Proof. unfold cancel_rerr. destruct (cancelErr s) as [[c r]|]; discriminate. Qed.

(* a Read that parks has copied nothing *)
Lemma readLoop_block_nil : forall fuel s n acc s' d b,
  readLoop fuel s n acc = (s', d, EWouldBlock, b) -> d = [].
Proof.
  induction fuel as [|fuel IH]; intros s n acc s' d b H; simpl in H; [inversion H|].
  destruct (n <=? len acc).
  { destruct (remoteEffective s); inversion H. exfalso. eapply cancel_rerr_not_block; eauto. }
  destruct (if (match cur s with [] => true | _ => false end) || (len (cur s) <=? rpif s) then dequeue s else (s, false)) as [s1 b1].
  destruct b1; [inversion H|].
  destruct ((match cur s1 with [] => true | _ => false end) && (0 <? len acc)) eqn:EA.
  { destruct (shutdown s1); inversion H. }
  destruct (shutdown s1); [inversion H|].
  destruct (cancelledLocally s1 || remoteEffective s1).
  { inversion H. exfalso. eapply cancel_rerr_not_block; eauto. }
  destruct (negb (match cur s1 with [] => false | _ => true end || curIsLast s1)) eqn:ED.
  { inversion H; subst. apply negb_true_iff in ED. apply orb_false_elim in ED as [E1 _].
    assert (Ec : cur s' = []) by (destruct (cur s'); [reflexivity|discriminate]).
    rewrite Ec in EA. simpl in EA. apply Z.ltb_ge in EA. apply len_zero_nil. pose proof (len_nonneg d). lia. }
  match type of H with (if ?c then _ else _) = _ => destruct c end; [inversion H|].
  eapply IH; eauto.
Qed.

Lemma dequeue_more s s1 b : RSInv S s -> crest s = 0 -> dequeue s = (s1, b) ->
  (cur s1 <> [] <-> cov (queue (sorter s)) (rpos s)) /\
  curIsLast s1 = ((finalOffset s <=? rpos s + len (cur s1)) && negb (cancelledRemotely s)) /\
  errorRead s1 = errorRead s /\ fc_window s1 = fc_window s.
Proof.
  intros R Hc H. pose proof (v_pos _ _ R) as P. rewrite Hc in P.
  unfold dequeue in H.
  pose proof (Inv_fire_done S _ (curDone s) (v_inv _ _ R)) as I0.
  destruct (Pop (fire_done (sorter s) (curDone s))) as [[q1 [[off d] cb]] bb] eqn:EP.
  destruct (sorter_refines_pop S _ _ _ _ _ _ I0 EP) as (_&Hoff&_&Hpos&_). simpl in Hoff, Hpos.
  inversion H; subst; simpl. replace (rpos s + 0) with (rpos s) in P by lia. rewrite P in *.
  split; [|auto]. rewrite <- Hpos. split.
  - apply len_pos_nonnil.
  - intros Hl Hn. subst d. rewrite len_nil in Hl. lia.
Qed.

(* one round of the read loop with a non-empty current frame makes progress *)
Lemma readBody_progress fuel s1 n acc r0 :
  RSInv S s1 -> 0 <= r0 -> acc = slice S r0 (len acc) -> rpos s1 = r0 + len acc -> len acc < n ->
  (mu s1 <= fuel)%nat -> cur s1 <> [] -> 0 < crest s1 -> shutdown s1 = false ->
  cancelledLocally s1 || remoteEffective s1 = false ->
  let '(s', d, e, b) := readBody (readLoop fuel) s1 n acc in len acc < len d.
Proof.
  intros R H0 Hacc Hrp Hn Hmu Hne Hcr Hsh Hcn. unfold readBody.
  pose proof (len_nonneg acc) as Hla.
  assert (E1 : (match cur s1 with [] => true | _ => false end) = false) by (destruct (cur s1); [congruence|reflexivity]).
  assert (E2 : (match cur s1 with [] => false | _ => true end) = true) by (destruct (cur s1); [congruence|reflexivity]).
  rewrite E1, Hsh, Hcn, E2. cbn [andb orb negb]. cbv zeta.
  rewrite (read_chunk S s1 (n - len acc) R Hne Hcr) by lia.
  set (m := Z.min (n - len acc) (crest s1)).
  rewrite len_slice by lia.
  destruct (RSInv_set_read S s1 m R Hne ltac:(lia)) as (R2&Hc2).
  set (s2 := set_read s1 (rpif s1 + m) (rpos s1 + m)) in *.
  assert (Hlen' : len (acc ++ slice S (rpos s1) m) = len acc + m) by (rewrite len_app, len_slice; lia).
  destruct ((len (cur s2) <=? rpif s2) && curIsLast s2).
  - lia.
  - assert (Hacc' : acc ++ slice S (rpos s1) m = slice S r0 (len (acc ++ slice S (rpos s1) m))).
    { rewrite Hlen'. rewrite slice_app by lia. rewrite <- Hacc. rewrite Hrp. reflexivity. }
    assert (Hrp2 : rpos s2 = r0 + len (acc ++ slice S (rpos s1) m)) by (unfold s2; simpl; lia).
    pose proof (readLoop_spec S fuel s2 n (acc ++ slice S (rpos s1) m) r0 R2 H0 Hacc' Hrp2) as HP.
    assert (Hf : (mu s2 < fuel)%nat \/ n <= len (acc ++ slice S (rpos s1) m) /\ (0 < fuel)%nat).
    { destruct (Z.eq_dec m (crest s1)) as [Em|Em].
      - left. unfold mu in *. rewrite Hc2. replace (crest s1 - m) with 0 by lia. simpl.
        destruct (Z.ltb_spec 0 (crest s1)); [|lia].
        replace (sorter s2) with (sorter s1) by reflexivity. lia.
      - right. split; [lia|]. unfold mu in Hmu. destruct (Z.ltb_spec 0 (crest s1)); lia. }
    specialize (HP Hf). unfold ReadPost in HP.
    destruct (readLoop fuel s2 n (acc ++ slice S (rpos s1) m)) as [[[sx dx] ex] bx].
    destruct HP as (_&_&_&_&P5&_). lia.
Qed.

Lemma available_not_eof s : RSInv S s -> available s -> curIsLast s && (match cur s with [] => true | _ => false end) = false.
Proof.
  intros R Ha. destruct (curIsLast s && _) eqn:E; auto. exfalso.
  apply andb_prop in E as [El Ec]. apply isnil_true in Ec.
  destruct (RSInv_last S _ R El) as (Hf&Hrp). pose proof (v_pos _ _ R) as P. pose proof (v_final _ _ R) as VF.
  rewrite Hf in VF. unfold available, crest in *. rewrite Ec in *.
  destruct Ha as [Ha|Ha]; [lia|]. apply (v_below _ _ R) in Ha. lia.
Qed.

Lemma classic_available s : RSInv S s -> available s \/ ~ available s.
Proof.
  intros R. unfold available. destruct (Z.lt_ge_cases 0 (crest s)); [left; left; auto|].
  pose proof (crest_nonneg S _ R). pose proof (v_pos _ _ R) as P. assert (Hc0 : crest s = 0) by lia. rewrite Hc0 in P.
  replace (rpos s + 0) with (rpos s) in P by lia.
  destruct (qget (queue (sorter s)) (rpos s)) as [en|] eqn:E.
  - left. right. apply qget_In in E. destruct (i_ent _ _ (v_inv _ _ R) _ _ E) as (_&Hl&_).
    exists (rpos s), en. split; auto. lia.
  - right. intros [Hx|(k&en&Hin&Hk)]; [lia|].
    destruct (i_ent _ _ (v_inv _ _ R) _ _ Hin) as (Hk1&_). rewrite P in Hk1.
    assert (k = rpos s) by lia. subst k. eapply qget_None; eauto.
Qed.

(** if the next byte is there and no error is latched, Read delivers at least one byte *)
Theorem Read_progress s n s' d e bug : RSInv S s -> 0 < n -> latched s = false -> available s ->
  Read s n = (s', d, e, bug) -> 0 < len d.
Proof.
  intros R Hn Hl Ha H. unfold Read in H.
  destruct (readImpl s n) as [[[s1 d1] e1] b1] eqn:ER. inversion H; subst; clear H.
  unfold latched in Hl. apply orb_false_elim in Hl as [Hl Hre]. apply orb_false_elim in Hl as [Hsh Hcl].
  unfold readImpl in ER. rewrite (available_not_eof s R Ha) in ER. rewrite Hcl, Hre, Hsh in ER. cbn [andb orb] in ER.
  rewrite readLoop_unfold in ER. rewrite len_nil in ER. destruct (Z.leb_spec n 0); [lia|].
  pose proof (v_rpos _ _ R) as Hr0.
  destruct ((match cur s with [] => true | _ => false end) || (len (cur s) <=? rpif s)) eqn:Edq.
  - assert (Hc0 : crest s = 0).
    { apply crest_zero with (S := S); auto. apply orb_prop in Edq. destruct Edq as [E|E]; [left; apply isnil_true; auto|right; apply Z.leb_le; auto]. }
    destruct (dequeue s) as [s2 b2] eqn:Ed.
    destruct (dequeue_spec S _ _ _ R Hc0 Ed) as (->&R1&D1&D2&D3&D4&D5&D6&D7&D8&D9&D10&D11&D12&D13&D14).
    destruct (dequeue_more _ _ _ R Hc0 Ed) as (M1&_).
    assert (Hne : cur s2 <> []) by (apply M1; destruct Ha; [lia|auto]).
    pose proof (readBody_progress (Datatypes.S (length (queue (sorter s)))) s2 n [] (rpos s) R1 Hr0 eq_refl) as HP.
    rewrite len_nil in HP. specialize (HP ltac:(lia) ltac:(lia)).
    assert (Hmu : (mu s2 <= Datatypes.S (length (queue (sorter s))))%nat) by (rewrite (D13 Hne); lia).
    assert (Hre2 : cancelledLocally s2 || remoteEffective s2 = false).
    { unfold remoteEffective in *. rewrite D4, D5, D6, D1. rewrite Hcl. simpl. exact Hre. }
    specialize (HP Hmu Hne ltac:(rewrite D3; apply len_pos_nonnil; auto) ltac:(rewrite D7; auto) Hre2).
    rewrite ER in HP. lia.
  - apply orb_false_elim in Edq. destruct Edq as [E1 E2]. apply isnil_false in E1. apply Z.leb_gt in E2.
    pose proof (readBody_progress (Datatypes.S (length (queue (sorter s)))) s n [] (rpos s) R Hr0 eq_refl) as HP.
    rewrite len_nil in HP. specialize (HP ltac:(lia) ltac:(lia)).
    assert (Hmu : (mu s <= Datatypes.S (length (queue (sorter s))))%nat) by (unfold mu; destruct (0 <? crest s); lia).
    specialize (HP Hmu E1 ltac:(rewrite (crest_nonnil _ E1); lia) Hsh ltac:(rewrite Hcl, Hre; reflexivity)).
    rewrite ER in HP. lia.
Qed.

(** Read does not park when the next byte is there, an error is latched, or the final size is reached *)
Theorem Read_no_block s n s' d e bug : RSInv S s -> RSInv2 s -> 0 < n ->
  available s \/ latched s = true \/ (fc_final s = true /\ rpos s = finalOffset s) ->
  Read s n = (s', d, e, bug) -> e <> EWouldBlock.
Proof.
  intros R R2 Hn Hcase H He. subst e.
  destruct (latched s) eqn:Hl.
  { (* an error is latched: one of the checks at the top returns *)
    unfold Read in H. destruct (readImpl s n) as [[[s1 d1] e1] b1] eqn:ER. inversion H; subst; clear H.
    unfold readImpl in ER. destruct (curIsLast s && _); [inversion ER|].
    destruct (cancelledLocally s || remoteEffective s) eqn:Ec.
    { inversion ER. eapply cancel_rerr_not_block; eauto. }
    destruct (shutdown s) eqn:Es; [inversion ER|].
    unfold latched in Hl. rewrite Es in Hl. simpl in Hl. congruence. }
  assert (Hd : d = []).
  { unfold Read in H. destruct (readImpl s n) as [[[s1 d1] e1] b1] eqn:ER. inversion H; subst; clear H.
    unfold readImpl in ER. destruct (curIsLast s && _); [inversion ER|].
    destruct (cancelledLocally s || remoteEffective s); [inversion ER; exfalso; eapply cancel_rerr_not_block; eauto|].
    destruct (shutdown s); [inversion ER|]. eapply readLoop_block_nil; eauto. }
  destruct (classic_available s R) as [Ha|Hna].
  { pose proof (Read_progress _ _ _ _ _ _ R Hn Hl Ha H). subst d. rewrite len_nil in *. lia. }
  destruct Hcase as [Ha|[Hc|(Hf&Hfin)]]; [tauto|discriminate|].
  (* at the final size with nothing latched: the loop finds the end and returns EOF *)
  unfold latched in Hl. apply orb_false_elim in Hl as [Hl Hre]. apply orb_false_elim in Hl as [Hsh Hcl].
  unfold Read in H. destruct (readImpl s n) as [[[s1 d1] e1] b1] eqn:ER. inversion H; subst; clear H.
  unfold readImpl in ER. destruct (curIsLast s && _); [inversion ER|].
  rewrite Hcl, Hre, Hsh in ER. cbn [andb orb] in ER.
  rewrite readLoop_unfold in ER. rewrite len_nil in ER. destruct (Z.leb_spec n 0); [lia|].
  pose proof (v_pos _ _ R) as P. pose proof (v_rp_high _ _ R) as Q. pose proof (v_final _ _ R) as VF. rewrite Hf in VF.
  pose proof (crest_nonneg S _ R) as Hcg.
  assert (Hc0 : crest s = 0) by lia.
  assert (Edq : (match cur s with [] => true | _ => false end) || (len (cur s) <=? rpif s) = true).
  { destruct (nonnil_dec (cur s)) as [E|E]; [rewrite E; reflexivity|].
    rewrite (crest_nonnil _ E) in Hc0. apply orb_true_iff. right. apply Z.leb_le. lia. }
  rewrite Edq in ER.
  destruct (dequeue s) as [s2 b2] eqn:Ed.
  destruct (dequeue_spec S _ _ _ R Hc0 Ed) as (->&R1&D1&D2&D3&D4&D5&D6&D7&D8&D9&D10&D11&D12&D13&D14).
  destruct (dequeue_more _ _ _ R Hc0 Ed) as (M1&M2&_).
  assert (Hnil : cur s2 = []).
  { destruct (nonnil_dec (cur s2)) as [E|E]; auto. exfalso. apply Hna. right. apply M1. auto. }
  assert (Hcr : cancelledRemotely s = false).
  { destruct (cancelledRemotely s) eqn:E; auto. exfalso.
    unfold remoteEffective in Hre. rewrite E in Hre. simpl in Hre. apply Z.leb_gt in Hre.
    pose proof (w_rel _ R2). lia. }
  assert (Hlast : curIsLast s2 = true).
  { rewrite M2, Hnil, len_nil, Hcr. simpl. apply andb_true_iff. split; auto. apply Z.leb_le. lia. }
  unfold readBody in ER. rewrite Hnil in ER. simpl in ER. rewrite D7, Hsh in ER.
  assert (Hre2 : cancelledLocally s2 || remoteEffective s2 = false).
  { unfold remoteEffective in *. rewrite D4, D5, D6, D1. rewrite Hcl. simpl. exact Hre. }
  rewrite Hre2, Hlast in ER. simpl in ER.
  unfold dskip, dtake in ER. rewrite skipn_nil, firstn_nil in ER. rewrite len_nil in ER.
  rewrite ?Hnil, ?D2, ?len_nil in ER. simpl in ER. inversion ER.
Qed.

Lemma readLoop_keeps_local : forall fuel s n acc s' d e bug, readLoop fuel s n acc = (s', d, e, bug) ->
  cancelledLocally s' = cancelledLocally s.
Proof.
  induction fuel as [|fuel IH]; intros s n acc s' d e bug H; simpl in H; [inversion H; auto|].
  destruct (n <=? len acc).
  { destruct (remoteEffective s); inversion H; subst; auto. }
  destruct (if (match cur s with [] => true | _ => false end) || (len (cur s) <=? rpif s) then dequeue s else (s, false)) as [s1 b1] eqn:Ed.
  assert (D1 : cancelledLocally s1 = cancelledLocally s).
  { destruct (_ || _); [|inversion Ed; auto].
    unfold dequeue in Ed. destruct (Pop _) as [[q1 [[off dd] cb]] bb]. inversion Ed; subst. auto. }
  revert H. repeat match goal with
  | |- context [if ?c then _ else _] => destruct c
  end; intros H; try (inversion H; subst; simpl; auto; fail).
  apply IH in H. simpl in H. congruence.
Qed.

Lemma readImpl_keeps_local s n s1 d e b : readImpl s n = (s1, d, e, b) -> cancelledLocally s1 = cancelledLocally s.
Proof.
  unfold readImpl. intros ER.
  destruct (curIsLast s && _); [inversion ER; subst; auto|].
  destruct (cancelledLocally s || remoteEffective s); [inversion ER; subst; auto|].
  destruct (shutdown s); [inversion ER; subst; auto|].
  eapply readLoop_keeps_local; eauto.
Qed.

(** * histories: both invariants hold in every reachable state *)
Lemma rstep_RSInv2 r o r' : RRInv S r -> RSInv2 (rr_st r) -> rvalid o -> rstep S r o = Some r' -> RSInv2 (rr_st r').
Proof.
  intros [R _ _] R2 Hv Hs. destruct o as [off n fin cb|final reliable code|n|n|code|]; simpl in Hs.
  - destruct Hv as (V1&V2).
    destruct (handleStreamFrame (rr_st r) (slice S off n) off fin cb) as [s' e] eqn:EH.
    destruct e; try discriminate. inversion Hs; subst; simpl. exact (frame_RSInv2 _ _ _ _ _ _ R R2 V1 EH).
  - destruct Hv as (V1&V2).
    destruct (handleResetStreamFrame (rr_st r) final reliable code) as [s' e] eqn:EH.
    destruct e; try discriminate. inversion Hs; subst; simpl. exact (reset_RSInv2 _ _ _ _ _ R R2 V2 EH).
  - destruct (Read (rr_st r) n) as [[[s' d] e] bug] eqn:ER. destruct bug; [discriminate|].
    inversion Hs; subst; simpl. eapply Read_RSInv2; eauto.
  - destruct (PeekS (rr_st r) n) as [[[s' d] e] bug] eqn:EP. destruct bug; [discriminate|].
    inversion Hs; subst; simpl. eapply Peek_RSInv2; eauto.
  - inversion Hs; subst; simpl. apply Cancel_RSInv2; auto.
  - inversion Hs; subst; simpl. eapply RSInv2_fields; eauto.
Qed.

Lemma rsrun_both ops : forall r r', RRInv S r -> RSInv2 (rr_st r) -> Forall rvalid ops -> rsrun S r ops = Some r' ->
  RRInv S r' /\ RSInv2 (rr_st r').
Proof.
  induction ops as [|o ops IH]; intros r r' R R2 Hv Hs; simpl in Hs.
  - inversion Hs; subst. auto.
  - inversion Hv; subst. destruct (rstep S r o) as [r1|] eqn:E1; [|discriminate].
    apply (IH r1 r'); auto; [eapply rstep_RRInv; eauto|eapply rstep_RSInv2; eauto].
Qed.

Lemma reach_both w ops r : 0 <= w < MaxBC -> Forall rvalid ops -> rsrun S (rrun_init w) ops = Some r ->
  RSInv S (rr_st r) /\ RSInv2 (rr_st r).
Proof.
  intros Hw Hv Hs. destruct (rsrun_both ops _ _ (RRInv_init S w Hw) (RSInv2_init w) Hv Hs) as ([R _ _]&R2). auto.
Qed.

(** liveness of Read in every reachable state *)
Theorem recv_read_live w ops r n s' d e bug : 0 <= w < MaxBC -> Forall rvalid ops ->
  rsrun S (rrun_init w) ops = Some r -> 0 < n -> Read (rr_st r) n = (s', d, e, bug) ->
  (available (rr_st r) \/ latched (rr_st r) = true \/
   (fc_final (rr_st r) = true /\ rpos (rr_st r) = finalOffset (rr_st r)) -> e <> EWouldBlock) /\
  (available (rr_st r) -> latched (rr_st r) = false -> 0 < len d).
Proof.
  intros Hw Hv Hs Hn HR. destruct (reach_both w ops r Hw Hv Hs) as (R&R2). split.
  - intros Hc. eapply Read_no_block; eauto.
  - intros Ha Hl. eapply Read_progress; eauto.
Qed.

(** a frame that is accepted while reading is not cancelled locally is buffered — also after
    a reset, also when it straddles the reliable size *)
Theorem recv_frame_buffers s off n fin cb s' : RSInv S s -> 0 <= off -> 0 <= n ->
  handleStreamFrame s (slice S off n) off fin cb = (s', FNil) -> cancelledLocally s = false ->
  rpos s' = rpos s /\ crest s' = crest s /\
  forall x, off <= x < off + n -> rpos s + crest s <= x -> cov (queue (sorter s')) x.
Proof.
  intros R H0 Hn H Hcl. pose proof H as H'. unfold handleStreamFrame in H. rewrite len_slice in H by lia.
  destruct (fcUpdate s (off + n) fin) as [s1 e1] eqn:Ef.
  destruct e1; try (inversion H; discriminate).
  destruct (fcUpdate_ok _ _ _ _ Ef) as (A1&A2&A3&A4&A5&A6&A7&A8&A9&A10&A11&A12&A13&A14&A15&A16).
  set (s2 := if fin then set_final s1 (off + n) else s1) in *.
  assert (B : sorter s2 = sorter s /\ cancelledLocally s2 = false /\ rpos s2 = rpos s /\ cur s2 = cur s /\ rpif s2 = rpif s).
  { unfold s2. destruct fin; simpl; rewrite ?A1, ?A8, ?A2, ?A3, ?A4; auto. }
  destruct B as (B1&B2&B3&B4&B5). rewrite B2 in H.
  destruct (Push (sorter s2) (slice S off n) off cb) as [q rr] eqn:EP. rewrite B1 in EP.
  pose proof (v_win _ _ R) as VW.
  assert (Hmax : off + n < MaxBC).
  { destruct (Z.le_gt_cases (off + n) (fc_highest s)); [lia|]. specialize (A14 ltac:(lia)). lia. }
  destruct (Push_post S _ _ _ _ _ _ (v_inv _ _ R) H0 Hn Hmax EP) as (_&Hok).
  destruct rr; simpl in H; try (inversion H; discriminate).
  destruct (Hok eq_refl) as (_&Hrp&Hcov&_).
  assert (E' : s' = isNewlyCompleted (set_sorter s2 q)) by (inversion H; reflexivity).
  assert (Hf : sorter s' = q /\ rpos s' = rpos s /\ cur s' = cur s /\ rpif s' = rpif s).
  { subst s'. destruct (inc_cases (set_sorter s2 q)) as [-> | ->]; simpl; auto. }
  destruct Hf as (F1&F2&F3&F4). split; auto. split; [unfold crest; rewrite F3, F4; reflexivity|].
  intros x Hx Hr. rewrite F1. apply Hcov. right. split; auto. rewrite (v_pos _ _ R). exact Hr.
Qed.

(** RESET_STREAM_AT: below the reliable size data is still delivered, at or above it the
    reader gets the reset error (or the EOF it had already earned), and never earlier *)
Theorem recv_reset_at_delivers s n s' d e bug : RSInv S s -> 0 < n ->
  cancelledRemotely s = true -> cancelledLocally s = false -> shutdown s = false ->
  Read s n = (s', d, e, bug) ->
  (rpos s < reliableSize s -> available s -> 0 < len d /\ d = slice S (rpos s) (len d)) /\
  (reliableSize s <= rpos s -> d = [] /\ (e = cancel_rerr s \/ e = EEOF)) /\
  (forall c r, e = ECancel c r -> reliableSize s' <= rpos s').
Proof.
  intros R Hn Hcr Hcl Hsh H. split; [|split].
  - intros Hlt Ha.
    assert (Hl : latched s = false).
    { unfold latched, remoteEffective. rewrite Hsh, Hcl, Hcr. simpl. apply Z.leb_gt. lia. }
    split; [eapply Read_progress; eauto|].
    assert (Hn0 : 0 <= n) by lia. destruct (Read_spec S _ _ _ _ _ _ R Hn0 H) as (_&_&Hd&_). exact Hd.
  - intros Hge. unfold Read in H. destruct (readImpl s n) as [[[s1 d1] e1] b1] eqn:ER. inversion H; subst; clear H.
    unfold readImpl in ER. destruct (curIsLast s && _); [inversion ER; auto|].
    assert (Hre : remoteEffective s = true) by (unfold remoteEffective; rewrite Hcr; simpl; apply Z.leb_le; lia).
    rewrite Hre, orb_true_r in ER. inversion ER; auto.
  - intros c r He. subst e. destruct (recv_cancel_error _ _ _ _ _ _ _ H) as [Hc|(_&Hc)]; auto.
    exfalso. unfold Read in H. destruct (readImpl s n) as [[[s1 d1] e1] b1] eqn:ER. inversion H; subst; clear H.
    assert (Hk : cancelledLocally (isNewlyCompleted s1) = cancelledLocally s).
    { destruct (inc_cases s1) as [-> | ->]; simpl; eapply readImpl_keeps_local; eauto. }
    congruence.
Qed.

(** * ownership of the received buffers (currentFrameDone discipline) *)
(* the callback the stream still owes for its current frame *)
Definition held (s : rstream) : list Z :=
  if curIsLast s && (match cur s with [] => true | _ => false end) then [] else optl (curDone s).

Record OwnInv (s : rstream) (ids : list Z) : Prop := {
  o_perm : Permutation (fired (sorter s) ++ live (queue (sorter s)) ++ held s) ids;
  o_nil : cur s = [] -> curIsLast s = false -> curDone s = None
}.

Lemma OwnInv_fields s s' ids : OwnInv s ids -> sorter s' = sorter s -> cur s' = cur s -> curDone s' = curDone s ->
  curIsLast s' = curIsLast s -> OwnInv s' ids.
Proof. intros [A B] E1 E2 E3 E4. constructor; unfold held; rewrite ?E1, ?E2, ?E3, ?E4; auto. Qed.

Lemma inc_own s : sorter (isNewlyCompleted s) = sorter s /\ cur (isNewlyCompleted s) = cur s /\
  curDone (isNewlyCompleted s) = curDone s /\ curIsLast (isNewlyCompleted s) = curIsLast s.
Proof. destruct (inc_cases s) as [-> | ->]; simpl; auto. Qed.

Lemma OwnInv_completed s ids : OwnInv s ids -> OwnInv (isNewlyCompleted s) ids.
Proof. intros O. destruct (inc_own s) as (A&B&C&D). eapply OwnInv_fields; eauto. Qed.

Lemma dequeue_own s s1 b ids : Inv S (sorter s) -> OwnInv s ids ->
  curIsLast s && (match cur s with [] => true | _ => false end) = false ->
  dequeue s = (s1, b) ->
  OwnInv s1 ids /\ Inv S (sorter s1) /\ (cur s1 = [] -> curDone s1 = None).
Proof.
  intros I [OP ON] Hne H. unfold dequeue in H.
  pose proof (Inv_fire_done S _ (curDone s) I) as I0.
  destruct (Pop (fire_done (sorter s) (curDone s))) as [[q1 [[off d] cb]] bb] eqn:EP.
  destruct (Pop_preserves S _ _ _ _ _ _ I0 EP) as (I1&_&_&_&_&_&_&Hf&_).
  assert (Hpop : Permutation (live (queue (sorter s))) (optl cb ++ live (queue q1)) /\ (d = [] -> cb = None)).
  { unfold Pop in EP. simpl in EP. destruct (qget (queue (sorter s)) (readPos (sorter s))) as [en|] eqn:E.
    - inversion EP; subst; simpl. split; [apply live_qdel; auto|].
      intros Hd. exfalso. apply qget_In in E. destruct (i_ent _ _ I _ _ E) as (_&Hl&_).
      unfold elen in Hl. rewrite Hd in Hl. rewrite len_nil in Hl. lia.
    - inversion EP; subst; simpl. split; auto. }
  destruct Hpop as (Hperm&Hnone). inversion H; subst; clear H. simpl in Hf.
  assert (Hheld : held (set_frame s q1 d cb 0 ((finalOffset s <=? off + len d) && negb (cancelledRemotely s))) = optl cb).
  { unfold held. simpl. destruct d; [rewrite (Hnone eq_refl); rewrite andb_true_r;
      destruct ((finalOffset s <=? off + len []) && negb (cancelledRemotely s)); reflexivity|].
    rewrite andb_false_r. reflexivity. }
  split; [|split; [exact I1|simpl; auto]].
  constructor; [|simpl; intros Hd _; auto].
  rewrite Hheld. simpl. rewrite Hf. simpl. rewrite fire_optl.
  unfold held in OP. rewrite Hne in OP. rewrite <- OP. rewrite Hperm.
  rewrite <- !app_assoc. apply Permutation_app_head.
  rewrite (Permutation_app_comm (optl (curDone s))). rewrite <- !app_assoc.
  apply Permutation_app_swap_app.
Qed.

Lemma eof_own s ids : OwnInv s ids -> curIsLast s = true -> (cur s = [] -> curDone s = None) ->
  OwnInv (set_errorRead (set_frame s (fire_done (sorter s) (curDone s)) [] (curDone s) (rpif s) (curIsLast s))) ids.
Proof.
  intros [OP ON] Hl Hnil. constructor; [|simpl; congruence].
  unfold held in *. simpl. rewrite Hl in *. simpl. rewrite fire_optl, app_nil_r.
  destruct (cur s) eqn:Ec.
  - simpl in OP. rewrite (Hnil eq_refl). simpl. rewrite !app_nil_r in *. exact OP.
  - simpl in OP. rewrite <- OP. rewrite <- app_assoc. apply Permutation_app_head. apply Permutation_app_comm.
Qed.

Lemma readLoop_own : forall fuel s n acc s' d e bug ids,
  Inv S (sorter s) -> OwnInv s ids ->
  curIsLast s && (match cur s with [] => true | _ => false end) = false ->
  readLoop fuel s n acc = (s', d, e, bug) -> OwnInv s' ids.
Proof.
  induction fuel as [|fuel IH]; intros s n acc s' d e bug ids I O Hne H; simpl in H; [inversion H; subst; auto|].
  destruct (n <=? len acc).
  { destruct (remoteEffective s); inversion H; subst; auto. eapply OwnInv_fields; eauto. }
  destruct (if (match cur s with [] => true | _ => false end) || (len (cur s) <=? rpif s) then dequeue s else (s, false)) as [s1 b1] eqn:Ed.
  assert (D : OwnInv s1 ids /\ Inv S (sorter s1) /\ (cur s1 = [] -> curDone s1 = None) /\ (cur s1 = [] -> rpif s1 = 0)).
  { destruct ((match cur s with [] => true | _ => false end) || (len (cur s) <=? rpif s)) eqn:Edq.
    - destruct (dequeue_own _ _ _ _ I O Hne Ed) as (A&B&C). split; auto. split; auto. split; auto.
      intros _. unfold dequeue in Ed. destruct (Pop _) as [[q1 [[off dd] cb]] bb]. inversion Ed; subst. reflexivity.
    - inversion Ed; subst. apply orb_false_elim in Edq as [E1 _]. apply isnil_false in E1.
      split; auto. split; auto. split; intros Hc; congruence. }
  destruct D as (O1&I1&Hn1&Hr1).
  destruct b1; [inversion H; subst; auto|].
  destruct ((match cur s1 with [] => true | _ => false end) && (0 <? len acc)); [inversion H; subst; auto|].
  destruct (shutdown s1); [inversion H; subst; auto|].
  destruct (cancelledLocally s1 || remoteEffective s1); [inversion H; subst; eapply OwnInv_fields; eauto|].
  destruct (negb (match cur s1 with [] => false | _ => true end || curIsLast s1)) eqn:ED; [inversion H; subst; auto|].
  apply negb_false_iff in ED.
  match type of H with (if ?c then _ else _) = _ => destruct c eqn:Eeof end.
  - inversion H; subst. apply andb_prop in Eeof as [_ El]. simpl in El.
    apply (eof_own (set_read s1 _ _) ids); auto. eapply OwnInv_fields; eauto.
  - apply (IH _ _ _ _ _ _ _ ids) in H; auto.
    + eapply OwnInv_fields; eauto.
    + simpl. (* the loop only continues with a non-empty current frame, or not at the end *)
      destruct (cur s1) eqn:Ec; [|apply andb_false_r].
      simpl in ED. rewrite ED. simpl in Eeof. rewrite ED in Eeof. rewrite andb_true_r in Eeof.
      exfalso. unfold dskip, dtake in Eeof. rewrite ?skipn_nil, ?firstn_nil, ?len_nil in Eeof.
      rewrite (Hr1 eq_refl) in Eeof. simpl in Eeof. discriminate.
Qed.

Lemma Read_own s n s' d e bug ids : Inv S (sorter s) -> OwnInv s ids -> Read s n = (s', d, e, bug) -> OwnInv s' ids.
Proof.
  intros I O H. unfold Read in H. destruct (readImpl s n) as [[[s1 d1] e1] b1] eqn:ER. inversion H; subst.
  apply OwnInv_completed. unfold readImpl in ER.
  destruct (curIsLast s && (match cur s with [] => true | _ => false end)) eqn:E1;
    [inversion ER; subst; eapply OwnInv_fields; eauto|].
  destruct (cancelledLocally s || remoteEffective s); [inversion ER; subst; eapply OwnInv_fields; eauto|].
  destruct (shutdown s); [inversion ER; subst; auto|].
  eapply readLoop_own; eauto.
Qed.

Lemma Peek_own s n s' d e bug ids : Inv S (sorter s) -> OwnInv s ids -> PeekS s n = (s', d, e, bug) -> OwnInv s' ids.
Proof.
  intros I O H. unfold PeekS in H. destruct (n <=? 0); [inversion H; subst; auto|].
  rewrite peekImpl_unfold in H.
  destruct (curIsLast s && (match cur s with [] => true | _ => false end)) eqn:E1; [inversion H; subst; auto|].
  destruct (cancelledLocally s || remoteEffective s); [inversion H; subst; auto|].
  destruct (shutdown s); [inversion H; subst; auto|].
  destruct (if (match cur s with [] => true | _ => false end) || (len (cur s) <=? rpif s) then dequeue s else (s, false)) as [s1 b1] eqn:Ed.
  assert (O1 : OwnInv s1 ids).
  { destruct (_ || _); [eapply dequeue_own; eauto|inversion Ed; subst; auto]. }
  destruct b1; [inversion H; subst; auto|].
  assert (Hst : s' = s1).
  { revert H. unfold peekBody. repeat match goal with
      | |- context [if ?c then _ else _] => destruct c
      | |- context [match ?c with Some _ => _ | None => _ end] => destruct c
      end; intros H; inversion H; auto. }
  subst. auto.
Qed.

Lemma frame_own s off n fin cb s' ids : RSInv S s -> OwnInv s ids -> 0 <= off -> 0 <= n ->
  handleStreamFrame s (slice S off n) off fin cb = (s', FNil) ->
  OwnInv s' (if cancelledLocally s then ids else ids ++ optl cb).
Proof.
  intros R [OP ON] H0 Hn H. unfold handleStreamFrame in H. rewrite len_slice in H by lia.
  destruct (fcUpdate s (off + n) fin) as [s1 e1] eqn:Ef.
  destruct e1; try (inversion H; discriminate).
  destruct (fcUpdate_err_same _ _ _ _ _ Ef) as (A1&A2&A3&A4&A5&A6&A7&A8&A9&A10&A11).
  destruct (fcUpdate_ok _ _ _ _ Ef) as (_&_&_&_&_&_&_&_&_&_&_&B12&_&B14&_&_).
  set (s2 := if fin then set_final s1 (off + n) else s1) in *.
  assert (B : sorter s2 = sorter s /\ cancelledLocally s2 = cancelledLocally s /\ cur s2 = cur s /\ curDone s2 = curDone s /\ curIsLast s2 = curIsLast s).
  { unfold s2. destruct fin; simpl; rewrite ?A1, ?A7, ?A3, ?A10, ?A11; auto. }
  destruct B as (B1&B2&B3&B4&B5). rewrite B2 in H.
  destruct (cancelledLocally s) eqn:Ecl.
  - inversion H; subst. apply OwnInv_completed. eapply OwnInv_fields; eauto. constructor; auto.
  - destruct (Push (sorter s2) (slice S off n) off cb) as [q rr] eqn:EP. rewrite B1 in EP.
    pose proof (v_win _ _ R) as VW.
    assert (Hmax : off + n < MaxBC).
    { destruct (Z.le_gt_cases (off + n) (fc_highest s)); [lia|]. specialize (B14 ltac:(lia)). lia. }
    destruct (Push_post S _ _ _ _ _ _ (v_inv _ _ R) H0 Hn Hmax EP) as (_&Hok).
    destruct rr; simpl in H; try (inversion H; discriminate).
    destruct (Hok eq_refl) as (_&_&_&_&Hperm&_).
    assert (E' : s' = isNewlyCompleted (set_sorter s2 q)) by (inversion H; reflexivity).
    subst s'. apply OwnInv_completed. constructor; simpl; rewrite ?B3, ?B4, ?B5; auto.
    unfold held in *. simpl. rewrite B3, B4, B5.
    rewrite app_assoc, Hperm. rewrite <- OP. rewrite <- !app_assoc.
    rewrite Permutation_app_comm. rewrite <- !app_assoc. reflexivity.
Qed.

Lemma reset_own s final reliable code s' e ids : OwnInv s ids ->
  handleResetStreamFrame s final reliable code = (s', e) -> OwnInv s' ids.
Proof.
  intros O H. unfold handleResetStreamFrame in H.
  destruct (shutdown s); [inversion H; subst; apply OwnInv_completed; auto|].
  destruct (fcUpdate s final true) as [s1 e1] eqn:Ef.
  destruct (fcUpdate_err_same _ _ _ _ _ Ef) as (A1&A2&A3&A4&A5&A6&A7&A8&A9&A10&A11).
  match type of H with (let '(_, _) := ?X in _) = _ => destruct X as [s2 e2] eqn:E2 end.
  inversion H; subst. apply OwnInv_completed.
  assert (Hs2 : sorter s2 = sorter s1 /\ cur s2 = cur s1 /\ curDone s2 = curDone s1 /\ curIsLast s2 = curIsLast s1).
  { revert E2. destruct e1; repeat match goal with |- context [if ?c then _ else _] => destruct c end;
      intros E2; inversion E2; subst; simpl; auto. }
  destruct Hs2 as (C1&C2&C3&C4). eapply OwnInv_fields; eauto; congruence.
Qed.

Lemma cancel_own s code ids : OwnInv s ids -> OwnInv (CancelRead s code) ids.
Proof.
  intros O. unfold CancelRead. apply OwnInv_completed.
  destruct (cancelledLocally s); auto. destruct (shutdown s); auto.
  destruct (errorRead s || cancelledRemotely s); eapply OwnInv_fields; eauto.
Qed.

(* callback ids of the frames of a history *)
Definition rop_cbs (ops : list rop) : list Z :=
  flat_map (fun o => match o with ROFrame _ _ _ cb => optl cb | _ => [] end) ops.

Lemma OwnInv_init w : OwnInv (rs_init w) [].
Proof. constructor; simpl; auto. Qed.

Lemma rstep_own r o r' : RRInv S r -> OwnInv (rr_st r) (rr_acc r) -> rvalid o -> rstep S r o = Some r' ->
  OwnInv (rr_st r') (rr_acc r') /\
  (exists l, rr_acc r' = rr_acc r ++ l /\ (l = [] \/ l = rop_cbs [o])).
Proof.
  intros [R _ _] O Hv Hs. destruct o as [off n fin cb|final reliable code|n|n|code|]; simpl in Hs.
  - destruct Hv as (V1&V2).
    destruct (handleStreamFrame (rr_st r) (slice S off n) off fin cb) as [s' e] eqn:EH.
    destruct e; try discriminate. inversion Hs; subst; simpl.
    pose proof (frame_own _ _ _ _ _ _ _ R O V1 V2 EH) as O'.
    split; [exact O'|].
    destruct (cancelledLocally (rr_st r)).
    + exists []. rewrite app_nil_r. auto.
    + exists (optl cb). split; [destruct cb; reflexivity|]. right. simpl. rewrite app_nil_r. reflexivity.
  - destruct (handleResetStreamFrame (rr_st r) final reliable code) as [s' e] eqn:EH.
    destruct e; try discriminate. inversion Hs; subst; simpl.
    split; [eapply reset_own; eauto|]. exists []. rewrite app_nil_r. auto.
  - destruct (Read (rr_st r) n) as [[[s' d] e] bug] eqn:ER. destruct bug; [discriminate|].
    inversion Hs; subst; simpl. split; [eapply Read_own; eauto; apply (v_inv _ _ R)|]. exists []. rewrite app_nil_r. auto.
  - destruct (PeekS (rr_st r) n) as [[[s' d] e] bug] eqn:EP. destruct bug; [discriminate|].
    inversion Hs; subst; simpl. split; [eapply Peek_own; eauto; apply (v_inv _ _ R)|]. exists []. rewrite app_nil_r. auto.
  - inversion Hs; subst; simpl. split; [apply cancel_own; auto|]. exists []. rewrite app_nil_r. auto.
  - inversion Hs; subst; simpl. split; [eapply OwnInv_fields; eauto|]. exists []. rewrite app_nil_r. auto.
Qed.

Lemma NoDup_drop_mid {T} (a b c : list T) : NoDup (a ++ b ++ c) -> NoDup (a ++ c).
Proof.
  intros H. induction b as [|x b IH]; auto. apply IH.
  simpl in H. apply NoDup_remove_1 in H. exact H.
Qed.

Lemma rsrun_own ops : forall r r', RRInv S r -> OwnInv (rr_st r) (rr_acc r) -> Forall rvalid ops ->
  NoDup (rr_acc r ++ rop_cbs ops) -> rsrun S r ops = Some r' ->
  OwnInv (rr_st r') (rr_acc r') /\ NoDup (rr_acc r') /\ incl (rr_acc r') (rr_acc r ++ rop_cbs ops).
Proof.
  induction ops as [|o ops IH]; intros r r' R O Hv Hnd Hs; simpl in Hs.
  - inversion Hs; subst. simpl in Hnd. rewrite app_nil_r in *. split; auto. split; auto. apply incl_refl.
  - inversion Hv; subst. destruct (rstep S r o) as [r1|] eqn:E1; [|discriminate].
    destruct (rstep_own _ _ _ R O H1 E1) as (O1&l&Hl&Hcase).
    pose proof (rstep_RRInv S _ _ _ R H1 E1) as R1.
    assert (Hcbs : rop_cbs (o :: ops) = rop_cbs [o] ++ rop_cbs ops).
    { unfold rop_cbs. simpl. rewrite app_nil_r. reflexivity. }
    rewrite Hcbs in Hnd.
    assert (Hnd1 : NoDup (rr_acc r1 ++ rop_cbs ops)).
    { rewrite Hl. destruct Hcase as [-> | ->].
      - rewrite app_nil_r. eapply NoDup_drop_mid; eauto.
      - rewrite <- app_assoc. exact Hnd. }
    destruct (IH _ _ R1 O1 H2 Hnd1 Hs) as (A&B&C). split; auto. split; auto.
    intros x Hx. apply C in Hx. rewrite Hl in Hx. rewrite Hcbs.
    apply in_app_or in Hx. destruct Hx as [Hx|Hx].
    + apply in_app_or in Hx. destruct Hx as [Hx|Hx]; [apply in_or_app; auto|].
      destruct Hcase as [-> | ->]; [destruct Hx|]. apply in_or_app. right. apply in_or_app. auto.
    + apply in_or_app. right. apply in_or_app. auto.
Qed.

(** Every frame handed to the sorter has its doneCb (PutBack) in exactly one place: fired,
    attached to a queued entry, or owed for the current frame. So no buffer is released
    twice, none is released while the queue or the current frame still refers to it, and
    frames that arrive after CancelRead are never released (nor referenced). *)
Theorem recv_buffers_once w ops r : 0 <= w < MaxBC -> Forall rvalid ops -> NoDup (rop_cbs ops) ->
  rsrun S (rrun_init w) ops = Some r ->
  Permutation (fired (sorter (rr_st r)) ++ live (queue (sorter (rr_st r))) ++ held (rr_st r)) (rr_acc r) /\
  NoDup (fired (sorter (rr_st r)) ++ live (queue (sorter (rr_st r))) ++ held (rr_st r)) /\
  incl (rr_acc r) (rop_cbs ops).
Proof.
  intros Hw Hv Hnd Hs.
  destruct (rsrun_own ops _ _ (RRInv_init S w Hw) (OwnInv_init w) Hv Hnd Hs) as ([OP _]&B&C).
  split; auto. split; auto. eapply Permutation_NoDup; [symmetry; exact OP|exact B].
Qed.

(** the RESET_STREAM_AT clauses over reachable states *)
Theorem recv_reset_at_reach w ops r : 0 <= w < MaxBC -> Forall rvalid ops -> rsrun S (rrun_init w) ops = Some r ->
  let s := rr_st r in
  (* 1. frames are buffered whatever the reset state (unless reading was cancelled locally) *)
  (forall off n fin cb s', 0 <= off -> 0 <= n -> cancelledLocally s = false ->
     handleStreamFrame s (slice S off n) off fin cb = (s', FNil) ->
     rpos s' = rpos s /\ crest s' = crest s /\
     forall x, off <= x < off + n -> rpos s + crest s <= x -> cov (queue (sorter s')) x) /\
  (* 2. the reliable size never exceeds the final size *)
  (cancelledRemotely s = true -> fc_final s = true /\ 0 <= reliableSize s <= finalOffset s) /\
  (* 3. reads after a reset *)
  (forall n s' d e bug, 0 < n -> cancelledRemotely s = true -> cancelledLocally s = false -> shutdown s = false ->
     Read s n = (s', d, e, bug) ->
     (rpos s < reliableSize s -> available s -> 0 < len d /\ d = slice S (rpos s) (len d)) /\
     (reliableSize s <= rpos s -> d = [] /\ (e = cancel_rerr s \/ e = EEOF)) /\
     (forall c r0, e = ECancel c r0 -> reliableSize s' <= rpos s')).
Proof.
  intros Hw Hv Hs s. destruct (reach_both w ops r Hw Hv Hs) as (R&R2). fold s in R, R2.
  split; [|split].
  - intros off n fin cb s' H0 Hn Hcl H. eapply recv_frame_buffers; eauto.
  - intros Hcr. split; [apply (w_fin _ R2); auto|apply (w_rel _ R2)].
  - intros n s' d e bug Hn Hcr Hcl Hsh H. eapply recv_reset_at_delivers; eauto.
Qed.

(** * liveness of Peek *)
Lemma dequeue_cov s s1 b : RSInv S s -> crest s = 0 -> dequeue s = (s1, b) ->
  forall x, cov (queue (sorter s)) x -> rpos s + len (cur s1) <= x -> cov (queue (sorter s1)) x.
Proof.
  intros R Hc H x Hx Hge. pose proof (v_pos _ _ R) as P. rewrite Hc in P.
  unfold dequeue in H.
  pose proof (Inv_fire_done S _ (curDone s) (v_inv _ _ R)) as I0.
  destruct (Pop (fire_done (sorter s) (curDone s))) as [[q1 [[off d] cb]] bb] eqn:EP.
  destruct (sorter_refines_pop S _ _ _ _ _ _ I0 EP) as (_&_&_&_&Hrp&Hcov). simpl in Hrp, Hcov.
  inversion H; subst; simpl in *. apply Hcov. split; auto. lia.
Qed.

Lemma peekBody_live s1 n : RSInv S s1 -> 0 < n -> 0 < crest s1 ->
  (forall x, rpos s1 <= x < rpos s1 + n -> x < rpos s1 + crest s1 \/ cov (queue (sorter s1)) x) ->
  exists d, peekBody s1 n = (s1, d, ENil, false).
Proof.
  intros R Hn Hc Hall. unfold peekBody.
  assert (Hne : cur s1 <> []) by (unfold crest in Hc; destruct (cur s1); [lia|discriminate]).
  pose proof (crest_nonnil _ Hne) as Hcr.
  assert (E1 : (match cur s1 with [] => false | _ => true end) = true) by (destruct (cur s1); [congruence|reflexivity]).
  rewrite E1. destruct (Z.ltb_spec (rpif s1) (len (cur s1))); [|lia]. cbn [andb]. cbv zeta.
  rewrite <- Hcr. destruct (Z.leb_spec n (crest s1)); [eauto|].
  pose proof (v_pos _ _ R) as P.
  destruct (Peek_complete S (sorter s1) (n - crest s1) (v_inv _ _ R) ltac:(lia)) as (d1&Hd1).
  { intros x Hx. rewrite P in Hx. destruct (Hall x ltac:(lia)); [lia|auto]. }
  rewrite <- P. rewrite Hd1. eauto.
Qed.

(** Peek does not park when an error is latched, and returns all n bytes when they are there *)
Theorem Peek_live s n s' d e bug : RSInv S s -> 0 < n -> PeekS s n = (s', d, e, bug) ->
  (latched s = true -> e <> EWouldBlock) /\
  (latched s = false ->
   (forall x, rpos s <= x < rpos s + n -> x < rpos s + crest s \/ cov (queue (sorter s)) x) ->
   e = ENil /\ len d = n).
Proof.
  intros R Hn H.
  assert (Hlen : e = ENil -> len d = n).
  { assert (Hn0 : 0 <= n) by lia. destruct (Peek_spec_stream S _ _ _ _ _ _ R Hn0 H) as (_&_&_&_&_&A&_). exact A. }
  unfold PeekS in H. destruct (Z.leb_spec n 0); [lia|]. rewrite peekImpl_unfold in H. split.
  - intros Hl He. subst e.
    destruct (curIsLast s && _); [inversion H|].
    destruct (cancelledLocally s || remoteEffective s) eqn:Ec.
    { inversion H. eapply cancel_rerr_not_block; eauto. }
    destruct (shutdown s) eqn:Es; [inversion H|].
    unfold latched in Hl. rewrite Es in Hl. simpl in Hl. congruence.
  - intros Hl Hall.
    assert (Ha : available s).
    { destruct (Hall (rpos s) ltac:(lia)) as [Hx|Hx]; [left; lia|right; auto]. }
    rewrite (available_not_eof s R Ha) in H.
    unfold latched in Hl. apply orb_false_elim in Hl as [Hl Hre]. apply orb_false_elim in Hl as [Hsh Hcl].
    rewrite Hcl, Hre, Hsh in H. cbn [orb] in H.
    assert (He : e = ENil); [|split; auto].
    destruct ((match cur s with [] => true | _ => false end) || (len (cur s) <=? rpif s)) eqn:Edq.
    + assert (Hc0 : crest s = 0).
      { apply crest_zero with (S := S); auto. apply orb_prop in Edq. destruct Edq as [E|E]; [left; apply isnil_true; auto|right; apply Z.leb_le; auto]. }
      destruct (dequeue s) as [s2 b2] eqn:Ed.
      destruct (dequeue_spec S _ _ _ R Hc0 Ed) as (->&R1&D1&D2&D3&_).
      destruct (dequeue_more _ _ _ R Hc0 Ed) as (M1&_).
      assert (Hne : cur s2 <> []) by (apply M1; destruct Ha; [lia|auto]).
      destruct (peekBody_live s2 n R1 Hn) as (d2&Hd2).
      * rewrite D3. apply len_pos_nonnil; auto.
      * intros x Hx. rewrite D1 in *. rewrite D3.
        destruct (Z.lt_ge_cases x (rpos s + len (cur s2))); [left; auto|right].
        destruct (Hall x Hx) as [Hy|Hy]; [lia|]. exact (dequeue_cov _ _ _ R Hc0 Ed x Hy H1).
      * rewrite Hd2 in H. inversion H; auto.
    + apply orb_false_elim in Edq. destruct Edq as [E1 E2]. apply isnil_false in E1. apply Z.leb_gt in E2.
      destruct (peekBody_live s n R Hn) as (d2&Hd2); auto.
      * rewrite (crest_nonnil _ E1). lia.
      * rewrite Hd2 in H. inversion H; auto.
Qed.

Theorem recv_peek_live w ops r n s' d e bug : 0 <= w < MaxBC -> Forall rvalid ops ->
  rsrun S (rrun_init w) ops = Some r -> 0 < n -> PeekS (rr_st r) n = (s', d, e, bug) ->
  (latched (rr_st r) = true -> e <> EWouldBlock) /\
  (latched (rr_st r) = false ->
   (forall x, rpos (rr_st r) <= x < rpos (rr_st r) + n ->
      x < rpos (rr_st r) + crest (rr_st r) \/ cov (queue (sorter (rr_st r))) x) ->
   e = ENil /\ len d = n).
Proof.
  intros Hw Hv Hs Hn HP. destruct (reach_both w ops r Hw Hv Hs) as (R&_). eapply Peek_live; eauto.
Qed.

(** * at the end of the stream every accepted buffer has been released *)
Lemma readLoop_eof_state : forall fuel s n acc s' d bug, readLoop fuel s n acc = (s', d, EEOF, bug) ->
  cur s' = [] /\ curIsLast s' = true.
Proof.
  induction fuel as [|fuel IH]; intros s n acc s' d bug H; simpl in H; [inversion H|].
  destruct (n <=? len acc).
  { destruct (remoteEffective s); inversion H. exfalso. eapply cancel_rerr_not_eof; eauto. }
  destruct (if (match cur s with [] => true | _ => false end) || (len (cur s) <=? rpif s) then dequeue s else (s, false)) as [s1 b1].
  destruct b1; [inversion H|].
  destruct ((match cur s1 with [] => true | _ => false end) && (0 <? len acc)).
  { destruct (shutdown s1); inversion H. }
  destruct (shutdown s1); [inversion H|].
  destruct (cancelledLocally s1 || remoteEffective s1).
  { inversion H. exfalso. eapply cancel_rerr_not_eof; eauto. }
  destruct (negb _); [inversion H|].
  match type of H with (if ?c then _ else _) = _ => destruct c eqn:Ee end.
  - inversion H; subst. simpl. apply andb_prop in Ee as [_ El]. simpl in El. auto.
  - eapply IH; eauto.
Qed.

Lemma Read_eof_state s n s' d bug : Read s n = (s', d, EEOF, bug) -> cur s' = [] /\ curIsLast s' = true.
Proof.
  unfold Read. destruct (readImpl s n) as [[[s1 d1] e1] b1] eqn:ER. intros H. inversion H; subst.
  destruct (inc_own s1) as (_&A&_&B). rewrite A, B.
  unfold readImpl in ER.
  destruct (curIsLast s && (match cur s with [] => true | _ => false end)) eqn:E1.
  { inversion ER; subst. simpl. apply andb_prop in E1 as [El Ec]. apply isnil_true in Ec. auto. }
  destruct (cancelledLocally s || remoteEffective s).
  { inversion ER. exfalso. eapply cancel_rerr_not_eof; eauto. }
  destruct (shutdown s); [inversion ER|].
  eapply readLoop_eof_state; eauto.
Qed.

Lemma frame_keeps_cur s data off fin cb s' e : handleStreamFrame s data off fin cb = (s', e) ->
  cur s' = cur s /\ curIsLast s' = curIsLast s.
Proof.
  unfold handleStreamFrame. intros H.
  destruct (fcUpdate s (off + len data) fin) as [s1 e1] eqn:Ef.
  destruct (fcUpdate_err_same _ _ _ _ _ Ef) as (_&_&A3&_&_&_&_&_&_&_&A11).
  match type of H with (let '(_, _) := ?X in _) = _ => destruct X as [s2 e2] eqn:E2 end.
  inversion H; subst. destruct (inc_own s2) as (_&B1&_&B2). rewrite B1, B2.
  assert (Hs2 : cur s2 = cur s1 /\ curIsLast s2 = curIsLast s1).
  { revert E2. destruct e1; try (intros E2; inversion E2; subst; auto; fail).
    destruct fin; simpl; destruct (cancelledLocally s1); try (intros E2; inversion E2; subst; auto; fail);
      destruct (Push _ _ _ _) as [q rr]; intros E2; inversion E2; subst; auto. }
  destruct Hs2 as (C1&C2). split; congruence.
Qed.

Lemma reset_keeps_cur s final reliable code s' e : handleResetStreamFrame s final reliable code = (s', e) ->
  cur s' = cur s /\ curIsLast s' = curIsLast s.
Proof.
  unfold handleResetStreamFrame. intros H.
  destruct (shutdown s).
  { inversion H; subst. destruct (inc_own s) as (_&B1&_&B2). auto. }
  destruct (fcUpdate s final true) as [s1 e1] eqn:Ef.
  destruct (fcUpdate_err_same _ _ _ _ _ Ef) as (_&_&A3&_&_&_&_&_&_&_&A11).
  match type of H with (let '(_, _) := ?X in _) = _ => destruct X as [s2 e2] eqn:E2 end.
  inversion H; subst. destruct (inc_own s2) as (_&B1&_&B2). rewrite B1, B2.
  assert (Hs2 : cur s2 = cur s1 /\ curIsLast s2 = curIsLast s1).
  { revert E2. destruct e1; repeat match goal with |- context [if ?c then _ else _] => destruct c end;
      intros E2; inversion E2; subst; simpl; auto. }
  destruct Hs2 as (C1&C2). split; congruence.
Qed.

Definition EofInv (r : rrun) : Prop := rr_eof r = true -> cur (rr_st r) = [] /\ curIsLast (rr_st r) = true.

Lemma rstep_EofInv r o r' : EofInv r -> rstep S r o = Some r' -> EofInv r'.
Proof.
  intros E Hs. destruct o as [off n fin cb|final reliable code|n|n|code|]; simpl in Hs.
  - destruct (handleStreamFrame (rr_st r) (slice S off n) off fin cb) as [s' e] eqn:EH.
    destruct e; try discriminate. inversion Hs; subst. intros He. simpl in *. specialize (E He).
    destruct (frame_keeps_cur _ _ _ _ _ _ _ EH) as (A&B). rewrite A, B. auto.
  - destruct (handleResetStreamFrame (rr_st r) final reliable code) as [s' e] eqn:EH.
    destruct e; try discriminate. inversion Hs; subst. intros He. simpl in *. specialize (E He).
    destruct (reset_keeps_cur _ _ _ _ _ _ EH) as (A&B). rewrite A, B. auto.
  - destruct (Read (rr_st r) n) as [[[s' d] e] bug] eqn:ER. destruct bug; [discriminate|].
    inversion Hs; subst. intros He. simpl in *. apply orb_prop in He. destruct He as [He|He].
    + specialize (E He). destruct E as (Ec&El).
      unfold Read in ER. destruct (readImpl (rr_st r) n) as [[[s1 d1] e1] b1] eqn:ER1. inversion ER; subst.
      destruct (inc_own s1) as (_&B1&_&B2). rewrite B1, B2.
      unfold readImpl in ER1. rewrite El, Ec in ER1. simpl in ER1. inversion ER1; subst. simpl. auto.
    + destruct e; try discriminate. eapply Read_eof_state; eauto.
  - destruct (PeekS (rr_st r) n) as [[[s' d] e] bug] eqn:EP. destruct bug; [discriminate|].
    inversion Hs; subst. intros He. simpl in *. specialize (E He). destruct E as (Ec&El).
    unfold PeekS in EP. destruct (n <=? 0); [inversion EP; subst; auto|].
    unfold peekImpl in EP. rewrite El, Ec in EP. simpl in EP. inversion EP; subst. auto.
  - inversion Hs; subst. intros He. simpl in *. specialize (E He). unfold CancelRead.
    match goal with |- context [isNewlyCompleted ?X] => destruct (inc_own X) as (_&B1&_&B2); rewrite B1, B2 end.
    destruct (cancelledLocally (rr_st r)); auto. destruct (shutdown (rr_st r)); auto.
    destruct (errorRead (rr_st r) || cancelledRemotely (rr_st r)); simpl; auto.
  - inversion Hs; subst. intros He. simpl in *. auto.
Qed.

Lemma rsrun_EofInv ops : forall r r', EofInv r -> rsrun S r ops = Some r' -> EofInv r'.
Proof.
  induction ops as [|o ops IH]; intros r r' E Hs; simpl in Hs.
  - inversion Hs; subst. auto.
  - destruct (rstep S r o) as [r1|] eqn:E1; [|discriminate]. apply (IH r1 r'); auto. eapply rstep_EofInv; eauto.
Qed.

(** once io.EOF was read, nothing is queued, nothing is owed: every buffer handed to the
    sorter has been released exactly once *)
Theorem recv_all_released_at_eof w ops r : 0 <= w < MaxBC -> Forall rvalid ops -> NoDup (rop_cbs ops) ->
  rsrun S (rrun_init w) ops = Some r -> rr_eof r = true ->
  queue (sorter (rr_st r)) = [] /\ held (rr_st r) = [] /\
  Permutation (fired (sorter (rr_st r))) (rr_acc r) /\ NoDup (fired (sorter (rr_st r))).
Proof.
  intros Hw Hv Hnd Hs He.
  destruct (rsrun_RRInv S ops _ _ (RRInv_init S w Hw) Hv Hs) as [R _ Heof].
  destruct (Heof He) as (Hf&Hfin).
  assert (EI : EofInv r) by (eapply rsrun_EofInv; eauto; intros Hx; discriminate).
  destruct (EI He) as (Ec&El).
  destruct (recv_buffers_once w ops r Hw Hv Hnd Hs) as (P&N&_).
  pose proof (v_pos _ _ R) as Pp. pose proof (v_final _ _ R) as VF. rewrite Hf in VF.
  unfold crest in Pp. rewrite Ec in Pp.
  assert (Hq : queue (sorter (rr_st r)) = []).
  { destruct (queue (sorter (rr_st r))) as [|[k en] q] eqn:Eq; auto. exfalso.
    assert (Hin : In (k, en) (queue (sorter (rr_st r)))) by (rewrite Eq; simpl; auto).
    destruct (i_ent _ _ (v_inv _ _ R) _ _ Hin) as (Hk&Hl&_).
    assert (Hc : cov (queue (sorter (rr_st r))) k) by (exists k, en; split; auto; lia).
    apply (v_below _ _ R) in Hc. lia. }
  assert (Hh : held (rr_st r) = []) by (unfold held; rewrite El, Ec; reflexivity).
  rewrite Hq, Hh in P, N. simpl in P, N. rewrite app_nil_r in P, N. auto.
Qed.

(** * liveness of Peek at the end of the stream / after a reset *)
Lemma peekBody_end s1 n : RSInv S s1 -> RSInv2 s1 -> 0 < n -> remoteEffective s1 = false ->
  fc_final s1 = true -> finalOffset s1 < rpos s1 + n ->
  (forall x, rpos s1 <= x < finalOffset s1 -> x < rpos s1 + crest s1 \/ cov (queue (sorter s1)) x) ->
  (crest s1 = 0 -> ~ cov (queue (sorter s1)) (rpos s1)) ->
  exists d e, peekBody s1 n = (s1, d, e, false) /\ e <> EWouldBlock /\ (cancelledRemotely s1 = false -> e = EEOF).
Proof.
  intros R R2 Hn Hre Hf Hfin Hall Hnil. unfold peekBody.
  pose proof (v_pos _ _ R) as P. pose proof (v_rp_high _ _ R) as Q. pose proof (crest_nonneg S _ R) as Hc.
  pose proof (v_final _ _ R) as VF. rewrite Hf in VF.
  destruct ((match cur s1 with [] => false | _ => true end) && (rpif s1 <? len (cur s1))) eqn:Ecur.
  2:{ (* nothing unread in the current frame *)
    assert (Hc0 : crest s1 = 0).
    { apply andb_false_iff in Ecur. destruct Ecur as [E|E].
      - unfold crest. destruct (cur s1); [reflexivity|discriminate].
      - apply Z.ltb_ge in E. apply crest_zero with (S := S); auto. }
    assert (Hend : curIsLast s1 || (finalOffset s1 <=? rpos s1) = true).
    { destruct (curIsLast s1) eqn:El; auto. simpl. apply Z.leb_le.
      destruct (Z.le_gt_cases (finalOffset s1) (rpos s1)); auto. exfalso.
      destruct (Hall (rpos s1) ltac:(lia)) as [Hx|Hx]; [lia|]. exact (Hnil Hc0 Hx). }
    rewrite Hend. exists [], EEOF. split; auto. split; [discriminate|auto]. }
  apply andb_prop in Ecur as [E1 E2]. apply Z.ltb_lt in E2.
  assert (Hne : cur s1 <> []) by (destruct (cur s1); [discriminate|congruence]).
  pose proof (rest_slice S _ R Hne) as Hrest. pose proof (crest_nonnil _ Hne) as Hcr.
  cbv zeta. rewrite Hrest. rewrite <- Hcr.
  assert (Hcpos : 0 < crest s1) by lia.
  destruct (Z.leb_spec n (crest s1)); [lia|].
  destruct (Peek (sorter s1) (rpos s1 + crest s1) (n - crest s1)) as [d1|] eqn:EP1.
  { exfalso. destruct (Peek_spec S _ _ _ _ (v_inv _ _ R) EP1 ltac:(lia)) as (_&Hcov1).
    specialize (Hcov1 (finalOffset s1) ltac:(lia)). apply (v_below _ _ R) in Hcov1. lia. }
  destruct (curIsLast s1) eqn:El.
  { eexists; exists EEOF. split; [reflexivity|]. split; [discriminate|auto]. }
  destruct (cancelledRemotely s1 && (reliableSize s1 <? rpos s1 + n)) eqn:Ecr.
  { (* the reset's reliable size is reached first *)
    apply andb_prop in Ecr as [Ec1 Ec2]. apply Z.ltb_lt in Ec2.
    unfold remoteEffective in Hre. rewrite Ec1 in Hre. simpl in Hre. apply Z.leb_gt in Hre.
    pose proof (w_rel _ R2) as WR.
    destruct (Z.leb_spec (reliableSize s1 - rpos s1 - crest s1) 0).
    - eexists; exists (cancel_rerr s1). split; [reflexivity|]. split; [apply cancel_rerr_not_block|intros; congruence].
    - destruct (Peek_complete S (sorter s1) (reliableSize s1 - rpos s1 - crest s1) (v_inv _ _ R) ltac:(lia)) as (d3&Hd3).
      { intros x Hx. rewrite P in Hx. destruct (Hall x ltac:(lia)); [lia|auto]. }
      rewrite <- P. rewrite Hd3.
      eexists; exists (cancel_rerr s1). split; [reflexivity|]. split; [apply cancel_rerr_not_block|intros; congruence]. }
  destruct (Z.ltb_spec (finalOffset s1) (rpos s1 + n)); [|lia].
  destruct (Z.leb_spec (finalOffset s1 - rpos s1 - crest s1) 0).
  - eexists; exists EEOF. split; [reflexivity|]. split; [discriminate|auto].
  - destruct (Peek_complete S (sorter s1) (finalOffset s1 - rpos s1 - crest s1) (v_inv _ _ R) ltac:(lia)) as (d3&Hd3).
    { intros x Hx. rewrite P in Hx. destruct (Hall x ltac:(lia)); [lia|auto]. }
    rewrite <- P. rewrite Hd3.
    eexists; exists EEOF. split; [reflexivity|]. split; [discriminate|auto].
Qed.

(** Peek does not park when everything up to the final size is there and the request reaches
    beyond it: it returns the rest with io.EOF (or, after a reset, the reliable part with the reset error) *)
Theorem Peek_live_end s n s' d e bug : RSInv S s -> RSInv2 s -> 0 < n -> PeekS s n = (s', d, e, bug) ->
  latched s = false -> fc_final s = true -> finalOffset s < rpos s + n ->
  (forall x, rpos s <= x < finalOffset s -> x < rpos s + crest s \/ cov (queue (sorter s)) x) ->
  e <> EWouldBlock /\ (cancelledRemotely s = false -> e = EEOF /\ rpos s + len d = finalOffset s).
Proof.
  intros R R2 Hn H Hl Hf Hfin Hall.
  assert (Hn0 : 0 <= n) by lia.
  destruct (Peek_spec_stream S _ _ _ _ _ _ R Hn0 H) as (_&_&_&_&_&_&Heof).
  destruct (Peek_state S _ _ _ _ _ _ R H) as (_&_&_&_&Hfin').
  assert (Hcore : e <> EWouldBlock /\ (cancelledRemotely s = false -> e = EEOF)).
  { unfold PeekS in H. destruct (Z.leb_spec n 0); [lia|]. rewrite peekImpl_unfold in H.
    destruct (curIsLast s && _); [inversion H; subst; split; [discriminate|auto]|].
    unfold latched in Hl. apply orb_false_elim in Hl as [Hl Hre]. apply orb_false_elim in Hl as [Hsh Hcl].
    rewrite Hcl, Hre, Hsh in H. cbn [orb] in H.
    destruct ((match cur s with [] => true | _ => false end) || (len (cur s) <=? rpif s)) eqn:Edq.
    - assert (Hc0 : crest s = 0).
      { apply crest_zero with (S := S); auto. apply orb_prop in Edq. destruct Edq as [E|E]; [left; apply isnil_true; auto|right; apply Z.leb_le; auto]. }
      destruct (dequeue s) as [s2 b2] eqn:Ed.
      destruct (dequeue_spec S _ _ _ R Hc0 Ed) as (->&R1&D1&D2&D3&D4&D5&D6&D7&D8&D9&D10&D11&D12&D13&D14).
      destruct (dequeue_more _ _ _ R Hc0 Ed) as (M1&_).
      destruct (peekBody_end s2 n R1 (dequeue_RSInv2 _ _ _ R2 Ed) Hn) as (d2&e2&Hd2&He2&He3).
      + unfold remoteEffective in *. rewrite D5, D6, D1. exact Hre.
      + rewrite D9. exact Hf.
      + rewrite D8, D1. exact Hfin.
      + intros x Hx. rewrite D8, D1 in *. rewrite D3.
        destruct (Z.lt_ge_cases x (rpos s + len (cur s2))); [left; auto|right].
        destruct (Hall x Hx) as [Hy|Hy]; [lia|]. exact (dequeue_cov _ _ _ R Hc0 Ed x Hy H1).
      + intros Hc2 Hcov. rewrite D3 in Hc2. rewrite D1 in Hcov. apply D14 in Hcov.
        assert (Hne : cur s2 <> []) by (apply M1; auto). apply len_pos_nonnil in Hne. lia.
      + rewrite Hd2 in H. inversion H; subst. split; auto. rewrite <- D5. auto.
    - apply orb_false_elim in Edq. destruct Edq as [E1 E2]. apply isnil_false in E1. apply Z.leb_gt in E2.
      destruct (peekBody_end s n R R2 Hn Hre Hf Hfin Hall) as (d2&e2&Hd2&He2&He3).
      + intros Hc0. rewrite (crest_nonnil _ E1) in Hc0. lia.
      + rewrite Hd2 in H. inversion H; subst. split; auto. }
  destruct Hcore as (A&B). split; auto. intros Hcr. specialize (B Hcr). split; auto.
  rewrite <- Hfin'. apply Heof. exact B.
Qed.

Theorem recv_peek_live_end w ops r n s' d e bug : 0 <= w < MaxBC -> Forall rvalid ops ->
  rsrun S (rrun_init w) ops = Some r -> 0 < n -> PeekS (rr_st r) n = (s', d, e, bug) ->
  latched (rr_st r) = false -> fc_final (rr_st r) = true -> finalOffset (rr_st r) < rpos (rr_st r) + n ->
  (forall x, rpos (rr_st r) <= x < finalOffset (rr_st r) ->
     x < rpos (rr_st r) + crest (rr_st r) \/ cov (queue (sorter (rr_st r))) x) ->
  e <> EWouldBlock /\
  (cancelledRemotely (rr_st r) = false -> e = EEOF /\ rpos (rr_st r) + len d = finalOffset (rr_st r)).
Proof.
  intros Hw Hv Hs Hn HP. destruct (reach_both w ops r Hw Hv Hs) as (R&R2). eapply Peek_live_end; eauto.
Qed.

Lemma peekBody_reset s1 n : RSInv S s1 -> 0 < n -> remoteEffective s1 = false -> cancelledRemotely s1 = true ->
  reliableSize s1 < rpos s1 + n ->
  (forall x, rpos s1 <= x < reliableSize s1 -> x < rpos s1 + crest s1 \/ cov (queue (sorter s1)) x) ->
  (crest s1 = 0 -> ~ cov (queue (sorter s1)) (rpos s1)) ->
  exists d e, peekBody s1 n = (s1, d, e, false) /\ e <> EWouldBlock.
Proof.
  intros R Hn Hre Hcr Hrel Hall Hnil. unfold peekBody.
  pose proof (v_pos _ _ R) as P. pose proof (crest_nonneg S _ R) as Hc.
  pose proof Hre as Hre'. unfold remoteEffective in Hre'. rewrite Hcr in Hre'. simpl in Hre'. apply Z.leb_gt in Hre'.
  destruct ((match cur s1 with [] => false | _ => true end) && (rpif s1 <? len (cur s1))) eqn:Ecur.
  2:{ exfalso. assert (Hc0 : crest s1 = 0).
      { apply andb_false_iff in Ecur. destruct Ecur as [E|E].
        - unfold crest. destruct (cur s1); [reflexivity|discriminate].
        - apply Z.ltb_ge in E. apply crest_zero with (S := S); auto. }
      destruct (Hall (rpos s1) ltac:(lia)) as [Hx|Hx]; [lia|]. exact (Hnil Hc0 Hx). }
  apply andb_prop in Ecur as [E1 E2]. apply Z.ltb_lt in E2.
  assert (Hne : cur s1 <> []) by (destruct (cur s1); [discriminate|congruence]).
  pose proof (rest_slice S _ R Hne) as Hrest. pose proof (crest_nonnil _ Hne) as Hcrn.
  cbv zeta. rewrite Hrest. rewrite <- Hcrn.
  destruct (Z.leb_spec n (crest s1)).
  { eexists; exists ENil. split; [reflexivity|discriminate]. }
  destruct (Peek (sorter s1) (rpos s1 + crest s1) (n - crest s1)) as [d1|].
  { eexists; exists ENil. split; [reflexivity|discriminate]. }
  destruct (curIsLast s1).
  { eexists; exists EEOF. split; [reflexivity|discriminate]. }
  rewrite Hcr. destruct (Z.ltb_spec (reliableSize s1) (rpos s1 + n)); [|lia]. cbn [andb].
  destruct (Z.leb_spec (reliableSize s1 - rpos s1 - crest s1) 0).
  - eexists; exists (cancel_rerr s1). split; [reflexivity|apply cancel_rerr_not_block].
  - destruct (Peek_complete S (sorter s1) (reliableSize s1 - rpos s1 - crest s1) (v_inv _ _ R) ltac:(lia)) as (d3&Hd3).
    { intros x Hx. rewrite P in Hx. destruct (Hall x ltac:(lia)); [lia|auto]. }
    rewrite <- P. rewrite Hd3.
    eexists; exists (cancel_rerr s1). split; [reflexivity|apply cancel_rerr_not_block].
Qed.

(** after a reset, Peek does not park when everything below the reliable size is there and the
    request reaches beyond it *)
Theorem Peek_live_reset s n s' d e bug : RSInv S s -> 0 < n -> PeekS s n = (s', d, e, bug) ->
  latched s = false -> cancelledRemotely s = true -> reliableSize s < rpos s + n ->
  (forall x, rpos s <= x < reliableSize s -> x < rpos s + crest s \/ cov (queue (sorter s)) x) ->
  e <> EWouldBlock.
Proof.
  intros R Hn H Hl Hcr Hrel Hall.
  unfold PeekS in H. destruct (Z.leb_spec n 0); [lia|]. rewrite peekImpl_unfold in H.
  destruct (curIsLast s && _); [inversion H; subst; discriminate|].
  unfold latched in Hl. apply orb_false_elim in Hl as [Hl Hre]. apply orb_false_elim in Hl as [Hsh Hcl].
  rewrite Hcl, Hre, Hsh in H. cbn [orb] in H.
  destruct ((match cur s with [] => true | _ => false end) || (len (cur s) <=? rpif s)) eqn:Edq.
  - assert (Hc0 : crest s = 0).
    { apply crest_zero with (S := S); auto. apply orb_prop in Edq. destruct Edq as [E|E]; [left; apply isnil_true; auto|right; apply Z.leb_le; auto]. }
    destruct (dequeue s) as [s2 b2] eqn:Ed.
    destruct (dequeue_spec S _ _ _ R Hc0 Ed) as (->&R1&D1&D2&D3&D4&D5&D6&D7&D8&D9&D10&D11&D12&D13&D14).
    destruct (dequeue_more _ _ _ R Hc0 Ed) as (M1&_).
    destruct (peekBody_reset s2 n R1 Hn) as (d2&e2&Hd2&He2).
    + unfold remoteEffective in *. rewrite D5, D6, D1. exact Hre.
    + rewrite D5. exact Hcr.
    + rewrite D6, D1. exact Hrel.
    + intros x Hx. rewrite D6, D1 in *. rewrite D3.
      destruct (Z.lt_ge_cases x (rpos s + len (cur s2))); [left; auto|right].
      destruct (Hall x Hx) as [Hy|Hy]; [lia|]. exact (dequeue_cov _ _ _ R Hc0 Ed x Hy H1).
    + intros Hc2 Hcov. rewrite D3 in Hc2. rewrite D1 in Hcov. apply D14 in Hcov.
      assert (Hne : cur s2 <> []) by (apply M1; auto). apply len_pos_nonnil in Hne. lia.
    + rewrite Hd2 in H. inversion H; subst. auto.
  - apply orb_false_elim in Edq. destruct Edq as [E1 E2]. apply isnil_false in E1. apply Z.leb_gt in E2.
    destruct (peekBody_reset s n R Hn Hre Hcr Hrel Hall) as (d2&e2&Hd2&He2).
    + intros Hc0. rewrite (crest_nonnil _ E1) in Hc0. lia.
    + rewrite Hd2 in H. inversion H; subst. auto.
Qed.

Theorem recv_peek_live_reset w ops r n s' d e bug : 0 <= w < MaxBC -> Forall rvalid ops ->
  rsrun S (rrun_init w) ops = Some r -> 0 < n -> PeekS (rr_st r) n = (s', d, e, bug) ->
  latched (rr_st r) = false -> cancelledRemotely (rr_st r) = true -> reliableSize (rr_st r) < rpos (rr_st r) + n ->
  (forall x, rpos (rr_st r) <= x < reliableSize (rr_st r) ->
     x < rpos (rr_st r) + crest (rr_st r) \/ cov (queue (sorter (rr_st r))) x) ->
  e <> EWouldBlock.
Proof.
  intros Hw Hv Hs Hn HP. destruct (reach_both w ops r Hw Hv Hs) as (R&R2). eapply Peek_live_reset; eauto.
Qed.

(** * a history of the stream fails only with a genuine transport error *)
Lemma fcUpdate_classes s offset final s1 e : fcUpdate s offset final = (s1, e) ->
  e = FNil \/ e = FFinalSize \/ e = FFlowControl.
Proof.
  unfold fcUpdate. intros Ef.
  repeat match type of Ef with context [if ?c then _ else _] => destruct c end; inversion Ef; auto.
Qed.

Lemma frame_err_class s off n fin cb s' e : RSInv S s -> 0 <= off -> 0 <= n ->
  handleStreamFrame s (slice S off n) off fin cb = (s', e) ->
  e = FNil \/ e = FFinalSize \/ e = FFlowControl \/
  (e = FSorter /\ MaxGaps < Z.of_nat (length (gaps (sorter s')))).
Proof.
  intros R H0 Hn H. unfold handleStreamFrame in H. rewrite len_slice in H by lia.
  destruct (fcUpdate s (off + n) fin) as [s1 e1] eqn:Ef.
  destruct (fcUpdate_classes _ _ _ _ _ Ef) as [->|[->| ->]]; [|inversion H; auto|inversion H; auto].
  destruct (fcUpdate_ok _ _ _ _ Ef) as (A1&_&_&_&_&_&_&A8&_&_&_&_&_&A14&_&_).
  set (s2 := if fin then set_final s1 (off + n) else s1) in *.
  assert (B : sorter s2 = sorter s) by (unfold s2; destruct fin; simpl; auto).
  destruct (cancelledLocally s2); [inversion H; auto|].
  destruct (Push (sorter s2) (slice S off n) off cb) as [q rr] eqn:EP. rewrite B in EP.
  pose proof (v_win _ _ R) as VW.
  assert (Hmax : off + n < MaxBC).
  { destruct (Z.le_gt_cases (off + n) (fc_highest s)); [lia|]. specialize (A14 ltac:(lia)). lia. }
  destruct (Push_post S _ _ _ _ _ _ (v_inv _ _ R) H0 Hn Hmax EP) as ([->| ->]&_); inversion H; subst; simpl; auto.
  right. right. right. split; auto.
  destruct (inc_own (set_sorter s2 q)) as (->&_). simpl.
  exact (push_refused_count S _ _ _ _ _ (v_inv _ _ R) H0 Hn Hmax EP).
Qed.

Lemma reset_err_class s final reliable code s' e : handleResetStreamFrame s final reliable code = (s', e) ->
  e = FNil \/ e = FFinalSize \/ e = FFlowControl.
Proof.
  unfold handleResetStreamFrame. intros H. destruct (shutdown s); [inversion H; auto|].
  destruct (fcUpdate s final true) as [s1 e1] eqn:Ef.
  destruct (fcUpdate_classes _ _ _ _ _ Ef) as [->|[->| ->]]; [|inversion H; auto|inversion H; auto].
  revert H. repeat match goal with |- context [if ?c then _ else _] => destruct c end; intros H; inversion H; auto.
Qed.

(* what a failing step is *)
Definition transport_error (r : rrun) (o : rop) : Prop :=
  match o with
  | ROFrame off n fin cb => exists s' e, handleStreamFrame (rr_st r) (slice S off n) off fin cb = (s', e) /\
      (e = FFinalSize \/ e = FFlowControl \/ (e = FSorter /\ MaxGaps < Z.of_nat (length (gaps (sorter s')))))
  | ROReset final reliable code => exists s' e, handleResetStreamFrame (rr_st r) final reliable code = (s', e) /\
      (e = FFinalSize \/ e = FFlowControl)
  | _ => False
  end.

Lemma rstep_none r o : RRInv S r -> rvalid o -> rstep S r o = None -> transport_error r o.
Proof.
  intros [R _ _] Hv Hs. destruct o as [off n fin cb|final reliable code|n|n|code|]; simpl in *.
  - destruct Hv as (V1&V2).
    destruct (handleStreamFrame (rr_st r) (slice S off n) off fin cb) as [s' e] eqn:EH.
    exists s', e. split; auto.
    destruct (frame_err_class _ _ _ _ _ _ _ R V1 V2 EH) as [->|[->|[->|(->&Hc)]]]; auto. discriminate.
  - destruct (handleResetStreamFrame (rr_st r) final reliable code) as [s' e] eqn:EH.
    exists s', e. split; auto. destruct (reset_err_class _ _ _ _ _ _ EH) as [->|[->| ->]]; auto. discriminate.
  - destruct (Read (rr_st r) n) as [[[s' d] e] bug] eqn:ER.
    destruct (Read_spec S _ _ _ _ _ _ R Hv ER) as (->&_). discriminate.
  - destruct (PeekS (rr_st r) n) as [[[s' d] e] bug] eqn:EP.
    destruct (Peek_state S _ _ _ _ _ _ R EP) as (->&_). discriminate.
  - discriminate.
  - discriminate.
Qed.

(** the model's Bug values (sorter panics, fuel) are unreachable from the stream: a history fails
    only at a STREAM frame rejected with FINAL_SIZE_ERROR / FLOW_CONTROL_ERROR / the sorter's gap
    limit (more than MaxStreamFrameSorterGaps gaps), or at a RESET_STREAM(_AT) rejected with
    FINAL_SIZE_ERROR / FLOW_CONTROL_ERROR *)
Theorem recv_fails_only_on_transport_error w ops : 0 <= w < MaxBC -> Forall rvalid ops ->
  rsrun S (rrun_init w) ops = None ->
  exists pre o rest r, ops = pre ++ o :: rest /\ rsrun S (rrun_init w) pre = Some r /\ transport_error r o.
Proof.
  intros Hw Hv. assert (G : forall r0, RRInv S r0 -> rsrun S r0 ops = None ->
    exists pre o rest r, ops = pre ++ o :: rest /\ rsrun S r0 pre = Some r /\ transport_error r o).
  { induction ops as [|o ops IH]; intros r0 R Hs; simpl in Hs; [discriminate|].
    inversion Hv; subst. destruct (rstep S r0 o) as [r1|] eqn:E1.
    - destruct (IH H2 _ (rstep_RRInv S _ _ _ R H1 E1) Hs) as (pre&o'&rest&r&A&B&C).
      exists (o :: pre), o', rest, r. simpl. rewrite E1. subst ops. auto.
    - exists [], o, ops, r0. simpl. split; auto. split; auto. eapply rstep_none; eauto. }
  apply G. apply RRInv_init. exact Hw.
Qed.

End WithS.
