(** cryptoStreamManager (crypto_stream_manager.go): CRYPTO frames are routed by encryption level
    to three independent crypto streams. Model + correspondence glue for the cryptomgr unit. *)
From Coq Require Import List ZArith Bool String.
From V Require Import Gen.Params Lib.Hex FrameSorter.Model FrameSorter.InvCheck RecvStream.Model RecvStream.Spec.
From V Require Export RecvStream.CryptoRun.
Import ListNotations.
Open Scope Z_scope.

(* levels: 0 Initial, 1 Handshake, 2 1-RTT, anything else: 0-RTT *)
Record cmgr := { m_ini : cstream; m_hs : cstream; m_one : cstream }.
Definition cmgr_init : cmgr := {| m_ini := cs_init; m_hs := cs_init; m_one := cs_init |}.

Definition mget (m : cmgr) (l : Z) : option cstream :=
  if l =? 0 then Some (m_ini m) else if l =? 1 then Some (m_hs m) else if l =? 2 then Some (m_one m) else None.
Definition mset (m : cmgr) (l : Z) (c : cstream) : cmgr :=
  if l =? 0 then {| m_ini := c; m_hs := m_hs m; m_one := m_one m |}
  else if l =? 1 then {| m_ini := m_ini m; m_hs := c; m_one := m_one m |}
  else {| m_ini := m_ini m; m_hs := m_hs m; m_one := c |}.

(* each level has its own byte string *)
Definition lbyte (l : Z) (x : Z) : Z := sbyte (x + 7919 * l).

Inductive mop := MFrame (l off n : Z) | MGet (l : Z) | MDrop (l : Z).
Inductive case := MCase (ops : list (mop * obs)).

(* the manager proper, for an arbitrary byte string per level; result: state, error, data
   returned by GetCryptoData, and a flag for the paths on which the code panics.
   CUnexpectedLevel: "received CRYPTO frame with unexpected encryption level" *)
Inductive merr := MErr (e : cerr) | MUnexpectedLevel.

Definition mcore (Sf : Z -> Z -> Z) (m : cmgr) (o : mop) : cmgr * merr * list Z * bool :=
  match o with
  | MFrame l off n =>
    match mget m l with
    | None => (m, MUnexpectedLevel, [], false)
    | Some c => let '(c', e) := HandleCryptoFrame c (slice (Sf l) off n) off in (mset m l c', MErr e, [], false)
    end
  | MGet l =>
    match mget m l with
    | None => (m, MErr CNil, [], true)
    | Some c => let '(c', d, bug) := GetCryptoData c in (mset m l c', MErr CNil, d, bug)
    end
  | MDrop l =>
    if (l =? 0) || (l =? 1) then
      match mget m l with
      | Some c => let '(c', e) := Finish c in (mset m l c', MErr e, [], false)
      | None => (m, MErr CNil, [], true)
      end
    else (m, MErr CNil, [], true)
  end.

(* COut 4 0 0: unexpected encryption level *)
Definition mstep (m : cmgr) (o : mop) : cmgr * obs :=
  let '(m', e, d, bug) := mcore lbyte m o in
  (m', if bug then CBugO else
       match e with
       | MUnexpectedLevel => COut 4 0 0
       | MErr CNil => match o with MGet _ => COut 0 (len d) (bhash d) | _ => COut 0 0 0 end
       | MErr e' => cerr_code e'
       end).

Definition level_ok (m : cmgr) : bool :=
  inv_ok (lbyte 0) (c_sorter (m_ini m)) && inv_ok (lbyte 1) (c_sorter (m_hs m)) && inv_ok (lbyte 2) (c_sorter (m_one m)).

Fixpoint run (m : cmgr) (l : list (mop * obs)) : bool :=
  match l with
  | [] => true
  | (o, want) :: r =>
    let '(m', got) := mstep m o in
    obs_eqb got want && (match got with COut 3 _ _ => true | _ => level_ok m' end) && run m' r
  end.
Fixpoint run_obs (m : cmgr) (l : list (mop * obs)) : list obs :=
  match l with [] => [] | (o, _) :: r => let '(m', got) := mstep m o in got :: run_obs m' r end.

Definition model_obs (c : case) : list obs := match c with MCase l => run_obs cmgr_init l end.
Definition check_case (c : case) : bool := match c with MCase l => run cmgr_init l end.

(** histories of the manager with the ghost log of what GetCryptoData returned per level *)
Record mrun := { mr_m : cmgr; mr_o0 : list Z; mr_o1 : list Z; mr_o2 : list Z }.
Definition mrun_init : mrun := {| mr_m := cmgr_init; mr_o0 := []; mr_o1 := []; mr_o2 := [] |}.

Definition mrstep (Sf : Z -> Z -> Z) (r : mrun) (o : mop) : option mrun :=
  let '(m', e, d, bug) := mcore Sf (mr_m r) o in
  if bug then None else
  match e with
  | MErr CNil =>
    Some (match o with
          | MGet l =>
            if l =? 0 then {| mr_m := m'; mr_o0 := mr_o0 r ++ d; mr_o1 := mr_o1 r; mr_o2 := mr_o2 r |}
            else if l =? 1 then {| mr_m := m'; mr_o0 := mr_o0 r; mr_o1 := mr_o1 r ++ d; mr_o2 := mr_o2 r |}
            else {| mr_m := m'; mr_o0 := mr_o0 r; mr_o1 := mr_o1 r; mr_o2 := mr_o2 r ++ d |}
          | _ => {| mr_m := m'; mr_o0 := mr_o0 r; mr_o1 := mr_o1 r; mr_o2 := mr_o2 r |}
          end)
  | _ => None
  end.
Fixpoint mrsrun (Sf : Z -> Z -> Z) (r : mrun) (ops : list mop) : option mrun :=
  match ops with
  | [] => Some r
  | o :: t => match mrstep Sf r o with Some r' => mrsrun Sf r' t | None => None end
  end.
Definition mvalid (o : mop) : Prop := match o with MFrame _ off n => 0 <= off /\ 0 <= n | _ => True end.
