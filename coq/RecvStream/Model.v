(** Models of /repo/receive_stream.go (ReceiveStream over the frame sorter, with the slice of
    the stream flow controller that decides final-size and flow-control errors:
    internal/flowcontrol/stream_flow_controller.go UpdateHighestReceived) and of
    /repo/crypto_stream.go (baseCryptoStream receive side). Executable definitions only.

    Blocking: every Read/Peek of the correspondence runs has a deadline in the (virtual) future;
    a call that would park returns errDeadline — result class [EWouldBlock]. *)
From Coq Require Import List ZArith Lia Bool.
From V Require Import Gen.Params FrameSorter.Model.
Import ListNotations.
Open Scope Z_scope.

Definition MaxCrypto : Z := FS_MaxCryptoStreamOffset.

(** * ReceiveStream *)

Inductive rerr :=
| ENil | EEOF | ECancel (code : Z) (remote : bool) | EShutdown | EWouldBlock.

Inductive ferr := FNil | FFinalSize | FFlowControl | FSorter (* too many gaps *) | FBug.

Record rstream := {
  sorter : st;                      (* frameQueue; its [fired] log also records currentFrameDone calls *)
  finalOffset : Z;                  (* MaxByteCount = unknown *)
  cur : list Z;                     (* currentFrame; [] = nil *)
  curDone : option Z;               (* currentFrameDone *)
  rpif : Z;                         (* readPosInFrame *)
  curIsLast : bool;
  errorRead : bool; completed : bool;
  cancelledRemotely : bool; cancelledLocally : bool;
  cancelErr : option (Z * bool);    (* (error code, remote) *)
  shutdown : bool;                  (* closeForShutdownErr != nil *)
  rpos : Z;                         (* readPos *)
  reliableSize : Z;
  fc_highest : Z; fc_final : bool; fc_window : Z;   (* stream flow controller *)
  ncompleted : Z                    (* calls of sender.onStreamCompleted *)
}.

Definition rs_init (window : Z) : rstream :=
  {| sorter := init; finalOffset := MaxBC; cur := []; curDone := None; rpif := 0; curIsLast := false;
     errorRead := false; completed := false; cancelledRemotely := false; cancelledLocally := false;
     cancelErr := None; shutdown := false; rpos := 0; reliableSize := 0;
     fc_highest := 0; fc_final := false; fc_window := window; ncompleted := 0 |}.

(* record update helpers *)
Definition set_sorter (s : rstream) (q : st) : rstream :=
  {| sorter := q; finalOffset := finalOffset s; cur := cur s; curDone := curDone s; rpif := rpif s; curIsLast := curIsLast s;
     errorRead := errorRead s; completed := completed s; cancelledRemotely := cancelledRemotely s;
     cancelledLocally := cancelledLocally s; cancelErr := cancelErr s; shutdown := shutdown s; rpos := rpos s;
     reliableSize := reliableSize s; fc_highest := fc_highest s; fc_final := fc_final s; fc_window := fc_window s;
     ncompleted := ncompleted s |}.
Definition set_final (s : rstream) (f : Z) : rstream :=
  {| sorter := sorter s; finalOffset := f; cur := cur s; curDone := curDone s; rpif := rpif s; curIsLast := curIsLast s;
     errorRead := errorRead s; completed := completed s; cancelledRemotely := cancelledRemotely s;
     cancelledLocally := cancelledLocally s; cancelErr := cancelErr s; shutdown := shutdown s; rpos := rpos s;
     reliableSize := reliableSize s; fc_highest := fc_highest s; fc_final := fc_final s; fc_window := fc_window s;
     ncompleted := ncompleted s |}.
Definition set_frame (s : rstream) (q : st) (c : list Z) (cd : option Z) (p : Z) (l : bool) : rstream :=
  {| sorter := q; finalOffset := finalOffset s; cur := c; curDone := cd; rpif := p; curIsLast := l;
     errorRead := errorRead s; completed := completed s; cancelledRemotely := cancelledRemotely s;
     cancelledLocally := cancelledLocally s; cancelErr := cancelErr s; shutdown := shutdown s; rpos := rpos s;
     reliableSize := reliableSize s; fc_highest := fc_highest s; fc_final := fc_final s; fc_window := fc_window s;
     ncompleted := ncompleted s |}.
Definition set_errorRead (s : rstream) : rstream :=
  {| sorter := sorter s; finalOffset := finalOffset s; cur := cur s; curDone := curDone s; rpif := rpif s; curIsLast := curIsLast s;
     errorRead := true; completed := completed s; cancelledRemotely := cancelledRemotely s;
     cancelledLocally := cancelledLocally s; cancelErr := cancelErr s; shutdown := shutdown s; rpos := rpos s;
     reliableSize := reliableSize s; fc_highest := fc_highest s; fc_final := fc_final s; fc_window := fc_window s;
     ncompleted := ncompleted s |}.
Definition set_completed (s : rstream) : rstream :=
  {| sorter := sorter s; finalOffset := finalOffset s; cur := cur s; curDone := curDone s; rpif := rpif s; curIsLast := curIsLast s;
     errorRead := errorRead s; completed := true; cancelledRemotely := cancelledRemotely s;
     cancelledLocally := cancelledLocally s; cancelErr := cancelErr s; shutdown := shutdown s; rpos := rpos s;
     reliableSize := reliableSize s; fc_highest := fc_highest s; fc_final := fc_final s; fc_window := fc_window s;
     ncompleted := ncompleted s + 1 |}.
Definition set_cancel (s : rstream) (remote local : bool) (ce : option (Z * bool)) : rstream :=
  {| sorter := sorter s; finalOffset := finalOffset s; cur := cur s; curDone := curDone s; rpif := rpif s; curIsLast := curIsLast s;
     errorRead := errorRead s; completed := completed s; cancelledRemotely := remote;
     cancelledLocally := local; cancelErr := ce; shutdown := shutdown s; rpos := rpos s;
     reliableSize := reliableSize s; fc_highest := fc_highest s; fc_final := fc_final s; fc_window := fc_window s;
     ncompleted := ncompleted s |}.
Definition set_shutdown (s : rstream) : rstream :=
  {| sorter := sorter s; finalOffset := finalOffset s; cur := cur s; curDone := curDone s; rpif := rpif s; curIsLast := curIsLast s;
     errorRead := errorRead s; completed := completed s; cancelledRemotely := cancelledRemotely s;
     cancelledLocally := cancelledLocally s; cancelErr := cancelErr s; shutdown := true; rpos := rpos s;
     reliableSize := reliableSize s; fc_highest := fc_highest s; fc_final := fc_final s; fc_window := fc_window s;
     ncompleted := ncompleted s |}.
Definition set_read (s : rstream) (p rp : Z) : rstream :=
  {| sorter := sorter s; finalOffset := finalOffset s; cur := cur s; curDone := curDone s; rpif := p; curIsLast := curIsLast s;
     errorRead := errorRead s; completed := completed s; cancelledRemotely := cancelledRemotely s;
     cancelledLocally := cancelledLocally s; cancelErr := cancelErr s; shutdown := shutdown s; rpos := rp;
     reliableSize := reliableSize s; fc_highest := fc_highest s; fc_final := fc_final s; fc_window := fc_window s;
     ncompleted := ncompleted s |}.
Definition set_reliable (s : rstream) (r : Z) : rstream :=
  {| sorter := sorter s; finalOffset := finalOffset s; cur := cur s; curDone := curDone s; rpif := rpif s; curIsLast := curIsLast s;
     errorRead := errorRead s; completed := completed s; cancelledRemotely := cancelledRemotely s;
     cancelledLocally := cancelledLocally s; cancelErr := cancelErr s; shutdown := shutdown s; rpos := rpos s;
     reliableSize := r; fc_highest := fc_highest s; fc_final := fc_final s; fc_window := fc_window s;
     ncompleted := ncompleted s |}.
Definition set_fc (s : rstream) (h : Z) (f : bool) : rstream :=
  {| sorter := sorter s; finalOffset := finalOffset s; cur := cur s; curDone := curDone s; rpif := rpif s; curIsLast := curIsLast s;
     errorRead := errorRead s; completed := completed s; cancelledRemotely := cancelledRemotely s;
     cancelledLocally := cancelledLocally s; cancelErr := cancelErr s; shutdown := shutdown s; rpos := rpos s;
     reliableSize := reliableSize s; fc_highest := h; fc_final := f; fc_window := fc_window s;
     ncompleted := ncompleted s |}.

Definition cancel_rerr (s : rstream) : rerr :=
  match cancelErr s with Some (c, r) => ECancel c r | None => ECancel (-1) false end.

(* streamFlowController.UpdateHighestReceived (the connection-level window is not modelled:
   the harness gives the connection flow controller an unreachable window) *)
Definition fcUpdate (s : rstream) (offset : Z) (final : bool) : rstream * ferr :=
  if fc_final s && final && negb (offset =? fc_highest s) then (s, FFinalSize) else
  if fc_final s && (fc_highest s <? offset) then (s, FFinalSize) else
  let s1 := set_fc s (fc_highest s) (fc_final s || final) in
  if offset =? fc_highest s then (s1, FNil) else
  if offset <? fc_highest s then (if final then (s1, FFinalSize) else (s1, FNil)) else
  let s2 := set_fc s1 offset (fc_final s1) in
  if fc_window s <? offset then (s2, FFlowControl) else (s2, FNil).

Definition remoteEffective (s : rstream) : bool := cancelledRemotely s && (reliableSize s <=? rpos s).

Definition isNewlyCompleted (s : rstream) : rstream :=
  if completed s then s else
  if finalOffset s =? MaxBC then s else
  if cancelledLocally s then set_completed s else
  if errorRead s then set_completed s else s.

Definition fire_done (q : st) (cb : option Z) : st :=
  {| gaps := gaps q; queue := queue q; readPos := readPos q; fired := fire (fired q) cb |}.

(* dequeueNextFrame; the bool is the sorter's panic flag *)
Definition dequeue (s : rstream) : rstream * bool :=
  let q0 := fire_done (sorter s) (curDone s) in
  let '(q1, (off, d, cb), bug) := Pop q0 in
  (set_frame s q1 d cb 0 ((finalOffset s <=? off + len d) && negb (cancelledRemotely s)), bug).

(* the body of the outer loop of readImpl; [acc] = bytes copied so far (reversed chunks are
   avoided: we append). Result: (state, bytes, err, bug) *)
Fixpoint readLoop (fuel : nat) (s : rstream) (n : Z) (acc : list Z) : rstream * list Z * rerr * bool :=
  match fuel with
  | O => (s, acc, ENil, true)
  | S fuel' =>
    if n <=? len acc then
      (if remoteEffective s then (set_errorRead s, acc, cancel_rerr s, false) else (s, acc, ENil, false))
    else
    let '(s1, bug) := if (match cur s with [] => true | _ => false end) || (len (cur s) <=? rpif s)
                      then dequeue s else (s, false) in
    if bug then (s1, acc, ENil, true) else
    if (match cur s1 with [] => true | _ => false end) && (0 <? len acc) then
      (s1, acc, (if shutdown s1 then EShutdown else ENil), false)
    else if shutdown s1 then (s1, acc, EShutdown, false)
    else if cancelledLocally s1 || remoteEffective s1 then (set_errorRead s1, acc, cancel_rerr s1, false)
    else if negb (match cur s1 with [] => false | _ => true end || curIsLast s1) then (s1, acc, EWouldBlock, false)
    else
    let avail := dskip (rpif s1) (cur s1) in
    let chunk := dtake (n - len acc) avail in
    let m := len chunk in
    let s2 := set_read s1 (rpif s1 + m) (rpos s1 + m) in
    let acc' := acc ++ chunk in
    if (len (cur s2) <=? rpif s2) && curIsLast s2 then
      (set_errorRead (set_frame s2 (fire_done (sorter s2) (curDone s2)) [] (curDone s2) (rpif s2) (curIsLast s2)),
       acc', EEOF, false)
    else readLoop fuel' s2 n acc'
  end.

Definition readImpl (s : rstream) (n : Z) : rstream * list Z * rerr * bool :=
  if curIsLast s && (match cur s with [] => true | _ => false end) then (set_errorRead s, [], EEOF, false) else
  if cancelledLocally s || remoteEffective s then (set_errorRead s, [], cancel_rerr s, false) else
  if shutdown s then (s, [], EShutdown, false) else
  readLoop (S (S (length (queue (sorter s))))) s n [].

Definition Read (s : rstream) (n : Z) : rstream * list Z * rerr * bool :=
  let '(s1, d, e, bug) := readImpl s n in (isNewlyCompleted s1, d, e, bug).

(* peekImpl, one pass (a second pass only happens after parking) *)
Definition peekImpl (s : rstream) (n : Z) : rstream * list Z * rerr * bool :=
  if curIsLast s && (match cur s with [] => true | _ => false end) then (s, [], EEOF, false) else
  if cancelledLocally s || remoteEffective s then (s, [], cancel_rerr s, false) else
  if shutdown s then (s, [], EShutdown, false) else
  let '(s1, bug) := if (match cur s with [] => true | _ => false end) || (len (cur s) <=? rpif s)
                    then dequeue s else (s, false) in
  if bug then (s1, [], ENil, true) else
  let tailr := if curIsLast s1 || (finalOffset s1 <=? rpos s1) then (s1, [], EEOF, false) else (s1, [], EWouldBlock, false) in
  if (match cur s1 with [] => false | _ => true end) && (rpif s1 <? len (cur s1)) then
    let avail := len (cur s1) - rpif s1 in
    let rest := dskip (rpif s1) (cur s1) in
    if n <=? avail then (s1, dtake n rest, ENil, false) else
    let offset := rpos s1 + avail in
    match Peek (sorter s1) offset (n - avail) with
    | Some d => (s1, rest ++ d, ENil, false)
    | None =>
      if curIsLast s1 then (s1, rest, EEOF, false) else
      let viaReset :=
        if cancelledRemotely s1 && (reliableSize s1 <? rpos s1 + n) then
          let total := reliableSize s1 - rpos s1 in
          let needed := total - avail in
          if needed <=? 0 then Some (dtake total rest)
          else match Peek (sorter s1) offset needed with Some d => Some (rest ++ d) | None => None end
        else None in
      match viaReset with
      | Some d => (s1, d, cancel_rerr s1, false)
      | None =>
        let viaFin :=
          if finalOffset s1 <? rpos s1 + n then
            let total := finalOffset s1 - rpos s1 in
            let needed := total - avail in
            if needed <=? 0 then Some (dtake total rest)
            else match Peek (sorter s1) offset needed with Some d => Some (rest ++ d) | None => None end
          else None in
        match viaFin with
        | Some d => (s1, d, EEOF, false)
        | None => tailr
        end
      end
    end
  else tailr.

Definition PeekS (s : rstream) (n : Z) : rstream * list Z * rerr * bool :=
  if n <=? 0 then (s, [], ENil, false) else peekImpl s n.

Definition CancelRead (s : rstream) (code : Z) : rstream :=
  let s1 :=
    if cancelledLocally s then s else
    if shutdown s then s else
    if errorRead s || cancelledRemotely s then set_cancel s (cancelledRemotely s) true (cancelErr s)
    else set_cancel s (cancelledRemotely s) true (Some (code, false)) in
  isNewlyCompleted s1.

Definition CloseForShutdown (s : rstream) : rstream := set_shutdown s.

Definition sorter_ferr (r : res) : ferr :=
  match r with Ok => FNil | TooManyGaps => FSorter | _ => FBug end.

Definition handleStreamFrame (s : rstream) (data : list Z) (off : Z) (fin : bool) (cb : option Z) : rstream * ferr :=
  let maxOffset := off + len data in
  let '(s1, e) := fcUpdate s maxOffset fin in
  let '(s2, e2) :=
    match e with
    | FNil =>
      let s1 := if fin then set_final s1 maxOffset else s1 in
      if cancelledLocally s1 then (s1, FNil) else
      let '(q, r) := Push (sorter s1) data off cb in
      (set_sorter s1 q, sorter_ferr r)
    | _ => (s1, e)
    end in
  (isNewlyCompleted s2, e2).

Definition handleResetStreamFrame (s : rstream) (final reliable code : Z) : rstream * ferr :=
  let '(s2, e2) :=
    if shutdown s then (s, FNil) else
    let '(s1, e) := fcUpdate s final true in
    match e with
    | FNil =>
      let s1 := set_final s1 final in
      let s1 := if (negb (cancelledRemotely s1) && (reliableSize s1 =? 0)) || (reliable <? reliableSize s1)
                then set_reliable s1 reliable else s1 in
      if cancelledRemotely s1 then (s1, FNil) else
      if cancelledLocally s1 then (s1, FNil) else
      (set_cancel s1 true (cancelledLocally s1) (Some (code, true)), FNil)
    | _ => (s1, e)
    end in
  (isNewlyCompleted s2, e2).

(** * baseCryptoStream (receive side) *)

Inductive cerr := CNil | CBufferExceeded | CProtocolViolation | CSorter | CBug.

Record cstream := { c_sorter : st; c_highest : Z; c_finished : bool }.
Definition cs_init : cstream := {| c_sorter := init; c_highest := 0; c_finished := false |}.

Definition HandleCryptoFrame (s : cstream) (data : list Z) (off : Z) : cstream * cerr :=
  let highest := off + len data in
  if MaxCrypto <? highest then (s, CBufferExceeded) else
  if c_finished s then
    (if c_highest s <? highest then (s, CProtocolViolation) else (s, CNil))
  else
  let '(q, r) := Push (c_sorter s) data off None in
  ({| c_sorter := q; c_highest := Z.max (c_highest s) highest; c_finished := false |},
   match r with Ok => CNil | TooManyGaps => CSorter | _ => CBug end).

Definition GetCryptoData (s : cstream) : cstream * list Z * bool :=
  let '(q, (_, d, _), bug) := Pop (c_sorter s) in
  ({| c_sorter := q; c_highest := c_highest s; c_finished := c_finished s |}, d, bug).

Definition Finish (s : cstream) : cstream * cerr :=
  if HasMoreData (c_sorter s) then (s, CProtocolViolation)
  else ({| c_sorter := c_sorter s; c_highest := c_highest s; c_finished := true |}, CNil).
