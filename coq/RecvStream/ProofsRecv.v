(** ReceiveStream: invariant, exact reads, EOF exactly at the final size, rejections. *)
From Coq Require Import List ZArith Lia Bool Permutation.
From V Require Import Gen.Params Lib.Hex FrameSorter.Model FrameSorter.InvCheck FrameSorter.Spec
  FrameSorter.ProofsBase FrameSorter.ProofsPop FrameSorter.ProofsPeek FrameSorter.ProofsRun
  RecvStream.Model RecvStream.Spec.
Import ListNotations.
Open Scope Z_scope.

(* unread rest of the current frame *)
Definition crest (s : rstream) : Z := match cur s with [] => 0 | _ => len (cur s) - rpif s end.

Lemma dtake_all m d : len d <= m -> dtake m d = d.
Proof. intros. unfold dtake. apply firstn_all2. unfold len in *. lia. Qed.
Lemma len_pos_nonnil (d : list Z) : d <> [] -> 0 < len d.
Proof. destruct d; [congruence|]. unfold len. simpl. lia. Qed.
Lemma nonnil_dec (d : list Z) : {d = []} + {d <> []}.
Proof. destruct d; [left; reflexivity|right; discriminate]. Qed.
Lemma isnil_true (d : list Z) : (match d with [] => true | _ => false end) = true <-> d = [].
Proof. destruct d; split; congruence. Qed.
Lemma isnil_false (d : list Z) : (match d with [] => true | _ => false end) = false <-> d <> [].
Proof. destruct d; split; congruence. Qed.
Lemma notnil_b (d : list Z) : (match d with [] => false | _ => true end) = negb (match d with [] => true | _ => false end).
Proof. destruct d; reflexivity. Qed.

Section WithS.
Variable S : Z -> Z.

Record RSInv (s : rstream) : Prop := {
  v_inv : Inv S (sorter s);
  v_pos : readPos (sorter s) = rpos s + crest s;
  v_rpos : 0 <= rpos s;
  v_cur : cur s <> [] -> 0 <= rpif s <= len (cur s) /\
          cur s = slice S (readPos (sorter s) - len (cur s)) (len (cur s));
  v_below : forall x, cov (queue (sorter s)) x -> x < fc_highest s;
  v_rp_high : readPos (sorter s) <= fc_highest s;
  v_final : if fc_final s then finalOffset s = fc_highest s else finalOffset s = MaxBC;
  v_win : 0 <= fc_highest s <= fc_window s /\ fc_window s < MaxBC;
  v_last : curIsLast s = true -> finalOffset s <= readPos (sorter s)
}.

Lemma RSInv_init w : 0 <= w < MaxBC -> RSInv (rs_init w).
Proof.
  intros Hw. constructor; simpl; unfold crest; simpl; try lia; auto;
    try apply init_Inv; try congruence; try discriminate.
  intros x (k&e&[]&_).
Qed.

Lemma RSInv_fields s s' : RSInv s ->
  sorter s' = sorter s -> rpos s' = rpos s -> cur s' = cur s -> rpif s' = rpif s ->
  curIsLast s' = curIsLast s -> fc_highest s' = fc_highest s -> fc_final s' = fc_final s ->
  fc_window s' = fc_window s -> finalOffset s' = finalOffset s -> RSInv s'.
Proof.
  intros [A B C D E F G H I] E1 E2 E3 E4 E5 E6 E7 E8 E9.
  constructor; unfold crest in *; rewrite ?E1, ?E2, ?E3, ?E4, ?E5, ?E6, ?E7, ?E8, ?E9; auto.
Qed.

Lemma isNewlyCompleted_fields s :
  let s' := isNewlyCompleted s in
  sorter s' = sorter s /\ rpos s' = rpos s /\ cur s' = cur s /\ rpif s' = rpif s /\
  curIsLast s' = curIsLast s /\ fc_highest s' = fc_highest s /\ fc_final s' = fc_final s /\
  fc_window s' = fc_window s /\ finalOffset s' = finalOffset s /\ errorRead s' = errorRead s /\
  cancelledLocally s' = cancelledLocally s /\ cancelledRemotely s' = cancelledRemotely s /\
  reliableSize s' = reliableSize s /\ shutdown s' = shutdown s.
Proof using.
  unfold isNewlyCompleted. cbv zeta.
  destruct (completed s); [repeat split|].
  destruct (finalOffset s =? MaxBC); [repeat split|].
  destruct (cancelledLocally s) eqn:E1; [repeat split; simpl; auto|].
  destruct (errorRead s) eqn:E2; repeat split; simpl; auto.
Qed.

Lemma RSInv_completed s : RSInv s -> RSInv (isNewlyCompleted s).
Proof.
  intros R. destruct (isNewlyCompleted_fields s) as (A&B&C&D&E&F&G&H&I&_).
  eapply RSInv_fields; eauto.
Qed.

(* a known final size coincides with the highest offset; nothing is "last" before that *)
Lemma RSInv_last s : RSInv s -> curIsLast s = true ->
  fc_final s = true /\ readPos (sorter s) = finalOffset s.
Proof.
  intros [A B C D E F G H I] Hl. specialize (I Hl). destruct (fc_final s); [split; auto; lia|lia].
Qed.

(** * the flow controller's verdict *)
Lemma fcUpdate_ok s offset final s1 : fcUpdate s offset final = (s1, FNil) ->
  sorter s1 = sorter s /\ rpos s1 = rpos s /\ cur s1 = cur s /\ rpif s1 = rpif s /\
  curIsLast s1 = curIsLast s /\ fc_window s1 = fc_window s /\ finalOffset s1 = finalOffset s /\
  cancelledLocally s1 = cancelledLocally s /\ cancelledRemotely s1 = cancelledRemotely s /\
  reliableSize s1 = reliableSize s /\ shutdown s1 = shutdown s /\
  fc_highest s1 = Z.max (fc_highest s) offset /\ fc_final s1 = (fc_final s || final) /\
  (fc_highest s < offset -> offset <= fc_window s) /\
  (final = true -> fc_highest s1 = offset) /\
  (fc_final s = true -> fc_highest s1 = fc_highest s).
Proof using.
  unfold fcUpdate. intros H.
  destruct (fc_final s) eqn:Ff; destruct final; cbn [andb orb negb] in H;
    repeat match type of H with
    | context [?a =? ?b] => destruct (Z.eqb_spec a b); cbn [andb orb negb] in H
    | context [?a <? ?b] => destruct (Z.ltb_spec a b); cbn [andb orb negb] in H
    end; try discriminate; inversion H; subst; simpl; repeat split; try lia; auto; try (intros; lia).
Qed.

(** rejections: the error class, and that nothing the reader can observe changes *)
Lemma fcUpdate_beyond_final s offset final : fc_final s = true -> fc_highest s < offset ->
  fcUpdate s offset final = (s, FFinalSize).
Proof using.
  intros Hf Hlt. unfold fcUpdate. rewrite Hf. destruct final; cbn [andb].
  - destruct (Z.eqb_spec offset (fc_highest s)); [lia|reflexivity].
  - destruct (Z.ltb_spec (fc_highest s) offset); [reflexivity|lia].
Qed.
Lemma fcUpdate_other_final s offset : fc_final s = true -> offset <> fc_highest s ->
  fcUpdate s offset true = (s, FFinalSize).
Proof using.
  intros Hf Hne. unfold fcUpdate. rewrite Hf. cbn [andb].
  destruct (Z.eqb_spec offset (fc_highest s)); [lia|reflexivity].
Qed.
Lemma fcUpdate_final_below s offset : fc_final s = false -> offset < fc_highest s ->
  snd (fcUpdate s offset true) = FFinalSize.
Proof using.
  intros Hf Hlt. unfold fcUpdate. rewrite Hf. cbn [andb orb].
  destruct (Z.eqb_spec offset (fc_highest s)); [lia|].
  destruct (Z.ltb_spec offset (fc_highest s)); [reflexivity|lia].
Qed.
Lemma fcUpdate_window s offset final : fc_final s = false -> fc_highest s < offset -> fc_window s < offset ->
  snd (fcUpdate s offset final) = FFlowControl.
Proof using.
  intros Hf Hlt Hw. unfold fcUpdate. rewrite Hf. cbn [andb orb].
  destruct (Z.eqb_spec offset (fc_highest s)); [lia|].
  destruct (Z.ltb_spec offset (fc_highest s)); [lia|].
  destruct (Z.ltb_spec (fc_window s) offset); [reflexivity|lia].
Qed.

Lemma handleStreamFrame_rejected s data off fin cb s' e :
  handleStreamFrame s data off fin cb = (s', e) ->
  snd (fcUpdate s (off + len data) fin) <> FNil ->
  e = snd (fcUpdate s (off + len data) fin) /\ sorter s' = sorter s /\ rpos s' = rpos s /\
  cur s' = cur s /\ rpif s' = rpif s /\ finalOffset s' = finalOffset s.
Proof using.
  unfold handleStreamFrame. intros H Hne.
  destruct (fcUpdate s (off + len data) fin) as [s1 e1] eqn:Ef. simpl in Hne.
  assert (Hs1 : sorter s1 = sorter s /\ rpos s1 = rpos s /\ cur s1 = cur s /\ rpif s1 = rpif s /\ finalOffset s1 = finalOffset s).
  { unfold fcUpdate in Ef.
    repeat match type of Ef with
    | context [if ?c then _ else _] => destruct c
    end; inversion Ef; subst; simpl; auto. }
  destruct e1; try congruence; inversion H; subst;
    destruct (isNewlyCompleted_fields s1) as (A&B&C&D&_&_&_&_&I&_); simpl;
    destruct Hs1 as (H1&H2&H3&H4&H5); (split; [reflexivity|]); repeat split; congruence.
Qed.

Lemma Inv_fire_done q cb : Inv S q -> Inv S (fire_done q cb).
Proof. intros [A B C D E F G H]. constructor; simpl; auto. Qed.

(** * frames, resets, cancellation, shutdown preserve the invariant *)
Lemma handleStreamFrame_RSInv s off n fin cb s' :
  RSInv s -> 0 <= off -> 0 <= n ->
  handleStreamFrame s (slice S off n) off fin cb = (s', FNil) ->
  RSInv s' /\ rpos s' = rpos s.
Proof.
  intros R H0 Hn H. unfold handleStreamFrame in H. rewrite len_slice in H by lia.
  destruct (fcUpdate s (off + n) fin) as [s1 e1] eqn:Ef.
  destruct e1; try (inversion H; discriminate).
  destruct (fcUpdate_ok _ _ _ _ Ef) as (A1&A2&A3&A4&A5&A6&A7&A8&A9&A10&A11&A12&A13&A14&A15&A16).
  destruct R as [V1 V2 V3 V4 V5 V6 V7 V8 V9].
  (* the state after the flow controller and the final-offset update *)
  set (s2 := if fin then set_final s1 (off + n) else s1) in *.
  assert (R2 : RSInv s2 /\ sorter s2 = sorter s /\ rpos s2 = rpos s /\ fc_highest s2 = Z.max (fc_highest s) (off + n)
               /\ cancelledLocally s2 = cancelledLocally s).
  { assert (Hlast : curIsLast s = true -> fc_final s = true).
    { intros Hl. specialize (V9 Hl). destruct (fc_final s); auto. lia. }
    split; [|unfold s2; destruct fin; simpl; auto].
    constructor; unfold crest, s2; destruct fin; simpl; rewrite ?A1, ?A2, ?A3, ?A4, ?A5, ?A6, ?A7, ?A12, ?A13; auto; try lia.
    - intros x Hx. apply V5 in Hx. lia.
    - intros x Hx. apply V5 in Hx. lia.
    - rewrite orb_true_r. specialize (A15 eq_refl). lia.
    - rewrite orb_false_r. destruct (fc_final s) eqn:Ff; [specialize (A16 eq_refl); lia|auto].
    - intros Hl. specialize (Hlast Hl). rewrite Hlast in V7. specialize (V9 Hl).
      specialize (A15 eq_refl). specialize (A16 Hlast). lia. }
  destruct R2 as (R2&B1&B2&B3&B4).
  destruct (cancelledLocally s2) eqn:Ec.
  - inversion H; subst. split; [apply RSInv_completed; auto|].
    destruct (isNewlyCompleted_fields s2) as (_&->&_). auto.
  - destruct (Push (sorter s2) (slice S off n) off cb) as [q r] eqn:EP.
    destruct R2 as [W1 W2 W3 W4 W5 W6 W7 W8 W9].
    assert (Hmax : off + n < MaxBC).
    { destruct (Z.le_gt_cases (off + n) (fc_highest s)); [lia|]. specialize (A14 ltac:(lia)). lia. }
    destruct (Push_post S _ _ _ _ _ _ W1 H0 Hn Hmax EP) as (Hres&Hok).
    destruct r; simpl in H; try (inversion H; discriminate).
    destruct (Hok eq_refl) as (I'&Hrp&Hcov&_).
    assert (E' : s' = isNewlyCompleted (set_sorter s2 q)) by (inversion H; reflexivity).
    subst s'. split.
    + apply RSInv_completed. constructor; unfold crest in *; simpl; rewrite ?Hrp; auto.
      intros x Hx. apply Hcov in Hx. destruct Hx as [Hx|Hx]; [apply W5 in Hx; auto|lia].
    + destruct (isNewlyCompleted_fields (set_sorter s2 q)) as (_&->&_). simpl. auto.
Qed.

Lemma handleReset_RSInv s final reliable code s' :
  RSInv s -> 0 <= final ->
  handleResetStreamFrame s final reliable code = (s', FNil) ->
  RSInv s' /\ rpos s' = rpos s /\ sorter s' = sorter s.
Proof.
  intros R H0 H. unfold handleResetStreamFrame in H.
  destruct (shutdown s).
  { inversion H; subst. destruct (isNewlyCompleted_fields s) as (A&B&_). split; [apply RSInv_completed; auto|auto]. }
  destruct (fcUpdate s final true) as [s1 e1] eqn:Ef.
  destruct e1; try (inversion H; discriminate).
  destruct (fcUpdate_ok _ _ _ _ Ef) as (A1&A2&A3&A4&A5&A6&A7&A8&A9&A10&A11&A12&A13&A14&A15&A16).
  destruct R as [V1 V2 V3 V4 V5 V6 V7 V8 V9].
  assert (Hlast : curIsLast s = true -> fc_final s = true).
  { intros Hl. specialize (V9 Hl). destruct (fc_final s); auto. lia. }
  assert (Hgen : forall s2, sorter s2 = sorter s1 -> rpos s2 = rpos s1 -> cur s2 = cur s1 -> rpif s2 = rpif s1 ->
     curIsLast s2 = curIsLast s1 -> fc_highest s2 = fc_highest s1 -> fc_final s2 = fc_final s1 ->
     fc_window s2 = fc_window s1 -> finalOffset s2 = final -> RSInv s2).
  { intros s2 E1 E2 E3 E4 E5 E6 E7 E8 E9.
    constructor; unfold crest; rewrite ?E1, ?E2, ?E3, ?E4, ?E5, ?E6, ?E7, ?E8, ?E9, ?A1, ?A2, ?A3, ?A4, ?A5, ?A6, ?A12, ?A13; auto; try lia.
    - intros x Hx. apply V5 in Hx. lia.
    - rewrite orb_true_r. specialize (A15 eq_refl). lia.
    - intros Hl. specialize (Hlast Hl). rewrite Hlast in V7. specialize (V9 Hl).
      specialize (A16 Hlast). specialize (A15 eq_refl). lia. }
  match type of H with (let '(_, _) := ?X in _) = _ => destruct X as [s2 e2] eqn:E2 end.
  assert (Hs2 : e2 = FNil /\ RSInv s2 /\ rpos s2 = rpos s /\ sorter s2 = sorter s).
  { repeat match type of E2 with
    | context [if ?c then _ else _] => destruct c
    end; inversion E2; subst; (split; [reflexivity|]); (split; [apply Hgen; simpl; auto|simpl; auto]). }
  destruct Hs2 as (->&R2&B1&B2). inversion H; subst.
  destruct (isNewlyCompleted_fields s2) as (C1&C2&_).
  split; [apply RSInv_completed; auto|]. rewrite C1, C2. auto.
Qed.

Lemma CancelRead_RSInv s code : RSInv s ->
  RSInv (CancelRead s code) /\ rpos (CancelRead s code) = rpos s /\ sorter (CancelRead s code) = sorter s /\
  cancelledLocally (CancelRead s code) = (cancelledLocally s || negb (shutdown s)).
Proof.
  intros R. unfold CancelRead.
  match goal with |- context [isNewlyCompleted ?X] => set (s1 := X) end.
  assert (H1 : RSInv s1 /\ rpos s1 = rpos s /\ sorter s1 = sorter s /\
               cancelledLocally s1 = (cancelledLocally s || negb (shutdown s))).
  { unfold s1. destruct (cancelledLocally s) eqn:E1; [auto|].
    destruct (shutdown s) eqn:E2; [auto|].
    destruct (errorRead s || cancelledRemotely s); simpl;
      (split; [eapply RSInv_fields; eauto|auto]). }
  destruct H1 as (R1&B1&B2&B3).
  destruct (isNewlyCompleted_fields s1) as (C1&C2&_&_&_&_&_&_&_&_&C3&_).
  split; [apply RSInv_completed; auto|]. rewrite C1, C2, C3. auto.
Qed.

Lemma Shutdown_RSInv s : RSInv s -> RSInv (CloseForShutdown s).
Proof. intros R. eapply RSInv_fields; eauto. Qed.

(** * dequeueNextFrame *)
Definition mu (s : rstream) : nat := (length (queue (sorter s)) + (if Z.ltb 0 (crest s) then 1 else 0))%nat.

Lemma crest_zero s : RSInv s -> (cur s = [] \/ len (cur s) <= rpif s) -> crest s = 0.
Proof.
  intros R [H|H]; unfold crest; [rewrite H; reflexivity|].
  destruct (nonnil_dec (cur s)) as [E|E]; [rewrite E; reflexivity|].
  destruct (v_cur _ R E) as ((A&B)&_). destruct (cur s); [congruence|]. lia.
Qed.

Lemma dequeue_spec s s1 bug : RSInv s -> crest s = 0 -> dequeue s = (s1, bug) ->
  bug = false /\ RSInv s1 /\ rpos s1 = rpos s /\ rpif s1 = 0 /\ crest s1 = len (cur s1) /\
  cancelledLocally s1 = cancelledLocally s /\ cancelledRemotely s1 = cancelledRemotely s /\
  reliableSize s1 = reliableSize s /\ shutdown s1 = shutdown s /\ finalOffset s1 = finalOffset s /\
  fc_final s1 = fc_final s /\ fc_highest s1 = fc_highest s /\ cancelErr s1 = cancelErr s /\
  (cur s1 = [] -> mu s1 = length (queue (sorter s))) /\
  (cur s1 <> [] -> mu s1 = length (queue (sorter s))) /\
  (forall x, cov (queue (sorter s1)) x -> cov (queue (sorter s)) x).
Proof.
  intros R Hc H. unfold dequeue in H.
  destruct R as [V1 V2 V3 V4 V5 V6 V7 V8 V9].
  pose proof (Inv_fire_done _ (curDone s) V1) as I0.
  destruct (Pop (fire_done (sorter s) (curDone s))) as [[q1 [[off d] cb]] b] eqn:EP.
  destruct (sorter_refines_pop S _ _ _ _ _ _ I0 EP) as (Hb&Hoff&Hd&Hpos&Hrp&Hcov).
  destruct (Pop_preserves S _ _ _ _ _ _ I0 EP) as (I1&_).
  simpl in Hoff, Hd, Hpos, Hrp, Hcov. inversion H; subst s1 bug; clear H. subst b.
  assert (Hcr : crest (set_frame s q1 d cb 0 ((finalOffset s <=? off + len d) && negb (cancelledRemotely s))) = len d).
  { unfold crest. simpl. destruct d; [reflexivity|lia]. }
  split; [reflexivity|]. split; [|split; [reflexivity|split; [reflexivity|split; [exact Hcr|]]]].
  - constructor; try rewrite Hcr; simpl; auto; try lia.
    + intros Hne. split; [pose proof (len_nonneg d); lia|]. rewrite Hrp.
      replace (readPos (sorter s) + len d - len d) with (readPos (sorter s)) by lia. exact Hd.
    + intros x Hx. apply Hcov in Hx. apply V5. tauto.
    + rewrite Hrp. destruct (Z.eq_dec (len d) 0) as [E|E]; [lia|].
      assert (Hp : 0 < len d) by (pose proof (len_nonneg d); lia).
      apply Hpos in Hp. destruct Hp as (k&en&Hin&Hk).
      destruct (i_ent _ _ V1 _ _ Hin) as (Hk1&_).
      assert (k = readPos (sorter s)) by lia. subst k.
      assert (Een : d = e_data en).
      { unfold Pop in EP. simpl in EP. rewrite (In_qget _ _ _ (i_keys _ _ V1) Hin) in EP. inversion EP; auto. }
      assert (Hc' : cov (queue (sorter s)) (readPos (sorter s) + len d - 1)).
      { exists (readPos (sorter s)), en. split; auto. unfold elen. rewrite <- Een.
        pose proof (len_nonneg d). lia. }
      apply V5 in Hc'. lia.
  - simpl. repeat split; auto.
    + intros Hd0. unfold mu. rewrite Hcr. simpl. subst d. rewrite len_nil. simpl.
      unfold Pop in EP. simpl in EP.
      destruct (qget (queue (sorter s)) (readPos (sorter s))) as [en|] eqn:E; inversion EP; subst; simpl; [|lia].
      exfalso. apply qget_In in E. destruct (i_ent _ _ V1 _ _ E) as (_&Hl&_). unfold elen in Hl.
      destruct (e_data en); [unfold len in Hl; simpl in Hl; lia|discriminate].
    + intros Hd0. unfold mu. rewrite Hcr. simpl.
      pose proof (len_pos_nonnil _ Hd0) as Hl. destruct (Z.ltb_spec 0 (len d)); [|lia].
      unfold Pop in EP. simpl in EP.
      destruct (qget (queue (sorter s)) (readPos (sorter s))) as [en|] eqn:E; inversion EP; subst; simpl.
      * apply qdel_length in E. lia.
      * congruence.
    + intros x Hx. apply Hcov in Hx. tauto.
Qed.

(** * Read *)
Lemma RSInv_set_errorRead s : RSInv s -> RSInv (set_errorRead s).
Proof. intros R. eapply RSInv_fields; eauto. Qed.

Lemma crest_nonnil s : cur s <> [] -> crest s = len (cur s) - rpif s.
Proof. unfold crest. destruct (cur s); congruence. Qed.

Lemma read_chunk s k : RSInv s -> cur s <> [] -> 0 < crest s -> 0 < k ->
  dtake k (dskip (rpif s) (cur s)) = slice S (rpos s) (Z.min k (crest s)).
Proof.
  intros R Hne Hc Hk. destruct (v_cur _ R Hne) as ((A&B)&C).
  rewrite (crest_nonnil _ Hne) in *. pose proof (v_pos _ R) as P. rewrite (crest_nonnil _ Hne) in P.
  remember (len (cur s)) as L eqn:EL. rewrite C. rewrite dskip_slice by lia.
  replace (readPos (sorter s) - L + rpif s) with (rpos s) by lia.
  destruct (Z.le_gt_cases k (L - rpif s)).
  - rewrite dtake_slice by lia. f_equal. lia.
  - rewrite dtake_all by (rewrite len_slice; lia). f_equal. lia.
Qed.

Lemma RSInv_set_read s m : RSInv s -> cur s <> [] -> 0 <= m <= crest s ->
  RSInv (set_read s (rpif s + m) (rpos s + m)) /\ crest (set_read s (rpif s + m) (rpos s + m)) = crest s - m.
Proof.
  intros R Hne Hm. rewrite (crest_nonnil _ Hne) in Hm.
  assert (Hc : crest (set_read s (rpif s + m) (rpos s + m)) = crest s - m).
  { rewrite (crest_nonnil _ Hne). unfold crest. simpl. destruct (cur s); [congruence|]. lia. }
  split; auto. destruct R as [V1 V2 V3 V4 V5 V6 V7 V8 V9].
  constructor; try rewrite Hc; simpl; auto; try lia.
  intros Hn. destruct (V4 Hn) as ((A&B)&C). split; auto. lia.
Qed.

Lemma eof_state s : RSInv s -> crest s = 0 -> curIsLast s = true ->
  let sf := set_errorRead (set_frame s (fire_done (sorter s) (curDone s)) [] (curDone s) (rpif s) (curIsLast s)) in
  RSInv sf /\ rpos sf = rpos s /\ fc_final sf = true /\ rpos sf = finalOffset sf.
Proof.
  intros R Hc Hl sf. destruct (RSInv_last _ R Hl) as (Hf&Hrp).
  destruct R as [V1 V2 V3 V4 V5 V6 V7 V8 V9].
  split; [|split; [reflexivity|split; [exact Hf|]]].
  - constructor; unfold sf, crest; simpl; auto; try lia.
    + apply Inv_fire_done; auto.
    + congruence.
  - unfold sf. simpl. lia.
Qed.

Lemma cancel_rerr_not_eof s : cancel_rerr s <> EEOF.
Proof. unfold cancel_rerr. destruct (cancelErr s) as [[c r]|]; discriminate. Qed.

(* one round of the outer loop of readImpl after the (possible) dequeue *)
Definition readBody (rec : rstream -> Z -> list Z -> rstream * list Z * rerr * bool)
  (s1 : rstream) (n : Z) (acc : list Z) : rstream * list Z * rerr * bool :=
    if (match cur s1 with [] => true | _ => false end) && (0 <? len acc) then
      (s1, acc, (if shutdown s1 then EShutdown else ENil), false)
    else if shutdown s1 then (s1, acc, EShutdown, false)
    else if cancelledLocally s1 || remoteEffective s1 then (set_errorRead s1, acc, cancel_rerr s1, false)
    else if negb (match cur s1 with [] => false | _ => true end || curIsLast s1) then (s1, acc, EWouldBlock, false)
    else
    let avail := dskip (rpif s1) (cur s1) in
    let chunk := dtake (n - len acc) avail in
    let m := len chunk in
    let s2 := set_read s1 (rpif s1 + m) (rpos s1 + m) in
    let acc' := acc ++ chunk in
    if (len (cur s2) <=? rpif s2) && curIsLast s2 then
      (set_errorRead (set_frame s2 (fire_done (sorter s2) (curDone s2)) [] (curDone s2) (rpif s2) (curIsLast s2)),
       acc', EEOF, false)
    else rec s2 n acc'.

Lemma readLoop_unfold fuel s n acc :
  readLoop (Datatypes.S fuel) s n acc =
    if n <=? len acc then
      (if remoteEffective s then (set_errorRead s, acc, cancel_rerr s, false) else (s, acc, ENil, false))
    else
    let '(s1, bug) := if (match cur s with [] => true | _ => false end) || (len (cur s) <=? rpif s)
                      then dequeue s else (s, false) in
    if bug then (s1, acc, ENil, true) else readBody (readLoop fuel) s1 n acc.
Proof. reflexivity. Qed.

Definition ReadPost (r0 n : Z) (acc : list Z) (out : rstream * list Z * rerr * bool) : Prop :=
  let '(s', d, e, bug) := out in
  bug = false /\ RSInv s' /\ d = slice S r0 (len d) /\ rpos s' = r0 + len d /\
  len acc <= len d /\ len d <= Z.max n (len acc) /\
  (e = EEOF -> fc_final s' = true /\ rpos s' = finalOffset s').

Lemma readBody_spec (rec : rstream -> Z -> list Z -> rstream * list Z * rerr * bool) (fuel : nat)
  (IH : forall s n acc r0, RSInv s -> 0 <= r0 -> acc = slice S r0 (len acc) -> rpos s = r0 + len acc ->
        ((mu s < fuel)%nat \/ (n <= len acc /\ (0 < fuel)%nat)) -> ReadPost r0 n acc (rec s n acc))
  s1 n acc r0 :
  RSInv s1 -> 0 <= r0 -> acc = slice S r0 (len acc) -> rpos s1 = r0 + len acc -> len acc < n ->
  (mu s1 <= fuel)%nat -> (cur s1 = [] -> rpif s1 = 0) -> (cur s1 <> [] -> 0 < crest s1) ->
  ReadPost r0 n acc (readBody rec s1 n acc).
Proof.
  intros R H0 Hacc Hrp Hn Hmu Hnil Hcr. unfold readBody.
  pose proof (len_nonneg acc) as Hla.
  destruct ((match cur s1 with [] => true | _ => false end) && (0 <? len acc)) eqn:EA.
  { unfold ReadPost. split; auto. split; auto. split; auto. split; auto. split; [lia|]. split; [lia|].
    destruct (shutdown s1); discriminate. }
  destruct (shutdown s1) eqn:Esh.
  { unfold ReadPost. split; auto. split; auto. split; auto. split; auto. split; [lia|]. split; [lia|]. discriminate. }
  destruct (cancelledLocally s1 || remoteEffective s1) eqn:Ecn.
  { unfold ReadPost. split; auto. split; [apply RSInv_set_errorRead; auto|]. split; auto. split; auto.
    split; [lia|]. split; [lia|]. intros He. exfalso. eapply cancel_rerr_not_eof; eauto. }
  destruct (negb (match cur s1 with [] => false | _ => true end || curIsLast s1)) eqn:Ewb.
  { unfold ReadPost. split; auto. split; auto. split; auto. split; auto. split; [lia|]. split; [lia|]. discriminate. }
  apply negb_false_iff in Ewb.
  cbv zeta.
  destruct (nonnil_dec (cur s1)) as [Ec|Ec].
  - (* nothing left, but the final offset is reached: EOF *)
    rewrite Ec in Ewb. simpl in Ewb.
    assert (Hacc0 : len acc = 0).
    { rewrite Ec in EA. simpl in EA. apply Z.ltb_ge in EA. lia. }
    rewrite Ec. unfold dskip, dtake. rewrite skipn_nil, firstn_nil. rewrite len_nil.
    rewrite !Z.add_0_r.
    assert (Hs2 : set_read s1 (rpif s1) (rpos s1) = s1) by (destruct s1; reflexivity).
    rewrite Hs2. rewrite Ec. rewrite len_nil. rewrite (Hnil Ec). simpl. rewrite Ewb.
    assert (Hc0 : crest s1 = 0) by (unfold crest; rewrite Ec; reflexivity).
    destruct (eof_state s1 R Hc0 Ewb) as (F1&F2&F3&F4).
    rewrite (Hnil Ec) in *. rewrite Ec in *.
    rewrite Ewb in F1, F2, F3, F4.
    unfold ReadPost. rewrite app_nil_r. split; auto. split; [exact F1|]. split; auto. split; [rewrite F2; exact Hrp|].
    split; [lia|]. split; [lia|]. intros _. split; auto.
  - specialize (Hcr Ec).
    rewrite (read_chunk s1 (n - len acc) R Ec Hcr) by lia.
    set (m := Z.min (n - len acc) (crest s1)).
    rewrite len_slice by lia.
    destruct (RSInv_set_read s1 m R Ec ltac:(lia)) as (R2&Hc2).
    set (s2 := set_read s1 (rpif s1 + m) (rpos s1 + m)) in *.
    assert (Hacc' : acc ++ slice S (rpos s1) m = slice S r0 (len (acc ++ slice S (rpos s1) m))).
    { rewrite len_app, len_slice by lia. rewrite slice_app by lia. rewrite <- Hacc. rewrite Hrp. reflexivity. }
    assert (Hlen' : len (acc ++ slice S (rpos s1) m) = len acc + m) by (rewrite len_app, len_slice; lia).
    assert (Hrp2 : rpos s2 = r0 + len (acc ++ slice S (rpos s1) m)) by (unfold s2; simpl; lia).
    assert (Hcur2 : cur s2 = cur s1) by reflexivity.
    assert (Hex : (len (cur s2) <=? rpif s2) = (crest s2 <=? 0)).
    { rewrite (crest_nonnil s2) by (rewrite Hcur2; auto). destruct (Z.leb_spec (len (cur s2)) (rpif s2)); destruct (Z.leb_spec (len (cur s2) - rpif s2) 0); auto; lia. }
    rewrite Hex.
    destruct ((crest s2 <=? 0) && curIsLast s2) eqn:Eeof.
    + apply andb_prop in Eeof as [E1 E2]. apply Z.leb_le in E1.
      assert (Hc0 : crest s2 = 0) by lia.
      destruct (eof_state s2 R2 Hc0 E2) as (F1&F2&F3&F4).
      unfold ReadPost. split; auto. split; [exact F1|]. split; [exact Hacc'|]. split; [rewrite F2; exact Hrp2|].
      split; [lia|]. split; [lia|]. intros _. split; auto.
    + assert (Hpost : ReadPost r0 n (acc ++ slice S (rpos s1) m) (rec s2 n (acc ++ slice S (rpos s1) m))).
      { apply IH; auto.
        destruct (Z.eq_dec m (crest s1)) as [Em|Em].
        - left. unfold mu in *. rewrite Hc2. replace (crest s1 - m) with 0 by lia. simpl.
          destruct (Z.ltb_spec 0 (crest s1)); [|lia].
          replace (sorter s2) with (sorter s1) by reflexivity. lia.
        - right. split; [lia|]. unfold mu in Hmu. destruct (Z.ltb_spec 0 (crest s1)); lia. }
      unfold ReadPost in *. destruct (rec s2 n (acc ++ slice S (rpos s1) m)) as [[[sx dx] ex] bx].
      destruct Hpost as (P1&P2&P3&P4&P5&P6&P7).
      split; [exact P1|]. split; [exact P2|]. split; [exact P3|]. split; [exact P4|].
      split; [lia|]. split; [lia|]. exact P7.
Qed.

Lemma readLoop_spec : forall fuel s n acc r0,
  RSInv s -> 0 <= r0 -> acc = slice S r0 (len acc) -> rpos s = r0 + len acc ->
  ((mu s < fuel)%nat \/ (n <= len acc /\ (0 < fuel)%nat)) ->
  ReadPost r0 n acc (readLoop fuel s n acc).
Proof.
  induction fuel as [|fuel IH]; intros s n acc r0 R H0 Hacc Hrp Hfuel.
  { destruct Hfuel as [Hf|[_ Hf]]; lia. }
  rewrite readLoop_unfold. pose proof (len_nonneg acc) as Hla.
  destruct (Z.leb_spec n (len acc)) as [Hn|Hn].
  { destruct (remoteEffective s); unfold ReadPost.
    - split; auto. split; [apply RSInv_set_errorRead; auto|]. split; auto. split; auto.
      split; [lia|]. split; [lia|]. intros He. exfalso. eapply cancel_rerr_not_eof; eauto.
    - split; auto. split; auto. split; auto. split; auto. split; [lia|]. split; [lia|]. discriminate. }
  destruct Hfuel as [Hfuel|[Hfuel _]]; [|lia].
  destruct ((match cur s with [] => true | _ => false end) || (len (cur s) <=? rpif s)) eqn:Edq.
  - assert (Hc0 : crest s = 0).
    { apply crest_zero; auto. apply orb_prop in Edq. destruct Edq as [E|E]; [left; apply isnil_true; auto|right; apply Z.leb_le; auto]. }
    destruct (dequeue s) as [s1 b1] eqn:Ed.
    destruct (dequeue_spec _ _ _ R Hc0 Ed) as (->&R1&D1&D2&D3&D4&D5&D6&D7&D8&D9&D10&D11&D12&D13&D14).
    apply (readBody_spec (readLoop fuel) fuel IH); auto; try lia.
    + unfold mu in Hfuel. rewrite Hc0 in Hfuel. simpl in Hfuel.
      destruct (nonnil_dec (cur s1)) as [E|E]; [rewrite (D12 E)|rewrite (D13 E)]; lia.
    + intros Hne. rewrite D3. apply len_pos_nonnil; auto.
  - apply orb_false_elim in Edq. destruct Edq as [E1 E2]. apply isnil_false in E1. apply Z.leb_gt in E2.
    apply (readBody_spec (readLoop fuel) fuel IH); auto; try lia.
    + congruence.
    + intros _. rewrite (crest_nonnil _ E1). lia.
Qed.

Lemma Read_spec s n s' d e bug : RSInv s -> 0 <= n -> Read s n = (s', d, e, bug) ->
  bug = false /\ RSInv s' /\ d = slice S (rpos s) (len d) /\ rpos s' = rpos s + len d /\ len d <= n /\
  (e = EEOF -> fc_final s' = true /\ rpos s' = finalOffset s').
Proof.
  intros R Hn H. unfold Read in H.
  destruct (readImpl s n) as [[[s1 d1] e1] b1] eqn:ER. inversion H; subst; clear H.
  assert (Hcore : bug = false /\ RSInv s1 /\ d = slice S (rpos s) (len d) /\ rpos s1 = rpos s + len d /\ len d <= n /\
                  (e = EEOF -> fc_final s1 = true /\ rpos s1 = finalOffset s1)).
  { unfold readImpl in ER.
    destruct (curIsLast s && (match cur s with [] => true | _ => false end)) eqn:E1.
    { apply andb_prop in E1 as [El Ec]. apply isnil_true in Ec.
      assert (Hc0 : crest s = 0) by (unfold crest; rewrite Ec; reflexivity).
      destruct (RSInv_last _ R El) as (Hf&Hrp). pose proof (v_pos _ R) as Hp.
      inversion ER; subst. split; auto. split; [apply RSInv_set_errorRead; auto|].
      split; [reflexivity|]. rewrite len_nil. split; [simpl; lia|]. split; [lia|].
      intros _. simpl. split; auto. lia. }
    destruct (cancelledLocally s || remoteEffective s).
    { inversion ER; subst. split; auto. split; [apply RSInv_set_errorRead; auto|].
      split; [reflexivity|]. rewrite len_nil. split; [simpl; lia|]. split; [lia|].
      intros He. exfalso. eapply cancel_rerr_not_eof; eauto. }
    destruct (shutdown s).
    { inversion ER; subst. split; auto. split; auto. split; [reflexivity|]. rewrite len_nil.
      split; [lia|]. split; [lia|]. discriminate. }
    pose proof (readLoop_spec (Datatypes.S (Datatypes.S (length (queue (sorter s))))) s n [] (rpos s) R (v_rpos _ R)) as HL.
    rewrite len_nil in HL. specialize (HL eq_refl ltac:(lia)).
    assert (Hmu : (mu s < Datatypes.S (Datatypes.S (length (queue (sorter s)))))%nat).
    { unfold mu. destruct (0 <? crest s); lia. }
    specialize (HL (or_introl Hmu)). rewrite ER in HL. unfold ReadPost in HL.
    destruct HL as (P1&P2&P3&P4&P5&P6&P7). change (len (@nil Z)) with 0 in *.
    split; auto. split; auto. split; auto. split; auto. split; [lia|auto]. }
  destruct Hcore as (C1&C2&C3&C4&C5&C6).
  destruct (isNewlyCompleted_fields s1) as (A&B&_&_&_&_&G&_&I&_).
  split; auto. split; [apply RSInv_completed; auto|]. split; auto. split; [rewrite B; auto|]. split; auto.
  rewrite G, B, I. exact C6.
Qed.

Lemma Peek_state s n s' d e bug : RSInv s -> PeekS s n = (s', d, e, bug) ->
  bug = false /\ RSInv s' /\ rpos s' = rpos s /\ fc_final s' = fc_final s /\ finalOffset s' = finalOffset s.
Proof.
  intros R H. unfold PeekS in H. destruct (n <=? 0); [inversion H; subst; auto|].
  unfold peekImpl in H.
  destruct (curIsLast s && _); [inversion H; subst; auto|].
  destruct (cancelledLocally s || remoteEffective s); [inversion H; subst; auto|].
  destruct (shutdown s); [inversion H; subst; auto|].
  match type of H with context [if ?c then dequeue s else (s, false)] => destruct c eqn:Edq end.
  - assert (Hc0 : crest s = 0).
    { apply crest_zero; auto. apply orb_prop in Edq. destruct Edq as [E|E]; [left; apply isnil_true; auto|right; apply Z.leb_le; auto]. }
    destruct (dequeue s) as [s1 b1] eqn:Ed.
    destruct (dequeue_spec _ _ _ R Hc0 Ed) as (->&R1&D1&D2&D3&D4&D5&D6&D7&D8&D9&D10&_).
    assert (Hst : s' = s1 /\ bug = false).
    { revert H. repeat match goal with
      | |- context [if ?c then _ else _] => destruct c
      | |- context [match ?c with Some _ => _ | None => _ end] => destruct c
      end; intros H; inversion H; auto. }
    destruct Hst as (->&->). auto.
  - assert (Hst : s' = s /\ bug = false).
    { revert H. repeat match goal with
      | |- context [if ?c then _ else _] => destruct c
      | |- context [match ?c with Some _ => _ | None => _ end] => destruct c
      end; intros H; inversion H; auto. }
    destruct Hst as (->&->). auto.
Qed.

(* Read does not touch the flow controller state or the final offset *)
Lemma readLoop_keeps_fc : forall fuel s n acc s' d e bug, readLoop fuel s n acc = (s', d, e, bug) ->
  fc_final s' = fc_final s /\ fc_highest s' = fc_highest s /\ finalOffset s' = finalOffset s.
Proof.
  induction fuel as [|fuel IH]; intros s n acc s' d e bug H; simpl in H; [inversion H; auto|].
  destruct (n <=? len acc).
  { destruct (remoteEffective s); inversion H; subst; auto. }
  assert (Hdq : forall s1 b, (if (match cur s with [] => true | _ => false end) || (len (cur s) <=? rpif s) then dequeue s else (s, false)) = (s1, b) ->
     fc_final s1 = fc_final s /\ fc_highest s1 = fc_highest s /\ finalOffset s1 = finalOffset s).
  { intros s1 b Hd. destruct (_ || _); [|inversion Hd; auto].
    unfold dequeue in Hd. destruct (Pop _) as [[q1 [[off dd] cb]] bb]. inversion Hd; subst. auto. }
  destruct (if (match cur s with [] => true | _ => false end) || (len (cur s) <=? rpif s) then dequeue s else (s, false)) as [s1 b1] eqn:Ed.
  destruct (Hdq _ _ eq_refl) as (D1&D2&D3).
  revert H. repeat match goal with
  | |- context [if ?c then _ else _] => destruct c
  end; intros H; try (inversion H; subst; simpl; auto; fail).
  apply IH in H. simpl in H. destruct H as (H1&H2&H3). rewrite H1, H2, H3. auto.
Qed.

Lemma Read_keeps_fc s n s' d e bug : Read s n = (s', d, e, bug) ->
  fc_final s' = fc_final s /\ fc_highest s' = fc_highest s /\ finalOffset s' = finalOffset s.
Proof.
  unfold Read. destruct (readImpl s n) as [[[s1 d1] e1] b1] eqn:ER. intros H. inversion H; subst.
  destruct (isNewlyCompleted_fields s1) as (_&_&_&_&_&F&G&_&I&_). rewrite F, G, I.
  unfold readImpl in ER.
  destruct (curIsLast s && _); [inversion ER; subst; auto|].
  destruct (cancelledLocally s || remoteEffective s); [inversion ER; subst; auto|].
  destruct (shutdown s); [inversion ER; subst; auto|].
  eapply readLoop_keeps_fc; eauto.
Qed.

(** * histories *)
Record RRInv (r : rrun) : Prop := {
  rr_inv : RSInv (rr_st r);
  rr_outv : rr_out r = slice S 0 (rpos (rr_st r));
  rr_eofv : rr_eof r = true -> fc_final (rr_st r) = true /\ rpos (rr_st r) = finalOffset (rr_st r)
}.

Lemma RRInv_init w : 0 <= w < MaxBC -> RRInv (rrun_init w).
Proof. intros Hw. constructor; simpl; [apply RSInv_init; auto|reflexivity|discriminate]. Qed.

(* once the final size is known it never changes, and neither does a read position that reached it *)
Lemma rstep_RRInv r o r' : RRInv r -> rvalid o -> rstep S r o = Some r' -> RRInv r'.
Proof.
  intros [R Ho He] Hv Hs. destruct o as [off n fin cb|final reliable code|n|n|code|]; simpl in Hs.
  - destruct Hv as (V1&V2).
    destruct (handleStreamFrame (rr_st r) (slice S off n) off fin cb) as [s' e] eqn:EH.
    destruct e; try discriminate. inversion Hs; subst; clear Hs.
    destruct (handleStreamFrame_RSInv _ _ _ _ _ _ R V1 V2 EH) as (R'&Hrp).
    constructor; simpl; auto; [rewrite Hrp; auto|].
    intros Heof. destruct (He Heof) as (Hf&Hfin).
    (* the final size was known: it stays the same *)
    unfold handleStreamFrame in EH. rewrite len_slice in EH by lia.
    destruct (fcUpdate (rr_st r) (off + n) fin) as [s1 e1] eqn:Ef.
    destruct e1; try (inversion EH; discriminate).
    destruct (fcUpdate_ok _ _ _ _ Ef) as (A1&A2&A3&A4&A5&A6&A7&A8&A9&A10&A11&A12&A13&A14&A15&A16).
    pose proof (v_final _ R') as VF'. pose proof (v_final _ R) as VF. rewrite Hf in VF.
    assert (Hff : fc_final s' = true /\ fc_highest s' = fc_highest (rr_st r)).
    { revert EH. destruct fin; destruct (cancelledLocally _);
        try destruct (Push _ _ _ _) as [q rr]; intros EH; inversion EH; subst;
        match goal with |- context [isNewlyCompleted ?X] => destruct (isNewlyCompleted_fields X) as (_&_&_&_&_&F&G&_) end;
        rewrite F, G; simpl; rewrite ?A13, ?Hf; simpl; split; auto. }
    destruct Hff as (F1&F2). rewrite F1 in VF'. split; auto. lia.
  - destruct Hv as (V1&V2).
    destruct (handleResetStreamFrame (rr_st r) final reliable code) as [s' e] eqn:EH.
    destruct e; try discriminate. inversion Hs; subst; clear Hs.
    destruct (handleReset_RSInv _ _ _ _ _ R V1 EH) as (R'&Hrp&Hso).
    constructor; simpl; auto; [rewrite Hrp; auto|].
    intros Heof. destruct (He Heof) as (Hf&Hfin).
    unfold handleResetStreamFrame in EH.
    pose proof (v_final _ R') as VF'. pose proof (v_final _ R) as VF. rewrite Hf in VF.
    assert (Hff : fc_final s' = true /\ fc_highest s' = fc_highest (rr_st r)).
    { destruct (shutdown (rr_st r)).
      - inversion EH; subst. destruct (isNewlyCompleted_fields (rr_st r)) as (_&_&_&_&_&F&G&_). rewrite F, G. auto.
      - destruct (fcUpdate (rr_st r) final true) as [s1 e1] eqn:Ef.
        destruct e1; try (inversion EH; discriminate).
        destruct (fcUpdate_ok _ _ _ _ Ef) as (A1&A2&A3&A4&A5&A6&A7&A8&A9&A10&A11&A12&A13&A14&A15&A16).
        revert EH. repeat match goal with |- context [if ?c then _ else _] => destruct c end;
          intros EH; inversion EH; subst;
          match goal with |- context [isNewlyCompleted ?X] => destruct (isNewlyCompleted_fields X) as (_&_&_&_&_&F&G&_) end;
          rewrite F, G; simpl; rewrite ?A13, ?Hf; simpl; split; auto. }
    destruct Hff as (F1&F2). rewrite F1 in VF'. split; auto. lia.
  - destruct (Read (rr_st r) n) as [[[s' d] e] bug] eqn:ER.
    destruct (Read_spec _ _ _ _ _ _ R Hv ER) as (->&R'&Hd&Hrp&Hlen&Heof).
    inversion Hs; subst; clear Hs. constructor; simpl; auto.
    + rewrite Ho, Hrp. pose proof (v_rpos _ R). rewrite slice_app by auto using len_nonneg.
      rewrite Z.add_0_l. rewrite <- Hd. reflexivity.
    + intros Hor. apply orb_prop in Hor. destruct Hor as [Hor|Hor].
      * (* EOF was read before: the read position is at the final size; nothing more can be read *)
        destruct (He Hor) as (Hf&Hfin).
        pose proof (v_final _ R) as VF. rewrite Hf in VF.
        pose proof (v_pos _ R') as P'. pose proof (v_rp_high _ R') as Q'.
        assert (Hge : 0 <= crest s').
        { unfold crest. destruct (nonnil_dec (cur s')) as [E|E]; [rewrite E; lia|].
          destruct (v_cur _ R' E) as ((?&?)&_). destruct (cur s'); [congruence|]. lia. }
        (* Read changes neither the flow controller state nor the final offset *)
        assert (Hsame : fc_final s' = fc_final (rr_st r) /\ fc_highest s' = fc_highest (rr_st r) /\ finalOffset s' = finalOffset (rr_st r))
          by (eapply Read_keeps_fc; eauto).
        destruct Hsame as (S1&S2&S3). rewrite S1, S3. split; auto.
        pose proof (len_nonneg d). lia.
      * destruct e; try discriminate. apply Heof. reflexivity.
  - destruct (PeekS (rr_st r) n) as [[[s' d] e] bug] eqn:EP.
    destruct (Peek_state _ _ _ _ _ _ R EP) as (->&R'&Hrp&Hf&Hfin).
    inversion Hs; subst; clear Hs. constructor; simpl; auto; [rewrite Hrp; auto|].
    rewrite Hrp, Hf, Hfin. auto.
  - inversion Hs; subst; clear Hs. destruct (CancelRead_RSInv _ code R) as (R'&Hrp&Hso&_).
    constructor; simpl; auto; [rewrite Hrp; auto|].
    intros Heof. rewrite Hrp. unfold CancelRead.
    match goal with |- context [isNewlyCompleted ?X] => destruct (isNewlyCompleted_fields X) as (_&_&_&_&_&_&G&_&I&_); rewrite G, I end.
    destruct (cancelledLocally (rr_st r)); [auto|]. destruct (shutdown (rr_st r)); [auto|].
    destruct (errorRead (rr_st r) || cancelledRemotely (rr_st r)); simpl; auto.
  - inversion Hs; subst; clear Hs. constructor; simpl; auto. apply Shutdown_RSInv; auto.
Qed.

Lemma rsrun_RRInv ops : forall r r', RRInv r -> Forall rvalid ops -> rsrun S r ops = Some r' -> RRInv r'.
Proof.
  induction ops as [|o ops IH]; intros r r' R Hv Hs; simpl in Hs.
  - inversion Hs; subst. auto.
  - inversion Hv; subst. destruct (rstep S r o) as [r1|] eqn:E1; [|discriminate].
    apply (IH r1 r'); auto. eapply rstep_RRInv; eauto.
Qed.

(** * Statements used by Props/C03.v *)

(** every history: the bytes returned by Read, concatenated, are S[0, readPos); they never go
    beyond what was received nor beyond a known final size; once EOF was returned the read
    position is the final size *)
Theorem recv_read_exact w ops r : 0 <= w < MaxBC -> Forall rvalid ops -> rsrun S (rrun_init w) ops = Some r ->
  rr_out r = slice S 0 (rpos (rr_st r)) /\
  rpos (rr_st r) <= fc_highest (rr_st r) /\
  (fc_final (rr_st r) = true -> finalOffset (rr_st r) = fc_highest (rr_st r)) /\
  (rr_eof r = true -> fc_final (rr_st r) = true /\ rpos (rr_st r) = finalOffset (rr_st r)).
Proof.
  intros Hw Hv Hs. destruct (rsrun_RRInv ops _ _ (RRInv_init w Hw) Hv Hs) as [R Ho He].
  split; auto. split; [|split; auto].
  - pose proof (v_pos _ R) as P. pose proof (v_rp_high _ R) as Q.
    assert (Hge : 0 <= crest (rr_st r)).
    { unfold crest. destruct (nonnil_dec (cur (rr_st r))) as [E|E]; [rewrite E; lia|].
      destruct (v_cur _ R E) as ((?&?)&_). destruct (cur (rr_st r)); [congruence|]. lia. }
    lia.
  - intros Hf. pose proof (v_final _ R) as VF. rewrite Hf in VF. auto.
Qed.

(** one Read in any reachable state *)
Theorem recv_read_step w ops r n s' d e bug : 0 <= w < MaxBC -> Forall rvalid ops ->
  rsrun S (rrun_init w) ops = Some r -> 0 <= n -> Read (rr_st r) n = (s', d, e, bug) ->
  bug = false /\ d = slice S (rpos (rr_st r)) (len d) /\ rpos s' = rpos (rr_st r) + len d /\ len d <= n /\
  (e = EEOF -> fc_final s' = true /\ rpos s' = finalOffset s').
Proof.
  intros Hw Hv Hs Hn HR. destruct (rsrun_RRInv ops _ _ (RRInv_init w Hw) Hv Hs) as [R Ho He].
  destruct (Read_spec _ _ _ _ _ _ R Hn HR) as (A&B&C&D&E&F). auto.
Qed.

(** rejections, for an arbitrary state: error class, and nothing the reader observes changes *)
Theorem recv_reject_frame s data off fin cb s' e :
  handleStreamFrame s data off fin cb = (s', e) ->
  let endp := off + len data in
  ((fc_final s = true /\ (fc_highest s < endp \/ (fin = true /\ endp <> fc_highest s))) \/
   (fc_final s = false /\ fin = true /\ endp < fc_highest s) -> e = FFinalSize) /\
  (fc_final s = false /\ fc_highest s < endp /\ fc_window s < endp -> e = FFlowControl) /\
  (e = FFinalSize \/ e = FFlowControl ->
     sorter s' = sorter s /\ rpos s' = rpos s /\ cur s' = cur s /\ rpif s' = rpif s /\ finalOffset s' = finalOffset s).
Proof using.
  intros H endp.
  assert (Hrej : forall x, snd (fcUpdate s endp fin) = x -> x <> FNil -> e = x /\
     sorter s' = sorter s /\ rpos s' = rpos s /\ cur s' = cur s /\ rpif s' = rpif s /\ finalOffset s' = finalOffset s).
  { intros x Hx Hne. rewrite <- Hx in Hne. destruct (handleStreamFrame_rejected _ _ _ _ _ _ _ H Hne) as (A&B).
    fold endp in A. rewrite Hx in A. auto. }
  split; [|split].
  - intros [(Hf&[Hlt|(->&Hne)])|(Hf&->&Hlt)].
    + apply (Hrej FFinalSize); [rewrite fcUpdate_beyond_final; auto|discriminate].
    + apply (Hrej FFinalSize); [rewrite fcUpdate_other_final; auto|discriminate].
    + apply (Hrej FFinalSize); [apply fcUpdate_final_below; auto|discriminate].
  - intros (Hf&Hlt&Hw). apply (Hrej FFlowControl); [apply fcUpdate_window; auto|discriminate].
  - intros He. unfold handleStreamFrame in H. fold endp in H.
    destruct (fcUpdate s endp fin) as [s1 e1] eqn:Ef.
    destruct e1.
    + (* the flow controller accepted: the only possible error is the sorter's *)
      exfalso. revert H. destruct (cancelledLocally _); [intros H; inversion H; subst; destruct He; discriminate|].
      destruct (Push _ _ _ _) as [q rr]. intros H. inversion H; subst. destruct rr; simpl in He; destruct He; discriminate.
    + apply (Hrej FFinalSize); [reflexivity|discriminate].
    + apply (Hrej FFlowControl); [reflexivity|discriminate].
    + apply (Hrej FSorter); [reflexivity|discriminate].
    + apply (Hrej FBug); [reflexivity|discriminate].
Qed.

(** * Peek returns the bytes the next reads will return *)
Lemma dtake_nonpos k (d : list Z) : k <= 0 -> dtake k d = [].
Proof. intros. unfold dtake. replace (Z.to_nat k) with 0%nat by lia. reflexivity. Qed.

Lemma crest_nonneg s : RSInv s -> 0 <= crest s.
Proof.
  intros R. unfold crest. destruct (nonnil_dec (cur s)) as [E|E]; [rewrite E; lia|].
  destruct (v_cur _ R E) as ((?&?)&_). destruct (cur s); [congruence|]. lia.
Qed.

Lemma rest_slice s : RSInv s -> cur s <> [] -> dskip (rpif s) (cur s) = slice S (rpos s) (crest s).
Proof.
  intros R Hne. destruct (v_cur _ R Hne) as ((A&B)&C). pose proof (v_pos _ R) as P.
  rewrite (crest_nonnil _ Hne) in *. remember (len (cur s)) as L. rewrite C.
  rewrite dskip_slice by lia. f_equal. lia.
Qed.

Lemma tail_eof s : RSInv s -> (curIsLast s = true -> crest s = 0) ->
  curIsLast s || (finalOffset s <=? rpos s) = true -> fc_final s = true /\ rpos s = finalOffset s.
Proof.
  intros R Hl H. pose proof (v_pos _ R) as P. pose proof (v_rp_high _ R) as Q.
  pose proof (crest_nonneg _ R) as Hc. pose proof (v_final _ R) as VF. pose proof (v_win _ R) as VW.
  apply orb_prop in H. destruct H as [H|H].
  - destruct (RSInv_last _ R H) as (A&B). specialize (Hl H). split; auto. lia.
  - apply Z.leb_le in H. destruct (fc_final s); [split; auto; lia|lia].
Qed.

Definition peekBody (s1 : rstream) (n : Z) : rstream * list Z * rerr * bool :=
  let tailr := if curIsLast s1 || (finalOffset s1 <=? rpos s1) then (s1, [], EEOF, false) else (s1, [], EWouldBlock, false) in
  if (match cur s1 with [] => false | _ => true end) && (rpif s1 <? len (cur s1)) then
    let avail := len (cur s1) - rpif s1 in
    let rest := dskip (rpif s1) (cur s1) in
    if n <=? avail then (s1, dtake n rest, ENil, false) else
    let offset := rpos s1 + avail in
    match Peek (sorter s1) offset (n - avail) with
    | Some d => (s1, rest ++ d, ENil, false)
    | None =>
      if curIsLast s1 then (s1, rest, EEOF, false) else
      let viaReset :=
        if cancelledRemotely s1 && (reliableSize s1 <? rpos s1 + n) then
          let total := reliableSize s1 - rpos s1 in
          let needed := total - avail in
          if needed <=? 0 then Some (dtake total rest)
          else match Peek (sorter s1) offset needed with Some d => Some (rest ++ d) | None => None end
        else None in
      match viaReset with
      | Some d => (s1, d, cancel_rerr s1, false)
      | None =>
        let viaFin :=
          if finalOffset s1 <? rpos s1 + n then
            let total := finalOffset s1 - rpos s1 in
            let needed := total - avail in
            if needed <=? 0 then Some (dtake total rest)
            else match Peek (sorter s1) offset needed with Some d => Some (rest ++ d) | None => None end
          else None in
        match viaFin with
        | Some d => (s1, d, EEOF, false)
        | None => tailr
        end
      end
    end
  else tailr.

Lemma peekImpl_unfold s n :
  peekImpl s n =
  if curIsLast s && (match cur s with [] => true | _ => false end) then (s, [], EEOF, false) else
  if cancelledLocally s || remoteEffective s then (s, [], cancel_rerr s, false) else
  if shutdown s then (s, [], EShutdown, false) else
  let '(s1, bug) := if (match cur s with [] => true | _ => false end) || (len (cur s) <=? rpif s)
                    then dequeue s else (s, false) in
  if bug then (s1, [], ENil, true) else peekBody s1 n.
Proof using. reflexivity. Qed.

Definition PeekPost (s1 : rstream) (n : Z) (out : rstream * list Z * rerr * bool) : Prop :=
  let '(sx, d, e, b) := out in
  sx = s1 /\ b = false /\ d = slice S (rpos s1) (len d) /\ len d <= n /\ (e = ENil -> len d = n) /\
  (e = EEOF -> fc_final s1 = true /\ rpos s1 + len d = finalOffset s1).

Lemma peekBody_spec s1 n : RSInv s1 -> 0 < n -> remoteEffective s1 = false ->
  PeekPost s1 n (peekBody s1 n).
Proof.
  intros R Hn Hre. unfold peekBody.
  pose proof (v_pos _ R) as P. pose proof (v_rp_high _ R) as Q. pose proof (crest_nonneg _ R) as Hc.
  pose proof (v_final _ R) as VF. pose proof (v_win _ R) as VW.
  assert (Htail : (curIsLast s1 = true -> crest s1 = 0) ->
     PeekPost s1 n (if curIsLast s1 || (finalOffset s1 <=? rpos s1) then (s1, [], EEOF, false) else (s1, [], EWouldBlock, false))).
  { intros Hl. destruct (curIsLast s1 || (finalOffset s1 <=? rpos s1)) eqn:E; unfold PeekPost; rewrite len_nil.
    - destruct (tail_eof _ R Hl E) as (A&B). repeat split; auto; try lia; discriminate.
    - repeat split; auto; try lia; discriminate. }
  destruct ((match cur s1 with [] => false | _ => true end) && (rpif s1 <? len (cur s1))) eqn:Ecur.
  2:{ apply Htail. intros _. apply andb_false_iff in Ecur. destruct Ecur as [E|E].
      - unfold crest. destruct (cur s1); [reflexivity|discriminate].
      - apply Z.ltb_ge in E. apply crest_zero; auto. }
  apply andb_prop in Ecur as [E1 E2]. apply Z.ltb_lt in E2.
  assert (Hne : cur s1 <> []) by (destruct (cur s1); [discriminate|congruence]).
  pose proof (rest_slice _ R Hne) as Hrest. pose proof (crest_nonnil _ Hne) as Hcr.
  cbv zeta. rewrite Hrest. rewrite <- Hcr.
  assert (Hcpos : 0 < crest s1) by lia.
  destruct (Z.leb_spec n (crest s1)).
  { unfold PeekPost. rewrite dtake_slice by lia. rewrite len_slice by lia. repeat split; auto; try lia; discriminate. }
  destruct (Peek (sorter s1) (rpos s1 + crest s1) (n - crest s1)) as [d1|] eqn:EP1.
  { destruct (Peek_spec S _ _ _ _ (v_inv _ R) EP1 ltac:(lia)) as (Hd1&_).
    unfold PeekPost. rewrite Hd1. rewrite <- slice_app by lia. replace (crest s1 + (n - crest s1)) with n by lia.
    rewrite len_slice by lia. repeat split; auto; try lia; discriminate. }
  destruct (curIsLast s1) eqn:El.
  { destruct (RSInv_last _ R El) as (A&B). unfold PeekPost. rewrite len_slice by lia.
    repeat split; auto; try lia; discriminate. }
  (* via the reliable size of a reset *)
  match goal with |- context [match ?X with Some d => (s1, d, cancel_rerr s1, false) | None => _ end] => destruct X as [d2|] eqn:Evr end.
  { assert (Hd2 : exists total, 0 < total < n /\ d2 = slice S (rpos s1) total).
    { destruct (cancelledRemotely s1 && (reliableSize s1 <? rpos s1 + n)) eqn:Ec; [|discriminate].
      apply andb_prop in Ec as [Ec1 Ec2]. apply Z.ltb_lt in Ec2.
      unfold remoteEffective in Hre. rewrite Ec1 in Hre. simpl in Hre. apply Z.leb_gt in Hre.
      exists (reliableSize s1 - rpos s1). split; [lia|].
      destruct (Z.leb_spec (reliableSize s1 - rpos s1 - crest s1) 0).
      - inversion Evr. rewrite dtake_slice by lia. reflexivity.
      - destruct (Peek (sorter s1) (rpos s1 + crest s1) (reliableSize s1 - rpos s1 - crest s1)) as [d3|] eqn:EP3; [|discriminate].
        destruct (Peek_spec S _ _ _ _ (v_inv _ R) EP3 ltac:(lia)) as (Hd3&_). inversion Evr.
        rewrite Hd3. rewrite <- slice_app by lia. f_equal. lia. }
    destruct Hd2 as (total&Ht&->). unfold PeekPost. rewrite len_slice by lia.
    split; auto. split; auto. split; auto. split; [lia|]. split.
    - intros He. exfalso. unfold cancel_rerr in He. destruct (cancelErr s1) as [[c r]|]; discriminate.
    - intros He. exfalso. eapply cancel_rerr_not_eof; eauto. }
  (* via the final offset *)
  match goal with |- context [match ?X with Some d => (s1, d, EEOF, false) | None => _ end] => destruct X as [d2|] eqn:Evf end.
  { assert (Hd2 : exists total, 0 <= total < n /\ d2 = slice S (rpos s1) total /\ fc_final s1 = true /\ rpos s1 + total = finalOffset s1).
    { destruct (Z.ltb_spec (finalOffset s1) (rpos s1 + n)); [|discriminate].
      destruct (Z.leb_spec (finalOffset s1 - rpos s1 - crest s1) 0).
      - inversion Evf. destruct (Z.le_gt_cases (finalOffset s1 - rpos s1) 0).
        + exists 0. rewrite dtake_nonpos by lia. split; [lia|]. split; [reflexivity|].
          destruct (fc_final s1); [split; auto; lia|lia].
        + exists (finalOffset s1 - rpos s1). rewrite dtake_slice by lia. split; [lia|]. split; [reflexivity|].
          destruct (fc_final s1); [split; auto; lia|lia].
      - destruct (Peek (sorter s1) (rpos s1 + crest s1) (finalOffset s1 - rpos s1 - crest s1)) as [d3|] eqn:EP3; [|discriminate].
        destruct (Peek_spec S _ _ _ _ (v_inv _ R) EP3 ltac:(lia)) as (Hd3&Hcov3). inversion Evf.
        exists (finalOffset s1 - rpos s1). split; [lia|]. split.
        + rewrite Hd3. rewrite <- slice_app by lia. f_equal. lia.
        + specialize (Hcov3 (finalOffset s1 - 1) ltac:(lia)). apply (v_below _ R) in Hcov3.
          destruct (fc_final s1); [split; auto; lia|lia]. }
    destruct Hd2 as (total&Ht&->&Hf&Hfin). unfold PeekPost. rewrite len_slice by lia.
    split; auto. split; auto. split; auto. split; [lia|]. split; [discriminate|]. intros _. auto. }
  apply Htail. discriminate.
Qed.

Theorem Peek_spec_stream s n s' d e bug : RSInv s -> 0 <= n -> PeekS s n = (s', d, e, bug) ->
  bug = false /\ RSInv s' /\ rpos s' = rpos s /\ d = slice S (rpos s) (len d) /\ len d <= n /\
  (e = ENil -> len d = n) /\ (e = EEOF -> fc_final s' = true /\ rpos s + len d = finalOffset s').
Proof.
  intros R Hn H. destruct (Peek_state _ _ _ _ _ _ R H) as (Hb&R'&Hrp&Hf&Hfin).
  split; auto. split; auto. split; auto.
  unfold PeekS in H. destruct (Z.leb_spec n 0).
  { inversion H; subst. rewrite len_nil. repeat split; auto; try lia; discriminate. }
  rewrite peekImpl_unfold in H.
  destruct (curIsLast s && (match cur s with [] => true | _ => false end)) eqn:E1.
  { apply andb_prop in E1 as [El Ec]. apply isnil_true in Ec.
    destruct (RSInv_last _ R El) as (A&B). pose proof (v_pos _ R) as P. unfold crest in P. rewrite Ec in P.
    inversion H; subst. rewrite len_nil. repeat split; auto; try lia; discriminate. }
  destruct (cancelledLocally s || remoteEffective s) eqn:E2.
  { inversion H; subst. rewrite len_nil. split; [reflexivity|]. split; [lia|]. split.
    - intros He. exfalso. unfold cancel_rerr in He. destruct (cancelErr s') as [[c r]|]; discriminate.
    - intros He. exfalso. eapply cancel_rerr_not_eof; eauto. }
  apply orb_false_elim in E2 as [_ Hre].
  destruct (shutdown s).
  { inversion H; subst. rewrite len_nil. repeat split; auto; try lia; discriminate. }
  destruct ((match cur s with [] => true | _ => false end) || (len (cur s) <=? rpif s)) eqn:Edq.
  - assert (Hc0 : crest s = 0).
    { apply crest_zero; auto. apply orb_prop in Edq. destruct Edq as [E|E]; [left; apply isnil_true; auto|right; apply Z.leb_le; auto]. }
    destruct (dequeue s) as [s1 b1] eqn:Ed.
    destruct (dequeue_spec _ _ _ R Hc0 Ed) as (->&R1&D1&D2&D3&D4&D5&D6&D7&D8&D9&D10&_).
    assert (Hre1 : remoteEffective s1 = false) by (unfold remoteEffective in *; rewrite D5, D6, D1; auto).
    pose proof (peekBody_spec s1 n R1 ltac:(lia) Hre1) as HP. rewrite H in HP. unfold PeekPost in HP.
    destruct HP as (->&_&P3&P4&P5&P6). rewrite <- D1. auto.
  - pose proof (peekBody_spec s n R ltac:(lia) Hre) as HP. rewrite H in HP. unfold PeekPost in HP.
    destruct HP as (->&_&P3&P4&P5&P6). auto.
Qed.

Theorem recv_peek_step w ops r n s' d e bug : 0 <= w < MaxBC -> Forall rvalid ops ->
  rsrun S (rrun_init w) ops = Some r -> 0 <= n -> PeekS (rr_st r) n = (s', d, e, bug) ->
  bug = false /\ rpos s' = rpos (rr_st r) /\ d = slice S (rpos (rr_st r)) (len d) /\ len d <= n /\
  (e = ENil -> len d = n) /\ (e = EEOF -> fc_final s' = true /\ rpos (rr_st r) + len d = finalOffset s').
Proof.
  intros Hw Hv Hs Hn HP. destruct (rsrun_RRInv ops _ _ (RRInv_init w Hw) Hv Hs) as [R Ho He].
  destruct (Peek_spec_stream _ _ _ _ _ _ R Hn HP) as (A&B&C&D&E&F&G).
  split; [exact A|]. split; [exact C|]. split; [exact D|]. split; [exact E|]. split; [exact F|exact G].
Qed.

(** * resets and local cancellation *)
Lemma readLoop_cancel : forall fuel s n acc s' d c r bug,
  readLoop fuel s n acc = (s', d, ECancel c r, bug) ->
  cancelledLocally s' = true \/ remoteEffective s' = true.
Proof using.
  induction fuel as [|fuel IH]; intros s n acc s' d c r bug H; simpl in H; [inversion H|].
  destruct (n <=? len acc).
  { destruct (remoteEffective s) eqn:E; inversion H; subst. right. exact E. }
  destruct (if (match cur s with [] => true | _ => false end) || (len (cur s) <=? rpif s) then dequeue s else (s, false)) as [s1 b1] eqn:Ed.
  destruct b1; [inversion H|].
  destruct ((match cur s1 with [] => true | _ => false end) && (0 <? len acc)).
  { destruct (shutdown s1); inversion H. }
  destruct (shutdown s1); [inversion H|].
  destruct (cancelledLocally s1 || remoteEffective s1) eqn:Ec.
  { inversion H; subst. apply orb_prop in Ec. exact Ec. }
  destruct (negb _); [inversion H|].
  match type of H with (if ?c then _ else _) = _ => destruct c end; [inversion H|].
  eapply IH; eauto.
Qed.

(** the reset error (or the local cancellation error) is only returned when the stream was
    cancelled locally, or it was reset and everything below the reliable size has been read *)
Theorem recv_cancel_error s n s' d c r bug : Read s n = (s', d, ECancel c r, bug) ->
  cancelledLocally s' = true \/ (cancelledRemotely s' = true /\ reliableSize s' <= rpos s').
Proof using.
  unfold Read. destruct (readImpl s n) as [[[s1 d1] e1] b1] eqn:ER. intros H. inversion H; subst.
  destruct (isNewlyCompleted_fields s1) as (_&B&_&_&_&_&_&_&_&_&K&L&M&_). rewrite K, L, M, B.
  assert (Hc : cancelledLocally s1 = true \/ remoteEffective s1 = true).
  { unfold readImpl in ER.
    destruct (curIsLast s && _); [inversion ER|].
    destruct (cancelledLocally s || remoteEffective s) eqn:Ec.
    { inversion ER; subst. apply orb_prop in Ec. exact Ec. }
    destruct (shutdown s); [inversion ER|].
    eapply readLoop_cancel; eauto. }
  destruct Hc as [Hc|Hc]; [left; auto|right].
  unfold remoteEffective in Hc. apply andb_prop in Hc as [H1 H2]. apply Z.leb_le in H2. auto.
Qed.

(** after CancelRead no Read returns data any more *)
Theorem recv_no_data_after_cancel s n s' d e bug : cancelledLocally s = true -> Read s n = (s', d, e, bug) ->
  d = [] /\ cancelledLocally s' = true.
Proof using.
  intros Hc. unfold Read. destruct (readImpl s n) as [[[s1 d1] e1] b1] eqn:ER. intros H. inversion H; subst.
  destruct (isNewlyCompleted_fields s1) as (_&_&_&_&_&_&_&_&_&_&K&_). rewrite K.
  unfold readImpl in ER. rewrite Hc in ER. simpl in ER.
  destruct (curIsLast s && _); inversion ER; subst; auto.
Qed.

End WithS.
