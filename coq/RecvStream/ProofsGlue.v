(** Conn.handleCryptoFrame / dropEncryptionLevel: what reaches the TLS handler. *)
From Coq Require Import List ZArith Lia Bool.
From V Require Import Gen.Params Lib.Hex FrameSorter.Model FrameSorter.InvCheck FrameSorter.ProofsBase
  FrameSorter.ProofsPop FrameSorter.ProofsRun
  RecvStream.Model RecvStream.Spec RecvStream.ProofsCrypto RecvStream.MgrRun RecvStream.ProofsMgr RecvStream.GlueRun.
Import ListNotations.
Open Scope Z_scope.

(** the drain loop hands the TLS handler every contiguous byte, as non-empty messages, and stops
    only when nothing is buffered at the read position (or the handler failed) *)
Lemma cdrain_spec S : forall fuel c out count fail c2 ms cnt fl bg,
  CInv S {| cr_st := c; cr_out := out |} -> (length (queue (c_sorter c)) < fuel)%nat ->
  cdrain fuel c count fail = (c2, ms, cnt, fl, bg) ->
  bg = false /\ CInv S {| cr_st := c2; cr_out := out ++ concat ms |} /\
  (fl = false -> ~ cov (queue (c_sorter c2)) (readPos (c_sorter c2))) /\
  Forall (fun d => d <> []) ms /\ c_finished c2 = c_finished c /\ c_highest c2 = c_highest c.
Proof.
  induction fuel as [|fuel IH]; intros c out count fail c2 ms cnt fl bg I Hf H; [lia|].
  cbn [cdrain] in H. destruct (GetCryptoData c) as [[c' d] bug] eqn:EG.
  assert (Hstep : cstep S {| cr_st := c; cr_out := out |} COGet =
                  if bug then None else Some {| cr_st := c'; cr_out := out ++ d |}).
  { simpl. rewrite EG. reflexivity. }
  pose proof (ci_inv _ _ I) as Iq. simpl in Iq.
  unfold GetCryptoData in EG. destruct (Pop (c_sorter c)) as [[q [[off dd] cb]] bb] eqn:EP.
  destruct (sorter_refines_pop S _ _ _ _ _ _ Iq EP) as (Hb&_&_&Hpos&Hrp&Hcov).
  inversion EG; subst c' d bug. subst bb.
  assert (I' : CInv S {| cr_st := {| c_sorter := q; c_highest := c_highest c; c_finished := c_finished c |}; cr_out := out ++ dd |}).
  { exact (cstep_CInv S _ COGet _ I Logic.I Hstep). }
  destruct dd as [|b0 dd'].
  - inversion H; subst. simpl. rewrite app_nil_r in *. split; auto. split; auto. split; [|auto].
    intros _ Hc. simpl in *. apply Hcov in Hc. rewrite len_nil in *. destruct Hc as [Hc _].
    replace (readPos q) with (readPos (c_sorter c)) in Hc by lia. apply Hpos in Hc. lia.
  - assert (Hlen : (length (queue q) < length (queue (c_sorter c)))%nat).
    { unfold Pop in EP. destruct (qget (queue (c_sorter c)) (readPos (c_sorter c))) as [en|] eqn:E; inversion EP; subst.
      simpl. apply qdel_length in E. lia. }
    destruct (count =? fail).
    + inversion H; subst. simpl. rewrite app_nil_r. split; auto. split; auto. split; [discriminate|].
      split; [constructor; [discriminate|constructor]|auto].
    + destruct (cdrain fuel _ (count + 1) fail) as [[[[c3 ms3] cnt3] fl3] bg3] eqn:ER.
      inversion H; subst.
      destruct (IH _ _ _ _ _ _ _ _ _ I' ltac:(simpl; lia) ER) as (A&B&C&D&E&F).
      simpl in E, F. cbn [concat]. split; auto. split; [rewrite app_assoc; exact B|]. split; auto.
      split; [constructor; [discriminate|auto]|auto].
Qed.

Section WithSf.
Variable Sf : Z -> Z -> Z.

Definition GInv (r : grst) : Prop :=
  CInv (Sf 0) {| cr_st := m_ini (g_m (gr_g r)); cr_out := gr_o0 r |} /\
  CInv (Sf 1) {| cr_st := m_hs (g_m (gr_g r)); cr_out := gr_o1 r |} /\
  CInv (Sf 2) {| cr_st := m_one (g_m (gr_g r)); cr_out := gr_o2 r |}.

Lemma GInv_init f : GInv (grst_init f).
Proof. split; [apply (CInv_init (Sf 0))|split; [apply (CInv_init (Sf 1))|apply (CInv_init (Sf 2))]]. Qed.

(* one level: frame accepted, then drained *)
Lemma level_handle S c out off n c1 : CInv S {| cr_st := c; cr_out := out |} -> 0 <= off -> 0 <= n ->
  HandleCryptoFrame c (slice S off n) off = (c1, CNil) ->
  forall count fail c2 ms cnt fl bg,
  cdrain (Datatypes.S (length (queue (c_sorter c1)))) c1 count fail = (c2, ms, cnt, fl, bg) ->
  bg = false /\ CInv S {| cr_st := c2; cr_out := out ++ concat ms |} /\
  (fl = false -> ~ cov (queue (c_sorter c2)) (readPos (c_sorter c2))).
Proof.
  intros I H0 Hn HH count fail c2 ms cnt fl bg HD.
  assert (I1 : CInv S {| cr_st := c1; cr_out := out |}).
  { apply (cstep_CInv S {| cr_st := c; cr_out := out |} (COFrame off n) _ I (conj H0 Hn)). simpl. rewrite HH. reflexivity. }
  destruct (cdrain_spec S _ _ _ _ _ _ _ _ _ _ I1 (Nat.lt_succ_diag_r _) HD) as (A&B&C&_). auto.
Qed.

Lemma grstep_GInv r o r' : GInv r -> gvalid o -> grstep Sf r o = Some r' ->
  GInv r' /\
  (* after a frame at level l went through, nothing received at that level's read position is left undelivered *)
  (forall l off n, o = GFrame l off n ->
     forall c, mget (g_m (gr_g r')) l = Some c -> ~ cov (queue (c_sorter c)) (readPos (c_sorter c))).
Proof.
  intros (I0&I1&I2) Hv H. destruct o as [l off n|l]; simpl in H.
  - destruct Hv as (V1&V2).
    destruct (ghandle Sf (gr_g r) l off n) as [[[g' e] ms] bug] eqn:EH.
    destruct bug; [discriminate|]. destruct e; try discriminate.
    unfold ghandle in EH. unfold mcore, mget, mset in EH.
    destruct (Z.eqb_spec l 0); [|destruct (Z.eqb_spec l 1); [|destruct (Z.eqb_spec l 2)]]; subst;
      try (cbv beta iota zeta in EH; inversion EH; fail).
    all: match type of EH with context [HandleCryptoFrame ?c ?dd ?oo] => destruct (HandleCryptoFrame c dd oo) as [c1 e1] eqn:EF end;
      cbv beta iota zeta in EH; cbn [m_ini m_hs m_one] in EH;
      destruct e1; try (inversion EH; fail);
      match type of EH with context [cdrain ?f ?c ?a ?b] => destruct (cdrain f c a b) as [[[[c2 ms2] cnt2] fl2] bg2] eqn:ED end;
      inversion EH; subst; destruct fl2; try discriminate; inversion H; subst; simpl.
    + destruct (level_handle (Sf 0) _ _ _ _ _ I0 V1 V2 EF _ _ _ _ _ _ _ ED) as (A&B&C).
      split; [split; [exact B|split; auto]|]. intros l0 o0 nn Heq c Hc. inversion Heq; subst. simpl in Hc. inversion Hc; subst. auto.
    + destruct (level_handle (Sf 1) _ _ _ _ _ I1 V1 V2 EF _ _ _ _ _ _ _ ED) as (A&B&C).
      split; [split; [auto|split; [exact B|auto]]|]. intros l0 o0 nn Heq c Hc. inversion Heq; subst. simpl in Hc. inversion Hc; subst. auto.
    + destruct (level_handle (Sf 2) _ _ _ _ _ I2 V1 V2 EF _ _ _ _ _ _ _ ED) as (A&B&C).
      split; [split; [auto|split; [auto|exact B]]|]. intros l0 o0 nn Heq c Hc. inversion Heq; subst. simpl in Hc. inversion Hc; subst. auto.
  - destruct (gdrop Sf (gr_g r) l) as [[g' e] bug] eqn:ED. destruct bug; [discriminate|]. destruct e; try discriminate.
    inversion H; subst. split; [|intros; discriminate].
    unfold gdrop, mcore, mget, mset in ED.
    destruct (Z.eqb_spec l 0); [|destruct (Z.eqb_spec l 1)]; subst; simpl in ED;
      try (destruct (l =? 0); destruct (l =? 1); simpl in ED; inversion ED; fail);
      match type of ED with context [Finish ?c] => destruct (Finish c) as [c' e'] eqn:EF end;
      destruct e'; inversion ED; subst; unfold GInv; simpl; (split; [|split]); auto.
    + apply (cstep_CInv (Sf 0) _ COFinish {| cr_st := c'; cr_out := gr_o0 r |} I0 Logic.I). simpl. rewrite EF. reflexivity.
    + apply (cstep_CInv (Sf 1) _ COFinish {| cr_st := c'; cr_out := gr_o1 r |} I1 Logic.I). simpl. rewrite EF. reflexivity.
Qed.

Lemma grsrun_GInv ops : forall r r', GInv r -> Forall gvalid ops -> grsrun Sf r ops = Some r' -> GInv r'.
Proof.
  induction ops as [|o ops IH]; intros r r' R Hv Hs; simpl in Hs.
  - inversion Hs; subst. auto.
  - inversion Hv; subst. destruct (grstep Sf r o) as [r1|] eqn:E1; [|discriminate].
    apply (IH r1 r'); auto. eapply grstep_GInv; eauto.
Qed.

(** through the connection glue, whatever the frame order, overlaps and retransmissions, and
    whatever happens at the other levels: the TLS handler receives, per level, exactly that
    level's byte string from offset 0 *)
Theorem glue_tls_exact f ops r : Forall gvalid ops -> grsrun Sf (grst_init f) ops = Some r ->
  gr_o0 r = slice (Sf 0) 0 (readPos (c_sorter (m_ini (g_m (gr_g r))))) /\
  gr_o1 r = slice (Sf 1) 0 (readPos (c_sorter (m_hs (g_m (gr_g r))))) /\
  gr_o2 r = slice (Sf 2) 0 (readPos (c_sorter (m_one (g_m (gr_g r))))).
Proof.
  intros Hv Hs. destruct (grsrun_GInv ops _ _ (GInv_init f) Hv Hs) as ([_ A _ _ _]&[_ B _ _ _]&[_ C _ _ _]).
  simpl in *. auto.
Qed.

(** ... and nothing is left behind: after handleCryptoFrame returned nil for a frame of level l,
    no byte received at level l's read position is still undelivered *)
Theorem glue_frame_drains f pre l off n r r' : Forall gvalid pre -> gvalid (GFrame l off n) ->
  grsrun Sf (grst_init f) pre = Some r -> grstep Sf r (GFrame l off n) = Some r' ->
  forall c, mget (g_m (gr_g r')) l = Some c -> ~ cov (queue (c_sorter c)) (readPos (c_sorter c)).
Proof.
  intros Hv Hv1 Hs Hst c Hc. pose proof (grsrun_GInv pre _ _ (GInv_init f) Hv Hs) as G.
  destruct (grstep_GInv _ _ _ G Hv1 Hst) as (_&D). eapply D; eauto.
Qed.

End WithSf.

(** dropEncryptionLevel(Initial / Handshake) fails with PROTOCOL_VIOLATION exactly when CRYPTO
    data of that level is still buffered (after a drain: data behind a gap); otherwise the level
    is finished *)
Theorem glue_drop_spec Sf g l c : (l = 0 \/ l = 1) -> mget (g_m g) l = Some c ->
  gdrop Sf g l =
    if HasMoreData (c_sorter c) then ({| g_m := mset (g_m g) l c; g_count := g_count g; g_fail := g_fail g |}, GMgr (MErr CProtocolViolation), false)
    else ({| g_m := mset (g_m g) l {| c_sorter := c_sorter c; c_highest := c_highest c; c_finished := true |};
             g_count := g_count g; g_fail := g_fail g |}, GNil, false).
Proof.
  intros Hl Hc. unfold gdrop, mcore. rewrite Hc.
  assert (E : (l =? 0) || (l =? 1) = true) by (destruct Hl; subst; reflexivity). rewrite E.
  unfold Finish. destruct (HasMoreData (c_sorter c)); reflexivity.
Qed.

(** CRYPTO frames carry no release callback (HandleCryptoFrame pushes with doneCb = nil), so the
    crypto streams — and the manager's Drop — never hold or release a buffer *)
Definition NoCb (c : cstream) : Prop := fired (c_sorter c) ++ FrameSorter.Spec.live (queue (c_sorter c)) = [].

Lemma cstep_NoCb S c o c' : CInv S c -> cvalid o -> NoCb (cr_st c) -> cstep S c o = Some c' -> NoCb (cr_st c').
Proof.
  intros I Hv N H. pose proof (ci_inv _ _ I) as Iq. destruct o as [off n| |]; simpl in H.
  - destruct Hv as (V1&V2). unfold HandleCryptoFrame in H. rewrite len_slice in H by lia.
    destruct (Z.ltb_spec MaxCrypto (off + n)); [discriminate|].
    destruct (c_finished (cr_st c)).
    + destruct (c_highest (cr_st c) <? off + n); inversion H; subst; auto.
    + destruct (Push (c_sorter (cr_st c)) (slice S off n) off None) as [q r] eqn:EP.
      pose proof MaxCrypto_lt_MaxBC.
      destruct (Push_post S _ _ _ _ _ _ Iq V1 V2 ltac:(lia) EP) as (_&Hok).
      destruct r; try discriminate. inversion H; subst. destruct (Hok eq_refl) as (_&_&_&_&Hp&_).
      unfold NoCb in *. simpl in *. rewrite N in Hp. apply Permutation.Permutation_nil. symmetry. exact Hp.
  - unfold GetCryptoData in H. destruct (Pop (c_sorter (cr_st c))) as [[q [[off d] cb]] bug] eqn:EP.
    destruct bug; [discriminate|]. inversion H; subst. unfold NoCb in *. simpl.
    apply app_eq_nil in N. destruct N as (N1&N2).
    unfold Pop in EP. destruct (qget (queue (c_sorter (cr_st c))) (readPos (c_sorter (cr_st c)))) as [en|] eqn:E;
      inversion EP; subst; simpl; rewrite N1; simpl; auto.
    pose proof (FrameSorter.ProofsLoops.live_qdel _ _ _ E) as Hl. rewrite N2 in Hl.
    apply Permutation.Permutation_nil in Hl. apply app_eq_nil in Hl. tauto.
  - unfold Finish in H. destruct (HasMoreData _); [discriminate|]. inversion H; subst. exact N.
Qed.

Theorem crypto_no_buffers S ops c : Forall cvalid ops -> csrun S crun_init ops = Some c ->
  fired (c_sorter (cr_st c)) = [] /\ FrameSorter.Spec.live (queue (c_sorter (cr_st c))) = [].
Proof.
  intros Hv Hs.
  assert (G : forall ops c0 c1, CInv S c0 -> NoCb (cr_st c0) -> Forall cvalid ops -> csrun S c0 ops = Some c1 -> NoCb (cr_st c1)).
  { induction ops0 as [|o ops0 IH]; intros c0 c1 I N Hv0 Hs0; simpl in Hs0.
    - inversion Hs0; subst; auto.
    - inversion Hv0; subst. destruct (cstep S c0 o) as [cm|] eqn:E; [|discriminate].
      apply (IH cm c1); auto; [eapply cstep_CInv; eauto|eapply cstep_NoCb; eauto]. }
  specialize (G ops crun_init c (CInv_init S) eq_refl Hv Hs). apply app_eq_nil in G. exact G.
Qed.
