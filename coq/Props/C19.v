(** C19 — only well-formed HTTP/3 field sections are accepted; writers and parser agree.
    Only statements live here; each is closed by [exact] of a lemma proved in coq/H3Headers.
    [WF] is the reference predicate written from RFC 9114 section 4 (H3Headers/Spec.v).
    The model mirrors headers.go as repaired by fixes/C19-dup-pseudo-empty-first.patch and
    fixes/C19-content-length-empty-accepted.patch; before the repair acceptance was only the
    weaker [WFx] (duplicate pseudo-header after an EMPTY first value; EMPTY Content-Length) and
    [C19_pseudo_unique_refuted] / [C19_content_length_numeric_refuted] were provable. *)
From Coq Require Import List ZArith Bool String.
From V Require Import Gen.Params Lib.Hex H3Headers.Model H3Headers.Spec H3Headers.Proofs H3Headers.ProofsParse H3Headers.ProofsMain H3Headers.ProofsComplete.
From V Require Import H3Writers.Model H3Writers.Proofs H3Writers.ProofsAgree H3Writers.ProofsE2E.
Import ListNotations.
Open Scope Z_scope.

(** (a) Acceptance soundness: an accepted header section satisfies every rule of RFC 9114
    4.2/4.3 — unconditionally —, its Content-Length fits 63 bits, no decoding error was
    swallowed, and the header handed on is the obvious function of the section. *)
Theorem C19_accept_sound : forall isReq lim fs te h,
  0 <= lim -> parseHeaders isReq lim fs te = inr h ->
  te = false /\ WF isReq lim fs /\ cl_fits fs /\ h = hdr_of fs.
Proof. exact parseHeaders_sound. Qed.
Print Assumptions C19_accept_sound.

(** Two consequences spelled out, formerly refuted: pseudo-header fields are unique whatever
    their values, and Content-Length is numeric (never empty) and single-valued. *)
Theorem C19_pseudo_unique : forall isReq lim fs te h,
  0 <= lim -> parseHeaders isReq lim fs te = inr h -> pseudo_unique fs.
Proof. exact parseHeaders_pseudo_unique. Qed.
Print Assumptions C19_pseudo_unique.

Theorem C19_content_length_numeric : forall isReq lim fs te h,
  0 <= lim -> parseHeaders isReq lim fs te = inr h -> cl_wf fs.
Proof. exact parseHeaders_cl_wf. Qed.
Print Assumptions C19_content_length_numeric.

(** The witnesses of the repaired defects are rejected as malformed. *)
Example C19_dup_witness_rejected :
  parseHeaders true 65536 dup_witness false = inl (EMalformed EmptyPseudo) /\
  parseHeaders false 65536 [mk ":status" ""; mk ":status" "200"] false = inl (EMalformed EmptyPseudo) /\
  parseHeaders true 65536 [mk ":method" "GET"; mk ":path" "/b"; mk ":path" "/a"] false = inl (EMalformed DupPseudo).
Proof. exact dup_witness_rejected. Qed.
Print Assumptions C19_dup_witness_rejected.

Example C19_empty_content_length_rejected :
  parseHeaders true 65536 cl_witness false = inl (EMalformed CLInvalid).
Proof. exact cl_witness_rejected. Qed.
Print Assumptions C19_empty_content_length_rejected.

(** (b) Anything else is rejected. *)
Theorem C19_reject_complete : forall isReq lim fs te,
  0 <= lim -> ~ WF isReq lim fs -> exists e, parseHeaders isReq lim fs te = inl e.
Proof. exact parseHeaders_reject. Qed.
Print Assumptions C19_reject_complete.

(** (a)+(b) sharpened: acceptance is EXACTLY "well-formed and Content-Length below 2^63" —
    nothing else is accepted and nothing well-formed is refused. *)
Theorem C19_accept_iff : forall isReq lim fs,
  0 <= lim -> ((exists h, parseHeaders isReq lim fs false = inr h) <-> WF isReq lim fs /\ cl_fits fs).
Proof. exact parseHeaders_iff. Qed.
Print Assumptions C19_accept_iff.

Theorem C19_accepts_wellformed : forall isReq lim fs,
  WF isReq lim fs -> cl_fits fs -> parseHeaders isReq lim fs false = inr (hdr_of fs).
Proof. exact parseHeaders_complete. Qed.
Print Assumptions C19_accepts_wellformed.

(** The byte-wise model of the lower-case test is a sound abstraction of Go's UTF-8 aware one:
    a name with a byte >= 0x80 can pass neither the token test nor the pseudo-header switch, so
    the section is malformed whichever test fires first. *)
Theorem C19_nonascii_names : forall n b,
  In b n -> 128 <= b -> lower_ok n = false /\ token_ok n = false /\ pseudo_slot n = None.
Proof. exact nonascii_name_never_valid. Qed.
Print Assumptions C19_nonascii_names.

(** ... with the error class the callers turn into the code RFC 9114 prescribes:
    ETooLarge (431 / H3_EXCESSIVE_LOAD) only if the section really exceeds the limit,
    EQpack (QPACK_DECOMPRESSION_FAILED) only for a decoding failure after flawless fields,
    everything else is malformed (H3_MESSAGE_ERROR). *)
Theorem C19_error_class : forall isReq lim fs te e,
  parseHeaders isReq lim fs te = inl e ->
  match e with
  | ETooLarge => lim < section_size fs
  | EQpack => te = true /\ exists st, ploop isReq (pinit lim) fs false = inr st
  | EMalformed _ => True
  end.
Proof. exact parseHeaders_error_class. Qed.
Print Assumptions C19_error_class.

(** Trailer sections. *)
Theorem C19_trailers_sound : forall lim fs te m,
  0 <= lim -> parseTrailers lim fs te = inr m ->
  te = false /\ WFtrailer lim fs /\ m = trailers_of fs.
Proof. exact parseTrailers_sound. Qed.
Print Assumptions C19_trailers_sound.

Theorem C19_trailers_reject : forall lim fs te,
  0 <= lim -> ~ WFtrailer lim fs -> exists e, parseTrailers lim fs te = inl e.
Proof. exact parseTrailers_reject. Qed.
Print Assumptions C19_trailers_reject.

(** Trailer sections: acceptance is EXACTLY [WFtrailer]. *)
Theorem C19_trailers_iff : forall lim fs,
  0 <= lim -> ((exists m, parseTrailers lim fs false = inr m) <-> WFtrailer lim fs).
Proof. exact parseTrailers_iff. Qed.
Print Assumptions C19_trailers_iff.

(** Request construction: what requestFromHeaders enforces ([request_rules_x]) ... *)
Theorem C19_request_rules : forall lim fs te uri r,
  0 <= lim -> requestFromHeaders lim fs te uri = inr r ->
  te = false /\ WF true lim fs /\ request_rules_x fs /\
  rqMethod r = last_value (bs ":method") fs /\ rqHost r = last_value (bs ":authority") fs /\
  rqCL r = hCL (hdr_of fs).
Proof. exact requestFromHeaders_sound. Qed.
Print Assumptions C19_request_rules.

(** ... which is the RFC's rule set (by presence; empty pseudo-header values are malformed, so
    emptiness and absence coincide) except for the one thing the code still does not look at: the
    presence of :scheme on a non-CONNECT request. *)
Theorem C19_request_rules_rfc : forall lim fs,
  WF true lim fs -> request_rules_x fs -> scheme_rule fs -> request_rules fs.
Proof. exact request_rules_rfc. Qed.
Print Assumptions C19_request_rules_rfc.

(** FINDING still open (low severity, pinned by the in-tree TestRequestHeaderParsing): a request
    without :scheme is accepted. *)
Theorem C19_request_scheme_refuted :
  exists fs r, requestFromHeaders 65536 fs false any_uri = inr r /\ ~ request_rules fs.
Proof. exact request_scheme_refuted. Qed.
Print Assumptions C19_request_scheme_refuted.

(** The witnesses of the repaired CONNECT deviations (CONNECT with :scheme, with an empty :path,
    with an empty :protocol) are rejected as malformed. *)
Example C19_connect_witnesses_rejected :
  requestFromHeaders 65536 [mk ":method" "CONNECT"; mk ":authority" "example.com:443"; mk ":scheme" "https"] false any_uri
    = inl (EMalformed ConnectSchemeRule) /\
  requestFromHeaders 65536 [mk ":method" "CONNECT"; mk ":authority" "example.com:443"; mk ":path" ""] false any_uri
    = inl (EMalformed EmptyPseudo) /\
  requestFromHeaders 65536 [mk ":method" "CONNECT"; mk ":protocol" ""; mk ":authority" "example.com:443"] false any_uri
    = inl (EMalformed EmptyPseudo).
Proof. exact connect_witnesses_rejected. Qed.
Print Assumptions C19_connect_witnesses_rejected.

(** Responses: :status present, non-empty, an integer. *)
Theorem C19_response_rules : forall lim fs te r,
  0 <= lim -> updateResponseFromHeaders lim fs te = inr r ->
  te = false /\ WF false lim fs /\ last_value (bs ":status") fs <> [] /\
  atoi (last_value (bs ":status") fs) = Some (rsCode r) /\ rsCL r = hCL (hdr_of fs).
Proof. exact updateResponse_sound. Qed.
Print Assumptions C19_response_rules.

(** Under uniqueness, the value the parser reports for a pseudo-header IS that field's value. *)
Theorem C19_pseudo_value : forall n fs f,
  pseudo_unique fs -> is_pseudo n = true -> In f fs -> fname f = n -> last_value n fs = fvalue f.
Proof. exact last_value_unique. Qed.
Print Assumptions C19_pseudo_value.

(** The tables the compiled parser uses are the RFC's: tchar, field-value bytes, the
    connection-specific names, the overhead of 32 (each breaks if /repo or x/net changes them). *)
Theorem C19_tables :
  (forall b, 0 <= b < 256 -> (tbl h3TokenTable b = true <-> rfc_tchar b)) /\
  (forall b, 0 <= b < 256 -> (tbl h3ValueTable b = true <-> rfc_value_byte b)) /\
  (forall b, 0 <= b < 256 -> tbl h3LowerTable b = true -> ~ (65 <= b <= 90)) /\
  conn_specific = connection_specific /\ h3FieldOverhead = 32.
Proof. exact tables_rfc. Qed.
Print Assumptions C19_tables.

(** Non-vacuity: well-formed sections exist and are accepted by every entry point. *)
Example C19_nonvacuous_request :
  exists r, requestFromHeaders 65536
    [mk ":method" "GET"; mk ":scheme" "https"; mk ":authority" "example.com"; mk ":path" "/a";
     mk "cookie" "a=1"; mk "content-length" "5"; mk "cookie" "b=2"] false any_uri = inr r
    /\ rqCL r = 5 /\ hget (bs "Cookie") (rqHeader r) = Some [bs "a=1; b=2"].
Proof. exact nonvacuous_request. Qed.
Print Assumptions C19_nonvacuous_request.

Example C19_nonvacuous_response :
  exists r, updateResponseFromHeaders 65536 [mk ":status" "200"; mk "x-a" "1"] false = inr r /\ rsCode r = 200.
Proof. exact nonvacuous_response. Qed.
Print Assumptions C19_nonvacuous_response.

Example C19_nonvacuous_trailers :
  exists m, parseTrailers 65536 [mk "grpc-status" "0"] false = inr m.
Proof. exact nonvacuous_trailers. Qed.
Print Assumptions C19_nonvacuous_trailers.

Example C19_nonvacuous_rejection :
  ~ WF true 65536 [mk ":method" "GET"; mk "x" "a"; mk ":path" "/"].
Proof. exact nonvacuous_rejection. Qed.
Print Assumptions C19_nonvacuous_rejection.

(** ** (c) Writers and parser agree (model H3Writers, tied to requestWriter / responseWriter /
    writeTrailers by the h3writers correspondence run).

    What encodeHeaders rejects, explicitly: a host that is not a valid Host header, a target that
    is no valid :path even after stripping scheme://host, a header name that is no token, a
    header value with a forbidden byte, a TE value other than "trailers". *)
Theorem C19_request_writer_rejects : forall q,
  emit_request q = None <->
  (wHostOK q = false \/ (sends_path q = true /\ wpath q = None) \/
   exists e, In e (wHeader q) /\ header_entry_ok e = false).
Proof. exact request_writer_rejects. Qed.
Print Assumptions C19_request_writer_rejects.

(** For EVERY abstract request the writer accepts (any iteration order of the header map) and
    whose caller-provided values are sane ([wreq_pre]: non-empty host, legal bytes in the
    pseudo-header values, a target url.ParseRequestURI accepts, Content-Length < 2^63), the
    emitted list is accepted by parseHeaders + requestFromHeaders within any limit it fits, and
    yields the same method (GET for ""), authority, target, protocol and Content-Length. *)
Theorem C19_writer_parser_agree : forall q uri lim pre mid post,
  emit_request3 q = Some (pre, mid, post) -> wreq_pre q uri ->
  section_size (pre ++ mid ++ post) <= lim ->
  exists r, requestFromHeaders lim (pre ++ mid ++ post) false uri = inr r /\
    rqMethod r = eff_method q /\ rqHost r = wHost q /\
    rqURI r = (if is_connect q then wHost q else the_path q) /\
    rqProto r = (if is_ext_connect q then wProto q else bs "HTTP/3.0") /\
    rqCL r = (if send_cl (wMethod q) (wCL q) then wCL q else -1).
Proof. exact request_agree. Qed.
Print Assumptions C19_writer_parser_agree.

(** ... and its header fields are exactly the entries of req.Header minus the documented drops
    (host, content-length, connection-specific names, all but the first non-empty User-Agent),
    which the parser files under the canonical key, values in order ([C19_header_map]). *)
Theorem C19_request_writer_fields : forall q n v,
  In (F n v) (req_mid q) <->
  exists k vs, In (k, vs) (wHeader q) /\ n = lower_bytes k /\ dropped_name k = false /\
    (if eqfold k "user-agent" then exists r, vs = v :: r /\ v <> [] else In v vs).
Proof. exact request_mid_fields. Qed.
Print Assumptions C19_request_writer_fields.

Theorem C19_header_map : forall isReq lim fs n,
  WF isReq lim fs -> token_ok n = true -> lower_ok n = true -> n <> bs "content-length" ->
  hget (canon n) (headers_of fs) = match field_values n fs with [] => None | vs => Some vs end.
Proof. exact header_map_values. Qed.
Print Assumptions C19_header_map.

(** Responses: for EVERY header map a handler can leave behind — no hygiene assumed, since
    fixes/C19-response-writer-sanitises-fields.patch makes writeHeader leave out what the peer must
    reject (names that are no tokens, values with forbidden bytes, empty / non-numeric / second
    Content-Length, besides connection-specific fields, TE != trailers, declared trailers and
    "Trailer:" keys) — the emitted section is accepted by updateResponseFromHeaders with the same status. *)
Theorem C19_writer_parser_agree_response : forall status h lim,
  100 <= status <= 999 -> section_size (rsp_fields status h) <= lim ->
  exists r, updateResponseFromHeaders lim (rsp_fields status h) false = inr r /\
            rsCode r = status /\ rsCL r = hCL (hdr_of (rsp_fields status h)).
Proof. exact response_agree. Qed.
Print Assumptions C19_writer_parser_agree_response.

(** Trailers (both writers), for EVERY trailer map (fixes/C19-write-trailers-sanitises-fields.patch):
    a written trailer section is never empty, is accepted by parseTrailers and decodes to the same
    fields; and NOTHING is written exactly when no sendable trailer has a sendable value. *)
Theorem C19_writer_parser_agree_trailers : forall t fs lim,
  write_trailers t = Some fs -> section_size fs <= lim ->
  fs <> [] /\ parseTrailers lim fs false = inr (trailers_of fs).
Proof. exact trailers_agree. Qed.
Print Assumptions C19_writer_parser_agree_trailers.

Theorem C19_trailers_emit_decision : forall t,
  write_trailers t = None <->
  (forall k vs v, In (k, vs) t -> valid_to_send k = true -> In v vs -> value_ok v = false).
Proof. exact trailers_none. Qed.
Print Assumptions C19_trailers_emit_decision.

Example C19_nonvacuous_writer_request :
  wreq_pre ex_req any_uri /\
  emit_request ex_req = Some
    [mk ":authority" "example.com"; mk ":method" "POST"; mk ":path" "/a?b=c"; mk ":scheme" "https";
     mk "trailer" "X-Checksum"; mk "accept" "text/html"; mk "cookie" "a=1"; mk "cookie" "b=2"; mk "te" "trailers";
     mk "content-length" "5"; mk "accept-encoding" "gzip"; F (bs "user-agent") (hx h3DefaultUserAgent)].
Proof. exact (conj ex_req_pre ex_req_emitted). Qed.
Print Assumptions C19_nonvacuous_writer_request.

(** The former witnesses of the repaired response-writer defects (audit round): a handler map with an
    empty, a contradicting and a non-numeric Content-Length, a value containing LF and a name containing
    a space now yields a clean section that the client accepts. *)
Example C19_nonvacuous_writer_response :
  rsp_fields 200 ex_rsp_dirty = [mk ":status" "200"; mk "content-length" "5"; mk "x-a" "ok"] /\
  exists r, updateResponseFromHeaders 65536 (rsp_fields 200 ex_rsp_dirty) false = inr r /\ rsCode r = 200 /\ rsCL r = 5.
Proof. exact ex_rsp_ok. Qed.
Print Assumptions C19_nonvacuous_writer_response.

Example C19_nonvacuous_writer_trailers :
  write_trailers [(bs "X-Checksum", [bs "abc"; bs "a" ++ [10] ++ bs "b"]); (bs "Upgrade", [bs "x"]); (bs "X T", [bs "v"]); (bs "X-Empty", [])]
    = Some [mk "x-checksum" "abc"] /\
  write_trailers [(bs "X-Checksum", [[0]]); (bs "Upgrade", [bs "x"]); (bs "Content-Length", [bs "5"]); (bs "X-Nil", [])] = None.
Proof. exact ex_trailers. Qed.
Print Assumptions C19_nonvacuous_writer_trailers.

(** ** End-to-end composition on the header map (round 4): parser model applied to writer model
    output, for ALL header maps — keys in any spelling (cf. seeded change C19-e), any iteration
    order.  [expected_values q n] is what the abstract request carries under the lower-case name
    [n]: the values of every req.Header entry whose key equals [n] ASCII-case-insensitively, minus
    the documented drops (host, content-length, connection-specific names, all but the first
    non-empty User-Agent), plus what the writer adds (accept-encoding: gzip, default User-Agent). *)
Theorem C19_writer_parser_agree_headers : forall q uri lim pre mid post r,
  emit_request3 q = Some (pre, mid, post) -> wreq_pre q uri ->
  section_size (pre ++ mid ++ post) <= lim ->
  requestFromHeaders lim (pre ++ mid ++ post) false uri = inr r ->
  (forall n, token_ok n = true -> lower_ok n = true ->
             n <> bs "content-length" -> n <> bs "cookie" -> n <> bs "trailer" ->
             hget (canon n) (rqHeader r) = opt_values (expected_values q n)) /\
  hget (bs "Cookie") (rqHeader r) =
    match expected_values q (bs "cookie") with [] => None | c :: cs => Some [join (bs "; ") (c :: cs)] end /\
  hget (bs "Content-Length") (rqHeader r) =
    (if send_cl (wMethod q) (wCL q) then Some [itoa (wCL q)] else None) /\
  hget (bs "Trailer") (rqHeader r) = None.
Proof. exact request_agree_headers. Qed.
Print Assumptions C19_writer_parser_agree_headers.

Theorem C19_writer_parser_agree_response_headers : forall status h lim r n,
  0 <= lim -> updateResponseFromHeaders lim (rsp_fields status h) false = inr r ->
  token_ok n = true -> lower_ok n = true -> n <> bs "content-length" -> n <> bs "trailer" ->
  hget (canon n) (rsHeader r) = opt_values (rsp_expected h n).
Proof. exact response_agree_headers. Qed.
Print Assumptions C19_writer_parser_agree_response_headers.

Theorem C19_writer_parser_agree_trailer_values : forall t fs lim n,
  write_trailers t = Some fs -> section_size fs <= lim ->
  token_ok n = true -> lower_ok n = true ->
  exists m, parseTrailers lim fs false = inr m /\ hget (canon n) m = opt_values (trailers_expected t n).
Proof. exact trailers_agree_values. Qed.
Print Assumptions C19_writer_parser_agree_trailer_values.

Example C19_nonvacuous_noncanonical_keys :
  wreq_pre ex_req_e any_uri /\
  emit_request ex_req_e = Some
    [mk ":authority" "example.com"; mk ":method" "GET"; mk ":path" "/a"; mk ":scheme" "https";
     mk "x-a" "1"; mk "x-a" "2"; mk "cookie" "a=1"; mk "cookie" "b=2"; mk "user-agent" "ua1"] /\
  expected_values ex_req_e (bs "x-a") = [bs "1"; bs "2"] /\
  expected_values ex_req_e (bs "connection") = [] /\ expected_values ex_req_e (bs "host") = [] /\
  expected_values ex_req_e (bs "user-agent") = [bs "ua1"].
Proof. exact ex_req_e_facts. Qed.
Print Assumptions C19_nonvacuous_noncanonical_keys.

(** Receive-side glue (decodeTrailers: frame-length gate, payload read, QPACK, parseTrailers):
    accepted only if the frame fits maxHeaderBytes, nothing was cut, the payload is not empty and the
    section is a well-formed trailer section within the same limit; and every trailer section a
    writer emits passes it. *)
Theorem C19_decode_trailers_sound : forall maxb enclen tr fs m,
  0 <= maxb -> decode_trailers maxb enclen tr fs = inr m ->
  enclen <= maxb /\ tr = false /\ fs <> [] /\ WFtrailer maxb fs /\ m = trailers_of fs.
Proof. exact decode_trailers_sound. Qed.
Print Assumptions C19_decode_trailers_sound.

Theorem C19_writer_decode_agree : forall t fs maxb enclen,
  write_trailers t = Some fs -> enclen <= maxb -> section_size fs <= maxb ->
  decode_trailers maxb enclen false fs = inr (trailers_of fs).
Proof. exact writer_decode_agree. Qed.
Print Assumptions C19_writer_decode_agree.

(** WriteHeader's defaults: a Date is always present afterwards; a canonical Content-Length whose first
    value is non-empty is numeric (a malformed one is deleted); every other key is left alone. *)
Theorem C19_write_header_defaults : forall d h,
  get_exact (bs "Date") (rsp_prepare d h) <> None /\
  (forall c cs, get_exact k_content_length (rsp_prepare d h) = Some (c :: cs) -> c <> [] -> exists v, parse_uint63 c = Some v) /\
  (forall k, k <> bs "Date" -> k <> k_content_length -> get_exact k (rsp_prepare d h) = get_exact k h).
Proof. exact rsp_prepare_spec. Qed.
Print Assumptions C19_write_header_defaults.
