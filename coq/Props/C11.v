(** C11 -- ClientHello and transport parameters on the wire are exactly what the spec says.
    Only statements live here; each is closed by [exact] of a lemma proved in coq/USpec. *)
From Coq Require Import List ZArith Bool Permutation Lia.
From V Require Import UDial.Model UDial.Proofs.   (* C02's model of the dial: spec_state, run, edits, wf_spec *)
From V Require Import Gen.Params Lib.Hex Wire.Varint USpec.Model USpec.Proofs USpec.ProofsShuffle
  USpec.ProofsWire USpec.ProofsFp USpec.ProofsDial.   (* [dial] below is USpec.Model.dial *)
From V Require UFrames.Model UFrames.Proofs UPacker.Model UPacker.ProofsRandom USpec.ProofsBuilder.
From V Require USpec.RunDial USpec.RunFp USpec.ProofsFpCase USpec.ProofsFrameBytes USpec.HistoryModel USpec.History USpec.ProofsBuiltin.
Import ListNotations.
Open Scope Z_scope.

(** (c) Suppression removes exactly the listed ids -- every GREASE id (31*N+27) when 27 is
    listed --, is idempotent and keeps the order of the rest. *)
Theorem C11_suppress_spec : forall sup ps,
  suppress sup ps = filter (fun p => keptb sup (pid p)) ps
  /\ (forall id, keptb sup id = true <->
        (~ In id sup /\ (In 27 sup -> ~ (27 <= id /\ (id - 27) mod 31 = 0))))
  /\ suppress sup (suppress sup ps) = suppress sup ps
  /\ subseq (suppress sup ps) ps.
Proof. exact suppress_spec. Qed.
Print Assumptions C11_suppress_spec.

(** (b) The shuffle yields a permutation for every list of draws ... *)
Theorem C11_shuffle_perm : forall (l : list param) (js : list nat), Permutation l (shuffle l js).
Proof. exact (@shuffle_perm param). Qed.
Print Assumptions C11_shuffle_perm.

(** ... and on a duplicate-free list the map from admissible draw vectors (one draw in [0,i]
    for i = n-1 .. 1) to permutations is injective and surjective: uniform draws give the
    uniform distribution over all n! orders, and every order is reachable. *)
Theorem C11_shuffle_bijective : forall (l : list param), NoDup l ->
  (forall js1 js2, admissible (length l - 1) js1 -> admissible (length l - 1) js2 ->
                   shuffle l js1 = shuffle l js2 -> js1 = js2) /\
  (forall p, Permutation l p -> exists js, admissible (length l - 1) js /\ shuffle l js = p) /\
  (forall js, Permutation l (shuffle l js)).
Proof. exact (@shuffle_bijective param). Qed.
Print Assumptions C11_shuffle_bijective.

(** the admissible draw vectors are exactly [all_draws], (i+1)! of them *)
Theorem C11_shuffle_draw_count : forall i,
  (forall js, admissible i js <-> In js (all_draws i)) /\ length (all_draws i) = fact (S i).
Proof. exact (fun i => conj (all_draws_complete i) (all_draws_length i)). Qed.
Print Assumptions C11_shuffle_draw_count.

(** Round 3.  Every order is reachable -- the identity explicitly, by drawing j = i at every
    step -- which is what distinguishes rand.Shuffle's loop from Sattolo's variant (draws from
    [0, i-1]): that one never leaves a duplicate-free list of two or more elements in place.
    (The correspondence compares the exact order ShuffleQUICTransportParams produces with the
    model's under the recorded draws, so an implementation drawing from the smaller range is
    not the model.) *)
Theorem C11_shuffle_reaches_identity : forall (l : list param),
  admissible (length l - 1) (ident_draws (length l - 1)) /\
  shuffle l (ident_draws (length l - 1)) = l.
Proof. exact (@shuffle_reaches_identity param). Qed.
Print Assumptions C11_shuffle_reaches_identity.

Theorem C11_shuffle_reaches_every_order : forall (l p : list param),
  Permutation l p -> exists js, admissible (length l - 1) js /\ shuffle l js = p.
Proof. exact (@shuffle_surjective param). Qed.
Print Assumptions C11_shuffle_reaches_every_order.

Theorem C11_sattolo_never_identity : forall (l : list param) js,
  NoDup l -> (2 <= length l)%nat -> sattolo_admissible (length l - 1) js -> shuffle l js <> l.
Proof. exact (@sattolo_never_identity param). Qed.
Print Assumptions C11_sattolo_never_identity.

(** (b) What a dial hands to uTLS, and what a reader of the marshalled extension gets back:
    exactly the suppressed list -- in spec order, or permuted by the draws -- with the same
    ids (GREASE included) and the same values, an empty typed initial_source_connection_id
    standing for the connection's source connection ID.  ClientOverride is those bytes. *)
Theorem C11_wire_is_spec : forall sup rnd js scid ps v ps' ov,
  Forall wfp ps -> zlen scid <= maxVarInt8 ->
  dial sup rnd js scid ps = Some (v, ps', ov) ->
  ov = marshal ps' /\ parse (marshal ps') = Some (map idval ps') /\
  (if rnd then Permutation (suppress sup ps) (dial_list sup rnd js ps)
   else dial_list sup rnd js ps = suppress sup ps) /\
  Forall2 filled (dial_list sup rnd js ps) ps' /\
  map pid ps' = map pid (dial_list sup rnd js ps) /\
  (forallb (fun p => negb (needs_fill p)) ps = true -> ps' = dial_list sup rnd js ps).
Proof. exact wire_is_spec. Qed.
Print Assumptions C11_wire_is_spec.

(** Round 3, clause (b) end to end: any history of dials of ONE spec value (C02's model
    [UDial.Model.run] of the repaired newUClientConnection: per-dial copy, suppress, optional
    shuffle, PopulateFromUQUIC, uTLS marshals the connection's own list), with the caller's
    edits of the suppression list and the randomize flag in between.  A reader of extension 57
    of the k-th dial finds [wire_list]: the spec's list as written, minus the currently
    suppressed ids, in spec order or permuted by THIS dial's draws, every parameter with its
    own id and value, an empty initial_source_connection_id carrying this dial's source
    connection ID. *)
Theorem C11_dial_k_wire : forall st ops1 scid o ops2 st' views,
  wf_spec st -> zlen scid <= maxVarInt8 ->
  run st (ops1 ++ ODial scid o :: ops2) = Some (st', views) ->
  let cur := edits st ops1 in
  exists w,
    nth_error views (count_dials ops1) = Some (scid, w) /\
    parse (wExt w) = Some (wire_list (sSup cur) (sRnd cur) (oJs o) scid (sParams st)) /\
    dial_wire_bytes cur (oJs o) scid = Some (wExt w) /\
    (if sRnd cur
     then Permutation (suppress (sSup cur) (sParams st)) (dial_list (sSup cur) (sRnd cur) (oJs o) (sParams st))
     else dial_list (sSup cur) (sRnd cur) (oJs o) (sParams st) = suppress (sSup cur) (sParams st)).
Proof. exact dial_k_wire. Qed.
Print Assumptions C11_dial_k_wire.

(** what [wire_list] is: the kept list with the source connection ID filled in, permuted or not *)
Theorem C11_wire_list_content : forall sup rnd js scid ps,
  Permutation (wire_list sup rnd js scid ps) (map idval (map (fill scid) (suppress sup ps))) /\
  (rnd = false -> wire_list sup rnd js scid ps = map idval (map (fill scid) (suppress sup ps))) /\
  map fst (wire_list sup rnd js scid ps) = map pid (dial_list sup rnd js ps).
Proof. exact wire_list_content. Qed.
Print Assumptions C11_wire_list_content.

(** The bytes of a dial depend on the caller's settings at that point, that dial's own draws and
    its own source connection ID -- not on any other dial of the history.  BY CONSTRUCTION of the
    model (audit P2): [UDial.Model.dial] returns the state it was given, which is the repaired
    dialClientHelloSpec's per-dial copy; that the CODE behaves so is what unit uspecdial ties
    (monitors spec-untouched / fresh-order, seeds D1, D5), and that the draws of different dials
    are independent is an input of the model (each dial has its own oracle), not a result. *)
Theorem C11_dial_k_independent_by_construction : forall st opsA scid oA opsA' stA viewsA opsB oB opsB' stB viewsB,
  wf_spec st -> zlen scid <= maxVarInt8 ->
  run st (opsA ++ ODial scid oA :: opsA') = Some (stA, viewsA) ->
  run st (opsB ++ ODial scid oB :: opsB') = Some (stB, viewsB) ->
  sSup (edits st opsA) = sSup (edits st opsB) -> sRnd (edits st opsA) = sRnd (edits st opsB) ->
  oJs oA = oJs oB ->
  exists wA wB,
    nth_error viewsA (count_dials opsA) = Some (scid, wA) /\
    nth_error viewsB (count_dials opsB) = Some (scid, wB) /\
    wExt wA = wExt wB.
Proof. exact dial_k_independent. Qed.
Print Assumptions C11_dial_k_independent_by_construction.

(** ... and every order of the kept list is available to a randomised dial.  (About [wire_list];
    it reaches the k-th dial of a history through C11_dial_k_wire / C11_hdial_k_wire.  Audit P7: the
    former statement carried two unused hypotheses.) *)
Theorem C11_wire_list_any_order : forall sup scid ps target,
  Permutation (suppress sup ps) target ->
  exists js, admissible (length target - 1) js /\
             wire_list sup true js scid ps = map idval (map (fill scid) target).
Proof. exact wire_list_any_order. Qed.
Print Assumptions C11_wire_list_any_order.

(** Round 8 (audit P3).  Histories that also contain calls of QUICSpec.TransportParamIDs()
    ([HistoryModel.hop]: dial / set suppression list / set randomize flag / IDs()).  Since the
    repair fixes/C11-transport-parameter-ids-on-a-copy.patch the method computes on a copy, so
    for the dials a history with IDs() calls is the same history without them ... *)
Theorem C11_hrun_erase : forall ops st,
  match HistoryModel.hrun st ops, run st (HistoryModel.erase_ids ops) with
  | Some (st1, outs), Some (st2, views) => st1 = st2 /\ HistoryModel.wires_of outs = views
  | None, None => True
  | _, _ => False
  end.
Proof. exact History.hrun_erase. Qed.
Print Assumptions C11_hrun_erase.

(** ... C11_dial_k_wire holds for every dial of every such history ... *)
Theorem C11_hdial_k_wire : forall st ops1 scid o ops2 st' outs,
  wf_spec st -> zlen scid <= maxVarInt8 ->
  HistoryModel.hrun st (ops1 ++ HistoryModel.HDial scid o :: ops2) = Some (st', outs) ->
  let cur := History.hedits st ops1 in
  exists w,
    nth_error (HistoryModel.wires_of outs) (count_dials (HistoryModel.erase_ids ops1)) = Some (scid, w) /\
    parse (wExt w) = Some (wire_list (sSup cur) (sRnd cur) (oJs o) scid (sParams st)) /\
    (if sRnd cur
     then Permutation (suppress (sSup cur) (sParams st)) (dial_list (sSup cur) (sRnd cur) (oJs o) (sParams st))
     else dial_list (sSup cur) (sRnd cur) (oJs o) (sParams st) = suppress (sSup cur) (sParams st)).
Proof. exact History.hdial_k_wire. Qed.
Print Assumptions C11_hdial_k_wire.

(** ... and every IDs() call returns the canonical ids of the spec AS WRITTEN under the
    suppression list in force at that point (by C11_ids_canonical: of what a dial at that point
    sends), whatever calls and dials came before, and the spec keeps its list. *)
Theorem C11_hist_ids : forall ops1 st ops2 st' outs,
  HistoryModel.hrun st (ops1 ++ HistoryModel.HIds :: ops2) = Some (st', outs) ->
  nth_error (History.ids_outs outs) (History.count_ids ops1) =
    Some (fst (tp_ids (sSup (History.hedits st ops1)) (sParams st))) /\ sParams st' = sParams st.
Proof. exact History.hrun_ids_prefix. Qed.
Print Assumptions C11_hist_ids.

(** Before the repair (model [hrun_legacy]: the method suppressed on the spec's own list) the
    history  suppress [4]; IDs(); suppress []; dial  sent [1; 9] although the spec as written
    has parameter 4 and nothing is suppressed: C11_dial_k_wire REFUTED for that code.  The
    repaired model sends [4; 1; 9].  (Replayed on the code by unit uspecdial, monitor
    uspecdial/ids-mutates-spec.) *)
Theorem C11_ids_legacy_refuted :
  option_map (fun r => History.wire_ids (snd r)) (HistoryModel.hrun_legacy History.p3_spec History.p3_history) = Some [Some [1; 9]] /\
  option_map (fun r => History.wire_ids (snd r)) (HistoryModel.hrun History.p3_spec History.p3_history) = Some [Some [4; 1; 9]] /\
  wire_list [] false [] [] (sParams History.p3_spec) = [(4, [5]); (1, [7]); (9, [3])].
Proof. exact History.p3_legacy_refuted. Qed.
Print Assumptions C11_ids_legacy_refuted.

(** Audit P4: WHICH value lands in the placeholder ([filled] above leaves it open).  When the
    spec has no typed initial_source_connection_id with an explicit value, the list a dial hands
    to uTLS is the dial list with every typed EMPTY placeholder replaced by the connection's
    source connection ID; a raw parameter with id 0x0f is left alone (seed C11-c). *)
Theorem C11_wire_values : forall sup rnd js scid ps v ps' ov,
  Forall no_explicit ps ->
  dial sup rnd js scid ps = Some (v, ps', ov) ->
  ps' = map (fill_typed scid) (dial_list sup rnd js ps) /\
  vInitialSourceConnectionID v = scid /\ ov = marshal ps'.
Proof. exact wire_values. Qed.
Print Assumptions C11_wire_values.

(** the reader inverts the marshaller on every encodable list *)
Theorem C11_parse_marshal : forall ps, Forall wfp ps -> parse (marshal ps) = Some (map idval ps).
Proof. exact parse_marshal. Qed.
Print Assumptions C11_parse_marshal.

(** (d) TransportParamIDs() is what a fingerprinter canonicalising the wire of a later
    dial computes (GREASE folded to 27, sorted, duplicates kept), whatever the permutation;
    calling it first does not change what the dial sends. *)
Theorem C11_ids_canonical : forall sup rnd js scid ps v ps' ov wire,
  Forall wfp ps -> zlen scid <= maxVarInt8 ->
  dial sup rnd js scid (snd (tp_ids sup ps)) = Some (v, ps', ov) ->
  parse ov = Some wire ->
  fst (tp_ids sup ps) = isort (map (fun p => fp_canon (fst p)) wire) /\
  length (fst (tp_ids sup ps)) = length wire /\
  dial sup rnd js scid (snd (tp_ids sup ps)) = dial sup rnd js scid ps.
Proof. exact ids_canonical. Qed.
Print Assumptions C11_ids_canonical.

(** (e) The input of the reference fingerprinter's hash is the same for two flights with the
    same first-packet header, the same SET of frame types, and transport parameters that are
    permutations of each other (ids distinct) ... *)
Theorem C11_fp_invariant : forall a r1 b r2 ch w1 w2,
  same_header a b ->
  (forall t, In t (frame_types (a :: r1)) <-> In t (frame_types (b :: r2))) ->
  NoDup (map fst w1) -> Permutation w1 w2 ->
  fp_features (a :: r1) ch w1 = fp_features (b :: r2) ch w2.
Proof. exact fp_invariant. Qed.
Print Assumptions C11_fp_invariant.

(** ... in particular under the shuffle, for all draws ... *)
Theorem C11_fp_shuffle_invariant : forall (l : list param) js1 js2,
  NoDup (map pid l) ->
  qtp_features (map idval (shuffle l js1)) = qtp_features (map idval (shuffle l js2)).
Proof. exact qtp_features_shuffle. Qed.
Print Assumptions C11_fp_shuffle_invariant.

(** ... and the hashed frame-type list is equal exactly when the sets are. *)
Theorem C11_fp_frame_set : forall pkts1 pkts2,
  (forall t, In t (frame_types pkts1) <-> In t (frame_types pkts2)) <->
  frame_set pkts1 = frame_set pkts2.
Proof. exact frame_set_ext. Qed.
Print Assumptions C11_fp_frame_set.

(** The proviso holds for every built-in parrot: for each randomised frame builder of each
    built-in QUICID (table [uspec_parrot_ping_ranges], generated from QUICID2Spec on every
    run) the PING count cannot be zero on one dial and positive on another, so the hashed
    frame-type set is the same for all draws.  (Before the repair "Chrome_115 parrots:
    MinPING 0 -> 1" this theorem was C11_fp_invariant_refuted; an edit that re-introduces a
    range mixing 0 with a positive count makes [parrots_ping_ranges_ok] fail to check.) *)
Theorem C11_parrots_ping_stable : forall r, In r uspec_parrot_ping_ranges ->
  forall n1 n2, draw_ok (fst r) (snd r) (Z.of_nat n1) = true -> draw_ok (fst r) (snd r) (Z.of_nat n2) = true ->
  forall k nC nPad, nC <> O ->
    frame_set (built k n1 nC nPad) = frame_set (built k n2 nC nPad).
Proof. exact parrots_ping_stable. Qed.
Print Assumptions C11_parrots_ping_stable.

(** The general facts behind it.  A range that cannot mix zero with a positive count
    ([ping_range_ok]: zero is not drawable, or nothing but zero is) keeps the set ... *)
Theorem C11_fp_ping_range_stable : forall mn mx n1 n2,
  ping_range_ok mn mx = true ->
  draw_ok mn mx (Z.of_nat n1) = true -> draw_ok mn mx (Z.of_nat n2) = true ->
  forall k nC nPad, nC <> O ->
    frame_set (built k n1 nC nPad) = frame_set (built k n2 nC nPad).
Proof. exact ping_range_stable. Qed.
Print Assumptions C11_fp_ping_range_stable.

Theorem C11_fp_ping_stable : forall mn mx n1 n2,
  1 <= mn -> draw_ok mn mx (Z.of_nat n1) = true -> draw_ok mn mx (Z.of_nat n2) = true ->
  forall k nC nPad, nC <> O ->
    frame_set (built k n1 nC nPad) = frame_set (built k n2 nC nPad).
Proof. exact fp_ping_stable. Qed.
Print Assumptions C11_fp_ping_stable.

(** ... and every other range (of non-negative bounds) allows 0 and 1 PINGs, which give
    different inputs to the hash whatever the rest of the flight is: the criterion is exact. *)
Theorem C11_fp_ping_mix_differs : forall mn mx, 0 <= mn -> ping_range_ok mn mx = false ->
  draw_ok mn mx 0 = true /\ draw_ok mn mx (Z.of_nat 1) = true /\
  forall k nC nPad ch w,
    fp_features (built k 0 nC nPad) ch w <> fp_features (built k 1 nC nPad) ch w.
Proof. exact ping_mix_differs. Qed.
Print Assumptions C11_fp_ping_mix_differs.

(** Round 4.  The frame-type set is DERIVED from C09's byte-exact model of
    QUICRandomFrames.buildInternal (UFrames.Model.build_internal: counts, clamps, cuts, dry run,
    PADDING, shuffle) on a slice C10's packer model may hand it (at most maxCryptoData bytes,
    C10_random_split_exact), for every value of both randomness sources: PADDING always (at least
    MinPADDING bytes, C10_random_payload_exact), CRYPTO always (C09_random_frames_counts), PING
    iff MinPING >= 1 when the PING range is not mixed. *)
Theorem C11_builder_frame_types : forall p data base bs us ws bs' us',
  ProofsBuilder.builder_ok p -> ProofsBuilder.slice_ok p data base ->
  UFrames.Model.build_internal p data base bs us = UFrames.Model.Ok (ws, bs', us') ->
  forall t, In t (ProofsBuilder.wtypes ws) <-> In t (ProofsBuilder.builder_types p).
Proof. exact ProofsBuilder.frame_types_from_builder. Qed.
Print Assumptions C11_builder_frame_types.

(** ... for every randomised builder of every built-in parrot (all seven fields generated from
    QUICID2Spec into [uspec_parrot_builders]): its parameters are accepted, every payload it
    builds shows exactly [builder_types], and two payloads -- different slices, offsets, draws --
    show the same set.  C11_parrots_ping_stable is the PING part of this, read off the range
    table; here it follows from the builder model. *)
Theorem C11_fp_frame_types_from_builder : forall r, In r uspec_parrot_builders ->
  let p := ProofsBuilder.rf_of r in
  ProofsBuilder.builder_ok p /\
  forall d1 b1 bs1 us1 ws1 r1 s1 d2 b2 bs2 us2 ws2 r2 s2,
    ProofsBuilder.slice_ok p d1 b1 -> ProofsBuilder.slice_ok p d2 b2 ->
    UFrames.Model.build_internal p d1 b1 bs1 us1 = UFrames.Model.Ok (ws1, r1, s1) ->
    UFrames.Model.build_internal p d2 b2 bs2 us2 = UFrames.Model.Ok (ws2, r2, s2) ->
    (forall t, In t (ProofsBuilder.wtypes ws1) <-> In t (ProofsBuilder.builder_types p)) /\
    (forall t, In t (ProofsBuilder.wtypes ws1) <-> In t (ProofsBuilder.wtypes ws2)).
Proof. exact ProofsBuilder.parrots_frame_types_from_builder. Qed.
Print Assumptions C11_fp_frame_types_from_builder.

(** Every field clienthellod hashes for the gathered Initial packets is a function of the spec
    (the packer configuration [c] of C10's flight model and the builder parameters [p]), not of
    the ClientHello length, the payload-length oracle, the slices or the draws: DCID and SCID
    lengths and token presence are configuration fields (C10_cid_lengths, C10_token say how
    the dial derives them from the spec); the first packet's number and its encoded length come
    from C10_header_fields (pn = c_first, length = peekPnLen of the spec's list); the frame-type
    list from C11_builder_frame_types.  [version] is the negotiated QUIC version (not a spec
    field; constant per dial). *)
(* Audit P5: version, DCID/SCID length and the token flag on the right-hand side are the model's
   own configuration inputs (their derivation from the spec is C10's C10_cid_lengths / C10_token);
   the components with content are the packet-number bytes (C10_header_fields) and the frame
   set (C11_builder_frame_types); [slice_ok] inside [built_by] stays a hypothesis.  Hence _partial. *)
Theorem C11_fp_features_deterministic_partial : forall version c p helloLen plens pn pnLen h fs lf pk dl ix rp ws wss,
  ProofsBuilder.builder_ok p ->
  nth_error (UPacker.Model.flight c helloLen plens) 0 = Some (UPacker.Model.DG pn pnLen h fs lf pk dl ix rp) ->
  Forall (ProofsBuilder.built_by p) (ws :: wss) ->
  gci_features (ProofsBuilder.pkt_of version c pn pnLen ws :: map (fun w => ProofsBuilder.pkt_of version c 0 0 w) wss)
  = Some (version, UPacker.Model.c_dcid c, UPacker.Model.c_scid c,
          ProofsBuilder.pn_bytes (UPacker.Model.pnLenOf c 0) (UPacker.Model.c_first c),
          dedup (isort (ProofsBuilder.builder_types p)), 0 <? UPacker.Model.c_tokLen c).
Proof. exact ProofsBuilder.fp_features_deterministic. Qed.
Print Assumptions C11_fp_features_deterministic_partial.

(** Round 7.  The simulated dials of unit simfingerprint are replayed by the model
    (USpec/RunFp.v).  The simulation does not seed math/rand, so a randomised dial is accepted
    when the wire is a permutation ([perm_eqb]) of the model's unshuffled wire.  That test is
    exactly "the model's dial under SOME admissible draw vector": *)
Theorem C11_fp_case_has_draws : forall sup scid ps w,
  RunFp.perm_eqb (wire_list sup false [] scid ps) w = true ->
  exists js, admissible (length (suppress sup ps) - 1) js /\ wire_list sup true js scid ps = w.
Proof. exact ProofsFpCase.fp_case_has_draws. Qed.
Print Assumptions C11_fp_case_has_draws.

Theorem C11_fp_case_any_draws : forall sup scid ps js,
  RunFp.perm_eqb (wire_list sup false [] scid ps) (wire_list sup true js scid ps) = true.
Proof. exact ProofsFpCase.fp_case_any_draws. Qed.
Print Assumptions C11_fp_case_any_draws.

(** dialClientHelloSpec's per-dial copies: in every history the k-th dial's key_share entries
    are the spec's -- groups in order (in the model; on the wire a GREASE group is re-drawn by uTLS
    per connection, the replay compares groups under [norm16]); a GREASE entry and a key the
    caller supplied with their own bytes; nothing is stated about generated keys (audit P6: with
    an empty oracle [gen_keys] even returns the share unkeyed; C02_dial_k_fresh_keys covers the
    all-generated case) -- its server name is the spec's (or the dial's
    tls.Config name when the spec leaves it empty), and the spec value keeps its key shares,
    server name and parameter list whatever the dials did. *)
(* the three "spec keeps ..." conjuncts are by construction of the model, see C11_dial_k_independent_by_construction *)
Theorem C11_dial_k_keys : forall st ops1 scid o ops2 st' views,
  run st (ops1 ++ ODial scid o :: ops2) = Some (st', views) ->
  exists w, nth_error views (count_dials ops1) = Some (scid, w) /\
    Forall2 ProofsFpCase.key_rel (sKeys st) (wKeys w) /\
    wSNI w = pick_sni (sSNI st) (oName o) /\
    sKeys st' = sKeys st /\ sSNI st' = sSNI st /\ sParams st' = sParams st.
Proof. exact ProofsFpCase.dial_k_keys. Qed.
Print Assumptions C11_dial_k_keys.

(** The classes the replay folds: a GREASE value is one of uTLS's sixteen 0x?a?a values with
    equal bytes (the raw values uTLS puts on the wire are classified by this predicate in
    RunFp, so it is tied to uTLS's output); the extension list is the spec's, position by
    position with GREASE folded, except that padding extensions may be left out. *)
Theorem C11_grease16_class : forall v, 0 <= v < 65536 ->
  (isGrease16 v = true <-> exists k, 0 <= k < 16 /\ v = 2570 + 4112 * k).
Proof. exact ProofsFpCase.grease16_class. Qed.
Print Assumptions C11_grease16_class.

Theorem C11_exts_match_spec : forall spec wire,
  RunFp.exts_match spec wire = true -> ProofsFpCase.drop_some_padding spec wire.
Proof. exact ProofsFpCase.exts_match_spec. Qed.
Print Assumptions C11_exts_match_spec.

Theorem C11_exts_match_exact : forall spec wire,
  ~ In 21 spec -> RunFp.exts_match spec wire = true ->
  map RunDial.norm16 wire = map RunDial.norm16 spec.
Proof. exact ProofsFpCase.exts_match_exact. Qed.
Print Assumptions C11_exts_match_exact.

(** From frames to BYTES: a reader in the manner of clienthellod's ReadAllFrames (one-byte
    frame type; PADDING = a run of zero bytes; PING; CRYPTO with varint offset and length),
    run on the encoded payload of any well-formed frame list, finds as a set exactly the visible
    frame types of that list ... *)
Theorem C11_frame_types_of_bytes : forall ws, Forall ProofsFrameBytes.wf_w ws ->
  exists l, ProofsFrameBytes.types_of (length (UFrames.Model.encode ws)) (UFrames.Model.encode ws) = Some l /\
            forall t, In t l <-> In t (ProofsBuilder.wtypes ws).
Proof. exact ProofsFrameBytes.types_of_encode. Qed.
Print Assumptions C11_frame_types_of_bytes.

(** ... so on the bytes of every payload C09's builder model produces for an accepted builder
    on a slice the packer may hand it, for every value of both randomness sources, the
    fingerprinter's frame reader finds exactly [builder_types p]. *)
Theorem C11_builder_bytes_types : forall p data base bs us ws bs' us',
  ProofsBuilder.builder_ok p -> ProofsBuilder.slice_ok p data base ->
  UFrames.Model.build_internal p data base bs us = UFrames.Model.Ok (ws, bs', us') ->
  exists l, ProofsFrameBytes.types_of (length (UFrames.Model.encode ws)) (UFrames.Model.encode ws) = Some l /\
            forall t, In t l <-> In t (ProofsBuilder.builder_types p).
Proof. exact ProofsFrameBytes.builder_bytes_types. Qed.
Print Assumptions C11_builder_bytes_types.

(** Round 8 (audit P1): clause (e), transport-parameter part, for the built-in QUICIDs.  The
    hash input ignores everything that differs between two dials of one QUICID: *)
Theorem C11_qtp_features_ignores : forall w1 w2,
  map RunFp.fp_proj w1 = map RunFp.fp_proj w2 -> qtp_features w1 = qtp_features w2.
Proof. exact ProofsBuiltin.qtp_features_ignores. Qed.
Print Assumptions C11_qtp_features_ignores.

(** ([fp_proj]: id with GREASE folded to 27, value kept only for the eleven hashed ids -- so the
    value of initial_source_connection_id, GREASE ids and values, ChromeRandomInitialRTT, the
    GREASE version are invisible.)  For QUICID number q of the generated table
    [uspec_builtin_tp] (the 7 built-in lists, projected and sorted; duplicate-freeness of their
    ids is checked here, by computation): every wire list that [builtin_check] accepts -- and
    every simulated dial of a fresh built-in spec is a case checked by it -- has the table's
    feature tuple, hence any two dials the same. *)
Theorem C11_builtin_qtp_features : forall q w,
  RunFp.builtin_check q w = true -> qtp_features w = qtp_features (RunFp.builtin_tp q).
Proof. exact ProofsBuiltin.builtin_qtp_features. Qed.
Print Assumptions C11_builtin_qtp_features.

Theorem C11_builtin_same_on_every_dial : forall q w1 w2,
  RunFp.builtin_check q w1 = true -> RunFp.builtin_check q w2 = true -> qtp_features w1 = qtp_features w2.
Proof. exact ProofsBuiltin.builtin_same_on_every_dial. Qed.
Print Assumptions C11_builtin_same_on_every_dial.

(** Non-vacuity. *)
Example C11_ex_suppress :
  map pid (suppress [27; 4] [P 4 [1] true; P 58 [] false; P 27 [9] false; P 1 [2] true; P 89 [] false; P 26 [] false])
  = [1; 26].
Proof. reflexivity. Qed.
Print Assumptions C11_ex_suppress.

Example C11_ex_shuffle : (* draws (j for i = 3, 2, 1) are admissible and permute *)
  admissible 3 [0; 2; 0]%nat /\ shuffle [10; 20; 30; 40] [0; 2; 0]%nat = [20; 40; 30; 10].
Proof. split; [cbn; repeat split; repeat constructor | reflexivity]. Qed.
Print Assumptions C11_ex_shuffle.

Example C11_ex_dial : (* hypotheses of C11_wire_is_spec / C11_ids_canonical are satisfiable *)
  let ps := [P 4 [128; 240; 0; 0] true; P 15 [] true; P 58 [7; 7] false; P 1 [64; 100] true] in
  Forall wfp ps /\
  exists v ps' ov, dial [27] true [1; 0]%nat [171; 205] ps = Some (v, ps', ov) /\
                   map idval ps' = [(1, [64; 100]); (4, [128; 240; 0; 0]); (15, [171; 205])] /\
                   parse ov = Some (map idval ps') /\ fst (tp_ids [27] ps) = [1; 4; 15].
Proof.
  split.
  - repeat constructor; cbn; unfold maxVarInt8; try discriminate.
  - eexists. eexists. eexists. split; [vm_compute; reflexivity|]. split; [reflexivity|].
    split; vm_compute; reflexivity.
Qed.
Print Assumptions C11_ex_dial.

(* regression: the range the Chrome_115 parrots had before the repair (MinPING = 0,
   MaxPING = 10) is rejected by the criterion; it allows 0 and 1 PINGs with different sets *)
Example C11_ex_old_range_rejected :
  ping_range_ok 0 10 = false /\ ping_range_ok 1 10 = true /\
  draw_ok 0 10 0 = true /\ draw_ok 0 10 (Z.of_nat 1) = true /\
  frame_set (built (Pkt [0; 0; 0; 1] 8 0 [1] false []) 0 3 4) = [0; 6] /\
  frame_set (built (Pkt [0; 0; 0; 1] 8 0 [1] false []) 1 3 4) = [0; 1; 6].
Proof. repeat split; reflexivity. Qed.
Print Assumptions C11_ex_old_range_rejected.

Example C11_ex_parrot_table : (* the table is not empty and holds the repaired Chrome_115 range *)
  In (1, 10) uspec_parrot_ping_ranges /\ draw_ok 1 10 (Z.of_nat 1) = true /\ draw_ok 1 10 (Z.of_nat 9) = true.
Proof. repeat split; cbn; auto. Qed.
Print Assumptions C11_ex_parrot_table.

Example C11_ex_history : (* three dials of one spec value, an edit in between: hypotheses of
                            C11_dial_k_wire hold, the run succeeds, orders differ per dial *)
  let st := Spec [P 4 [128; 240; 0; 0] true; P 15 [] true; P 58 [7; 7] false; P 1 [64; 100] true] None [] [] [] true in
  wf_spec st /\
  exists st' v1 v2 v3,
    run st [ODial [1; 2] (Oracle [3; 2; 1]%nat [] []); ODial [3] (Oracle [0; 0; 0]%nat [] []);
            OSetSup [27]; ODial [4; 5] (Oracle [1; 0]%nat [] [])] = Some (st', [v1; v2; v3]) /\
    st' = set_sup st [27] /\
    parse (wExt (snd v1)) = Some [(4, [128; 240; 0; 0]); (15, [1; 2]); (58, [7; 7]); (1, [64; 100])] /\
    parse (wExt (snd v2)) = Some [(15, [3]); (58, [7; 7]); (1, [64; 100]); (4, [128; 240; 0; 0])] /\
    parse (wExt (snd v3)) = Some [(1, [64; 100]); (4, [128; 240; 0; 0]); (15, [4; 5])].
Proof.
  split.
  - split.
    + repeat constructor; cbn; unfold maxVarInt8; lia.
    + repeat (apply Forall_cons; [unfold leaves_scid, tpid_initialSourceConnectionID; cbn; intros H; try discriminate H; auto|]). apply Forall_nil.
  - do 4 eexists. split; [vm_compute; reflexivity|]. repeat split; vm_compute; reflexivity.
Qed.
Print Assumptions C11_ex_history.

Example C11_ex_sattolo : (* Sattolo-admissible draws exist and move every such list; the identity draws are not among them *)
  sattolo_admissible 3 [0; 1; 0]%nat /\ shuffle [10; 20; 30; 40] [0; 1; 0]%nat = [30; 40; 20; 10] /\
  ~ sattolo_admissible 3 (ident_draws 3) /\ shuffle [10; 20; 30; 40] (ident_draws 3) = [10; 20; 30; 40].
Proof. split; [cbn; lia|]. split; [reflexivity|]. split; [cbn; lia | reflexivity]. Qed.
Print Assumptions C11_ex_sattolo.

Example C11_ex_builder : (* the Chrome_146 builder: a full first slice and a short second one under
                            different oracle values are built, meet every hypothesis of
                            C11_builder_frame_types, differ as frame lists and agree as sets *)
  In (1, 4, 6, 14, 2, 6, 1215) uspec_parrot_builders /\
  ProofsBuilder.slice_ok UPacker.ProofsRandom.ex_p (repeat 7 300%nat) 0 /\
  ProofsBuilder.slice_ok UPacker.ProofsRandom.ex_p (repeat 9 120%nat) 300 /\
  exists ws1 r1 s1 ws2 r2 s2,
    UFrames.Model.build_internal UPacker.ProofsRandom.ex_p (repeat 7 300%nat) 0
      UPacker.ProofsRandom.ex_bs UPacker.ProofsRandom.ex_us = UFrames.Model.Ok (ws1, r1, s1) /\
    UFrames.Model.build_internal UPacker.ProofsRandom.ex_p (repeat 9 120%nat) 300
      (skipn 300 UPacker.ProofsRandom.ex_bs) (skipn 50 UPacker.ProofsRandom.ex_us) = UFrames.Model.Ok (ws2, r2, s2) /\
    dedup (isort (ProofsBuilder.wtypes ws1)) = [0; 1; 6] /\ dedup (isort (ProofsBuilder.wtypes ws2)) = [0; 1; 6] /\
    ProofsBuilder.wtypes ws1 <> ProofsBuilder.wtypes ws2.
Proof. exact ProofsBuilder.builder_example. Qed.
Print Assumptions C11_ex_builder.

Example C11_ex_keys : (* a GREASE share, a supplied x25519 key and a share that wants a key, dialled twice *)
  let st := Spec [P 15 [] true] None [KS 2570 [0]; KS 29 [7; 7; 7]; KS 23 []] [] [] false in
  exists st' v1 v2,
    run st [ODial [1] (Oracle [] [104] [[9; 9]]); ODial [2] (Oracle [] [105] [[8; 8]])] = Some (st', [v1; v2]) /\
    wKeys (snd v1) = [KS 2570 [0]; KS 29 [7; 7; 7]; KS 23 [9; 9]] /\
    wKeys (snd v2) = [KS 2570 [0]; KS 29 [7; 7; 7]; KS 23 [8; 8]] /\
    wSNI (snd v1) = [104] /\ wSNI (snd v2) = [105] /\ sKeys st' = sKeys st.
Proof. do 3 eexists. split; [vm_compute; reflexivity|]. repeat split. Qed.
Print Assumptions C11_ex_keys.

Example C11_ex_classes :
  isGrease16 51914 = true /\ isGrease16 2570 = true /\ isGrease16 2571 = false /\
  RunFp.exts_match [2570; 0; 21; 51; 2570; 57] [35466; 0; 51; 23130; 57] = true /\
  RunFp.exts_match [2570; 0; 51] [0; 2570; 51] = false /\
  RunFp.perm_eqb [(1, [2]); (3, []); (1, [2])] [(3, []); (1, [2]); (1, [2])] = true /\
  RunFp.perm_eqb [(1, [2]); (3, [])] [(3, []); (1, [9])] = false.
Proof. repeat split. Qed.
Print Assumptions C11_ex_classes.

Example C11_ex_frame_bytes : (* PADDING runs merge, an empty PADDING frame is invisible, CRYPTO bodies are skipped *)
  let ws := [UFrames.Model.WPad 2; UFrames.Model.WPad 0; UFrames.Model.WCrypto 70 [0; 1; 0];
             UFrames.Model.WPing; UFrames.Model.WPad 3] in
  UFrames.Model.encode ws = [0; 0; 6; 64; 70; 3; 0; 1; 0; 1; 0; 0; 0] /\
  ProofsFrameBytes.types_of 13 (UFrames.Model.encode ws) = Some [0; 6; 1; 0] /\
  ProofsBuilder.wtypes ws = [0; 6; 1; 0].
Proof. repeat split. Qed.
Print Assumptions C11_ex_frame_bytes.

Example C11_ex_builtin : (* two Chrome_115 wires: different GREASE draw, order and SCID value; not permutations
                            of each other (the premise of C11_fp_invariant fails) yet both accepted *)
  let w1 := [(1, [128; 0; 117; 48]); (3, [69; 192]); (4, [128; 240; 0; 0]); (5, [128; 96; 0; 0]); (6, [128; 96; 0; 0]);
             (7, [128; 96; 0; 0]); (8, [64; 100]); (9, [64; 103]); (15, []); (58, [1; 2]); (32, [128; 1; 0; 0]);
             (12584, [82; 86; 67; 77]); (18258, [0; 0; 0; 1]); (16741339, [0; 0; 0; 1])] in
  let w2 := [(16741339, [0; 0; 0; 1; 10; 10; 10; 10]); (89, []); (15, [7; 7; 7]); (9, [64; 103]); (8, [64; 100]);
             (7, [128; 96; 0; 0]); (6, [128; 96; 0; 0]); (5, [128; 96; 0; 0]); (4, [128; 240; 0; 0]); (3, [69; 192]);
             (1, [128; 0; 117; 48]); (32, [128; 1; 0; 0]); (12584, [82; 86; 67; 77]); (18258, [0; 0; 0; 1])] in
  RunFp.builtin_check 0 w1 = true /\ RunFp.builtin_check 0 w2 = true /\ w1 <> w2 /\ RunFp.perm_eqb w1 w2 = false.
Proof. exact ProofsBuiltin.builtin_example. Qed.
Print Assumptions C11_ex_builtin.

Example C11_ex_wire_values : (* typed empty placeholder filled, raw 0x0f parameters left alone *)
  let ps := [P 15 [] false; P 15 [] true; P 15 [9; 9] false; P 4 [1] true] in
  Forall no_explicit ps /\
  exists v ov, dial [] false [] [1; 2] ps = Some (v, [P 15 [] false; P 15 [1; 2] true; P 15 [9; 9] false; P 4 [1] true], ov).
Proof.
  split.
  - repeat (apply Forall_cons; [unfold no_explicit, tpid_initialSourceConnectionID; cbn; intros H1 H2; try discriminate H1; try discriminate H2; reflexivity|]). apply Forall_nil.
  - do 2 eexists. vm_compute. reflexivity.
Qed.
Print Assumptions C11_ex_wire_values.
