(** C11 -- ClientHello and transport parameters on the wire are exactly what the spec says.
    Only statements live here; each is closed by [exact] of a lemma proved in coq/USpec. *)
From Coq Require Import List ZArith Bool Permutation.
From V Require Import Gen.Params Lib.Hex Wire.Varint USpec.Model USpec.Proofs USpec.ProofsShuffle
  USpec.ProofsWire USpec.ProofsFp.
Import ListNotations.
Open Scope Z_scope.

(** (c) Suppression removes exactly the listed ids -- every GREASE id (31*N+27) when 27 is
    listed --, is idempotent and keeps the order of the rest. *)
Theorem C11_suppress_spec : forall sup ps,
  suppress sup ps = filter (fun p => keptb sup (pid p)) ps
  /\ (forall id, keptb sup id = true <->
        (~ In id sup /\ (In 27 sup -> ~ (27 <= id /\ (id - 27) mod 31 = 0))))
  /\ suppress sup (suppress sup ps) = suppress sup ps
  /\ subseq (suppress sup ps) ps.
Proof. exact suppress_spec. Qed.
Print Assumptions C11_suppress_spec.

(** (b) The shuffle yields a permutation for every list of draws ... *)
Theorem C11_shuffle_perm : forall (l : list param) (js : list nat), Permutation l (shuffle l js).
Proof. exact (@shuffle_perm param). Qed.
Print Assumptions C11_shuffle_perm.

(** ... and on a duplicate-free list the map from admissible draw vectors (one draw in [0,i]
    for i = n-1 .. 1) to permutations is injective and surjective: uniform draws give the
    uniform distribution over all n! orders, and every order is reachable. *)
Theorem C11_shuffle_bijective : forall (l : list param), NoDup l ->
  (forall js1 js2, admissible (length l - 1) js1 -> admissible (length l - 1) js2 ->
                   shuffle l js1 = shuffle l js2 -> js1 = js2) /\
  (forall p, Permutation l p -> exists js, admissible (length l - 1) js /\ shuffle l js = p) /\
  (forall js, Permutation l (shuffle l js)).
Proof. exact (@shuffle_bijective param). Qed.
Print Assumptions C11_shuffle_bijective.

(** the admissible draw vectors are exactly [all_draws], (i+1)! of them *)
Theorem C11_shuffle_draw_count : forall i,
  (forall js, admissible i js <-> In js (all_draws i)) /\ length (all_draws i) = fact (S i).
Proof. exact (fun i => conj (all_draws_complete i) (all_draws_length i)). Qed.
Print Assumptions C11_shuffle_draw_count.

(** (b) What a dial hands to uTLS, and what a reader of the marshalled extension gets back:
    exactly the suppressed list -- in spec order, or permuted by the draws -- with the same
    ids (GREASE included) and the same values, an empty typed initial_source_connection_id
    standing for the connection's source connection ID.  ClientOverride is those bytes. *)
Theorem C11_wire_is_spec : forall sup rnd js scid ps v ps' ov,
  Forall wfp ps -> zlen scid <= maxVarInt8 ->
  dial sup rnd js scid ps = Some (v, ps', ov) ->
  ov = marshal ps' /\ parse (marshal ps') = Some (map idval ps') /\
  (if rnd then Permutation (suppress sup ps) (dial_list sup rnd js ps)
   else dial_list sup rnd js ps = suppress sup ps) /\
  Forall2 filled (dial_list sup rnd js ps) ps' /\
  map pid ps' = map pid (dial_list sup rnd js ps) /\
  (forallb (fun p => negb (needs_fill p)) ps = true -> ps' = dial_list sup rnd js ps).
Proof. exact wire_is_spec. Qed.
Print Assumptions C11_wire_is_spec.

(** the reader inverts the marshaller on every encodable list *)
Theorem C11_parse_marshal : forall ps, Forall wfp ps -> parse (marshal ps) = Some (map idval ps).
Proof. exact parse_marshal. Qed.
Print Assumptions C11_parse_marshal.

(** (d) TransportParamIDs() is what a fingerprinter canonicalising the wire of a later
    dial computes (GREASE folded to 27, sorted, duplicates kept), whatever the permutation;
    calling it first does not change what the dial sends. *)
Theorem C11_ids_canonical : forall sup rnd js scid ps v ps' ov wire,
  Forall wfp ps -> zlen scid <= maxVarInt8 ->
  dial sup rnd js scid (snd (tp_ids sup ps)) = Some (v, ps', ov) ->
  parse ov = Some wire ->
  fst (tp_ids sup ps) = isort (map (fun p => fp_canon (fst p)) wire) /\
  length (fst (tp_ids sup ps)) = length wire /\
  dial sup rnd js scid (snd (tp_ids sup ps)) = dial sup rnd js scid ps.
Proof. exact ids_canonical. Qed.
Print Assumptions C11_ids_canonical.

(** (e) The input of the reference fingerprinter's hash is the same for two flights with the
    same first-packet header, the same SET of frame types, and transport parameters that are
    permutations of each other (ids distinct) ... *)
Theorem C11_fp_invariant : forall a r1 b r2 ch w1 w2,
  same_header a b ->
  (forall t, In t (frame_types (a :: r1)) <-> In t (frame_types (b :: r2))) ->
  NoDup (map fst w1) -> Permutation w1 w2 ->
  fp_features (a :: r1) ch w1 = fp_features (b :: r2) ch w2.
Proof. exact fp_invariant. Qed.
Print Assumptions C11_fp_invariant.

(** ... in particular under the shuffle, for all draws ... *)
Theorem C11_fp_shuffle_invariant : forall (l : list param) js1 js2,
  NoDup (map pid l) ->
  qtp_features (map idval (shuffle l js1)) = qtp_features (map idval (shuffle l js2)).
Proof. exact qtp_features_shuffle. Qed.
Print Assumptions C11_fp_shuffle_invariant.

(** ... and the hashed frame-type list is equal exactly when the sets are. *)
Theorem C11_fp_frame_set : forall pkts1 pkts2,
  (forall t, In t (frame_types pkts1) <-> In t (frame_types pkts2)) <->
  frame_set pkts1 = frame_set pkts2.
Proof. exact frame_set_ext. Qed.
Print Assumptions C11_fp_frame_set.

(** The proviso holds for every built-in parrot: for each randomised frame builder of each
    built-in QUICID (table [uspec_parrot_ping_ranges], generated from QUICID2Spec on every
    run) the PING count cannot be zero on one dial and positive on another, so the hashed
    frame-type set is the same for all draws.  (Before the repair "Chrome_115 parrots:
    MinPING 0 -> 1" this theorem was C11_fp_invariant_refuted; an edit that re-introduces a
    range mixing 0 with a positive count makes [parrots_ping_ranges_ok] fail to check.) *)
Theorem C11_parrots_ping_stable : forall r, In r uspec_parrot_ping_ranges ->
  forall n1 n2, draw_ok (fst r) (snd r) (Z.of_nat n1) = true -> draw_ok (fst r) (snd r) (Z.of_nat n2) = true ->
  forall k nC nPad, nC <> O ->
    frame_set (built k n1 nC nPad) = frame_set (built k n2 nC nPad).
Proof. exact parrots_ping_stable. Qed.
Print Assumptions C11_parrots_ping_stable.

(** The general facts behind it.  A range that cannot mix zero with a positive count
    ([ping_range_ok]: zero is not drawable, or nothing but zero is) keeps the set ... *)
Theorem C11_fp_ping_range_stable : forall mn mx n1 n2,
  ping_range_ok mn mx = true ->
  draw_ok mn mx (Z.of_nat n1) = true -> draw_ok mn mx (Z.of_nat n2) = true ->
  forall k nC nPad, nC <> O ->
    frame_set (built k n1 nC nPad) = frame_set (built k n2 nC nPad).
Proof. exact ping_range_stable. Qed.
Print Assumptions C11_fp_ping_range_stable.

Theorem C11_fp_ping_stable : forall mn mx n1 n2,
  1 <= mn -> draw_ok mn mx (Z.of_nat n1) = true -> draw_ok mn mx (Z.of_nat n2) = true ->
  forall k nC nPad, nC <> O ->
    frame_set (built k n1 nC nPad) = frame_set (built k n2 nC nPad).
Proof. exact fp_ping_stable. Qed.
Print Assumptions C11_fp_ping_stable.

(** ... and every other range (of non-negative bounds) allows 0 and 1 PINGs, which give
    different inputs to the hash whatever the rest of the flight is: the criterion is exact. *)
Theorem C11_fp_ping_mix_differs : forall mn mx, 0 <= mn -> ping_range_ok mn mx = false ->
  draw_ok mn mx 0 = true /\ draw_ok mn mx (Z.of_nat 1) = true /\
  forall k nC nPad ch w,
    fp_features (built k 0 nC nPad) ch w <> fp_features (built k 1 nC nPad) ch w.
Proof. exact ping_mix_differs. Qed.
Print Assumptions C11_fp_ping_mix_differs.

(** Non-vacuity. *)
Example C11_ex_suppress :
  map pid (suppress [27; 4] [P 4 [1] true; P 58 [] false; P 27 [9] false; P 1 [2] true; P 89 [] false; P 26 [] false])
  = [1; 26].
Proof. reflexivity. Qed.
Print Assumptions C11_ex_suppress.

Example C11_ex_shuffle : (* draws (j for i = 3, 2, 1) are admissible and permute *)
  admissible 3 [0; 2; 0]%nat /\ shuffle [10; 20; 30; 40] [0; 2; 0]%nat = [20; 40; 30; 10].
Proof. split; [cbn; repeat split; repeat constructor | reflexivity]. Qed.
Print Assumptions C11_ex_shuffle.

Example C11_ex_dial : (* hypotheses of C11_wire_is_spec / C11_ids_canonical are satisfiable *)
  let ps := [P 4 [128; 240; 0; 0] true; P 15 [] true; P 58 [7; 7] false; P 1 [64; 100] true] in
  Forall wfp ps /\
  exists v ps' ov, dial [27] true [1; 0]%nat [171; 205] ps = Some (v, ps', ov) /\
                   map idval ps' = [(1, [64; 100]); (4, [128; 240; 0; 0]); (15, [171; 205])] /\
                   parse ov = Some (map idval ps') /\ fst (tp_ids [27] ps) = [1; 4; 15].
Proof.
  split.
  - repeat constructor; cbn; unfold maxVarInt8; try discriminate.
  - eexists. eexists. eexists. split; [vm_compute; reflexivity|]. split; [reflexivity|].
    split; vm_compute; reflexivity.
Qed.
Print Assumptions C11_ex_dial.

(* regression: the range the Chrome_115 parrots had before the repair (MinPING = 0,
   MaxPING = 10) is rejected by the criterion; it allows 0 and 1 PINGs with different sets *)
Example C11_ex_old_range_rejected :
  ping_range_ok 0 10 = false /\ ping_range_ok 1 10 = true /\
  draw_ok 0 10 0 = true /\ draw_ok 0 10 (Z.of_nat 1) = true /\
  frame_set (built (Pkt [0; 0; 0; 1] 8 0 [1] false []) 0 3 4) = [0; 6] /\
  frame_set (built (Pkt [0; 0; 0; 1] 8 0 [1] false []) 1 3 4) = [0; 1; 6].
Proof. repeat split; reflexivity. Qed.
Print Assumptions C11_ex_old_range_rejected.

Example C11_ex_parrot_table : (* the table is not empty and holds the repaired Chrome_115 range *)
  In (1, 10) uspec_parrot_ping_ranges /\ draw_ok 1 10 (Z.of_nat 1) = true /\ draw_ok 1 10 (Z.of_nat 9) = true.
Proof. repeat split; cbn; auto. Qed.
Print Assumptions C11_ex_parrot_table.
