(** C05 — packet protection round-trips, matches RFC 9001, rejects tampering.
    Only statements live here; each is closed by [exact] of a lemma proved elsewhere. *)
From Coq Require Import List ZArith Sorted.
From V Require Import Gen.Params PktProt.PktNum PktProt.PktNumProofs PktProt.KeyPhase PktProt.KeyPhaseProofs PktProt.KeyDerive PktProt.KeyDeriveProofs PktProt.KeyPhaseRun PktProt.KeyPhaseWindow PktProt.KeyPhaseExamples PktProt.Protect PktProt.ProtectProofs PktProt.ProtectExamples.
Import ListNotations.
Open Scope Z_scope.

(** (g) The truncated packet number always decodes to the true one given what the sender
    knows to be acknowledged: the sender picks the length with PacketNumberLengthForHeader
    from its largest acknowledged number (-1: none); the receiver has processed at least
    that and at most [pn]; fewer than 2^31 numbers are outstanding. *)
Theorem C05_pn_decode_exact : forall pn largestAcked largest,
  0 <= pn < 2 ^ 62 -> -1 <= largestAcked -> largestAcked <= largest <= pn -> pn - largestAcked <= 2 ^ 31 ->
  let len := lenForHeader pn largestAcked in
  2 <= len <= 4 /\ decodePN len largest (truncatePN len pn) = pn.
Proof. intros; split; [apply lenForHeader_ge2 | apply decode_sender; assumption]. Qed.
Print Assumptions C05_pn_decode_exact.

(** General window form (RFC 9000 A.3) for every length 1..4. *)
Theorem C05_pn_decode_window : forall len largest pn,
  valid_len len -> 0 <= pn < 2 ^ 62 -> -1 <= largest ->
  largest + 1 - 2 ^ (len * 8) / 2 < pn <= largest + 1 + 2 ^ (len * 8) / 2 ->
  decodePN len largest (truncatePN len pn) = pn.
Proof. exact decode_window. Qed.
Print Assumptions C05_pn_decode_window.

(** (f) Packet numbers are never reused: both generators return strictly increasing
    numbers; a number flagged as skipped is never returned, before or after; every number
    that is missing is flagged; never two skips in a row. For all draws of the random source. *)
Theorem C05_pn_never_reused : pn_never_reused_statement.
Proof. exact pn_never_reused. Qed.
Print Assumptions C05_pn_never_reused.

(** (e) Key updates are neither initiated nor accepted earlier than the protocol allows.
    For every AEAD, every configuration of the update intervals and every history [ops] of
    calls on one updatableAEAD made by an arbitrary peer and environment — the only
    obligations ([wf_ops]) being the local ones: packet numbers handed to Seal increase
    and SetLargestAcked is called only for numbers that were sent — every entry
    [(phase before, call, result, phase after)] of the trace satisfies [claim] w.r.t. the
    entries [pre] before it:
    - KeyPhase() changes the phase only by +1, only after SetHandshakeConfirmed, and from a
      phase g > 0 only if a packet sealed in phase g was acknowledged in phase g;
    - Open changes the phase only by +1, only when it returns a plaintext, and from a phase
      g > 0 only if a packet was sealed in phase g; KEY_UPDATE_ERROR is returned only in a
      phase g > 0 in which nothing was sealed (and leaves the phase unchanged);
    - SetLargestAcked(pn) returns KEY_UPDATE_ERROR exactly when pn covers a packet sealed in
      the current phase while no packet has been opened with the current phase's key. *)
Theorem C05_update_not_early :
  forall (ctext ptext adata : Type)
         (aead_seal : key -> Z -> adata -> ptext -> ctext)
         (aead_open : key -> Z -> adata -> ctext -> option ptext)
         cfg rd wd lim ops pre e post,
    wf_ops ctext ptext adata ops ->
    ua_trace ctext ptext adata aead_seal aead_open cfg (ua_new rd wd lim) ops = pre ++ e :: post ->
    claim ctext ptext adata pre e.
Proof. exact update_not_early. Qed.
Print Assumptions C05_update_not_early.

(** Non-vacuity: a well-formed history in which both a local update (0 -> 1, then 1 -> 2
    after an acknowledged phase-1 packet) and a peer-initiated update (2 -> 3) happen. *)
Example C05_update_not_early_nonvacuous :
  wf_ops sct Z Z update_example_ops /\
  map (fun e => snd e) (ua_trace sct Z Z sym_seal sym_open {| keyUpdateInterval := 2; firstKeyUpdateInterval := 1 |} (ua_new 1 0 10) update_example_ops)
  = [0; 0; 1; 1; 1; 1; 1; 1; 2; 2; 2; 3].
Proof. exact update_example_ok. Qed.
Print Assumptions C05_update_not_early_nonvacuous.

(** (c), receive side, over all histories of one endpoint ([_partial]: the facts about the
    peer that a two-endpoint argument would supply are explicit premises).  For every AEAD
    that opens what it sealed, after every well-formed history [ops] a genuine packet of the
    peer's key generation g with packet number pn, delivered next, is opened to its
    plaintext p
    - when g is the current key phase r;
    - when g = r+1, provided the peer was allowed to update (r = 0, or this endpoint has sent
      and received in phase r) and its packet number is not below those received in phase r
      (the endpoint then moves to phase r+1);
    - when g = r-1 (reordering across a key update), provided its packet number is below
      those received in phase r and the previous keys are still kept (not yet dropped by the
      3*PTO timer). *)
Theorem C05_keyphase_window_partial :
  forall (ctext ptext adata : Type)
         (aead_seal : key -> Z -> adata -> ptext -> ctext)
         (aead_open : key -> Z -> adata -> ctext -> option ptext),
    (forall k n ad p, aead_open k n ad (aead_seal k n ad p) = Some p) ->
    forall cfg rd wd lim ops now pto3 pn ad p g,
      wf_ops ctext ptext adata ops -> open_pns_nonneg ctext ptext adata ops -> 0 <= pn ->
      let a := ua_run ctext ptext adata aead_seal aead_open cfg (ua_new rd wd lim) ops in
      let tr := ua_trace ctext ptext adata aead_seal aead_open cfg (ua_new rd wd lim) ops in
      let r := keyPhase a in
      let res := ua_open ctext ptext adata aead_open a now pto3 pn (g mod 2) ad (aead_seal (rd, g) pn ad p) in
      (g = r -> fst res = OpenOK p /\ keyPhase (snd res) = r) /\
      (g = r + 1 ->
       (r = 0 \/ ((exists pn', sealed_in ctext ptext adata r tr pn') /\ (exists pn', rcvd_in ctext ptext adata r tr pn'))) ->
       (forall pn', rcvd_in ctext ptext adata r tr pn' -> pn' <= pn) ->
       fst res = OpenOK p /\ keyPhase (snd res) = r + 1) /\
      (g = r - 1 ->
       (forall pn', rcvd_in ctext ptext adata r tr pn' -> pn < pn') ->
       prevRcvAEAD a <> None -> dropped_now a now = false ->
       fst res = OpenOK p /\ keyPhase (snd res) = r).
Proof. exact keyphase_window. Qed.
Print Assumptions C05_keyphase_window_partial.

Example C05_keyphase_window_nonvacuous :
  (forall k n ad p, sym_open k n ad (sym_seal k n ad p) = Some p) /\
  (let a := ua_run sct Z Z sym_seal sym_open window_example_cfg (ua_new 1 0 10) window_example_ops in
   let tr := ua_trace sct Z Z sym_seal sym_open window_example_cfg (ua_new 1 0 10) window_example_ops in
   wf_ops sct Z Z window_example_ops /\ open_pns_nonneg sct Z Z window_example_ops /\
   keyPhase a = 1 /\ (forall pn', rcvd_in sct Z Z 1 tr pn' -> 5 < pn') /\
   prevRcvAEAD a <> None /\ dropped_now a 100 = false).
Proof. exact (conj sym_open_seal window_example_ok). Qed.
Print Assumptions C05_keyphase_window_nonvacuous.

(** (a) Protect / unprotect round trip, byte level (encryptPacket vs. packetUnpacker), for
    every AEAD that opens what it sealed and adds a 16-byte tag and every header-protection
    mask function: for both header forms, every first byte with the right layout, every
    connection ID / long-header middle part [mid], packet number length 1..4, packet number
    below 2^62 inside the receiver's decode window, and every non-empty payload with
    pnLen + |payload| >= 4 (what the packer pads to: the minimum that still yields a
    header-protection sample), the receiver recovers exactly (first byte, packet number,
    its length, key phase bit, payload). *)
Theorem C05_protect_roundtrip :
  forall (aead_seal : Z -> Z -> list Z -> list Z -> list Z)
         (aead_open : Z -> Z -> list Z -> list Z -> option (list Z))
         (hp_mask : list Z -> list Z),
    (forall pn kp ad p, aead_open pn kp ad (aead_seal pn kp ad p) = Some p) ->
    (forall pn kp ad p, length (aead_seal pn kp ad p) = (length p + 16)%nat) ->
    forall long first mid pn kp pnLen payload largest,
      (1 <= pnLen <= 4)%nat -> wf_first long first pnLen kp ->
      0 <= pn < 2 ^ 62 -> -1 <= largest ->
      largest + 1 - 2 ^ (Z.of_nat pnLen * 8) / 2 < pn <= largest + 1 + 2 ^ (Z.of_nat pnLen * 8) / 2 ->
      payload <> [] -> (4 <= pnLen + length payload)%nat ->
      unprotect aead_open hp_mask long (1 + length mid) largest
        (protect aead_seal hp_mask long (mk_header first mid pnLen pn) payload pn kp pnLen)
      = UOk first pn (Z.of_nat pnLen) kp payload.
Proof. exact protect_roundtrip. Qed.
Print Assumptions C05_protect_roundtrip.

(** The first bytes written by wire.AppendShortHeader / ExtendedHeader.Append satisfy [wf_first]. *)
Theorem C05_first_byte_layout :
  (forall pnLen kp, (1 <= pnLen <= 4)%nat -> kp = 0 \/ kp = 1 -> wf_first false (short_first pnLen kp) pnLen kp) /\
  (forall ptype pnLen, (1 <= pnLen <= 4)%nat -> 0 <= ptype <= 3 -> wf_first true (long_first ptype pnLen) pnLen 0).
Proof. exact (conj short_first_wf long_first_wf). Qed.
Print Assumptions C05_first_byte_layout.

(** (d) Any modification is rejected rather than yielding different plaintext: under ideal
    integrity of the AEAD (whatever opens was sealed by the honest sender — predicate
    [sealed] — and is exactly that ciphertext), EVERY byte string the unpacker accepts is
    bit for bit the protected form of the header, packet number, key phase and payload it
    is accepted as, and that content was sealed by the sender.  Hence a byte string that
    differs from every genuinely protected packet fails to open. *)
Theorem C05_tamper_rejected :
  forall (aead_seal : Z -> Z -> list Z -> list Z -> list Z)
         (aead_open : Z -> Z -> list Z -> list Z -> option (list Z))
         (hp_mask : list Z -> list Z)
         (sealed : Z -> Z -> list Z -> list Z -> Prop),
    (forall pn kp ad c p, aead_open pn kp ad c = Some p -> sealed pn kp ad p /\ c = aead_seal pn kp ad p) ->
    forall long hdrLen largest data first pn pnLen kp p,
      (1 <= hdrLen)%nat ->
      unprotect aead_open hp_mask long hdrLen largest data = UOk first pn pnLen kp p ->
      exists hdr, sealed pn kp hdr p /\ length hdr = (hdrLen + Z.to_nat pnLen)%nat /\ nth 0 hdr 0 = first /\
                  data = protect aead_seal hp_mask long hdr p pn kp (Z.to_nat pnLen).
Proof. exact tamper_rejected. Qed.
Print Assumptions C05_tamper_rejected.

(** Non-vacuity: the hypotheses of both theorems are satisfiable together, and a concrete
    short-header packet (key phase 1, 2-byte packet number 65537 against largest 65530)
    round-trips while differing from its unprotected form. *)
Example C05_protect_nonvacuous :
  (forall pn kp ad p, toy_open pn kp ad (toy_seal pn kp ad p) = Some p) /\
  (forall pn kp ad p, length (toy_seal pn kp ad p) = (length p + 16)%nat) /\
  (forall pn kp ad c p, toy_open pn kp ad c = Some p -> True /\ c = toy_seal pn kp ad p) /\
  unprotect toy_open toy_mask false 4 65530 ex_packet = UOk (short_first 2 1) 65537 2 1 [9; 8; 7] /\
  ex_packet <> mk_header (short_first 2 1) [1; 2; 3] 2 65537 ++ toy_seal 65537 1 [] [9; 8; 7].
Proof. exact (conj toy_open_seal (conj toy_seal_length (conj toy_integrity protect_example))). Qed.
Print Assumptions C05_protect_nonvacuous.

(** (b), key updates: the secret of the next key generation is literally
    HKDF-Expand-Label(secret, "quic ku" | "quicv2 ku", "", Hash.len) and key / iv / header
    protection key are HKDF-Expand-Label(secret, "quic key|iv|hp" | "quicv2 key|iv|hp") — the
    labels of RFC 9001 (5.1, 5.4, 6.1) for v1 and of RFC 9369 (3.3.2) for v2 — for every
    HKDF-Expand-Label function.  The model's labels are the ones found in the code
    (Gen/Params.v), so a label that differs from the RFC's breaks this proof. *)
Theorem C05_key_update_derivation_rfc :
  forall (expand_label : list Z -> String.string -> Z -> list Z) v2 hashLen keyLen ts,
    let '(lk, li, lh, lu) := rfc_labels v2 in
    next_secret expand_label v2 hashLen ts = expand_label ts lu hashLen /\
    aead_key expand_label v2 keyLen ts = expand_label ts lk keyLen /\
    aead_iv expand_label v2 ts = expand_label ts li 12 /\
    hp_key expand_label v2 keyLen ts = expand_label ts lh keyLen.
Proof. exact derivation_rfc. Qed.
Print Assumptions C05_key_update_derivation_rfc.
