(** C05 — packet protection round-trips, matches RFC 9001, rejects tampering.
    Only statements live here; each is closed by [exact] of a lemma proved elsewhere. *)
From Coq Require Import List ZArith Sorted.
From V Require Import Gen.Params PktProt.PktNum PktProt.PktNumProofs.
Import ListNotations.
Open Scope Z_scope.

(** (g) The truncated packet number always decodes to the true one given what the sender
    knows to be acknowledged: the sender picks the length with PacketNumberLengthForHeader
    from its largest acknowledged number (-1: none); the receiver has processed at least
    that and at most [pn]; fewer than 2^31 numbers are outstanding. *)
Theorem C05_pn_decode_exact : forall pn largestAcked largest,
  0 <= pn < 2 ^ 62 -> -1 <= largestAcked -> largestAcked <= largest <= pn -> pn - largestAcked <= 2 ^ 31 ->
  let len := lenForHeader pn largestAcked in
  2 <= len <= 4 /\ decodePN len largest (truncatePN len pn) = pn.
Proof. intros; split; [apply lenForHeader_ge2 | apply decode_sender; assumption]. Qed.
Print Assumptions C05_pn_decode_exact.

(** General window form (RFC 9000 A.3) for every length 1..4. *)
Theorem C05_pn_decode_window : forall len largest pn,
  valid_len len -> 0 <= pn < 2 ^ 62 -> -1 <= largest ->
  largest + 1 - 2 ^ (len * 8) / 2 < pn <= largest + 1 + 2 ^ (len * 8) / 2 ->
  decodePN len largest (truncatePN len pn) = pn.
Proof. exact decode_window. Qed.
Print Assumptions C05_pn_decode_window.

(** (f) Packet numbers are never reused: both generators return strictly increasing
    numbers; a number flagged as skipped is never returned, before or after; every number
    that is missing is flagged; never two skips in a row. For all draws of the random source. *)
Theorem C05_pn_never_reused : pn_never_reused_statement.
Proof. exact pn_never_reused. Qed.
Print Assumptions C05_pn_never_reused.
