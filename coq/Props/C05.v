(** C05 — packet protection round-trips, matches RFC 9001, rejects tampering.
    Only statements live here; each is closed by [exact] of a lemma proved elsewhere. *)
From Coq Require Import List ZArith Sorted.
From V Require Import Gen.Params PktProt.PktNum PktProt.PktNumProofs PktProt.KeyPhase PktProt.KeyPhaseProofs PktProt.KeyPhaseRun PktProt.KeyPhaseExamples.
Import ListNotations.
Open Scope Z_scope.

(** (g) The truncated packet number always decodes to the true one given what the sender
    knows to be acknowledged: the sender picks the length with PacketNumberLengthForHeader
    from its largest acknowledged number (-1: none); the receiver has processed at least
    that and at most [pn]; fewer than 2^31 numbers are outstanding. *)
Theorem C05_pn_decode_exact : forall pn largestAcked largest,
  0 <= pn < 2 ^ 62 -> -1 <= largestAcked -> largestAcked <= largest <= pn -> pn - largestAcked <= 2 ^ 31 ->
  let len := lenForHeader pn largestAcked in
  2 <= len <= 4 /\ decodePN len largest (truncatePN len pn) = pn.
Proof. intros; split; [apply lenForHeader_ge2 | apply decode_sender; assumption]. Qed.
Print Assumptions C05_pn_decode_exact.

(** General window form (RFC 9000 A.3) for every length 1..4. *)
Theorem C05_pn_decode_window : forall len largest pn,
  valid_len len -> 0 <= pn < 2 ^ 62 -> -1 <= largest ->
  largest + 1 - 2 ^ (len * 8) / 2 < pn <= largest + 1 + 2 ^ (len * 8) / 2 ->
  decodePN len largest (truncatePN len pn) = pn.
Proof. exact decode_window. Qed.
Print Assumptions C05_pn_decode_window.

(** (f) Packet numbers are never reused: both generators return strictly increasing
    numbers; a number flagged as skipped is never returned, before or after; every number
    that is missing is flagged; never two skips in a row. For all draws of the random source. *)
Theorem C05_pn_never_reused : pn_never_reused_statement.
Proof. exact pn_never_reused. Qed.
Print Assumptions C05_pn_never_reused.

(** (e) Key updates are neither initiated nor accepted earlier than the protocol allows.
    For every AEAD, every configuration of the update intervals and every history [ops] of
    calls on one updatableAEAD made by an arbitrary peer and environment — the only
    obligations ([wf_ops]) being the local ones: packet numbers handed to Seal increase
    and SetLargestAcked is called only for numbers that were sent — every entry
    [(phase before, call, result, phase after)] of the trace satisfies [claim] w.r.t. the
    entries [pre] before it:
    - KeyPhase() changes the phase only by +1, only after SetHandshakeConfirmed, and from a
      phase g > 0 only if a packet sealed in phase g was acknowledged in phase g;
    - Open changes the phase only by +1, only when it returns a plaintext, and from a phase
      g > 0 only if a packet was sealed in phase g; KEY_UPDATE_ERROR is returned only in a
      phase g > 0 in which nothing was sealed (and leaves the phase unchanged);
    - SetLargestAcked(pn) returns KEY_UPDATE_ERROR exactly when pn covers a packet sealed in
      the current phase while no packet has been opened with the current phase's key. *)
Theorem C05_update_not_early :
  forall (ctext ptext adata : Type)
         (aead_seal : key -> Z -> adata -> ptext -> ctext)
         (aead_open : key -> Z -> adata -> ctext -> option ptext)
         cfg rd wd lim ops pre e post,
    wf_ops ctext ptext adata ops ->
    ua_trace ctext ptext adata aead_seal aead_open cfg (ua_new rd wd lim) ops = pre ++ e :: post ->
    claim ctext ptext adata pre e.
Proof. exact update_not_early. Qed.
Print Assumptions C05_update_not_early.

(** Non-vacuity: a well-formed history in which both a local update (0 -> 1, then 1 -> 2
    after an acknowledged phase-1 packet) and a peer-initiated update (2 -> 3) happen. *)
Example C05_update_not_early_nonvacuous :
  wf_ops sct Z Z update_example_ops /\
  map (fun e => snd e) (ua_trace sct Z Z sym_seal sym_open {| keyUpdateInterval := 2; firstKeyUpdateInterval := 1 |} (ua_new 1 0 10) update_example_ops)
  = [0; 0; 1; 1; 1; 1; 1; 1; 2; 2; 2; 3].
Proof. exact update_example_ok. Qed.
Print Assumptions C05_update_not_early_nonvacuous.
