(** C05 — packet protection round-trips, matches RFC 9001, rejects tampering.
    Only statements live here; each is closed by [exact] of a lemma proved elsewhere. *)
From Coq Require Import List ZArith Sorted.
From Coq Require String.
From V Require Import Gen.Params PktProt.PktNum PktProt.PktNumProofs PktProt.KeyPhase PktProt.KeyPhaseProofs PktProt.KeyDerive PktProt.KeyDeriveProofs PktProt.KeyPhaseRun PktProt.KeyPhaseWindow PktProt.KeyPhaseSys PktProt.KeyPhaseSysProofs PktProt.KeyPhaseSysPn PktProt.KeyPhaseSysPnProofs PktProt.KeyPhaseExamples PktProt.Sha256 PktProt.InitialKeys PktProt.InitialKeysProofs PktProt.Aes PktProt.InitialProtect PktProt.InitialProtectExamples PktProt.Retry PktProt.RetryProofs PktProt.AesProofs PktProt.ChaCha PktProt.ChaChaExamples PktProt.TamperExamples Lib.Hex PktProt.Protect PktProt.ProtectProofs PktProt.ProtectExamples PktProt.ProtectPack PktProt.ProtectPackProofs Wire.Varint Wire.VarintProofs Wire.Headers Wire.HeadersProofs PktProt.ProtectLong PktProt.ProtectLongProofs.
Import ListNotations.
Open Scope Z_scope.

(** Scope notes.  (i) The premise "length chosen by PacketNumberLengthForHeader" holds for every
    packet of the plain stack; a uQUIC spec-driven client takes the packet number LENGTH of its
    Initial packets from the spec (uSentPacketHandler.PeekPacketNumber; 1 byte is possible) —
    that exception is property C10's (C10_first_pn_decodable_iff ...), not covered here.
    (ii) C05_initial_keys_rfc and C05_key_update_derivation_rfc are proved by reflexivity: they
    check that the constants and labels read from the code are the RFC's and that the model
    has the RFC's shape; that the CODE computes this function is the job of the initialkeys /
    keyphase correspondence cases (Gallina SHA-256/HKDF vs. NewInitialAEAD, the harness' own
    HKDF vs. getNextTrafficSecret) and of the RFC Appendix A vectors. *)

(** (g) The truncated packet number always decodes to the true one given what the sender
    knows to be acknowledged: the sender picks the length with PacketNumberLengthForHeader
    from its largest acknowledged number (-1: none); the receiver has processed at least
    that and at most [pn]; fewer than 2^31 numbers are outstanding. *)
Theorem C05_pn_decode_exact : forall pn largestAcked largest,
  0 <= pn < 2 ^ 62 -> -1 <= largestAcked -> largestAcked <= largest <= pn -> pn - largestAcked <= 2 ^ 31 ->
  let len := lenForHeader pn largestAcked in
  2 <= len <= 4 /\ decodePN len largest (truncatePN len pn) = pn.
Proof. intros; split; [apply lenForHeader_ge2 | apply decode_sender; assumption]. Qed.
Print Assumptions C05_pn_decode_exact.

(** (g) within the permitted reordering window: the packet may be OVERTAKEN.  The length the
    sender chose from its largest acknowledged number tolerates a receiver that has already
    opened packets up to [reorder_tolerance len = 2^(8 len - 1) - 2] numbers ahead of this one
    (2 bytes: 32766, 3 bytes: 8388606, 4 bytes: 2147483646); one further and the decoder
    returns a different number (second theorem; for pn >= 2^32 so that no clamp hides it). *)
Theorem C05_pn_decode_reordered : forall pn largestAcked largest,
  0 <= pn < 2 ^ 62 -> -1 <= largestAcked -> pn - largestAcked <= 2 ^ 31 ->
  largestAcked <= largest <= pn + reorder_tolerance (lenForHeader pn largestAcked) ->
  decodePN (lenForHeader pn largestAcked) largest (truncatePN (lenForHeader pn largestAcked) pn) = pn.
Proof. exact decode_sender_reordered. Qed.
Print Assumptions C05_pn_decode_reordered.

Theorem C05_pn_reorder_tolerance_exact : forall pn largestAcked,
  0 <= pn < 2 ^ 62 - 2 ^ 33 -> -1 <= largestAcked -> 2 ^ 32 <= pn ->
  decodePN (lenForHeader pn largestAcked) (pn + reorder_tolerance (lenForHeader pn largestAcked) + 1)
           (truncatePN (lenForHeader pn largestAcked) pn) <> pn.
Proof. exact decode_beyond_tolerance. Qed.
Print Assumptions C05_pn_reorder_tolerance_exact.

(** the auditor's numbers: pn 70000, largest acknowledged 69990, 2 bytes: fine up to pn + 32766 *)
Example C05_pn_reorder_example :
  lenForHeader 70000 69990 = 2 /\ reorder_tolerance 2 = 32766 /\
  decodePN 2 (70000 + 1000) (truncatePN 2 70000) = 70000 /\
  decodePN 2 (70000 + 32766) (truncatePN 2 70000) = 70000 /\
  decodePN 2 (70000 + 32767) (truncatePN 2 70000) = 135536.
Proof. vm_compute. repeat split; reflexivity. Qed.
Print Assumptions C05_pn_reorder_example.

(** General window form (RFC 9000 A.3) for every length 1..4. *)
Theorem C05_pn_decode_window : forall len largest pn,
  valid_len len -> 0 <= pn < 2 ^ 62 -> -1 <= largest ->
  largest + 1 - 2 ^ (len * 8) / 2 < pn <= largest + 1 + 2 ^ (len * 8) / 2 ->
  decodePN len largest (truncatePN len pn) = pn.
Proof. exact decode_window. Qed.
Print Assumptions C05_pn_decode_window.

(** (f) Packet numbers are never reused: both generators return strictly increasing
    numbers; a number flagged as skipped is never returned, before or after; every number
    that is missing is flagged; never two skips in a row. For all draws of the random source. *)
Theorem C05_pn_never_reused : pn_never_reused_statement.
Proof. exact pn_never_reused. Qed.
Print Assumptions C05_pn_never_reused.

(** (e) Key updates are neither initiated nor accepted earlier than the protocol allows.
    For every AEAD, every configuration of the update intervals and every history [ops] of
    calls on one updatableAEAD made by an arbitrary peer and environment — the only
    obligations ([wf_ops]) being the local ones: packet numbers handed to Seal increase
    and SetLargestAcked is called only for numbers that were sent — every entry
    [(phase before, call, result, phase after)] of the trace satisfies [claim] w.r.t. the
    entries [pre] before it:
    - KeyPhase() changes the phase only by +1, only after SetHandshakeConfirmed, and from a
      phase g > 0 only if a packet sealed in phase g was acknowledged in phase g;
    - Open changes the phase only by +1, only when it returns a plaintext, and from a phase
      g > 0 only if a packet was sealed in phase g; KEY_UPDATE_ERROR is returned only in a
      phase g > 0 in which nothing was sealed (and leaves the phase unchanged);
    - SetLargestAcked(pn) returns KEY_UPDATE_ERROR exactly when pn covers a packet sealed in
      the current phase while no packet has been opened with the current phase's key. *)
Theorem C05_update_not_early :
  forall (ctext ptext adata : Type)
         (aead_seal : key -> Z -> adata -> ptext -> ctext)
         (aead_open : key -> Z -> adata -> ctext -> option ptext)
         cfg rd wd lim ops pre e post,
    wf_ops ctext ptext adata ops ->
    ua_trace ctext ptext adata aead_seal aead_open cfg (ua_new rd wd lim) ops = pre ++ e :: post ->
    claim ctext ptext adata pre e.
Proof. exact update_not_early. Qed.
Print Assumptions C05_update_not_early.

(** Non-vacuity: a well-formed history in which both a local update (0 -> 1, then 1 -> 2
    after an acknowledged phase-1 packet) and a peer-initiated update (2 -> 3) happen. *)
Example C05_update_not_early_nonvacuous :
  wf_ops sct Z Z update_example_ops /\
  map (fun e => snd e) (ua_trace sct Z Z sym_seal sym_open {| keyUpdateInterval := 2; firstKeyUpdateInterval := 1 |} (ua_new 1 0 10) update_example_ops)
  = [0; 0; 1; 1; 1; 1; 1; 1; 2; 2; 2; 3].
Proof. exact update_example_ok. Qed.
Print Assumptions C05_update_not_early_nonvacuous.

(** (c), receive side, over all histories of one endpoint ([_partial]: the facts about the
    peer that a two-endpoint argument would supply are explicit premises).  For every AEAD
    that opens what it sealed, after every well-formed history [ops] a genuine packet of the
    peer's key generation g with packet number pn, delivered next, is opened to its
    plaintext p
    - when g is the current key phase r;
    - when g = r+1, provided the peer was allowed to update (r = 0, or this endpoint has sent
      and received in phase r) and its packet number is not below those received in phase r
      (the endpoint then moves to phase r+1);
    - when g = r-1 (reordering across a key update), provided its packet number is below
      those received in phase r and the previous keys are still kept (not yet dropped by the
      3*PTO timer). *)
Theorem C05_keyphase_window_partial :
  forall (ctext ptext adata : Type)
         (aead_seal : key -> Z -> adata -> ptext -> ctext)
         (aead_open : key -> Z -> adata -> ctext -> option ptext),
    (forall k n ad p, aead_open k n ad (aead_seal k n ad p) = Some p) ->
    forall cfg rd wd lim ops now pto3 pn ad p g,
      wf_ops ctext ptext adata ops -> open_pns_nonneg ctext ptext adata ops -> 0 <= pn ->
      let a := ua_run ctext ptext adata aead_seal aead_open cfg (ua_new rd wd lim) ops in
      let tr := ua_trace ctext ptext adata aead_seal aead_open cfg (ua_new rd wd lim) ops in
      let r := keyPhase a in
      let res := ua_open ctext ptext adata aead_open a now pto3 pn (g mod 2) ad (aead_seal (rd, g) pn ad p) in
      (g = r -> fst res = OpenOK p /\ keyPhase (snd res) = r) /\
      (g = r + 1 ->
       (r = 0 \/ ((exists pn', sealed_in ctext ptext adata r tr pn') /\ (exists pn', rcvd_in ctext ptext adata r tr pn'))) ->
       (forall pn', rcvd_in ctext ptext adata r tr pn' -> pn' <= pn) ->
       fst res = OpenOK p /\ keyPhase (snd res) = r + 1) /\
      (g = r - 1 ->
       (forall pn', rcvd_in ctext ptext adata r tr pn' -> pn < pn') ->
       prevRcvAEAD a <> None -> dropped_now a now = false ->
       fst res = OpenOK p /\ keyPhase (snd res) = r).
Proof. exact keyphase_window. Qed.
Print Assumptions C05_keyphase_window_partial.

Example C05_keyphase_window_nonvacuous :
  (forall k n ad p, sym_open k n ad (sym_seal k n ad p) = Some p) /\
  (let a := ua_run sct Z Z sym_seal sym_open window_example_cfg (ua_new 1 0 10) window_example_ops in
   let tr := ua_trace sct Z Z sym_seal sym_open window_example_cfg (ua_new 1 0 10) window_example_ops in
   wf_ops sct Z Z window_example_ops /\ open_pns_nonneg sct Z Z window_example_ops /\
   keyPhase a = 1 /\ (forall pn', rcvd_in sct Z Z 1 tr pn' -> 5 < pn') /\
   prevRcvAEAD a <> None /\ dropped_now a 100 = false).
Proof. exact (conj sym_open_seal window_example_ok). Qed.
Print Assumptions C05_keyphase_window_nonvacuous.

(** (a) Protect / unprotect round trip, byte level (encryptPacket vs. packetUnpacker), for
    every AEAD that opens what it sealed and adds a 16-byte tag and every header-protection
    mask function: for both header forms, every first byte with the right layout, every
    connection ID / long-header middle part [mid], packet number length 1..4, packet number
    below 2^62 inside the receiver's decode window, and every non-empty payload with
    pnLen + |payload| >= 4 (what the packer pads to: the minimum that still yields a
    header-protection sample), the receiver recovers exactly (first byte, packet number,
    its length, key phase bit, payload). *)
Theorem C05_protect_roundtrip :
  forall (aead_seal : Z -> Z -> list Z -> list Z -> list Z)
         (aead_open : Z -> Z -> list Z -> list Z -> option (list Z))
         (hp_mask : list Z -> list Z),
    (forall pn kp ad p, aead_open pn kp ad (aead_seal pn kp ad p) = Some p) ->
    (forall pn kp ad p, length (aead_seal pn kp ad p) = (length p + 16)%nat) ->
    forall long first mid pn kp pnLen payload largest,
      (1 <= pnLen <= 4)%nat -> wf_first long first pnLen kp ->
      0 <= pn < 2 ^ 62 -> -1 <= largest ->
      largest + 1 - 2 ^ (Z.of_nat pnLen * 8) / 2 < pn <= largest + 1 + 2 ^ (Z.of_nat pnLen * 8) / 2 ->
      payload <> [] -> (4 <= pnLen + length payload)%nat ->
      unprotect aead_open hp_mask long (1 + length mid) largest
        (protect aead_seal hp_mask long (mk_header first mid pnLen pn) payload pn kp pnLen)
      = UOk first pn (Z.of_nat pnLen) kp payload.
Proof. exact protect_roundtrip. Qed.
Print Assumptions C05_protect_roundtrip.

(** The first bytes written by wire.AppendShortHeader / ExtendedHeader.Append satisfy [wf_first]. *)
Theorem C05_first_byte_layout :
  (forall pnLen kp, (1 <= pnLen <= 4)%nat -> kp = 0 \/ kp = 1 -> wf_first false (short_first pnLen kp) pnLen kp) /\
  (forall ptype pnLen, (1 <= pnLen <= 4)%nat -> 0 <= ptype <= 3 -> wf_first true (long_first ptype pnLen) pnLen 0).
Proof. exact (conj short_first_wf long_first_wf). Qed.
Print Assumptions C05_first_byte_layout.

(** (a)+(g) Packer -> unpacker.  The packet the packer builds — packet number length chosen by
    PacketNumberLengthForHeader from the sender's largest acknowledged number (as
    sentPacketHandler.PeekPacketNumber does), payload = ACK | padding | frames with the padding
    appendShortHeaderPacket / appendLongHeaderPacket add so that packet number + payload are at
    least 4 bytes (any extra padding on top), first byte as AppendShortHeader / ExtendedHeader.Append
    write it, encryptPacket — is opened by the unpacker to exactly the packet number, its length,
    the key phase bit and that payload: for both header forms, every packet number below 2^62,
    every receiver state between the largest acknowledged and the packet itself (fewer than
    2^31 outstanding), every non-empty ACK/frame content however short.  The chosen length is
    2..4 and packet number + padded payload always reach the 4 bytes the sample needs. *)
Theorem C05_pack_unpack :
  forall (aead_seal : Z -> Z -> list Z -> list Z -> list Z)
         (aead_open : Z -> Z -> list Z -> list Z -> option (list Z))
         (hp_mask : list Z -> list Z),
    (forall pn kp ad p, aead_open pn kp ad (aead_seal pn kp ad p) = Some p) ->
    (forall pn kp ad p, length (aead_seal pn kp ad p) = (length p + 16)%nat) ->
    forall (long : bool) (tcode kp : Z) (mid : list Z) (pn la largest : Z) (ack frames : list Z) (extra : nat),
      (if long then 0 <= tcode <= 3 else kp = 0 \/ kp = 1) ->
      0 <= pn < 2 ^ 62 -> -1 <= la -> la <= largest <= pn + reorder_tolerance (lenForHeader pn la) -> pn - la <= 2 ^ 31 ->
      ack ++ frames <> [] ->
      let pnLen := lenForHeader pn la in
      let padding := pad_len (Z.to_nat pnLen) (length ack + length frames) extra in
      2 <= pnLen <= 4 /\
      (4 <= Z.to_nat pnLen + length (packet_payload ack padding frames))%nat /\
      unprotect aead_open hp_mask long (1 + length mid) largest
        (pack aead_seal hp_mask long tcode kp mid pn la ack frames extra)
      = UOk (pack_first long tcode kp (Z.to_nat pnLen)) pn pnLen (if long then 0 else kp)
            (packet_payload ack padding frames).
Proof. exact pack_unpack. Qed.
Print Assumptions C05_pack_unpack.

(** (a) at the datagram level, long headers: getLongHeader + ExtendedHeader.Append (the wire
    unit's header codec, property C08, imported read-only) + appendLongHeaderPacket +
    encryptPacket on the sending side; wire.ParsePacket + UnpackLongHeader on the receiving side.
    For every supported version, packet type with a packet number, connection IDs up to 20
    bytes, token, packet number / largest acknowledged / receiver state as in C05_pack_unpack,
    ACK and frame bytes, extra padding, Length fitting the 2-byte field, and ANY bytes
    coalesced behind the packet: ParsePacket reads the header fields the packer was given
    (header protection does not disturb what it looks at), cuts out exactly the packet and
    returns the rest, and the unpacker opens the packet to the packet number, its length and
    the padded payload.  Extra hypothesis: the mask function returns bytes. *)
Theorem C05_long_datagram_roundtrip :
  forall (aead_seal : Z -> Z -> list Z -> list Z -> list Z)
         (aead_open : Z -> Z -> list Z -> list Z -> option (list Z))
         (hp_mask : list Z -> list Z),
    (forall pn kp ad p, aead_open pn kp ad (aead_seal pn kp ad p) = Some p) ->
    (forall pn kp ad p, length (aead_seal pn kp ad p) = (length p + 16)%nat) ->
    (forall s, Forall is_byte (hp_mask s)) ->
    forall (ty v : Z) (src dst tok : list Z) (pn la largest : Z) (ack frames : list Z) (extra : nat) (rest : list Z),
      valid_version v -> pn_type ty ->
      zlen dst <= W_MaxConnIDLen -> zlen src <= W_MaxConnIDLen -> zlen tok <= maxVarInt8 ->
      0 <= pn < 2 ^ 62 -> -1 <= la -> la <= largest <= pn + reorder_tolerance (lenForHeader pn la) -> pn - la <= 2 ^ 31 ->
      ack ++ frames <> [] ->
      let pnLen := lenForHeader pn la in
      let payload := packet_payload ack (pad_len (Z.to_nat pnLen) (length ack + length frames) extra) frames in
      pnLen + zlen payload + 16 <= maxVarInt2 ->
      exists pkt h,
        pack_long_datagram aead_seal hp_mask ty v src dst tok pn la ack frames extra = Some pkt /\
        unpack_long_datagram aead_open hp_mask largest (pkt ++ rest) =
          inr (h, UOk (192 + 16 * type_code v ty + (pnLen - 1)) pn pnLen 0 payload, rest) /\
        hType h = ty /\ hVersion h = v /\ hSrc h = src /\ hDst h = dst /\
        hToken h = (if ty =? H_PacketTypeInitial then tok else []) /\
        hLength h = pnLen + zlen payload + 16.
Proof. exact long_datagram. Qed.
Print Assumptions C05_long_datagram_roundtrip.

(** (d) Any modification is rejected rather than yielding different plaintext: under ideal
    integrity of the AEAD (whatever opens was sealed by the honest sender — predicate
    [sealed] — and is exactly that ciphertext), EVERY byte string the unpacker accepts is
    bit for bit the protected form of the header, packet number, key phase and payload it
    is accepted as, and that content was sealed by the sender.  Hence a byte string that
    differs from every genuinely protected packet fails to open. *)
Theorem C05_tamper_rejected :
  forall (aead_seal : Z -> Z -> list Z -> list Z -> list Z)
         (aead_open : Z -> Z -> list Z -> list Z -> option (list Z))
         (hp_mask : list Z -> list Z)
         (sealed : Z -> Z -> list Z -> list Z -> Prop),
    (forall pn kp ad c p, aead_open pn kp ad c = Some p -> sealed pn kp ad p /\ c = aead_seal pn kp ad p) ->
    forall long hdrLen largest data first pn pnLen kp p,
      (1 <= hdrLen)%nat ->
      unprotect aead_open hp_mask long hdrLen largest data = UOk first pn pnLen kp p ->
      exists hdr, sealed pn kp hdr p /\ length hdr = (hdrLen + Z.to_nat pnLen)%nat /\ nth 0 hdr 0 = first /\
                  data = protect aead_seal hp_mask long hdr p pn kp (Z.to_nat pnLen).
Proof. exact tamper_rejected. Qed.
Print Assumptions C05_tamper_rejected.

(** Non-vacuity: the hypotheses of both theorems are satisfiable together, and a concrete
    short-header packet (key phase 1, 2-byte packet number 65537 against largest 65530)
    round-trips while differing from its unprotected form. *)
Example C05_protect_nonvacuous :
  (forall pn kp ad p, toy_open pn kp ad (toy_seal pn kp ad p) = Some p) /\
  (forall pn kp ad p, length (toy_seal pn kp ad p) = (length p + 16)%nat) /\
  (forall pn kp ad c p, toy_open pn kp ad c = Some p -> True /\ c = toy_seal pn kp ad p) /\
  unprotect toy_open toy_mask false 4 65530 ex_packet = UOk (short_first 2 1) 65537 2 1 [9; 8; 7] /\
  ex_packet <> mk_header (short_first 2 1) [1; 2; 3] 2 65537 ++ toy_seal 65537 1 [] [9; 8; 7].
Proof. exact (conj toy_open_seal (conj toy_seal_length (conj toy_integrity protect_example))). Qed.
Print Assumptions C05_protect_nonvacuous.

(** (b), key updates: the secret of the next key generation is literally
    HKDF-Expand-Label(secret, "quic ku" | "quicv2 ku", "", Hash.len) and key / iv / header
    protection key are HKDF-Expand-Label(secret, "quic key|iv|hp" | "quicv2 key|iv|hp") — the
    labels of RFC 9001 (5.1, 5.4, 6.1) for v1 and of RFC 9369 (3.3.2) for v2 — for every
    HKDF-Expand-Label function.  The model's labels are the ones found in the code
    (Gen/Params.v), so a label that differs from the RFC's breaks this proof. *)
Theorem C05_key_update_derivation_rfc :
  forall (expand_label : list Z -> String.string -> Z -> list Z) v2 hashLen keyLen ts,
    let '(lk, li, lh, lu) := rfc_labels v2 in
    next_secret expand_label v2 hashLen ts = expand_label ts lu hashLen /\
    aead_key expand_label v2 keyLen ts = expand_label ts lk keyLen /\
    aead_iv expand_label v2 ts = expand_label ts li 12 /\
    hp_key expand_label v2 keyLen ts = expand_label ts lh keyLen.
Proof. exact derivation_rfc. Qed.
Print Assumptions C05_key_update_derivation_rfc.

(** (c) Two-endpoint closure.  Two conformant updatableAEAD endpoints (the KeyPhase model,
    twice) and a network in which every packet ever sealed may be delivered any number of
    times, in any order, or never; ACKs travel inside packets and are processed after a
    successful Open; each side may call KeyPhase() (and thereby initiate an update whenever
    the code allows it), Seal, and SetHandshakeConfirmed at any time.  For every AEAD that
    opens what it sealed and fails under a different key, for every update-interval
    configuration and EVERY interleaving [ops], in the state reached:
    - no packet in flight is more than one generation ahead of its receiver;
    - a packet whose generation is the receiver's current one, or the next one, or the
      previous one while the previous keys are still kept (not yet dropped by the 3*PTO
      timer), opens to exactly its plaintext;
    - whatever opens, opens to the packet's own plaintext, and the ACK it carries is never
      answered with KEY_UPDATE_ERROR. *)
Theorem C05_keyphase_histories :
  forall (ctext ptext adata : Type)
         (aead_seal : key -> Z -> adata -> ptext -> ctext)
         (aead_open : key -> Z -> adata -> ctext -> option ptext),
    (forall k n ad p, aead_open k n ad (aead_seal k n ad p) = Some p) ->
    (forall k k' n ad p, k <> k' -> aead_open k n ad (aead_seal k' n ad p) = None) ->
    forall cfg lim n0 ops, (forall x, 0 <= n0 x) ->
      let s := srun ctext ptext adata aead_seal aead_open cfg (sinit ptext adata lim n0) ops in
      forall i p now pto3, nth_error (sent s) i = Some p ->
        let R := ep (sd s (negb (p_from p))) in
        let r := keyPhase R in
        let res := ua_open ctext ptext adata aead_open R now pto3 (p_pn p) (p_gen p mod 2) (p_ad p)
                           (p_ct ctext ptext adata aead_seal p) in
        p_gen p <= r + 1 /\
        ((p_gen p = r \/ p_gen p = r + 1 \/ (p_gen p = r - 1 /\ prevRcvAEAD R <> None /\ dropped_now R now = false)) ->
         fst res = OpenOK (p_pt p)) /\
        (forall pt', fst res = OpenOK pt' ->
           pt' = p_pt p /\ (0 <= p_ack p -> fst (ua_set_largest_acked (snd res) (p_ack p)) = false)).
Proof. exact keyphase_histories. Qed.
Print Assumptions C05_keyphase_histories.

Example C05_keyphase_histories_nonvacuous :
  (forall k n ad p, sym_open k n ad (sym_seal k n ad p) = Some p) /\
  (forall k k' n ad p, k <> k' -> sym_open k n ad (sym_seal k' n ad p) = None) /\
  (exists p, nth_error (sent sys_example) 1 = Some p /\ p_from p = false /\
             p_gen p = keyPhase (ep (sd sys_example true)) - 1 /\
             prevRcvAEAD (ep (sd sys_example true)) <> None /\ dropped_now (ep (sd sys_example true)) 20 = false) /\
  (exists p, nth_error (sent sys_example) 2 = Some p /\ p_from p = true /\
             p_gen p = keyPhase (ep (sd sys_example false)) + 1).
Proof. exact (conj sym_open_seal (conj sym_open_wrong_key sys_example_ok)). Qed.
Print Assumptions C05_keyphase_histories_nonvacuous.

(** (g) composed with (c): the packet number ON THE WIRE in the two-endpoint system.  Every
    packet is sent with the length PacketNumberLengthForHeader chooses from the sender's largest
    acknowledged number at that moment ([las], a ghost log) and carries the truncated number;
    the receiver calls updatableAEAD.DecodePacketNumber against its highestRcvdPN.  In every
    reachable state (every interleaving of KeyPhase(), Seal, deliveries in any order and any
    number of times, ACKs, confirmations), for every packet in flight with fewer than 2^31
    numbers outstanding at its sender: what its sender knew to be acknowledged is at most the
    receiver's highestRcvdPN (the sender-side guarantee is a THEOREM here, not a premise), so
    as long as the receiver has not run ahead of the packet by more than the tolerance of its
    length, DecodePacketNumber returns the packet's number, and Open on the decoded number
    gives the plaintext inside the key window of C05_keyphase_histories. *)
Theorem C05_pn_decode_in_histories :
  forall (ctext ptext adata : Type)
         (aead_seal : key -> Z -> adata -> ptext -> ctext)
         (aead_open : key -> Z -> adata -> ctext -> option ptext),
    (forall k n ad p, aead_open k n ad (aead_seal k n ad p) = Some p) ->
    (forall k k' n ad p, k <> k' -> aead_open k n ad (aead_seal k' n ad p) = None) ->
    forall cfg lim n0 ops, (forall x, 0 <= n0 x) ->
      let sl := srun2 ctext ptext adata aead_seal aead_open cfg (sinit ptext adata lim n0, []) ops in
      let s := fst sl in
      let las := snd sl in
      forall i p la, nth_error (sent s) i = Some p -> nth_error las i = Some la ->
        let R := ep (sd s (negb (p_from p))) in
        let len := wire_len ptext adata p la in
        p_pn p < 2 ^ 62 -> p_pn p - la <= 2 ^ 31 ->
        highestRcvdPN R <= p_pn p + reorder_tolerance len ->
        -1 <= la <= highestRcvdPN R /\
        2 <= len <= 4 /\
        ua_decode_pn R (wire_pn ptext adata p la) len = p_pn p /\
        (forall now pto3,
           let r := keyPhase R in
           (p_gen p = r \/ p_gen p = r + 1 \/ (p_gen p = r - 1 /\ prevRcvAEAD R <> None /\ dropped_now R now = false)) ->
           fst (ua_open ctext ptext adata aead_open R now pto3 (ua_decode_pn R (wire_pn ptext adata p la) len)
                        (p_gen p mod 2) (p_ad p) (p_ct ctext ptext adata aead_seal p)) = OpenOK (p_pt p)).
Proof. exact pn_in_system. Qed.
Print Assumptions C05_pn_decode_in_histories.

Example C05_pn_decode_in_histories_nonvacuous :
  exists p, nth_error (sent (fst sys_example2)) 1 = Some p /\ nth_error (snd sys_example2) 1 = Some (-1) /\
    p_pn p < 2 ^ 62 /\ p_pn p - (-1) <= 2 ^ 31 /\
    highestRcvdPN (ep (sd (fst sys_example2) (negb (p_from p)))) <= p_pn p + reorder_tolerance (wire_len Z Z p (-1)).
Proof. exact sys_example2_ok. Qed.
Print Assumptions C05_pn_decode_in_histories_nonvacuous.

Import Coq.Strings.String. (* string literals below; placed here because String.length would shadow List.length above *)

(** (b) Initial keys, concretely.  With SHA-256, HMAC and HKDF written in Gallina (Sha256.v,
    no code shared with /repo): the code's derivation (salts and "client in"/"server in"
    taken from the code through Gen/Params.v) IS
      HKDF-Expand-Label(HKDF-Expand-Label(HKDF-Extract(salt_v, dcid), "client in"|"server in", "", 32), key|iv|hp label of v, ...)
    with the salts of RFC 9001 5.2 / RFC 9369 3.3.1, for every connection ID and both
    versions; an edited salt or label breaks this proof. *)
Theorem C05_initial_keys_rfc :
  forall (v2 client : bool) (dcid : list Z),
    let initial := hkdf_extract (rfc_salt v2) dcid in
    let s := expand_label initial (rfc_side_label client) 32 in   (* "client in" / "server in" *)
    let '(lk, li, lh, _) := rfc_labels v2 in
    initial_secret v2 client dcid = s /\
    initial_keys v2 client dcid = (expand_label s lk 16, expand_label s li 12, expand_label s lh 16).
Proof. exact initial_keys_rfc. Qed.
Print Assumptions C05_initial_keys_rfc.

(** RFC 9001 Appendix A.1 (v1) and RFC 9369 Appendix A.1 (v2), DCID 0x8394c8f03e515708:
    initial secret, client/server secrets, keys, IVs and header-protection keys, computed by
    the Gallina SHA-256/HMAC/HKDF inside Coq. *)
Example C05_rfc9001_A1 :
  hkdf_extract (rfc_salt false) rfc_dcid = hx "7db5df06e7a69e432496adedb00851923595221596ae2ae9fb8115c1e9ed0a44" /\
  initial_secret false true rfc_dcid = hx "c00cf151ca5be075ed0ebfb5c80323c42d6b7db67881289af4008f1f6c357aea" /\
  initial_keys false true rfc_dcid =
    (hx "1f369613dd76d5467730efcbe3b1a22d", hx "fa044b2f42a3fd3b46fb255c", hx "9f50449e04a0e810283a1e9933adedd2") /\
  initial_secret false false rfc_dcid = hx "3c199828fd139efd216c155ad844cc81fb82fa8d7446fa7d78be803acdda951b" /\
  initial_keys false false rfc_dcid =
    (hx "cf3a5331653c364c88f0f379b6067e37", hx "0ac1493ca1905853b0bba03e", hx "c206b8d9b9f0f37644430b490eeaa314").
Proof. exact rfc9001_A1. Qed.
Print Assumptions C05_rfc9001_A1.

Example C05_rfc9369_A1 :
  initial_secret true true rfc_dcid = hx "14ec9d6eb9fd7af83bf5a668bc17a7e283766aade7ecd0891f70f9ff7f4bf47b" /\
  initial_keys true true rfc_dcid =
    (hx "8b1a0bc121284290a29e0971b5cd045d", hx "91f73e2351d8fa91660e909f", hx "45b95e15235d6f45a6b19cbcb0294ba9") /\
  initial_secret true false rfc_dcid = hx "0263db1782731bf4588e7e4d93b7463907cb8cd8200b5da55a8bd488eafc37c1" /\
  initial_keys true false rfc_dcid =
    (hx "82db637861d55e1d011f19ea71d5d2a7", hx "dd13c276499c0249d3310652", hx "edf6d05c83121201b436e16877593c3a").
Proof. exact rfc9369_A1. Qed.
Print Assumptions C05_rfc9369_A1.

(** RFC 9001 A.2 / A.3 and RFC 9369 A.2 / A.3: the protected client Initial (1200 bytes) and
    server Initial are reproduced bit for bit inside Coq — HKDF key derivation, AES-128-GCM
    with nonce = IV xor packet number, AES-ECB header-protection mask with the sample at
    pn_offset + 4, all in Gallina, instantiating the byte-level Protect model — and opened
    again by the model's unpacker.  (Header, payload and packet bytes: InitialProtectExamples.v.) *)
Example C05_rfc9001_A2_client_initial :
  initial_protect false true rfc_dcid client_initial_version1_hdr client_initial_version1_payload 2 4 = client_initial_version1_packet /\
  initial_unprotect false true rfc_dcid 18 0 client_initial_version1_packet =
    UOk (nth 0 client_initial_version1_hdr 0) 2 4 0 client_initial_version1_payload.
Proof. exact client_initial_version1_ok. Qed.
Print Assumptions C05_rfc9001_A2_client_initial.

Example C05_rfc9001_A3_server_initial :
  initial_protect false false rfc_dcid server_initial_version1_hdr server_initial_version1_payload 1 2 = server_initial_version1_packet /\
  initial_unprotect false false rfc_dcid 18 0 server_initial_version1_packet =
    UOk (nth 0 server_initial_version1_hdr 0) 1 2 0 server_initial_version1_payload.
Proof. exact server_initial_version1_ok. Qed.
Print Assumptions C05_rfc9001_A3_server_initial.

Example C05_rfc9369_A2_client_initial :
  initial_protect true true rfc_dcid client_initial_version2_hdr client_initial_version2_payload 2 4 = client_initial_version2_packet /\
  initial_unprotect true true rfc_dcid 18 0 client_initial_version2_packet =
    UOk (nth 0 client_initial_version2_hdr 0) 2 4 0 client_initial_version2_payload.
Proof. exact client_initial_version2_ok. Qed.
Print Assumptions C05_rfc9369_A2_client_initial.

Example C05_rfc9369_A3_server_initial :
  initial_protect true false rfc_dcid server_initial_version2_hdr server_initial_version2_payload 1 2 = server_initial_version2_packet /\
  initial_unprotect true false rfc_dcid 18 0 server_initial_version2_packet =
    UOk (nth 0 server_initial_version2_hdr 0) 1 2 0 server_initial_version2_payload.
Proof. exact server_initial_version2_ok. Qed.
Print Assumptions C05_rfc9369_A3_server_initial.

(** Retry integrity tag (RFC 9001 5.8 / RFC 9369 3.3.3) on the same Gallina AES-128-GCM: the
    code's nonces are the RFC's, and the Appendix A.4 Retry packets get the RFC's tags. *)
Example C05_retry_rfc :
  (retry_nonce false = hx "461599d35d632bf2239825bb" /\ retry_nonce true = hx "d86969bc2d7c6d9990efb04a") /\
  retry_tag false rfc_dcid (hx "ff000000010008f067a5502a4262b5746f6b656e") = hx "04a265ba2eff4d829058fb3f0f2496ba" /\
  retry_tag true rfc_dcid (hx "cf6b3343cf0008f067a5502a4262b5746f6b656e") = hx "c8646ce8bfe33952d955543665dcc7b6".
Proof. exact (conj retry_nonce_rfc retry_rfc_A4). Qed.
Print Assumptions C05_retry_rfc.

(** (a) for Initial packets with NO cryptographic hypothesis: the Gallina AES-128-GCM is proved
    to open what it seals (gcm_open_seal), the derived keys have the right sizes, hence for
    every version, side, connection ID, long-header first byte / prefix, packet number length
    1..4, packet number inside the receiver's window and non-empty payload with
    pnLen + |payload| >= 4, the concrete protection (HKDF-derived keys, AES-128-GCM,
    AES-ECB header protection) round-trips.  (Instances: the RFC packets above.) *)
Theorem C05_initial_protect_roundtrip :
  forall (v2 client : bool) (dcid : list Z) first mid pn pnLen payload largest,
    (1 <= pnLen <= 4)%nat -> wf_first true first pnLen 0 ->
    0 <= pn < 2 ^ 62 -> -1 <= largest ->
    largest + 1 - 2 ^ (Z.of_nat pnLen * 8) / 2 < pn <= largest + 1 + 2 ^ (Z.of_nat pnLen * 8) / 2 ->
    payload <> [] -> (4 <= pnLen + List.length payload)%nat ->
    initial_unprotect v2 client dcid (1 + List.length mid) largest
      (initial_protect v2 client dcid (mk_header first mid pnLen pn) payload pn pnLen)
    = UOk first pn (Z.of_nat pnLen) 0 payload.
Proof. exact initial_roundtrip. Qed.
Print Assumptions C05_initial_protect_roundtrip.

(** RFC 9001 Appendix A.5 (ChaCha20-Poly1305 short header packet): key, IV, header-protection
    key and next-generation ("quic ku") secret from the traffic secret, the ChaCha20
    header-protection mask for the sample, the protected packet bit for bit, and its opening —
    with ChaCha20, Poly1305 and HKDF written in Gallina, through the byte-level Protect model. *)
Example C05_rfc9001_A5_chacha :
  a5_key = hx "c6d98ff3441c3fe1b2182094f69caa2ed4b716b65488960a7a984979fb23e1c8" /\
  a5_iv = hx "e0459b3474bdd0e44a41c144" /\
  a5_hp = hx "25a282b9e82f06f21f488917a4fc8f1b73573685608597d0efcb076b0ab7a7a4" /\
  expand_label a5_secret "quic ku" 32 = hx "1223504755036d556342ee9361d253421a826c9ecdf3c7148684b36b714881f9" /\
  chacha_mask a5_hp (hx "5e5cd55c41f69080575d7999c25a5bfb") = hx "aefefe7d03" /\
  protect a5_seal (chacha_mask a5_hp) false (hx "4200bff4") (hx "01") 654360564 0 3
    = hx "4cfe4189655e5cd55c41f69080575d7999c25a5bfb" /\
  unprotect a5_open (chacha_mask a5_hp) false 1 654360563 (hx "4cfe4189655e5cd55c41f69080575d7999c25a5bfb")
    = UOk 66 654360564 3 0 (hx "01").
Proof. exact rfc9001_A5. Qed.
Print Assumptions C05_rfc9001_A5_chacha.

(** Header authentication on concrete ciphers (companion of C05_tamper_rejected, whose
    ideal-integrity hypothesis is an assumption about the cipher): the RFC A.3 packet under the
    Gallina AES-128-GCM and the A.5 packet under the Gallina ChaCha20-Poly1305 open, and with a
    single bit flipped in the unprotected header, the protected first byte (key phase bit /
    reserved bit / packet number length), the packet number, the ciphertext or the tag the
    unpacker's open fails.  (C05_protect_nonvacuous only shows that the hypotheses are
    jointly satisfiable, with an AEAD that ignores nonce and header.) *)
Example C05_tamper_concrete :
  a3_open server_initial_version1_packet = UOk 193 1 2 0 server_initial_version1_payload /\
  a3_open (flip_bit server_initial_version1_packet 0 2) = UDecryptFailed /\
  a3_open (flip_bit server_initial_version1_packet 0 0) = UDecryptFailed /\
  a3_open (flip_bit server_initial_version1_packet 4 0) = UDecryptFailed /\
  a3_open (flip_bit server_initial_version1_packet 8 7) = UDecryptFailed /\
  a3_open (flip_bit server_initial_version1_packet 18 0) = UDecryptFailed /\
  a3_open (flip_bit server_initial_version1_packet 40 3) = UDecryptFailed /\
  a3_open (flip_bit server_initial_version1_packet 134 0) = UDecryptFailed /\
  a5_unprotect a5_packet = UOk 66 654360564 3 0 (hx "01") /\
  a5_unprotect (flip_bit a5_packet 0 2) = UDecryptFailed /\
  a5_unprotect (flip_bit a5_packet 2 0) = UDecryptFailed /\
  a5_unprotect (flip_bit a5_packet 4 5) = UDecryptFailed /\
  a5_unprotect (flip_bit a5_packet 20 7) = UDecryptFailed.
Proof. exact tamper_concrete. Qed.
Print Assumptions C05_tamper_concrete.
