(** C03 — stream and CRYPTO reassembly delivers exactly the sent byte sequence.
    Only statements live here; each is closed by [exact] of a lemma proved elsewhere.
    [S : Z -> Z] is the underlying byte string (an arbitrary function of the absolute
    offset); a push is consistent when its data is S[off, off+n). *)
From Coq Require Import List ZArith Permutation Lia.
From V Require Import Gen.Params FrameSorter.Model FrameSorter.InvCheck FrameSorter.Spec
  FrameSorter.ProofsInvOk FrameSorter.ProofsRun FrameSorter.ProofsGapLimit
  RecvStream.Model RecvStream.Spec RecvStream.ProofsCrypto RecvStream.ProofsRecv RecvStream.ProofsRecv2 RecvStream.MgrRun RecvStream.ProofsMgr RecvStream.GlueRun RecvStream.ProofsGlue.
Import ListNotations.
Open Scope Z_scope.

(** ** Frame sorter *)

(** [Inv] (gaps sorted, disjoint, non-touching, last one ends at MaxByteCount; queue keys
    distinct and >= readPos, entries non-empty, pairwise disjoint, data = slice of S; every
    offset >= readPos is in a gap xor in exactly one entry) holds initially and is preserved
    by every consistent Push that returns nil and by every Pop. *)
Theorem C03_sorter_inv_steps : forall S,
  Inv S init /\
  (forall s off n cb s', Inv S s -> 0 <= off -> 0 <= n -> off + n < MaxBC ->
     Push s (slice S off n) off cb = (s', Ok) -> Inv S s') /\
  (forall s s' out bug, Inv S s -> Pop s = (s', out, bug) -> Inv S s').
Proof. exact sorter_inv_steps. Qed.
Print Assumptions C03_sorter_inv_steps.

(** ... hence in every state reachable by any history of consistent pushes and pops. *)
Theorem C03_sorter_inv : forall S ops rs,
  Forall valid_op ops -> srun S run_init ops = Some rs -> Inv S (r_st rs).
Proof. exact sorter_inv. Qed.
Print Assumptions C03_sorter_inv.

(** Push refines set union: unless it returns the gap-limit error, the set of buffered
    offsets becomes old ∪ ([off, off+n) ∩ [readPos, ∞)); no other result is possible
    (in particular the model's Bug value, i.e. the "no gap found" panics, is unreachable). *)
Theorem C03_sorter_refines_set_push : forall S s off n cb s' r,
  Inv S s -> 0 <= off -> 0 <= n -> off + n < MaxBC ->
  Push s (slice S off n) off cb = (s', r) ->
  (r = Ok \/ r = TooManyGaps) /\
  (r = Ok -> readPos s' = readPos s /\
     forall x, cov (queue s') x <-> cov (queue s) x \/ (off <= x < off + n /\ readPos s <= x)).
Proof. exact sorter_refines_push. Qed.
Print Assumptions C03_sorter_refines_set_push.

(** Pop returns S[readPos, readPos + len) — of positive length iff readPos is buffered —,
    advances readPos by that length, removes exactly those offsets, and never reaches the
    "read position higher than a gap" panic. *)
Theorem C03_sorter_refines_set_pop : forall S s s' off d cb bug,
  Inv S s -> Pop s = (s', (off, d, cb), bug) ->
  bug = false /\ off = readPos s /\ d = slice S (readPos s) (len d) /\
  (0 < len d <-> cov (queue s) (readPos s)) /\
  readPos s' = readPos s + len d /\
  (forall x, cov (queue s') x <-> cov (queue s) x /\ readPos s' <= x).
Proof. exact sorter_refines_pop. Qed.
Print Assumptions C03_sorter_refines_set_pop.

(** The concatenation of everything Pop ever returned is S[0, readPos): the original bytes,
    once, contiguously. *)
Theorem C03_sorter_delivers : forall S ops rs,
  Forall valid_op ops -> srun S run_init ops = Some rs ->
  r_out rs = slice S 0 (readPos (r_st rs)).
Proof. exact sorter_delivers. Qed.
Print Assumptions C03_sorter_delivers.

(** A history can only fail at a Push that returns the gap-limit error, with more than
    MaxStreamFrameSorterGaps gaps. *)
Theorem C03_sorter_fails_only_on_gap_limit : forall S ops,
  Forall valid_op ops -> srun S run_init ops = None ->
  exists pre off n cb rest rs s', ops = pre ++ SPush off n cb :: rest /\ srun S run_init pre = Some rs /\
    Push (r_st rs) (slice S off n) off cb = (s', TooManyGaps) /\
    MaxGaps < Z.of_nat (length (gaps s')).
Proof. exact sorter_fails_only_on_gap_limit. Qed.
Print Assumptions C03_sorter_fails_only_on_gap_limit.

(** Buffers: with distinct callback ids, at every point of every history each id is in
    exactly one place — fired, still attached to a queued entry, or handed to the reader by
    Pop. So no callback fires twice, and none has fired while an entry still carries it. *)
Theorem C03_buffers_once : forall S ops rs,
  Forall valid_op ops -> NoDup (op_cbs ops) -> srun S run_init ops = Some rs ->
  Permutation (fired (r_st rs) ++ live (queue (r_st rs)) ++ r_held rs) (op_cbs ops) /\
  NoDup (fired (r_st rs) ++ live (queue (r_st rs)) ++ r_held rs).
Proof. exact sorter_buffers_once. Qed.
Print Assumptions C03_buffers_once.

(** The executable checker evaluated after every step of the correspondence run is sound. *)
Theorem C03_inv_ok_sound : forall S s, inv_ok S s = true -> Inv S s.
Proof. exact inv_ok_sound. Qed.
Print Assumptions C03_inv_ok_sound.

(** Non-vacuity: a history with overlap, duplication, a cut below the copy threshold and
    interleaved pops satisfies the hypotheses and delivers S[0,12). *)
Example C03_sorter_example :
  let ops := [SPush 4 4 (Some 0); SPush 0 6 (Some 1); SPop; SPush 2 10 (Some 2); SPush 4 4 (Some 3); SPop; SPop; SPop] in
  Forall valid_op ops /\ NoDup (op_cbs ops) /\
  exists rs, srun sbyte run_init ops = Some rs /\ r_out rs = slice sbyte 0 12 /\ readPos (r_st rs) = 12.
Proof.
  cbv zeta. split; [|split].
  - repeat constructor; solve [vm_compute; first [reflexivity | intro; discriminate]].
  - vm_compute. repeat constructor; simpl; intuition discriminate.
  - eexists. split; [vm_compute; reflexivity|]. split; vm_compute; reflexivity.
Qed.
Print Assumptions C03_sorter_example.

(** ** ReceiveStream (over the sorter, with the stream flow controller's final-size and window
    rules; [w] is the advertised stream window) *)

(** For every interleaving of consistent frames (FIN anywhere), RESET_STREAM(_AT), reads and
    peeks of any size, CancelRead and closeForShutdown that ends without a transport error:
    the concatenated Read output is S[0, readPos) — each byte once, contiguously —, it never
    exceeds what was received, a known final size equals the highest offset received, and
    once io.EOF was returned the read position is exactly the final size. *)
Theorem C03_read_exact : forall S w ops r,
  0 <= w < MaxBC -> Forall rvalid ops -> rsrun S (rrun_init w) ops = Some r ->
  rr_out r = slice S 0 (rpos (rr_st r)) /\
  rpos (rr_st r) <= fc_highest (rr_st r) /\
  (fc_final (rr_st r) = true -> finalOffset (rr_st r) = fc_highest (rr_st r)) /\
  (rr_eof r = true -> fc_final (rr_st r) = true /\ rpos (rr_st r) = finalOffset (rr_st r)).
Proof. exact recv_read_exact. Qed.
Print Assumptions C03_read_exact.

(** One Read in any reachable state: never the model's Bug value (sorter panic, fuel), at most
    n bytes, exactly S[readPos, readPos+len), and io.EOF only with readPos = final size. *)
Theorem C03_read_step : forall S w ops r n s' d e bug,
  0 <= w < MaxBC -> Forall rvalid ops -> rsrun S (rrun_init w) ops = Some r ->
  0 <= n -> Read (rr_st r) n = (s', d, e, bug) ->
  bug = false /\ d = slice S (rpos (rr_st r)) (len d) /\ rpos s' = rpos (rr_st r) + len d /\ len d <= n /\
  (e = EEOF -> fc_final s' = true /\ rpos s' = finalOffset s').
Proof. exact recv_read_step. Qed.
Print Assumptions C03_read_step.

(** One Peek in any reachable state: it returns S[readPos, readPos+len) — a prefix of what the
    next reads return —, all n bytes unless it reports an error, io.EOF only when the data
    ends at the final size, and it does not move the read position. *)
Theorem C03_peek_step : forall S w ops r n s' d e bug,
  0 <= w < MaxBC -> Forall rvalid ops -> rsrun S (rrun_init w) ops = Some r ->
  0 <= n -> PeekS (rr_st r) n = (s', d, e, bug) ->
  bug = false /\ rpos s' = rpos (rr_st r) /\ d = slice S (rpos (rr_st r)) (len d) /\ len d <= n /\
  (e = ENil -> len d = n) /\ (e = EEOF -> fc_final s' = true /\ rpos (rr_st r) + len d = finalOffset s').
Proof. exact recv_peek_step. Qed.
Print Assumptions C03_peek_step.

(** Resets and cancellation (any state): the reset / cancellation error is returned only when
    the stream was cancelled locally, or it was reset and every byte below the (smallest)
    reliable size has been read; after CancelRead no Read returns data. *)
Theorem C03_reset_semantics : forall s n s' d c r bug,
  Read s n = (s', d, ECancel c r, bug) ->
  cancelledLocally s' = true \/ (cancelledRemotely s' = true /\ reliableSize s' <= rpos s').
Proof. exact recv_cancel_error. Qed.
Print Assumptions C03_reset_semantics.

Theorem C03_no_data_after_cancel : forall s n s' d e bug,
  cancelledLocally s = true -> Read s n = (s', d, e, bug) -> d = [] /\ cancelledLocally s' = true.
Proof. exact recv_no_data_after_cancel. Qed.
Print Assumptions C03_no_data_after_cancel.

(** Rejections (any state): a frame beyond an established final size, a FIN with a different
    final size, a FIN below the highest offset received => FINAL_SIZE_ERROR; a frame beyond
    the window => FLOW_CONTROL_ERROR; in either case the sorter, the current frame, the read
    position and the final offset are unchanged. *)
Theorem C03_reject_stream_frame : forall s data off fin cb s' e,
  handleStreamFrame s data off fin cb = (s', e) ->
  let endp := off + len data in
  ((fc_final s = true /\ (fc_highest s < endp \/ (fin = true /\ endp <> fc_highest s))) \/
   (fc_final s = false /\ fin = true /\ endp < fc_highest s) -> e = FFinalSize) /\
  (fc_final s = false /\ fc_highest s < endp /\ fc_window s < endp -> e = FFlowControl) /\
  (e = FFinalSize \/ e = FFlowControl ->
     sorter s' = sorter s /\ rpos s' = rpos s /\ cur s' = cur s /\ rpif s' = rpif s /\ finalOffset s' = finalOffset s).
Proof. exact recv_reject_frame. Qed.
Print Assumptions C03_reject_stream_frame.

(** ** Crypto stream *)

Theorem C03_crypto_cap_value : MaxCrypto = 16384.
Proof. exact MaxCrypto_val. Qed.
Print Assumptions C03_crypto_cap_value.

(** CRYPTO data beyond 16 KiB => CRYPTO_BUFFER_EXCEEDED, state unchanged. *)
Theorem C03_reject_crypto_buffer : forall s data off, MaxCrypto < off + len data ->
  HandleCryptoFrame s data off = (s, CBufferExceeded).
Proof. exact crypto_reject_buffer. Qed.
Print Assumptions C03_reject_crypto_buffer.

(** After Finish: CRYPTO data above the highest offset received => PROTOCOL_VIOLATION;
    anything else is ignored; the state is unchanged either way. *)
Theorem C03_reject_crypto_after_finish : forall s data off,
  c_finished s = true -> off + len data <= MaxCrypto ->
  HandleCryptoFrame s data off = (s, if c_highest s <? off + len data then CProtocolViolation else CNil).
Proof. exact crypto_after_finish. Qed.
Print Assumptions C03_reject_crypto_after_finish.

(** Every error-free crypto history delivers S[0, readPos), never beyond the cap. *)
Theorem C03_crypto_read_exact : forall S ops c,
  Forall cvalid ops -> csrun S crun_init ops = Some c ->
  cr_out c = slice S 0 (readPos (c_sorter (cr_st c))) /\
  readPos (c_sorter (cr_st c)) <= MaxCrypto /\ Inv S (c_sorter (cr_st c)).
Proof. exact crypto_read_exact. Qed.
Print Assumptions C03_crypto_read_exact.

(** Non-vacuity of the stream theorems: out-of-order overlapping frames with FIN, partial
    reads, EOF exactly at 193. *)
Example C03_recv_example :
  let ops := [ROFrame 64 129 true (Some 0); RORead 10; ROFrame 0 100 false (Some 1); RORead 50; ROPeek 100;
              RORead 1000; RORead 5] in
  Forall rvalid ops /\
  exists r, rsrun sbyte (rrun_init 300) ops = Some r /\ rr_out r = slice sbyte 0 193 /\ rr_eof r = true /\
            finalOffset (rr_st r) = 193.
Proof.
  cbv zeta. split.
  - repeat constructor; solve [vm_compute; first [reflexivity | intro; discriminate]].
  - eexists. split; [vm_compute; reflexivity|]. repeat split; vm_compute; reflexivity.
Qed.
Print Assumptions C03_recv_example.

Example C03_crypto_example :
  let ops := [COFrame 4 60; COFrame 0 10; COGet; COGet; COFinish] in
  Forall cvalid ops /\ exists c, csrun sbyte crun_init ops = Some c /\ cr_out c = slice sbyte 0 64.
Proof.
  cbv zeta. split.
  - repeat constructor; solve [vm_compute; first [reflexivity | intro; discriminate]].
  - eexists. split; vm_compute; reflexivity.
Qed.
Print Assumptions C03_crypto_example.

(** The precondition off + n < MaxByteCount of the sorter theorems is necessary: a frame that
    ends exactly at MaxByteCount drives the model to its Bug value — in the code findEndGap
    runs off the gap list and panics ("no gap found"; reproduced on the implementation,
    unreachable behind flow control and the crypto cap). *)
Example C03_sorter_end_at_max_is_bug : snd (Push init [7] (MaxBC - 1) None) = Bug.
Proof. vm_compute. reflexivity. Qed.
Print Assumptions C03_sorter_end_at_max_is_bug.

(** ** Round 3 *)

(** RESET_STREAM / RESET_STREAM_AT rejection (any state that is not shut down): a final size
    different from the established one, or below the highest offset received =>
    FINAL_SIZE_ERROR; beyond the window => FLOW_CONTROL_ERROR; on any error nothing the reader
    observes changes (sorter, current frame, read position, final offset, reset state). *)
Theorem C03_reject_reset : forall s final reliable code s' e,
  shutdown s = false -> handleResetStreamFrame s final reliable code = (s', e) ->
  ((fc_final s = true /\ final <> fc_highest s) \/ (fc_final s = false /\ final < fc_highest s) -> e = FFinalSize) /\
  (fc_final s = false /\ fc_highest s < final /\ fc_window s < final -> e = FFlowControl) /\
  (e <> FNil ->
     sorter s' = sorter s /\ rpos s' = rpos s /\ cur s' = cur s /\ rpif s' = rpif s /\ finalOffset s' = finalOffset s /\
     cancelledRemotely s' = cancelledRemotely s /\ reliableSize s' = reliableSize s /\ cancelErr s' = cancelErr s).
Proof. exact recv_reject_reset. Qed.
Print Assumptions C03_reject_reset.

(** RESET_STREAM_AT, in every reachable state: (1) a frame accepted while reading is not
    cancelled locally is buffered — also after the reset, also when it straddles the reliable
    size; (2) the reliable size is at most the final size; (3) while the read position is below
    the reliable size and the next byte is there, Read delivers data (no error, no blocking);
    at or above it Read returns the reset error (or the EOF already earned) without data;
    and a StreamError is never returned below the reliable size. *)
Theorem C03_reset_at_delivers_reliable : forall S w ops r,
  0 <= w < MaxBC -> Forall rvalid ops -> rsrun S (rrun_init w) ops = Some r ->
  let s := rr_st r in
  (forall off n fin cb s', 0 <= off -> 0 <= n -> cancelledLocally s = false ->
     handleStreamFrame s (slice S off n) off fin cb = (s', FNil) ->
     rpos s' = rpos s /\ crest s' = crest s /\
     forall x, off <= x < off + n -> rpos s + crest s <= x -> cov (queue (sorter s')) x) /\
  (cancelledRemotely s = true -> fc_final s = true /\ 0 <= reliableSize s <= finalOffset s) /\
  (forall n s' d e bug, 0 < n -> cancelledRemotely s = true -> cancelledLocally s = false -> shutdown s = false ->
     Read s n = (s', d, e, bug) ->
     (rpos s < reliableSize s -> available s -> 0 < len d /\ d = slice S (rpos s) (len d)) /\
     (reliableSize s <= rpos s -> d = [] /\ (e = cancel_rerr s \/ e = EEOF)) /\
     (forall c r0, e = ECancel c r0 -> reliableSize s' <= rpos s')).
Proof. exact recv_reset_at_reach. Qed.
Print Assumptions C03_reset_at_delivers_reliable.

(** Liveness of Read in every reachable state: if the next byte is there (unread rest of the
    current frame, or queued at the read position), or an error is latched (shutdown, local
    cancel, effective reset), or the read position is the final size, Read does not park
    (the model's would-block result); and if the next byte is there and no error is latched
    it returns at least one byte. *)
Theorem C03_read_live : forall S w ops r n s' d e bug,
  0 <= w < MaxBC -> Forall rvalid ops -> rsrun S (rrun_init w) ops = Some r ->
  0 < n -> Read (rr_st r) n = (s', d, e, bug) ->
  (available (rr_st r) \/ latched (rr_st r) = true \/
   (fc_final (rr_st r) = true /\ rpos (rr_st r) = finalOffset (rr_st r)) -> e <> EWouldBlock) /\
  (available (rr_st r) -> latched (rr_st r) = false -> 0 < len d).
Proof. exact recv_read_live. Qed.
Print Assumptions C03_read_live.

(** Liveness of Peek in every reachable state: it does not park when an error is latched,
    and when all n requested bytes are there (unread rest of the current frame or queued
    contiguously) it returns exactly those n bytes without an error. *)
Theorem C03_peek_live : forall S w ops r n s' d e bug,
  0 <= w < MaxBC -> Forall rvalid ops -> rsrun S (rrun_init w) ops = Some r ->
  0 < n -> PeekS (rr_st r) n = (s', d, e, bug) ->
  (latched (rr_st r) = true -> e <> EWouldBlock) /\
  (latched (rr_st r) = false ->
   (forall x, rpos (rr_st r) <= x < rpos (rr_st r) + n ->
      x < rpos (rr_st r) + crest (rr_st r) \/ cov (queue (sorter (rr_st r))) x) ->
   e = ENil /\ len d = n).
Proof. exact recv_peek_live. Qed.
Print Assumptions C03_peek_live.

(** Buffers at the ReceiveStream level (currentFrameDone discipline): with distinct doneCb
    ids, in every reachable state the id of every frame handed to the sorter is in exactly one
    place — fired (PutBack called), attached to a queued entry, or owed for the current frame
    (its unread bytes) —; frames that arrive after CancelRead are in none of them (never
    released, never referenced: a missed recycling, not a violation). *)
Theorem C03_stream_buffers_once : forall S w ops r,
  0 <= w < MaxBC -> Forall rvalid ops -> NoDup (rop_cbs ops) -> rsrun S (rrun_init w) ops = Some r ->
  Permutation (fired (sorter (rr_st r)) ++ live (queue (sorter (rr_st r))) ++ held (rr_st r)) (rr_acc r) /\
  NoDup (fired (sorter (rr_st r)) ++ live (queue (sorter (rr_st r))) ++ held (rr_st r)) /\
  incl (rr_acc r) (rop_cbs ops).
Proof. exact recv_buffers_once. Qed.
Print Assumptions C03_stream_buffers_once.

(** ... and once io.EOF has been read nothing is queued and nothing is owed: every buffer
    handed to the sorter has been released exactly once. *)
Theorem C03_stream_buffers_all_released_at_eof : forall S w ops r,
  0 <= w < MaxBC -> Forall rvalid ops -> NoDup (rop_cbs ops) -> rsrun S (rrun_init w) ops = Some r ->
  rr_eof r = true ->
  queue (sorter (rr_st r)) = [] /\ held (rr_st r) = [] /\
  Permutation (fired (sorter (rr_st r))) (rr_acc r) /\ NoDup (fired (sorter (rr_st r))).
Proof. exact recv_all_released_at_eof. Qed.
Print Assumptions C03_stream_buffers_all_released_at_eof.

(** Non-vacuity: RESET_STREAM_AT(final 193, reliable 100) arrives before a frame that
    straddles the reliable size; the reliable bytes are delivered, then the reset error; both
    buffers are released exactly once (the straddling frame is cut below the copy threshold,
    so its buffer is released at once). *)
Example C03_reset_at_example :
  let ops := [ROFrame 0 50 false (Some 0); ROReset 193 100 7; ROFrame 40 100 false (Some 1); RORead 1000] in
  Forall rvalid ops /\ NoDup (rop_cbs ops) /\
  exists r, rsrun sbyte (rrun_init 300) ops = Some r /\ rr_out r = slice sbyte 0 140 /\
            cancelledRemotely (rr_st r) = true /\ reliableSize (rr_st r) = 100 /\
            fired (sorter (rr_st r)) = [1; 0] /\ rr_acc r = [0; 1] /\
            exists s', Read (rr_st r) 10 = (s', [], ECancel 7 true, false).
Proof.
  cbv zeta. split; [|split].
  - repeat constructor; solve [vm_compute; first [reflexivity | intro; discriminate]].
  - vm_compute. repeat constructor; simpl; intuition discriminate.
  - eexists. split; [vm_compute; reflexivity|]. repeat split; try (vm_compute; reflexivity).
    eexists. vm_compute. reflexivity.
Qed.
Print Assumptions C03_reset_at_example.

(** Crypto stream manager (crypto_stream_manager.go): CRYPTO frames are routed by encryption
    level (0 Initial, 1 Handshake, 2 1-RTT) to independent crypto streams; for arbitrary byte
    strings [Sf level], in every error-free history each level's GetCryptoData output is exactly
    that level's string from offset 0 — frames of one level never reach another level's reader. *)
Theorem C03_crypto_levels_exact : forall Sf ops r,
  Forall mvalid ops -> mrsrun Sf mrun_init ops = Some r ->
  mr_o0 r = slice (Sf 0) 0 (readPos (c_sorter (m_ini (mr_m r)))) /\
  mr_o1 r = slice (Sf 1) 0 (readPos (c_sorter (m_hs (mr_m r)))) /\
  mr_o2 r = slice (Sf 2) 0 (readPos (c_sorter (m_one (mr_m r)))).
Proof. exact mgr_read_exact. Qed.
Print Assumptions C03_crypto_levels_exact.

Theorem C03_crypto_unexpected_level : forall Sf m l off n, l <> 0 -> l <> 1 -> l <> 2 ->
  mcore Sf m (MFrame l off n) = (m, MUnexpectedLevel, [], false).
Proof. exact mgr_unexpected_level. Qed.
Print Assumptions C03_crypto_unexpected_level.

Example C03_crypto_levels_example :
  let ops := [MFrame 1 0 10; MFrame 0 0 4; MGet 1; MFrame 2 0 3; MGet 0; MDrop 0; MGet 2] in
  Forall mvalid ops /\ exists r, mrsrun lbyte mrun_init ops = Some r /\
    mr_o0 r = slice (lbyte 0) 0 4 /\ mr_o1 r = slice (lbyte 1) 0 10 /\ mr_o2 r = slice (lbyte 2) 0 3.
Proof.
  cbv zeta. split.
  - repeat constructor; solve [vm_compute; first [reflexivity | intro; discriminate]].
  - eexists. split; [vm_compute; reflexivity|]. repeat split; vm_compute; reflexivity.
Qed.
Print Assumptions C03_crypto_levels_example.

(** ** Round 4: connection glue for CRYPTO data (Conn.handleCryptoFrame / dropEncryptionLevel) *)

(** Through the real call-site logic (manager routing by level, GetCryptoData drained until nil,
    every message handed to the TLS handler, which may fail): for arbitrary per-level byte strings
    and every error-free history, the TLS handler has received, per level, exactly that level's
    string from offset 0. *)
Theorem C03_glue_tls_exact : forall Sf f ops r,
  Forall gvalid ops -> grsrun Sf (grst_init f) ops = Some r ->
  gr_o0 r = slice (Sf 0) 0 (readPos (c_sorter (m_ini (g_m (gr_g r))))) /\
  gr_o1 r = slice (Sf 1) 0 (readPos (c_sorter (m_hs (g_m (gr_g r))))) /\
  gr_o2 r = slice (Sf 2) 0 (readPos (c_sorter (m_one (g_m (gr_g r))))).
Proof. exact glue_tls_exact. Qed.
Print Assumptions C03_glue_tls_exact.

(** Delivery: when handleCryptoFrame returns nil for a frame of level l, nothing received at
    level l's read position is left undelivered (the drain loop ran to the end). *)
Theorem C03_glue_frame_drains : forall Sf f pre l off n r r',
  Forall gvalid pre -> gvalid (GFrame l off n) ->
  grsrun Sf (grst_init f) pre = Some r -> grstep Sf r (GFrame l off n) = Some r' ->
  forall c, mget (g_m (gr_g r')) l = Some c -> ~ cov (queue (c_sorter c)) (readPos (c_sorter c)).
Proof. exact glue_frame_drains. Qed.
Print Assumptions C03_glue_frame_drains.

(** dropEncryptionLevel(Initial | Handshake): PROTOCOL_VIOLATION exactly when CRYPTO data of that
    level is still buffered (state unchanged), otherwise the level's stream is finished. *)
Theorem C03_glue_drop_spec : forall Sf g l c, (l = 0 \/ l = 1) -> mget (g_m g) l = Some c ->
  gdrop Sf g l =
    if HasMoreData (c_sorter c)
    then ({| g_m := mset (g_m g) l c; g_count := g_count g; g_fail := g_fail g |}, GMgr (MErr CProtocolViolation), false)
    else ({| g_m := mset (g_m g) l {| c_sorter := c_sorter c; c_highest := c_highest c; c_finished := true |};
             g_count := g_count g; g_fail := g_fail g |}, GNil, false).
Proof. exact glue_drop_spec. Qed.
Print Assumptions C03_glue_drop_spec.

Example C03_glue_example :
  let ops := [GFrame 0 0 132; GFrame 0 200 64; GFrame 0 129 132; GFrame 1 0 10; GDrop 0] in
  Forall gvalid ops /\ exists r, grsrun lbyte (grst_init (-1)) ops = Some r /\
    gr_o0 r = slice (lbyte 0) 0 264 /\ gr_o1 r = slice (lbyte 1) 0 10.
Proof.
  cbv zeta. split.
  - repeat constructor; solve [vm_compute; first [reflexivity | intro; discriminate]].
  - eexists. split; [vm_compute; reflexivity|]. split; vm_compute; reflexivity.
Qed.
Print Assumptions C03_glue_example.

(** Peek liveness at the end of the stream and after a reset (the cases left open in round 3):
    with nothing latched, a known final size, a request that reaches beyond it, and every byte up
    to the final size there, Peek does not park; without a reset it returns the rest with io.EOF. *)
Theorem C03_peek_live_end : forall S w ops r n s' d e bug,
  0 <= w < MaxBC -> Forall rvalid ops -> rsrun S (rrun_init w) ops = Some r ->
  0 < n -> PeekS (rr_st r) n = (s', d, e, bug) ->
  latched (rr_st r) = false -> fc_final (rr_st r) = true -> finalOffset (rr_st r) < rpos (rr_st r) + n ->
  (forall x, rpos (rr_st r) <= x < finalOffset (rr_st r) ->
     x < rpos (rr_st r) + crest (rr_st r) \/ cov (queue (sorter (rr_st r))) x) ->
  e <> EWouldBlock /\
  (cancelledRemotely (rr_st r) = false -> e = EEOF /\ rpos (rr_st r) + len d = finalOffset (rr_st r)).
Proof. exact recv_peek_live_end. Qed.
Print Assumptions C03_peek_live_end.

(** ... and after RESET_STREAM_AT: every byte below the reliable size there and a request that
    reaches beyond it => Peek does not park. *)
Theorem C03_peek_live_reset : forall S w ops r n s' d e bug,
  0 <= w < MaxBC -> Forall rvalid ops -> rsrun S (rrun_init w) ops = Some r ->
  0 < n -> PeekS (rr_st r) n = (s', d, e, bug) ->
  latched (rr_st r) = false -> cancelledRemotely (rr_st r) = true -> reliableSize (rr_st r) < rpos (rr_st r) + n ->
  (forall x, rpos (rr_st r) <= x < reliableSize (rr_st r) ->
     x < rpos (rr_st r) + crest (rr_st r) \/ cov (queue (sorter (rr_st r))) x) ->
  e <> EWouldBlock.
Proof. exact recv_peek_live_reset. Qed.
Print Assumptions C03_peek_live_reset.

(** Crypto streams hold no buffers: CRYPTO frames are pushed with a nil doneCb, so in every
    crypto history nothing was ever released and no queued entry carries a callback — the
    manager's Drop / Finish can neither recycle a buffer twice nor leak one. *)
Theorem C03_crypto_no_buffers : forall S ops c,
  Forall cvalid ops -> csrun S crun_init ops = Some c ->
  fired (c_sorter (cr_st c)) = [] /\ live (queue (c_sorter (cr_st c))) = [].
Proof. exact crypto_no_buffers. Qed.
Print Assumptions C03_crypto_no_buffers.

(** ** Round 5 (audit) *)

(** The stream-level counterpart of [C03_sorter_fails_only_on_gap_limit]: the model's Bug values
    (sorter panics, fuel) are unreachable from ReceiveStream. A history [rsrun] is [None] only at a
    STREAM frame rejected with FINAL_SIZE_ERROR, FLOW_CONTROL_ERROR or the sorter's gap limit (with
    more than MaxStreamFrameSorterGaps gaps), or at a RESET_STREAM(_AT) rejected with
    FINAL_SIZE_ERROR / FLOW_CONTROL_ERROR; Read, Peek, CancelRead, closeForShutdown never fail.
    So the hypotheses [rsrun ... = Some r] of the stream theorems exclude exactly the genuine
    transport errors (after which the connection is closed). *)
Theorem C03_stream_fails_only_on_transport_error : forall S w ops,
  0 <= w < MaxBC -> Forall rvalid ops -> rsrun S (rrun_init w) ops = None ->
  exists pre o rest r, ops = pre ++ o :: rest /\ rsrun S (rrun_init w) pre = Some r /\ transport_error S r o.
Proof. exact recv_fails_only_on_transport_error. Qed.
Print Assumptions C03_stream_fails_only_on_transport_error.

(** Gap limit, both directions: from a state satisfying the invariant with at most
    MaxStreamFrameSorterGaps (= 1000) gaps, a consistent Push is refused exactly when the gap list
    it produces has more than that many gaps; an accepted Push keeps the bound; hence the bound
    holds in every reachable state. *)
Theorem C03_gap_limit_value : MaxGaps = 1000.
Proof. exact MaxGaps_val. Qed.
Print Assumptions C03_gap_limit_value.

Theorem C03_sorter_gap_limit_iff : forall S s off n cb s' r,
  Inv S s -> 0 <= off -> 0 <= n -> off + n < MaxBC -> Z.of_nat (length (gaps s)) <= MaxGaps ->
  Push s (slice S off n) off cb = (s', r) ->
  (r = TooManyGaps <-> MaxGaps < Z.of_nat (length (gaps s'))) /\
  (r = Ok -> Z.of_nat (length (gaps s')) <= MaxGaps).
Proof. exact push_gap_limit_iff. Qed.
Print Assumptions C03_sorter_gap_limit_iff.

Theorem C03_sorter_gap_bound : forall S ops rs,
  Forall valid_op ops -> srun S run_init ops = Some rs -> Z.of_nat (length (gaps (r_st rs))) <= MaxGaps.
Proof. exact sorter_gap_bound. Qed.
Print Assumptions C03_sorter_gap_bound.

(** What a refused Push leaves behind (the code, like the model, has already updated the gap
    list, deleted the entries the new frame replaces and fired their callbacks; the connection is
    then closed): the read position is unchanged, the queue only lost entries (what is left are
    entries of the old queue, i.e. still correct bytes), callbacks were only appended, and every
    callback id is still in exactly one place — fired or queued — except that the refused frame's own
    id may be in neither (its buffer is dropped, never recycled). With distinct ids: nothing fired
    twice, nothing fired that is still queued. *)
Theorem C03_sorter_gap_limit_state : forall S s off n cb s',
  Inv S s -> 0 <= off -> 0 <= n -> off + n < MaxBC ->
  Push s (slice S off n) off cb = (s', TooManyGaps) ->
  readPos s' = readPos s /\ (exists l, fired s' = fired s ++ l) /\
  (forall k e, In (k, e) (queue s') -> In (k, e) (queue s)) /\
  (exists rest, (rest = [] \/ rest = optl cb) /\
     Permutation (fired s' ++ live (queue s') ++ rest) (optl cb ++ fired s ++ live (queue s))).
Proof. exact push_gap_limit_state. Qed.
Print Assumptions C03_sorter_gap_limit_state.

Theorem C03_sorter_gap_limit_nodup : forall S s off n cb s',
  Inv S s -> 0 <= off -> 0 <= n -> off + n < MaxBC ->
  NoDup (optl cb ++ fired s ++ live (queue s)) ->
  Push s (slice S off n) off cb = (s', TooManyGaps) -> NoDup (fired s' ++ live (queue s')).
Proof. exact push_gap_limit_nodup. Qed.
Print Assumptions C03_sorter_gap_limit_nodup.

(** Non-vacuity of the gap-limit theorems: 1000 isolated one-byte frames are accepted (1001 gaps
    would be too many: the first push splits the initial gap in two, so the 1000th isolated byte is
    refused). *)
Example C03_gap_limit_example :
  let ops := map (fun i => SPush (2 * Z.of_nat i) 1 None) (seq 1 999) in
  Forall valid_op ops /\
  match srun sbyte run_init ops with
  | Some rs => (Z.of_nat (length (gaps (r_st rs))), snd (Push (r_st rs) (slice sbyte 2000 1) 2000 None))
  | None => (0, Bug)
  end = (1000, TooManyGaps).
Proof.
  cbv zeta. split.
  - apply Forall_forall. intros o Hin. apply in_map_iff in Hin. destruct Hin as (i&<-&Hi).
    apply in_seq in Hi. unfold valid_op. rewrite ProofsBase.MaxBC_val. lia.
  - vm_compute. reflexivity.
Qed.
Print Assumptions C03_gap_limit_example.
