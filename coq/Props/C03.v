(** C03 — stream and CRYPTO reassembly delivers exactly the sent byte sequence.
    Only statements live here; each is closed by [exact] of a lemma proved elsewhere.
    [S : Z -> Z] is the underlying byte string (an arbitrary function of the absolute
    offset); a push is consistent when its data is S[off, off+n). *)
From Coq Require Import List ZArith Permutation.
From V Require Import Gen.Params FrameSorter.Model FrameSorter.InvCheck FrameSorter.Spec
  FrameSorter.ProofsInvOk FrameSorter.ProofsRun.
Import ListNotations.
Open Scope Z_scope.

(** ** Frame sorter *)

(** [Inv] (gaps sorted, disjoint, non-touching, last one ends at MaxByteCount; queue keys
    distinct and >= readPos, entries non-empty, pairwise disjoint, data = slice of S; every
    offset >= readPos is in a gap xor in exactly one entry) holds initially and is preserved
    by every consistent Push that returns nil and by every Pop. *)
Theorem C03_sorter_inv_steps : forall S,
  Inv S init /\
  (forall s off n cb s', Inv S s -> 0 <= off -> 0 <= n -> off + n < MaxBC ->
     Push s (slice S off n) off cb = (s', Ok) -> Inv S s') /\
  (forall s s' out bug, Inv S s -> Pop s = (s', out, bug) -> Inv S s').
Proof. exact sorter_inv_steps. Qed.
Print Assumptions C03_sorter_inv_steps.

(** ... hence in every state reachable by any history of consistent pushes and pops. *)
Theorem C03_sorter_inv : forall S ops rs,
  Forall valid_op ops -> srun S run_init ops = Some rs -> Inv S (r_st rs).
Proof. exact sorter_inv. Qed.
Print Assumptions C03_sorter_inv.

(** Push refines set union: unless it returns the gap-limit error, the set of buffered
    offsets becomes old ∪ ([off, off+n) ∩ [readPos, ∞)); no other result is possible
    (in particular the model's Bug value, i.e. the "no gap found" panics, is unreachable). *)
Theorem C03_sorter_refines_set_push : forall S s off n cb s' r,
  Inv S s -> 0 <= off -> 0 <= n -> off + n < MaxBC ->
  Push s (slice S off n) off cb = (s', r) ->
  (r = Ok \/ r = TooManyGaps) /\
  (r = Ok -> readPos s' = readPos s /\
     forall x, cov (queue s') x <-> cov (queue s) x \/ (off <= x < off + n /\ readPos s <= x)).
Proof. exact sorter_refines_push. Qed.
Print Assumptions C03_sorter_refines_set_push.

(** Pop returns S[readPos, readPos + len) — of positive length iff readPos is buffered —,
    advances readPos by that length, removes exactly those offsets, and never reaches the
    "read position higher than a gap" panic. *)
Theorem C03_sorter_refines_set_pop : forall S s s' off d cb bug,
  Inv S s -> Pop s = (s', (off, d, cb), bug) ->
  bug = false /\ off = readPos s /\ d = slice S (readPos s) (len d) /\
  (0 < len d <-> cov (queue s) (readPos s)) /\
  readPos s' = readPos s + len d /\
  (forall x, cov (queue s') x <-> cov (queue s) x /\ readPos s' <= x).
Proof. exact sorter_refines_pop. Qed.
Print Assumptions C03_sorter_refines_set_pop.

(** The concatenation of everything Pop ever returned is S[0, readPos): the original bytes,
    once, contiguously. *)
Theorem C03_sorter_delivers : forall S ops rs,
  Forall valid_op ops -> srun S run_init ops = Some rs ->
  r_out rs = slice S 0 (readPos (r_st rs)).
Proof. exact sorter_delivers. Qed.
Print Assumptions C03_sorter_delivers.

(** A history can only fail at a Push that returns the gap-limit error, with more than
    MaxStreamFrameSorterGaps gaps. *)
Theorem C03_sorter_fails_only_on_gap_limit : forall S ops,
  Forall valid_op ops -> srun S run_init ops = None ->
  exists pre off n cb rest rs s', ops = pre ++ SPush off n cb :: rest /\ srun S run_init pre = Some rs /\
    Push (r_st rs) (slice S off n) off cb = (s', TooManyGaps) /\
    MaxGaps < Z.of_nat (length (gaps s')).
Proof. exact sorter_fails_only_on_gap_limit. Qed.
Print Assumptions C03_sorter_fails_only_on_gap_limit.

(** Buffers: with distinct callback ids, at every point of every history each id is in
    exactly one place — fired, still attached to a queued entry, or handed to the reader by
    Pop. So no callback fires twice, and none has fired while an entry still carries it. *)
Theorem C03_buffers_once : forall S ops rs,
  Forall valid_op ops -> NoDup (op_cbs ops) -> srun S run_init ops = Some rs ->
  Permutation (fired (r_st rs) ++ live (queue (r_st rs)) ++ r_held rs) (op_cbs ops) /\
  NoDup (fired (r_st rs) ++ live (queue (r_st rs)) ++ r_held rs).
Proof. exact sorter_buffers_once. Qed.
Print Assumptions C03_buffers_once.

(** The executable checker evaluated after every step of the correspondence run is sound. *)
Theorem C03_inv_ok_sound : forall S s, inv_ok S s = true -> Inv S s.
Proof. exact inv_ok_sound. Qed.
Print Assumptions C03_inv_ok_sound.

(** Non-vacuity: a history with overlap, duplication, a cut below the copy threshold and
    interleaved pops satisfies the hypotheses and delivers S[0,12). *)
Example C03_sorter_example :
  let ops := [SPush 4 4 (Some 0); SPush 0 6 (Some 1); SPop; SPush 2 10 (Some 2); SPush 4 4 (Some 3); SPop; SPop; SPop] in
  Forall valid_op ops /\ NoDup (op_cbs ops) /\
  exists rs, srun sbyte run_init ops = Some rs /\ r_out rs = slice sbyte 0 12 /\ readPos (r_st rs) = 12.
Proof.
  cbv zeta. split; [|split].
  - repeat constructor; solve [vm_compute; first [reflexivity | intro; discriminate]].
  - vm_compute. repeat constructor; simpl; intuition discriminate.
  - eexists. split; [vm_compute; reflexivity|]. split; vm_compute; reflexivity.
Qed.
Print Assumptions C03_sorter_example.
