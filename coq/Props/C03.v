(** C03 — stream and CRYPTO reassembly delivers exactly the sent byte sequence. *)
From Coq Require Import List ZArith.
From V Require Import Gen.Params FrameSorter.Model FrameSorter.InvCheck.
Import ListNotations.
Open Scope Z_scope.
