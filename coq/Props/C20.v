(** C20 — congestion window and pacing stay within their bounds for every event history.
    Only statements live here; each is closed by [exact] of a lemma proved in
    Congestion/Proofs*.v. The model (Congestion/Model.v) is tied to
    /repo/internal/congestion by the correspondence units "cubic" and "pacer". *)
From Coq Require Import List ZArith Bool.
From V Require Import Gen.Params Congestion.Model Congestion.ProofsCut Congestion.ProofsCubic Congestion.ProofsPacer Congestion.ProofsHystart Congestion.ProofsAudit.
From V Require SentPH.Model SentPH.ProofsHist SentPH.ProofsBase SentPH.ProofsAckRules SentPH.ProofsScalars Congestion.ProofsHandler.
Import ListNotations.
Open Scope Z_scope.

(** "two full-size packets": the minimum is 2 packets (an edited constant breaks this). *)
Theorem C20_min_window_is_two_packets : cc_minCongestionWindowPackets = 2.
Proof. exact min_window_is_two_packets. Qed.
Print Assumptions C20_min_window_is_two_packets.

(** The Reno multiplicative decrease float64(w)*renoBeta (exact IEEE-754 semantics, compiled
    value of renoBeta) never raises the window and never makes it negative. *)
Theorem C20_reno_cut_bounds : forall w, 0 <= w -> 0 <= reno_cut w <= w.
Proof. exact reno_cut_bounds. Qed.
Print Assumptions C20_reno_cut_bounds.

(** (a) For a sender built by NewCubicSender (Reno, as production does) with datagram size m0,
    after ANY history of the events production issues — sent / acked / lost / timeout /
    slow-start exit / queries AND SetMaxDatagramSize with any sizes (everything but the
    never-called OnConnectionMigration): 2*mds <= cwnd <= MaxCongestionWindowPackets*mds + mds.
    All RTT oracle values. (Before the repair of SetMaxDatagramSize this was refuted across
    MTU increases: finding cubic/min-after-mtu.) *)
Theorem C20_cwnd_bounds : forall m0 srtt0 ops, 0 < m0 -> Forall (fun o => is_migrate o = false) ops ->
  let s' := run (new_sender m0 true srtt0) ops in
  cc_minCongestionWindowPackets * mds s' <= cwnd s' /\
  cwnd s' <= cc_maxCongestionWindowPackets * mds s' + mds s'.
Proof.
  exact (fun m0 srtt0 ops Hm Hf => cwnd_bounds_production (new_sender m0 true srtt0) ops eq_refl (new_sender_InvC m0 true srtt0 Hm) Hf).
Qed.
Print Assumptions C20_cwnd_bounds.

(** the same from any state within the bounds *)
Theorem C20_cwnd_bounds_from : forall s ops, reno s = true -> InvC s -> Forall (fun o => is_migrate o = false) ops ->
  let s' := run s ops in
  cc_minCongestionWindowPackets * mds s' <= cwnd s' /\
  cwnd s' <= cc_maxCongestionWindowPackets * mds s' + mds s'.
Proof. exact cwnd_bounds_production. Qed.
Print Assumptions C20_cwnd_bounds_from.

(** With OnConnectionMigration in the history too (it resets the window to the initial
    32*m0): the bounds hold as long as every new datagram size m keeps that initial window
    legal, 2*m <= 32*m0 (production: m <= 1452 <= 16*1200). *)
Theorem C20_cwnd_bounds_all_ops : forall m0 srtt0 ops, 0 < m0 ->
  Forall (op_fits (cc_initialCongestionWindow * m0)) ops ->
  let s' := run (new_sender m0 true srtt0) ops in
  cc_minCongestionWindowPackets * mds s' <= cwnd s' /\
  cwnd s' <= cc_maxCongestionWindowPackets * mds s' + mds s'.
Proof.
  exact (fun m0 srtt0 ops Hm Hf => cwnd_bounds (new_sender m0 true srtt0) ops eq_refl (new_sender_Inv m0 true srtt0 Hm) Hf).
Qed.
Print Assumptions C20_cwnd_bounds_all_ops.

(** With arbitrary sizes AND migration: the upper bound always holds; of the lower bound
    "two packets of the INITIAL size" survives. *)
Theorem C20_cwnd_bounds_with_mtu : forall m0 r0 srtt0 ops, 0 < m0 -> r0 = true ->
  let s' := run (new_sender m0 r0 srtt0) ops in
  m0 <= mds s' /\ cc_minCongestionWindowPackets * m0 <= cwnd s' /\
  cwnd s' <= cc_maxCongestionWindowPackets * mds s' + mds s'.
Proof. exact cwnd_bounds_with_mtu. Qed.
Print Assumptions C20_cwnd_bounds_with_mtu.

(** An MTU increase always keeps the full invariant (window re-floored to the new minimum). *)
Theorem C20_mtu_step_keeps_bounds : forall s m, reno s = true -> Inv s ->
  m * cc_minCongestionWindowPackets <= initCwnd s ->
  Inv (step s (SetMDS m)).
Proof. exact set_mds_Inv. Qed.
Print Assumptions C20_mtu_step_keeps_bounds.

(** Regression for finding cubic/min-after-mtu (formerly C20_min_after_mtu_refuted(_prod)): the
    two witness histories, whose window 2688 / 2799 used to stay below 2*1452 after
    SetMaxDatagramSize(1452), now end exactly at the new minimum 2904. *)
Example C20_min_after_mtu_regression :
  let a := run (new_sender 1280 true 100000000) (removelast witness_short) in
  let a' := step a (SetMDS 1452) in
  let b := run (new_sender 1280 true 100000000) (removelast witness_prod) in
  let b' := step b (SetMDS 1452) in
  cwnd a = 2688 /\ cwnd a' = 2904 /\ cwnd b = 2799 /\ cwnd b' = 2904 /\
  cwnd a' = cc_minCongestionWindowPackets * mds a' /\ cwnd b' = cc_minCongestionWindowPackets * mds b'.
Proof. exact min_after_mtu_regression. Qed.
Print Assumptions C20_min_after_mtu_regression.

(** (b1) At most one reduction per window of packets, for ANY numbering of the packets (the
    sentPacketHandler feeds the packet numbers of all three packet number spaces into one
    sender): if two loss events both reduce the window and no timeout / migration reset lies
    between them, the second lost packet's number exceeds largestSentPacketNumber at the
    first reduction. From ANY Reno state with non-negative window. *)
Theorem C20_cut_once_per_window : forall s1 pn1 b1 p1 o1 mid pn2 b2 p2 o2,
  reno s1 = true -> 0 <= mds s1 -> 0 <= cwnd s1 -> 0 <= initCwnd s1 ->
  let s1' := step s1 (Lost pn1 b1 p1 o1) in
  let s2 := run s1' mid in
  let s2' := step s2 (Lost pn2 b2 p2 o2) in
  Forall (fun o => is_reset o = false) mid ->
  cwnd s1' < cwnd s1 -> cwnd s2' < cwnd s2 ->
  ls s1 < pn2.
Proof. exact cut_once_per_window. Qed.
Print Assumptions C20_cut_once_per_window.

(** … hence, for every sequence of calls the handler can make: the packet whose loss causes
    the second reduction is none of the ack-eliciting packets sent (in whatever space)
    before the first reduction. *)
Theorem C20_cut_once_per_window_history : forall s0 pre pn1 b1 p1 o1 mid pn2 b2 p2 o2,
  reno s0 = true -> 0 <= mds s0 -> 0 <= cwnd s0 -> 0 <= initCwnd s0 ->
  let s1 := run s0 pre in
  let s1' := step s1 (Lost pn1 b1 p1 o1) in
  let s2 := run s1' mid in
  let s2' := step s2 (Lost pn2 b2 p2 o2) in
  Forall (fun o => is_reset o = false) pre -> Forall (fun o => is_reset o = false) mid ->
  cwnd s1' < cwnd s1 -> cwnd s2' < cwnd s2 ->
  forall t b srtt, ~ In (Sent t pn2 b true srtt) pre.
Proof. exact cut_once_per_window_history. Qed.
Print Assumptions C20_cut_once_per_window_history.

Example C20_cut_once_nonvacuous :
  let s1 := run (new_sender 1280 true 100000000) [Sent 10 0 1280 true 100000000] in
  let s1' := step s1 (Lost 0 1280 1280 0) in
  let s2 := run s1' [Sent 20 1 1280 true 100000000] in
  cwnd s1' < cwnd s1 /\ cwnd (step s2 (Lost 1 1280 1280 0)) < cwnd s2 /\ cwnd (step s2 (Lost 0 1280 1280 0)) = cwnd s2.
Proof. exact cut_once_example. Qed.
Print Assumptions C20_cut_once_nonvacuous.

(** Regression for finding sendmode/multi-cut-pn-spaces (formerly C20_cut_once_needs_monotone_pns):
    Handshake packets 0..5, 1-RTT packet 0, then the loss of Handshake packets 0, 1, 2 in one
    ACK used to cut three times (40960 -> 14049); now once. *)
Example C20_pn_space_mixing_regression :
  let s := run (new_sender 1280 true 100000000)
               [Sent 10 0 1280 true 100000000; Sent 20 1 1280 true 100000000; Sent 30 2 1280 true 100000000;
                Sent 40 3 1280 true 100000000; Sent 50 4 1280 true 100000000; Sent 60 5 1280 true 100000000;
                Sent 70 0 1280 true 100000000] in
  let s1 := step s (Lost 0 1280 8960 0) in
  let s2 := step s1 (Lost 1 1280 8960 0) in
  let s3 := step s2 (Lost 2 1280 8960 0) in
  ls s = 5 /\ cwnd s = 40960 /\ cwnd s1 = 28672 /\ cwnd s2 = 28672 /\ cwnd s3 = 28672.
Proof. exact pn_space_mixing_regression. Qed.
Print Assumptions C20_pn_space_mixing_regression.

(** (b2) The window never shrinks on an ACK — nor on any event other than a loss, a
    retransmission timeout or a migration. *)
Theorem C20_ack_never_shrinks : forall s o, reno s = true -> 0 <= mds s -> may_shrink o = false ->
  cwnd s <= cwnd (step s o).
Proof. exact ack_never_shrinks. Qed.
Print Assumptions C20_ack_never_shrinks.

(** (c) An ACK grows the window only when the sender is window-limited and below the
    maximum, and then by exactly one datagram. *)
Theorem C20_growth_needs_limit : forall s pn bytes prior now orc, reno s = true ->
  cwnd s < cwnd (step s (Acked pn bytes prior now orc)) ->
  is_cwnd_limited s prior = true /\ cwnd s < max_cwnd s /\
  cwnd (step s (Acked pn bytes prior now orc)) = cwnd s + mds s.
Proof. exact growth_needs_limit. Qed.
Print Assumptions C20_growth_needs_limit.

Theorem C20_cwnd_limited_means : forall s bif, is_cwnd_limited s bif = true ->
  cwnd s <= bif \/ cwnd s - bif <= cc_maxBurstPackets * mds s \/ (cwnd s < ssthresh s /\ Z.quot (cwnd s) 2 < bif).
Proof. exact is_cwnd_limited_spec. Qed.
Print Assumptions C20_cwnd_limited_means.

(** Hybrid slow start: MaybeExitSlowStart never changes the window (nor anything but the
    slow-start state and ssthresh); when it exits, ssthresh drops to the current window. All RTT oracle values. *)
Theorem C20_exit_ss_only_lowers_ssthresh : forall s latest minrtt,
  let s' := step s (ExitSS latest minrtt) in
  cwnd s' = cwnd s /\ mds s' = mds s /\ ls s' = ls s /\ la s' = la s /\ lc s' = lc s /\ nacked s' = nacked s /\
  pc s' = pc s /\
  (ssthresh s' = ssthresh s \/ (ssthresh s' = cwnd s /\ cwnd s < ssthresh s)).
Proof. exact exit_ss_only_lowers_ssthresh. Qed.
Print Assumptions C20_exit_ss_only_lowers_ssthresh.

Example C20_exit_ss_nonvacuous :
  let s := run (new_sender 1280 true 100000000) (repeat (ExitSS 45000000 20000000) 8) in
  cwnd s = 40960 /\ ssthresh s = 40960 /\ hs_found (hs s) = true /\
  ssthresh (run (new_sender 1280 true 100000000) (repeat (ExitSS 45000000 20000000) 7)) = cc_maxByteCount.
Proof. exact exit_ss_example. Qed.
Print Assumptions C20_exit_ss_nonvacuous.

(** (d) sentPacketHandler.SendMode releases new ack-eliciting data ("any") only while the
    bytes in flight are below the congestion window — and the sender is not
    amplification-limited, tracks fewer packets than both caps, owes no probe packet and
    the pacer has budget. *)
Theorem C20_send_gate : forall tracked amp probes pto bif cw bud,
  pto <> sm_SendAny ->
  send_mode (G tracked amp probes pto bif cw bud) = sm_SendAny ->
  bif < cw /\ amp = false /\ tracked < sm_maxOutstandingSentPackets /\ tracked < sm_maxTrackedSentPackets /\
  probes <= 0 /\ bud = true.
Proof. exact send_gate. Qed.
Print Assumptions C20_send_gate.

Example C20_send_gate_nonvacuous : send_mode (G 3 false 0 0 2560 40960 true) = sm_SendAny /\ 0 <> sm_SendAny.
Proof. exact send_gate_nonvacuous. Qed.
Print Assumptions C20_send_gate_nonvacuous.

(** (d) over every sentPacketHandler history (round 3; cites the C06 unit's handler model and
    its theorems sendMode_is_gate / send_gate_history = C06_send_mode_is_gate / C06_send_gate_history):
    in every state the handler can reach from NewSentPacketHandler, its SendMode IS [send_mode]
    on the gate read from its own state, and whenever that is "any" the bytes in flight are
    below the window the congestion controller reports, the handler is not amplification-
    limited, tracks fewer than MaxOutstandingSentPackets packets, owes no probe, the pacer
    has budget — and whatever packet SentPacket accepts next leaves bytesInFlight < cw + its size. *)
Theorem C20_send_gate_handler : forall client validated ipn period maxPeriod rnd0 ops cw hb,
  0 <= ipn ->
  let st := V.SentPH.Model.run (V.SentPH.Model.init client validated ipn period maxPeriod rnd0) ops in
  V.SentPH.Model.sendMode st (V.SentPH.Model.sBif st <? cw) hb = send_mode (V.Congestion.ProofsHandler.gate_of st cw hb) /\
  (send_mode (V.Congestion.ProofsHandler.gate_of st cw hb) = sm_SendAny ->
   V.SentPH.Model.sBif st < cw /\ V.SentPH.Model.isAmplificationLimited st = false /\
   V.SentPH.ProofsScalars.tracked_count st < sph_MaxOutstandingSentPackets /\ V.SentPH.Model.sProbes st <= 0 /\ hb = true /\
   (forall l t la sfs fs size mtu probe rnd orc,
      V.SentPH.Model.op_valid st (V.SentPH.Model.OSend l t la sfs fs size mtu probe rnd) = true ->
      V.SentPH.Model.sBif (fst (V.SentPH.Model.step st (V.SentPH.Model.OSend l t la sfs fs size mtu probe rnd, orc))) < cw + size)).
Proof. exact V.Congestion.ProofsHandler.send_gate_handler. Qed.
Print Assumptions C20_send_gate_handler.

Example C20_send_gate_handler_nonvacuous :
  let st := V.SentPH.Model.run (V.SentPH.Model.init false true 0 256 131072 100)
                [ (V.SentPH.Model.ODrop 1 1000000000, V.SentPH.ProofsAckRules.w_orc); (V.SentPH.Model.ODrop 2 1000000000, V.SentPH.ProofsAckRules.w_orc);
                  (V.SentPH.Model.OSend 4 1000000000 (-1) [] [1] 1200 false false 0, V.SentPH.ProofsAckRules.w_orc) ] in
  send_mode (V.Congestion.ProofsHandler.gate_of st 40960 true) = sm_SendAny /\ V.SentPH.Model.sBif st = 1200.
Proof. exact V.Congestion.ProofsHandler.send_gate_handler_nonvacuous. Qed.
Print Assumptions C20_send_gate_handler_nonvacuous.

(** (e) Pacer. [PInv]: 0 <= budget < 2^40, 0 < mds <= 2^30; [PT]: last send time in [0,2^62);
    [pop_ok]: send times in (0,2^62), sizes >= 0, bandwidth any uint64 value.
    Budget never exceeds one burst, for every clock value and bandwidth. *)
Theorem C20_pacer_budget_le_burst : forall p now bw, budget p now bw <= max_burst p bw.
Proof. exact budget_le_burst. Qed.
Print Assumptions C20_pacer_budget_le_burst.

(** Over any interval that starts with a send — from ANY pacer state — the bytes authorised
    are at most one burst plus, for each later send, adjustedBandwidth x time since the
    previous send / 1e9. *)
Theorem C20_pacer_bound : forall p t size bw r, PInv p -> PT p -> pop_ok (PSent t size bw) -> Forall pop_ok r ->
  sum_auth p (PSent t size bw :: r) <= max_burst p bw + sum_credit (pstep p (PSent t size bw)) r.
Proof. exact pacer_bound. Qed.
Print Assumptions C20_pacer_bound.

(** With a monotone clock and bandwidth <= BW throughout: one burst + 1.25 x (BW/8 bytes/s) x elapsed
    (the adjusted bandwidth has a floor of 1 byte/s, so that it is never 0). *)
Theorem C20_pacer_bound_const_rate : forall p t size bw r BW, PInv p -> PT p ->
  pop_ok (PSent t size bw) -> Forall pop_ok r -> Forall (bw_below BW) r ->
  mono (pstep p (PSent t size bw)) r ->
  let T := p_last (prun p (PSent t size bw :: r)) in
  sum_auth p (PSent t size bw :: r) <= max_burst p bw + adj_ideal BW * (T - t) / 1000000000 /\
  4 * adj_ideal BW <= Z.max (5 * (BW / 8)) 4.
Proof. exact pacer_bound_const_rate. Qed.
Print Assumptions C20_pacer_bound_const_rate.

(** No uint64 product and no int64 sum wraps in Budget / timeScaledBandwidth / maxBurstSize … *)
Theorem C20_pacer_no_overflow : forall p now bw, PInv p -> bw_ok bw -> - 2^63 <= now - p_last p < 2^63 ->
  budget p now bw = budget_ideal p now bw.
Proof. exact budget_no_overflow. Qed.
Print Assumptions C20_pacer_no_overflow.

(** … nor in BandwidthFromDelta / adjustedBandwidth for windows below 2^31 bytes and srtt >= 1ns:
    the pacing rate is max(floor(floor(cwnd*1e9/srtt) * 5/4), 1) bytes per second. *)
Theorem C20_bandwidth_no_overflow : forall bytes delta, 0 <= bytes < 2^31 -> 0 < delta < 2^63 ->
  bfd bytes delta = Some (bytes * 1000000000 / delta * 8) /\
  bw_ok (bytes * 1000000000 / delta * 8) /\
  adj_bw (bytes * 1000000000 / delta * 8) = Z.max (bytes * 1000000000 / delta * 5 / 4) 1.
Proof. exact bandwidth_no_overflow. Qed.
Print Assumptions C20_bandwidth_no_overflow.

(** TimeUntilSend, when it asks to wait, returns a time >= last send + MinPacingDelay at which
    the budget really covers one datagram (no wrap on the way). *)
Theorem C20_pacer_time_until_send : forall p bw T, PInv p -> bw_ok bw -> 0 < p_last p < 2^62 ->
  time_until_send p bw = Some T -> T <> 0 ->
  p_last p + cc_minPacingDelayNs <= T /\ p_mds p <= budget p T bw.
Proof. exact time_until_send_sufficient. Qed.
Print Assumptions C20_pacer_time_until_send.

(** TimeUntilSend never divides by zero: the adjusted bandwidth is at least 1 byte/s for every
    bandwidth estimate (formerly a run-time panic when srtt[s] > cwnd[bytes]). *)
Theorem C20_time_until_send_total : forall p bw, time_until_send p bw <> None.
Proof. exact time_until_send_total. Qed.
Print Assumptions C20_time_until_send_total.

(** No pacing livelock: whenever the gate is closed (Budget now < one datagram), TimeUntilSend
    answers with a real time >= last send + MinPacingDelay — never 0 = "immediately" — at
    which the budget covers one datagram. *)
Theorem C20_gate_closed_then_wait : forall p now bw, PInv p -> bw_ok bw -> 0 <= p_last p < 2^62 ->
  - 2^63 <= now - p_last p < 2^63 -> budget p now bw < p_mds p ->
  exists T, time_until_send p bw = Some T /\ T <> 0 /\ p_last p + cc_minPacingDelayNs <= T /\ p_mds p <= budget p T bw.
Proof. exact gate_closed_then_wait. Qed.
Print Assumptions C20_gate_closed_then_wait.

(** … and the datagram the pacer speaks about is the sender's, in every history from
    (new)CubicSender: HasPacingBudget (Budget >= sender size) is exactly "gate open" above. *)
Theorem C20_pacer_synced : forall m r icw imax srtt0 ops,
  let s' := run (new_sender_w m r icw imax srtt0) ops in p_mds (pc s') = mds s'.
Proof. exact pacer_synced. Qed.
Print Assumptions C20_pacer_synced.

(** Regression for finding cubic/pacing-livelock (sender with 1350-byte datagrams: eight full
    packets and a 700-byte one used to leave HasPacingBudget false with TimeUntilSend = 0). *)
Example C20_pacing_livelock_regression :
  let s8 := run (new_sender 1350 true 100000000)
               (map (fun i => Sent 1000 i 1350 true 100000000) [0;1;2;3;4;5;6;7] ++ [Sent 1000 8 700 true 100000000]) in
  p_mds (pc s8) = 1350 /\ p_budget (pc s8) = 2000 /\ step_full s8 (QBudget 1000 100000000) = (s8, 1, false) /\
  let s9 := step s8 (Sent 1000 9 1350 true 100000000) in
  p_budget (pc s9) = 650 /\ step_full s9 (QBudget 1000 100000000) = (s9, 0, false) /\
  exists T, step_full s9 (QTimeUntil 100000000) = (s9, T, false) /\ 1001000 <= T.
Proof. exact pacing_livelock_regression. Qed.
Print Assumptions C20_pacing_livelock_regression.

(** One step of the sender's pacer is one step of the pacer model, fed with the sender's bandwidth
    estimate (always a uint64 value). That the pacer theorems' hypotheses (PInv, PT, pop_ok) hold
    along sender histories is C20_sender_pacer_inv below (round 5); the pacer clause for the
    sender's own pacer is C20_sender_pacer_bound_gated. *)
Theorem C20_sender_pacer_step : forall s o,
  pc (step s o) =
  match o with
  | Sent now _ bytes _ srtt => pstep (pc s) (PSent now bytes (bw_est s srtt))
  | SetMDS m => if m <? mds s then pc s else pstep (pc s) (PSetMDS m)
  | _ => pc s
  end.
Proof. exact sender_pacer_step. Qed.
Print Assumptions C20_sender_pacer_step.

Theorem C20_sender_bandwidth_is_uint64 : forall s srtt, bw_ok (bw_est s srtt).
Proof. exact bw_est_ok. Qed.
Print Assumptions C20_sender_bandwidth_is_uint64.

(** Non-vacuity of the pacer hypotheses: a freshly built pacer satisfies them. *)
Theorem C20_new_pacer_ok : forall bw, bw_ok bw -> PInv (new_pacer bw) /\ p_last (new_pacer bw) = 0.
Proof. exact new_pacer_PInv. Qed.
Print Assumptions C20_new_pacer_ok.

Example C20_pacer_nonvacuous :
  let p := new_pacer 800000000 in
  let l := [PSent 1000 1280 800000000; PSent 2000 1280 800000000; PSent 1000000 1280 800000000] in
  Forall pop_ok l /\ sum_auth p l = 3840 /\ time_until_send (prun p [PSent 5 12000 8000000]) 8000000 = Some 1000005.
Proof. exact pacer_example. Qed.
Print Assumptions C20_pacer_nonvacuous.

(** ---- Round 4 ---- *)

(** The gate with the sender model's own answers (window, HasPacingBudget = Budget now >= datagram):
    SendAny implies bytes in flight < cwnd AND the pacer has budget for a datagram (itself at most one
    burst). The sendmode unit replays the sender model on the call sequence the real handler issues. *)
Theorem C20_send_gate_sender : forall s now srtt tracked amp probes pto bif,
  pto <> sm_SendAny ->
  let hb := budget (pc s) now (bw_est s srtt) >=? mds s in
  send_mode (G tracked amp probes pto bif (cwnd s) hb) = sm_SendAny ->
  bif < cwnd s /\ mds s <= budget (pc s) now (bw_est s srtt) /\
  budget (pc s) now (bw_est s srtt) <= max_burst (pc s) (bw_est s srtt) /\
  amp = false /\ probes <= 0 /\ tracked < sm_maxOutstandingSentPackets.
Proof. exact send_gate_sender. Qed.
Print Assumptions C20_send_gate_sender.

(** SendMode's decision order: amplification limit, tracked cap (none) -> due probe (its PTO mode,
    whatever window and pacer say) -> window (ack only) -> outstanding cap -> pacer -> any. *)
Theorem C20_send_mode_order : forall tracked amp probes pto bif cw bud,
  let m := send_mode (G tracked amp probes pto bif cw bud) in
  (amp = true -> m = sm_SendNone) /\
  (amp = false -> sm_maxTrackedSentPackets <= tracked -> m = sm_SendNone) /\
  (amp = false -> tracked < sm_maxTrackedSentPackets -> 0 < probes -> m = pto) /\
  (amp = false -> tracked < sm_maxTrackedSentPackets -> probes <= 0 -> cw <= bif -> m = sm_SendAck) /\
  (amp = false -> tracked < sm_maxOutstandingSentPackets -> probes <= 0 -> bif < cw -> bud = false -> m = sm_SendPacingLimited) /\
  (amp = false -> tracked < sm_maxOutstandingSentPackets -> probes <= 0 -> bif < cw -> bud = true -> m = sm_SendAny).
Proof. exact send_mode_order. Qed.
Print Assumptions C20_send_mode_order.

(** A sustained RTT increase ends slow start: in slow start with >= 16 packets of window, no
    receive round in progress, eight consecutive RTT samples above minRTT + clamp(minRTT/8, 4ms, 16ms)
    make MaybeExitSlowStart set ssthresh := cwnd (window untouched). All sample values. *)
Theorem C20_sustained_rtt_increase_exits : forall s minrtt lats,
  cwnd s < ssthresh s -> hs_started (hs s) = false -> 0 < mds s -> 16 * mds s <= cwnd s ->
  0 <= minrtt -> length lats = 8%nat -> Forall (fun l => minrtt + hs_threshold minrtt < l) lats ->
  let s' := run s (map (fun l => ExitSS l minrtt) lats) in
  cwnd s' = cwnd s /\ ssthresh s' = cwnd s /\ in_slow_start s' = false.
Proof. exact sustained_rtt_increase_exits. Qed.
Print Assumptions C20_sustained_rtt_increase_exits.

Example C20_sustained_increase_nonvacuous :
  let s := new_sender 1280 true 100000000 in
  cwnd s < ssthresh s /\ hs_started (hs s) = false /\ 16 * mds s <= cwnd s /\
  hs_threshold 20000000 = 4000000 /\ hs_threshold 64000000 = 8000000 /\ hs_threshold 400000000 = 16000000.
Proof. exact sustained_increase_example. Qed.
Print Assumptions C20_sustained_increase_nonvacuous.

(** The window arithmetic stays inside int64: under the proved bounds (MaxCongestionWindowPackets from
    the build) and datagram sizes below 2^40, everything the code computes from the window is in [0, 2^63). *)
Theorem C20_cwnd_no_int64_wrap : forall s, InvC s -> mds s < 2^40 ->
  0 <= cwnd s /\ cwnd s + mds s < 2^63 /\ 0 <= max_cwnd s < 2^63 /\ 0 <= min_cwnd s < 2^63 /\
  0 <= reno_cut (cwnd s) <= cwnd s /\ cc_maxCongestionWindowPackets * mds s + mds s < 2^63.
Proof. exact cwnd_no_int64_wrap. Qed.
Print Assumptions C20_cwnd_no_int64_wrap.

(** The connection's send path (connection.go triggerSending / sendPackets / sendPacketsWithoutGSO /
    resetPacingDeadline; model tied by unit "paceglue" on a constructed Conn with the real handler):
    for every stream of SendMode answers, the packets released by one triggerSending number at most
    the "any" answers (each packet is licensed by an answer asked right before it) and at most the data
    available; and a pacing-limited first answer sends nothing and arms the pacing deadline (never 0). *)
Theorem C20_trigger_sending_gated : forall avail hr modes tus,
  let r := trigger_sending avail hr modes tus in
  pr_sent r <= count_any modes /\ pr_sent r <= Z.max avail 0 /\
  (pr_deadline r = 0 \/ pr_deadline r = pg_deadlineSendImmediately \/ pr_deadline r = pace_deadline tus) /\
  (forall rest, modes = sm_SendPacingLimited :: rest -> pr_sent r = 0 /\ pr_deadline r = pace_deadline tus /\ pr_deadline r <> 0).
Proof. exact trigger_sending_gated. Qed.
Print Assumptions C20_trigger_sending_gated.

Example C20_trigger_sending_nonvacuous :
  let r := trigger_sending 40 false [6;6;6;6;6;6;6;6;6;6;5] 541066375 in
  pr_sent r = 10 /\ pr_deadline r = 541066375 /\ pr_rest r = [] /\
  pr_sent (trigger_sending 3 true [6;6] (-1)) = 1 /\ pr_deadline (trigger_sending 3 true [6;6] (-1)) = pg_deadlineSendImmediately.
Proof. exact trigger_sending_example. Qed.
Print Assumptions C20_trigger_sending_nonvacuous.

(** ---- Round 5 (audit) ---- *)

(** (e) lifted to the sender: in every history from (new)CubicSender with a datagram size in (0, 2^30],
    send times in (0, 2^62) ns, sizes >= 0 and MTU updates in (0, 2^30] ([op_rng]), the sender's pacer
    satisfies the hypotheses PInv / PT of the pacer theorems. *)
Theorem C20_sender_pacer_inv : forall m r icw imax srtt0 ops, 0 < m <= 2^30 -> Forall op_rng ops ->
  let s := run (new_sender_w m r icw imax srtt0) ops in PInv (pc s) /\ PT (pc s).
Proof. exact sender_pacer_inv. Qed.
Print Assumptions C20_sender_pacer_inv.

(** (e) for bytes really SENT: the sizes of the sends gated by HasPacingBudget (Budget >= one datagram)
    and no larger than a datagram sum, over any interval starting with a send and from any pacer state,
    to at most one burst + the credits. Ungated sends (PTO probes, ACK-only packets: SendMode releases
    them without consulting the pacer) are the exception the property allows; they are not counted. *)
Theorem C20_pacer_bound_gated : forall p t size bw r, PInv p -> PT p -> pop_ok (PSent t size bw) -> Forall pop_ok r ->
  sum_gated p (PSent t size bw :: r) <= max_burst p bw + sum_credit (pstep p (PSent t size bw)) r.
Proof. exact pacer_bound_gated. Qed.
Print Assumptions C20_pacer_bound_gated.

Theorem C20_gated_send_is_authorised_in_full : forall p o, gated p o = true -> auth p o = gated_bytes p o.
Proof. exact gated_auth. Qed.
Print Assumptions C20_gated_send_is_authorised_in_full.

(** The pacer clause for the sender's OWN pacer, over every sender history: [pre] any history from
    (new)CubicSender, then a send, then [rest] (all within op_rng). The pacer's datagram size is the
    sender's, so [gated] is exactly "HasPacingBudget held and the packet is at most one datagram";
    bandwidths are the sender's estimates at each send. *)
Theorem C20_sender_pacer_bound_gated : forall m r0 icw imax srtt0 pre now pn bytes retr srtt rest,
  0 < m <= 2^30 -> Forall op_rng pre -> op_rng (Sent now pn bytes retr srtt) -> Forall op_rng rest ->
  let s := run (new_sender_w m r0 icw imax srtt0) pre in
  let s1 := step s (Sent now pn bytes retr srtt) in
  p_mds (pc s) = mds s /\
  sum_gated (pc s) (sender_pops s (Sent now pn bytes retr srtt :: rest)) <=
    max_burst (pc s) (bw_est s srtt) + sum_credit (pc s1) (sender_pops s1 rest).
Proof. exact sender_pacer_bound_gated. Qed.
Print Assumptions C20_sender_pacer_bound_gated.

Example C20_const_rate_hypotheses_nonvacuous :
  let p := new_pacer 800000000 in
  let r := [PSent 2000 1280 800000000; PBudget 3000 800000000; PSent 1000000 1280 640000000] in
  PInv p /\ PT p /\ pop_ok (PSent 1000 1280 800000000) /\ Forall pop_ok r /\ Forall (bw_below 800000000) r /\
  mono (pstep p (PSent 1000 1280 800000000)) r /\
  sum_gated p (PSent 1000 1280 800000000 :: r) = 3840.
Proof. exact const_rate_hypotheses_example. Qed.
Print Assumptions C20_const_rate_hypotheses_nonvacuous.

(** [run] ignores the panicked flag of [step_full]; this theorem carries it: from (new)CubicSender with a
    positive datagram size, in every history whose SetMaxDatagramSize arguments never decrease (what
    connection.go guarantees, see notes) NO step panics — neither SetMaxDatagramSize's "congestion BUG"
    panic nor a division by zero in TimeUntilSend — and maxDatagramSize stays positive in every
    intermediate state, so cwnd / maxDatagramSize never divides by zero. *)
Theorem C20_production_histories_never_panic : forall m r icw imax srtt0 ops, 0 < m -> mtu_nondecreasing m ops ->
  let s0 := new_sender_w m r icw imax srtt0 in
  any_panic s0 ops = false /\ 0 < mds (run s0 ops) /\
  (forall pre post, ops = pre ++ post -> 0 < mds (run s0 pre)).
Proof. exact production_histories_never_panic. Qed.
Print Assumptions C20_production_histories_never_panic.

Example C20_panic_flag_nonvacuous :
  any_panic (new_sender 1280 true 100000000) [SetMDS 1452; SetMDS 1300] = true /\
  mtu_nondecreasing 1280 [SetMDS 1452; Sent 5 0 100 true 7; SetMDS 1452] /\
  any_panic (new_sender 1280 true 100000000) [SetMDS 1452; Sent 5 0 100 true 7; SetMDS 1452; QTimeUntil 0] = false.
Proof. exact panic_example. Qed.
Print Assumptions C20_panic_flag_nonvacuous.

(** (d) with the REAL bytes in flight and the REAL window in one statement: for every state the
    handler model reaches and every state the Reno sender model reaches by production events, the gate
    fed with the handler's bytesInFlight, the sender's cwnd and the sender's pacer budget answers "any"
    only if bytesInFlight (= sum of the tracked in-flight packets) < cwnd, with cwnd within its bounds and
    the budget between one datagram and one burst; the next accepted packet stays below cwnd + its size.
    It holds for every pair of states, hence for the pair a connection is in (the lock-step of the two
    models with the code is checked by the spy cases of unit sendmode). *)
Theorem C20_send_gate_composed : forall client validated ipn period maxPeriod rnd0 hops m0 srtt0 sops now srtt,
  0 <= ipn -> 0 < m0 -> Forall (fun o => is_migrate o = false) sops ->
  let st := V.SentPH.Model.run (V.SentPH.Model.init client validated ipn period maxPeriod rnd0) hops in
  let s := run (new_sender m0 true srtt0) sops in
  let hb := budget (pc s) now (bw_est s srtt) >=? mds s in
  V.SentPH.Model.sendMode st (V.SentPH.Model.sBif st <? cwnd s) hb = sph_SendAny ->
  V.SentPH.Model.sBif st < cwnd s /\
  V.SentPH.Model.sBif st = V.SentPH.ProofsHist.msum V.SentPH.ProofsBase.f_incl (V.SentPH.ProofsBase.pk st V.SentPH.ProofsBase.SI)
     + V.SentPH.ProofsHist.msum V.SentPH.ProofsBase.f_incl (V.SentPH.ProofsBase.pk st V.SentPH.ProofsBase.SH)
     + V.SentPH.ProofsHist.msum V.SentPH.ProofsBase.f_incl (V.SentPH.ProofsBase.pk st V.SentPH.ProofsBase.SA) /\
  cc_minCongestionWindowPackets * mds s <= cwnd s <= cc_maxCongestionWindowPackets * mds s + mds s /\
  mds s <= budget (pc s) now (bw_est s srtt) <= max_burst (pc s) (bw_est s srtt) /\
  V.SentPH.Model.isAmplificationLimited st = false /\ V.SentPH.Model.sProbes st <= 0 /\
  (forall l t la sfs fs size mtu probe rnd orc,
     V.SentPH.Model.op_valid st (V.SentPH.Model.OSend l t la sfs fs size mtu probe rnd) = true ->
     V.SentPH.Model.sBif (fst (V.SentPH.Model.step st (V.SentPH.Model.OSend l t la sfs fs size mtu probe rnd, orc))) < cwnd s + size).
Proof. exact V.Congestion.ProofsHandler.send_gate_composed. Qed.
Print Assumptions C20_send_gate_composed.
