(** C20 — congestion window and pacing stay within their bounds (stub). *)
From Coq Require Import List ZArith.
From V Require Import Gen.Params Congestion.Model.
Open Scope Z_scope.
Example C20_cut_90 : cutpos 90 = 62.
Proof. vm_compute. reflexivity. Qed.
Print Assumptions C20_cut_90.
