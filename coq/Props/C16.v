(** C16 — connection IDs: limits honoured both ways, retirements reported, routing clean.
    Only statements live here; each is closed by [exact] of a lemma proved in ConnIDs/. *)
From Coq Require Import List ZArith Bool.
From V Require AdvEnf.Model.
From V Require Import Gen.Params Lib.Hex ConnIDs.Model ConnIDs.ProofsGen ConnIDs.ProofsMgr ConnIDs.ProofsMgr2 ConnIDs.ProofsMgr3 ConnIDs.ProofsMgr4 ConnIDs.ProofsMgr5 ConnIDs.LimitSel ConnIDs.ProofsMgr6 ConnIDs.Routing ConnIDs.ProofsRouting ConnIDs.GenRoute ConnIDs.ProofsGenRoute.
Import ListNotations.
Open Scope Z_scope.

(** (a) Own IDs. After ANY sequence of SetMaxActiveConnIDs / Retire / SetHandshakeComplete /
    RemoveRetiredConnIDs / RemoveAll / ReplaceWithClosed calls whose announced limits are
    all <= L, at most max(1, min(L, MaxIssuedConnectionIDs)) source connection IDs are
    active (issued and not retired by the peer). *)
Theorem C16_issue_within_limit : forall L ops i cd l0,
  Forall (fun o => limit_of o <= L) ops ->
  zlength (g_active (gen_run ops (gen_init i cd l0))) <= Z.max 1 (Z.min L MaxIssuedConnectionIDs).
Proof. exact gen_issue_within_limit_init. Qed.
Print Assumptions C16_issue_within_limit.

(** RETIRE_CONNECTION_ID from the peer: a never-issued number and the ID the packet was
    sent to give PROTOCOL_VIOLATION (state untouched); an already retired number is ignored. *)
Theorem C16_retire_rules : forall g seq sw ex os,
  (g_highest g < seq -> gen_step (GRetire seq sw ex os) g = (g, RProto)) /\
  (seq <= g_highest g -> alookup seq (g_active g) = Some sw -> gen_step (GRetire seq sw ex os) g = (g, RProto)) /\
  (seq <= g_highest g -> alookup seq (g_active g) = None -> gen_step (GRetire seq sw ex os) g = (g, ROk)).
Proof. exact gen_retire_rules. Qed.
Print Assumptions C16_retire_rules.

(** NEW_CONNECTION_ID frames carry consecutive sequence numbers 1..highestSeq. *)
Theorem C16_issue_consecutive : forall i cd l0 ops,
  exists n, g_highest (gen_run ops (gen_init i cd l0)) = Z.of_nat n /\
            frames (g_log (gen_run ops (gen_init i cd l0))) = down_from n.
Proof. exact gen_frames_consecutive. Qed.
Print Assumptions C16_issue_consecutive.

Theorem C16_limits_at_least_two : 2 <= MaxActiveConnectionIDs /\ 2 <= MaxIssuedConnectionIDs.
Proof. exact limits_at_least_two. Qed.
Print Assumptions C16_limits_at_least_two.

(** (b) Peer's IDs. The limit the peer may rely on is lim = max(MaxActiveConnectionIDs, L), L the
    active_connection_id_limit a spec-driven client advertised (SetConnectionIDLimit; 0 for
    every other connection). In every state the connection can reach ([reachP op_ok]: frames
    as the parser delivers them - retransmitted, reordered, with Retire Prior To jumps -,
    path probing, rotation; nothing after Close or after a frame error) with non-zero-length
    IDs, a NEW_CONNECTION_ID frame never gives PROTOCOL_VIOLATION or a panic;
    CONNECTION_ID_LIMIT_ERROR only if afterwards more than lim pairwise distinct, received,
    never-retired sequence numbers are held - hence never while the peer's duplicate-free
    set of active IDs has at most lim elements; a frame is accepted only if the active ID plus
    the QUEUED IDs fit into lim - IDs handed to path probing are not counted by the code
    (conn_id_manager.go Add checks len(queue) only), so with probing paths more than lim IDs
    can be held (e.g. add 1,2,3; GetConnIDForPath x3; add 4,5,6: 7 IDs with lim 4): the endpoint
    is more generous than RFC 9000 5.1.1 demands of it, never stricter than it advertised; any other error only for conflicting contents of
    a queued or probing sequence number. *)
Theorem C16_accept_within_advertised : forall init ops st seq rpt c tok d,
  init <> [] -> reachP op_okc init ops st -> 0 <= rpt <= seq ->
  let st' := fst (mgr_add seq rpt c tok d st) in
  let r := snd (mgr_add seq rpt c tok d st) in
  let lim := Z.max MaxActiveConnectionIDs (m_advlimit st) in
  r <> RProto /\ r <> RPanic /\
  (r = RLimit -> lim < zlength (held st')) /\
  (r = ROk -> 1 + zlength (m_queue st') <= lim) /\
  (accepted r -> NoDup (held st') /\
                 forall s, In s (held st') -> retc s (m_log st') = 0 /\
                                              (s = 0 \/ 1 <= frames_for s (MAdd seq rpt c tok d :: ops))) /\
  (forall L, NoDup L -> incl (held st') L -> zlength L <= lim -> r <> RLimit) /\
  (r = ROther -> exists x, (In x (m_queue st) \/ exists id, In (id, x) (m_probing st)) /\
                           n_seq x = seq /\ cid_eqb (n_cid x) c && (n_tok x =? tok) = false).
Proof. exact accept_within_limit_nz. Qed.
Print Assumptions C16_accept_within_advertised.

(** (b) without a free hypothesis (round 5): [peer_unretired ops st] is the peer's own count of its
    active IDs - every sequence number it issued (0 and those in its frames) for which this
    endpoint has queued no RETIRE_CONNECTION_ID. While that count stays within lim the frame is
    never refused with CONNECTION_ID_LIMIT_ERROR. *)
Theorem C16_no_limit_error_within_peer_view : forall init ops st seq rpt c tok d,
  init <> [] -> reachP op_okc init ops st -> 0 <= rpt <= seq ->
  let st' := fst (mgr_add seq rpt c tok d st) in
  zlength (peer_unretired (MAdd seq rpt c tok d :: ops) st') <= Z.max MaxActiveConnectionIDs (m_advlimit st) ->
  snd (mgr_add seq rpt c tok d st) <> RLimit.
Proof. exact no_limit_error_within_peer_view. Qed.
Print Assumptions C16_no_limit_error_within_peer_view.

(** "the limit it advertised itself": how the two client constructors select it (LimitSel, tied by
    cases through the real constructors: plain, parrots, parameter suppressed, values 2..9; the
    spec-driven constructor passes SetConnectionIDLimit the value the peer reads off the wire, 2
    when the spec leaves the parameter out).
    The bound the manager enforces is never below the active_connection_id_limit on the wire
    (absent = 2), equals it for the plain client and for every spec advertising at least
    MaxActiveConnectionIDs; and it is the connection-ID component of C12's enforced limits, so
    C12_spec_client_ok / C12_plain_client_ok speak about the same number. *)
Theorem C16_enforced_covers_wire : forall src init,
  wire_limit src <= enforced_limit src init /\
  (MaxActiveConnectionIDs <= wire_limit src -> enforced_limit src init = wire_limit src) /\
  (src = LPlain -> enforced_limit src init = wire_limit src).
Proof. exact enforced_covers_wire. Qed.
Print Assumptions C16_enforced_covers_wire.

Theorem C16_enforced_limit_is_C12 : forall (a : AdvEnf.Model.limits) (c : AdvEnf.Model.config) init v,
  (v = Some (AdvEnf.Model.l_cid a) \/ (v = None /\ AdvEnf.Model.l_cid a = 2)) ->
  AdvEnf.Model.l_cid (AdvEnf.Model.enforced_spec a c) = enforced_limit (LSpec v) init /\
  AdvEnf.Model.l_cid a = wire_limit (LSpec v) /\
  AdvEnf.Model.l_cid (AdvEnf.Model.plain_advertised c) = wire_limit LPlain.
Proof. exact enforced_limit_is_C12. Qed.
Print Assumptions C16_enforced_limit_is_C12.

(** round 3: the hypothesis "the active connection ID is non-empty" is a theorem: a manager
    created with a non-empty destination connection ID that is only handed non-empty IDs
    ([op_okc] = [op_ok] + the parser's "no zero-length ID in NEW_CONNECTION_ID") keeps a
    non-empty active ID. The zero-length case is its own statement: every frame is a
    PROTOCOL_VIOLATION that changes nothing, and path probing needs no new ID. *)
Theorem C16_active_cid_nonempty : forall init ops st,
  init <> [] -> reachP op_okc init ops st -> m_acid st <> [].
Proof. exact active_cid_nonempty. Qed.
Print Assumptions C16_active_cid_nonempty.

Theorem C16_zero_length_refused : forall st seq rpt c tok d id,
  m_acid st = [] ->
  mgr_add seq rpt c tok d st = (st, RProto) /\
  (m_closed st = false -> mgr_path_get id st = (st, ROk, [], true) /\ mgr_path_retire id st = (st, ROk)).
Proof. exact zero_length_refused. Qed.
Print Assumptions C16_zero_length_refused.

Example C16_history_nonvacuous_nz :
  reachP op_okc w_init (rev w_good) (mgr_run w_good (mgr_init w_init)) /\ w_init <> [].
Proof. exact (conj (hist_okcb_reach w_init w_good (proj1 w_good_okc)) (proj2 w_good_okc)). Qed.
Print Assumptions C16_history_nonvacuous_nz.

(** the advertised limit is exactly what the last SetConnectionIDLimit call said *)
Theorem C16_advertised_limit_follows : forall o st,
  m_advlimit (fst (mgr_step o st)) = match sets_limit o with Some n => n | None => m_advlimit st end.
Proof. exact mgr_step_adv. Qed.
Print Assumptions C16_advertised_limit_follows.

Example C16_advertised_limit_example :
  hist_okb w_lim8 (mgr_init w_init) = true /\
  m_advlimit (mgr_run w_lim8 (mgr_init w_init)) = 8 /\
  snd (mgr_add 8 0 [8; 7] 1008 0 (mgr_run w_lim8 (mgr_init w_init))) = RLimit /\
  snd (mgr_add MaxActiveConnectionIDs 0 [4; 7] 1004 0
         (mgr_run (map w_add [1; 2; 3]) (mgr_init w_init))) = RLimit.
Proof. exact advertised_limit_example. Qed.
Print Assumptions C16_advertised_limit_example.

(** (c) Retirements, on the connection's histories (any frames the parser delivers,
    including retransmissions for probing IDs): active / queued / probing sequence
    numbers are pairwise distinct; no RETIRE_CONNECTION_ID was ever queued for one of them;
    a received number that is no longer held has at least one RETIRE_CONNECTION_ID and at
    most one per frame received for it (exactly one if received once). *)
Theorem C16_retire_reported_once : forall init ops st,
  reachP op_ok init ops st ->
  NoDup (held st) /\
  (forall s, In s (held st) -> retc s (m_log st) = 0) /\
  (forall s, ~ In s (held st) -> s = 0 \/ 1 <= frames_for s ops ->
             1 <= retc s (m_log st) <= b2z (0 =? s) + frames_for s ops).
Proof. exact retire_reported_once. Qed.
Print Assumptions C16_retire_reported_once.

(** (c) bookkeeping bounds for EVERY history (any operations in any order, duplicates, probing,
    use after errors): phi = copies held + RETIRE frames queued for a sequence number never
    exceeds the frames received for it (+1 for the initial ID); the lower bound only says
    something for number 0 (phi >= 1: the initial ID is held or was reported). The statement
    that nothing leaves silently is the monotonicity [C16_retire_tracked_stays_tracked] together
    with [C16_retire_reported_once]. (Renamed in round 5; was C16_retire_never_lost.) *)
Theorem C16_retire_bookkeeping_bounds : forall init ops st s,
  reachP any_op init ops st ->
  b2z (0 =? s) <= phi st s <= b2z (0 =? s) + frames_for s ops.
Proof. exact phi_history. Qed.
Print Assumptions C16_retire_bookkeeping_bounds.

Theorem C16_retire_tracked_stays_tracked : forall init ops st o s,
  reachP any_op init ops st ->
  In s (held st) \/ 1 <= retc s (m_log st) ->
  In s (held (fst (mgr_step o st))) \/ 1 <= retc s (m_log (fst (mgr_step o st))).
Proof. exact tracked_stays_tracked. Qed.
Print Assumptions C16_retire_tracked_stays_tracked.

(** Regression of the repaired finding connids/probing-dup (conn_id_manager.go:83 compared a
    repeated NEW_CONNECTION_ID with highestProbingID before checking whether the number is in
    use): the four former counterexamples W1, W2, W3, W3b are now ordinary histories and end
    with the probing / active ID still held exactly once and never reported retired (W1, W2,
    W3b), respectively with the retired ID staying retired (W3). *)
Example C16_retire_regression :
  (hist_okb w1 (mgr_init w_init) = true /\
   cntz 1 (held (mgr_run w1 (mgr_init w_init))) = 1 /\ retc 1 (m_log (mgr_run w1 (mgr_init w_init))) = 0) /\
  (hist_okb w2 (mgr_init w_init) = true /\ cntz 1 (held (mgr_run w2 (mgr_init w_init))) = 1) /\
  (hist_okb w3 (mgr_init w_init) = true /\
   m_active (mgr_run w3 (mgr_init w_init)) = 2 /\ cntz 1 (held (mgr_run w3 (mgr_init w_init))) = 0 /\
   retc 1 (m_log (mgr_run w3 (mgr_init w_init))) = 2) /\
  (hist_okb w3b (mgr_init w_init) = true /\
   m_active (mgr_run w3b (mgr_init w_init)) = 1 /\ retc 1 (m_log (mgr_run w3b (mgr_init w_init))) = 0).
Proof. exact retire_regression_w. Qed.
Print Assumptions C16_retire_regression.

(** (d) Reset tokens. On every history in which the manager is not used after Close and
    learns the transport-parameter token at most once (probing and retransmissions
    allowed): registrations minus removals of each token = its uses by the active ID and
    the probing IDs; Close removes every one of them. *)
Theorem C16_tokens_exact : forall init ops st,
  reachP tok_ok init ops st ->
  m_closed st = false /\
  (forall t, tokc t (m_log st) = inuse st t) /\
  (forall t, tokc t (m_log (mgr_close st)) = 0).
Proof. exact tokens_exact. Qed.
Print Assumptions C16_tokens_exact.

(** (d) set level: [reg t log] is what the transport's resetTokens map holds for t after the
    callbacks (a map entry depends only on the last call naming the key). If the callbacks
    keep the discipline [disc] (never register a registered token, never remove an
    unregistered one - true whenever the peer gives every ID its own token), the map is
    exactly the set of tokens of the IDs in use, and empty after Close. *)
Theorem C16_tokens_exact_set : forall init ops st,
  reachP tok_ok init ops st -> disc (m_log st) = true ->
  (forall t, reg t (m_log st) = true <-> inuse st t = 1) /\
  (forall t, inuse st t = 0 \/ inuse st t = 1) /\
  (disc (m_log (mgr_close st)) = true -> forall t, reg t (m_log (mgr_close st)) = false).
Proof. exact tokens_exact_set. Qed.
Print Assumptions C16_tokens_exact_set.

(** Round 4 - the token discipline derived: on every history the connection produces in which a
    frame for a sequence number the manager does not hold (not active, queued or probing) never
    carries a token it holds ([op_okt]; retransmissions of frames for held numbers are
    unconstrained), the
    callbacks never register a registered token nor remove an unregistered one, the held tokens
    are pairwise distinct, the transport's token map is exactly {active token} + probing tokens,
    and Close empties it (hypothesis [disc] of C16_tokens_exact_set discharged). *)
Theorem C16_token_discipline : forall init ops st,
  reachP op_okt init ops st ->
  disc (m_log st) = true /\ NoDup (all_toks st) /\
  (forall t, reg t (m_log st) = true <-> In t (atoks st) \/ In t (ptoks (m_probing st))) /\
  disc (m_log (mgr_close st)) = true /\ (forall t, reg t (m_log (mgr_close st)) = false).
Proof. exact token_discipline. Qed.
Print Assumptions C16_token_discipline.

(** the same from "every sequence number has its own token" as a function: tokens of all frames
    (number 0: the transport-parameter token) follow an injective f - retransmissions of frames
    for active, probing, queued or retired numbers included. *)
Theorem C16_token_discipline_fn : forall (f : Z -> Z) init ops st,
  (forall a b, f a = f b -> a = b) ->
  reachP (fun o s => op_ok o s /\ frame_follows f o) init ops st ->
  disc (m_log st) = true /\ NoDup (all_toks st) /\
  (forall t, reg t (m_log st) = true <-> In t (atoks st) \/ In t (ptoks (m_probing st))) /\
  disc (m_log (mgr_close st)) = true /\ (forall t, reg t (m_log (mgr_close st)) = false).
Proof. exact token_discipline_fn. Qed.
Print Assumptions C16_token_discipline_fn.

Example C16_token_fn_nonvacuous :
  let f := fun s => 1000 + s in
  let ops := [w_add 1; w_add 2; MPathGet 1; w_add 1; MHsDone; MGet 0; w_add 2; MPathRetire 1; w_add 1] in
  (forall a b, f a = f b -> a = b) /\
  reachP (fun o s => op_ok o s /\ frame_follows f o) w_init (rev ops) (mgr_run ops (mgr_init w_init)).
Proof. exact token_fn_example. Qed.
Print Assumptions C16_token_fn_nonvacuous.

Example C16_token_retransmissions_in_hypothesis :
  hist_oktb [w_add 1; MHsDone; MGet 0; w_add 1] (mgr_init w_init) = true /\
  hist_oktb [w_add 1; w_add 2; MPathGet 1; w_add 1] (mgr_init w_init) = true /\
  hist_oktb [w_add 1; w_add 2; w_add 3; MPathGet 1; MHsDone; MGet 0; w_add 1; w_add 2; w_add 3; MPathRetire 1; w_add 1] (mgr_init w_init) = true.
Proof. exact retransmissions_okt. Qed.
Print Assumptions C16_token_retransmissions_in_hypothesis.

Example C16_token_history_nonvacuous :
  reachP op_okt w_init (rev w_good) (mgr_run w_good (mgr_init w_init)).
Proof. exact (hist_oktb_reach w_init w_good w_good_okt). Qed.
Print Assumptions C16_token_history_nonvacuous.

Example C16_tokens_discipline_nonvacuous : disc (m_log (mgr_run w_good (mgr_init w_init))) = true.
Proof. exact w_good_disc. Qed.
Print Assumptions C16_tokens_discipline_nonvacuous.

(** (d)/(e) Routing, CALLBACK BOOKKEEPING level: [routed] is a +1/-1 count over the generator's
    Add/Remove callbacks (it is not the table: it does not see that the runner's Add refuses a
    present ID, nor ReplaceWithClosed). The statement about the routing TABLE is
    C16_connection_routes_exact / C16_connection_cleanup below. For every history of generator calls without RemoveAll: each
    connection ID is routed to the connection exactly as often as it occurs among the
    client's original destination ID (until handshake completion + expiry), the active IDs
    and the retired-but-unexpired IDs; after RemoveRetiredConnIDs(now) no entry with
    expiry <= now is left; RemoveAll un-routes everything; ReplaceWithClosed hands the
    runner exactly the routed IDs. *)
Theorem C16_routing_exact : forall i cd l0 ops,
  Forall not_close ops ->
  let g := gen_run ops (gen_init i cd l0) in
  (forall c, routed i cd g c = cnt c (gen_all_ids g)) /\
  (forall now y, In y (g_toretire (fst (gen_step (GRemoveRetired now) g))) -> now < fst y) /\
  (forall c, routed i cd (fst (gen_step GRemoveAll g)) c = 0) /\
  (forall loc ex, exists ids, g_log (fst (gen_step (GReplaceClosed loc ex) g)) = GReplace ids loc ex :: g_log g /\
                              forall c, cnt c ids = routed i cd g c).
Proof. exact gen_routing_exact. Qed.
Print Assumptions C16_routing_exact.

(** (d) set level: if no connection ID is handed to the runner twice (fresh generated IDs,
    different from the two initial ones), the IDs the generator knows are pairwise distinct
    and the runner routes exactly them, each once. *)
Theorem C16_routing_exact_set : forall i cd l0 ops,
  Forall not_close ops ->
  let g := gen_run ops (gen_init i cd l0) in
  (forall c, init_count i cd c + adds c (g_log g) <= 1) ->
  NoDup (gen_all_ids g) /\
  (forall c, routed i cd g c = 1 <-> In c (gen_all_ids g)) /\
  (forall c, routed i cd g c = 0 \/ routed i cd g c = 1).
Proof. exact gen_routing_exact_set. Qed.
Print Assumptions C16_routing_exact_set.

Example C16_routing_fresh_nonvacuous :
  let ops := [GSetMax 2 [Some [3]]; GHsDone 10; GRetire 1 [1] 20 [Some [4]]; GRemoveRetired 15] in
  Forall not_close ops /\
  forall c, init_count [1] (Some [2]) c + adds c (g_log (gen_run ops (gen_init [1] (Some [2]) false))) <= 1.
Proof. exact gen_fresh_example. Qed.
Print Assumptions C16_routing_fresh_nonvacuous.

(** the accessor the run loop's timer uses (repair of simconnids/idle-expired-still-routed):
    NextRetireTime is the earliest pending expiry, 0 iff nothing waits, and a wake-up at that
    time followed by RemoveRetiredConnIDs removes that entry *)
Theorem C16_next_retire_earliest : forall i cd l0 ops,
  let g := gen_run ops (gen_init i cd l0) in
  (g_toretire g = [] -> gen_next_retire g = 0) /\
  (g_toretire g <> [] -> exists c, In (gen_next_retire g, c) (g_toretire g)) /\
  (forall y, In y (g_toretire g) -> gen_next_retire g <= fst y) /\
  (forall y, In y (g_toretire g) ->
     ~ In (gen_next_retire g) (map fst (g_toretire (fst (gen_step (GRemoveRetired (gen_next_retire g)) g))))).
Proof. exact gen_next_retire_earliest. Qed.
Print Assumptions C16_next_retire_earliest.

Theorem C16_expired_removed_exactly : forall i cd l0 ops now,
  Forall not_close ops ->
  let g := gen_run ops (gen_init i cd l0) in
  let g' := fst (gen_step (GRemoveRetired now) g) in
  exists gone, g_toretire g = gone ++ g_toretire g' /\
               (forall y, In y gone -> fst y <= now) /\
               (forall y, In y (g_toretire g') -> now < fst y) /\
               g_log g' = rev (map GRem (map snd gone)) ++ g_log g.
Proof. exact gen_remove_retired_exact. Qed.
Print Assumptions C16_expired_removed_exactly.

(** (e) Transport routing table (packetHandlerMap): for every history of Add / AddWithConnID /
    Remove / ReplaceWithClosed (positive closing period) / reset-token calls / packets /
    passing time, a connection ID maps to a closed-connection stand-in only while the
    closing period that installed this stand-in for it is still running; once time has passed the last pending
    deadline no ID maps to a closed connection and no timer is left. *)
Theorem C16_routing_closed_expire : forall ops,
  Forall rop_ok ops ->
  let s := rt_run ops rt_init in
  (forall k h, In (k, h) (rt_handlers s) -> closed_kind h ->
     exists t ids, In (t, ids, h) (rt_timers s) /\ In k ids /\ rt_now s < t) /\
  (forall d, 0 <= d -> (forall t ids k, In (t, ids, k) (rt_timers s) -> t <= rt_now s + d) ->
     let s' := fst (rt_step (RAdvance d) s) in
     rt_timers s' = [] /\ forall k h, In (k, h) (rt_handlers s') -> ~ closed_kind h).
Proof. exact routing_closed_expire. Qed.
Print Assumptions C16_routing_closed_expire.

(** (d) An ID routed to a live connection stays routed to it until an operation names that very
    ID (Remove, ReplaceWithClosed, AddWithConnID as the new ID); in particular a later Add for
    an ID survives the expiry of an earlier closed stand-in for the same ID (the removal timer
    only retires the entry it installed). *)
Theorem C16_routing_live_survives : forall ops o c n,
  Forall rop_ok ops -> ~ touches o c ->
  hget c (rt_handlers (rt_run ops rt_init)) = Some (HConn n) ->
  hget c (rt_handlers (fst (rt_step o (rt_run ops rt_init)))) = Some (HConn n).
Proof. exact live_survives_history. Qed.
Print Assumptions C16_routing_live_survives.

(** (d)/(e) a connection ID that was never handed to the table does not reach any handler *)
Theorem C16_routing_no_foreign : forall ops s k h,
  In (k, h) (rt_handlers (rt_run ops s)) ->
  In k (map fst (rt_handlers s)) \/ exists o, In o ops /\ named o k.
Proof. exact routing_no_foreign. Qed.
Print Assumptions C16_routing_no_foreign.

(** closed_conn.go: the stand-in of a locally closed connection retransmits CONNECTION_CLOSE for
    packet n iff n is a power of two and the copy stays within three times the bytes received
    for the closed connection (RFC 9000 10.2.1); a remotely closed one never answers. *)
Theorem C16_backoff_power_of_two : forall s c j size,
  hget c (rt_handlers s) = Some (HLocal j) ->
  let l := match zget j (rt_locals s) with Some v => v | None => mkL 0 0 0 0 end in
  0 <= l_cnt l -> l_cnt l + 1 < 4294967296 ->
  let r := snd (rt_step (RDeliver c size) s) in
  rr_kind r = 2 /\
  (rr_sent r = 1 <-> (exists k : nat, l_cnt l + 1 = 2 ^ Z.of_nat k) /\
                     l_sent l + l_psize l <= 3 * (l_recv l + size)) /\
  (rr_sent r = 0 \/ rr_sent r = 1).
Proof. exact backoff_power_of_two. Qed.
Print Assumptions C16_backoff_power_of_two.

Theorem C16_remote_closed_silent : forall s c size,
  hget c (rt_handlers s) = Some HRemote -> rr_sent (snd (rt_step (RDeliver c size) s)) = 0.
Proof. exact remote_closed_silent. Qed.
Print Assumptions C16_remote_closed_silent.

(** Round 4 - generator and routing table composed as connection.go wires them ([gr_step]: every
    callback of a generator call reaches the table; the transport registered the first IDs).
    (d) For every history of a live connection (generated IDs not already known to the
    generator, time passing) the table routes to the connection exactly the pairwise distinct IDs
    the generator knows - client's original destination ID until expiry, active IDs, retired
    unexpired IDs - nothing else, no timer pending. *)
Theorem C16_connection_routes_exact : forall i cd l0 ops s,
  cd <> Some i -> gr_reach i cd l0 ops s ->
  NoDup (gen_all_ids (fst s)) /\ rt_timers (snd s) = [] /\
  forall c, hget c (rt_handlers (snd s)) = if cin c (gen_all_ids (fst s)) then Some (HConn 1) else None.
Proof. exact gr_routes_exact. Qed.
Print Assumptions C16_connection_routes_exact.

(** (e) Closing, whatever is still waiting for its expiry: RemoveAll leaves nothing of the
    connection in the table; ReplaceWithClosed maps every one of its IDs to the closed stand-in
    and after the closing period the table holds nothing of it and no timer is pending. *)
Theorem C16_connection_cleanup : forall i cd l0 ops s,
  cd <> Some i -> gr_reach i cd l0 ops s ->
  (let s1 := fst (gr_step (GROp GRemoveAll) s) in
   rt_timers (snd s1) = [] /\ forall c, hget c (rt_handlers (snd s1)) = None) /\
  (forall loc ex d, 0 < ex -> ex <= d ->
   let s1 := fst (gr_step (GROp (GReplaceClosed loc ex)) s) in
   (forall c, hget c (rt_handlers (snd s1)) =
      if cin c (gen_all_ids (fst s)) then Some (if loc then HLocal (rt_nlocal (snd s)) else HRemote) else None) /\
   let s2 := fst (gr_step (GRAdvance d) s1) in
   rt_timers (snd s2) = [] /\ forall c, hget c (rt_handlers (snd s2)) = None).
Proof. exact gr_cleanup. Qed.
Print Assumptions C16_connection_cleanup.

Example C16_connection_history_nonvacuous :
  exists s, gr_reach [1] (Some [2]) false
    [GRAdvance 5; GROp (GRetire 1 [1] 20 [Some [4]]); GROp (GHsDone 10); GROp (GSetMax 2 [Some [3]])] s /\ Some [2] <> Some [1].
Proof. exact gr_reach_example. Qed.
Print Assumptions C16_connection_history_nonvacuous.

(** Non-vacuity: a 13-operation history with reordering, Retire Prior To, rotation, path
    probing and a harmless retransmission satisfies the hypotheses of (b), (c), (d). *)
Example C16_history_nonvacuous :
  reachP op_ok w_init (rev w_good) (mgr_run w_good (mgr_init w_init)).
Proof. exact (hist_okb_reach w_init w_good w_good_ok). Qed.
Print Assumptions C16_history_nonvacuous.
