(** C09 — Initial CRYPTO framing always carries the complete ClientHello at true offsets.
    Only statements live here; each is closed by [exact] of a lemma proved elsewhere. *)
From Coq Require Import List ZArith.
From V Require Import Gen.Params UFrames.Model.
Import ListNotations.
Open Scope Z_scope.
