(** C09 — Initial CRYPTO framing always carries the complete ClientHello at true offsets.
    Only statements live here; each is closed by [exact] of a lemma proved elsewhere.

    Reading guide.  [exact_cover data base ws]: the CRYPTO frames of the wire-frame list [ws]
    are, in some order, consecutive ranges starting at [base] whose bytes concatenate to
    [data] — they partition [base, base+|data|) and carry the true bytes.  [res]: [Ok], an
    error class [Err c], or [Panic] (a Go run-time panic).  [bs] is the byte stream
    crypto/rand.Reader yields, [us] the uint32 stream of math/rand's global source: the
    theorems hold for ALL their values. *)
From Coq Require Import List ZArith Permutation.
From V Require Import Gen.Params Lib.Hex Wire.Varint UFrames.Model UFrames.ProofsBase UFrames.Proofs UFrames.ProofsFlight
  UFrames.ProofsCounts UFrames.ProofsLength UFrames.ProofsValidate UFrames.ScramModel UFrames.ProofsSni UFrames.ProofsScram
  UDial.Retx UPacker.Model UFrames.OnWire UFrames.ProofsOnWire UFrames.ProofsOnWireFlight.
Import ListNotations.
Open Scope Z_scope.

(** QUICFrames.Build / BuildForDatagram on any layout that tiles its slice (its CRYPTO frames,
    in some order, are consecutive from 0 to |data|, Length = 0 meaning "the rest"; PADDING
    lengths non-negative): succeeds, and the emitted CRYPTO frames partition
    [base, base+|data|) with the true bytes. *)
Theorem C09_quicframes_tiling : forall data base qfs,
  0 <= base -> base + zlen data <= maxVarInt8 -> tiles (zlen data) qfs ->
  build data base qfs = Ok (map (wire data base) qfs)
  /\ exact_cover data base (map (wire data base) qfs)
  /\ wpads_ok (map (wire data base) qfs).
Proof. exact build_tiling. Qed.
Print Assumptions C09_quicframes_tiling.

Example C09_quicframes_tiling_nonvacuous : tiles 3 [FCrypto 1 0; FPing; FPad 2; FCrypto 0 1].
Proof. exact tiles_example. Qed.
Print Assumptions C09_quicframes_tiling_nonvacuous.

(** Outside the property's quantifier, for the record: a layout that does not tile its slice
    yields a zero-extended ClientHello or a Go panic. *)
Theorem C09_quicframes_nontiling_refuted :
  build [10; 20; 30] 0 [FCrypto 0 5] = Ok [WCrypto 0 [10; 20; 30; 0; 0]]
  /\ build [10; 20; 30] 0 [FCrypto 0 1; FCrypto 5 0] = Panic.
Proof. exact (conj build_nontiling_zero_extends build_nontiling_panics). Qed.
Print Assumptions C09_quicframes_nontiling_refuted.

(** QUICRandomFrames.buildInternal (Build and BuildForDatagram), for every parameterisation in
    the fields' ranges, every ClientHello slice and base offset that stay encodable, and every
    value of both randomness oracles: never a panic; an error exactly of the class of the failed
    bounds check, or the oracle's own failure; otherwise CRYPTO frames that partition
    [base, base+|data|) with the true bytes. *)
Theorem C09_random_frames_exact : forall p data base bs us,
  rf_wf p -> 0 <= base -> base + zlen data <= maxVarInt8 ->
  match build_internal p data base bs us with
  | Ok (ws, _, _) => exact_cover data base ws /\ wpads_ok ws
  | Err c => check_bounds p = Err c \/ (check_bounds p = Ok tt /\ (c = 6 \/ c = 90))
  | Panic => False
  end.
Proof. exact build_internal_exact. Qed.
Print Assumptions C09_random_frames_exact.

Example C09_random_frames_nonvacuous : rf_wf (mkRF 0 3 1 4 1 3 1200).
Proof. exact rf_wf_example. Qed.
Print Assumptions C09_random_frames_nonvacuous.

(** ... and the numbers of PING and CRYPTO frames in the payload lie in the configured bounds:
    PING in [MinPING, max(MinPING, MaxPING-1)]; CRYPTO in the same kind of interval clamped to
    [1, |data|] (exactly one, empty, CRYPTO frame for an empty slice) — for all oracle values. *)
Theorem C09_random_frames_counts : forall p data base bs us,
  rf_wf p -> 0 <= base -> base + zlen data <= maxVarInt8 ->
  match build_internal p data base bs us with
  | Ok (ws, _, _) => ping_bounds p (zlen (wpings ws)) /\ crypto_bounds p (zlen data) (zlen (wcryptos ws))
  | _ => True
  end.
Proof. exact build_internal_counts. Qed.
Print Assumptions C09_random_frames_counts.

(** ... and the total length: the payload is never shorter than Length, and whenever it contains
    PADDING it is exactly Length bytes long — for every base offset (the dry run measures with
    the real base offset since /repo 2194cbc) and all oracle values. *)
Theorem C09_random_frames_length : forall p data base bs us,
  rf_wf p -> 0 <= base -> base + zlen data <= maxVarInt8 ->
  match build_internal p data base bs us with
  | Ok (ws, _, _) => rfLen p <= zlen (encode ws) /\ (0 < wpadbytes ws -> zlen (encode ws) = rfLen p)
  | _ => True
  end.
Proof. exact build_internal_length. Qed.
Print Assumptions C09_random_frames_length.

(** QUICMultiDatagramFrames.BuildForDatagram: the same for whichever per-datagram spec is used. *)
Theorem C09_multidatagram_exact : forall specs idx data base bs us,
  Forall rf_wf specs -> 0 <= idx -> 0 <= base -> base + zlen data <= maxVarInt8 ->
  match md_build specs idx data base bs us with
  | Ok (ws, _, _) => exact_cover data base ws /\ wpads_ok ws
  | Err c => (specs = [] /\ c = 7) \/ specs <> []
  | Panic => False
  end.
Proof. exact md_build_exact. Qed.
Print Assumptions C09_multidatagram_exact.

(** ... and which error: class 7 for an empty spec list, else the error of the entry selected for
    the datagram — the class of its failed bounds check or, bounds fine, the oracle's failure. *)
Theorem C09_multidatagram_error_class : forall specs idx data base bs us c,
  Forall rf_wf specs -> 0 <= idx -> 0 <= base -> base + zlen data <= maxVarInt8 ->
  md_build specs idx data base bs us = Err c ->
  (specs = [] /\ c = 7) \/
  exists p, In p specs /\ (check_bounds p = Err c \/ (check_bounds p = Ok tt /\ (c = 6 \/ c = 90))).
Proof. exact md_build_error_class. Qed.
Print Assumptions C09_multidatagram_error_class.

(** QUICCryptoRange.resolve, for ALL integers (Offset, Length) and stream lengths: an error, or
    bounds with 0 <= start <= end <= n that are the documented ones; an error only when those
    documented bounds are not inside the stream. *)
Theorem C09_resolve_total : forall off len n,
  0 <= n ->
  match resolve off len n with
  | Ok (s, e) => 0 <= s <= e /\ e <= n
                 /\ s = (if off <? 0 then n + off else off)
                 /\ e = (if 0 <? len then s + len else n + len)
  | Err c => (c = 9 \/ c = 10)
             /\ let s := if off <? 0 then n + off else off in
                let e := if 0 <? len then s + len else n + len in
                ~ (0 <= s <= e /\ e <= n)
  | Panic => False
  end.
Proof. exact resolve_total. Qed.
Print Assumptions C09_resolve_total.

(** splitRange, for every non-empty range, all count bounds and every draw: consecutive CRYPTO
    frames of at least one byte each from start to end; their number within the clamped bounds. *)
Theorem C09_splitrange_partition : forall s e minN maxN bs,
  0 <= s < e -> e < 2 ^ 62 -> 0 <= minN -> maxN < 2 ^ 32 ->
  match split_range s e minN maxN bs with
  | Ok (fs, _) => pchain s fs e
                  /\ 1 <= zlen fs <= e - s
                  /\ Z.min (Z.max minN 1) (e - s) <= zlen fs <= Z.max (Z.max minN (maxN - 1)) 1
  | Err c => c = 6
  | Panic => False
  end.
Proof. exact split_range_partition. Qed.
Print Assumptions C09_splitrange_partition.

(** QUICFlightFrames and QUICRandomFlightFrames (BuildFlight and Build), for ANY plan — negative
    offsets and lengths included —, any parameters and any draws: every CRYPTO frame of every
    datagram lies inside the stream and carries the stream's own bytes at its absolute offset
    (no shifted or zero-extended range).  Completeness of the cover is what
    validateInitialFlight checks afterwards: C09_flight_validated_complete below. *)
Theorem C09_flight_true_bytes_partial : forall full,
  (forall dgs first wss, flight_frames dgs first full = Ok wss ->
     Forall (fun ws => Forall (true_frame full) (wcryptos ws) /\ wpads_ok ws) wss)
  /\ (forall dgs first bs us wss bs' us', rff_build dgs first full bs us = Ok (wss, bs', us') ->
     Forall (fun ws => Forall (true_frame full) (wcryptos ws) /\ wpads_ok ws) wss).
Proof.
  exact (fun full => conj (fun dgs first wss => flight_frames_true dgs first full wss)
                          (fun dgs first bs us wss bs' us' => rff_build_true dgs first full bs us wss bs' us')).
Qed.
Print Assumptions C09_flight_true_bytes_partial.

(** BuildFlight of either in-tree flight builder succeeded AND validateInitialFlight (modelled
    with clienthellod.ReadAllFrames over a bytes.Reader) accepted the serialised datagrams under
    any budgets: then every byte of the CRYPTO stream is carried by a CRYPTO frame of some
    datagram, and that frame holds the stream's own bytes at its absolute offset — the
    ClientHello is complete across the datagrams of the flight. (If validation fails the packer
    returns the error and sends nothing: planInitialFlight, not modelled here.) *)
Theorem C09_flight_validated_complete : forall full budgets,
  zlen full <= 2 ^ 48 ->
  (forall dgs first wss, flight_frames dgs first full = Ok wss ->
     validate (map encode wss) budgets (zlen full) = 0 ->
     forall j, 0 <= j < zlen full ->
       exists ws o d, In ws wss /\ In (o, d) (wcryptos ws) /\ o <= j < o + zlen d /\ true_frame full (o, d))
  /\ (forall dgs first bs us wss bs' us', rff_build dgs first full bs us = Ok (wss, bs', us') ->
     validate (map encode wss) budgets (zlen full) = 0 ->
     forall j, 0 <= j < zlen full ->
       exists ws o d, In ws wss /\ In (o, d) (wcryptos ws) /\ o <= j < o + zlen d /\ true_frame full (o, d)).
Proof. exact flight_validated_complete. Qed.
Print Assumptions C09_flight_validated_complete.

Example C09_flight_validated_nonvacuous :
  exists wss, flight_frames [[FCrypto (-2) 0; FPing]; [FPad 3; FCrypto 0 (-2)]] false [11; 12; 13; 14; 15] = Ok wss
              /\ validate (map encode wss) [0] 5 = 0.
Proof. exact flight_validated_example. Qed.
Print Assumptions C09_flight_validated_nonvacuous.

(** findSNIAndECH is total (one of three classes on every byte string) and, when it reports
    success, the input is exactly one handshake message of type ClientHello and the reported
    host-name range and ECH extension lie inside the input ([sni_ok]). *)
Theorem C09_sni_total : forall d,
  bytes_ok d ->
  (sCls (find_sni_ech d) = 0 \/ sCls (find_sni_ech d) = 1 \/ sCls (find_sni_ech d) = 2) /\
  (sCls (find_sni_ech d) = 0 ->
   4 <= zlen d /\ zlen d = 4 + hl3 d /\ byte_at d 0 = 1
   /\ sni_ok (zlen d) (sPos (find_sni_ech d)) (sLen (find_sni_ech d)) (ePos (find_sni_ech d))).
Proof. exact (fun d H => conj (find_sni_ech_cls d) (find_sni_ech_spec d H)). Qed.
Print Assumptions C09_sni_total.

(** The client's Initial crypto stream, scrambler on or off, for EVERY interleaving of non-empty
    writes and PopCryptoFrame calls with any budgets: no panic; every popped frame lies inside
    the written stream and carries its bytes at its offset (overlapping cuts included); and
    when HasData reports false, either nothing was popped yet and the stream still waits for
    cuts[0] (scramble on; by C09_scrambler_complete_hello_offered that ends with the write that
    completes the ClientHello), or every byte written so far has been sent. *)
Theorem C09_scrambler_exact : forall sc ops,
  Forall op_ok ops ->
  match run (init sc) [] [] ops with
  | Ok (s, W, fs) =>
    Forall (true_frame W) fs /\
    (has_data s = false ->
     (scr s = true /\ wo s = 0 /\ c0s s = Inv) \/ (forall i, 0 <= i < zlen W -> ProofsScram.covers fs i))
  | _ => False
  end.
Proof. exact stream_exact. Qed.
Print Assumptions C09_scrambler_exact.

Example C09_scrambler_exact_nonvacuous : Forall op_ok [SWrite ch_ech_no_sni; SPop 1200; SWrite [1; 2]; SPop 3].
Proof. exact ops_example. Qed.
Print Assumptions C09_scrambler_exact_nonvacuous.

(** The default splitter (scrambling off, as whenever a QUICSpec is in force): HasData false
    always means that everything written has been sent, at true offsets. *)
Theorem C09_default_splitter : forall ops,
  Forall op_ok ops ->
  match run (init false) [] [] ops with
  | Ok (s, W, fs) =>
    Forall (true_frame W) fs /\ (has_data s = false -> forall i, 0 <= i < zlen W -> ProofsScram.covers fs i)
  | _ => False
  end.
Proof. exact default_splitter_exact. Qed.
Print Assumptions C09_default_splitter.

(** Once the write that completes a ClientHello has happened on a stream still waiting for it
    (scramble on, nothing popped, no cut computed — the state every sequence of incomplete
    writes leaves), Write reports no error and HasData is true, whatever extensions the
    ClientHello has.  This was REFUTED before the repair fixes/C09-scrambler-ech-without-sni
    (ECH without SNI: HasData stayed false for ever). *)
Theorem C09_scrambler_complete_hello_offered : forall W e a1 b1 p,
  bytes_ok (W ++ p) -> sCls (find_sni_ech (W ++ p)) = 0 ->
  snd (write (mkS W 0 true e Inv a1 Inv b1) p) = 0 /\
  has_data (fst (write (mkS W 0 true e Inv a1 Inv b1) p)) = true.
Proof. exact complete_hello_offered. Qed.
Print Assumptions C09_scrambler_complete_hello_offered.

(** The same for every WHOLE handshake message, parsable by findSNIAndECH or not: the write that
    completes it on a waiting stream either makes Write return an error or makes HasData true —
    no complete ClientHello is silently kept back.  REFUTED before the repair
    fixes/C09-scrambler-unparsable-complete-hello (a complete message answered with
    io.ErrUnexpectedEOF — an SNI extension with an empty body, one byte behind the message — was
    never sent and nothing reported why; known finding scrambler/never-sent/unparsable-complete-hello). *)
Theorem C09_scrambler_complete_message_offered : forall W a1 b1 p,
  bytes_ok (W ++ p) -> message_complete (W ++ p) = true ->
  snd (write (mkS W 0 true 0 Inv a1 Inv b1) p) = 2 \/
  has_data (fst (write (mkS W 0 true 0 Inv a1 Inv b1) p)) = true.
Proof. exact complete_message_offered. Qed.
Print Assumptions C09_scrambler_complete_message_offered.

(** Regression: the audit's two witnesses (class 1 although complete) are now sent whole. *)
Example C09_scrambler_unparsable_complete_regression :
  sCls (find_sni_ech ch_sni_empty_ext) = 1 /\ sCls (find_sni_ech (ch_ech_no_sni ++ [22])) = 1 /\
  (exists s W fs, run (init true) [] [] [SWrite ch_sni_empty_ext; SPop 1200] = Ok (s, W, fs)
     /\ has_data s = false /\ fs = [(0, ch_sni_empty_ext)]) /\
  (exists s W fs, run (init true) [] [] [SWrite (ch_ech_no_sni ++ [22]); SPop 1200] = Ok (s, W, fs)
     /\ has_data s = false /\ fs = [(0, ch_ech_no_sni ++ [22])]).
Proof. exact unparsable_complete_now_sent. Qed.
Print Assumptions C09_scrambler_unparsable_complete_regression.

(** No wedge: in every state reachable by writes and pops ([sinv] is the invariant of
    C09_scrambler_exact's proof, established by [init] and preserved by every op), while HasData
    is true a PopCryptoFrame with a budget of at least 11 bytes either yields a frame or leaves
    a stream whose HasData is false.  This was REFUTED before the repair
    fixes/C09-scrambler-empty-cut (an empty cut made PopCryptoFrame return nil for ever). *)
Theorem C09_scrambler_no_wedge : forall W fs s m,
  sinv W fs s -> has_data s = true -> 11 <= m ->
  match pop s m with
  | Ok (s', Some _) => True
  | Ok (s', None) => has_data s' = false
  | _ => False
  end.
Proof. exact no_wedge. Qed.
Print Assumptions C09_scrambler_no_wedge.

(** [sinv] holds initially and after every op sequence (so the theorem above applies to every
    reachable state). *)
Theorem C09_scrambler_invariant_reachable : forall sc ops,
  Forall op_ok ops ->
  match run (init sc) [] [] ops with
  | Ok (s, W, fs) => sinv W fs s
  | _ => False
  end.
Proof. exact (fun sc ops H => run_inv ops (init sc) [] [] (init_inv sc) (Forall_nil _) H). Qed.
Print Assumptions C09_scrambler_invariant_reachable.

(** Regression: the former counterexample (ClientHello with ECH and without SNI) is now offered
    and sent completely: the bytes before the ECH cut, then the deferred cut. *)
Example C09_scrambler_ech_without_sni_regression :
  exists s W fs, run (init true) [] [] [SWrite ch_ech_no_sni; SPop 1200; SPop 1200] = Ok (s, W, fs)
    /\ has_data (fst (write (init true) ch_ech_no_sni)) = true
    /\ has_data s = false /\ fs = [(0, firstn 48 ch_ech_no_sni); (48, skipn 48 ch_ech_no_sni)].
Proof. exact ech_without_sni_now_sent. Qed.
Print Assumptions C09_scrambler_ech_without_sni_regression.

(** Regression: the former counterexample (host_name of length 0) now drains, and what is
    written afterwards is sent at its offset. *)
Example C09_scrambler_empty_host_name_regression :
  exists s W fs, run (init true) [] [] [SWrite ch_empty_host; SPop 1200; SPop 1200; SWrite [9; 9]; SPop 1200] = Ok (s, W, fs)
    /\ has_data s = false /\ fs = [(0, ch_empty_host); (56, [9; 9])].
Proof. exact empty_host_name_now_drains. Qed.
Print Assumptions C09_scrambler_empty_host_name_regression.

(** validateInitialFlight on ARBITRARY payloads — whatever a custom QUICFlightFrameBuilder returns
    (bytes, each payload shorter than 2^48) and a non-empty budget list (flightBudgets never returns
    an empty one; with none the code indexes budgets[-1]): it never panics (result class -1), and when it
    accepts, every payload is a well-formed sequence of PADDING, PING and complete CRYPTO frames
    with one-byte frame types (the strict reader [strict_frames] parses it) whose CRYPTO frames
    cover every byte of the stream with data really present in the payload.  Both parts failed
    before the repair fixes/C09-validate-initial-flight-strict-frames. *)
Theorem C09_validate_sound : forall ps budgets n,
  budgets <> [] ->
  Forall (fun p => bytes_ok p /\ zlen p <= 2 ^ 48) ps ->
  validate ps budgets n <> -1 /\
  (validate ps budgets n = 0 ->
   exists wss, Forall2 (fun p ws => strict_frames (S (length p)) p = Some ws) ps wss /\
     forall j, 0 <= j < n -> exists ws o d, In ws wss /\ In (o, d) (wcryptos ws) /\ o <= j < o + zlen d).
Proof. exact validate_sound. Qed.
Print Assumptions C09_validate_sound.

(** Regression: the former counterexamples (truncated final CRYPTO frame, frame type 6 as a
    two-byte varint, CRYPTO frame announcing 2^61 bytes) are rejected as "does not parse". *)
Example C09_validate_rejects_former_witnesses :
  validate [[6; 0; 20; 65; 66; 67; 68; 69; 70; 71; 72]] [0] 20 = 3 /\
  validate [[64; 6; 0; 20] ++ repeat 65 20] [0] 20 = 3 /\
  validate [[6; 0; 224; 0; 0; 0; 0; 0; 0; 0]] [0] 20 = 3.
Proof. exact validate_rejects_former_witnesses. Qed.
Print Assumptions C09_validate_rejects_former_witnesses.

(** * Round 3: the whole flight on the wire, and every retransmission

    Composition of C09's builder theorems with C10's model of the first flight
    ([UPacker.Model.flight]: which CRYPTO frames the packer pops for each datagram, unit
    `upacker`) and C02's model of the Initial retransmission bookkeeping ([UDial.Retx.rrun]:
    losses, acknowledgements, packing calls, and [marshal_path]: sent as packed or re-framed by
    the builder, unit `udial`), through [UFrames.OnWire.marshal] — what
    uPacketPacker.MarshalInitialPacketPayload puts into one packet for each in-tree builder kind
    (unit `uwire` replays it on the real packer, whole flights and retransmissions).

    Reading guide.  [sb]: the spec's FrameBuilder (pass-through / non-empty QUICFrames /
    QUICRandomFrames or QUICMultiDatagramFrames / a flight builder).  [packet_exact hello fs ws]:
    the CRYPTO frames of packet [ws] lie inside the ClientHello, carry its bytes at their absolute
    offsets, and cover exactly the ranges [fs] the packer took for the packet; PADDING lengths are
    non-negative.  Hypotheses that remain ([sb_ok]): a pass-through spec needs
    |hello| <= 65535 (QUICFrames.build searches the lowest offset from math.MaxUint16); a
    non-empty QUICFrames layout must tile every slice it fits ([layout_fits] = the packer's
    quicFramesLayoutFits; a layout that fits but does not tile holds bytes back — outside the
    property's quantifier, C09_quicframes_tiling); random builders have parameters in their
    fields' ranges.  |hello| <= 2^62-1 throughout (2^48 for planned flights).

    I.   First flight, per-datagram builders, for every packer configuration [c] and payload
         length oracle [plens] of C10's flight model: the frames popped for the datagrams are, in
         order, a chain of non-empty ranges from 0 inside the hello, so the datagrams' CRYPTO
         frames partition [0,E), E = bytes popped; and E = |hello| — the flight carries the WHOLE
         ClientHello, across however many datagrams it takes — whenever no datagram of the
         flight failed ([no_dgerr]: no builder/oracle error, no packet-buffer overflow; C10's
         DGErr 98 "out of fuel" never occurs: C10_flight_fuel_sufficient) and every datagram has
         room for one CRYPTO byte ([room]: the budget PackCoalescedPacket computes minus the
         header leaves a minimal CRYPTO frame; what C10's dial-time validation of PacketSize
         provides).  Remaining model cap: C10's popLoop pops at most 4 CRYPTO frames per datagram
         (the packer's loop has no such bound; a datagram then simply carries less).  Each datagram is [packet_exact] for every datagram index and both
         oracles, never panics, and can only fail for a random builder — after the dial accepted
         the builder ([dial_check], the repair C09-validate-random-frames-at-dial) only by the
         randomness source's own failure.
    II.  First flight planned by a flight builder and accepted by validateInitialFlight: complete,
         true bytes (C09_flight_validated_complete), and the ranges registered for loss recovery
         lie inside the hello.  A rejected plan sends nothing (C10: flightPlanned yields [DGErr 2]).
    III. Every history of losses, acknowledgements and packing calls after a first flight whose
         registered ranges lie in the hello and cover [0,n): every byte stays acknowledged,
         outstanding or queued (C02_initial_retx_complete; that no bookkeeping step errs holds by
         construction of C02's model and is not restated), and every packet
         the history produces is [packet_exact] for the ranges it took — whatever the datagram
         index, the PING flag and both oracles. *)
Theorem C09_flight_on_wire_complete : forall sb hello,
  zlen hello <= maxVarInt8 -> sb_ok hello sb ->
  (forall c plens, c_bk c <> BFlight ->
     let fss := map dg_frames (flight c (zlen hello) plens) in
     let E := total_len (concat fss) in
     rchain 0 (concat fss) /\ Forall range_pos (concat fss) /\ Forall (range_in hello) (concat fss) /\ E <= zlen hello /\
     (no_dgerr (flight c (zlen hello) plens) -> room c -> E = zlen hello) /\
     (forall b, covers b (concat fss) <-> 0 <= b < E) /\
     (forall fs idx bs us, In fs fss -> 0 <= idx ->
        match marshal sb hello false idx fs false bs us with
        | Ok (ws, _, _) => packet_exact hello fs ws
        | Err c => exists specs, sb = SBRandom specs /\ (dial_check sb = Ok tt -> c = 6 \/ c = 90)
        | Panic => False
        end)) /\
  (zlen hello <= 2 ^ 48 -> forall budgets wss,
     ((exists dgs first, flight_frames dgs first hello = Ok wss) \/
      (exists dgs first bs us bs' us', rff_build dgs first hello bs us = Ok (wss, bs', us'))) ->
     validate (map encode wss) budgets (zlen hello) = 0 ->
     (forall j, 0 <= j < zlen hello ->
        exists ws o d, In ws wss /\ In (o, d) (wcryptos ws) /\ o <= j < o + zlen d /\ true_frame hello (o, d)) /\
     Forall (fun ws => Forall (true_frame hello) (wcryptos ws) /\ wpads_ok ws) wss /\
     Forall (rok hello false) (flat_map wpairs wss)) /\
  (forall planned flight0 n ops st' rs,
     Forall (rok hello (negb (planned || is_flight sb))) (flat_map snd flight0) ->
     (forall b, 0 <= b < n -> covers b (flat_map snd flight0)) ->
     rrun planned (layout_of sb) (RS flight0 [] []) ops = Some (st', rs) ->
     (forall b, 0 <= b < n -> covers b (all_ranges st')) /\
     (forall pn popped, In (RPkt pn popped) rs -> forall idx ping bs us, 0 <= idx ->
        match marshal sb hello planned idx popped ping bs us with
        | Ok (ws, _, _) => packet_exact hello popped ws
        | Err c => exists specs, sb = SBRandom specs /\ (dial_check sb = Ok tt -> c = 6 \/ c = 90)
        | Panic => False
        end)).
Proof. exact flight_on_wire_complete. Qed.
Print Assumptions C09_flight_on_wire_complete.

(** One packet, as a statement of its own (the building block of the theorem above). *)
Theorem C09_packet_on_wire_exact : forall sb hello planned idx frames ping bs us,
  zlen hello <= maxVarInt8 -> sb_ok hello sb -> 0 <= idx ->
  Forall (range_in hello) frames -> (planned || is_flight sb = false -> Forall range_pos frames) ->
  match marshal sb hello planned idx frames ping bs us with
  | Ok (ws, _, _) => packet_exact hello frames ws
  | Err c => exists specs, sb = SBRandom specs
  | Panic => False
  end.
Proof. exact marshal_exact. Qed.
Print Assumptions C09_packet_on_wire_exact.

(** A randomizing builder the dial accepted can no longer fail with a configuration error in the
    middle of the flight (REFUTED before fixes/C09-validate-random-frames-at-dial: a
    QUICMultiDatagramFrames with inverted bounds in its second entry failed after the first
    datagram was on the wire — known finding uwire/late-config-error). *)
Theorem C09_config_errors_only_at_dial : forall specs idx data base bs us c,
  dial_check (SBRandom specs) = Ok tt -> Forall rf_wf specs -> 0 <= idx -> 0 <= base -> base + zlen data <= maxVarInt8 ->
  md_build specs idx data base bs us = Err c -> c = 6 \/ c = 90.
Proof. exact accepted_builder_only_oracle_errors. Qed.
Print Assumptions C09_config_errors_only_at_dial.

Example C09_config_error_regression :
  dial_check (SBRandom [mkRF 0 2 1 3 0 0 0; mkRF 3 1 1 3 0 0 0]) = Err 1.
Proof. exact eq_refl. Qed.
Print Assumptions C09_config_error_regression.

(** Non-vacuity: a two-datagram flight of a QUICMultiDatagramFrames under concrete oracles: the
    hypotheses hold, the dial accepts, both datagrams are built, the second is exactly Length. *)
Example C09_flight_on_wire_nonvacuous :
  sb_ok ow_hello (SBRandom ow_specs) /\ dial_check (SBRandom ow_specs) = Ok tt /\
  match marshal (SBRandom ow_specs) ow_hello false 0 [(0, 40)] false ow_bs ow_us with
  | Ok (ws1, b1, u1) =>
    match marshal (SBRandom ow_specs) ow_hello false 1 [(40, 20)] false b1 u1 with
    | Ok (ws2, _, _) => zlen (encode ws2) = 80
    | _ => False
    end
  | _ => False
  end.
Proof. exact flight_on_wire_example. Qed.
Print Assumptions C09_flight_on_wire_nonvacuous.

(** * Round 4: planInitialFlight, and retransmission until the queue is empty

    [plan_flight] = uPacketPacker.planInitialFlight on a fully queued ClientHello (BuildFlight of
    QUICFlightFrames / QUICRandomFlightFrames with the budgets of flightBudgets, then
    validateInitialFlight); [flight_sent] = the datagrams packPlannedInitial then sends.  Both are
    replayed through the real packer by unit `uwire` (PlanCase: fixed table of overlapping,
    from-the-end and holed plans, and generated ones).

    For EVERY in-range plan ([fb_ok]: non-negative PADDING lengths / QUICRandomFrames fields in
    range) — overlapping ranges, ranges addressed from the end, randomised cuts —, every
    ClientHello, every non-empty budget list and both oracles: planInitialFlight never panics,
    and an accepted plan consists of datagrams whose frames lie inside the ClientHello, carry its
    bytes at absolute offsets, and whose CRYPTO ranges have exactly the union [0, |hello|).
    (That a REJECTED plan sends nothing is not a theorem: [flight_sent] returns [] then by its
    definition — see C09_flight_sent_by_construction; the behaviour is carried by the PlanCase
    replay through the real packer and the monitor uwire/plan/sent-although-rejected.) *)
Theorem C09_planned_flight_complete : forall fb hello budgets bs us,
  fb_ok fb -> zlen hello <= 2 ^ 48 -> budgets <> [] ->
  match plan_flight fb hello budgets bs us with
  | Ok (wss, _, _) =>
    Forall (frame_in hello) wss /\
    (forall j, (exists ws o d, In ws wss /\ In (o, d) (wcryptos ws) /\ o <= j < o + zlen d) <-> 0 <= j < zlen hello)
  | Err _ => True
  | Panic => False
  end.
Proof. exact plan_flight_sound. Qed.
Print Assumptions C09_planned_flight_complete.

Example C09_planned_flight_nonvacuous :
  fb_ok (FBRandom [([(-3, 0); (0, 2)], mkRF 0 2 1 3 0 0 0); ([(2, -3)], mkRF 0 0 0 0 0 0 0)]) /\
  fb_ok (FBFrames [[FCrypto (-3) 0; FPad 2]; [FCrypto 0 (-3); FPing]]).
Proof. exact fb_ok_example. Qed.
Print Assumptions C09_planned_flight_nonvacuous.

(** By construction of [flight_sent] (the model of what packPlannedInitial sends): the planned
    datagrams when the plan was accepted, nothing otherwise.  Tied to the code by replay only. *)
Theorem C09_flight_sent_by_construction : forall fb hello budgets bs us,
  zlen hello <= 2 ^ 48 ->
  match plan_flight fb hello budgets bs us with
  | Ok (wss, _, _) =>
    flight_sent fb hello budgets bs us = wss /\
    Forall (frame_in hello) wss /\
    (forall j, (exists ws o d, In ws wss /\ In (o, d) (wcryptos ws) /\ o <= j < o + zlen d) <-> 0 <= j < zlen hello)
  | _ => flight_sent fb hello budgets bs us = []
  end.
Proof. exact plan_flight_complete. Qed.
Print Assumptions C09_flight_sent_by_construction.

(** The plan shape of seeded change C09-e (two bytes sent twice, a later byte never) is rejected
    and sends nothing; with the hole closed the overlapping plan is accepted. *)
Example C09_planned_flight_examples :
  plan_flight (FBFrames [[FCrypto (-3) 0; FCrypto 0 2]; [FCrypto 0 5]; [FCrypto 6 (-3)]]) pl_hello [0] [] [] = Err 105 /\
  flight_sent (FBFrames [[FCrypto (-3) 0; FCrypto 0 2]; [FCrypto 0 5]; [FCrypto 6 (-3)]]) pl_hello [0] [] [] = [] /\
  (exists wss, plan_flight (FBFrames [[FCrypto (-3) 0; FCrypto 0 2]; [FCrypto 0 5]; [FCrypto 5 (-3)]]) pl_hello [0] [] [] = Ok (wss, [], [])
               /\ length wss = 3%nat).
Proof. exact plan_flight_examples. Qed.
Print Assumptions C09_planned_flight_examples.

(** QUICFlightFrames (Build and BuildFlight) never panics when its PADDING lengths are
    non-negative, whatever the ranges. *)
Theorem C09_flight_frames_no_panic : forall dgs first full,
  Forall pads_ok dgs -> flight_frames dgs first full <> Panic.
Proof. exact flight_frames_nopanic. Qed.
Print Assumptions C09_flight_frames_no_panic.

(** Retransmission after loss preserves completeness: after ANY history of losses,
    acknowledgements and packing calls, once the retransmission queue is empty every byte the
    first flight carried is acknowledged or in an outstanding packet (whose wire content is exact
    by C09_flight_on_wire_complete, part III). *)
Theorem C09_retx_drained_complete : forall planned layout flight0 n ops st' rs,
  (forall b, 0 <= b < n -> covers b (flat_map snd flight0)) ->
  rrun planned layout (RS flight0 [] []) ops = Some (st', rs) ->
  rQueue st' = [] ->
  forall b, 0 <= b < n -> covers b (rAcked st') \/ exists pn fs, In (pn, fs) (rOut st') /\ covers b fs.
Proof. exact retx_drained_complete. Qed.
Print Assumptions C09_retx_drained_complete.

(** Non-vacuity of the drain clause of C09_flight_on_wire_complete (part I): a nil-builder
    configuration has [room], and a 5000-byte ClientHello goes out in five datagrams without
    error, all 5000 bytes popped. *)
Example C09_flight_drains_nonvacuous :
  room dr_cfg /\ no_dgerr (flight dr_cfg 5000 []) /\
  length (flight dr_cfg 5000 []) = 5%nat /\
  total_len (concat (map dg_frames (flight dr_cfg 5000 []))) = 5000.
Proof. exact dr_example. Qed.
Print Assumptions C09_flight_drains_nonvacuous.

(** QUICRandomFlightFrames never panics for parameters in range (QUICFlightFrames:
    C09_flight_frames_no_panic), whatever the ranges and both oracles. *)
Theorem C09_random_flight_no_panic : forall fb hello bs us,
  fb_ok fb -> zlen hello < 2 ^ 62 -> build_flight fb hello bs us <> Panic.
Proof. exact build_flight_nopanic. Qed.
Print Assumptions C09_random_flight_no_panic.
