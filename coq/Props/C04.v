(** C04 — flow control: senders stay within advertised credit, receivers enforce it.
    Only statements live here; each is closed by [exact] of a lemma proved in FlowCtl/.

    Vocabulary (FlowCtl/Model.v, FlowCtl/ProofsInv.v):
      [sys]    one connection flow controller + the list of stream flow controllers (all ten
               counters of baseFlowController each), [step] = one call of the Go interface;
      [ghost]  the specification state an observer computes from call arguments and return
               values ONLY: per stream the bytes passed to AddBytesSent ([g_sent]), the largest send
               limit ever given ([g_maxsend]), the limits at which IsNewlyBlocked said true
               ([g_blocked]), the receive limit last advertised ([g_adv]: initial window, then every
               non-zero GetWindowUpdate), the highest accepted offset ([g_recv]), whether a final
               size was accepted ([g_final]), bytes consumed or abandoned ([g_credit]); the same
               per connection ([gc_*]);
      [reach cw cmax s g]  (s, g) is reached from a fresh connection controller by ANY sequence
               of calls that respects the caller discipline [op_ok] (send at most
               SendWindowSize(), read at most what was received, valid stream handles, positive
               initial windows) and in which no UpdateHighestReceived has failed yet (a failure
               closes the connection).  Window auto-tuning's float decision, the RTT, the clock
               and the allowWindowIncrease callback are arbitrary arguments of the ops. *)
From Coq Require Import List ZArith.
From V Require Import Gen.Params FlowCtl.Model FlowCtl.ProofsBase FlowCtl.ProofsInv FlowCtl.Proofs FlowCtl.ProofsWeak.
Import ListNotations.
Open Scope Z_scope.

(** The error classes are the RFC 9000 codes. *)
Theorem C04_error_codes : fcErrFlowControl = 3 /\ fcErrFinalSize = 6.
Proof. split; reflexivity. Qed.
Print Assumptions C04_error_codes.

(** (a) Every stream has sent at most the largest stream limit ever given, all streams together
    at most the largest connection limit ever given (MAX_* updates may be reordered or
    duplicated: only the maximum counts); and these are the counters the code consults. *)
Theorem C04_send_within_credit : forall cw cmax s g, 0 < cw -> reach cw cmax s g ->
  Forall (fun x => 0 <= g_sent x <= g_maxsend x) (gs g) /\
  sumf g_sent (gs g) <= gc_maxsend g /\
  Forall2 (fun st x => bytesSent (sb st) = g_sent x /\ sendWindow (sb st) = g_maxsend x) (streams s) (gs g) /\
  bytesSent (conn s) = sumf g_sent (gs g) /\ sendWindow (conn s) = gc_maxsend g.
Proof. exact send_within_credit. Qed.
Print Assumptions C04_send_within_credit.

(** SendWindowSize() returns exactly the remaining credit, min over stream and connection. *)
Theorem C04_send_window_exact : forall cw cmax s g i x, 0 < cw -> reach cw cmax s g ->
  valid_index s i -> nth_error (gs g) (Z.to_nat i) = Some x ->
  snd (step s (SSendWin i)) =
    (Z.min (g_maxsend x - g_sent x) (gc_maxsend g - sumf g_sent (gs g)), 0).
Proof. exact send_window_exact. Qed.
Print Assumptions C04_send_window_exact.

(** (b) IsNewlyBlocked answers true at most once per limit, on streams and on the connection,
    and only when the credit is really used up (the connection reports the limit itself). *)
Theorem C04_blocked_once : forall cw cmax s g, 0 < cw -> reach cw cmax s g ->
  Forall (fun x => NoDup (g_blocked x)) (gs g) /\ NoDup (gc_blocked g).
Proof. exact blocked_once. Qed.
Print Assumptions C04_blocked_once.

Theorem C04_blocked_truthful_stream : forall cw cmax s g i x, 0 < cw -> reach cw cmax s g ->
  valid_index s i -> nth_error (gs g) (Z.to_nat i) = Some x ->
  fst (snd (step s (SBlocked i))) = 1 -> g_sent x = g_maxsend x.
Proof. exact blocked_truthful_stream. Qed.
Print Assumptions C04_blocked_truthful_stream.

Theorem C04_blocked_truthful_conn : forall cw cmax s g, 0 < cw -> reach cw cmax s g ->
  fst (snd (step s CBlocked)) = 1 ->
  snd (snd (step s CBlocked)) = gc_maxsend g /\ sumf g_sent (gs g) = gc_maxsend g.
Proof. exact blocked_truthful_conn. Qed.
Print Assumptions C04_blocked_truthful_conn.

(** (c) UpdateHighestReceived answers exactly [spec_recv], a function of what was advertised
    and accepted so far: FINAL_SIZE_ERROR for an inconsistent final size, otherwise
    FLOW_CONTROL_ERROR iff the offset is beyond the last advertised stream limit or pushes the
    connection total beyond the last advertised connection limit, otherwise success. *)
Theorem C04_recv_enforces_advertised : forall cw cmax s g i x off final now, 0 < cw -> reach cw cmax s g ->
  valid_index s i -> nth_error (gs g) (Z.to_nat i) = Some x ->
  snd (step s (SRecv i off final now)) = (spec_recv g x off final, 0).
Proof. exact recv_enforces_advertised. Qed.
Print Assumptions C04_recv_enforces_advertised.

Theorem C04_recv_cases : forall g x off final,
  (spec_recv g x off final = fcErrFinalSize <-> final_size_violation x off final) /\
  (spec_recv g x off final = fcErrFlowControl <->
     ~ final_size_violation x off final /\ beyond_advertised g x off) /\
  (spec_recv g x off final = 0 <->
     ~ final_size_violation x off final /\ ~ beyond_advertised g x off).
Proof. exact spec_recv_cases. Qed.
Print Assumptions C04_recv_cases.

(** (d) A non-zero GetWindowUpdate is strictly above the previous advertised limit, equals
    consumed + current window size, and becomes the enforced limit; the window size stays
    within max(initial, configured max) and never shrinks (the last for ALL histories). *)
Theorem C04_window_monotone : forall cw cmax s g i x now rtt fast al, 0 < cw -> reach cw cmax s g ->
  valid_index s i -> nth_error (gs g) (Z.to_nat i) = Some x ->
  let v := fst (snd (step s (SWinUpd i now rtt fast al))) in
  v <> 0 ->
  exists st', nth_error (streams (fst (step s (SWinUpd i now rtt fast al)))) (Z.to_nat i) = Some st' /\
    g_adv x < v /\
    v = g_credit x + receiveWindowSize (sb st') /\
    0 < receiveWindowSize (sb st') <= Z.max (g_initw x) (g_maxw x) /\
    receiveWindow (sb st') = v.
Proof. exact window_update_stream. Qed.
Print Assumptions C04_window_monotone.

Theorem C04_window_monotone_conn : forall cw cmax s g now rtt fast al, 0 < cw -> reach cw cmax s g ->
  let v := fst (snd (step s (CWinUpd now rtt fast al))) in
  let c' := conn (fst (step s (CWinUpd now rtt fast al))) in
  v <> 0 ->
  gc_adv g < v /\
  v = sumf g_credit (gs g) + receiveWindowSize c' /\
  0 < receiveWindowSize c' <= Z.max (gc_initw g) (gc_maxw g) /\
  receiveWindow c' = v.
Proof. exact window_update_conn. Qed.
Print Assumptions C04_window_monotone_conn.

Theorem C04_window_size_never_shrinks : forall s o, rws_le s (fst (step s o)).
Proof. exact window_size_never_shrinks. Qed.
Print Assumptions C04_window_size_never_shrinks.

(** (b) and the monotone part of (d) do not depend on the callers at all: [reach0] allows ANY
    sequence of calls (any arguments, invalid stream handles, sends beyond the window, reads
    beyond what was received, calls after errors), only initial receive windows must be
    positive and initial send limits non-negative. *)
Theorem C04_blocked_once_all : forall cw cmax s g, 0 < cw -> reach0 cw cmax s g ->
  Forall (fun x => NoDup (g_blocked x)) (gs g) /\ NoDup (gc_blocked g).
Proof. exact blocked_once_all. Qed.
Print Assumptions C04_blocked_once_all.

Theorem C04_window_increases_all : forall cw cmax s g i x now rtt fast al, 0 < cw -> reach0 cw cmax s g ->
  0 <= i -> nth_error (gs g) (Z.to_nat i) = Some x ->
  let v := fst (snd (step s (SWinUpd i now rtt fast al))) in
  v <> 0 ->
  g_adv x < v /\
  exists st', nth_error (streams (fst (step s (SWinUpd i now rtt fast al)))) (Z.to_nat i) = Some st' /\
              receiveWindow (sb st') = v.
Proof. exact window_increases_all_stream. Qed.
Print Assumptions C04_window_increases_all.

Theorem C04_window_increases_all_conn : forall cw cmax s g now rtt fast al, 0 < cw -> reach0 cw cmax s g ->
  let v := fst (snd (step s (CWinUpd now rtt fast al))) in
  v <> 0 ->
  gc_adv g < v /\ receiveWindow (conn (fst (step s (CWinUpd now rtt fast al)))) = v.
Proof. exact window_increases_all_conn. Qed.
Print Assumptions C04_window_increases_all_conn.

(** every disciplined history is a history (so C04_nonvacuous also witnesses [reach0]) *)
Theorem C04_reach_reach0 : forall cw cmax s g, reach cw cmax s g -> reach0 cw cmax s g.
Proof. exact reach_reach0. Qed.
Print Assumptions C04_reach_reach0.

(** (e) The connection's consumed counter is the sum over the streams of consumed-or-abandoned
    bytes, its received counter the sum of the streams' highest offsets; no stream is credited
    beyond what it received, nor receives beyond what was advertised. *)
Theorem C04_credit_conservation : forall cw cmax s g, 0 < cw -> reach cw cmax s g ->
  bytesRead (conn s) = sumf g_credit (gs g) /\
  highestReceived (conn s) = sumf g_recv (gs g) /\
  Forall (fun x => 0 <= g_credit x <= g_recv x /\ g_recv x <= g_adv x) (gs g) /\
  sumf g_recv (gs g) <= gc_adv g /\
  Forall2 (fun st x => bytesRead (sb st) = g_credit x /\ highestReceived (sb st) = g_recv x) (streams s) (gs g).
Proof. exact credit_conservation. Qed.
Print Assumptions C04_credit_conservation.

Theorem C04_final_size_fixed : forall cw cmax s g i x off final now, 0 < cw -> reach cw cmax s g ->
  valid_index s i -> nth_error (gs g) (Z.to_nat i) = Some x -> g_final x = true ->
  fst (snd (step s (SRecv i off final now))) = 0 -> Z.max (g_recv x) off = g_recv x.
Proof. exact final_size_fixed. Qed.
Print Assumptions C04_final_size_fixed.

(** Abandon (reset / CancelRead / early close) credits exactly the not-yet-consumed bytes
    [g_recv - g_credit] to the connection, once: afterwards the stream's consumed counter
    equals its highest (final) offset and the connection total is again the sum. *)
Theorem C04_completed_stream_fully_credited : forall cw cmax s g i x, 0 < cw -> reach cw cmax s g ->
  valid_index s i -> nth_error (gs g) (Z.to_nat i) = Some x ->
  let s' := fst (step s (SAbandon i)) in
  let g' := gstep g (SAbandon i) (snd (step s (SAbandon i))) in
  exists x' st',
    nth_error (gs g') (Z.to_nat i) = Some x' /\ nth_error (streams s') (Z.to_nat i) = Some st' /\
    g_recv x' = g_recv x /\ g_credit x' = g_recv x /\
    bytesRead (sb st') = g_recv x /\ highestReceived (sb st') = g_recv x /\
    bytesRead (conn s') = sumf g_credit (gs g') /\
    bytesRead (conn s') - bytesRead (conn s) = g_recv x - g_credit x.
Proof. exact completed_stream_fully_credited. Qed.
Print Assumptions C04_completed_stream_fully_credited.

(** Non-vacuity: the hypotheses are satisfiable by a history that exercises every clause. *)
Example C04_nonvacuous :
  exists s g, reach 12 24 s g /\
    snd (run (init_sys 12 24) ex_ops) =
      [(1, 0); (0, 0); (0, 0); (5, 0); (0, 0); (1, 0); (0, 0); (1, 0); (0, 0); (5, 0); (0, 0); (1, 10);
       (0, 0); (1, 0); (0, 0); (1, 1); (24, 12); (32, -1); (0, 0); (0, 0); (0, 0); (0, 0); (0, 0); (0, 0)] /\
    gc_blocked g = [10] /\ gc_maxsend g = 30 /\ gc_adv g = 32 /\
    map g_blocked (gs g) = [[5]; []] /\ map g_sent (gs g) = [5; 5] /\ map g_maxsend (gs g) = [20; 20] /\
    map g_adv (gs g) = [24; 8] /\ map g_recv (gs g) = [12; 3] /\ map g_credit (gs g) = [12; 3] /\
    map g_final (gs g) = [true; false] /\
    bytesRead (conn s) = 15 /\ receiveWindowSize (conn s) = 24.
Proof. exact example_reachable. Qed.
Print Assumptions C04_nonvacuous.

(** ** The receive-stream glue (repaired receive_stream.go, model FlowCtl/RecvModel.v).
    [rreach]: any history of handleStreamFrame / handleResetStreamFrame(_AT) / CancelRead / Read /
    getControlFrame calls on one receive stream in which no frame was answered with an error,
    Reads deliver only received bytes and report io.EOF only at the final offset, the
    cancellation error only once the cancellation is effective ([rop_ok]). *)
From V Require Import FlowCtl.RecvModel FlowCtl.RecvProofs.

(** Every completed receive stream (EOF read, reset, CancelRead): the final size is known, the
    stream controller has received and credited exactly that many bytes (consumed or abandoned)
    and so has the connection controller — in particular after CancelRead followed by a
    RESET_STREAM_AT whose reliable size lies beyond the read position (the repaired leak). *)
Theorem C04_completed_receive_stream_fully_credited : forall rw maxrw cw cmax s,
  rreach rw maxrw cw cmax s -> completed s = true ->
  exists f, finalOffset s = Some f /\
            bytesRead (sb (fc s)) = f /\ highestReceived (sb (fc s)) = f /\
            bytesRead (cn s) = f.
Proof. exact completed_fully_credited. Qed.
Print Assumptions C04_completed_receive_stream_fully_credited.

Theorem C04_completion_reported : forall rw maxrw cw cmax s,
  rreach rw maxrw cw cmax s -> finKnown s = true ->
  cancelledLocally s = true \/ errorRead s = true -> completed s = true.
Proof. exact completion_reported. Qed.
Print Assumptions C04_completion_reported.

(** getControlFrame never produces MAX_STREAM_DATA(0) (for ALL states). *)
Theorem C04_no_zero_max_stream_data : forall s now rtt fast allow,
  fst (fst (snd (rstep s (OCtrl now rtt fast allow)))) = 2 ->
  snd (fst (snd (rstep s (OCtrl now rtt fast allow)))) <> 0.
Proof. exact no_zero_max_stream_data. Qed.
Print Assumptions C04_no_zero_max_stream_data.

(** Regression example = the witness of the repaired defect: STREAM[0,3), Read 2, CancelRead,
    STOP_SENDING packed, RESET_STREAM_AT(final 8, reliable 6 > readPos 2), Read -> error.
    The history is legal, completes the stream, and all 8 bytes are credited (before the
    repair the flow controller stayed at 2). *)
Example C04_recv_regression :
  let s := fst (rrun (new_rstream 16 32 64 128) rex_ops) in
  rreach 16 32 64 128 s /\ completed s = true /\ finalOffset s = Some 8 /\
  bytesRead (sb (fc s)) = 8 /\ bytesRead (cn s) = 8 /\ readPos s = 2 /\
  snd (rrun (new_rstream 16 32 64 128) rex_ops) =
    [(0, 0, 0); (0, 0, 1); (1, 0, 0); (1, 0, 0); (0, 1, 0); (0, 0, 1)].
Proof. exact recv_example. Qed.
Print Assumptions C04_recv_regression.

(** ** The sender half of the glue (round 3): k send streams (the C01 model SendStream/Model.v of
    send_stream.go, with its stream flow controller) sharing one connection flow controller of
    the FlowCtl model, plus the framer's DATA_BLOCKED check — FlowCtl/SendGlue.v.
    [grun_state ginit ops]: ANY sequence of stream creations (initial limit >= 0), entry points
    of any stream (Write, writer wake-up, Close, popStreamFrame with any budget, OnAcked/OnLost of
    any frame in flight, CancelWrite, STOP_SENDING, getControlFrame, RESET acked/lost,
    MAX_STREAM_DATA, SetReliableBoundary, enableResetStreamAt, closeForShutdown), MAX_DATA frames
    and framer checks, in any interleaving. *)
From V Require Import Lib.Hex SendStream.Model SendStream.ProofsInv FlowCtl.SendGlue FlowCtl.SendGlueProofs.

(** the flow-controller code inlined in the C01 model is the FlowCtl model *)
Theorem C04_sender_fc_refines : forall s,
  fcSendWindow s = b_sendWindowSize (fc_base s) /\
  (forall lb, ccSendWindow s = b_sendWindowSize (cc_base s lb)) /\
  (forall lb, sendWindowSize s = Z.min (b_sendWindowSize (fc_base s)) (b_sendWindowSize (cc_base s lb))) /\
  fc_base (fst (isNewlyBlocked s)) = fst (b_isNewlyBlocked (fc_base s)) /\
  snd (isNewlyBlocked s) = fst (snd (b_isNewlyBlocked (fc_base s))) /\
  (forall n, fc_base (addBytesSent n s) = b_addBytesSent (fc_base s) n) /\
  (forall n lb, cc_base (addBytesSent n s) lb = b_addBytesSent (cc_base s lb) n) /\
  (forall l, fc_base (fst (do_win l s)) = fst (b_updateSendWindow (fc_base s) l)).
Proof. exact fc_refines. Qed.
Print Assumptions C04_sender_fc_refines.

(** (a) for every history — for STREAM frames only: the final size announced by a RESET_STREAM_AT is
    NOT covered by this or any other theorem (open finding reset-final-size-beyond-*-limit) —
    per stream, the payload of all first transmissions = writeOffset = what
    the stream controller counted, and it is within the stream's send limit; summed over the
    streams it is what the connection controller counted, within the connection's send limit. *)
Theorem C04_sender_glue_within_credit : forall ops, Forall gop_ok ops ->
  let g := grun_state ginit ops in
  Forall (fun s => sumlen (emittedNew s) = writeOffset s /\ fcSent s = writeOffset s /\
                   0 <= writeOffset s <= fcWindow s) (strs g) /\
  sumf fWO (strs g) = bytesSent (gcn g) /\ bytesSent (gcn g) <= sendWindow (gcn g).
Proof. exact sender_glue_within_credit. Qed.
Print Assumptions C04_sender_glue_within_credit.

(** ... and those limits are limits the peer gave: a send window only ever changes to the value of
    a MAX_STREAM_DATA / MAX_DATA frame, upwards (so it is the largest limit ever advertised). *)
Theorem C04_sender_glue_limits_advertised : forall g o,
  let g' := fst (gstep g o) in
  (sendWindow (gcn g') = sendWindow (gcn g) \/
   exists l, o = GConnWin l /\ sendWindow (gcn g') = l /\ l > sendWindow (gcn g)) /\
  forall i s s', nth_error (strs g) i = Some s -> nth_error (strs g') i = Some s' ->
    fcWindow s' = fcWindow s \/ exists l, o = GStream i (OWin l) /\ fcWindow s' = l /\ l > fcWindow s.
Proof. exact gstep_limits. Qed.
Print Assumptions C04_sender_glue_limits_advertised.

(** retransmissions add nothing: every frame any popStreamFrame ever returned (first transmission,
    retransmission, split or truncated piece) ends at or below the stream's write offset —
    for every history (C01's historic [late] flag is provably never set: step_late_eq). *)
Theorem C04_sender_glue_retransmissions_add_nothing : forall ops,
  let g := grun_state ginit ops in
  Forall (fun s => Forall (fun f => f_end f <= writeOffset s) (emitted s)) (strs g).
Proof. exact sender_glue_frames_within_credit. Qed.
Print Assumptions C04_sender_glue_retransmissions_add_nothing.

(** (b) the log of all STREAM_DATA_BLOCKED (stream, value) and of all DATA_BLOCKED values ever
    produced has no duplicates; a STREAM_DATA_BLOCKED carries the stream's limit and is only
    produced when the limit is used up. *)
Theorem C04_sender_glue_blocked_once : forall ops, Forall gop_ok ops ->
  let g := grun_state ginit ops in NoDup (sdb g) /\ NoDup (db g).
Proof. exact sender_glue_blocked_once. Qed.
Print Assumptions C04_sender_glue_blocked_once.

Theorem C04_sender_glue_blocked_truthful : forall g i o v,
  GI g -> o_blocked (match snd (gstep g (GStream i o)) with Some x => x | None => out0 end) = Some v ->
  exists s', nth_error (strs (fst (gstep g (GStream i o)))) i = Some s' /\
             v = fcWindow s' /\ writeOffset s' = fcWindow s'.
Proof. exact sender_glue_blocked_truthful. Qed.
Print Assumptions C04_sender_glue_blocked_truthful.

Example C04_sender_glue_example :
  let g := grun_state ginit gex_ops in
  map writeOffset (strs g) = [5; 2] /\ map fcWindow (strs g) = [5; 10] /\
  bytesSent (gcn g) = 7 /\ sendWindow (gcn g) = 7 /\ sdb g = [(0%nat, 4); (0%nat, 5)] /\ db g = [6] /\
  map (fun s => map (fun f => (f_off f, zlen (f_data f))) (emitted s)) (strs g) = [[(0, 4); (0, 4); (4, 1)]; [(0, 2)]] /\
  Forall lateF (strs g).
Proof. exact sender_example. Qed.
Print Assumptions C04_sender_glue_example.

(** ** The connection glue (round 4): which transport parameter becomes a stream's send window —
    model FlowCtl/ConnGlue.v of connection.go (restoreTransportParameters, handleTransportParameters,
    applyTransportParameters, newFlowController, handleFrame MAX_DATA / MAX_STREAM_DATA,
    dropEncryptionLevel(0-RTT)) + streams_map.go HandleTransportParameters, tied to the code by the
    connglue unit on a real constructed Conn. *)
From V Require Import FlowCtl.ConnGlue FlowCtl.ConnGlueProofs.

(** RFC 9000, 18.2, for both perspectives: a stream WE initiate starts with the peer's
    initial_max_stream_data_bidi_remote (unidirectional: _uni), a bidirectional stream the PEER
    initiates with the peer's initial_max_stream_data_bidi_local. *)
Theorem C04_initial_send_window_rfc_table : forall p n,
  init_send_window true (4 * n) p = tp_br p /\
  init_send_window true (4 * n + 1) p = tp_bl p /\
  init_send_window true (4 * n + 2) p = tp_uni p /\
  init_send_window false (4 * n + 1) p = tp_br p /\
  init_send_window false (4 * n) p = tp_bl p /\
  init_send_window false (4 * n + 3) p = tp_uni p.
Proof. exact init_send_window_rfc_table. Qed.
Print Assumptions C04_initial_send_window_rfc_table.

(** (SendGlue's streams are created with an arbitrary initial limit [swin >= 0]; instantiating it
    with [init_send_window] makes C04_sender_glue_within_credit a bound by the class limit until a
    MAX_STREAM_DATA raises it — [fcWindow (init sid rsa swin cw) = swin] holds by definition.) *)

(** All histories of the connection glue ([cop_ok]: wire values and write sizes are >= 0), against an
    OBSERVER that sees only each call and its return value ([ostep]; perspective given): which
    transport parameters the peer has shown (from the moment they are shown, not from the moment the
    implementation applies them), for every successfully opened stream — the returned ID tells
    its class — the largest limit those parameter sets or a MAX_STREAM_DATA gave it, the largest
    initial_max_data / MAX_DATA; a successful 0-RTT rejection voids streams and connection limit.
    Every stream stays within the observer's limit for it, all streams together within the
    observer's connection limit. [cowf]: after a 0-RTT rejection the handshake's parameters arrive
    before the handshake completes and before a stream is opened (the order connection.go
    guarantees: handleTransportParameters precedes handleHandshakeComplete). *)
Theorem C04_connglue_within_peer_limit : forall client ops, Forall cop_ok ops ->
  cowf client (cg_init client) (mkOS None [] 0 false) ops ->
  let c := fst (corun client (cg_init client) (mkOS None [] 0 false) ops) in
  let o := snd (corun client (cg_init client) (mkOS None [] 0 false) ops) in
  Forall2 (fun s il => cs_id s = fst il /\ 0 <= bytesSent (cs_fc s) <= snd il) (cc_streams c) (o_lims o) /\
  sumf fSentC (cc_streams c) = bytesSent (cc_conn c) /\ bytesSent (cc_conn c) <= o_clim o.
Proof. exact connglue_within_observed_limit. Qed.
Print Assumptions C04_connglue_within_peer_limit.

(** The same bound against the MODEL's own bookkeeping [ghstep] (it reads the model state: which
    parameters the implementation currently holds / has applied), for all histories without the
    ordering requirement: a stream never exceeds the limits the implementation has APPLIED to it.
    This is the invariant the proof of the theorem above goes through; it is not a specification
    independent of the model. *)
Theorem C04_connglue_within_applied_limit : forall client ops, Forall cop_ok ops ->
  let c := fst (cgrun (cg_init client) (ConnGlueProofs.mkGh [] 0) ops) in
  let g := snd (cgrun (cg_init client) (ConnGlueProofs.mkGh [] 0) ops) in
  Forall2 (fun s l => 0 <= bytesSent (cs_fc s) <= l) (cc_streams c) (g_lims g) /\
  sumf fSentC (cc_streams c) = bytesSent (cc_conn c) /\ bytesSent (cc_conn c) <= g_clim g.
Proof. exact connglue_within_peer_limit. Qed.
Print Assumptions C04_connglue_within_applied_limit.

Example C04_connglue_example :
  Forall cop_ok cg_ex /\
  snd (crun (cg_init true) cg_ex) =
    [[0]; [0]; [1; 0]; [1; 2]; [1; 1]; [300]; [300]; [300]; [3; 30; 60; 100; 3; 0; 30; 1; 60; 2; 100; 0];
     [0]; [0]; [0]; [3; 150; 151; 152; 3; 0; 150; 1; 151; 2; 152; 0]; [3; -1; -1; -1; 0; 0]] /\
  g_lims (snd (cgrun (cg_init true) (ConnGlueProofs.mkGh [] 0) cg_ex)) = [150; 151; 152].
Proof. exact connglue_example. Qed.
Print Assumptions C04_connglue_example.

(** the same history is well-ordered; the observer's limits for the three streams (IDs 0, 2, 1) *)
Example C04_connglue_example_observer :
  cowf true (cg_init true) (mkOS None [] 0 false) cg_ex /\
  o_lims (snd (corun true (cg_init true) (mkOS None [] 0 false) cg_ex)) = [(0, 150); (2, 151); (1, 152)] /\
  o_clim (snd (corun true (cg_init true) (mkOS None [] 0 false) cg_ex)) = 5000.
Proof. exact connglue_example_observer. Qed.
Print Assumptions C04_connglue_example_observer.

(** one stream's share of a drain: if it still has data while the connection has credit left, it
    stopped EXACTLY at its window; a STREAM_DATA_BLOCKED carries exactly that window (= the offset
    reached) and is remembered, so the same value is not reported by the next drain. *)
Theorem C04_connglue_blocked_at_limit : forall s conn l s1 c1 e blk,
  drain_stream s conn = (s1, c1, e, blk) -> SOK s l -> bytesSent conn <= sendWindow conn ->
  (0 < cs_pending s1 -> 0 < b_sendWindowSize c1 -> bytesSent (cs_fc s1) = sendWindow (cs_fc s1)) /\
  (blk <> -1 -> blk = sendWindow (cs_fc s1) /\ bytesSent (cs_fc s1) = blk /\
                lastBlockedAt (cs_fc s) <> blk /\ lastBlockedAt (cs_fc s1) = blk) /\
  (blk = -1 -> lastBlockedAt (cs_fc s1) = lastBlockedAt (cs_fc s)) /\
  sendWindow (cs_fc s1) = sendWindow (cs_fc s).
Proof. exact drain_stream_exact. Qed.
Print Assumptions C04_connglue_blocked_at_limit.

(** ** Composition with C03 (audit round): the receive-side caller discipline assumed above
    ([op_ok (SRead i n)]: a read consumes at most received - read; [rop_ok (ORead n called cls)]: bytes
    delivered <= received, io.EOF only at the final offset, the cancellation error only when the
    cancellation is effective) is what C03's model of receive_stream.go over the frame sorter
    guarantees for every Read in every reachable state of ITS histories: the bytes delivered are
    >= 0 and <= the request, the read position advances by exactly that much and stays <= the
    flow controller's highestReceived; io.EOF only with the final size known and readPos = final
    size = highestReceived; a cancellation error only when cancelled locally or the remote
    cancellation is effective (reliableSize <= readPos). [S] = the stream contents.
    Not a Coq theorem: that C03's [rpos] / [fc_highest] / [finalOffset] and RecvModel's [readPos] /
    [highestReceived] / [finalOffset] are the same Go fields (each model is replayed against the
    code by its own unit), and that AddBytesRead is called with exactly the bytes delivered (the
    recvglue monitor read-accounting checks it on every Read). *)
From V Require FrameSorter.Model RecvStream.Model RecvStream.Spec RecvStream.ProofsRecv FlowCtl.RecvCompose.

Theorem C04_read_discipline_from_C03 : forall (S : Z -> Z) w ops r n s' d e bug,
  0 <= w < FrameSorter.Model.MaxBC -> Forall RecvStream.Spec.rvalid ops ->
  RecvStream.Spec.rsrun S (RecvStream.Spec.rrun_init w) ops = Some r -> 0 <= n ->
  RecvStream.Model.Read (RecvStream.Spec.rr_st r) n = (s', d, e, bug) ->
  0 <= FrameSorter.Model.len d <= n /\
  RecvStream.Model.rpos s' = RecvStream.Model.rpos (RecvStream.Spec.rr_st r) + FrameSorter.Model.len d /\
  RecvStream.Model.rpos s' <= RecvStream.Model.fc_highest s' /\
  (e = RecvStream.Model.EEOF ->
     RecvStream.Model.fc_final s' = true /\ RecvStream.Model.rpos s' = RecvStream.Model.finalOffset s' /\
     RecvStream.Model.finalOffset s' = RecvStream.Model.fc_highest s') /\
  (forall c r0, e = RecvStream.Model.ECancel c r0 ->
     RecvStream.Model.cancelledLocally s' = true \/
     (RecvStream.Model.cancelledRemotely s' = true /\ RecvStream.Model.reliableSize s' <= RecvStream.Model.rpos s')).
Proof. exact FlowCtl.RecvCompose.read_discipline_reachable. Qed.
Print Assumptions C04_read_discipline_from_C03.
