(** C04 — flow control (placeholder while the correspondence is brought up). *)
From Coq Require Import List ZArith.
From V Require Import Gen.Params FlowCtl.Model.
