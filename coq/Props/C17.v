(** C17 — placeholder while the unit is being built. *)
From Coq Require Import List ZArith.
From V Require Import Gen.Params RunLoop.Model.
