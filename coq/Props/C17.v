(** C17 — every way a connection ends unblocks callers, informs the peer, frees resources.
    Only statements live here; each is closed by [exact] of a lemma of RunLoop/Proofs.v.
    The model (RunLoop/Model.v) mirrors connection.go's close / timer logic and closed_conn.go;
    it is tied to the code by the runloop correspondence unit. *)
From Coq Require Import List ZArith Bool.
From V Require Import Gen.Params RunLoop.Model RunLoop.Proofs.
From V Require ConnIDs.Routing ConnIDs.ProofsRouting.
From V Require RunLoop.Run RunLoop.SimRun RunLoop.ProofsSim RunLoop.ProofsConn.
From V Require ConnIDs.Model ConnIDs.GenRoute ConnIDs.ProofsGenRoute.
From V Require FrameSorter.Model RecvStream.Model RecvStream.Spec RunLoop.ProofsStreams.
Import ListNotations.
Open Scope Z_scope.

Definition ex_cfg_early : cfg := {| c_client := true; c_keepAlivePeriod := 0; c_maxIdleTimeout := 10000; c_hsIdleTimeout := 5000; c_ownAdvIdle := 0 |}.

(** (a) Whatever the run loop went through before and whatever close requests and events follow, the
    first close request is the recorded cause; after the fan-out with it every API call (open, accept,
    datagram, Read/Write on any stream not shut down before) returns that cause or the object's own terminal
    result, none parks. One exception, as the code has it: datagrams queued before the close are still handed out. *)
Theorem C17_single_cause : forall s l1 ce l2,
  closeErr (run s l1) = None ->
  closeErr (run s (l1 ++ EvClose ce :: l2)) = Some ce /\
  forall a c, fresh_streams a -> call_in_range a c ->
    let e := mapped_err ce in
    let r := api_call (fanout a e) c in
    r <> RBlock /\
    (r = RErr e \/ own_result r \/
     (c = CReceiveDatagram /\ a_rcvQueued a = true /\ r = ROk)).
Proof. exact single_cause. Qed.
Print Assumptions C17_single_cause.

(** ... for ANY NUMBER of goroutines parked in the same call: [ps] is a list of parked calls in which a call may
    occur several times (three AcceptStream callers, two AcceptUniStream callers, several OpenStreamSync waiters,
    several ReceiveDatagram callers, readers on different streams ...; at most one per stream direction, as the
    API requires). Every one of them is woken by the fan-out and returns the cause. *)
Theorem C17_single_cause_parked : forall a e ps, fresh_streams a -> Forall (call_in_range a) ps -> one_per_stream ps ->
  woken ps = ps /\
  Forall (fun c => let r := api_call (fanout a e) c in
                   r <> RBlock /\
                   (r = RErr e \/ own_result r \/ (c = CReceiveDatagram /\ a_rcvQueued a = true /\ r = ROk))) ps.
Proof. exact single_cause_parked. Qed.
Print Assumptions C17_single_cause_parked.

(** ... over every PER-STREAM STATE: end reached or not, cancellation error recorded or not, cancellation effective or
    not (a RESET_STREAM_AT whose reliable part is still incomplete is recorded but not effective: Read waits for the
    rest), data queued or not; send side: reset by STOP_SENDING, closed, room or not. After closeForShutdown neither a
    parked nor a later Read / Write parks; each returns the cause or the stream's own terminal result. *)
Theorem C17_streams_every_state : forall e,
  (forall r, r_read (r_closeForShutdown r e) <> RBlock /\
             (r_read (r_closeForShutdown r e) = RErr e \/ own_result (r_read (r_closeForShutdown r e)))) /\
  (forall s, s_shutdown s = None ->
             s_write (s_closeForShutdown s e) <> RBlock /\
             (s_write (s_closeForShutdown s e) = RErr e \/ own_result (s_write (s_closeForShutdown s e)))).
Proof.
  intros e. split; [intros r; exact (read_after_shutdown_every_state r e) | intros s; exact (write_after_shutdown_every_state s e)].
Qed.
Print Assumptions C17_streams_every_state.

(** why closeForShutdown must record the error unconditionally (what seeded change C17-d removes): with the
    condition "unless a cancellation error is recorded", the reader of a stream with a pending RESET_STREAM_AT stays parked *)
Theorem C17_conditional_shutdown_leaves_parked : forall e,
  let r := {| r_eof := false; r_cancelErr := true; r_cancel := false; r_shutdown := None; r_data := false |} in
  r_read (r_closeForShutdown_unless_cancelled r e) = RBlock /\ r_read (r_closeForShutdown r e) = RErr e.
Proof. exact conditional_shutdown_leaves_parked. Qed.
Print Assumptions C17_conditional_shutdown_leaves_parked.

(** the same on the C03 unit's full ReceiveStream model (frame sorter, flow control, reliable size; tied to
    receive_stream.go by C03's correspondence unit), citing C03_read_live / C03_peek_live: closeForShutdown latches every
    reachable stream state, so after it neither Read nor Peek parks — for every valid history of STREAM frames,
    RESET_STREAM(_AT) frames, reads, peeks and CancelRead calls. *)
Module C17_cites_C03.
Import V.FrameSorter.Model V.RecvStream.Model V.RecvStream.Spec.
Theorem C17_stream_unblocked_every_reachable_state : forall S w ops r n,
  0 <= w < MaxBC -> Forall rvalid ops -> rsrun S (rrun_init w) ops = Some r -> 0 < n ->
  (forall s' d e bug, Read (CloseForShutdown (rr_st r)) n = (s', d, e, bug) -> e <> EWouldBlock) /\
  (forall s' d e bug, PeekS (CloseForShutdown (rr_st r)) n = (s', d, e, bug) -> e <> EWouldBlock).
Proof. exact V.RunLoop.ProofsStreams.stream_unblocked_every_state. Qed.
Print Assumptions C17_stream_unblocked_every_reachable_state.

(** non-vacuity: the state the seeded change breaks — 3 bytes read, RESET_STREAM_AT with reliable size 10 — is reachable,
    a Read parks in it, and does not after closeForShutdown *)
Example C17_reset_at_pending_reachable :
  exists r, rsrun (fun i => i) (rrun_init 65536) [ROFrame 0 3 false None; RORead 3; ROReset 20 10 9] = Some r /\
    (let '(_, _, e, _) := Read (rr_st r) 5 in e) = EWouldBlock /\
    (let '(_, _, e, _) := Read (CloseForShutdown (rr_st r)) 5 in e) <> EWouldBlock.
Proof. eexists. split; [vm_compute; reflexivity|]. split; vm_compute; [reflexivity|discriminate]. Qed.
Print Assumptions C17_reset_at_pending_reachable.
End C17_cites_C03.

(** why the maps and the datagram queue must close a channel: a single token wakes one of two waiters *)
Theorem C17_one_token_leaves_parked : forall wk c, wk c = WakeOne -> woken_from wk [] [c; c] = [c].
Proof. exact one_token_leaves_parked. Qed.
Print Assumptions C17_one_token_leaves_parked.

Example C17_many_acceptors_woken :
  let ps := [CAcceptStream; CAcceptStream; CAcceptStream; CAcceptUniStream; CAcceptUniStream; COpenStreamSync; COpenStreamSync;
             CReceiveDatagram; CReceiveDatagram; CRead 0; CRead 1] in
  one_per_stream ps /\ woken ps = ps.
Proof. cbv zeta. split; [|reflexivity]. unfold one_per_stream. cbn. repeat constructor; cbn; intuition discriminate. Qed.
Print Assumptions C17_many_acceptors_woken.

(** the cause may also be a timeout the loop finds itself; it is recorded the same way and is one of the two timeouts *)
Theorem C17_single_cause_timeout : forall s l1 now pto ce l2,
  closeErr (run s l1) = None ->
  closeErr (step (run s l1) (EvWake now pto)) = Some ce ->
  closeErr (run s (l1 ++ EvWake now pto :: l2)) = Some ce /\
  (ce = {| ce_err := EIdle; ce_immediate := true |} \/ ce = {| ce_err := EHsTimeout; ce_immediate := true |}).
Proof. exact single_cause_timeout. Qed.
Print Assumptions C17_single_cause_timeout.

(** exactly one recorded cause, whatever races: if a cause is recorded after a history of events it is the request of
    one of its close events (application, peer's CONNECTION_CLOSE, Transport.Close / destroy, loop errors) or the timeout
    found by one of its wake-ups, and every extension of the history records the same one; of requests racing at one
    instant the one that reaches setCloseError first is recorded *)
Theorem C17_one_recorded_cause : forall l s ce, closeErr s = None -> closeErr (run s l) = Some ce ->
  (In (EvClose ce) l \/
   exists now pto, In (EvWake now pto) l /\
     (ce = {| ce_err := EIdle; ce_immediate := true |} \/ ce = {| ce_err := EHsTimeout; ce_immediate := true |})) /\
  forall l', closeErr (run s (l ++ l')) = Some ce.
Proof. exact recorded_cause_origin. Qed.
Print Assumptions C17_one_recorded_cause.

Theorem C17_race_first_wins : forall s reqs ce rest, closeErr s = None ->
  closeErr (run s (map EvClose (ce :: reqs) ++ rest)) = Some ce.
Proof. exact race_first_wins. Qed.
Print Assumptions C17_race_first_wins.

(** every later SendDatagram returns the cause, whether or not its queue has room
    (was refuted before datagramQueue.Add looked at the closed queue: finding F1) *)
Theorem C17_send_datagram_after_close : forall a e, api_call (fanout a e) CSendDatagram = RErr e.
Proof. exact send_datagram_after_close. Qed.
Print Assumptions C17_send_datagram_after_close.

(** the datagram queue is closed whatever the own Config.EnableDatagrams says (SendDatagram is gated on the PEER's
    support): a fan-out that skips it on a send-only connection — seeded change C17-f — lets a later SendDatagram
    succeed while the queue has room and park for ever when its 32 slots are full *)
Theorem C17_dg_close_must_not_depend_on_own_flag : forall e room,
  let a := {| a_mapErr := None; a_dgErr := None; a_rstreams := []; a_sstreams := []; a_canOpen := false;
              a_canAccept := false; a_rcvQueued := false; a_sendRoom := room |} in
  api_call (fanout_dg_if_enabled false a e) CSendDatagram = (if room then ROk else RBlock) /\
  api_call (fanout a e) CSendDatagram = RErr e.
Proof. exact dg_close_must_not_depend_on_own_flag. Qed.
Print Assumptions C17_dg_close_must_not_depend_on_own_flag.

(** regression: the former counterexample (queue with room, closed with an idle timeout) *)
Example C17_send_datagram_after_close_regression :
  api_call (fanout {| a_mapErr := None; a_dgErr := None; a_rstreams := []; a_sstreams := []; a_canOpen := false;
                      a_canAccept := false; a_rcvQueued := false; a_sendRoom := true |} EIdle) CSendDatagram = RErr EIdle.
Proof. reflexivity. Qed.
Print Assumptions C17_send_datagram_after_close_regression.

(** (b) A CONNECTION_CLOSE is produced iff the close is local, not immediate, not a stateless reset / abandoned
    attempt, (server or a packet was sent) and the anti-amplification limit is not used up; its kind and code
    are the cause's (anything else: INTERNAL_ERROR). *)
Theorem C17_close_frame_due : forall client sentFirstPacket ampl ce,
  ((exists isApp code, close_action client sentFirstPacket ampl ce = ActSendClose isApp code) <->
   (is_remote (mapped_err ce) = false /\ ce_immediate ce = false /\ silent_err (mapped_err ce) = false /\
    (client = false \/ sentFirstPacket = true) /\ ampl = false)) /\
  (forall isApp code, close_action client sentFirstPacket ampl ce = ActSendClose isApp code ->
     match mapped_err ce with
     | EApp _ c => isApp = true /\ code = c
     | ETransport _ c => isApp = false /\ code = c
     | _ => isApp = false /\ code = rl_InternalError
     end).
Proof. exact close_frame_due. Qed.
Print Assumptions C17_close_frame_due.

Theorem C17_internal_error_is_1 : rl_InternalError = 1.
Proof. exact internal_error_code. Qed.
Print Assumptions C17_internal_error_is_1.

(** for each request the code can issue: which of the three actions results *)
Theorem C17_code_request_frames : forall ce client sf, code_request ce -> (client = false \/ sf = true) ->
  match ce_err ce, ce_immediate ce with
  | EApp false c, false => close_action client sf false ce = ActSendClose true c
  | ETransport false c, false => close_action client sf false ce = ActSendClose false c
  | EOther _, false => close_action client sf false ce = ActSendClose false rl_InternalError
  | EApp true _, _ | ETransport true _, _ => close_action client sf false ce = ActReplaceClosedNil
  | _, _ => close_action client sf false ce = ActRemoveAll
  end.
Proof. exact code_request_frames. Qed.
Print Assumptions C17_code_request_frames.

(** timeouts found by the loop never put anything on the wire *)
Theorem C17_timeouts_silent : forall s now pto ce client sf ampl a c,
  closeErr s = None -> closeErr (step s (EvWake now pto)) = Some ce ->
  close_action client sf ampl ce <> ActSendClose a c.
Proof. exact timeouts_silent. Qed.
Print Assumptions C17_timeouts_silent.

(** every request of the code whose cause is a timeout, a stateless reset (detected by the transport or by the
    connection itself), a version-negotiation outcome (failure or re-creation), a cancelled dial or a close by
    the peer sends nothing (was refuted for the reset detected inside the connection and for the re-creation:
    findings F4, F5) *)
Theorem C17_silent_causes : forall ce client sf ampl a c, code_request ce ->
  match ce_err ce with
  | EIdle | EHsTimeout | EStatelessReset | EVersionNeg | ERecreate | ENil => True
  | EApp r _ | ETransport r _ => r = true
  | _ => False
  end ->
  close_action client sf ampl ce <> ActSendClose a c.
Proof. exact silent_causes. Qed.
Print Assumptions C17_silent_causes.

(** regression: the former counterexamples now remove the connection IDs and send nothing *)
Example C17_silent_causes_regression : forall client,
  close_action client true false {| ce_err := EStatelessReset; ce_immediate := false |} = ActRemoveAll /\
  close_action client true false {| ce_err := ERecreate; ce_immediate := false |} = ActRemoveAll.
Proof. intros []; split; reflexivity. Qed.
Print Assumptions C17_silent_causes_regression.

(** while the anti-amplification limit is used up nothing is sent either *)
Theorem C17_amplification_limited_silent : forall client sf ce a c, close_action client sf true ce <> ActSendClose a c.
Proof. exact amplification_limited_silent. Qed.
Print Assumptions C17_amplification_limited_silent.

(** CONNECTION_CLOSE while the handshake is in progress (packetPacker.packConnectionClose, RFC 9000 10.2.3): in Initial and
    Handshake packets an application close goes out as a transport close with APPLICATION_ERROR (0xc), so a peer that has
    not completed the handshake never sees an application error code; transport closes are the same at every level *)
Theorem C17_close_frame_during_handshake : forall isApp code,
  frame_at LInitial (isApp, code) = frame_at LHandshake (isApp, code) /\
  fst (frame_at LInitial (isApp, code)) = false /\
  (isApp = true -> frame_at LInitial (isApp, code) = (false, rl_ApplicationErrorErrorCode)) /\
  (isApp = false -> frame_at LInitial (isApp, code) = (false, code)) /\
  frame_at L1RTT (isApp, code) = (isApp, code) /\ frame_at L0RTT (isApp, code) = (isApp, code).
Proof. exact frame_at_levels. Qed.
Print Assumptions C17_close_frame_during_handshake.

Theorem C17_application_error_code_is_0xc : rl_ApplicationErrorErrorCode = 12.
Proof. exact application_error_code_is_0xc. Qed.
Print Assumptions C17_application_error_code_is_0xc.

(** the stand-in of a locally closed connection (closed_conn.go after the anti-amplification repair): the back-off
    gate of this unit's model — a copy can only go out for packet n if n is a power of two — ... *)
Theorem C17_closed_conn_gate : forall n, 0 < n < 2 ^ 32 ->
  (closed_reply n = true <-> exists k : nat, n = 2 ^ Z.of_nat k).
Proof. exact closed_reply_pow2. Qed.
Print Assumptions C17_closed_conn_gate.

(** ... and the full rule, as modelled (with the byte budget) and tied to the code by the C16 unit (ConnIDs/Routing.v):
    the packet delivered to a closedLocalConn is answered with a copy of the CONNECTION_CLOSE iff it is packet
    1, 2, 4, 8, ... AND the copy stays within three times the bytes received for the closed connection;
    the budget invariant sent <= 3 * received is kept by every delivery (RFC 9000 10.2.1). *)
Module C17_cites_C16.
Import V.ConnIDs.Routing.
Theorem C17_closed_conn_backoff : forall s c j size,
  hget c (rt_handlers s) = Some (HLocal j) ->
  let l := match zget j (rt_locals s) with Some v => v | None => mkL 0 0 0 0 end in
  0 <= l_cnt l -> l_cnt l + 1 < 4294967296 ->
  let r := snd (rt_step (RDeliver c size) s) in
  rr_kind r = 2 /\
  (rr_sent r = 1 <-> (exists k : nat, l_cnt l + 1 = 2 ^ Z.of_nat k) /\
                     l_sent l + l_psize l <= 3 * (l_recv l + size)) /\
  (rr_sent r = 0 \/ rr_sent r = 1).
Proof. exact V.ConnIDs.ProofsRouting.backoff_power_of_two. Qed.
Print Assumptions C17_closed_conn_backoff.

Theorem C17_closed_conn_budget : forall s c j size,
  hget c (rt_handlers s) = Some (HLocal j) -> 0 <= size ->
  let l := match zget j (rt_locals s) with Some v => v | None => mkL 0 0 0 0 end in
  0 <= l_psize l -> l_sent l <= 3 * l_recv l ->
  match zget j (rt_locals (fst (rt_step (RDeliver c size) s))) with
  | Some l' => l_sent l' <= 3 * l_recv l' /\ l_psize l' = l_psize l
  | None => False
  end.
Proof. exact V.ConnIDs.ProofsRouting.standin_amplification_step. Qed.
Print Assumptions C17_closed_conn_budget.
End C17_cites_C16.

(** (d) ErrIdleTimeout after the handshake is raised only at
    now >= max(last packet received, first ack-eliciting packet sent after it) + max(idleTimeout, 3 PTO),
    the three read off the history; idleTimeout = min(Config.MaxIdleTimeout, peer's). *)
Theorem C17_idle_not_early_history : forall s0 l now pto,
  0 <= lastRecv s0 -> firstAE s0 = 0 ->
  Forall (fun e => match e with EvRecv t | EvSentAE t => 0 < t | _ => True end) l ->
  closeErr (run s0 l) = None -> hsComplete (run s0 l) = true ->
  closeErr (step (run s0 l) (EvWake now pto)) = Some {| ce_err := EIdle; ce_immediate := true |} ->
  Z.max (hist_lastRecv (lastRecv s0) l) (hist_firstAE 0 l)
    + Z.max (hist_idle (cf s0) (idleTimeout s0) l) (3 * pto) <= now.
Proof. exact idle_not_early. Qed.
Print Assumptions C17_idle_not_early_history.

(** "not much later", over all histories: with the handshake complete, no keep-alive due (off, or its PING
    outstanding) and nothing else pending, the deadline the loop arms after the history IS that instant and the
    wake-up at it closes with ErrIdleTimeout; with an ACK alarm / loss timer / pacing / keep-alive pending the
    deadline is only earlier, never later. *)
Theorem C17_idle_not_late_history : forall s0 l pto,
  0 <= lastRecv s0 -> firstAE s0 = 0 -> timed l ->
  let s := run s0 l in
  let T := Z.max (hist_lastRecv (lastRecv s0) l) (hist_firstAE 0 l) + Z.max (hist_idle (cf s0) (idleTimeout s0) l) (3 * pto) in
  closeErr s = None -> hsComplete s = true ->
  (nextKA s pto = 0 -> pacing s = 0 ->
     maybeResetTimer s pto 0 0 0 = T /\
     closeErr (step s (EvWake (maybeResetTimer s pto 0 0 0) pto)) = Some {| ce_err := EIdle; ce_immediate := true |}) /\
  (forall retire ack loss, sane s -> 0 <= pto -> maybeResetTimer s pto retire ack loss <= T).
Proof. exact idle_not_late_history. Qed.
Print Assumptions C17_idle_not_late_history.

(** the own idle timer against RFC 9000 10.1's minimum of both advertised values: never shorter; longer only
    when the peer advertised less than MinRemoteIdleTimeout = 5 s, and then by less than 5 s - peer's value
    (an accepted deviation: by then the peer has silently closed; see notes/C17.md) *)
Theorem C17_idle_excess_bounded : forall s adv, 0 < adv -> 0 <= c_maxIdleTimeout (cf s) ->
  let own := idleTimeout (applyTP s (parse_idle adv) adv) in
  let rfc := Z.min (c_maxIdleTimeout (cf s)) adv in
  rfc <= own /\ own - rfc <= Z.max 0 (rl_MinRemoteIdleTimeout - adv) /\ own - rfc < rl_MinRemoteIdleTimeout /\
  (rl_MinRemoteIdleTimeout <= adv -> own = rfc).
Proof. exact idle_excess_bounded. Qed.
Print Assumptions C17_idle_excess_bounded.

Theorem C17_min_remote_idle_timeout_is_5s : rl_MinRemoteIdleTimeout = 5000000000.
Proof. exact min_remote_idle_timeout_5s. Qed.
Print Assumptions C17_min_remote_idle_timeout_is_5s.

(** the excess is attained: own 30 s, peer 1 s: timer at 5 s, RFC 1 s *)
Example C17_idle_excess_example :
  idleTimeout (applyTP (init {| c_client := true; c_keepAlivePeriod := 0; c_maxIdleTimeout := 30000000000; c_hsIdleTimeout := 0; c_ownAdvIdle := 0 |} 1)
                       (parse_idle 1000000000) 1000000000) = 5000000000.
Proof. reflexivity. Qed.
Print Assumptions C17_idle_excess_example.

(** the timer covers every source that can be due, in every block mode, before and after the handshake: the armed
    deadline is never later than the base deadline (handshake timeouts / idle timeout / keep-alive) nor than the next
    connection-ID retirement (connIDGenerator.NextRetireTime(), taken BEFORE the hard-blocked early return since removing
    a retired ID sends nothing; repo commit 1b7cb92); unless hard-blocked not later than the ACK alarm and the
    loss-detection timer; if not blocked at all not later than the pacing deadline; and it IS one of these instants. *)
Theorem C17_timer_covers_every_source : forall s pto retire ack loss,
  let d := maybeResetTimer s pto retire ack loss in
  d <= base_deadline s pto /\
  (retire <> 0 -> d <= retire) /\
  (blocked s <> rl_blockModeHardBlocked -> (ack <> 0 -> d <= ack) /\ (loss <> 0 -> d <= loss)) /\
  (blocked s <> rl_blockModeHardBlocked -> blocked s <> rl_blockModeCongestionLimited -> pacing s <> 0 -> d <= pacing s) /\
  (d = base_deadline s pto \/ d = retire \/ d = ack \/ d = loss \/ d = pacing s).
Proof. exact timer_covers_every_source. Qed.
Print Assumptions C17_timer_covers_every_source.

(** non-vacuity / regression of 1b7cb92: hard-blocked, idle timeout far away, a connection ID due for removal at 7000:
    the timer is armed for 7000 (before the repair the hard-blocked branch returned the idle timeout) *)
Example C17_retirement_wakes_hard_blocked :
  let s := step (step (step (init ex_cfg_early 1000) (EvHsComplete 30000 30000)) (EvRecv 2000)) (EvBlocked rl_blockModeHardBlocked) in
  maybeResetTimer s 100 7000 0 0 = 7000 /\ nextIdle s 100 = 12000.
Proof. vm_compute. split; reflexivity. Qed.
Print Assumptions C17_retirement_wakes_hard_blocked.

(** the deadline the loop arms after the handshake is never later than that instant, and is that instant when
    nothing else is pending; a wake-up at it declares the timeout *)
Theorem C17_idle_deadline : forall s pto,
  (forall retire ack loss, sane s -> 0 <= pto -> hsComplete s = true -> maybeResetTimer s pto retire ack loss <= nextIdle s pto) /\
  (hsComplete s = true -> nextKA s pto = 0 \/ blocked s <> rl_blockModeNone -> pacing s = 0 ->
     maybeResetTimer s pto 0 0 0 = nextIdle s pto) /\
  (hsComplete s = true -> nextKA s pto = 0 -> decide s (nextIdle s pto) pto = DIdleTimeout).
Proof.
  intros s pto. split; [|split].
  - intros retire ack loss. exact (deadline_le_idle s pto retire ack loss).
  - exact (deadline_eq_idle s pto).
  - exact (wake_at_idle_deadline_fires s pto).
Qed.
Print Assumptions C17_idle_deadline.

Theorem C17_handshake_timeouts_not_early : forall s now pto, closeErr s = None ->
  (hsComplete s = false ->
   closeErr (step s (EvWake now pto)) = Some {| ce_err := EIdle; ce_immediate := true |} ->
   idleStart s + c_hsIdleTimeout (cf s) <= now) /\
  (closeErr (step s (EvWake now pto)) = Some {| ce_err := EHsTimeout; ce_immediate := true |} ->
   hsComplete s = false /\ creation s + 2 * c_hsIdleTimeout (cf s) <= now).
Proof.
  intros s now pto H. split.
  - intros H1 H2. exact (hs_idle_not_early s now pto H H1 H2).
  - exact (hs_timeout_not_early s now pto H).
Qed.
Print Assumptions C17_handshake_timeouts_not_early.

(** keep-alive: with it enabled and block mode none the timer is armed no later than
    lastPacketReceived + max(keepAliveInterval, 1.5 PTO) (exactly then if nothing else is pending), a wake-up
    from then on queues the PING; and if every PING is answered within idleTimeout - that interval, no history
    of such rounds (with any extra wake-ups in between) reaches the idle branch. *)
Theorem C17_keepalive_prevents_idle :
  (forall s pto retire ack loss, ka_state s -> 0 <= pto ->
     maybeResetTimer s pto retire ack loss <= lastRecv s + Z.max (kaInterval s) (pto * 3 / 2)) /\
  (forall s pto, ka_state s -> 0 <= pto -> pacing s = 0 ->
     maybeResetTimer s pto 0 0 0 = lastRecv s + Z.max (kaInterval s) (pto * 3 / 2)) /\
  (forall s now pto, ka_state s -> 0 <= pto -> lastRecv s + Z.max (kaInterval s) (pto * 3 / 2) <= now ->
     decide s now pto = DKeepAlive) /\
  (forall rs s, ka_state s -> rounds_ok s rs -> closeErr (run_rounds s rs) = None /\ ka_state (run_rounds s rs)).
Proof.
  split; [exact ka_deadline|]. split; [exact ka_deadline_eq|]. split; [exact ka_wake_pings|exact keepalive_prevents_idle].
Qed.
Print Assumptions C17_keepalive_prevents_idle.

(** over ALL histories (any interleaving of receive / send / wake-up / block-mode / parameter events, no close request):
    as long as every wake-up comes before lastPacketReceived + idleTimeout no timeout is ever declared. This is the
    history form of "not early" and does not mention keep-alive by itself; keep-alive enters through
    [C17_keepalive_history] below: the histories built from keep-alive rounds — a PING queued at the armed deadline, answered in
    time — never reach the idle branch. *)
Theorem C17_no_timeout_while_packets_arrive : forall l s0,
  hsComplete s0 = true -> closeErr s0 = None -> no_close_requests l -> wakes_in_time s0 l ->
  closeErr (run s0 l) = None /\ hsComplete (run s0 l) = true.
Proof. exact no_idle_while_answered. Qed.
Print Assumptions C17_no_timeout_while_packets_arrive.

(** keep-alive rounds as event histories: in a state with keep-alive on and block mode none, each round is the history
    [wake-up at lastReceived + max(keepAliveInterval, 1.5 PTO): the PING is queued; the PING is sent; any number of further
    wake-ups; the answer] with the answer within max(idleTimeout, 3 PTO) - max(keepAliveInterval, 1.5 PTO) of the PING (the
    effective values for the round's PTO: on a path with a large PTO the idle period is 3 PTO). For every list of such
    rounds: the first wake-up of each round takes the keep-alive branch, no close error is ever recorded, and the state after
    the rounds is again a keep-alive state. *)
Theorem C17_keepalive_history : forall rs s, ka_state s -> rounds_ok s rs ->
  closeErr (run_rounds s rs) = None /\ ka_state (run_rounds s rs) /\
  (forall r rs', rs = r :: rs' -> decide s (lastRecv s + Z.max (kaInterval s) (rd_pto r * 3 / 2)) (rd_pto r) = DKeepAlive).
Proof.
  intros rs s K H. destruct (keepalive_prevents_idle rs s K H) as [A B]. split; [exact A|]. split; [exact B|].
  intros r rs' E. subst rs. destruct H as [Hr _]. exact (rounds_ping_each s r K Hr).
Qed.
Print Assumptions C17_keepalive_history.

(** non-vacuity on a path with a large PTO (8000): the effective keep-alive interval is 12000, above idleTimeout 10000, the
    effective idle period 24000; a round whose answer comes 5000 after the PING is accepted *)
Example C17_keepalive_round_large_pto :
  let s := step (step (init {| c_client := true; c_keepAlivePeriod := 4000; c_maxIdleTimeout := 10000; c_hsIdleTimeout := 5000; c_ownAdvIdle := 0 |} 1000)
                      (EvHsComplete 30000 30000)) (EvRecv 2000) in
  let rs := [ {| rd_pto := 8000; rd_wakes := [(15000, 8000)]; rd_recv := 19000 |} ] in
  ka_state s /\ rounds_ok s rs /\ kaEff s 8000 = 12000 /\ idleEff s 8000 = 24000 /\ closeErr (run_rounds s rs) = None.
Proof.
  cbv zeta. split; [unfold ka_state; vm_compute; repeat split; congruence|].
  split; [cbn [rounds_ok]; split; [|exact I]; unfold round_ok; vm_compute; repeat split; try congruence; repeat constructor; cbn; congruence|].
  repeat split; vm_compute; reflexivity.
Qed.
Print Assumptions C17_keepalive_round_large_pto.

(** the keep-alive branch precedes the timeout branches: when a PING is due and the idle deadline has passed as well
    (the timer was armed for the idle timeout because sending is congestion-limited or hard-blocked, or the loop is late), the
    iteration queues the PING and the timeout is declared by the next iteration, at the same instant *)
Theorem C17_idle_after_keepalive_iteration : forall s now pto,
  hsComplete s = true -> closeErr s = None -> decide s now pto = DKeepAlive -> nextIdle s pto <= now ->
  closeErr (step s (EvWake now pto)) = None /\
  closeErr (step (step s (EvWake now pto)) (EvWake now pto)) = Some {| ce_err := EIdle; ce_immediate := true |}.
Proof. exact idle_after_keepalive_iteration. Qed.
Print Assumptions C17_idle_after_keepalive_iteration.

(** non-vacuity: a history with interleaved sends, wake-ups and answers that satisfies the hypotheses *)
Example C17_keepalive_history_example :
  let s0 := step (step (init {| c_client := true; c_keepAlivePeriod := 4000; c_maxIdleTimeout := 10000; c_hsIdleTimeout := 5000; c_ownAdvIdle := 0 |} 1000)
                       (EvHsComplete 30000 30000)) (EvRecv 2000) in
  let l := [EvSentAE 2100; EvWake 6000 100; EvSentAE 6000; EvWake 7000 100; EvRecv 6100; EvBlocked 1; EvWake 10100 100; EvSentAE 10100; EvRecv 10200] in
  hsComplete s0 = true /\ closeErr s0 = None /\ no_close_requests l /\ wakes_in_time s0 l /\ kaSent (run s0 [EvSentAE 2100; EvWake 6000 100]) = true.
Proof.
  cbv zeta. split; [reflexivity|]. split; [reflexivity|]. split; [repeat constructor|]. split; [|reflexivity].
  intros l1 now pto l2 E.
  repeat (destruct l1 as [|? l1]; [inversion E; subst; vm_compute; reflexivity | inversion E; subst; clear E;
          match goal with H : _ = _ ++ _ :: _ |- _ => rename H into E end]).
  all: try (destruct l1; discriminate).
Qed.
Print Assumptions C17_keepalive_history_example.

(** applyTP (Go: applyTransport-Params) yields 0 <= keepAliveInterval <= idleTimeout/2, so the PING leaves half of the period for its answer *)
Theorem C17_keepalive_interval : forall s p a pto, 0 <= c_maxIdleTimeout (cf s) -> 0 <= c_keepAlivePeriod (cf s) -> 0 <= pto ->
  sane (applyTP s p a) /\ 2 * kaEff (applyTP s p a) pto <= idleEff (applyTP s p a) pto + 1.
Proof.
  intros s p a pto Hi Hk Hp. destruct (applyTP_sane s p a Hi Hk) as [S K]. split; [exact S|].
  apply ka_half; [exact Hp| |exact K]. destruct S as [S1 S2]. apply (Z.le_trans _ _ _ S1 S2).
Qed.
Print Assumptions C17_keepalive_interval.

(** ... and half of the period the PEER advertised, even where that is below the lower bound (5 s) applied to the
    own idle timer: the PINGs keep the peer from timing out (was violated: finding F3) *)
Theorem C17_keepalive_respects_peer : forall s p a, 0 < a -> kaInterval (applyTP s p a) <= a / 2.
Proof. exact applyTP_respects_peer. Qed.
Print Assumptions C17_keepalive_respects_peer.

(** ... and half of the period this endpoint itself put on the wire (a spec-driven client may advertise less than it
    enforces; the peer applies the minimum of both advertised values; repo 97504e3) *)
Theorem C17_keepalive_respects_own_advertised : forall s p a, 0 < c_ownAdvIdle (cf s) ->
  kaInterval (applyTP s p a) <= c_ownAdvIdle (cf s) / 2.
Proof. exact applyTP_respects_own_advertised. Qed.
Print Assumptions C17_keepalive_respects_own_advertised.

(** regression: the spec advertises 4 s, Config.MaxIdleTimeout 13 s, KeepAlivePeriod 6.6 s, the server 18 s: interval 2 s, not 6.5 s *)
Example C17_keepalive_respects_own_advertised_regression :
  kaInterval (applyTP (init {| c_client := true; c_keepAlivePeriod := 6600; c_maxIdleTimeout := 13000; c_hsIdleTimeout := 5000; c_ownAdvIdle := 4000 |} 1) 18000 18000) = 2000.
Proof. reflexivity. Qed.
Print Assumptions C17_keepalive_respects_own_advertised_regression.

(** regression: own idle timeout 15 s, KeepAlivePeriod 7.5 s, peer advertises 2 s (parsed as 5 s): interval 1 s, not 2.5 s *)
Example C17_keepalive_respects_peer_regression :
  kaInterval (applyTP (init {| c_client := true; c_keepAlivePeriod := 7500; c_maxIdleTimeout := 15000; c_hsIdleTimeout := 5000; c_ownAdvIdle := 0 |} 1) 5000 2000) = 1000.
Proof. reflexivity. Qed.
Print Assumptions C17_keepalive_respects_peer_regression.

(** (c) routing entries. [exit_routing] is this unit's summary of what handleCloseError asks of the routing table; that it
    is 0 after the expiry holds by its definition: *)
Theorem C17_routing_released_by_construction : forall client sf ampl ce elapsed expiry,
  (expiry <= elapsed -> exit_routing client sf ampl ce elapsed expiry = 0) /\
  (ce_immediate ce = true \/ silent_err (mapped_err ce) = true -> is_remote (mapped_err ce) = false ->
   exit_routing client sf ampl ce elapsed expiry = 0).
Proof. exact routing_released. Qed.
Print Assumptions C17_routing_released_by_construction.

(** The real content — RemoveAll deletes every ID of the connection, ReplaceWithClosed maps them to the stand-in and its
    timer deletes them at the expiry — is the C16 unit's (generator + routing-table model, tied to conn_id_generator.go /
    transport.go by C16's correspondence): for EVERY reachable state of a connection's ID generator and routing table
    and whatever close_action decides, after the action (and, for the two stand-in actions, once the closing period has
    passed) the table holds nothing of the connection and no timer is pending. *)
Module C17_routing_cites_C16.
Import V.ConnIDs.Model V.ConnIDs.Routing V.ConnIDs.GenRoute V.ConnIDs.ProofsGenRoute.
Definition gop_of (a : action) (ex : Z) : gop :=
  match a with
  | ActRemoveAll => GRemoveAll
  | ActReplaceClosedNil => GReplaceClosed false ex
  | ActSendClose _ _ => GReplaceClosed true ex
  end.
Theorem C17_routing_released : forall i cd l0 ops s client sf ampl ce ex d,
  cd <> Some i -> gr_reach i cd l0 ops s -> 0 < ex -> ex <= d ->
  let a := close_action client sf ampl ce in
  let s1 := fst (gr_step (GROp (gop_of a ex)) s) in
  let s2 := match a with ActRemoveAll => s1 | _ => fst (gr_step (GRAdvance d) s1) end in
  rt_timers (snd s2) = [] /\ forall c, hget c (rt_handlers (snd s2)) = None.
Proof.
  intros i cd l0 ops s client sf ampl ce ex d Hcd Hr Hex Hd.
  destruct (V.ConnIDs.ProofsGenRoute.gr_cleanup i cd l0 ops s Hcd Hr) as [R C].
  cbv zeta. destruct (close_action client sf ampl ce); cbn [gop_of].
  - exact (proj2 (C false ex d Hex Hd)).
  - exact R.
  - exact (proj2 (C true ex d Hex Hd)).
Qed.
Print Assumptions C17_routing_released.
End C17_routing_cites_C16.

(** a handshake that cannot even be started (StartHandshake or the first handleHandshakeEvents fails, with a plain error or
    with a TLS alert as a local transport error) goes through the same close path: nothing is sent, nothing stays registered,
    API objects and context get the very error Dial returns (was refuted when run() returned before its loop: finding F2) *)
Theorem C17_start_failure_released : forall client sf ampl e elapsed expiry a c,
  is_remote e = false -> e <> ENil ->
  exit_routing client sf ampl (start_failure e) elapsed expiry = 0 /\
  exit_fanout (start_failure e) = e /\ ctx_cause (start_failure e) = e /\
  close_action client sf ampl (start_failure e) <> ActSendClose a c.
Proof. exact start_failure_released. Qed.
Print Assumptions C17_start_failure_released.

(** the connection context is cancelled with the cause: for every close except the nil close, context.Cause is the same
    error the API objects are closed with *)
Theorem C17_context_cause_is_the_cause : forall ce, ce_err ce <> ENil -> ctx_cause ce = mapped_err ce.
Proof. exact ctx_cause_is_mapped. Qed.
Print Assumptions C17_context_cause_is_the_cause.

(** the nil close (destroy(nil): a dial whose context is cancelled) records two different errors: context.Canceled in the
    context, ApplicationError{} in the API objects. Accepted: the connection is never handed out (doDial returns
    context.Cause(ctx) and no Conn), so no caller can hold both; replayed on the real code by the runloop close cases with
    request kind 0. *)
Theorem C17_nil_close_two_causes : forall i,
  ctx_cause {| ce_err := ENil; ce_immediate := i |} = ECanceled /\ mapped_err {| ce_err := ENil; ce_immediate := i |} = EApp false 0.
Proof. exact nil_close_two_causes. Qed.
Print Assumptions C17_nil_close_two_causes.

(** ** The composed connection: the recorded cause reaches every API object and every parked goroutine

    Over all histories of run-loop events, API calls by any number of goroutines (a call that cannot proceed parks; a
    parked call is a continuation that re-evaluates its wait condition when woken) and the loop's exit, starting with
    untouched API objects: if run() has left its loop then a close error ce is recorded, every API object has been closed
    with exactly mapped_err ce, nobody is parked, everything handed to the goroutines that were parked is that error (or the
    object's own terminal result / a datagram queued before), a second exit changes nothing (handleCloseError runs once), and
    every later call returns at once with such a result. Before the exit nothing has touched the API objects, and an
    exit without a recorded close error does not happen. *)
Theorem C17_close_reaches_every_caller : forall s0 a0 l,
  fresh_streams a0 -> V.RunLoop.ProofsConn.calls_in_range a0 l ->
  let k := crun (conn_init s0 a0) l in
  (k_exited k = false -> k_api k = a0 /\ k_returned k = []) /\
  (k_exited k = true -> exists ce,
     closeErr (k_st k) = Some ce /\ k_api k = fanout a0 (mapped_err ce) /\ k_parked k = [] /\
     Forall (V.RunLoop.ProofsConn.good_result (mapped_err ce) (a_rcvQueued a0)) (k_returned k) /\
     fst (cstep k CExit) = k /\
     forall c, call_in_range a0 c -> exists r, cstep k (CCall c) = (k, Some r) /\
                                               V.RunLoop.ProofsConn.good_result (mapped_err ce) (a_rcvQueued a0) (c, r)).
Proof. exact V.RunLoop.ProofsConn.close_reaches_every_caller. Qed.
Print Assumptions C17_close_reaches_every_caller.

Theorem C17_exit_needs_cause : forall k, closeErr (k_st k) = None -> fst (cstep k CExit) = k.
Proof. exact V.RunLoop.ProofsConn.exit_needs_cause. Qed.
Print Assumptions C17_exit_needs_cause.

(** non-vacuity: three goroutines park in AcceptStream, one in Read, one in ReceiveDatagram; the application closes; the
    loop exits: all five are handed the application error, nobody is parked *)
Example C17_close_reaches_every_caller_example :
  let a0 := V.RunLoop.SimRun.sim_api in
  let ce := {| ce_err := EApp false 7; ce_immediate := false |} in
  let k := crun (conn_init (init ex_cfg_early 1000) a0)
                [CCall CAcceptStream; CCall CAcceptStream; CCall (CRead 0); CCall CAcceptStream; CCall CReceiveDatagram;
                 CLoop (EvClose ce); CLoop (EvClose {| ce_err := EIdle; ce_immediate := true |}); CExit; CExit] in
  k_exited k = true /\ k_parked k = [] /\
  k_returned k = [(CAcceptStream, RErr (EApp false 7)); (CAcceptStream, RErr (EApp false 7)); (CRead 0, RErr (EApp false 7));
                  (CAcceptStream, RErr (EApp false 7)); (CReceiveDatagram, RErr (EApp false 7))].
Proof. vm_compute. repeat split; reflexivity. Qed.
Print Assumptions C17_close_reaches_every_caller_example.

(** ** The simulated connections (simclose unit)

    Every scenario of the simclose unit — a real client and a real server over the simulated network, ended by one
    of its causes with calls parked on both sides — logs per side the recorded cause and whether the close was
    immediate (both read from Conn.closeErr), sentFirstPacket and handshakeComplete, and the replay [SimRun.check_side] compares the model's predictions
    with what the API calls returned, what the router saw and what the transports' routing tables hold. For every side the
    replay accepts: *)
Theorem C17_simulated_side : forall s, V.RunLoop.SimRun.check_side s = true ->
  let ce := {| ce_err := V.RunLoop.Run.errk_of (V.RunLoop.SimRun.sd_cause s); ce_immediate := V.RunLoop.SimRun.sd_immediate s |} in
  let frame := (let '(isApp, code) := close_frame (mapped_err ce) in (if isApp then 3 else 4, code)) in
  V.RunLoop.SimRun.sd_hs s = true /\
  Forall (fun kc => snd kc = 0) (V.RunLoop.SimRun.sd_parked s ++ V.RunLoop.SimRun.sd_later s) /\
  V.RunLoop.SimRun.sd_routing s = 0 /\
  (V.RunLoop.SimRun.sd_sent s = true <->
     is_remote (V.RunLoop.Run.errk_of (V.RunLoop.SimRun.sd_cause s)) = false /\ V.RunLoop.SimRun.sd_immediate s = false /\
     silent_err (V.RunLoop.Run.errk_of (V.RunLoop.SimRun.sd_cause s)) = false /\
     (V.RunLoop.SimRun.sd_client s = false \/ V.RunLoop.SimRun.sd_sentFirst s = true)) /\
  (V.RunLoop.SimRun.sd_delivered s = true -> V.RunLoop.SimRun.sd_sent s = true /\ V.RunLoop.SimRun.sd_peer s = Some frame) /\
  (forall p, V.RunLoop.SimRun.sd_peer s = Some p -> V.RunLoop.SimRun.sd_sent s = true /\ p = frame).
Proof. exact V.RunLoop.ProofsSim.accepted_side. Qed.
Print Assumptions C17_simulated_side.

(** non-vacuity: an observation as logged by a client that closed with application error 52, a copy of the frame delivered *)
Example C17_simulated_side_example :
  V.RunLoop.SimRun.check_side (V.RunLoop.SimRun.mkSide true (1, 52) false true true true [(0, 0); (2, 0); (6, 0)] [(8, 0); (7, 0); (1, 0)] 0 true (Some (3, 52))) = true /\
  V.RunLoop.SimRun.check_side (V.RunLoop.SimRun.mkSide true (1, 52) false true true true [] [] 0 true None) = false.
Proof. split; reflexivity. Qed.
Print Assumptions C17_simulated_side_example.

(** ** Non-vacuity *)

Definition ex_cfg : cfg := {| c_client := true; c_keepAlivePeriod := 4000; c_maxIdleTimeout := 10000; c_hsIdleTimeout := 5000; c_ownAdvIdle := 0 |}.
Definition ex_s : st := step (init ex_cfg 1000) (EvHsComplete 30000 30000).

(** a history that ends in the idle timeout, exactly at the bound of [C17_idle_not_early] *)
Example C17_idle_reachable :
  let l := [EvRecv 2000; EvSentAE 2500; EvSentAE 2600; EvWake 6000 100 (* keep-alive *); EvWake 12499 100] in
  closeErr (run ex_s l) = None /\ hsComplete (run ex_s l) = true /\
  closeErr (step (run ex_s l) (EvWake 12500 100)) = Some {| ce_err := EIdle; ce_immediate := true |} /\
  Z.max (hist_lastRecv (lastRecv ex_s) l) (hist_firstAE 0 l) + Z.max (hist_idle (cf ex_s) (idleTimeout ex_s) l) (3 * 100) = 12500.
Proof. vm_compute. repeat split; reflexivity. Qed.
Print Assumptions C17_idle_reachable.

(** keep-alive rounds exist: PING 4000 after the last packet, answered 100 later, twice, with wake-ups in between *)
Example C17_keepalive_rounds_exist :
  let s := step ex_s (EvRecv 2000) in
  let rs := [ {| rd_pto := 100; rd_wakes := [(6050, 100); (6100, 100)]; rd_recv := 6100 |};
              {| rd_pto := 120; rd_wakes := []; rd_recv := 15000 |} ] in
  ka_state s /\ rounds_ok s rs /\ lastRecv (run_rounds s rs) = 15000.
Proof.
  cbv zeta. split; [|split].
  - unfold ka_state. vm_compute. repeat split; congruence.
  - cbn [rounds_ok]. split; [|split; [|exact I]].
    + unfold round_ok. vm_compute. repeat split; try congruence; repeat constructor; cbn; congruence.
    + unfold round_ok. vm_compute. repeat split; try congruence; repeat constructor; cbn; congruence.
  - vm_compute. reflexivity.
Qed.
Print Assumptions C17_keepalive_rounds_exist.

(** two close requests race: the first one is recorded, the peer is told its code *)
Example C17_first_of_two :
  let l := [EvRecv 2000; EvClose {| ce_err := EApp false 7; ce_immediate := false |}; EvClose {| ce_err := EIdle; ce_immediate := true |}; EvWake 99999 1] in
  closeErr (run ex_s l) = Some {| ce_err := EApp false 7; ce_immediate := false |} /\
  close_action true true false {| ce_err := EApp false 7; ce_immediate := false |} = ActSendClose true 7.
Proof. vm_compute. split; reflexivity. Qed.
Print Assumptions C17_first_of_two.
